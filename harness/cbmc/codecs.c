/* codecs.c — CBMC harness (validation aid for C03/C04/C05, NOT a proof): the typed argument decoders of
 * /repo/src/cat.c run on a NUL-terminated working buffer of bounded size with ARBITRARY contents and an
 * arbitrary start position, storing into a variable of arbitrary data_size <= 4 placed between guard
 * bytes; CBMC checks every array bound, pointer dereference, signed overflow, shift and conversion in
 * these functions for ALL such inputs (bounded: BUFSZ bytes, loops unwound BUFSZ+2 times), and that the
 * guard bytes and the bytes at or beyond data_size are never written.
 * The library source is #included so that its static functions are reachable.  Build/run:
 *   cbmc -I/repo/src -DBUFSZ=8 codecs.c --function harness_<name> --unwind 11 --bounds-check --pointer-check
 *        --signed-overflow-check --unsigned-overflow-check? (no: wrap is defined) --undefined-shift-check --conversion-check=no */
#include <assert.h>
#include <stdint.h>
#include <string.h>
#include "cat.c"

#ifndef BUFSZ
#define BUFSZ 8
#endif

static uint8_t nondet_u8(void);
static size_t nondet_size(void);
static int nondet_int(void);

static struct cat_object obj;
static struct cat_descriptor desc;
static struct cat_command cmd;
static struct cat_variable var;
static uint8_t wbuf[BUFSZ];
static uint8_t store[1 + 4 + 1];          /* guard, up to 4 data bytes, guard */

static void setup(cat_var_type type)
{
        size_t i, dsz = nondet_size(), pos = nondet_size();
        int acc = nondet_int();
        __CPROVER_assume(dsz >= 1 && dsz <= 4);
        __CPROVER_assume(pos < BUFSZ);
        __CPROVER_assume(acc >= 0 && acc <= 2);
        for (i = 0; i < BUFSZ; i++) wbuf[i] = nondet_u8();
        wbuf[BUFSZ - 1] = 0;                        /* the collecting state always NUL-terminates the arguments */
        for (i = 0; i < sizeof store; i++) store[i] = 0xA5;
        memset(&obj, 0, sizeof obj); memset(&desc, 0, sizeof desc); memset(&cmd, 0, sizeof cmd); memset(&var, 0, sizeof var);
        desc.buf = wbuf; desc.buf_size = BUFSZ;
        desc.unsolicited_buf = wbuf; desc.unsolicited_buf_size = 0;   /* separate mode: the command buffer is all of wbuf */
        var.type = type; var.data = &store[1]; var.data_size = dsz; var.access = (cat_var_access)acc;
        cmd.var = &var; cmd.var_num = 1;
        obj.desc = &desc; obj.cmd = &cmd; obj.var = &var; obj.position = pos;
}

static void check_guards(void)
{
        size_t i;
        assert(store[0] == 0xA5);
        assert(store[5] == 0xA5);
        for (i = var.data_size; i < 4; i++) assert(store[1 + i] == 0xA5);      /* nothing at or beyond data_size */
        assert(obj.position <= BUFSZ);                                          /* the cursor never leaves the buffer */
        if (var.access == CAT_VAR_ACCESS_READ_ONLY)
                for (i = 0; i < 4; i++) assert(store[1 + i] == 0xA5);             /* a read-only variable is never written (C08) */
}

void harness_int(void)   { int64_t v;  setup(CAT_VAR_INT_DEC);  if (parse_int_decimal(&obj, &v) >= 0) (void)validate_int_range(&obj, v); check_guards(); }
void harness_uint(void)  { uint64_t v; setup(CAT_VAR_UINT_DEC); if (parse_uint_decimal(&obj, &v) >= 0) (void)validate_uint_range(&obj, v); check_guards(); }
void harness_hex(void)   { uint64_t v; setup(CAT_VAR_NUM_HEX);  if (parse_num_hexadecimal(&obj, &v) >= 0) (void)validate_uint_range(&obj, v); check_guards(); }
void harness_bufhex(void){ setup(CAT_VAR_BUF_HEX);    (void)parse_buffer_hexadecimal(&obj); check_guards(); }
void harness_bufstr(void){ setup(CAT_VAR_BUF_STRING); (void)parse_buffer_string(&obj);      check_guards(); }
