"""catlib.py — scenario builder, runners for the two executables (C driver built
from /repo, extracted Coq model) and trace parsing.  Python 3 stdlib only."""
import os, subprocess, sys, hashlib, random, concurrent.futures

VERIF = os.path.dirname(os.path.dirname(os.path.abspath(__file__)))
BUILD = os.environ.get('CAT_BUILD', os.path.join(VERIF, 'build'))
WORK = BUILD          # ./check points this at a private directory of the run (removed afterwards)
REPO = os.environ.get('CAT_REPO', '/repo')
CAPS = [1, 2, 3, 8]                # capacities the generators choose from
BUILD_CAPS = CAPS + [260]          # + one capacity above 255 for the family bigcap (index/counter widths)
DRV_TAG = os.environ.get('CAT_DRV_TAG', '')      # set per property by ./check so that concurrent checks do not share binaries

RC = dict(ERROR=-1, DATA_OK=0, DATA_NEXT=1, NEXT=2, OK=3, HOLD=4, HOLD_EXIT_OK=5,
          HOLD_EXIT_ERROR=6, LIST=7)
T_READ, T_TEST, T_NONE = 1, 3, -1
INT, UINT, HEX, BUFHEX, BUFSTR = 0, 1, 2, 3, 4
RW, RO, WO = 0, 1, 2


def hx(b):
    if isinstance(b, str):
        b = b.encode('latin-1')
    return b.hex() if len(b) else 'E'


def hxo(b):
    return '-' if b is None else hx(b)


class Var:
    def __init__(self, vtype, size, access=RW, hread=False, hwrite=False, name=None, init=None):
        self.vtype, self.size, self.access = vtype, size, access
        self.hread, self.hwrite, self.name = hread, hwrite, name
        self.init = bytes(init) if init is not None else bytes(size)
        self.slot = None


class Cmd:
    def __init__(self, name, descr=None, w=False, r=False, run=False, t=False, vars=(),
                 need_all=False, only_test=False, implicit=False):
        self.name, self.descr = name, descr
        self.w, self.r, self.run, self.t = w, r, run, t
        self.vars = list(vars)
        self.need_all, self.only_test, self.implicit = need_all, only_test, implicit
        self.ci = None


class Res:
    def __init__(self, code, edit=None, pokes=(), calls=()):
        self.code, self.edit, self.pokes, self.calls = code, edit, list(pokes), list(calls)

    def text(self):
        t = ['res', str(self.code), hxo(self.edit), str(len(self.pokes))]
        for slot, data in self.pokes:
            t += [str(slot), hx(data)]
        t.append(str(len(self.calls)))
        for c in self.calls:
            t += [str(x) for x in c]
        return ' '.join(t)


class Scn:
    """One scenario.  groups: list of lists of Cmd; extra: list of Cmd."""

    def __init__(self, name, cap=1, buf_size=64, ubuf_size=-1, fill=0, mutex=False):
        self.name, self.cap, self.buf_size, self.ubuf_size = name, cap, buf_size, ubuf_size
        self.fill, self.mutex = fill, mutex
        self.groups, self.extra, self.vars = [], [], []
        self.gnames = {}           # group index -> name (str/bytes); absent = unnamed (NULL)
        self.scripts = {}          # (kind, ci, vi) -> [Res]
        self.rd = self.wr = self.lk = self.ul = None
        self.ops = []
        self.meta = {}

    # ---- descriptor ----
    def add_group(self, cmds):
        self.groups.append(list(cmds))
        self._renumber()

    def add_extra(self, cmd):
        self.extra.append(cmd)
        self._renumber()

    def _renumber(self):
        self.vars = []
        i = 0
        for c in self.pool():
            c.ci = i
            i += 1
            for v in c.vars:
                v.slot = len(self.vars)
                self.vars.append(v)

    def cmds(self):
        return [c for g in self.groups for c in g]

    def pool(self):
        return self.cmds() + self.extra

    def asz(self):
        return self.buf_size if self.ubuf_size >= 0 else self.buf_size // 2

    def usz(self):
        return self.ubuf_size if self.ubuf_size >= 0 else self.buf_size // 2

    def script(self, kind, ci, vi, results):
        self.scripts[(kind, ci, vi)] = list(results)

    # ---- ops ----
    def feed(self, data):
        if isinstance(data, str):
            data = data.encode('latin-1')
        if len(data):
            self.ops.append('f ' + hx(data))

    def service(self, n=1):
        self.ops.append('s' if n == 1 else 'S %d' % n)

    def drain(self, n=4000):
        self.ops.append('D %d' % n)

    def op(self, s):
        self.ops.append(s)

    def text(self):
        L = ['scn ' + self.name, 'cap %d' % self.cap,
             'buf %d %d %d' % (self.buf_size, self.ubuf_size, self.fill),
             'mutex %d' % int(self.mutex)]
        for v in self.vars:
            L.append('var %d %d %d %d %d %d %s %s' % (v.slot, v.vtype, v.size, v.access, int(v.hread),
                                                     int(v.hwrite), hxo(v.name), hx(v.init)))

        def cl(tag, c):
            return '%s %s %s %d %d %d %d %d %d %d %d %s' % (
                tag, hx(c.name), hxo(c.descr), int(c.w), int(c.r), int(c.run), int(c.t),
                int(c.need_all), int(c.only_test), int(c.implicit), len(c.vars),
                ' '.join(str(v.slot) for v in c.vars))
        for gi, g in enumerate(self.groups):
            gn = self.gnames.get(gi)
            L.append('grp' if gn is None else 'grp ' + hx(gn))
            for c in g:
                L.append(cl('cmd', c).rstrip())
        for c in self.extra:
            L.append(cl('xcmd', c).rstrip())
        for (kind, ci, vi), rs in self.scripts.items():
            L.append('script %d %d %d' % (kind, ci, vi))
            for r in rs:
                L.append(r.text())
        for tag, bits in (('rd', self.rd), ('wr', self.wr), ('lk', self.lk), ('ul', self.ul)):
            if bits:
                L.append('%s %s' % (tag, ''.join('1' if b else '0' for b in bits)))
        L.append('ops')
        L += self.ops
        L.append('end')
        return '\n'.join(L) + '\n'


# ---------------- building the executables ----------------

def sh(cmd, **kw):
    return subprocess.run(cmd, shell=True, stdout=subprocess.PIPE, stderr=subprocess.STDOUT, text=True, **kw)


def build_cdrivers(caps=None, san=False, log=None):
    """(Re)build the C driver from /repo's current working tree, once per capacity.
    Returns (ok, message)."""
    caps = BUILD_CAPS if caps is None else caps
    os.makedirs(WORK, exist_ok=True)
    procs = []
    for cap in caps:
        out = os.path.join(WORK, 'cdriver_%s%scap%d' % (DRV_TAG, 'san_' if san else '', cap))
        if os.path.exists(out):
            os.remove(out)
        if san:
            cc = ('clang -O1 -g -fsanitize=address,undefined -fno-sanitize-recover=all '
                  '-fno-omit-frame-pointer')
        else:
            cc = 'gcc -O1 -g'
        cmd = '%s -I%s/src -DCAT_UNSOLICITED_CMD_BUFFER_SIZE=%d %s/harness/cdriver.c %s/src/cat.c -o %s' % (
            cc, REPO, cap, VERIF, REPO, out)
        procs.append((cap, out, subprocess.Popen(cmd, shell=True, stdout=subprocess.PIPE,
                                                 stderr=subprocess.STDOUT, text=True)))
    msgs = []
    ok = True
    for cap, out, p in procs:
        o, _ = p.communicate()
        if p.returncode != 0 or not os.path.exists(out):
            ok = False
            msgs.append('cap %d: %s' % (cap, o[-2000:]))
    return ok, '\n'.join(msgs)


def model_path():
    return os.path.join(BUILD, 'catmodel')


def _run_one(args):
    exe, text, timeout = args
    try:
        p = subprocess.run([exe], input=text, stdout=subprocess.PIPE, stderr=subprocess.PIPE,
                           text=True, timeout=timeout,
                           env=dict(os.environ, ASAN_OPTIONS='detect_leaks=0:abort_on_error=0',
                                    UBSAN_OPTIONS='print_stacktrace=1'))
        return p.stdout, p.stderr, p.returncode
    except subprocess.TimeoutExpired as e:
        so = e.stdout.decode() if isinstance(e.stdout, bytes) else (e.stdout or '')
        return so, 'TIMEOUT', -999


def split_traces(out):
    """trace text -> dict name -> list of lines (without scn/end), plus set of complete names"""
    res, done = {}, set()
    cur = None
    for line in out.split('\n'):
        if line.startswith('scn '):
            cur = line[4:].strip()
            res[cur] = []
        elif line == 'end':
            if cur is not None:
                done.add(cur)
            cur = None
        elif cur is not None and line != '':
            res[cur].append(line)
    return res, done


def run_exe(exe_for_cap, scns, shards=16, timeout=600):
    """Run scenarios (grouped by cap) through an executable.  Returns
    (traces: name -> lines, crashed: list of (name, stderr tail))."""
    by_cap = {}
    for s in scns:
        by_cap.setdefault(s.cap, []).append(s)
    jobs = []
    for cap, lst in by_cap.items():
        n = max(1, min(shards, len(lst) // 20 + 1))
        for i in range(n):
            part = lst[i::n]
            if part:
                jobs.append((exe_for_cap(cap), ''.join(s.text() for s in part), timeout, [s.name for s in part]))
    traces, crashed = {}, []
    with concurrent.futures.ThreadPoolExecutor(max_workers=16) as ex:
        results = list(ex.map(_run_one, [(j[0], j[1], j[2]) for j in jobs]))
    for (exe, text, _, names), (out, err, rc) in zip(jobs, results):
        tr, done = split_traces(out)
        traces.update(tr)
        if rc != 0 or len(done) != len(names):
            first_bad = next((n for n in names if n not in done), names[-1])
            crashed.append((first_bad, 'rc=%s %s' % (rc, err[-3000:])))
            # scenarios after the crash were not run: run them one by one
            rest = [n for n in names if n not in done and n != first_bad]
            if rest:
                by_name = {s.name: s for s in scns}
                sub = [by_name[n] for n in rest]
                t2, c2 = run_exe(exe_for_cap, sub, shards=1, timeout=timeout)
                traces.update(t2)
                crashed += c2
    return traces, crashed


def c_exe(cap, san=False):
    return os.path.join(WORK, 'cdriver_%s%scap%d' % (DRV_TAG, 'san_' if san else '', cap))


def run_c(scns, san=False, **kw):
    return run_exe(lambda cap: c_exe(cap, san), scns, **kw)


def run_model(scns, **kw):
    return run_exe(lambda cap: model_path(), scns, **kw)


# ---------------- trace helpers ----------------

def out_bytes(lines):
    """accepted output bytes of a trace"""
    return bytes(int(l.split()[1], 16) for l in lines if l.startswith('W ') and l.endswith(' 1'))


def consumed_bytes(lines):
    return bytes(int(l.split()[1], 16) for l in lines if l.startswith('R ') and l != 'R -')


def unhex(s):
    return b'' if s in ('E', '-') else bytes.fromhex(s)


class PRNG:
    """all random choices of a run derive from one seed"""

    def __init__(self, seed, tag=''):
        h = hashlib.sha256(('%s/%s' % (seed, tag)).encode()).digest()
        self.r = random.Random(int.from_bytes(h[:8], 'big'))

    def __getattr__(self, k):
        return getattr(self.r, k)

    def chance(self, p):
        return self.r.random() < p

    def bits(self, n, p_one=0.7):
        return [self.r.random() < p_one for _ in range(n)]
