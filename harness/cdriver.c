/* cdriver.c — executes scenario files against the real library (compiled from
 * /repo/src/cat.c of the current working tree) through the PUBLIC API only and
 * prints the canonical trace in exactly the format of extract/driver.ml.
 *
 * build: cc -O1 -I/repo/src -DCAT_UNSOLICITED_CMD_BUFFER_SIZE=<cap> cdriver.c /repo/src/cat.c
 */
#include "cat.h"

#include <stdio.h>
#include <stdlib.h>
#include <string.h>
#include <stdint.h>

#if defined(__SANITIZE_ADDRESS__)
#define WITH_ASAN 1
#elif defined(__has_feature)
#if __has_feature(address_sanitizer)
#define WITH_ASAN 1
#endif
#endif

#define MAXV 256
#define MAXC 320
#define MAXG 16
#define MAXS 256
#define MAXR 64
#define GUARD 16
#define GUARD_BYTE 0xC5

/* ---------- guarded allocation ---------- */
struct gbuf { uint8_t *base; uint8_t *p; size_t n; };

static struct gbuf galloc(size_t n, int fill)
{
        struct gbuf g;
#ifdef WITH_ASAN
        g.base = malloc(n ? n : 1);
        g.p = g.base;
#else
        g.base = malloc(n + 2 * GUARD);
        memset(g.base, GUARD_BYTE, n + 2 * GUARD);
        g.p = g.base + GUARD;
#endif
        g.n = n;
        memset(g.p, fill, n);
        return g;
}

static int gcheck(struct gbuf *g)
{
#ifdef WITH_ASAN
        (void)g;
        return 0;
#else
        size_t i;
        for (i = 0; i < GUARD; i++) {
                if (g->base[i] != GUARD_BYTE) return 1;
                if (g->p[g->n + i] != GUARD_BYTE) return 1;
        }
        return 0;
#endif
}

static void gfree(struct gbuf *g) { free(g->base); g->base = NULL; }

/* ---------- scenario ---------- */
struct res {
        int code;
        int has_edit; uint8_t *edit; size_t edit_len;
        int npokes; int poke_slot[8]; uint8_t *poke_data[8]; size_t poke_len[8];
        int ncalls; int call_kind[8]; int call_a[8]; int call_b[8];
};
struct script { int kind, ci, vi; int n, next; struct res r[MAXR]; };

static struct cat_object at;
static struct cat_descriptor desc;
static struct cat_io_interface iface;
static struct cat_mutex_interface mutex_if;
static int use_mutex;

static int nvars;
static struct gbuf vdata[MAXV];
static uint8_t *vshadow[MAXV];
static struct { int type, size, access, hr, hw; char *name; } vdef[MAXV];
static int var_owner_ci[MAXV], var_owner_vi[MAXV];

static int ncmds_total;                 /* pool size: registered + extra */
static int nreg;                        /* registered */
static struct cat_command *pool_ptr[MAXC];
static struct cat_variable *cmd_vars[MAXC];
static int cmd_nvars[MAXC];
static int cmd_slots[MAXC][MAXV];

static int ngroups;
static struct cat_command_group groups[MAXG];
static struct cat_command_group *group_ptrs[MAXG];
static struct cat_command *group_cmds[MAXG];
static int group_n[MAXG];
static struct cat_command *extra_cmds;
static int nextra;

static struct script scripts[MAXS];
static int nscripts;

static struct gbuf wbuf, ubuf;
static int buf_size, ubuf_size, fill;

static uint8_t *inq; static size_t inq_len, inq_pos, inq_cap;
static char *rd_bits, *wr_bits, *lk_bits, *ul_bits;
static size_t rd_pos, wr_pos, lk_pos, ul_pos;

static int pop_bit(const char *bits, size_t *pos)
{
        if (bits == NULL || bits[*pos] == 0) return 1;
        return bits[(*pos)++] == '1';
}

static int hexv(int c)
{
        if (c >= '0' && c <= '9') return c - '0';
        if (c >= 'a' && c <= 'f') return c - 'a' + 10;
        if (c >= 'A' && c <= 'F') return c - 'A' + 10;
        return 0;
}

/* "-" or "E" -> empty */
static uint8_t *unhex(const char *s, size_t *len)
{
        size_t n, i;
        uint8_t *p;
        if (strcmp(s, "-") == 0 || strcmp(s, "E") == 0) { *len = 0; return calloc(1, 1); }
        n = strlen(s) / 2;
        p = malloc(n + 1);
        for (i = 0; i < n; i++) p[i] = (uint8_t)(hexv(s[2 * i]) * 16 + hexv(s[2 * i + 1]));
        p[n] = 0;
        *len = n;
        return p;
}

static void print_hex(const uint8_t *p, size_t n)
{
        size_t i;
        if (n == 0) { fputs("E", stdout); return; }
        for (i = 0; i < n; i++) printf("%02x", p[i]);
}

/* trigger through the documented wrappers when the type allows it (so that they are exercised too) */
static cat_status do_trigger(struct cat_command const *cmd, cat_cmd_type type)
{
        if (type == CAT_CMD_TYPE_READ) return cat_trigger_unsolicited_read(&at, cmd);
        if (type == CAT_CMD_TYPE_TEST) return cat_trigger_unsolicited_test(&at, cmd);
        return cat_trigger_unsolicited_event(&at, cmd, type);
}

static int cmd_index(const struct cat_command *cmd)
{
        int i;
        for (i = 0; i < ncmds_total; i++) if (pool_ptr[i] == cmd) return i;
        return -1;
}

static void var_index(const struct cat_variable *var, int *ci, int *vi)
{
        int i, j;
        for (i = 0; i < ncmds_total; i++)
                for (j = 0; j < cmd_nvars[i]; j++)
                        if (&cmd_vars[i][j] == var) { *ci = i; *vi = j; return; }
        *ci = -1; *vi = -1;
}

static struct res default_cmd_res, default_var_res;

static struct res *next_res(int kind, int ci, int vi)
{
        int i;
        for (i = 0; i < nscripts; i++) {
                struct script *s = &scripts[i];
                if (s->kind == kind && s->ci == ci && s->vi == vi) {
                        if (s->next < s->n) return &s->r[s->next++];
                        break;
                }
        }
        return (kind >= 4) ? &default_var_res : &default_cmd_res;
}

static void apply_side_effects(struct res *r)
{
        int i;
        for (i = 0; i < r->npokes; i++) {
                int slot = r->poke_slot[i];
                if (slot < 0 || slot >= nvars) continue;
                if (r->poke_len[i] > vdata[slot].n) continue;    /* contract violation: ignored */
                memcpy(vdata[slot].p, r->poke_data[i], r->poke_len[i]);
        }
        for (i = 0; i < r->ncalls; i++) {
                if (r->call_kind[i] == 'T') {
                        cat_status s = do_trigger(pool_ptr[r->call_a[i]], (cat_cmd_type)r->call_b[i]);
                        printf("I t %d %d = %d\n", r->call_a[i], r->call_b[i], (int)s);
                } else {
                        cat_status s = cat_hold_exit(&at, (cat_status)r->call_a[i]);
                        printf("I x %d = %d\n", r->call_a[i], (int)s);
                }
        }
}

/* ---------- callbacks ---------- */
static cat_return_state cb_write(const struct cat_command *cmd, const uint8_t *data, const size_t data_size, const size_t args_num)
{
        int ci = cmd_index(cmd);
        struct res *r = next_res(0, ci, 0);
        printf("H w %d ", ci);
        print_hex(data, data_size + 1);
        printf(" %zu %zu -> %d\n", data_size, args_num, r->code);
        apply_side_effects(r);
        return (cat_return_state)r->code;
}

static cat_return_state rt_common(int kind, char tag, const struct cat_command *cmd, uint8_t *data, size_t *data_size, const size_t max_data_size)
{
        int ci = cmd_index(cmd);
        int f = (data == desc.buf) ? 0 : 1;
        struct res *r = next_res(kind, ci, 0);
        size_t shown = *data_size + 1;
        if (shown > max_data_size) shown = max_data_size;
        printf("H %c %d %d ", tag, f, ci);
        print_hex(data, shown);
        printf(" %zu %zu -> %d\n", *data_size, max_data_size, r->code);
        apply_side_effects(r);
        if (r->has_edit && r->edit_len < max_data_size) {
                memcpy(data, r->edit, r->edit_len);
                data[r->edit_len] = 0;
                *data_size = r->edit_len;
        }
        return (cat_return_state)r->code;
}

static cat_return_state cb_read(const struct cat_command *cmd, uint8_t *data, size_t *data_size, const size_t max_data_size)
{
        return rt_common(1, 'r', cmd, data, data_size, max_data_size);
}

static cat_return_state cb_test(const struct cat_command *cmd, uint8_t *data, size_t *data_size, const size_t max_data_size)
{
        return rt_common(3, 't', cmd, data, data_size, max_data_size);
}

static cat_return_state cb_run(const struct cat_command *cmd)
{
        int ci = cmd_index(cmd);
        struct res *r = next_res(2, ci, 0);
        printf("H n %d -> %d\n", ci, r->code);
        apply_side_effects(r);
        return (cat_return_state)r->code;
}

static int cb_var_read(const struct cat_variable *var)
{
        int ci, vi;
        struct res *r;
        var_index(var, &ci, &vi);
        r = next_res(4, ci, vi);
        printf("V r %d %d -> %d\n", ci, vi, r->code);
        apply_side_effects(r);
        return r->code;
}

static int cb_var_write(const struct cat_variable *var, const size_t write_size)
{
        int ci, vi, slot;
        struct res *r;
        var_index(var, &ci, &vi);
        r = next_res(5, ci, vi);
        slot = (ci >= 0) ? cmd_slots[ci][vi] : -1;
        printf("V w %d %d %zu ", ci, vi, write_size);
        if (slot >= 0) print_hex(vdata[slot].p, vdata[slot].n); else fputs("?", stdout);
        printf(" -> %d\n", r->code);
        apply_side_effects(r);
        return r->code;
}

static int io_write(char ch)
{
        int bit = pop_bit(wr_bits, &wr_pos);
        printf("W %02x %d\n", (unsigned)(uint8_t)ch, bit);
        return bit;
}

static int io_read(char *ch)
{
        int bit = pop_bit(rd_bits, &rd_pos);
        if (bit && inq_pos < inq_len) {
                *ch = (char)inq[inq_pos++];
                printf("R %02x\n", (unsigned)(uint8_t)*ch);
                return 1;
        }
        puts("R -");
        return 0;
}

static int mu_lock(void)
{
        int bit = pop_bit(lk_bits, &lk_pos);
        printf("L %d\n", bit);
        return bit ? 0 : 1;
}

static int mu_unlock(void)
{
        int bit = pop_bit(ul_bits, &ul_pos);
        printf("U %d\n", bit);
        return bit ? 0 : 1;
}

/* ---------- scenario construction ---------- */
static char *tok[256];
static int ntok;

static void split(char *line)
{
        char *p = strtok(line, " \t\r\n");
        ntok = 0;
        while (p != NULL && ntok < 256) { tok[ntok++] = p; p = strtok(NULL, " \t\r\n"); }
}

static char *cstr_from_hex(const char *s)
{
        size_t n;
        if (strcmp(s, "-") == 0) return NULL;
        return (char *)unhex(s, &n);
}

/* pending command definitions until "ops" */
struct cdef { int group; char *name, *descr; int hw, hr, hrun, ht, na, ot, imp; int nv; int slots[MAXV]; };
static struct cdef cdefs[MAXC]; static int ncdefs;
static struct cdef xdefs[MAXC]; static int nxdefs;
static int cur_group;
static char *gname[MAXG];          /* optional group names (NULL = unnamed) */

static void parse_cdef(struct cdef *c, int group)
{
        int i;
        c->group = group;
        c->name = cstr_from_hex(tok[1]);
        if (c->name == NULL) c->name = calloc(1, 1);
        c->descr = cstr_from_hex(tok[2]);
        c->hw = atoi(tok[3]); c->hr = atoi(tok[4]); c->hrun = atoi(tok[5]); c->ht = atoi(tok[6]);
        c->na = atoi(tok[7]); c->ot = atoi(tok[8]); c->imp = atoi(tok[9]);
        c->nv = atoi(tok[10]);
        for (i = 0; i < c->nv; i++) c->slots[i] = atoi(tok[11 + i]);
}

static void fill_cmd(struct cat_command *cmd, struct cdef *c, int ci)
{
        int j;
        memset(cmd, 0, sizeof(*cmd));
        cmd->name = c->name;
        cmd->description = c->descr;
        cmd->write = c->hw ? cb_write : NULL;
        cmd->read = c->hr ? cb_read : NULL;
        cmd->run = c->hrun ? cb_run : NULL;
        cmd->test = c->ht ? cb_test : NULL;
        cmd->need_all_vars = c->na; cmd->only_test = c->ot; cmd->disable = false; cmd->implicit_write = c->imp;
        cmd_nvars[ci] = c->nv;
        if (c->nv > 0) {
                cmd_vars[ci] = calloc((size_t)c->nv, sizeof(struct cat_variable));
                for (j = 0; j < c->nv; j++) {
                        int slot = c->slots[j];
                        struct cat_variable *v = &cmd_vars[ci][j];
                        v->name = vdef[slot].name;
                        v->type = (cat_var_type)vdef[slot].type;
                        v->data = vdata[slot].p;
                        v->data_size = (size_t)vdef[slot].size;
                        v->access = (cat_var_access)vdef[slot].access;
                        v->write = vdef[slot].hw ? cb_var_write : NULL;
                        v->read = vdef[slot].hr ? cb_var_read : NULL;
                        cmd_slots[ci][j] = slot;
                        var_owner_ci[slot] = ci; var_owner_vi[slot] = j;
                }
                cmd->var = cmd_vars[ci];
                cmd->var_num = (size_t)c->nv;
        } else {
                cmd_vars[ci] = NULL;
                cmd->var = NULL;
                cmd->var_num = 0;
        }
        pool_ptr[ci] = cmd;
}

static void fill_buffers(void)
{
        memset(wbuf.p, fill, wbuf.n);
        if (ubuf_size >= 0) memset(ubuf.p, fill, ubuf.n);
}

static void build(void)
{
        int g, i, ci = 0;
        ngroups = cur_group + 1;
        if (ncdefs == 0) ngroups = 0;
        for (g = 0; g < ngroups; g++) {
                int n = 0, k = 0;
                for (i = 0; i < ncdefs; i++) if (cdefs[i].group == g) n++;
                group_n[g] = n;
                group_cmds[g] = calloc((size_t)(n ? n : 1), sizeof(struct cat_command));
                for (i = 0; i < ncdefs; i++) if (cdefs[i].group == g) fill_cmd(&group_cmds[g][k++], &cdefs[i], ci++);
                groups[g].name = gname[g];
                groups[g].cmd = group_cmds[g];
                groups[g].cmd_num = (size_t)n;
                groups[g].disable = false;
                group_ptrs[g] = &groups[g];
        }
        nreg = ci;
        nextra = nxdefs;
        extra_cmds = calloc((size_t)(nextra ? nextra : 1), sizeof(struct cat_command));
        for (i = 0; i < nxdefs; i++) fill_cmd(&extra_cmds[i], &xdefs[i], ci++);
        ncmds_total = ci;

        wbuf = galloc((size_t)buf_size, fill);
        if (ubuf_size >= 0) ubuf = galloc((size_t)ubuf_size, fill);
        desc.cmd_group = group_ptrs;
        desc.cmd_group_num = (size_t)ngroups;
        desc.buf = wbuf.p;
        desc.buf_size = (size_t)buf_size;
        desc.unsolicited_buf = (ubuf_size >= 0) ? ubuf.p : NULL;
        desc.unsolicited_buf_size = (ubuf_size >= 0) ? (size_t)ubuf_size : 0;
        iface.read = io_read;
        iface.write = io_write;
        mutex_if.lock = mu_lock;
        mutex_if.unlock = mu_unlock;
        cat_init(&at, &desc, &iface, use_mutex ? &mutex_if : NULL);
}

static void after_op(void)
{
        int i;
        for (i = 0; i < nvars; i++) {
                if (memcmp(vshadow[i], vdata[i].p, vdata[i].n) != 0) {
                        printf("M %d ", i);
                        print_hex(vdata[i].p, vdata[i].n);
                        putchar('\n');
                        memcpy(vshadow[i], vdata[i].p, vdata[i].n);
                }
                if (gcheck(&vdata[i])) printf("CANARY var %d\n", i);
        }
        if (gcheck(&wbuf)) puts("CANARY buf");
        if (ubuf_size >= 0 && gcheck(&ubuf)) puts("CANARY ubuf");
}

/* snapshot for failed-lock calls (C16) */
static uint8_t *snap; static size_t snap_n;
static void take_snapshot(void)
{
        size_t n = sizeof(at) + wbuf.n + (ubuf_size >= 0 ? ubuf.n : 0), off = 0;
        int i;
        for (i = 0; i < nvars; i++) n += vdata[i].n;
        snap = realloc(snap, n ? n : 1);
        snap_n = n;
        memcpy(snap + off, &at, sizeof(at)); off += sizeof(at);
        memcpy(snap + off, wbuf.p, wbuf.n); off += wbuf.n;
        if (ubuf_size >= 0) { memcpy(snap + off, ubuf.p, ubuf.n); off += ubuf.n; }
        for (i = 0; i < nvars; i++) { memcpy(snap + off, vdata[i].p, vdata[i].n); off += vdata[i].n; }
}
static int snapshot_changed(void)
{
        size_t off = 0;
        int i;
        if (memcmp(snap + off, &at, sizeof(at)) != 0) return 1;
        off += sizeof(at);
        if (memcmp(snap + off, wbuf.p, wbuf.n) != 0) return 1;
        off += wbuf.n;
        if (ubuf_size >= 0) { if (memcmp(snap + off, ubuf.p, ubuf.n) != 0) return 1; off += ubuf.n; }
        for (i = 0; i < nvars; i++) { if (memcmp(snap + off, vdata[i].p, vdata[i].n) != 0) return 1; off += vdata[i].n; }
        return 0;
}

static int ret(const char *code, int status)
{
        if (use_mutex && status == CAT_STATUS_ERROR_MUTEX_LOCK && snapshot_changed())
                puts("OBJCHANGED after failed lock");
        printf("= %s %d\n", code, status);
        after_op();
        return status;
}

static int do_service(void)
{
        if (use_mutex) take_snapshot();
        return ret("s", (int)cat_service(&at));
}

static void dump_buffers(void)
{
        size_t asz = (ubuf_size >= 0) ? (size_t)buf_size : (size_t)buf_size / 2;
        fputs("B ", stdout);
        print_hex(wbuf.p, asz);
        putchar(' ');
        if (ubuf_size >= 0) print_hex(ubuf.p, ubuf.n);
        else print_hex(wbuf.p + ((size_t)buf_size >> 1), (size_t)buf_size >> 1);
        putchar('\n');
        if (ubuf_size < 0 && (buf_size & 1) && wbuf.p[buf_size - 1] != (uint8_t)fill)
                puts("TAILBYTE changed");
}

static void run_op(void)
{
        const char *o = tok[0];
        if (strcmp(o, "s") == 0) {
                do_service();
        } else if (strcmp(o, "S") == 0) {
                int k = atoi(tok[1]);
                while (k-- > 0) do_service();
        } else if (strcmp(o, "D") == 0) {
                int k = atoi(tok[1]), i;
                for (i = 0; i < k; i++) if (do_service() == 0 && inq_pos >= inq_len) break;
        } else if (strcmp(o, "f") == 0) {
                size_t n; uint8_t *p = unhex(tok[1], &n);
                if (inq_len + n > inq_cap) { inq_cap = (inq_len + n) * 2 + 64; inq = realloc(inq, inq_cap); }
                memcpy(inq + inq_len, p, n); inq_len += n; free(p);
                after_op();
        } else if (strcmp(o, "t") == 0) {
                if (use_mutex) take_snapshot();
                ret("t", (int)do_trigger(pool_ptr[atoi(tok[1])], (cat_cmd_type)atoi(tok[2])));
        } else if (strcmp(o, "x") == 0) {
                if (use_mutex) take_snapshot();
                ret("x", (int)cat_hold_exit(&at, (cat_status)atoi(tok[1])));
        } else if (strcmp(o, "b") == 0) {
                if (use_mutex) take_snapshot();
                ret("b", (int)cat_is_busy(&at));
        } else if (strcmp(o, "h") == 0) {
                if (use_mutex) take_snapshot();
                ret("h", (int)cat_is_hold(&at));
        } else if (strcmp(o, "u") == 0) {
                if (use_mutex) take_snapshot();
                ret("u", (int)cat_is_unsolicited_buffer_full(&at));
        } else if (strcmp(o, "q") == 0) {
                if (use_mutex) take_snapshot();
                ret("q", (int)cat_is_unsolicited_event_buffered(&at, pool_ptr[atoi(tok[1])], (cat_cmd_type)atoi(tok[2])));
        } else if (strcmp(o, "g") == 0) {
                struct cat_command const *c = cat_get_processed_command(&at, (cat_fsm_type)atoi(tok[1]));
                if (use_mutex) take_snapshot();
                ret("g", c == NULL ? -1 : cmd_index(c));
        } else if (strcmp(o, "dc") == 0) {
                pool_ptr[atoi(tok[1])]->disable = atoi(tok[2]) != 0;
                if (use_mutex) take_snapshot();
                ret("dc", 0);
        } else if (strcmp(o, "dg") == 0) {
                groups[atoi(tok[1])].disable = atoi(tok[2]) != 0;
                if (use_mutex) take_snapshot();
                ret("dg", 0);
        } else if (strcmp(o, "p") == 0) {
                size_t n; uint8_t *p = unhex(tok[2], &n);
                int slot = atoi(tok[1]);
                if (slot >= 0 && slot < nvars && n <= vdata[slot].n) memcpy(vdata[slot].p, p, n);
                free(p);
                after_op();
        } else if (strcmp(o, "N") == 0) {
                fill_buffers();
                memset(&at, 0, sizeof at);        /* a genuinely fresh object, as a newly created parser would be */
                cat_init(&at, &desc, &iface, use_mutex ? &mutex_if : NULL);
                after_op();
        } else if (strcmp(o, "NI") == 0) {
                /* cat_init again on the USED object (not zeroed): whatever cat_init does not assign keeps its old value */
                fill_buffers();
                cat_init(&at, &desc, &iface, use_mutex ? &mutex_if : NULL);
                after_op();
        } else if (strcmp(o, "sc") == 0) {
                size_t n; uint8_t *p = unhex(tok[1], &n);
                char *nm = calloc(n + 1, 1);
                const struct cat_command *f;
                memcpy(nm, p, n);
                f = cat_search_command_by_name(&at, nm);
                printf("= sc %d\n", f == NULL ? -1 : cmd_index(f));
                free(nm); free(p);
        } else if (strcmp(o, "sg") == 0) {
                size_t n; uint8_t *p = unhex(tok[1], &n);
                char *nm = calloc(n + 1, 1);
                const struct cat_command_group *f;
                memcpy(nm, p, n);
                f = cat_search_command_group_by_name(&at, nm);
                printf("= sg %d\n", f == NULL ? -1 : (int)(f - groups));
                free(nm); free(p);
        } else if (strcmp(o, "sv") == 0) {
                size_t n; uint8_t *p = unhex(tok[2], &n);
                char *nm = calloc(n + 1, 1);
                int ci = atoi(tok[1]);
                memcpy(nm, p, n);
                if (ci < 0 || ci >= ncmds_total) printf("= sv -2\n");
                else {
                        const struct cat_variable *f = cat_search_variable_by_name(&at, pool_ptr[ci], nm);
                        int a = -1, b = -1;
                        if (f != NULL) var_index(f, &a, &b);
                        printf("= sv %d\n", f == NULL ? -1 : b);
                }
                free(nm); free(p);
        } else if (strcmp(o, "B") == 0) {
                dump_buffers();
        } else {
                fprintf(stderr, "bad op %s\n", o);
                exit(2);
        }
}

static void reset_all(void)
{
        int i, j;
        for (i = 0; i < nvars; i++) { gfree(&vdata[i]); free(vshadow[i]); free(vdef[i].name); }
        nvars = 0;
        for (i = 0; i < ncmds_total; i++) { free(cmd_vars[i]); cmd_vars[i] = NULL; cmd_nvars[i] = 0; }
        for (i = 0; i < ngroups; i++) { free(group_cmds[i]); group_cmds[i] = NULL; }
        free(extra_cmds); extra_cmds = NULL;
        for (i = 0; i < ncdefs; i++) { free(cdefs[i].name); free(cdefs[i].descr); }
        for (i = 0; i < nxdefs; i++) { free(xdefs[i].name); free(xdefs[i].descr); }
        for (i = 0; i < MAXG; i++) { free(gname[i]); gname[i] = NULL; }
        ncdefs = nxdefs = 0; cur_group = -1; ngroups = 0; ncmds_total = 0; nreg = 0; nextra = 0;
        for (i = 0; i < nscripts; i++)
                for (j = 0; j < scripts[i].n; j++) {
                        int k;
                        free(scripts[i].r[j].edit);
                        for (k = 0; k < scripts[i].r[j].npokes; k++) free(scripts[i].r[j].poke_data[k]);
                }
        nscripts = 0;
        if (wbuf.base) gfree(&wbuf);
        if (ubuf.base) gfree(&ubuf);
        free(rd_bits); free(wr_bits); free(lk_bits); free(ul_bits);
        rd_bits = wr_bits = lk_bits = ul_bits = NULL;
        rd_pos = wr_pos = lk_pos = ul_pos = 0;
        inq_len = inq_pos = 0;
        buf_size = 64; ubuf_size = -1; fill = 0; use_mutex = 0;
}

static char *bits_dup(const char *s) { return strcmp(s, "-") == 0 ? NULL : strdup(s); }

int main(void)
{
        static char line[1 << 16];
        int in_ops = 0;
        struct script *cur = NULL;

        default_cmd_res.code = 3;
        default_var_res.code = 0;
        cur_group = -1;
        buf_size = 64; ubuf_size = -1;

        while (fgets(line, sizeof(line), stdin) != NULL) {
                split(line);
                if (ntok == 0) continue;
                if (strcmp(tok[0], "scn") == 0) {
                        reset_all();
                        in_ops = 0; cur = NULL;
                        printf("scn %s\n", tok[1]);
                        continue;
                }
                if (strcmp(tok[0], "end") == 0) {
                        if (!in_ops) build();
                        puts("end");
                        fflush(stdout);
                        in_ops = 0;
                        continue;
                }
                if (in_ops) {
                        int i;
                        putchar('>');
                        for (i = 0; i < ntok; i++) printf(" %s", tok[i]);
                        putchar('\n');
                        run_op();
                        continue;
                }
                if (strcmp(tok[0], "cap") == 0) {
                        if ((size_t)atoi(tok[1]) != (size_t)CAT_UNSOLICITED_CMD_BUFFER_SIZE) {
                                fprintf(stderr, "scenario cap %s but driver built with %zu\n", tok[1], (size_t)CAT_UNSOLICITED_CMD_BUFFER_SIZE);
                                exit(2);
                        }
                } else if (strcmp(tok[0], "buf") == 0) {
                        buf_size = atoi(tok[1]); ubuf_size = atoi(tok[2]); fill = atoi(tok[3]);
                } else if (strcmp(tok[0], "mutex") == 0) {
                        use_mutex = atoi(tok[1]);
                } else if (strcmp(tok[0], "var") == 0) {
                        size_t n; uint8_t *p = unhex(tok[8], &n);
                        int i = nvars++;
                        vdef[i].type = atoi(tok[2]); vdef[i].size = atoi(tok[3]); vdef[i].access = atoi(tok[4]);
                        vdef[i].hr = atoi(tok[5]); vdef[i].hw = atoi(tok[6]);
                        vdef[i].name = cstr_from_hex(tok[7]);
                        vdata[i] = galloc(n, 0);
                        memcpy(vdata[i].p, p, n);
                        vshadow[i] = malloc(n ? n : 1);
                        memcpy(vshadow[i], p, n);
                        free(p);
                } else if (strcmp(tok[0], "grp") == 0) {
                        cur_group++;
                        free(gname[cur_group]);
                        gname[cur_group] = (ntok > 1) ? cstr_from_hex(tok[1]) : NULL;
                } else if (strcmp(tok[0], "cmd") == 0) {
                        if (cur_group < 0) cur_group = 0;
                        parse_cdef(&cdefs[ncdefs++], cur_group);
                } else if (strcmp(tok[0], "xcmd") == 0) {
                        parse_cdef(&xdefs[nxdefs++], -1);
                } else if (strcmp(tok[0], "script") == 0) {
                        cur = &scripts[nscripts++];
                        memset(cur, 0, sizeof(*cur));
                        cur->kind = atoi(tok[1]); cur->ci = atoi(tok[2]); cur->vi = atoi(tok[3]);
                } else if (strcmp(tok[0], "res") == 0) {
                        struct res *r = &cur->r[cur->n++];
                        int k = 3, i;
                        memset(r, 0, sizeof(*r));
                        r->code = atoi(tok[1]);
                        if (strcmp(tok[2], "-") != 0) { r->has_edit = 1; r->edit = unhex(tok[2], &r->edit_len); }
                        if (k < ntok) {
                                r->npokes = atoi(tok[k++]);
                                for (i = 0; i < r->npokes; i++) {
                                        r->poke_slot[i] = atoi(tok[k++]);
                                        r->poke_data[i] = unhex(tok[k++], &r->poke_len[i]);
                                }
                        }
                        if (k < ntok) {
                                r->ncalls = atoi(tok[k++]);
                                for (i = 0; i < r->ncalls; i++) {
                                        r->call_kind[i] = tok[k++][0];
                                        r->call_a[i] = atoi(tok[k++]);
                                        if (r->call_kind[i] == 'T') r->call_b[i] = atoi(tok[k++]);
                                }
                        }
                } else if (strcmp(tok[0], "rd") == 0) { rd_bits = bits_dup(tok[1]);
                } else if (strcmp(tok[0], "wr") == 0) { wr_bits = bits_dup(tok[1]);
                } else if (strcmp(tok[0], "lk") == 0) { lk_bits = bits_dup(tok[1]);
                } else if (strcmp(tok[0], "ul") == 0) { ul_bits = bits_dup(tok[1]);
                } else if (strcmp(tok[0], "ops") == 0) {
                        build();
                        in_ops = 1;
                } else {
                        fprintf(stderr, "bad line: %s\n", tok[0]);
                        exit(2);
                }
        }
        reset_all();
        free(inq); free(snap);
        return 0;
}
