/* tsan_harness.c — C17: real pthread mutex, N producer threads triggering unsolicited events while one
 * thread runs cat_service with command traffic and output back-pressure.  Built with -fsanitize=thread
 * from /repo/src/cat.c.  Checks: no ThreadSanitizer report (exit code 66 from TSAN_OPTIONS), and per
 * producer: events delivered == events whose trigger returned OK, each once, in that producer's order;
 * none whose trigger returned BUFFER_FULL.  Uses only the public API; only the mutex-protected functions
 * are called from producer threads.
 * usage: tsan_harness <producers 1..8> <seed> <events per producer> */
#include <stdio.h>
#include <stdlib.h>
#include <string.h>
#include <stdint.h>
#include <pthread.h>
#include <sched.h>
#include "cat.h"

#define MAXP 8
#define MAXEV 20000

static pthread_mutex_t mtx = PTHREAD_MUTEX_INITIALIZER;
static int m_lock(void) { return pthread_mutex_lock(&mtx) == 0 ? 0 : -1; }
static int m_unlock(void) { return pthread_mutex_unlock(&mtx) == 0 ? 0 : -1; }
static struct cat_mutex_interface mutex_if = { m_lock, m_unlock };

static struct cat_object at;
static int nprod, nev;

/* service-thread-only data */
static unsigned char delivered[MAXP][MAXEV];
static int ndelivered[MAXP];
static uint32_t svc_rng;
static const char *input = "AT+X?\nAT+H\nAT\nAT+NOPE\nAT+H\r\nAT+X?\r\n";
static size_t inpos;
static long reads_done;

/* per-producer data (written by its own thread, read after join) */
static unsigned char accepted[MAXP][MAXEV];
static int naccepted[MAXP];
static int nrefused[MAXP];

static uint32_t rnd(uint32_t *s) { *s = *s * 1664525u + 1013904223u; return *s >> 8; }

static struct cat_command cmds[2 * MAXP + 2];
static char names[2 * MAXP + 2][8];
static long holds_entered;

static cat_return_state ev_read(const struct cat_command *cmd, uint8_t *data, size_t *data_size, const size_t max)
{
        int idx = (int)(cmd - cmds);
        int p = idx / 2, which = idx % 2;
        (void)data; (void)max;
        if (p < nprod && ndelivered[p] < MAXEV)
                delivered[p][ndelivered[p]++] = (unsigned char)which;
        *data_size = 0;
        return CAT_RETURN_STATE_OK;       /* finish silently: keeps the service loop short */
}
static cat_return_state x_read(const struct cat_command *cmd, uint8_t *data, size_t *data_size, const size_t max)
{
        (void)cmd;
        if (max > 4) { memcpy(data, "+X=1", 5); *data_size = 4; }
        return CAT_RETURN_STATE_DATA_OK;
}

static cat_return_state h_run(const struct cat_command *cmd)
{
        (void)cmd; holds_entered++;
        return CAT_RETURN_STATE_HOLD;      /* released by a releaser thread (cat_hold_exit) */
}

static int io_write(char ch) { (void)ch; return (rnd(&svc_rng) % 5) != 0; }   /* refuse 20% */
static int io_read(char *ch)
{
        if ((rnd(&svc_rng) % 3) == 0) return 0;
        if (reads_done > 4000) return 0;                 /* bounded command traffic */
        *ch = input[inpos]; inpos = (inpos + 1) % strlen(input); reads_done++;
        return 1;
}
static struct cat_io_interface io_if = { io_write, io_read };

static struct cat_command_group grp;
static struct cat_command_group *grps[1];
static uint8_t buf[128];
static struct cat_descriptor desc;

static int producers_done;

static int stop_releasers;
static void *releaser(void *arg)
{
        uint32_t r = 0x51ed270bu + (uint32_t)(intptr_t)arg;
        while (!__atomic_load_n(&stop_releasers, __ATOMIC_ACQUIRE)) {
                cat_status st = cat_hold_exit(&at, (rnd(&r) & 1) ? CAT_STATUS_OK : CAT_STATUS_ERROR);
                if (st != CAT_STATUS_OK && st != CAT_STATUS_ERROR_NOT_HOLD) { fprintf(stderr, "releaser: unexpected status %d\n", (int)st); exit(3); }
                (void)cat_is_hold(&at);
                if ((rnd(&r) % 3) == 0) sched_yield();
        }
        return NULL;
}

static void *producer(void *arg)
{
        int p = (int)(intptr_t)arg;
        uint32_t r = 0x9e3779b9u * (uint32_t)(p + 1) + (uint32_t)nev;
        int sent = 0;
        while (sent < nev) {
                int which = rnd(&r) & 1;
                cat_status st = cat_trigger_unsolicited_read(&at, &cmds[2 * p + which]);
                if (st == CAT_STATUS_OK) {
                        accepted[p][naccepted[p]++] = (unsigned char)which;
                        sent++;
                } else if (st == CAT_STATUS_ERROR_BUFFER_FULL) {
                        nrefused[p]++;
                        sched_yield();
                } else {
                        fprintf(stderr, "producer %d: unexpected status %d\n", p, (int)st);
                        exit(3);
                }
                if ((rnd(&r) % 7) == 0) sched_yield();
                if ((rnd(&r) % 16) == 0) (void)cat_is_unsolicited_buffer_full(&at);
                if ((rnd(&r) % 16) == 0) (void)cat_is_busy(&at);
                if ((rnd(&r) % 16) == 0) (void)cat_is_hold(&at);
        }
        __atomic_add_fetch(&producers_done, 1, __ATOMIC_RELEASE);
        return NULL;
}

int main(int argc, char **argv)
{
        pthread_t th[MAXP], rel[2];
        int i, p;
        uint32_t seed;
        if (argc < 4) return 2;
        nprod = atoi(argv[1]); seed = (uint32_t)atoi(argv[2]); nev = atoi(argv[3]);
        if (nprod < 1 || nprod > MAXP || nev < 1 || nev > MAXEV) return 2;
        svc_rng = seed * 2654435761u + 1;
        for (i = 0; i < 2 * nprod; i++) {
                snprintf(names[i], sizeof names[i], "+P%d%c", i / 2, 'A' + i % 2);
                memset(&cmds[i], 0, sizeof cmds[i]);
                cmds[i].name = names[i];
                cmds[i].read = ev_read;
        }
        memset(&cmds[2 * nprod], 0, sizeof cmds[0]);
        cmds[2 * nprod].name = "+X";
        cmds[2 * nprod].read = x_read;
        memset(&cmds[2 * nprod + 1], 0, sizeof cmds[0]);
        cmds[2 * nprod + 1].name = "+H";
        cmds[2 * nprod + 1].run = h_run;
        grp.cmd = cmds; grp.cmd_num = (size_t)(2 * nprod + 2);
        grps[0] = &grp;
        memset(&desc, 0, sizeof desc);
        desc.cmd_group = (struct cat_command_group * const *)grps; desc.cmd_group_num = 1;
        desc.buf = buf; desc.buf_size = sizeof buf;
        cat_init(&at, &desc, &io_if, &mutex_if);
        for (p = 0; p < nprod; p++)
                pthread_create(&th[p], NULL, producer, (void *)(intptr_t)p);
        pthread_create(&rel[0], NULL, releaser, (void *)(intptr_t)1);
        pthread_create(&rel[1], NULL, releaser, (void *)(intptr_t)2);
        {
                long guard = 0;
                int joined = 0, pjoined = 0;
                for (;;) {
                        cat_status st = cat_service(&at);
                        if (st != CAT_STATUS_OK && st != CAT_STATUS_BUSY) { fprintf(stderr, "service status %d\n", (int)st); return 3; }
                        if (!joined) {
                                if (__atomic_load_n(&producers_done, __ATOMIC_ACQUIRE) == nprod) {
                                        if (!pjoined) { for (p = 0; p < nprod; p++) pthread_join(th[p], NULL); pjoined = 1; }
                                        if (reads_done > 4000) {
                                                __atomic_store_n(&stop_releasers, 1, __ATOMIC_RELEASE);
                                                pthread_join(rel[0], NULL); pthread_join(rel[1], NULL);
                                                joined = 1;
                                        }
                                }
                        } else if (cat_is_hold(&at) == CAT_STATUS_HOLD) {
                                (void)cat_hold_exit(&at, CAT_STATUS_OK);      /* releasers are gone: release here */
                        } else if (st == CAT_STATUS_OK && reads_done > 4000) {
                                break;                 /* quiescent: every queued event has been processed */
                        }
                        if (++guard > 400000000L) { fprintf(stderr, "no progress\n"); return 4; }
                }
        }
        for (p = 0; p < nprod; p++) {
                if (naccepted[p] != nev || ndelivered[p] != naccepted[p] ||
                    memcmp(accepted[p], delivered[p], (size_t)naccepted[p]) != 0) {
                        printf("MISMATCH producer %d: accepted %d delivered %d refused %d%s\n", p, naccepted[p], ndelivered[p], nrefused[p],
                               (ndelivered[p] == naccepted[p]) ? " (order differs)" : "");
                        return 1;
                }
        }
        printf("ok producers=%d events=%d each holds=%ld\n", nprod, nev, holds_entered);
        return 0;
}
