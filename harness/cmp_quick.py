import sys, time
from catlib import *
import gen
fams=sys.argv[1].split(','); seed=int(sys.argv[2]); n=int(sys.argv[3])
ok,msg=build_cdrivers()
print('build',ok,msg)
t=time.time()
scns=gen.generate(fams,seed,n)
print('generated',len(scns),time.time()-t)
t=time.time()
ct,cc=run_c(scns); print('c run',time.time()-t, 'crashed',cc[:3])
t=time.time()
mt,mc=run_model(scns); print('model run',time.time()-t,'crashed',mc[:3])
bad=0
for s in scns:
    a=ct.get(s.name); b=mt.get(s.name)
    if a!=b:
        bad+=1
        if bad<=3:
            print('MISMATCH',s.name)
            import difflib
            for l in list(difflib.unified_diff(a or [],b or [],'c','model',lineterm='',n=2))[:30]: print('  ',l)
            open('/verif/build/t/bad_%d.scn'%bad,'w').write(s.text())
print('scenarios',len(scns),'mismatches',bad, 'events', sum(len(v) for v in ct.values()))
