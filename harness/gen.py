"""gen.py — scenario families for the correspondence check and the oracles.
Every family is a function (prng, n, tier) -> list of Scn.  All randomness comes
from the PRNG handed in (derived from VERIF_SEED)."""
from catlib import *

NAME_ALPHA = 'ABCDEFGHIJKLMNOPQRSTUVWXYZ0123456789+#$@_%&'
PAYLOAD = 'abcdefghijklmnopqrstuvwxyz0123456789:;.-_ '


def rand_name(P, maxlen=6, alpha='ABT+#1', lower=0.15):
    n = P.randint(1, maxlen)
    s = ''.join(P.choice(alpha) for _ in range(n))
    if P.chance(lower):
        s = ''.join(c.lower() if P.chance(0.5) else c for c in s)
    return s


def related_names(P, k):
    """k names with many prefix relations / duplicates / case variants"""
    base = [rand_name(P, 3, alpha=P.choice(['AB+', 'TZ+#', NAME_ALPHA]))]
    names = []
    while len(names) < k:
        b = P.choice(base)
        roll = P.random()
        if roll < 0.35:
            nm = b + rand_name(P, 2, alpha='ABT1+')       # extension
        elif roll < 0.5 and len(b) > 1:
            nm = b[:P.randint(1, len(b) - 1)]            # prefix
        elif roll < 0.6:
            nm = b                                        # duplicate
        elif roll < 0.7:
            nm = b.swapcase()
        else:
            nm = rand_name(P, 5, alpha=P.choice(['AB+', 'TZ+#Q', NAME_ALPHA]))
        names.append(nm)
        base.append(nm)
    return names


def rand_var(P, types=(INT, UINT, HEX, BUFHEX, BUFSTR), access=None, callbacks=True, odd_sizes=0.08,
             maxbuf=12):
    t = P.choice(types)
    if t in (INT, UINT, HEX):
        size = P.choice([1, 2, 4]) if not P.chance(odd_sizes) else P.choice([3, 8, 5])
    else:
        size = P.randint(1, maxbuf)
    acc = access if access is not None else P.choice([RW, RW, RW, RO, WO])
    init = bytes(P.randint(0, 255) for _ in range(size))
    if t == BUFSTR:
        # a string value with a NUL somewhere (usually)
        k = P.randint(0, size - 1)
        body = bytes(P.choice(b'ab"\\\n,xyZ9 \x80\xff\x01;') for _ in range(k))
        init = (body + b'\0' * size)[:size]
        if P.chance(0.1):
            init = bytes(P.choice(b'abc') for _ in range(size))   # no NUL inside data_size
    name = None if P.chance(0.3) else rand_name(P, 4, alpha='xyzw', lower=0)
    return Var(t, size, acc, hread=callbacks and P.chance(0.3), hwrite=callbacks and P.chance(0.3),
               name=name, init=init)


def rand_cmd(P, name, nvars=None, **kw):
    nv = nvars if nvars is not None else P.choice([0, 0, 1, 1, 2, 3, 4])
    vars = [rand_var(P, **kw) for _ in range(nv)]
    implicit = P.chance(0.08)
    c = Cmd(name, descr=(None if P.chance(0.6) else ''.join(P.choice(PAYLOAD) for _ in range(P.randint(0, 12)))),
            w=P.chance(0.5), r=(not implicit) and P.chance(0.5), run=(not implicit) and P.chance(0.5),
            t=(not implicit) and P.chance(0.4), vars=vars,
            need_all=P.chance(0.2), only_test=P.chance(0.07), implicit=implicit)
    return c


CODES_TERMINAL = [RC['OK'], RC['DATA_OK'], RC['ERROR'], RC['HOLD_EXIT_OK'], RC['HOLD_EXIT_ERROR'], RC['LIST'], 8, -2, 100]
CODES_CONT = [RC['NEXT'], RC['DATA_NEXT']]


def rand_script(P, kind, sc, allow_hold=True, allow_calls=True, maxlen=4, cap_hint=32):
    """random handler script; always ends with a terminal code (exhausted scripts answer OK)"""
    rs = []
    n = P.randint(0, maxlen)
    for i in range(n):
        roll = P.random()
        if roll < 0.45:
            code = P.choice(CODES_CONT)
        elif roll < 0.9:
            code = P.choice(CODES_TERMINAL)
        else:
            code = RC['HOLD'] if allow_hold else RC['OK']
        edit = None
        if kind in (1, 3) and P.chance(0.4):
            ln = P.choice([0, 1, 3, 7, cap_hint - 2, cap_hint - 1, cap_hint, P.randint(0, max(1, cap_hint))])
            edit = ''.join(P.choice(PAYLOAD) for _ in range(max(0, ln))).encode()
        pokes, calls = [], []
        if sc.vars and P.chance(0.15):
            v = P.choice(sc.vars)
            pokes.append((v.slot, bytes(P.randint(0, 255) for _ in range(P.randint(0, len(v.init))))))
        if allow_calls and not sc.mutex and P.chance(0.12):
            if P.chance(0.6) and sc.pool():
                calls.append(('T', P.choice(sc.pool()).ci, P.choice([T_READ, T_TEST])))
            else:
                calls.append(('X', P.choice([0, -1, 1])))
        rs.append(Res(code, edit, pokes, calls))
        if code not in CODES_CONT and code != RC['HOLD']:
            break
    return rs


def add_scripts(P, sc, allow_hold=True, allow_calls=True, event_cmds=()):
    ev = set(c.ci for c in event_cmds)
    for c in sc.pool():
        for kind, has in ((0, c.w), (1, c.r), (2, c.run), (3, c.t)):
            if has and P.chance(0.7):
                ah = allow_hold and not (c.ci in ev and kind in (1, 3))
                sc.script(kind, c.ci, 0, rand_script(P, kind, sc, ah, allow_calls, cap_hint=sc.asz()))
        for vi, v in enumerate(c.vars):
            if v.hread and P.chance(0.5):
                sc.script(4, c.ci, vi, [Res(P.choice([0, 0, 0, 1, -1]),
                                            pokes=([(v.slot, bytes(P.randint(0, 255) for _ in range(P.randint(0, len(v.init)))))] if P.chance(0.4) else []))
                                        for _ in range(P.randint(1, 3))])
            if v.hwrite and P.chance(0.5):
                sc.script(5, c.ci, vi, [Res(P.choice([0, 0, 0, 1, -1])) for _ in range(P.randint(1, 3))])


def rand_desc(P, name, cap=None, ncmds=None, names=None, mutex=None, buf=None, **varkw):
    cap = cap if cap is not None else P.choice(CAPS)
    if buf is None:
        if P.chance(0.5):
            buf = (P.choice([12, 13, 16, 20, 24, 31, 32, 40, 64, 65, 80]), -1)
        else:
            buf = (P.choice([6, 7, 8, 10, 12, 16, 24, 32, 48]), P.choice([0, 1, 5, 6, 8, 16, 24, 32]))
    sc = Scn(name, cap=cap, buf_size=buf[0], ubuf_size=buf[1], fill=P.choice([0, 0x55, 0xAA, 0xFF, 0x41]),
             mutex=(P.chance(0.15) if mutex is None else mutex))
    k = ncmds if ncmds is not None else P.randint(1, min(10, 4 * sc.asz()))
    k = max(1, min(k, 4 * sc.asz()))
    nms = names if names is not None else related_names(P, k)
    cmds = [rand_cmd(P, nm, **varkw) for nm in nms[:k]]
    # split into 1..3 groups
    ng = P.randint(1, min(3, len(cmds)))
    cuts = sorted(P.sample(range(1, len(cmds)), ng - 1)) if ng > 1 else []
    prev = 0
    for c in cuts + [len(cmds)]:
        sc.add_group(cmds[prev:c])
        prev = c
    if P.chance(0.3):
        sc.add_extra(rand_cmd(P, rand_name(P, 4, alpha='+XY')))
    return sc


def sched(P, sc, n=4000, style=None):
    style = style or P.choice(['eager', 'eager', 'rand', 'rand', 'sparse'])
    if style == 'eager':
        return
    p = 0.75 if style == 'rand' else 0.3
    sc.rd = P.bits(n, p)
    sc.wr = P.bits(n, p)


def num_text(P, v):
    """argument text for a numeric variable, aimed at the width boundaries"""
    bits = 8 * (v.size if v.size in (1, 2, 4) else 4)
    roll = P.random()
    if v.vtype == INT:
        edges = [-(1 << (bits - 1)), (1 << (bits - 1)) - 1, 0, -1, 1]
        base = P.choice(edges) + P.choice([-2, -1, 0, 0, 1, 2])
        if roll < 0.15:
            base = P.choice([1 << 31, 1 << 32, 1 << 63, 1 << 64, 10 ** 19, 10 ** 20, (1 << 64) + 5, (1 << 63) - 1]) * P.choice([1, -1]) + P.choice([-1, 0, 1])
        elif roll < 0.3:
            base = P.randint(-(1 << bits), 1 << bits)
        s = str(abs(base))
        if P.chance(0.2):
            s = '0' * P.randint(1, 22) + s
        s = ('-' if base < 0 else P.choice(['', '', '+'])) + s
    elif v.vtype == UINT:
        edges = [(1 << bits) - 1, 0, 1 << (bits - 1)]
        base = max(0, P.choice(edges) + P.choice([-1, 0, 0, 1, 2]))
        if roll < 0.15:
            base = P.choice([1 << 32, 1 << 63, 1 << 64, 10 ** 19, 10 ** 20, (1 << 64) + 5, 18446744073709551621]) + P.choice([-1, 0, 1])
        elif roll < 0.3:
            base = P.randint(0, 1 << (bits + 1))
        s = str(base)
        if P.chance(0.2):
            s = '0' * P.randint(1, 22) + s
    else:
        edges = [(1 << bits) - 1, 0, 1 << (bits - 1), 1 << bits]
        base = max(0, P.choice(edges) + P.choice([-1, 0, 0, 1]))
        if roll < 0.15:
            base = P.choice([1 << 60, 1 << 63, 1 << 64, (1 << 64) + 5, (1 << 68) + 3])
        elif roll < 0.3:
            base = P.randint(0, 1 << (bits + 1))
        s = '%X' % base
        if P.chance(0.3):
            s = s.lower()
        if P.chance(0.2):
            s = '0' * P.randint(1, 18) + s
        s = P.choice(['0x', '0x', '0X']) + s
    # malformed variants
    roll = P.random()
    if roll < 0.04:
        s = ''
    elif roll < 0.08:
        s = s + P.choice(['x', ' ', '-', '+', 'G', '.', '0x'])
    elif roll < 0.11:
        s = P.choice(['-', '+', '0x', '0X', '--1', '+-1', 'x1', ' 1'])
    elif roll < 0.13 and len(s) > 1:
        i = P.randint(0, len(s) - 1)
        s = s[:i] + P.choice(['a', 'g', ' ', '\x80', ':', '/']) + s[i + 1:]
    return s


def bufhex_text(P, v):
    n = max(0, v.size + P.choice([-2, -1, 0, 0, 1, 2]))
    if P.chance(0.2):
        n = P.randint(0, v.size + 3)
    s = ''.join('%02X' % P.randint(0, 255) for _ in range(n))
    if P.chance(0.3):
        s = s.lower()
    elif P.chance(0.3):
        s = ''.join(c.lower() if P.chance(0.5) else c for c in s)
    roll = P.random()
    if roll < 0.08 and s:
        s = s[:-1]                        # odd digit count
    elif roll < 0.12:
        s = s + P.choice(['G', 'x', ' ', '0x'])
    elif roll < 0.15 and s:
        i = P.randint(0, len(s) - 1)
        s = s[:i] + P.choice('gG:/@` ') + s[i + 1:]
    return s


def bufstr_text(P, v):
    n = max(0, v.size - 1 + P.choice([-2, -1, 0, 0, 1, 2]))
    if P.chance(0.2):
        n = P.randint(0, v.size + 3)
    body = ''
    for i in range(n):
        roll = P.random()
        last = (i == n - 1)
        if roll < (0.5 if last else 0.15):
            body += P.choice(['\\\\', '\\"', '\\n'])
        else:
            body += P.choice('abcXYZ019 ;:\x80\xfe\x01\t')
    s = '"' + body + '"'
    roll = P.random()
    if roll < 0.05:
        s = s[:-1]                        # unterminated
    elif roll < 0.08:
        s = s[1:]
    elif roll < 0.11:
        s = s + 'x'
    elif roll < 0.14:
        s = '"' + body + '\\x"'
    elif roll < 0.16:
        s = '"' + body + '\\'
    return s


def arg_text(P, v):
    if v.vtype in (INT, UINT, HEX):
        return num_text(P, v)
    if v.vtype == BUFHEX:
        return bufhex_text(P, v)
    return bufstr_text(P, v)


def write_line(P, c, sc, nargs=None):
    k = nargs if nargs is not None else P.choice([len(c.vars)] * 3 + [max(0, len(c.vars) - 1), len(c.vars) + 1, 0, 1])
    args = [arg_text(P, c.vars[i]) if i < len(c.vars) else P.choice(['1', '', '"x"']) for i in range(k)]
    return ','.join(args)


def typed_name(P, name):
    """a typed form of a registered name: exact / prefix / extended / other, random case"""
    roll = P.random()
    up = name.upper()
    if roll < 0.5:
        s = up
    elif roll < 0.75 and len(up) > 1:
        s = up[:P.randint(1, len(up) - 1)]
    elif roll < 0.85:
        s = up + P.choice('ABT1+')
    elif roll < 0.9:
        i = P.randint(0, len(up) - 1)
        s = up[:i] + P.choice('ABQ1#') + up[i + 1:]
    else:
        s = rand_name(P, 4)
    return ''.join(c.lower() if P.chance(0.3) else c for c in s)


def rand_line(P, sc, term=None):
    """one command line (without knowing what it will do)"""
    cmds = sc.cmds()
    c = P.choice(cmds)
    nm = typed_name(P, c.name)
    roll = P.random()
    if roll < 0.2:
        body = nm
    elif roll < 0.4:
        body = nm + '?'
    elif roll < 0.75:
        body = nm + '=' + write_line(P, c, sc)
    elif roll < 0.85:
        body = nm + '=?'
    elif roll < 0.9 and c.implicit:
        body = nm + write_line(P, c, sc)
    else:
        body = P.choice([nm + '??', nm + '=?x', nm + '?x', nm + ' ', '', nm + '=' + 'x' * P.randint(sc.asz() - 3, sc.asz() + 3),
                         nm + '=' + 'y' * (3 * sc.asz()), nm + '\x00', nm + '=a\x00b', nm + '=?\r\r'])
    prefix = P.choice(['AT'] * 12 + ['at', 'aT', 'A', 'ATT', 'XT', 'T', ' AT', 'A\rT', 'AT\r'])
    if P.chance(0.03):
        return P.choice(['\n', '\r\n', '\r\r\n', 'A\n', 'AT\n', '\x00\n', 'garbage\n'])
    line = prefix + body
    if P.chance(0.05):
        i = P.randint(0, len(line))
        line = line[:i] + '\r' + line[i:]
    t = term if term is not None else P.choice(['\n', '\n', '\r\n', '\r\n', '\r\r\n'])
    return line + t


# =============================== families ===============================

def fam_mixed(P, n, tier):
    out = []
    for i in range(n):
        sc = rand_desc(P, 'mixed%d' % i)
        evc = [c for c in sc.pool() if P.chance(0.5)]
        add_scripts(P, sc, allow_hold=True, event_cmds=evc)
        sched(P, sc)
        if sc.mutex and P.chance(0.5):
            sc.lk = P.bits(300, 0.93)
            sc.ul = P.bits(300, 0.95)
        for j in range(P.randint(1, 6)):
            roll = P.random()
            if roll < 0.6:
                sc.feed(rand_line(P, sc))
            elif roll < 0.8 and evc:
                sc.op('t %d %d' % (P.choice(evc).ci, P.choice([T_READ, T_TEST])))
            elif roll < 0.85:
                sc.op('x %d' % P.choice([0, -1]))
            elif roll < 0.9:
                sc.op(P.choice(['b', 'h', 'u', 'g 0', 'g 1']))
            elif roll < 0.95 and sc.cmds():
                sc.op('dc %d %d' % (P.choice(sc.cmds()).ci, P.randint(0, 1)))
            else:
                sc.op('dg %d %d' % (P.randrange(len(sc.groups)), P.randint(0, 1)))
            if P.chance(0.7):
                sc.service(P.randint(1, 40))
        sc.op('x 0')
        sc.drain(3000)
        sc.op('x -1')
        sc.drain(3000)
        sc.op('B')
        out.append(sc)
    return out


def fam_names(P, n, tier):
    """name resolution: tables with prefix relations, every typed form x suffix x terminator"""
    out = []
    for i in range(n):
        k = P.choice([1, 2, 3, 4, 5, 6, 8, 9, 12, 13, 17, 24, 33])
        buf = (P.choice([16, 24, 40, 64]), P.choice([-1, 16]))
        long_names = P.chance(0.12)
        if long_names:
            # names LONGER than the command buffer's capacity (names are never stored in the buffer, so they must
            # still be matched): small buffer, few commands
            buf = P.choice([(12, -1), (13, -1), (14, -1), (6, 8), (7, 6), (8, 16)])
            asz = buf[0] if buf[1] >= 0 else buf[0] // 2
            k = min(k, 4 * asz, 6)
            base = '+' + ''.join(P.choice('FIRMWAEXYZ0') for _ in range(asz + P.randint(0, 3)))
            nms = [base, base + 'A', base[:-1] + 'Q', '+' + 'Z' * (asz + 1), base + 'AB', 'S']
            sc = rand_desc(P, 'names%d' % i, ncmds=k, buf=buf, mutex=False, callbacks=False, names=nms)
        else:
            sc = rand_desc(P, 'names%d' % i, ncmds=k, buf=buf, mutex=False, callbacks=False)
        for c in sc.cmds():
            c.descr = None
            if P.chance(0.7):
                c.run = not c.implicit
            if P.chance(0.7):
                c.w = True
        # harmless terminal scripts only: OK / ERROR
        for c in sc.cmds():
            for kind, has in ((0, c.w), (1, c.r), (2, c.run), (3, c.t)):
                if has and P.chance(0.3):
                    sc.script(kind, c.ci, 0, [Res(P.choice([RC['OK'], RC['ERROR'], RC['DATA_OK']]))])
        for c in sc.cmds():
            if P.chance(0.12):
                sc.op('dc %d 1' % c.ci)
        for g in range(len(sc.groups)):
            if P.chance(0.1):
                sc.op('dg %d 1' % g)
        sched(P, sc, style=P.choice(['eager', 'eager', 'rand']))
        for j in range(P.randint(2, 7)):
            c = P.choice(sc.cmds())
            nm = typed_name(P, c.name)
            suffix = P.choice(['', '?', '=', '=?', '=1', '=ATZ', '=AT' + sc.cmds()[0].name, '=1,2'])
            term = P.choice(['\n', '\r\n'])
            sc.feed('AT' + nm + suffix + term)
            sc.drain(3000)
            if P.chance(0.15):
                cc = P.choice(sc.cmds())
                sc.op('dc %d %d' % (cc.ci, P.randint(0, 1)))
            if P.chance(0.08):
                sc.op('dg %d %d' % (P.randrange(len(sc.groups)), P.randint(0, 1)))
        out.append(sc)
    return out


def fam_num(P, n, tier):
    out = []
    for i in range(n):
        sc = Scn('num%d' % i, cap=1, buf_size=P.choice([64, 96, 128]), ubuf_size=P.choice([-1, 8]),
                 fill=P.choice([0, 0xAA]))
        nv = P.randint(1, 4)
        vars = [rand_var(P, types=(INT, UINT, HEX), access=P.choice([RW, RW, RW, WO, RO]), odd_sizes=0.06)
                for _ in range(nv)]
        c = Cmd('+N', w=P.chance(0.5), r=False, vars=vars, need_all=P.chance(0.3))
        sc.add_group([c])
        for vi, v in enumerate(vars):
            if v.hwrite and P.chance(0.3):
                sc.script(5, c.ci, vi, [Res(P.choice([0, 0, 1]))])
        for j in range(P.randint(1, 4)):
            k = P.choice([nv, nv, nv, P.randint(0, nv + 1)])
            args = [num_text(P, vars[min(t, nv - 1)]) for t in range(k)]
            sc.feed('AT+N=' + ','.join(args) + P.choice(['\n', '\r\n']))
            sc.drain(1000)
        out.append(sc)
    return out


def fam_buf(P, n, tier):
    out = []
    for i in range(n):
        sc = Scn('buf%d' % i, cap=1, buf_size=P.choice([96, 160, 300]), ubuf_size=P.choice([-1, 8]),
                 fill=P.choice([0, 0xAA]))
        nv = P.randint(1, 3)
        vars = [rand_var(P, types=(BUFHEX, BUFSTR), access=P.choice([RW, RW, RW, WO, RO]),
                         maxbuf=P.choice([4, 8, 16, 64])) for _ in range(nv)]
        if P.chance(0.3):
            vars.insert(P.randint(0, len(vars)), rand_var(P, types=(INT, UINT, HEX), access=RW))
        nv = len(vars)
        c = Cmd('+B', w=P.chance(0.5), vars=vars, need_all=P.chance(0.3))
        sc.add_group([c])
        for vi, v in enumerate(vars):
            if v.hwrite and P.chance(0.3):
                sc.script(5, c.ci, vi, [Res(P.choice([0, 0, 1]))])
        for j in range(P.randint(1, 4)):
            k = P.choice([nv, nv, nv, P.randint(0, nv + 1)])
            args = [arg_text(P, vars[min(t, nv - 1)]) for t in range(k)]
            sc.feed('AT+B=' + ','.join(args) + P.choice(['\n', '\r\n']))
            sc.drain(2000)
        out.append(sc)
    return out


def fam_cap(P, n, tier):
    """argument and response lengths around the buffer capacity"""
    out = []
    for i in range(n):
        shared = P.chance(0.5)
        if shared:
            bs = P.choice([12, 13, 14, 15, 16, 17, 20, 21, 32, 33, 40, 41, 80])
            buf = (bs, -1)
        else:
            buf = (P.choice([6, 7, 8, 9, 10, 12, 16, 20, 40]), P.choice([0, 1, 6, 7, 12, 20, 40]))
        sc = Scn('cap%d' % i, cap=P.choice(CAPS), buf_size=buf[0], ubuf_size=buf[1], fill=P.choice([0, 0x55, 0xAA, 0xFF]))
        asz = sc.asz()
        mode = P.choice(['args', 'args', 'read', 'test', 'list', 'event', 'lanesfull'])
        if i % 12 == 5:
            # counters beyond one byte: argument texts, parse positions and flush cursors of 255..600 bytes
            # (capacities well above 256), as WRITE of long strings / hex buffers, their READ back, and
            # a self-parsing write handler given a long raw text
            big = P.choice([300, 512, 513, 600])
            sc = Scn('cap%d' % i, cap=P.choice(CAPS), buf_size=(big if not shared else 2 * big), ubuf_size=(-1 if shared else P.choice([16, 300])), fill=0)
            asz = sc.asz()
            sv = Var(BUFSTR, 290, RW, init=b'\0' * 290)
            hv = Var(BUFHEX, 140, RW, init=bytes(140))
            c = Cmd('+S', vars=[sv, Var(UINT, 1, RW, init=b'\x07')])
            ch = Cmd('+H', vars=[hv])
            cr = Cmd('+RAW', w=True)
            sc.add_group([c, ch, cr])
            sc.script(0, cr.ci, 0, [Res(RC['OK'])] * 8)
            sched(P, sc, style=P.choice(['eager', 'rand']))
            for ln in P.sample([250, 254, 255, 256, 257, 258, 280, asz - 8, asz - 2], 3):
                ln = max(1, min(ln, 287))
                sc.feed('AT+S="' + ''.join(P.choice('abcXYZ019') for _ in range(ln)) + '",9' + P.choice(['\n', '\r\n']))
                sc.drain(6000)
                sc.feed('AT+S?\n')
                sc.drain(6000)
            for nb in P.sample([126, 127, 128, 129, 140], 2):
                sc.feed('AT+H=' + ''.join(P.choice('0123456789abcdefABCDEF') for _ in range(2 * nb)) + '\n')
                sc.drain(6000)
                sc.feed('AT+H?\n')
                sc.drain(6000)
            for ln in P.sample([254, 255, 256, 257, 300, asz - 1, asz, asz + 1, asz + 300], 4):
                sc.feed('AT+RAW=' + ''.join(P.choice('abAB,"?= ') for _ in range(max(0, ln))) + '\n')
                sc.drain(6000)
            if P.chance(0.5):
                sc.op('t %d %d' % (c.ci, T_READ))
                sc.drain(6000)
            out.append(sc)
            continue
        if mode == 'lanesfull':
            # as many commands as the match lanes can hold: 4 per byte of the command buffer's capacity
            if shared:
                sc.buf_size = P.choice([12, 13, 14, 16])
            else:
                sc.buf_size = P.choice([6, 7, 8])
            asz = sc.asz()
            k = 4 * asz - P.choice([0, 0, 0, 1, 3, 4])
            cmds = [Cmd('+N%d' % j + 'A' * (j % 3), run=True) for j in range(k)]
            sc.add_group(cmds)
            sched(P, sc, style=P.choice(['eager', 'rand']))
            if P.chance(0.5):
                ev = Cmd('+EV', r=True)
                sc.add_extra(ev)
                sc.script(1, ev.ci, 0, [Res(RC['DATA_OK'])] * 3)
                sc.op('t %d %d' % (ev.ci, T_READ))
                sc.service(P.choice([3, 4, 5, 6]))
            for j in range(P.randint(1, 3)):
                c = P.choice(cmds)
                sc.feed('AT' + c.name + P.choice(['\n', '\r\n']))
                sc.drain(3000)
                sc.op('B')
        elif mode == 'args':
            c = Cmd('+W', w=True, t=P.chance(0.3), implicit=False,
                    vars=([rand_var(P, types=(BUFSTR, BUFHEX), access=RW, maxbuf=64)] if P.chance(0.4) else []))
            c2 = Cmd('D', w=True, implicit=True)
            sc.add_group([c, c2])
            sched(P, sc, style=P.choice(['eager', 'rand']))
            for j in range(P.randint(1, 3)):
                ln = P.choice([asz - 3, asz - 2, asz - 1, asz, asz + 1, asz + 2, 3 * asz, 0, 1, P.randint(0, asz + 4)])
                body = ''.join(P.choice('abAB,"\\?=\r\x00\x80\xff ') for _ in range(max(0, ln)))
                if P.chance(0.5) and c.vars and c.vars[0].vtype == BUFSTR:
                    body = '"' + 'q' * max(0, ln - 2) + '"'
                sc.feed(P.choice(['AT+W=', 'AT+w=', 'ATD', 'atd']) + body + P.choice(['\n', '\r\n']))
                sc.drain(3000)
                sc.op('B')
        elif mode in ('read', 'event'):
            # READ response close to the capacity
            bsz = asz if mode == 'read' else sc.usz()
            nm = '+' + 'R' * P.randint(0, max(0, min(6, bsz - 3)))
            want = bsz + P.choice([-3, -2, -1, 0, 1, 2]) - len(nm) - 1
            vars = []
            left = want
            while left > 0 and len(vars) < 6:
                t = P.choice([UINT, INT, HEX, BUFHEX, BUFSTR])
                if t == BUFHEX:
                    sz = max(1, min(left // 2, P.randint(1, 8)))
                    v = Var(BUFHEX, sz, RW, init=bytes(P.randint(0, 255) for _ in range(sz)))
                    left -= 2 * sz
                elif t == BUFSTR:
                    sz = max(1, min(left - 2, P.randint(1, 10)))
                    v = Var(BUFSTR, sz + 1, RW, init=bytes(P.choice(b'ab"\\\nxyz') for _ in range(sz)) + b'\0')
                    left -= 2 + sz
                else:
                    v = rand_var(P, types=(t,), access=RW, odd_sizes=0)
                    left -= 3
                left -= 1
                vars.append(v)
            c = Cmd(nm, r=P.chance(0.4), vars=vars)
            sc.add_group([c])
            if c.r:
                sc.script(1, c.ci, 0, [Res(P.choice([RC['DATA_OK'], RC['OK'], RC['DATA_NEXT']])), Res(RC['DATA_OK'])])
            sched(P, sc, style=P.choice(['eager', 'rand']))
            if mode == 'read':
                sc.feed('AT' + nm + '?\n')
            else:
                sc.op('t %d %d' % (c.ci, T_READ))
            sc.drain(3000)
            sc.op('B')
        elif mode == 'test':
            nm = '+' + 'T' * P.randint(0, 4)
            vars = [rand_var(P, odd_sizes=0.1) for _ in range(P.randint(0, 3))]
            for v in vars:
                if v.name is not None:
                    v.name = 'n' * P.randint(0, 6)
            descr = None if P.chance(0.4) else 'd' * P.randint(0, max(0, asz - 8))
            c = Cmd(nm, t=P.chance(0.4), vars=vars, descr=descr)
            sc.add_group([c])
            sched(P, sc, style=P.choice(['eager', 'rand']))
            if P.chance(0.7):
                sc.feed('AT' + nm + '=?' + P.choice(['\n', '\r\n']))
            else:
                sc.op('t %d %d' % (c.ci, T_TEST))
            sc.drain(3000)
            sc.op('B')
        else:
            # command list with names close to the capacity
            cmds = []
            for k in range(P.randint(1, 4)):
                nm = '+' + 'L' * max(0, asz - P.choice([2, 3, 4, 5, 6, 7, 8, 9]) - k)
                cmds.append(Cmd(nm + str(k), run=P.chance(0.6), r=P.chance(0.5), w=P.chance(0.5), t=P.chance(0.5),
                                vars=[rand_var(P)] if P.chance(0.4) else []))
            lister = Cmd('#H', run=True)
            cmds.insert(P.randint(0, len(cmds)), lister)
            sc.add_group(cmds)
            sc.script(2, lister.ci, 0, [Res(RC['LIST'])])
            sched(P, sc, style=P.choice(['eager', 'rand']))
            sc.feed('AT#H' + P.choice(['\n', '\r\n']))
            sc.drain(5000)
            sc.op('B')
        out.append(sc)
    return out


def fam_rc(P, n, tier):
    """return-code sequences for the four handler kinds in both machines"""
    out = []
    allc = [-1, 0, 1, 2, 3, 4, 5, 6, 7, 8, -2, 100]
    for i in range(n):
        sc = Scn('rc%d' % i, cap=P.choice(CAPS), buf_size=P.choice([48, 64]), ubuf_size=P.choice([-1, 32]), fill=0)
        kind = P.choice([0, 1, 2, 3])
        uns = kind in (1, 3) and P.chance(0.4)
        vars = [rand_var(P, access=RW, odd_sizes=0, maxbuf=4) for _ in range(P.choice([0, 0, 1, 2]))]
        zero_size = kind == 0 and i % 4 == 1
        if zero_size:
            # WRITE where a variable's write callback is told size 0 (an empty string, a read-only variable)
            # and rejects it: still a failure
            vars = [Var(BUFSTR, P.choice([1, 3, 5]), P.choice([RW, RW, RO])), rand_var(P, access=RW, odd_sizes=0, maxbuf=4)]
            if P.chance(0.5):
                vars.append(rand_var(P, access=P.choice([RO, RW]), types=(UINT, INT, HEX), odd_sizes=0))
        c = Cmd('+C', w=(kind == 0), r=(kind == 1), run=(kind == 2), t=(kind == 3), vars=vars,
                descr=P.choice([None, 'dd']))
        c2 = Cmd('+OTHER', run=True, r=True, vars=[Var(UINT, 1, RW, init=b'\x07')])
        sc.add_group([c, c2])
        ln = P.choice([1, 2, 3, 4, 4, 5, 6, 8, 12])
        codes = []
        for k in range(ln):
            cd = P.choice(allc) if not P.chance(0.5) else P.choice([1, 2])
            if cd == 4 and uns:
                cd = 3
            codes.append(cd)
        rs = []
        for cd in codes:
            edit = None
            if kind in (1, 3) and P.chance(0.5):
                edit = ''.join(P.choice(PAYLOAD) for _ in range(P.randint(0, 10))).encode()
            rs.append(Res(cd, edit))
        sc.script(kind, c.ci, 0, rs)
        for vi, v in enumerate(vars):
            if P.chance(0.3) or (zero_size and (vi == 0 or v.access == RO)):
                v.hread = v.hwrite = True
                sc.script(4, c.ci, vi, [Res(P.choice([0, 0, 1, -1])) for _ in range(3)])
                sc.script(5, c.ci, vi, [Res(P.choice([0, 1, 1, -1])) for _ in range(3)] if zero_size else [Res(P.choice([0, 0, 1, -1])) for _ in range(3)])
        sched(P, sc, style=P.choice(['eager', 'rand']))
        if uns:
            sc.op('t %d %d' % (c.ci, T_READ if kind == 1 else T_TEST))
        else:
            wargs = [arg_text(P, v) for v in vars]
            if zero_size:
                wargs[0] = '""'
            line = {0: 'AT+C=' + ','.join(wargs), 1: 'AT+C?', 2: 'AT+C', 3: 'AT+C=?'}[kind]
            sc.feed(line + P.choice(['\n', '\r\n']))
        sc.service(P.randint(20, 200))
        sc.op('h')
        sc.op('x %d' % P.choice([0, -1]))
        sc.drain(4000)
        sc.feed('AT+OTHER?\n')
        sc.drain(2000)
        out.append(sc)
    return out


def fam_events(P, n, tier):
    """trigger / service / query interleavings, ring wrap, all capacities"""
    out = []
    for i in range(n):
        sc = Scn('ev%d' % i, cap=P.choice(CAPS), buf_size=P.choice([32, 33, 48, 64]), ubuf_size=P.choice([-1, -1, 16, 24, 3]),
                 fill=P.choice([0, 0xAA]), mutex=False)
        cmds = []
        k = P.randint(1, 4)
        for j in range(k):
            style = P.choice(['var', 'var', 'handler', 'both', 'dead', 'long'])
            vars = []
            if style in ('var', 'both', 'long'):
                vars = [rand_var(P, access=P.choice([RW, RW, RO, WO]), odd_sizes=0.05, maxbuf=(30 if style == 'long' else 5))
                        for _ in range(P.randint(1, 3))]
            if style == 'dead':
                vars = [rand_var(P, access=WO)] if P.chance(0.5) else []
            cmds.append(Cmd('+E%d' % j, r=style in ('handler', 'both'), t=P.chance(0.4), run=P.chance(0.3),
                            w=P.chance(0.3), vars=vars, descr=P.choice([None, None, 'ev'])))
        sc.add_group(cmds)
        if P.chance(0.3):
            sc.add_extra(Cmd('+X', r=True, t=True))
        add_scripts(P, sc, allow_hold=False, allow_calls=P.chance(0.5), event_cmds=sc.pool())
        sched(P, sc)
        steps = P.randint(4, 30 if tier == 'quick' else 60)
        for j in range(steps):
            roll = P.random()
            if roll < 0.4:
                c = P.choice(sc.pool())
                if P.chance(0.3):
                    sc.op('u')
                sc.op('t %d %d' % (c.ci, P.choice([T_READ, T_READ, T_TEST])))
            elif roll < 0.75:
                sc.service(P.choice([1, 1, 2, 3, 5, 10, 40]))
            elif roll < 0.85:
                c = P.choice(sc.pool())
                sc.op('q %d %d' % (c.ci, P.choice([T_READ, T_TEST, T_NONE])))
            elif roll < 0.9:
                sc.op(P.choice(['g 1', 'g 0', 'u', 'b']))
            else:
                sc.feed(rand_line(P, sc))
        sc.drain(6000)
        sc.op('u')
        sc.op('b')
        sc.op('g 1')
        out.append(sc)
    return out


def fam_hold(P, n, tier):
    out = []
    for i in range(n):
        sc = Scn('hold%d' % i, cap=P.choice(CAPS), buf_size=P.choice([48, 64]), ubuf_size=P.choice([-1, 32]), fill=0)
        kind = P.choice([0, 1, 2, 3])
        hc = Cmd('+H', w=(kind == 0), r=(kind == 1), run=(kind == 2), t=(kind == 3))
        ev = Cmd('+EV', r=True, t=True, vars=[Var(UINT, 1, RW, init=b'\x2a')])
        other = Cmd('+O', run=True, r=True, vars=[Var(INT, 2, RW, init=b'\x05\x00')])
        sc.add_group([hc, ev, other])
        pre = [Res(P.choice([1, 2])) for _ in range(P.randint(0, 2))] if kind in (1, 3) else [Res(2) for _ in range(P.randint(0, 2))]
        sc.script(kind, hc.ci, 0, pre + [Res(RC['HOLD'])] + ([Res(2), Res(RC['HOLD'])] if P.chance(0.2) else []))
        # event handler: sometimes releases the hold
        evs = []
        for k in range(P.randint(0, 4)):
            evs.append(Res(P.choice([RC['HOLD_EXIT_OK'], RC['HOLD_EXIT_ERROR'], RC['DATA_OK'], RC['OK'], RC['DATA_NEXT']])))
        sc.script(1, ev.ci, 0, evs)
        sched(P, sc, style=P.choice(['eager', 'rand']))
        line = {0: 'AT+H=1', 1: 'AT+H?', 2: 'AT+H', 3: 'AT+H=?'}[kind]
        if P.chance(0.3):
            sc.op('x %d' % P.choice([0, -1]))         # spurious release before
        sc.feed(line + P.choice(['\n', '\r\n']))
        if P.chance(0.7):
            sc.feed('AT+O\nAT+O?\n')                    # input queued behind the hold
        for j in range(P.randint(2, 12)):
            roll = P.random()
            if roll < 0.4:
                sc.service(P.choice([1, 2, 5, 20, 60]))
            elif roll < 0.55:
                sc.op('h')
            elif roll < 0.7:
                sc.op('x %d' % P.choice([0, -1, -1, 1, 2]))
            elif roll < 0.9:
                sc.op('t %d %d' % (ev.ci, T_READ))
            else:
                sc.op('b')
        sc.service(80)
        sc.op('h')
        if i % 5 == 3:
            # the application gives up on a suspended command and initialises the parser again (same object):
            # the new parser is not held, reads the next line and answers it
            sc.op('NI')
            sc.op('h')
            sc.feed('AT\n')
            sc.drain(400)
            sc.op('h')
            sc.op('b')
        sc.op('x %d' % P.choice([0, -1]))
        sc.drain(4000)
        sc.op('h')
        sc.op('x 0')
        # a second hold: a stale status must not leak
        if P.chance(0.5):
            sc.script(kind, hc.ci, 0, sc.scripts[(kind, hc.ci, 0)] + [Res(RC['HOLD'])])
            sc.feed(line + '\n')
            sc.service(120)
            sc.op('h')
            sc.op('x %d' % P.choice([0, -1]))
            sc.drain(4000)
        out.append(sc)
    return out


def fam_mutex(P, n, tier):
    out = []
    for i in range(n):
        sc = rand_desc(P, 'mutex%d' % i, mutex=True, cap=P.choice(CAPS))
        evc = sc.pool()
        add_scripts(P, sc, allow_hold=True, allow_calls=False, event_cmds=evc)
        total = 400
        lk = [True] * total
        ul = [True] * total
        for k in range(P.randint(0, 6)):
            lk[P.randrange(total if P.chance(0.5) else 40)] = False
        for k in range(P.randint(0, 4)):
            ul[P.randrange(total if P.chance(0.5) else 40)] = False
        sc.lk, sc.ul = lk, ul
        sched(P, sc, style=P.choice(['eager', 'rand']))
        for j in range(P.randint(3, 14)):
            roll = P.random()
            if roll < 0.3:
                sc.feed(rand_line(P, sc))
            elif roll < 0.5:
                sc.op('t %d %d' % (P.choice(evc).ci, P.choice([T_READ, T_TEST])))
            elif roll < 0.6:
                sc.op('x %d' % P.choice([0, -1]))
            elif roll < 0.8:
                sc.op(P.choice(['b', 'h', 'u']))
            sc.service(P.randint(1, 25))
        sc.op('x 0')
        sc.drain(2000)
        out.append(sc)
    return out


def fam_lines(P, n, tier):
    """C20: the same sequence of lines, once on one parser and once with a fresh
    parser (cat_init) before every line.  Scripts are stateless (constant per handler)."""
    out = []
    for i in range(n):
        base = rand_desc(P, 'x', mutex=False, cap=1, callbacks=False)
        seedstate = P.getstate()
        lines = None
        for variant in ('seq', 'fresh'):
            P.setstate(seedstate)
            sc = rand_desc(P, 'lines%d_%s' % (i, variant), mutex=False, cap=1, callbacks=False)
            # constant handlers: each handler always answers the same terminal code, no edits/pokes
            for c in sc.pool():
                for kind, has in ((0, c.w), (1, c.r), (2, c.run), (3, c.t)):
                    if has:
                        code = P.choice([RC['OK'], RC['DATA_OK'], RC['ERROR'], RC['OK'], 7 if kind in (2, 3) else 3])
                        sc.script(kind, c.ci, 0, [Res(code)] * 12)
            if lines is None:
                lines = [rand_line(P, sc) for _ in range(P.randint(2, 6))]
                if i % 2 == 1:
                    # a two-line history aimed at state that must not survive a line: an AMBIGUOUS abbreviation
                    # (in any form: run, '?', '=', '=?', trailing garbage) directly followed by a UNIQUE
                    # proper abbreviation of another command, then an exact name
                    names = [c.name.upper() for c in sc.cmds()]
                    pref = {}
                    for nm in names:
                        for k in range(1, len(nm)):
                            pref.setdefault(nm[:k], 0)
                    for pf in pref:
                        pref[pf] = sum(1 for nm in names if nm.startswith(pf) and len(nm) > len(pf))
                    amb = sorted(pf for pf, k in pref.items() if k >= 2 and pf not in names)
                    uni = sorted(pf for pf, k in pref.items() if k == 1 and pf not in names)
                    if amb and uni:
                        tail = P.choice(['', '?', '=1', '=', '=?', '=x,y', '?x', '1'])
                        pair = ['AT' + P.choice(amb) + tail + P.choice(['\n', '\r\n']),
                                'AT' + P.choice(uni) + P.choice(['', '?', '=2', '=?']) + '\n',
                                'AT' + P.choice(names) + '\n']
                        at = P.randint(0, len(lines))
                        lines = lines[:at] + pair + lines[at:]
            for ln in lines:
                if variant == 'fresh':
                    sc.op('NI' if i % 4 >= 2 else 'N')      # NI: cat_init on the used object, N: on zeroed memory
                sc.feed(ln)
                sc.drain(6000)
            sc.meta['lines'] = lines
            out.append(sc)
    return out


def fam_rt(P, n, tier):
    """C07: READ output fed back as WRITE arguments"""
    out = []
    for i in range(n):
        sc = Scn('rt%d' % i, cap=1, buf_size=P.choice([96, 200, 400]), ubuf_size=P.choice([-1, 8]), fill=0)
        nv = P.randint(1, 5)
        vars = []
        for k in range(nv):
            v = rand_var(P, access=RW, callbacks=False, odd_sizes=0, maxbuf=P.choice([3, 8, 16]))
            if v.vtype in (INT, UINT, HEX) and P.chance(0.5):
                # boundary bit patterns
                pat = P.choice([0, 1, 0x7f, 0x80, 0xff, 0x7fff, 0x8000, 0xffff, 0x7fffffff, 0x80000000, 0xffffffff, 10, 100, 0xfffffff6])
                v.init = (pat & ((1 << (8 * v.size)) - 1)).to_bytes(v.size, 'little')
            if v.vtype == BUFSTR:
                k2 = P.randint(0, v.size - 1)
                body = bytes(P.choice(b'ab"\\\n,xyZ9 \x80\xff\x01;?=') for _ in range(k2))
                v.init = (body + b'\0' * v.size)[:v.size]
            vars.append(v)
        if i % 3 == 2:
            # the working buffer fitted to the READ text: exactly (text + NUL), or one / two bytes more or less
            need = len(b'+V=' + py_read_text(vars)) + 1
            sc.buf_size = max(8, need + P.choice([0, 0, 0, 1, 2, -1]))
            sc.ubuf_size = 8
        c = Cmd('+V', vars=vars)
        sc.add_group([c])
        sc.feed('AT+V?\n')
        sc.drain(3000)
        sc.meta['rt'] = True
        sc.meta['rt_expect'] = b'+V=' + py_read_text(vars)
        out.append(sc)
    return out


def py_read_text(vars):
    """the argument list the documented READ format prints for these variables' initial contents
    (decimal, 0x + 2*size upper-case hex digits, upper-case hex pairs, quoted string with the escapes for
    backslash, quote and LF), written from the README, not from the model"""
    parts = []
    for v in vars:
        d = bytes(v.init)
        if v.vtype == INT:
            parts.append(b'%d' % int.from_bytes(d[:v.size], 'little', signed=True))
        elif v.vtype == UINT:
            parts.append(b'%d' % int.from_bytes(d[:v.size], 'little'))
        elif v.vtype == HEX:
            parts.append(b'0x' + (b'%%0%dX' % (2 * v.size)) % int.from_bytes(d[:v.size], 'little'))
        elif v.vtype == BUFHEX:
            parts.append(d[:v.size].hex().upper().encode())
        else:
            body = d[:v.size].split(b'\0')[0]
            parts.append(b'"' + body.replace(b'\\', b'\\\\').replace(b'"', b'\\"').replace(b'\n', b'\\n') + b'"')
    return b','.join(parts)


def fam_wo(P, n, tier):
    """C08: twin scenarios differing only in the contents of write-only variables"""
    out = []
    for i in range(n):
        st = P.getstate()
        twins = []
        for tw in (0, 1):
            P.setstate(st)
            sc = rand_desc(P, 'wo%d_%d' % (i, tw), mutex=False, callbacks=False)
            for c in sc.pool():
                for v in c.vars:
                    v.access = P.choice([RW, RO, WO, WO])
            for c in sc.pool():
                for kind, has in ((0, c.w), (1, c.r), (2, c.run), (3, c.t)):
                    if has and P.chance(0.5):
                        sc.script(kind, c.ci, 0, [Res(P.choice([RC['DATA_OK'], RC['OK'], RC['DATA_NEXT']])), Res(RC['DATA_OK'])])
            nl = P.randint(2, 6)
            for j in range(nl):
                c = P.choice(sc.cmds())
                roll = P.random()
                if roll < 0.4:
                    sc.feed('AT' + c.name.upper() + '?\n')
                elif roll < 0.6:
                    sc.feed('AT' + c.name.upper() + '=?\n')
                elif roll < 0.8:
                    sc.op('t %d %d' % (c.ci, P.choice([T_READ, T_TEST])))
                else:
                    sc.feed('AT' + c.name.upper() + '=' + write_line(P, c, sc) + '\n')
                sc.drain(3000)
            twins.append(sc)
        # now make twin 1 differ in WO contents only
        import random as _r
        R = _r.Random(P.randint(0, 1 << 30))
        for v in twins[1].vars:
            if v.access == WO:
                v.init = bytes(R.randint(0, 255) for _ in range(len(v.init)))
        out += twins
    return out


def fam_list(P, n, tier):
    """C19: TEST responses and command lists over descriptor shapes"""
    out = []
    for i in range(n):
        sc = rand_desc(P, 'list%d' % i, mutex=False, cap=(P.choice([1, 2, 3]) if i % 3 == 2 else 1),
                       buf=((P.choice([24, 28, 32, 40, 48, 64]), -1) if i % 3 == 2 else (P.choice([40, 64, 128, 256]), P.choice([-1, 32]))),
                       names=['+L%d' % k + 'x' * P.randint(0, 12 if (i % 3 == 2 and P.chance(0.3)) else 3) for k in range(12)], odd_sizes=0.1)
        lister = Cmd('#HELP', run=P.chance(0.5), t=True)
        if not lister.run:
            lister.t = True
        sc.groups[-1].append(lister)
        sc._renumber()
        if lister.run:
            sc.script(2, lister.ci, 0, [Res(RC['LIST'])] * 3)
        sc.script(3, lister.ci, 0, [Res(RC['LIST'])] * 3)
        for c in sc.cmds():
            if c is not lister and P.chance(0.15):
                sc.op('dc %d 1' % c.ci)
        for g in range(len(sc.groups) - 1):
            if P.chance(0.2):
                sc.op('dg %d 1' % g)
        sched(P, sc, style=P.choice(['eager', 'rand']))
        sc.feed('AT#HELP' + ('' if lister.run and P.chance(0.5) else '=?') + P.choice(['\n', '\r\n']))
        if i % 3 == 2:
            # events formatted / half-written while the list is being printed (and possibly aborted
            # with ERROR because a line does not fit): trigger at scattered service points
            evc = [c for c in sc.cmds() if c is not lister and (c.t or c.vars or c.r)]
            for j in range(P.randint(3, 10)):
                sc.service(P.randint(1, 60))
                if evc:
                    ev = P.choice(evc)
                    sc.op('t %d %d' % (ev.ci, P.choice([T_READ, T_TEST])))
                if P.chance(0.3):
                    sc.op('B')
        sc.drain(20000)
        for c in sc.cmds()[:6]:
            if c is lister:
                continue
            sc.feed('AT' + c.name.upper() + '=?\n')
            sc.drain(4000)
        out.append(sc)
    return out


def fam_bytes(P, n, tier):
    """every byte value in every syntactic position (exhaustive; n is ignored)"""
    out = []
    positions = ['idle', 'prefix', 'name', 'aftername', 'readack', 'arg0', 'argn', 'instr', 'inesc', 'hexdig', 'num', 'testack', 'err']
    for pos in positions:
        for blk in range(0, 256, 32):
            sc = Scn('bytes_%s_%d' % (pos, blk), cap=1, buf_size=64, ubuf_size=-1, fill=0)
            c = Cmd('+AB', w=True, r=True, run=True, t=True,
                    vars=[Var(BUFSTR, 6, RW), Var(BUFHEX, 3, RW), Var(UINT, 2, RW), Var(HEX, 2, RW)])
            c2 = Cmd('+ABZ', run=True)
            c3 = Cmd('+a{', run=True)
            c4 = Cmd('I', w=True, implicit=True)
            sc.add_group([c, c2, c3, c4])
            for b in range(blk, blk + 32):
                ch = bytes([b])
                line = {
                    'idle': ch + b'AT+AB\n', 'prefix': b'A' + ch + b'+AB\n', 'name': b'AT+A' + ch + b'\n',
                    'aftername': b'AT+AB' + ch + b'\n', 'readack': b'AT+AB?' + ch + b'\n',
                    'arg0': b'AT+AB=' + ch + b'\n', 'argn': b'AT+AB="a"' + ch + b'\n',
                    'instr': b'AT+AB="a' + ch + b'b"\n', 'inesc': b'AT+AB="a\\' + ch + b'b"\n',
                    'hexdig': b'AT+AB="a",0' + ch + b'\n', 'num': b'AT+AB="a",01,1' + ch + b',0x1' + ch + b'\n',
                    'testack': b'AT+AB=?' + ch + b'\n', 'err': b'AT!' + ch + b'x\n',
                }[pos]
                if b == 10:
                    line = line  # LF in the probed position simply ends the line early
                sc.feed(line)
                sc.drain(3000)
            out.append(sc)
    return out


def fam_sched(P, n, tier):
    """C12: the same scenario (command-only or event-only) under the eager and other schedules"""
    out = []
    for i in range(n):
        st = P.getstate()
        mode = P.choice(['cmd', 'cmd', 'ev'])
        nvar = P.randint(2, 4)
        for k in range(nvar):
            P.setstate(st)
            sc = rand_desc(P, 'sched%d_%d' % (i, k), mutex=False)
            add_scripts(P, sc, allow_hold=False, allow_calls=False, event_cmds=sc.pool())
            if mode == 'cmd':
                data = ''.join(rand_line(P, sc) for _ in range(P.randint(1, 5)))
            else:
                evs = [(P.choice(sc.pool()).ci, P.choice([T_READ, T_TEST])) for _ in range(P.randint(1, 6))]
            # schedule variant k (k = 0: eager)
            R = PRNG(P.randint(0, 1 << 30), 'sched%d' % k)
            if k == 1:
                sc.rd = R.bits(6000, 0.5); sc.wr = R.bits(6000, 0.5)
            elif k == 2:
                sc.rd = R.bits(6000, 0.85); sc.wr = R.bits(6000, 0.2)
            elif k == 3:
                sc.rd = R.bits(6000, 0.2); sc.wr = R.bits(6000, 0.9)
            if mode == 'cmd':
                if k == 0 or R.chance(0.5):
                    sc.feed(data)
                    sc.drain(30000)
                else:
                    # input split at arbitrary byte boundaries across service calls
                    pos = 0
                    while pos < len(data):
                        step = R.randint(1, 4)
                        sc.feed(data[pos:pos + step])
                        pos += step
                        sc.service(R.randint(0, 6))
                    sc.drain(30000)
            else:
                # events are triggered one at a time (the queue never overflows: wait for idle)
                for (ci, t) in evs:
                    sc.op('t %d %d' % (ci, t))
                    sc.drain(30000)
            sc.meta['sched_group'] = i
            sc.meta['mode'] = mode
            out.append(sc)
    return out


def fam_units(P, n, tier):
    """C11: both producers active under write back-pressure; every payload is self-delimiting and the two
    producers use disjoint alphabets (command: <UPPER>, OK, ERROR, AT... list lines; events: {lower}), so
    the accepted byte stream can be parsed into units without any help from the implementation."""
    out = []
    for i in range(n):
        sc = Scn('un%d' % i, cap=P.choice(CAPS), buf_size=P.choice([48, 64, 65, 96]), ubuf_size=P.choice([-1, -1, 24, 40]),
                 fill=P.choice([0, 0xAA]), mutex=False)
        rd = Cmd('+R', r=True)
        ls = Cmd('#L', run=True)
        other = Cmd('+Q', run=True, r=True, w=True, t=True)
        grp = [rd, ls, other]
        if i % 3 == 1:
            # a name too long for a list line: the list is cut short with ERROR while events are in flight
            grp.insert(P.randint(2, 3), Cmd('+Z' + 'Z' * (sc.asz() - P.randint(0, 4)), run=True))
        sc.add_group(grp)
        evs = [Cmd('e%d' % j, r=True, t=True) for j in range(P.randint(1, 3))]
        for e in evs:
            sc.add_extra(e)
        seqno = [0]

        def payload(lo, hi, open_, close, alpha):
            seqno[0] += 1
            body = '%d' % seqno[0] + ''.join(P.choice(alpha) for _ in range(P.randint(lo, hi)))
            return (open_ + body + close).encode()
        usz = sc.usz()
        # command side: read handler emitting 1..4 units per line, several lines
        script = []
        for k in range(12):
            for j in range(P.randint(0, 3)):
                script.append(Res(RC['DATA_NEXT'], payload(0, min(20, sc.asz() - 8), '<', '>', 'ABCDEFGHIJKLM')))
            script.append(Res(P.choice([RC['DATA_OK'], RC['DATA_OK'], RC['OK'], RC['ERROR']]), payload(0, min(20, sc.asz() - 8), '<', '>', 'ABCDEFGHIJKLM')))
        sc.script(1, rd.ci, 0, script)
        sc.script(2, ls.ci, 0, [Res(RC['LIST'])] * 6)
        sc.script(2, other.ci, 0, [Res(RC['OK'])] * 6)
        for e in evs:
            es = []
            for k in range(40):
                if P.chance(0.25):
                    es.append(Res(RC['DATA_NEXT'], payload(0, min(12, usz - 8), '{', '}', 'nopqrstuvwxyz')))
                es.append(Res(P.choice([RC['DATA_OK'], RC['DATA_OK'], RC['DATA_OK'], RC['OK']]), payload(0, min(12, usz - 8), '{', '}', 'nopqrstuvwxyz')))
            sc.script(1, e.ci, 0, es)
            # now and then an event's test handler answers PRINT_CMD_LIST_OK: for an event that finishes the
            # event silently (D2) and must leave the command machine's unit in flight alone
            sc.script(3, e.ci, 0, [(Res(RC['LIST']) if (i % 4 == 2 and P.chance(0.3)) else Res(RC['DATA_OK'], payload(0, min(12, usz - 8), '{', '}', 'nopqrstuvwxyz'))) for _ in range(20)])
        sc.rd = P.bits(6000, P.choice([0.5, 0.8, 1.0]))
        sc.wr = P.bits(6000, P.choice([0.3, 0.5, 0.7, 0.9]))
        for j in range(P.randint(6, 30 if tier == 'quick' else 60)):
            roll = P.random()
            if roll < 0.35:
                sc.op('t %d %d' % (P.choice(evs).ci, P.choice([T_READ, T_READ, T_TEST])))
            elif roll < 0.45:
                sc.op('q %d %d' % (P.choice(evs).ci, P.choice([T_READ, T_TEST, T_NONE])))
            elif roll < 0.7:
                sc.service(P.choice([1, 1, 2, 3, 5, 9, 17]))
            else:
                sc.feed(P.choice(['AT+R?', 'AT+R?', 'AT#L', 'AT#L', 'AT+Q', 'AT', 'AT+NOPE']) + P.choice(['\n', '\r\n']))
        sc.drain(20000)
        out.append(sc)
    return out


def fam_lanes(P, n, tier):
    """Stale working-buffer contents must never be read as argument text: command tables engineered so
    that the 2-bit match lanes left at the start of the working buffer after the name lookup spell a
    VALID argument (hex digits, a quoted string), followed by a request with an EMPTY or short argument."""
    # bytes whose four 2-bit lanes are all in {0,1,2} and which are useful argument characters
    def lanes_of(b):
        return [(b >> (2 * j)) & 3 for j in range(4)]
    hexch = [c for c in b'ABDEFabdef' if 3 not in lanes_of(c)]
    out = []
    for i in range(n):
        kind = P.choice(['hex', 'hex', 'str'])
        if kind == 'hex':
            text = bytes([P.choice([c for c in hexch if lanes_of(c)[0] == 2] or hexch)] + [P.choice(hexch) for _ in range(P.choice([1, 1, 3]))])
        else:
            text = b'""' if P.chance(0.5) else bytes([34] + [P.choice(b'abdefABDEF') for _ in range(P.choice([1, 2]))] + [34])
            if lanes_of(text[0])[0] not in (1, 2):
                text = b'""'
        lanes = [l for b in text for l in lanes_of(b)] + [0, 0, 0, 0]
        typed = P.choice(['+S', '+Q', '#A', 'M'])
        sc = Scn('lane%d' % i, cap=P.choice(CAPS), buf_size=P.choice([32, 48, 64]), ubuf_size=P.choice([-1, 16]),
                 fill=P.choice([0, 0x55, 0xFF]), mutex=False)
        cmds = []
        first_full = None
        for idx, l in enumerate(lanes):
            if l == 2:
                nm = typed
            elif l == 1:
                nm = typed + P.choice(['A', 'B', 'X1', 'YY'])
            else:
                nm = P.choice(['Z', 'ZZ', '+Z', 'K%d' % idx])
            if kind == 'hex':
                v = Var(BUFHEX, P.choice([2, 4, 8]), RW, init=bytes([0x11] * 8)[:8])
                v = Var(BUFHEX, v.size, RW, init=bytes([0x11] * v.size))
            else:
                sz = P.choice([4, 8])
                v = Var(BUFSTR, sz, RW, init=(b'zz' + bytes(sz))[:sz])
            cmds.append(Cmd(nm, vars=[v], w=P.chance(0.3)))
        sc.add_group(cmds)
        sched(P, sc, style=P.choice(['eager', 'rand']))
        for arg in ['', '', P.choice(['', ',', '0'])]:
            sc.feed('AT' + typed + '=' + arg + P.choice(['\n', '\r\n']))
            sc.drain(6000)
        out.append(sc)
    return out


def fam_search(P, n, tier):
    """the by-name lookup helpers of the public API (strcmp scans): exact names, case variants, prefixes,
    extensions, duplicates, unknown names; variable names present / absent / duplicated"""
    out = []
    for i in range(n):
        sc = rand_desc(P, 'srch%d' % i, mutex=False, cap=1)
        names = [c.name for c in sc.cmds()]
        for j in range(P.randint(4, 14)):
            nm = P.choice(names)
            roll = P.random()
            if roll < 0.4:
                q = nm
            elif roll < 0.55:
                q = nm.swapcase()
            elif roll < 0.7 and len(nm) > 1:
                q = nm[:P.randint(1, len(nm) - 1)]
            elif roll < 0.85:
                q = nm + P.choice(['A', '1', '+'])
            else:
                q = rand_name(P, 5, alpha=NAME_ALPHA)
            sc.op('sc ' + hx(q))
        for c in sc.pool():
            for v in c.vars[:3]:
                q = v.name if (v.name is not None and P.chance(0.7)) else rand_name(P, 4, alpha='xyzw', lower=0)
                if P.chance(0.2) and q:
                    q = q[:-1]
                sc.op('sv %d %s' % (c.ci, hx(q)) if q else 'sv %d E' % c.ci)
        # cat_search_command_group_by_name: named / unnamed / duplicate group names
        gpool = ['std', 'Std', 'x']
        for gi in range(len(sc.groups)):
            if P.chance(0.75):
                sc.gnames[gi] = P.choice(gpool)
        for j in range(P.randint(3, 8)):
            roll = P.random()
            if roll < 0.6:
                q = P.choice(sorted(set(sc.gnames.values())) or gpool)
            elif roll < 0.75:
                q = P.choice(gpool)[:-1]
            elif roll < 0.9:
                q = P.choice(gpool) + 'x'
            else:
                q = ''
            sc.op('sg ' + hx(q) if q else 'sg E')
        sc.feed('AT\n')
        sc.drain(200)
        out.append(sc)
    return out


def fam_needall(P, n, tier):
    """C06/C04: `need_all_vars`, read-only variables anywhere in the list, with and without a write handler,
    lines that give 0..n+1 fields (all fields are valid small numbers, so only the COUNT decides)"""
    out = []
    for i in range(n):
        sc = Scn('na%d' % i, cap=1, buf_size=P.choice([64, 80]), ubuf_size=-1, fill=0)
        nv = P.randint(1, 5)
        acc = [P.choice([RW, RW, RO, WO]) for _ in range(nv)]
        if i % 3 == 0:
            k0 = P.randint(0, nv - 1)
            acc = [RW] * k0 + [RO] * (nv - k0)          # trailing read-only variables
        if all(a == RO for a in acc):
            acc[0] = RW
        vars = [Var(P.choice([UINT, INT, HEX]), P.choice([1, 2, 4]), a, init=bytes(4)[:1]) for a in acc]
        for v in vars:
            v.init = bytes(v.size)
        c = Cmd('+C', w=P.chance(0.7), vars=vars, need_all=P.chance(0.6))
        sc.add_group([c])
        if c.w:
            sc.script(0, c.ci, 0, [Res(RC['OK'])] * 12)
        for k in list(range(0, nv + 2)):
            fields = []
            for j in range(k):
                v = vars[j] if j < nv else vars[-1]
                fields.append('0x1' if v.vtype == HEX else '1')
            sc.feed('AT+C=' + ','.join(fields) + '\n')
            sc.drain(3000)
        sc.meta['needall'] = (nv, c.need_all, c.w)
        out.append(sc)
    return out


def fam_bigcap(P, n, tier):
    """C13: an event queue of 260 entries (more than one byte can count): fill it completely, overfill it,
    drain it, fill again across the wrap-around; FIFO order is visible because the events alternate between
    commands with different texts"""
    out = []
    for i in range(n):
        sc = Scn('bigcap%d' % i, cap=260, buf_size=48, ubuf_size=P.choice([-1, 24]), fill=0)
        evs = [Cmd('+E%d' % j, vars=[Var(UINT, 1, RW, init=bytes([j + 1]))]) for j in range(3)]
        sc.add_group(evs)
        sched(P, sc, style=P.choice(['eager', 'rand']))
        pre = P.choice([0, 3, 100])
        for j in range(pre):
            sc.op('t %d %d' % (evs[j % 3].ci, T_READ))
        if pre:
            sc.drain(20000)
        for j in range(P.choice([255, 256, 257, 260, 263])):
            sc.op('t %d %d' % (evs[P.randint(0, 2)].ci, P.choice([T_READ, T_READ, T_TEST])))
            if j in (254, 255, 256, 259):
                sc.op('u')
                sc.op('q %d %d' % (evs[0].ci, T_NONE))
        sc.op('u')
        sc.service(P.choice([1, 40]))
        sc.op('u')
        sc.op('t %d %d' % (evs[0].ci, T_READ))
        sc.drain(40000)
        sc.op('u')
        out.append(sc)
    return out


def fam_overlap(P, n, tier):
    """both machines walking over variables at overlapping times: a command line (READ with a read handler and
    read callbacks, or WRITE of all variables) is served while an event on the same or on another command with
    variables is triggered after k service calls, k swept over the whole duration of the line"""
    out = []
    for i in range(n):
        k = i % 36
        sc = Scn('ovl%d' % i, cap=P.choice(CAPS), buf_size=P.choice([64, 80]), ubuf_size=P.choice([-1, 40]), fill=0)
        xv = [Var(UINT, 1, RW, init=bytes([11 + 11 * j]), hread=P.chance(0.5)) for j in range(P.choice([2, 3, 4]))]
        x = Cmd('+X', r=True, w=True, vars=xv)
        yv = [Var(UINT, 1, RW, init=bytes([70 + j]), hread=P.chance(0.6)) for j in range(P.choice([1, 2, 3]))]
        y = Cmd('+Y', vars=yv)
        sc.add_group([x, y])
        sc.script(1, x.ci, 0, [Res(RC['OK'])] * 8)
        sc.script(0, x.ci, 0, [Res(RC['OK'])] * 8)
        for vi, v in enumerate(xv):
            if v.hread:
                sc.script(4, x.ci, vi, [Res(0)] * 8)
        for vi, v in enumerate(yv):
            if v.hread:
                sc.script(4, y.ci, vi, [Res(0)] * 8)
        mode = i % 2
        if mode == 0:
            sc.feed('AT+X?\n')
        else:
            sc.feed('AT+X=' + ','.join(str(1 + j) for j in range(len(xv))) + '\n')
        if k:
            sc.service(k)
        ev = x if (i // 2) % 2 == 0 else y
        sc.op('t %d %d' % (ev.ci, T_READ))
        sc.drain(3000)
        sc.feed('AT+X?\n')
        sc.drain(3000)
        sc.meta['overlap'] = (mode, ev.ci)
        out.append(sc)
    return out


def fam_testev(P, n, tier):
    """C19: the TEST text produced for unsolicited TEST events, for every descriptor shape (description only,
    variables only, both, unnamed variables, test handler), with the event buffer around the text length;
    no command input, so every unit is framed by plain LF"""
    out = []
    for i in range(n):
        shapes = []
        for j in range(P.randint(2, 5)):
            kind = P.choice(['descr', 'descr', 'vars', 'both', 'handler', 'none'])
            vars = []
            if kind in ('vars', 'both'):
                vars = [rand_var(P, callbacks=False, odd_sizes=0.05) for _ in range(P.randint(1, 3))]
                for v in vars:
                    if P.chance(0.5):
                        v.name = P.choice(['x', 'speed', 'v1'])
            shapes.append(Cmd('+T%d' % j, descr=(P.choice(['d', 'some text', 'Q' * P.randint(1, 30)]) if kind in ('descr', 'both') or P.chance(0.2) else None),
                              t=(kind == 'handler'), r=P.chance(0.2), run=P.chance(0.3), vars=vars))
        texts = [len(ref_len_test_text(c)) for c in shapes]
        usz = max(3, P.choice(texts) + P.choice([-1, 0, 1, 2, 5]))
        shared = P.chance(0.5)
        sc = Scn('tev%d' % i, cap=P.choice(CAPS), buf_size=(2 * usz if shared else P.choice([24, 40])), ubuf_size=(-1 if shared else usz), fill=P.choice([0, 0x55]))
        if sc.asz() < 6:
            sc.buf_size = 12 if shared else 6
        cut = P.randint(1, len(shapes))
        sc.add_group(shapes[:cut])
        for c in shapes[cut:]:
            sc.add_extra(c)
        for c in sc.pool():
            if c.t:
                sc.script(3, c.ci, 0, [Res(P.choice([RC['DATA_OK'], RC['OK'], RC['DATA_OK']]))] * 6)
        sched(P, sc, style=P.choice(['eager', 'rand']))
        for j in range(P.randint(2, 8)):
            c = P.choice(sc.pool())
            sc.op('t %d %d' % (c.ci, T_TEST))
            if P.chance(0.6):
                sc.drain(3000)
        sc.drain(6000)
        out.append(sc)
    return out


def ref_len_test_text(c):
    import oracles
    t = oracles.ref_test_text(c, '\n')
    return t if t is not None else ''


def fam_manycmds(P, n, tier):
    """C02/C09: tables of several hundred commands sharing a prefix: abbreviations with 255..258 candidates
    (counter widths), the unique / ambiguous boundary moved by disabling single commands between lines"""
    out = []
    for i in range(n):
        total = P.choice([257, 258, 259, 260, 300])
        sc = Scn('many%d' % i, cap=1, buf_size=P.choice([160, 200, 256]), ubuf_size=16, fill=0)
        cmds = []
        for k in range(total):
            kind = P.random()
            cmds.append(Cmd('+C%03d' % k, run=True, r=(kind < 0.3), w=(kind > 0.8)))
        tail = [Cmd('+D', run=True), Cmd('+CX', run=True)][:P.randint(0, 2)]
        allc = cmds + tail
        P.shuffle(tail)
        cut = P.randint(1, len(allc) - 1)
        sc.add_group(allc[:cut])
        sc.add_group(allc[cut:])
        cand = [c for c in sc.cmds() if c.name.startswith('+C')]
        ncand = len(cand)
        # bring the number of enabled candidates of "+C" to 258, then step it down through 257, 256, 255
        off = []
        order = list(cand)
        P.shuffle(order)
        while ncand - len(off) > 258:
            c = order.pop()
            off.append(c)
            sc.op('dc %d 1' % c.ci)
        for step in range(4):
            for line in ('AT+C\n', 'AT+c?\n', 'AT+C0\n', 'AT+C25\n', 'AT+C%03d\n' % P.randint(0, total - 1)):
                if line == 'AT+C\n' or P.chance(0.4):
                    sc.feed(line)
                    sc.drain(60000)
            if order:
                c = order.pop()
                sc.op('dc %d 1' % c.ci)
        out.append(sc)
    return out


def fam_exh(P, n, tier):
    """bounded-exhaustive: EVERY input string up to a length bound over the syntactic alphabet of the line
    grammar, against one fixed table with prefix-related names, followed by a line feed and a drain
    (quick: all strings of length <= 3, thorough: <= 4).  Not sampled: exhaustive within the bound."""
    import itertools
    alpha = ['A', 'T', '+', 'X', 'Y', '?', '=', '1', ',', '\r', '\n']
    maxlen = 3 if tier == 'quick' else 4
    out = []
    idx = 0
    for L in range(0, maxlen + 1):
        for tup in itertools.product(alpha, repeat=L):
            s = ''.join(tup)
            sc = Scn('exh%d' % idx, cap=2, buf_size=24, ubuf_size=-1, fill=0x55, mutex=False)
            idx += 1
            sc.add_group([Cmd('+X', vars=[Var(UINT, 1, RW, init=b'\x07')], t=False),
                          Cmd('X', run=True, r=True),
                          Cmd('+XY', r=True, w=True, t=True),
                          Cmd('Y', w=True, implicit=True)])
            sc.script(1, 1, 0, [Res(RC['DATA_OK'], b'x')] * 2)
            sc.script(1, 2, 0, [Res(RC['DATA_OK'], b'y')] * 2)
            sc.feed(s + '\n')
            sc.drain(400)
            sc.feed('AT+X?\n')          # the parser must be back in shape for a normal line
            sc.drain(400)
            out.append(sc)
    return out


def fam_mxev(P, n, tier):
    """mutex configured, lock always succeeds, UNLOCK fails at chosen trigger calls: the call reports
    ERROR_MUTEX_UNLOCK although its body ran, and the queue must stay consistent afterwards (later events are
    still delivered exactly once, in order).  Every event command has read and test handlers with terminal
    scripts, so every event taken from the queue is visible as a handler call."""
    out = []
    for i in range(n):
        sc = Scn('mx%d' % i, cap=P.choice([2, 2, 3, 8, 1]), buf_size=P.choice([48, 64]), ubuf_size=P.choice([-1, 24]),
                 fill=0, mutex=True)
        sc.add_group([Cmd('+Q', run=True)])
        evs = [Cmd('e%d' % j, r=True, t=True) for j in range(P.randint(1, 3))]
        for e in evs:
            sc.add_extra(e)
            sc.script(1, e.ci, 0, [Res(P.choice([RC['DATA_OK'], RC['OK']]), ('{%d}' % k).encode()) for k in range(60)])
            sc.script(3, e.ci, 0, [Res(P.choice([RC['DATA_OK'], RC['OK']]), ('{t%d}' % k).encode()) for k in range(60)])
        sc.script(2, 0, 0, [Res(RC['OK'])] * 10)
        nlock = 0
        ul_fail = []
        for j in range(P.randint(6, 30)):
            roll = P.random()
            if roll < 0.5:
                if P.chance(0.25):
                    ul_fail.append(nlock)
                sc.op('t %d %d' % (P.choice(evs).ci, P.choice([T_READ, T_TEST])))
                nlock += 1
            elif roll < 0.6:
                sc.op(P.choice(['u', 'b']))
                nlock += 1
            else:
                k = P.choice([1, 2, 3, 7, 15])
                sc.service(k)
                nlock += k
        total = nlock + 4100
        ul = [True] * total
        for x in ul_fail:
            ul[x] = False
        sc.ul = ul
        sc.lk = [True] * total
        sc.drain(4000)
        out.append(sc)
    return out


def fam_exharg(P, n, tier):
    """bounded-exhaustive ARGUMENT texts: every string up to a length bound over the alphabet that matters for
    each variable type, as the single argument of a WRITE (20 lines per scenario; the variable keeps its value
    between lines and the oracle tracks it).  Numeric: 0 1 2 9 - + x X a F ,  (decimal / hex grammar, signs,
    prefix, separators); buffers: \" \\ n a 0 F , A (quotes, escapes, hex digits, separators)."""
    import itertools
    out = []
    num_alpha = ['0', '1', '2', '9', '-', '+', 'x', 'X', 'a', 'F', ',']
    buf_alpha = ['"', '\\', 'n', 'a', '0', 'F', ',', 'A']
    Ln = 3 if tier == 'quick' else 4
    Lb = 4 if tier == 'quick' else 5
    plans = [('i', INT, 1, num_alpha, Ln), ('u', UINT, 1, num_alpha, Ln), ('h', HEX, 1, num_alpha, Ln),
             ('b', BUFHEX, 2, buf_alpha, Lb), ('s', BUFSTR, 3, buf_alpha, Lb)]
    for tag, vt, size, alpha, L in plans:
        texts = [''.join(t) for k in range(0, L + 1) for t in itertools.product(alpha, repeat=k)]
        for ci in range(0, len(texts), 20):
            sc = Scn('xa%s%d' % (tag, ci // 20), cap=1, buf_size=32, ubuf_size=-1, fill=0, mutex=False)
            sc.add_group([Cmd('+V', vars=[Var(vt, size, RW, init=bytes([0x5a] * size))])])
            for t in texts[ci:ci + 20]:
                sc.feed('AT+V=' + t + '\n')
                sc.drain(600)
            out.append(sc)
    return out


FAMILIES = {
    'mixed': fam_mixed, 'names': fam_names, 'num': fam_num, 'buf': fam_buf, 'cap': fam_cap, 'rc': fam_rc,
    'events': fam_events, 'hold': fam_hold, 'mutex': fam_mutex, 'lines': fam_lines, 'rt': fam_rt,
    'wo': fam_wo, 'list': fam_list, 'bytes': fam_bytes, 'sched': fam_sched, 'units': fam_units, 'lanes': fam_lanes, 'search': fam_search, 'manycmds': fam_manycmds, 'testev': fam_testev, 'overlap': fam_overlap, 'bigcap': fam_bigcap, 'needall': fam_needall, 'exh': fam_exh, 'mxev': fam_mxev, 'exharg': fam_exharg,
}


def generate(families, seed, n_each, tier='quick'):
    scns = []
    for fam in families:
        P = PRNG(seed, fam)
        lst = FAMILIES[fam](P, n_each.get(fam, 100) if isinstance(n_each, dict) else n_each, tier)
        for s in lst:
            s.meta['family'] = fam
            s.name = '%s_s%s' % (s.name, seed)
        scns += lst
    return scns


if __name__ == '__main__':
    import sys
    fams = sys.argv[1].split(',')
    seed = int(sys.argv[2]) if len(sys.argv) > 2 else 1
    n = int(sys.argv[3]) if len(sys.argv) > 3 else 10
    for s in generate(fams, seed, n):
        sys.stdout.write(s.text())
