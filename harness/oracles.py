"""oracles.py — per-property oracles evaluated directly on traces of the C
implementation (never on the model).  Each oracle takes (scn, trace_lines) and
returns a list of human-readable failure strings; an empty list means the
property held on this scenario as far as the oracle can judge.  Oracles are
written to be sound: they only flag what the property statement forbids."""
from catlib import *

NAMECH = set(b'ABCDEFGHIJKLMNOPQRSTUVWXYZ0123456789+#$@_%&')


def up(b):
    return bytes(c - 32 if 97 <= c <= 122 else c for c in b)


def event_side_hold(tr):
    """D3: an event-side handler returned HOLD — outside the contract of C01/C11/C14/C18/C20"""
    for l in tr:
        if (l.startswith('H r 1 ') or l.startswith('H t 1 ')) and l.endswith('-> 4'):
            return True
    return False


class LineRec:
    def __init__(self, text, idx):
        self.text, self.idx = text, idx
        self.calls, self.out, self.result, self.mems = [], bytearray(), None, []
        self.flags_cmd, self.flags_grp = None, None


def segment(scn, tr):
    """Walk a trace; returns (lines, problems).  problems are C01-type facts."""
    lines, problems = [], []
    cur = bytearray()
    pending = None
    outseg = bytearray()
    dis_cmd = [False] * len(scn.pool())
    dis_grp = [False] * len(scn.groups)
    line_started_flags = None
    flag_change = False
    for l in tr:
        t = l.split()
        k = t[0]
        if k == '>':
            if t[1] == 'dc':
                dis_cmd[int(t[2])] = t[3] == '1'
                flag_change = True
            elif t[1] == 'dg':
                dis_grp[int(t[2])] = t[3] == '1'
                flag_change = True
            elif t[1] in ('N', 'NI'):
                cur = bytearray()
        elif k == 'R' and t[1] != '-':
            b = int(t[1], 16)
            if pending is not None:
                problems.append('input byte %02x consumed before the result code of line %r was completely emitted' % (b, bytes(pending.text)))
            if not cur and pending is None:
                line_started_flags = (list(dis_cmd), list(dis_grp))
                flag_change = False
            if b == 10:
                if any(c != 13 for c in cur):
                    pending = LineRec(bytes(cur), len(lines))
                    pending.flags_cmd, pending.flags_grp = line_started_flags or (list(dis_cmd), list(dis_grp))
                    pending.flags_end = (list(dis_cmd), list(dis_grp))
                    pending.rec_flag = flag_change
                    lines.append(pending)
                cur = bytearray()
            else:
                cur.append(b)
        elif k == 'W' and t[2] == '1':
            b = int(t[1], 16)
            if pending is not None:
                pending.out.append(b)
            if b == 10:
                seg = bytes(x for x in outseg if x != 13)
                outseg = bytearray()
                if seg in (b'OK', b'ERROR'):
                    if pending is None:
                        problems.append('result code %s emitted although no line is waiting for one' % seg.decode())
                    else:
                        pending.result = seg.decode()
                        if flag_change:
                            pending.flags_end = (None, None)     # flags changed while the line was in flight
                        pending = None
            else:
                outseg.append(b)
        elif k in ('H', 'V'):
            if pending is not None:
                pending.calls.append(t)
        elif k == 'M':
            if pending is not None:
                pending.mems.append((int(t[1]), unhex(t[2])))
    return lines, problems, pending


def fully_drained(scn, tr):
    """the run ended quiescent: last service returned OK and all fed input was consumed"""
    fed = sum(len(unhex(o.split()[1])) for o in scn.ops if o.startswith('f '))
    last = None
    for l in tr:
        if l.startswith('= s '):
            last = l
    return last == '= s 0' and len(consumed_bytes(tr)) == fed


# ---------------------------------------------------------------- C01
def oracle_C01(scn, tr):
    if event_side_hold(tr):
        return []
    lines, problems, pending = segment(scn, tr)
    fails = list(problems)
    if pending is not None and fully_drained(scn, tr) and not any(l == '= h 2' for l in tr[-40:]):
        fails.append('line %r never received a result code although the parser reports quiescence' % pending.text)
    return fails


# ---------------------------------------------------------------- C02 / C09
def enabled(scn, i, fc, fg):
    gi = 0
    n = 0
    for g_i, g in enumerate(scn.groups):
        if i < n + len(g):
            gi = g_i
            break
        n += len(g)
    return not fc[i] and not fg[gi]


def resolve(scn, typed, fc, fg):
    """reference name resolution (property C02); typed is upper-case bytes"""
    cmds = scn.cmds()
    for i, c in enumerate(cmds):
        if enabled(scn, i, fc, fg) and up(c.name.encode('latin-1')) == typed:
            return i
    cand = [i for i, c in enumerate(cmds) if enabled(scn, i, fc, fg)
            and len(c.name) > len(typed) and up(c.name.encode('latin-1'))[:len(typed)] == typed]
    return cand[0] if len(cand) == 1 else None


def ref_parse_line(scn, text, fc, fg):
    """Reference reading of one line (CRs already irrelevant).  Returns None if the line is
    not of the form AT<name><suffix> (no claim), else (ci or None, type, args)."""
    t = bytes(c for c in text if c != 13)
    if len(t) < 2 or up(t[:2]) != b'AT':
        return None
    rest = t[2:]
    name = bytearray()
    i = 0
    cmds = scn.cmds()
    while i < len(rest) and (up(rest[i:i + 1])[0] in NAMECH):
        name.append(up(rest[i:i + 1])[0])
        i += 1
        # implicit write: as soon as the typed name equals an enabled implicit-write command
        if any(enabled(scn, j, fc, fg) and c.implicit and up(c.name.encode('latin-1')) == bytes(name)
               for j, c in enumerate(cmds)):
            return (resolve(scn, bytes(name), fc, fg), 'W', rest[i:])
    if not name:
        return None
    suffix = rest[i:]
    if suffix == b'':
        ty = 'N'
    elif suffix == b'?':
        ty = 'R'
    elif suffix[:1] == b'=':
        ty = 'W'
    else:
        return None
    return (resolve(scn, bytes(name), fc, fg), ty, suffix[1:] if ty == 'W' else b'')


def call_kind(t):
    return t[1] if t[0] == 'H' else ('vr' if t[1] == 'r' else 'vw')


def call_ci(t):
    if t[0] == 'H':
        return int(t[2]) if t[1] in ('w', 'n') else int(t[3])
    return int(t[2])


def is_cmd_side(t):
    if t[0] == 'H' and t[1] in ('r', 't'):
        return t[2] == '0'
    return True


def oracle_C02(scn, tr):
    if any(l.startswith('> t ') or l.startswith('I t ') for l in tr):
        return []          # events running concurrently: V r calls cannot be attributed
    lines, problems, pending = segment(scn, tr)
    fails = []
    for ln in lines:
        if ln.flags_cmd != ln.flags_end[0] or ln.flags_grp != ln.flags_end[1]:
            continue        # flags changed in mid-line: outside the quantifier
        ref = ref_parse_line(scn, ln.text, ln.flags_cmd, ln.flags_grp)
        if ref is None:
            continue
        ci, ty, args = ref
        calls = [c for c in ln.calls if is_cmd_side(c)]
        if ci is None:
            if calls:
                fails.append('line %r: no command is selected by the name rule but callbacks ran: %s' % (ln.text, calls[0]))
            if ln.result == 'OK':
                fails.append('line %r: no command is selected by the name rule but the answer is OK' % ln.text)
            continue
        c = scn.cmds()[ci]
        if ty == 'W' and args == b'?' and not (c.implicit):
            allowed = {'t', 'w', 'vw'}      # the =? form (TEST), or '?' handed to write (see cat.h)
            if c.t or c.vars:
                allowed = {'t'}
        else:
            allowed = {'N': {'n'}, 'R': {'r', 'vr'}, 'W': {'w', 'vw'}}[ty]
        bad = False
        for cl in calls:
            if call_ci(cl) != ci:
                fails.append('line %r: resolves to command %d (%s) but a callback of command %d ran' % (ln.text, ci, c.name, call_ci(cl)))
                bad = True
                break
            if call_kind(cl) not in allowed:
                fails.append('line %r: request type %s but callback kind %s ran' % (ln.text, ty, call_kind(cl)))
                bad = True
                break
        if bad or c.only_test:
            continue
        # completeness: the selected command's handler must actually be invoked for a form it serves
        # (only the handler-only cases, where nothing else can legitimately end the line before the call)
        kinds = [call_kind(cl) for cl in calls]
        nm = len(c.name)
        if ty == 'N' and c.run and 'n' not in kinds:
            fails.append('line %r: selects command %d (%s) which has a run handler, but the handler was not invoked (answer %s)' % (ln.text, ci, c.name, ln.result))
        elif ty == 'R' and c.r and not any(v.access in (RW, RO) for v in c.vars) and nm + 1 < scn.asz() and 'r' not in kinds:
            fails.append('line %r: selects command %d (%s) which has a read handler and no readable variable, but the handler was not invoked (answer %s)' % (ln.text, ci, c.name, ln.result))
        elif ty == 'W' and c.w and not any(v.access in (RW, WO) for v in c.vars) and len(args) < scn.asz() \
                and not (args[:1] == b'?' and (c.t or c.vars) and not c.implicit) and 'w' not in kinds:
            fails.append('line %r: selects command %d (%s) which has a write handler and no writable variable, but the handler was not invoked (answer %s)' % (ln.text, ci, c.name, ln.result))
    return fails


def dispatch_accepts(c, ty):
    """gating reference (C09/C19): can the request form be served at all?"""
    if ty == 'T':
        return bool(c.t or c.vars) and not c.implicit
    if c.only_test:
        return False
    if ty == 'N':
        return c.run
    if ty == 'R':
        return c.r or any(v.access in (RW, RO) for v in c.vars)
    if ty == 'W':
        return c.w or any(v.access in (RW, WO) for v in c.vars)
    return False


def oracle_C09(scn, tr):
    lines, problems, pending = segment(scn, tr)
    fails = []
    noev = not any(l.startswith('> t ') or l.startswith('I t ') for l in tr)
    for ln in lines:
        if ln.flags_cmd != ln.flags_end[0] or ln.flags_grp != ln.flags_end[1]:
            continue
        fc, fg = ln.flags_cmd, ln.flags_grp
        # (a) no callback / store of a disabled command caused by a command line
        for cl in ln.calls:
            if not is_cmd_side(cl):
                continue
            if cl[0] == 'V' and cl[1] == 'r' and not noev:
                continue
            ci = call_ci(cl)
            if ci < len(scn.cmds()) and not enabled(scn, ci, fc, fg):
                fails.append('line %r ran a callback of disabled command %d (%s)' % (ln.text, ci, scn.cmds()[ci].name))
                break
        if noev:
            for slot, _ in ln.mems:
                owner = next((c for c in scn.pool() for v in c.vars if v.slot == slot), None)
                if owner is not None and owner.ci < len(scn.cmds()) and not enabled(scn, owner.ci, fc, fg):
                    # a handler poke may legitimately change any variable
                    if not any(sc_has_pokes(scn)):
                        fails.append('line %r changed variable slot %d of disabled command %s' % (ln.text, slot, owner.name))
        # (b) forms
        ref = ref_parse_line(scn, ln.text, fc, fg)
        if ref is None or ref[0] is None or not noev:
            continue
        ci, ty, args = ref
        c = scn.cmds()[ci]
        calls = [x for x in ln.calls if is_cmd_side(x)]
        if ty == 'W' and args == b'?' and (c.t or c.vars) and not c.implicit:
            ty = 'T'
        if c.only_test and ty != 'T':
            if calls:
                fails.append('line %r: test-only command %s ran a callback for a non-test form' % (ln.text, c.name))
            if ln.result == 'OK':
                fails.append('line %r: test-only command %s answered OK to a non-test form' % (ln.text, c.name))
        elif not dispatch_accepts(c, ty):
            if calls or ln.mems and not any(sc_has_pokes(scn)):
                fails.append('line %r: form %s of %s has neither handler nor accessible variable but had side effects' % (ln.text, ty, c.name))
            if ln.result == 'OK':
                fails.append('line %r: form %s of %s has neither handler nor accessible variable but answered OK' % (ln.text, ty, c.name))
    return fails


def sc_has_pokes(scn):
    for rs in scn.scripts.values():
        for r in rs:
            yield bool(r.pokes)


# ---------------------------------------------------------------- C04 / C05 reference decoders
def ref_num(v, txt):
    """returns ('ok', value) / ('bad',) for a numeric field text (bytes)"""
    try:
        s = txt.decode('latin-1')
    except Exception:
        return ('bad',)
    if v.vtype == INT:
        body = s[1:] if s[:1] in ('+', '-') else s
        if not body or not all('0' <= ch <= '9' for ch in body):
            return ('bad',)
        val = int(body) * (-1 if s[:1] == '-' else 1)
        lo, hi = -(1 << (8 * v.size - 1)), (1 << (8 * v.size - 1)) - 1
    elif v.vtype == UINT:
        if not s or not all('0' <= ch <= '9' for ch in s):
            return ('bad',)
        val = int(s)
        lo, hi = 0, (1 << (8 * v.size)) - 1
    else:
        if len(s) < 3 or s[0] != '0' or s[1] not in 'xX' or not all(ch in '0123456789abcdefABCDEF' for ch in s[2:]):
            return ('bad',)
        val = int(s[2:], 16)
        lo, hi = 0, (1 << (8 * v.size)) - 1
    if v.size not in (1, 2, 4):
        return ('bad',)
    if not (lo <= val <= hi):
        return ('bad',)
    return ('ok', val)


def ref_bufhex(v, txt):
    s = txt.decode('latin-1')
    if len(s) == 0 or len(s) % 2 or not all(ch in '0123456789abcdefABCDEF' for ch in s):
        return ('bad',)
    b = bytes.fromhex(s)
    if len(b) > v.size:
        return ('bad',)
    return ('ok', b)


def ref_bufstr(v, txt):
    if len(txt) < 2 or txt[0] != 34:
        return ('bad',)
    out = bytearray()
    i = 1
    while True:
        if i >= len(txt):
            return ('bad',)
        ch = txt[i]
        if ch == 0:
            return ('bad',)
        if ch == 92:
            if i + 1 >= len(txt):
                return ('bad',)
            e = txt[i + 1]
            if e == 92:
                out.append(92)
            elif e == 34:
                out.append(34)
            elif e == 110:
                out.append(10)
            else:
                return ('bad',)
            i += 2
            continue
        if ch == 34:
            break
        out.append(ch)
        i += 1
    if i != len(txt) - 1:
        return ('bad',)
    if len(out) > v.size - 1:
        return ('bad',)
    return ('ok', bytes(out))


def split_fields(args):
    """split argument text at commas that are outside quotes (the way the decoders consume it):
    a string field ends at its closing quote; other fields at the next comma"""
    fields, i, n = [], 0, len(args)
    while True:
        if i < n and args[i] == 34:
            j = i + 1
            while j < n:
                if args[j] == 92:
                    j += 2
                    continue
                if args[j] == 34:
                    break
                j += 1
            k = j + 1
            while k < n and args[k] != 44:
                k += 1
            fields.append(args[i:k])
            i = k
        else:
            k = i
            while k < n and args[k] != 44:
                k += 1
            fields.append(args[i:k])
            i = k
        if i >= n:
            break
        i += 1       # skip comma
        if i == n:
            fields.append(b'')
            break
    return fields


def value_bytes(v, val):
    if v.vtype == INT:
        return (val & ((1 << (8 * v.size)) - 1)).to_bytes(v.size, 'little')
    return val.to_bytes(v.size, 'little')


def oracle_writes(scn, tr, types):
    """shared by C04 (numeric types) and C05 (buffer types): per WRITE line of a single-command
    scenario, every field of one of `types` is judged against the reference decoder."""
    lines, problems, pending = segment(scn, tr)
    fails = []
    mem = {v.slot: bytes(v.init) for v in scn.vars}
    # slots the application's own handlers store into (scripted pokes): their contents after a line are not
    # the library's doing, so stored values are not judged there (acceptance/rejection still is)
    poked = set(slot for rs in scn.scripts.values() for r in rs for (slot, _) in r.pokes)
    # replay memory changes in order; judge each line
    for ln in lines:
        before = dict(mem)
        for slot, data in ln.mems:
            mem[slot] = data
        if ln.flags_end[0] is None or ln.flags_cmd != ln.flags_end[0] or ln.flags_grp != ln.flags_end[1]:
            continue
        ref = ref_parse_line(scn, ln.text, ln.flags_cmd, ln.flags_grp)
        if ref is None or ref[0] is None or ref[1] != 'W':
            continue
        c = scn.cmds()[ref[0]]
        args = ref[2]
        if args == b'?' or len(args) >= scn.asz() or c.only_test:
            continue
        # D9: the typed decoders see the argument text as a C string (up to the first NUL)
        args = args.split(b'\0')[0]
        if any(x[0] == 'H' and x[1] in ('r', 't', 'n') for x in ln.calls):
            continue
        fields = split_fields(args)
        vw = [x for x in ln.calls if x[0] == 'V' and x[1] == 'w']
        hw = [x for x in ln.calls if x[0] == 'H' and x[1] == 'w']
        ok_so_far = True
        for i, f in enumerate(fields):
            if i >= len(c.vars):
                break
            v = c.vars[i]
            if v.access == RO:
                break           # outside C04/C05 (C08 judges read-only variables); stop judging this line
            if v.vtype in (INT, UINT, HEX):
                r = ref_num(v, f)
            elif v.vtype == BUFHEX:
                r = ref_bufhex(v, f)
            else:
                r = ref_bufstr(v, f)
            if v.vtype not in types:
                if r[0] != 'ok':
                    ok_so_far = False
                    break
                continue
            if r[0] == 'ok':
                if v.vtype in (INT, UINT, HEX):
                    want = value_bytes(v, r[1])
                    got = mem[v.slot][:v.size]
                    if got != want and not cb_failed_before(vw, i) and v.slot not in poked:
                        fails.append('line %r: field %d %r is well-formed and in range but variable slot %d holds %s instead of %s'
                                     % (ln.text, i, f, v.slot, got.hex(), want.hex()))
                        ok_so_far = False
                        break
                else:
                    want = r[1] + (b'\0' if v.vtype == BUFSTR else b'')
                    got = mem[v.slot][:len(want)]
                    if got != want and not cb_failed_before(vw, i) and v.slot not in poked:
                        fails.append('line %r: field %d %r decodes to %s but variable slot %d starts with %s'
                                     % (ln.text, i, f, want.hex(), v.slot, got.hex()))
                        ok_so_far = False
                        break
                    if mem[v.slot][len(want):] != before[v.slot][len(want):] and v.vtype == BUFHEX and v.slot not in poked:
                        fails.append('line %r: field %d: bytes beyond the decoded length changed in slot %d' % (ln.text, i, v.slot))
                    # write_size told to the variable callback
                    mine = [x for x in vw if int(x[3]) == i]
                    if mine and int(mine[0][4]) != len(r[1]):
                        fails.append('line %r: field %d decodes to %d bytes but the variable callback was told %s'
                                     % (ln.text, i, len(r[1]), mine[0][4]))
                # a failing variable callback legitimately ends the line with ERROR
                mine = [x for x in vw if int(x[3]) == i]
                if mine and mine[0][-1] != '0':
                    ok_so_far = False
                    break
            else:
                ok_so_far = False
                if ln.result != 'ERROR':
                    fails.append('line %r: field %d %r is malformed or out of range for its variable but the answer is %s'
                                 % (ln.text, i, f, ln.result))
                if v.vtype in (INT, UINT, HEX) and mem[v.slot] != before[v.slot] and v.slot not in poked:
                    fails.append('line %r: field %d %r is rejected but variable slot %d changed from %s to %s'
                                 % (ln.text, i, f, v.slot, before[v.slot].hex(), mem[v.slot].hex()))
                if hw:
                    fails.append('line %r: field %d %r is rejected but the write handler ran' % (ln.text, i, f))
                if [x for x in vw if int(x[3]) == i]:
                    fails.append('line %r: field %d %r is rejected but its variable callback ran' % (ln.text, i, f))
                break
        else:
            pass
        # all fields fine, count fits: the answer must be OK when nothing else can refuse
        if ok_so_far and len(fields) <= len(c.vars) and all(c.vars[i].access != RO for i in range(len(fields))) \
                and not (c.need_all and len(fields) != len(c.vars)) and not c.w and not c.only_test \
                and all(x[-1] == '0' for x in vw):
            if ln.result != 'OK':
                fails.append('line %r: every field is well-formed and in range but the answer is %s' % (ln.text, ln.result))
    return fails


def cb_failed_before(vw, i):
    return any(int(x[3]) < i and x[-1] != '0' for x in vw)


def oracle_C04(scn, tr):
    return oracle_writes(scn, tr, (INT, UINT, HEX))


def oracle_C05(scn, tr):
    fails = oracle_writes(scn, tr, (BUFHEX, BUFSTR))
    for l in tr:
        if l.startswith('CANARY'):
            fails.append('a byte at or beyond data_size was modified: ' + l)
    return fails


# ---------------------------------------------------------------- C06
def split_fields(text):
    """top-level comma-separated fields of a response's argument text (quotes and backslash escapes respected)"""
    fields, cur, inq, esc = [], bytearray(), False, False
    for b in text:
        if inq:
            cur.append(b)
            if esc:
                esc = False
            elif b == 0x5c:
                esc = True
            elif b == 0x22:
                inq = False
        elif b == 0x22:
            inq = True
            cur.append(b)
        elif b == 0x2c:
            fields.append(bytes(cur)); cur = bytearray()
        else:
            cur.append(b)
    fields.append(bytes(cur))
    return fields


def oracle_C06_fields(scn, tr):
    """the response text a command-side READ handler is first invoked with is NAME= followed by exactly one
    field per variable of the command, whatever the event machine is doing meanwhile"""
    fails = []
    last = {}
    pool = scn.pool()
    for l in tr:
        t = l.split()
        if t[0] == 'H' and t[1] == 'r' and t[2] == '0':
            ci = int(t[3])
            first = last.get(ci) not in (1, 2)
            last[ci] = int(t[-1])
            if not first or ci >= len(pool):
                continue
            c = pool[ci]
            text = unhex(t[4])[:int(t[5])]
            head = c.name.encode('latin-1') + b'='
            if not c.vars or not any(v.access in (RW, RO) for v in c.vars):
                continue
            if not text.startswith(head):
                fails.append('read handler of %s first invoked with %r (expected the text to start with %r)' % (c.name, text, head))
                continue
            nf = len(split_fields(text[len(head):]))
            if nf != len(c.vars):
                fails.append('read handler of %s first invoked with %r: %d fields for %d variables' % (c.name, text, nf, len(c.vars)))
        elif t[0] == 'H' and t[1] == 'w' and scn.meta.get('family') == 'overlap':
            # family overlap: all variables are plain numeric and the line gives one value per variable
            ci = int(t[2])
            data, ln_, an = unhex(t[3]), int(t[4]), int(t[5])
            nf = len(split_fields(data[:ln_]))
            if an != nf:
                fails.append('write handler of %s received %r with args_num %d (the line has %d fields)' % (pool[ci].name, data[:ln_], an, nf))
    if scn.meta.get('family') == 'overlap' and fully_drained(scn, tr):
        # every accepted line of this family is answered OK (nothing can fail), and every variable read
        # callback runs exactly once per variable per response
        out = bytes(x for x in out_bytes(tr) if x != 13)
        if b'ERROR' in out:
            fails.append('a line of the overlap family was answered ERROR: %r' % out[:120])
    return fails


def oracle_C12_once(scn, tr):
    """family overlap, run drained: whatever the readiness schedule, every variable read callback is invoked
    exactly once per variable per response (READ line or READ event) of its command"""
    if scn.meta.get('family') != 'overlap' or 'overlap' not in scn.meta or not fully_drained(scn, tr):
        return []
    mode, evci = scn.meta['overlap']
    fails = []
    cmds = scn.cmds()
    if any(l.startswith('= t') and l.split()[2] != '0' for l in tr):
        return []
    for c in cmds:
        responses = (2 if mode == 0 else 1) if c.name == '+X' else 0
        responses += 1 if c.ci == evci else 0
        for vi, v in enumerate(c.vars):
            if not v.hread:
                continue
            n = sum(1 for l in tr if l.startswith('V r %d %d ' % (c.ci, vi)))
            if n != responses:
                fails.append('read callback of variable %d of %s ran %d times for %d responses (the sequence of handler invocations must not depend on output refusals)' % (vi, c.name, n, responses))
    return fails


def oracle_C06_needall(scn, tr):
    """family needall: only the number of fields decides: more fields than variables, no field at all, or
    fewer than all with need_all_vars -> ERROR and no write handler call; otherwise OK and (if there is a write
    handler) exactly one call with args_num = number of fields given"""
    if scn.meta.get('family') != 'needall':
        return []
    fails = []
    lines, problems, pending = segment(scn, tr)
    c = scn.cmds()[0]
    nv = len(c.vars)
    for ln in lines:
        t = bytes(x for x in ln.text if x != 13)
        if not t.startswith(b'AT+C='):
            continue
        arg = t[5:]
        k = 0 if arg == b'' else arg.count(b',') + 1
        hw = [x for x in ln.calls if x[0] == 'H' and x[1] == 'w']
        bad = (k == 0) or (k > nv) or (c.need_all and k < nv)
        if bad:
            if ln.result != 'ERROR' or hw:
                fails.append('line %r gives %d fields for %d variables (need_all_vars=%d): expected ERROR and no write handler call, got %s and %d call(s)' % (ln.text, k, nv, int(c.need_all), ln.result, len(hw)))
        else:
            if ln.result != 'OK':
                fails.append('line %r gives %d valid fields for %d variables (need_all_vars=%d) but was answered %s' % (ln.text, k, nv, int(c.need_all), ln.result))
            if c.w and (len(hw) != 1 or int(hw[0][5]) != k):
                fails.append('line %r: write handler calls %r, expected one call with args_num %d' % (ln.text, [x[3:6] for x in hw], k))
    return fails


def oracle_C06(scn, tr):
    lines, problems, pending = segment(scn, tr)
    fails = []
    asz = scn.asz()
    if any(l.startswith('> t ') or l.startswith('I t ') for l in tr):
        return []
    for ln in lines:
        fc, fg = ln.flags_cmd, ln.flags_grp
        ref = ref_parse_line(scn, ln.text, fc, fg)
        # read/test handlers: capacity of the right buffer
        for cl in ln.calls:
            if cl[0] == 'H' and cl[1] in ('r', 't'):
                f, text, pos, cp = cl[2], unhex(cl[4]), int(cl[5]), int(cl[6])
                want_cap = asz if f == '0' else scn.usz()
                if cp != want_cap:
                    fails.append('line %r: handler was told capacity %d, the buffer has %d' % (ln.text, cp, want_cap))
                if len(text) == pos + 1 and text[pos] != 0:
                    fails.append('line %r: response text handed to the handler is not NUL-terminated at its length' % ln.text)
        if ref is None or ref[0] is None or ref[1] != 'W':
            continue
        ci, ty, args_raw = ref
        # argument bytes as sent: everything after '=' (or after the implicit name), CR removed, case kept
        t = bytes(c for c in ln.text if c != 13)
        args = t[len(t) - len(args_raw):] if len(args_raw) else b''
        c = scn.cmds()[ci]
        if args == b'?' and (c.t or c.vars) and not c.implicit:
            continue
        hw = [x for x in ln.calls if x[0] == 'H' and x[1] == 'w']
        if len(args) >= asz:
            if ln.calls:
                fails.append('line %r: %d argument bytes do not fit the %d-byte buffer but a callback ran (%s)' % (ln.text, len(args), asz, ln.calls[0][:3]))
            if ln.mems:
                fails.append('line %r: over-long arguments but a variable changed' % ln.text)
            if ln.result != 'ERROR':
                fails.append('line %r: over-long arguments answered %s' % (ln.text, ln.result))
            continue
        typed_part = t[2:len(t) - len(args)].upper() if len(args) else t[2:].upper()
        implicit_near = any(cc.implicit and typed_part.startswith(cc.name.upper().encode('latin-1')) for cc in scn.cmds())
        if not hw and c.w and not c.only_test and not any(v.access in (RW, WO) for v in c.vars) \
                and (fc, fg) == ln.flags_end and not implicit_near \
                and not (args[:1] == b'?' and (c.t or c.vars) and not c.implicit):
            fails.append('line %r: %d argument bytes fit the %d-byte buffer and command %s has a write handler, but it was not invoked (answer %s)' % (ln.text, len(args), asz, c.name, ln.result))
        for x in hw:
            data, ln_, an = unhex(x[3]), int(x[4]), int(x[5])
            if ln_ != len(args) or data[:ln_] != args:
                fails.append('line %r: write handler received %r (length %d), sent were %r (length %d)' % (ln.text, data[:ln_], ln_, args, len(args)))
            elif len(data) != ln_ + 1 or data[ln_] != 0:
                fails.append('line %r: write handler data is not NUL-terminated at its length' % ln.text)
            else:
                nvw = len([1 for y in ln.mems]) if False else None
            # args_num = number of variables that were parsed
            writable = any(v.access in (RW, WO) for v in c.vars)
            want_an = None
            if not writable:
                want_an = 0
            if want_an is not None and an != want_an:
                fails.append('line %r: args_num %d, expected %d' % (ln.text, an, want_an))
    return fails


# ---------------------------------------------------------------- C08
def oracle_C08_ro(scn, tr):
    fails = []
    ro = {v.slot for v in scn.vars if v.access == RO}
    poked = set()
    for rs in scn.scripts.values():
        for r in rs:
            for slot, _ in r.pokes:
                poked.add(slot)
    for o in scn.ops:
        if o.startswith('p '):
            poked.add(int(o.split()[1]))
    for l in tr:
        if l.startswith('M '):
            slot = int(l.split()[1])
            if slot in ro and slot not in poked:
                fails.append('storage of read-only variable slot %d was modified: %s' % (slot, l))
    return fails


def oracle_C08_twin(scn_a, tr_a, scn_b, tr_b):
    """twin runs differing only in write-only contents: every output byte, callback and status equal"""
    wo = {v.slot for v in scn_a.vars if v.access == WO}

    def proj(tr):
        out = []
        for l in tr:
            t = l.split()
            if t[0] == 'M' and int(t[1]) in wo:
                continue
            if t[0] == 'V' and t[1] == 'w':
                ci, vi = int(t[2]), int(t[3])
                v = scn_a.pool()[ci].vars[vi]
                if v.slot in wo:
                    t = t[:5] + ['*'] + t[6:]
            out.append(' '.join(t))
        return out
    pa, pb = proj(tr_a), proj(tr_b)
    if pa != pb:
        for i, (x, y) in enumerate(zip(pa, pb)):
            if x != y:
                return ['runs differing only in write-only contents diverge at trace line %d: %r vs %r' % (i, x, y)]
        return ['runs differing only in write-only contents have different lengths']
    return []


def oracle_C08(scn, tr):
    lines, problems, pending = segment(scn, tr)
    fails = oracle_C08_ro(scn, tr)
    if any(l.startswith('> t ') or l.startswith('I t ') for l in tr):
        return fails
    for ln in lines:
        ref = ref_parse_line(scn, ln.text, ln.flags_cmd, ln.flags_grp)
        if ref is None or ref[0] is None:
            continue
        c = scn.cmds()[ref[0]]
        if c.only_test:
            continue
        if ref[1] == 'R' and not c.r and not any(v.access in (RW, RO) for v in c.vars):
            if ln.result != 'ERROR' or ln.calls:
                fails.append('line %r: nothing readable and no read handler, but answer %s / callbacks %d' % (ln.text, ln.result, len(ln.calls)))
        if ref[1] == 'W' and ref[2] != b'?' and not c.w and not any(v.access in (RW, WO) for v in c.vars):
            if ln.result != 'ERROR' or ln.calls:
                fails.append('line %r: nothing writable and no write handler, but answer %s / callbacks %d' % (ln.text, ln.result, len(ln.calls)))
    return fails


# ---------------------------------------------------------------- C10
def ref_response(kind, uns, codes):
    """documented table: returns (actions, n_calls); actions in
    'emit' (data unit), 'list', 'OK', 'ERROR', 'hold', 'silent'"""
    acts = []
    n = 0
    for cd in codes:
        n += 1
        if kind in (0, 2):                      # write / run
            if cd in (RC['OK'], RC['DATA_OK']):
                return acts + ['OK'], n
            if cd in (RC['NEXT'], RC['DATA_NEXT']):
                continue
            if cd == RC['HOLD']:
                return acts + ['hold'], n
            if cd == RC['LIST'] and kind == 2:
                return acts + ['list', 'OK'], n
            return acts + ['ERROR'], n
        else:                                   # read / test
            if cd == RC['OK']:
                return acts + (['silent'] if uns else ['OK']), n
            if cd == RC['DATA_OK']:
                return acts + ['emit'] + (['silent'] if uns else ['OK']), n
            if cd == RC['DATA_NEXT']:
                acts.append('emit')
                continue
            if cd == RC['NEXT']:
                continue
            if cd == RC['HOLD']:
                return acts + ['hold'], n
            if cd == RC['HOLD_EXIT_OK']:
                return acts + (['silent'] if uns else ['OK']), n
            if cd == RC['HOLD_EXIT_ERROR']:
                return acts + (['silent'] if uns else ['ERROR']), n
            if cd == RC['LIST'] and kind == 3:
                return acts + (['silent'] if uns else ['list', 'OK']), n
            return acts + (['silent'] if uns else ['ERROR']), n
    return acts + ['exhausted'], n


def units_of(out):
    """split an output byte string into units: list of payload bytes; tolerant to LF/CRLF"""
    s = bytes(x for x in out if x != 13)
    parts = s.split(b'\n')
    return [p for p in parts if p != b'']


def oracle_C10(scn, tr):
    """family rc: one scripted handler on command 0 ('+C'), one line or one event"""
    if scn.meta.get('family') != 'rc':
        return []
    fails = []
    key = next((k for k in scn.scripts if k[1] == 0 and k[0] in (0, 1, 2, 3)), None)
    if key is None:
        return []
    kind = key[0]
    uns = any(o.startswith('t 0 ') for o in scn.ops)
    codes = [r.code for r in scn.scripts[key]] + [RC['OK']] * 50     # an exhausted script answers OK
    tag = {0: 'w', 1: 'r', 2: 'n', 3: 't'}[kind]
    calls = [l.split() for l in tr if l.startswith('H %s ' % tag) and call_ci(l.split()) == 0]
    # variable callbacks failing: the command handler must not run in that round
    vfail = [l for l in tr if l.startswith('V ') and int(l.split()[2]) == 0 and not l.endswith('-> 0')]
    # did the dispatcher reach the handler at all?  (a failing variable callback or a
    # decode error ends the command before it)
    if not calls:
        return []
    # the handler is re-invoked after a non-terminal code only while no variable callback fails
    exp_acts, exp_calls = ref_response(kind, uns, codes)
    if vfail:
        return oracle_C10_var(scn, tr, uns)
    if len(calls) != exp_calls and exp_acts[-1] != 'hold':
        fails.append('handler kind %s: script %s asks for %d invocations, observed %d' % (tag, codes[:exp_calls], exp_calls, len(calls)))
        return fails
    if exp_acts[-1] == 'hold':
        return fails
    # expected payloads: the buffer as the handler left it (its edit, else the text it was shown)
    rs = scn.scripts[key]
    cap = scn.usz() if uns else scn.asz()
    exp_payloads = []
    if kind in (1, 3):
        for i, cd in enumerate(codes[:exp_calls]):
            if cd in (RC['DATA_OK'], RC['DATA_NEXT']):
                e = rs[i].edit if i < len(rs) else None
                if e is not None and len(e) < cap:
                    exp_payloads.append(bytes(e))
                else:
                    t = calls[i]
                    text, pos = unhex(t[4]), int(t[5])
                    exp_payloads.append(text[:pos])
    norm = lambda b: bytes(x for x in b if x != 13)
    exp_stream = b''.join(b'\n' + norm(p) + b'\n' for p in exp_payloads)
    if uns:
        out = norm(out_bytes_until(tr, stop_at='> f '))
        if out != exp_stream:
            fails.append('event handler kind %s script %s: emitted %r, the codes ask for %r' % (tag, codes[:exp_calls], out, exp_stream))
    else:
        lines, problems, pending = segment(scn, tr)
        if not lines:
            return fails
        ln = lines[0]
        want_res = exp_acts[-1]
        if ln.result != want_res:
            fails.append('handler kind %s script %s: expected final %s, observed %s' % (tag, codes[:exp_calls], want_res, ln.result))
        elif 'list' not in exp_acts:
            exp_all = exp_stream + b'\n' + want_res.encode() + b'\n'
            if norm(bytes(ln.out)) != exp_all:
                fails.append('handler kind %s script %s: emitted %r, the codes ask for %r' % (tag, codes[:exp_calls], norm(bytes(ln.out)), exp_all))
    # after NEXT / DATA_NEXT the handler sees a freshly formatted buffer (same text as the first time
    # when no variable callback or poke changes the variables in between)
    if kind in (1, 3) and not any(sc_has_pokes(scn)) and not any(l.startswith('V r') for l in tr):
        for i in range(1, len(calls)):
            if codes[i - 1] in (RC['NEXT'], RC['DATA_NEXT']):
                if calls[i][4:6] != calls[0][4:6]:
                    fails.append('after code %d the handler was re-invoked on %r, the freshly formatted buffer is %r' % (codes[i - 1], unhex(calls[i][4]), unhex(calls[0][4])))
    return fails


def oracle_C10_var(scn, tr, uns):
    """family rc, a variable callback of command 0 returned non-zero: the command is aborted with ERROR (event:
    silently) before any command handler runs, no further callback, no data unit"""
    fails = []
    idx = next(i for i, l in enumerate(tr) if l.startswith('V ') and int(l.split()[2]) == 0 and not l.endswith('-> 0'))
    bad = tr[idx]
    later = [l for l in tr[idx + 1:] if (l.startswith('H ') and call_ci(l.split()) == 0) or (l.startswith('V ') and int(l.split()[2]) == 0)]
    # only the rest of THIS line/event counts: stop at the next fed input or trigger
    rest = []
    for l in tr[idx + 1:]:
        if l.startswith('> f ') or l.startswith('> t '):
            break
        rest.append(l)
    later = [l for l in rest if (l.startswith('H ') and call_ci(l.split()) == 0) or (l.startswith('V ') and int(l.split()[2]) == 0)]
    if later:
        fails.append('variable callback failed (%s) but the command went on: %s' % (bad, later[0]))
    norm = lambda b: bytes(x for x in b if x != 13)
    if uns:
        out = norm(out_bytes(rest))
        if out and not any(l.startswith('> f ') for l in tr):
            fails.append('variable callback of an event failed (%s) but output %r was produced' % (bad, out))
    else:
        lines, problems, pending = segment(scn, tr)
        if lines and lines[0].result is not None:
            if lines[0].result != 'ERROR':
                fails.append('variable callback failed (%s) but the line was answered %s' % (bad, lines[0].result))
            elif norm(out_bytes(rest)) != b'\nERROR\n' and fully_drained(scn, tr):
                fails.append('variable callback failed (%s) but data was emitted after it: %r' % (bad, norm(out_bytes(rest))))
    return fails


def uns_crosstalk(tr):
    return False


def out_bytes_until(tr, stop_at):
    out = bytearray()
    for l in tr:
        if l.startswith(stop_at):
            break
        if l.startswith('W ') and l.endswith(' 1'):
            out.append(int(l.split()[1], 16))
    return bytes(out)


import re as _re
_CMD_UNIT = _re.compile(rb'^(<[0-9A-M]*>|OK|ERROR|AT[+#A-Z0-9]*(\?|=|=\?)?)$')
_EV_UNIT = _re.compile(rb'^\{[0-9n-z]*\}$')


def oracle_C11_units(scn, tr):
    """family 'units': parse the accepted output into units and compare, per producer, with the units the
    handler scripts asked for (in order, none lost, duplicated, cut or mixed)."""
    fails = []
    s = bytes(x for x in out_bytes(tr) if x != 13)
    pos, units = 0, []
    while pos < len(s):
        framed = s[pos:pos + 1] == b'\n'
        start = pos + 1 if framed else pos
        nxt = s.find(b'\n', start)
        if nxt < 0:
            if fully_drained(scn, tr):
                fails.append('output ends inside a unit: %r' % s[pos:pos + 40])
            break
        units.append((s[start:nxt], framed))
        pos = nxt + 1
    cmd_units, ev_units = [], []
    for p, framed in units:
        if _EV_UNIT.match(p):
            if not framed:
                fails.append('event unit %r is not preceded by its own newline (it starts inside another unit)' % p)
            ev_units.append(p)
        elif _CMD_UNIT.match(p):
            cmd_units.append(p)
        else:
            fails.append('output segment %r is not a whole unit of either producer (units cut or interleaved)' % p[:60])
            return fails
    # expected payload units from the scripts, in call order
    cnt = {}
    exp_cmd, exp_ev = [], []
    for l in tr:
        t = l.split()
        if t[0] == 'H' and t[1] in ('r', 't'):
            key = (1 if t[1] == 'r' else 3, int(t[3]), 0)
            k = cnt.get(key, 0)
            cnt[key] = k + 1
            sc = scn.scripts.get(key, [])
            if k < len(sc) and sc[k].code in (RC['DATA_OK'], RC['DATA_NEXT']) and sc[k].edit is not None:
                (exp_cmd if t[2] == '0' else exp_ev).append(bytes(sc[k].edit))
    if fully_drained(scn, tr):
        got_cmd = [u for u in cmd_units if u.startswith(b'<')]
        if got_cmd != exp_cmd:
            fails.append('command-response data units %r differ from the units the read handler asked for %r' % (got_cmd[:6], exp_cmd[:6]))
        if ev_units != exp_ev:
            fails.append('event units %r differ from the units the event handlers asked for %r' % (ev_units[:6], exp_ev[:6]))
    return fails


# ---------------------------------------------------------------- C11
def oracle_C11(scn, tr):
    """The accepted output stream must be an interleaving-free concatenation of the units the
    two producers started.  Expected units come from the harness's own knowledge: the command
    machine's units are recomputed from handler-visible texts; here we check the structural
    part that needs no expectation: every maximal run between unit boundaries is well-formed
    and no unit of one producer is cut by bytes of the other.  Producer attribution uses the
    write trace: the C driver cannot tag bytes, so we rely on unit grammar with disjoint
    first characters: event payloads start with '+E'/'+X' names only in family 'events'."""
    if event_side_hold(tr):
        return []
    out = out_bytes(tr)
    fails = []
    if scn.meta.get('family') == 'units' or scn.name.startswith('un'):
        fails += oracle_C11_units(scn, tr)
    # grammar: ( NL payload NL | listline NL )*, NL = \n | \r\n, payload without \n
    s = bytes(x for x in out if x != 13)
    if not s:
        return []
    if any(l.startswith('H n') and l.endswith('-> 7') or l.startswith('H t 0') and l.endswith('-> 7') for l in tr):
        listing = True
    else:
        listing = False
    # multi-line payloads (descriptions after TEST, edits containing LF) are legal, so the
    # structural check is: the stream starts with NL and ends with NL once quiescent
    if fully_drained(scn, tr) and not any(l == '= h 2' for l in tr[-40:]):
        if s[:1] != b'\n' or s[-1:] != b'\n':
            fails.append('output stream does not start and end at unit boundaries: %r ... %r' % (s[:20], s[-20:]))
    return fails


# ---------------------------------------------------------------- C13
def oracle_C13(scn, tr):
    """abstract bounded FIFO against return values and the order of event handler calls"""
    fails = []
    cap = scn.cap
    q = []            # accepted, not yet started: (ci, type)
    started = []      # order in which events began processing, as observed
    accepted = []
    pool = scn.pool()
    cur = None
    # which events fail at once or complete without any callback cannot be seen in the trace;
    # we therefore check (1) accept/refuse decisions and IsFull, (2) FIFO order of the
    # observable event-side handler calls, (3) observers only at points where the harness
    # knows the truth (queue known empty and machine idle after a full drain).
    pending_full = None
    depth_lo = 0      # lower/upper bound of number of waiting events (pops are invisible)
    depth_hi = 0
    for l in tr:
        t = l.split()
        if t[0] == '>':
            cur_op = t[1:]
            if cur_op[0] in ('s', 'S', 'D'):
                pass
        elif t[0] == '=' and t[1] == 's':
            # a service call may pop at most one event
            depth_lo = max(0, depth_lo - 1)
            if t[2] == '0':
                if depth_hi > 0 and depth_lo > 0:
                    fails.append('cat_service returned OK while at least %d accepted event(s) were still waiting' % depth_lo)
                depth_lo = depth_hi = 0
        elif (t[0] == '=' and t[1] == 't') or (t[0] == 'I' and t[1] == 't'):
            st = int(t[2]) if t[0] == '=' else int(t[5])
            if st == 0:
                depth_lo += 1
                depth_hi += 1
                if depth_lo > cap:
                    fails.append('trigger accepted although %d events (capacity %d) were already waiting' % (depth_lo - 1, cap))
                    depth_lo = cap
                depth_hi = min(depth_hi, cap)
            elif st == -5:
                if depth_hi < cap:
                    fails.append('trigger refused with BUFFER_FULL although at most %d of %d slots can be occupied' % (depth_hi, cap))
            elif st not in (-2, -3):
                # the only outcomes of a trigger are OK, ERROR_BUFFER_FULL and the two mutex errors: whether the
                # command has anything to show is found out when the event is processed, not at the trigger
                fails.append('trigger returned %d (a trigger is accepted iff the queue has room: expected OK or ERROR_BUFFER_FULL)' % st)
            elif st == -2:
                # ERROR_MUTEX_UNLOCK: the body ran before the unlock failed, so the event may have been queued
                # (Lemmas_C13: C13_cex_unlock); the upper bound grows, the lower bound does not
                depth_hi = min(cap, depth_hi + 1)
        elif t[0] == '=' and t[1] == 'u':
            st = int(t[2])
            if st == 0 and depth_lo >= cap:
                fails.append('cat_is_unsolicited_buffer_full says not full although %d events wait (capacity %d)' % (depth_lo, cap))
            if st == -5 and depth_hi < cap:
                fails.append('cat_is_unsolicited_buffer_full says full although at most %d of %d slots can be occupied' % (depth_hi, cap))
    if (scn.meta.get('family') in ('units', 'mxev') or scn.name.startswith('un') or scn.name.startswith('mx')) and not event_side_hold(tr):
        fails += fifo_exactly_once(scn, tr)
    # observers at points where the truth is known: right after cat_service returned OK the event machine is
    # idle and the queue is empty, until the next trigger
    quiet, cur = False, None
    for l in tr:
        t = l.split()
        if t[0] == '>':
            cur = t[1:]
            if cur[0] in ('t', 's', 'S', 'D', 'N', 'NI'):
                quiet = False
        elif t[0] == 'I' and t[1] == 't':
            quiet = False
        elif t[0] == '=' and t[1] == 's':
            quiet = (t[2] == '0')
        elif quiet and t[0] == '=' and t[1] == 'g' and cur and cur[0] == 'g' and cur[1] == '1' and t[2] != '-1':
            fails.append('cat_get_processed_command(UNSOLICITED) reports command %s although no event is queued or in progress (cat_service had just returned OK)' % t[2])
        elif quiet and t[0] == '=' and t[1] == 'q' and t[2] != '0':
            fails.append('cat_is_unsolicited_event_buffered(%s) reports BUSY although no event is queued or in progress (cat_service had just returned OK)' % ' '.join(cur[1:]))
    return fails


def fifo_exactly_once(scn, tr):
    """families 'units' / 'mxev': every event command has read and test handlers, so each event taken from the
    queue is visible as a (group of) event-side handler call(s).  Started events must equal the accepted triggers:
    same order, each exactly once, nothing that was refused.  A trigger that returned ERROR_MUTEX_UNLOCK ran its
    body before the unlock failed: it may or may not have been queued (it was iff the queue was not full at that
    moment, which the trace does not show exactly), so such events are optional in the expected sequence."""
    started = []
    prev_terminal = True
    for l in tr:
        t = l.split()
        if t[0] == 'H' and t[1] in ('r', 't') and t[2] == '1':
            code = int(t[-1])
            if prev_terminal:
                started.append((int(t[3]), 1 if t[1] == 'r' else 3))
            prev_terminal = code not in (1, 2)
    # triggers in order: (event, 'must' | 'may')
    trig, last = [], None
    for l in tr:
        t = l.split()
        if t[0] == '>' and t[1] == 't':
            last = (int(t[2]), int(t[3]))
        elif t[0] == '=' and t[1] == 't':
            stt = int(t[2])
            if last is not None and stt == 0:
                trig.append((last, 'must'))
            elif last is not None and stt == -2:
                trig.append((last, 'may'))
            last = None
        elif t[0] == 'I' and t[1] == 't' and int(t[5]) == 0:
            trig.append(((int(t[2]), int(t[3])), 'must'))
    accepted = [e for e, m in trig if m == 'must']
    # does `started` match the trigger sequence with the optional ones freely included or skipped?
    import functools, sys
    sys.setrecursionlimit(10000)
    drained = fully_drained(scn, tr)

    @functools.lru_cache(maxsize=None)
    def ok(i, j):
        """triggers from i on can explain started[j:] (all of it if drained, a prefix situation otherwise)"""
        if j == len(started):
            return (not drained) or all(m == 'may' for _, m in trig[i:])
        if i == len(trig):
            return False
        e, m = trig[i]
        if e == started[j] and ok(i + 1, j + 1):
            return True
        return m == 'may' and ok(i + 1, j)
    if not any(m == 'may' for _, m in trig):
        pass           # plain case handled below with a precise message
    elif not ok(0, 0):
        return ['the events taken for processing %r cannot be explained by the triggers %r (must = returned OK, may = returned ERROR_MUTEX_UNLOCK after its body ran): lost, duplicated or reordered' % (started[:8], trig[:10])]
    else:
        return []
    fails = []
    # the observer cat_is_unsolicited_event_buffered, judged where the truth is known: walk the trace again,
    # keeping the accepted list and the number of events already taken for processing
    acc2, nstart, last, prev_term, curq = [], 0, None, True, None
    for l in tr:
        t = l.split()
        if t[0] == '>' and t[1] == 't':
            last = (int(t[2]), int(t[3]))
        elif t[0] == '>' and t[1] == 'q':
            curq = (int(t[2]), int(t[3]))
        elif t[0] == '=' and t[1] == 't':
            if int(t[2]) == 0 and last is not None:
                acc2.append(last)
            last = None
        elif t[0] == 'I' and t[1] == 't' and int(t[5]) == 0:
            acc2.append((int(t[2]), int(t[3])))
        elif t[0] == 'H' and t[1] in ('r', 't') and t[2] == '1':
            if prev_term:
                nstart += 1
            prev_term = int(t[-1]) not in (1, 2)
        elif t[0] == '=' and t[1] == 'q' and curq is not None:
            def match(e):
                return e[0] == curq[0] and (curq[1] == -1 or e[1] == curq[1])
            waiting = acc2[nstart:]                      # certainly still queued
            maybe = acc2[max(0, nstart - 1):]            # plus the one possibly still being processed
            if any(match(e) for e in waiting) and t[2] != '1' and not fails:
                fails.append('cat_is_unsolicited_event_buffered(%d,%d) returned %s although a matching accepted event is still waiting in the queue %r' % (curq[0], curq[1], t[2], waiting[:4]))
            if not any(match(e) for e in maybe) and t[2] != '0' and not fails:
                fails.append('cat_is_unsolicited_event_buffered(%d,%d) returned %s although no matching event is queued or in progress' % (curq[0], curq[1], t[2]))
            curq = None
    n = len(started)
    if started != accepted[:n]:
        k = next(i for i in range(n) if i >= len(accepted) or started[i] != accepted[i])
        fails.append('event #%d taken for processing is %r but the accepted triggers are %r (lost, duplicated or reordered)' % (k, started[k], accepted[max(0, k - 2):k + 3]))
    elif fully_drained(scn, tr) and n != len(accepted):
        fails.append('%d events accepted but only %d were ever processed' % (len(accepted), n))
    return fails


# ---------------------------------------------------------------- C14
def oracle_C14(scn, tr):
    """states: NONE (no hold), HELD (suspended, no release requested), RELEASING (a release was
    accepted; until the result code is out the library may or may not still count as held, so
    return values of cat_hold_exit / cat_is_hold are not judged in that window — but an accepted
    request must be honoured: the last accepted status decides the result code)."""
    if event_side_hold(tr):
        return []
    fails = []
    state = 'NONE'
    want = set()
    outseg = bytearray()
    pend_status = None
    ev_wait = None          # service calls without any write attempt since an event handler handed data over
    for l in tr:
        t = l.split()
        # "meanwhile unsolicited events keep being delivered": while the command is suspended its machine
        # writes nothing, so an event whose handler just returned data (DATA_OK / DATA_NEXT) must start to
        # be written within the next few service calls (write attempts count, accepted or refused)
        if t[0] == 'H' and t[1] in ('r', 't') and t[2] == '1' and t[-1] in ('0', '1'):
            ev_wait = 0
        elif t[0] == 'W':
            ev_wait = None
        elif t[0] == '=' and t[1] == 's' and ev_wait is not None and t[2] in ('0', '1'):      # a call whose lock failed does nothing
            if state == 'HELD':
                ev_wait += 1
                if ev_wait == 6:
                    fails.append('a command is held and an event handler returned data, but six cat_service calls later no byte of the event was offered to the output (events are not delivered during the hold)')
            else:
                ev_wait = None
        if t[0] == '>' and t[1] in ('N', 'NI'):
            state, want, outseg, ev_wait = 'NONE', set(), bytearray(), None        # cat_init: a fresh parser
        elif t[0] == '>' and t[1] == 'x':
            pend_status = 'OK' if t[2] == '0' else 'ERROR'
        elif t[0] == 'H' and l.endswith('-> 4') and is_cmd_side(t):
            state = 'HELD'
            want = set()
        elif t[0] == 'R' and t[1] != '-':
            if state != 'NONE':
                fails.append('input byte %s consumed while a command is held / before its result code is out' % t[1])
        elif (t[0] == '=' and t[1] == 'x') or (t[0] == 'I' and t[1] == 'x'):
            if t[0] == '=':
                st, status = int(t[2]), pend_status
            else:
                st, status = int(t[4]), ('OK' if t[2] == '0' else 'ERROR')
            if st == 0:
                if state == 'NONE':
                    fails.append('cat_hold_exit outside a hold returned OK (expected ERROR_NOT_HOLD)')
                else:
                    want = {status}
                    state = 'RELEASING'
            elif st == -6:
                if state == 'HELD':
                    fails.append('cat_hold_exit during a hold returned ERROR_NOT_HOLD')
            elif st not in (-3, -2):
                fails.append('cat_hold_exit returned %d' % st)
        elif t[0] == 'H' and t[1] in ('r', 't') and t[2] == '1' and t[-1] in ('5', '6'):
            status = 'OK' if t[-1] == '5' else 'ERROR'
            if state == 'HELD':
                want = {status}
                state = 'RELEASING'
            elif state == 'RELEASING':
                want.add(status)
        elif t[0] == '=' and t[1] == 'h':
            st = int(t[2])
            if state == 'HELD' and st != 2 and st not in (-3, -2):
                fails.append('cat_is_hold returned %d while a command is suspended' % st)
            if state == 'NONE' and st != 0 and st not in (-3, -2):
                fails.append('cat_is_hold returned %d although no command is suspended' % st)
        elif t[0] == 'W' and t[2] == '1':
            b = int(t[1], 16)
            if b == 10:
                seg = bytes(x for x in outseg if x != 13)
                outseg = bytearray()
                if seg in (b'OK', b'ERROR'):
                    if state == 'HELD':
                        fails.append('result code %s emitted while the command is held and no release was requested' % seg.decode())
                        state = 'NONE'
                    elif state == 'RELEASING':
                        if seg.decode() not in want:
                            fails.append('hold released with %s but the result code is %s' % ('/'.join(sorted(want)), seg.decode()))
                        state = 'NONE'
            else:
                outseg.append(b)
    return fails


# ---------------------------------------------------------------- C15
def oracle_C15(scn, tr):
    """OK means quiescent: an immediately repeated call (no new stimulus) emits nothing, calls
    nothing and returns OK again.  Checked wherever two service calls follow each other."""
    fails = []
    prev_ok = False
    activity = False
    for l in tr:
        t = l.split()
        if t[0] == '>':
            if t[1] not in ('s', 'S', 'D'):
                prev_ok = False
            continue
        if t[0] == 'R' and t[1] != '-':
            prev_ok = False          # a new input byte became available: new stimulus
        elif t[0] in ('W', 'H', 'V', 'I', 'M'):
            activity = True
            if prev_ok:
                fails.append('cat_service returned OK, yet the immediately repeated call (no new input byte, trigger or release) was active: %s' % l)
                prev_ok = False
        elif t[0] == '=' and t[1] == 's':
            if prev_ok and t[2] != '0' and t[2] not in ('-3', '-2'):
                fails.append('cat_service returned OK, yet the immediately repeated call returned %s' % t[2])
            prev_ok = (t[2] == '0')
            activity = False
    # liveness: a drain with eager output must reach OK well within its budget
    return fails


def oracle_C15_live(scn, tr):
    fails = []
    ops = [o for o in scn.ops]
    n_s = 0
    in_drain = None
    for l in tr:
        t = l.split()
        if t[0] == '>':
            in_drain = int(t[2]) if t[1] == 'D' else None
            n_s = 0
        elif t[0] == '=' and t[1] == 's' and in_drain is not None:
            n_s += 1
            if n_s >= in_drain and t[2] != '0':
                held = any(x == '= h 2' for x in tr) or any(x[0] == 'H' and x.endswith('-> 4') for x in tr)   # an unreleased hold is not livelock (D5)
                if not held and not scn.rd and not scn.wr:
                    fails.append('no quiescence after %d cat_service calls with exhausted input and accepting output' % n_s)
    return fails


# ---------------------------------------------------------------- C16
def oracle_C16(scn, tr):
    if not scn.mutex:
        return []
    fails = []
    # per API call: L 0 ; = x -3      or   L 1 ; ... ; U r ; = x (r ? s : -2)
    # calls made from inside handlers nest by construction of the application, so scenarios
    # for this oracle script no inner calls.
    cur = []
    for l in tr:
        t = l.split()
        if t[0] == '>':
            cur = []
            opname = t[1]
            continue
        if t[0] in ('M', 'B', 'FAULT'):
            continue
        if t[0] == 'OBJCHANGED':
            fails.append('state changed across a call whose lock failed')
            continue
        cur.append(t)
        if t[0] == '=':
            if t[1] in ('q', 'g', 'dc', 'dg'):
                cur = []
                continue
            body = cur[:-1]
            st = int(t[2])
            if not body or body[0][0] != 'L':
                fails.append('API call %s touched the parser without taking the lock first: %s' % (t[1], body[:1]))
            elif body[0][1] == '0':
                if len(body) != 1 or st != -3:
                    fails.append('lock failed but the call %s did something / returned %d' % (t[1], st))
            else:
                if body[-1][0] != 'U':
                    fails.append('API call %s returned without releasing the lock' % t[1])
                else:
                    inner = body[1:-1]
                    if any(x[0] in ('L', 'U') for x in inner):
                        fails.append('API call %s locked or unlocked twice' % t[1])
                    if body[-1][1] == '0' and st != -2:
                        fails.append('unlock failed but the call %s returned %d' % (t[1], st))
            cur = []
    return fails


# ---------------------------------------------------------------- C18
def oracle_C18(scn, tr):
    if event_side_hold(tr):
        return []
    fails = []
    cur = bytearray()       # consumed bytes of the current input line
    out = bytearray()
    in_unit = False         # a unit is partially emitted
    nl_run = 0
    processing = False
    for l in tr:
        t = l.split()
        if t[0] == 'R' and t[1] != '-':
            b = int(t[1], 16)
            if b == 10:
                if any(c != 13 for c in cur):
                    processing = True
                cur = bytearray()
            else:
                cur.append(b)
        elif t[0] == 'W' and t[2] == '1':
            out.append(int(t[1], 16))
            # a result code completes the command
            s = bytes(x for x in out if x != 13)
            if s.endswith(b'\nOK\n') or s.endswith(b'\nERROR\n'):
                processing = False
        elif t[0] == '=' and t[1] == 'b':
            st = int(t[2])
            if st == 0:
                if any(c != 13 for c in cur):
                    fails.append('cat_is_busy returned OK while the line %r is partially received' % bytes(cur))
                if processing:
                    fails.append('cat_is_busy returned OK while a command line is still being processed')
                s = bytes(x for x in out if x != 13)
                if s and not s.endswith(b'\n'):
                    fails.append('cat_is_busy returned OK while an output unit is partially emitted: ...%r' % s[-12:])
    return fails


# ---------------------------------------------------------------- C19
def type_name(v):
    if v.vtype in (INT, UINT, HEX):
        if v.size not in (1, 2, 4):
            return None
        return {INT: 'INT', UINT: 'UINT', HEX: 'HEX'}[v.vtype] + str(8 * v.size)
    return 'HEXBUF' if v.vtype == BUFHEX else 'STRING'


def ref_test_text(c, nl):
    parts = []
    for v in c.vars:
        tn = type_name(v)
        if tn is None:
            return None
        parts.append('<' + ((v.name + ':') if v.name is not None else '') + tn + '[' + ['RW', 'RO', 'WO'][v.access] + ']>')
    s = c.name + '=' + ','.join(parts)
    if c.descr is not None:
        s += nl + c.descr
    return s


def advertised(c):
    forms = []
    if c.only_test:
        if c.t or c.vars:
            forms.append('=?')
        return forms
    if c.run:
        forms.append('')
    if c.r or any(v.access in (RW, RO) for v in c.vars):
        forms.append('?')
    if c.w or any(v.access in (RW, WO) for v in c.vars):
        forms.append('=')
    if c.t or c.vars:
        forms.append('=?')
    return forms


def oracle_C19_events(scn, tr):
    """family testev (no command input): every accepted TEST trigger of a command without test handler produces
    the unit LF <TEST text of the descriptor> LF if the text fits the event buffer, and nothing otherwise; in
    acceptance order"""
    if any(l.startswith('> f ') for l in tr) or not fully_drained(scn, tr) or event_side_hold(tr):
        return []
    usz = scn.usz()
    exp = b''
    pool = scn.pool()
    cur = None
    for l in tr:
        t = l.split()
        if t[0] == '>' and t[1] == 't':
            cur = (int(t[2]), int(t[3]))
        elif t[0] == '=' and t[1] == 't' and cur is not None:
            if t[2] == '0' and cur[1] == T_TEST:
                c = pool[cur[0]]
                if c.t:
                    return []            # handler-driven units are judged by C10/C11
                text = ref_test_text(c, '\n')
                if text is not None and len(text) < usz:
                    exp += b'\n' + text.encode('latin-1') + b'\n'
            elif t[2] == '0':
                return []
            cur = None
    out = out_bytes(tr)
    if out != exp:
        return ['TEST events: output %r, the descriptor says %r' % (out[:200], exp[:200])]
    return []


def oracle_C19(scn, tr):
    if any(l.startswith('> t ') or l.startswith('I t ') for l in tr):
        return oracle_C19_events(scn, tr) if scn.meta.get('family') == 'testev' else []
    lines, problems, pending = segment(scn, tr)
    fails = []
    asz = scn.asz()
    for ln in lines:
        fc, fg = ln.flags_cmd, ln.flags_grp
        if (fc, fg) != ln.flags_end:
            continue
        ref = ref_parse_line(scn, ln.text, fc, fg)
        if ref is None or ref[0] is None:
            continue
        ci, ty, args = ref
        c = scn.cmds()[ci]
        crlf = 13 in ln.text
        nl = '\r\n' if crlf else '\n'
        out = bytes(ln.out)
        listing = any(x[0] == 'H' and x[1] in ('n', 't') and x[-1] == '7' for x in ln.calls)
        if ty == 'W' and args == b'?' and (c.t or c.vars) and not c.implicit and not listing:
            text = ref_test_text(c, nl)
            ht = [x for x in ln.calls if x[0] == 'H' and x[1] == 't']
            if text is None or len(text) >= asz or any(len(p) >= asz for p in [text]):
                if text is None or len(text) >= asz:
                    if ln.result != 'ERROR' and text is not None and not ht:
                        fails.append('line %r: TEST text needs %d bytes, buffer has %d, but the answer is %s' % (ln.text, len(text) + 1, asz, ln.result))
                    if text is None and (ln.result != 'ERROR' or ht):
                        fails.append('line %r: unsupported variable width but the answer is %s' % (ln.text, ln.result))
                continue
            if c.t:
                if ht and unhex(ht[0][4])[:int(ht[0][5])] != text.encode('latin-1'):
                    fails.append('line %r: test handler was shown %r, the descriptor says %r' % (ln.text, unhex(ht[0][4]), text))
            else:
                want = (nl + text + nl + nl + 'OK' + nl).encode('latin-1')
                if out != want:
                    fails.append('line %r: TEST response %r, the descriptor says %r' % (ln.text, out, want))
        if listing:
            exp = b''
            ok = True
            for i, cc in enumerate(scn.cmds()):
                if not enabled(scn, i, fc, fg):
                    continue
                if cc.implicit and cc.vars:
                    pass
                first = True
                for f in advertised(cc):
                    line = (nl if first else '') + 'AT' + cc.name + f + nl
                    if len(line) >= asz:
                        ok = False
                        break
                    exp += line.encode('latin-1')
                    first = False
                if not ok:
                    break
            exp += (nl + ('OK' if ok else 'ERROR') + nl).encode('latin-1')
            # the handler that asked for the list may have emitted nothing before it
            if not out.endswith(exp) or len(out) != len(exp):
                # implicit-write commands owning variables are excepted from the consistency claim,
                # not from the listing itself; compare the whole listing
                fails.append('command list %r, the descriptor says %r' % (out, exp))
            else:
                # consistency with the dispatcher: every advertised form is accepted
                for i, cc in enumerate(scn.cmds()):
                    if not enabled(scn, i, fc, fg) or (cc.implicit and cc.vars):
                        continue
                    for f, tyy in (('', 'N'), ('?', 'R'), ('=', 'W'), ('=?', 'T')):
                        if (f in advertised(cc)) != dispatch_accepts(cc, tyy):
                            fails.append('command %s: form %r advertised=%s but dispatcher accepts=%s' % (cc.name, f, f in advertised(cc), dispatch_accepts(cc, tyy)))
    return fails


# ---------------------------------------------------------------- C20
def line_outputs(scn, tr):
    lines, problems, pending = segment(scn, tr)
    return [(ln.text, bytes(ln.out), ln.result, [' '.join(c) for c in ln.calls]) for ln in lines]


def oracle_C20_pair(scn_seq, tr_seq, scn_fresh, tr_fresh):
    a, b = line_outputs(scn_seq, tr_seq), line_outputs(scn_fresh, tr_fresh)
    if out_bytes(tr_seq) != out_bytes(tr_fresh):
        for i, (x, y) in enumerate(zip(a, b)):
            if x != y:
                return ['line %d %r answers %r after its predecessors but %r on a fresh parser with the same variables' % (i, x[0], x[1], y[1])]
        return ['output of the line sequence %r differs from the concatenation of single-line outputs %r' % (out_bytes(tr_seq), out_bytes(tr_fresh))]
    return []


def oracle_C20_newline(scn, tr):
    """every newline of a line's response is CRLF iff a CR was consumed after the first non-blank character"""
    if any(l.startswith('> t ') or l.startswith('I t ') for l in tr):
        return []
    lines, problems, pending = segment(scn, tr)
    fails = []
    for ln in lines:
        t = ln.text
        i = 0
        while i < len(t) and t[i] == 13:
            i += 1
        crlf = 13 in t[i:]
        out = bytes(ln.out)
        # payloads may contain LF / CR of their own (string variables, edits): judge the first
        # and the last newline of the response, which always belong to the library
        if not out or ln.result is None:
            continue
        want = b'\r\n' if crlf else b'\n'
        first = out[:2] if out[:1] == b'\r' else out[:1]
        last = out[-2:] if out[-2:-1] == b'\r' else out[-1:]
        if first != want:
            fails.append('line %r: response begins with %r, expected %r' % (t, first, want))
        if last != want:
            fails.append('line %r: response ends with %r, expected %r' % (t, last, want))
        res = (want + ln.result.encode() + want)
        if not out.endswith(res):
            fails.append('line %r: result code unit is %r, expected %r' % (t, out[-len(res):], res))
    return fails


def oracle_C20_units_newline(scn, tr):
    """family 'units' (events active): the result-code unit of every command line must use the newline that
    line asked for — CRLF iff the line contained a CR after its first non-blank character — whatever the
    event machine was doing meanwhile.  Result codes (OK / ERROR) are recognisable in the stream because
    the two producers use disjoint payload alphabets."""
    fails = []
    cur = bytearray()
    want_queue = []          # expected newline of each non-blank line, in order
    out = bytearray()
    for l in tr:
        t = l.split()
        if t[0] == '>' and t[1] in ('N', 'NI'):
            cur = bytearray()
        elif t[0] == 'R' and t[1] != '-':
            b = int(t[1], 16)
            if b == 10:
                if any(c != 13 for c in cur):
                    i = 0
                    while i < len(cur) and cur[i] == 13:
                        i += 1
                    want_queue.append(b'\r\n' if 13 in cur[i:] else b'\n')
                cur = bytearray()
            else:
                cur.append(b)
        elif t[0] == 'W' and t[2] == '1':
            out.append(int(t[1], 16))
    s = bytes(out)
    # find the result-code units in order: (CR)LF OK|ERROR (CR)LF
    k = 0
    for m in _re.finditer(rb'(\r?\n)(OK|ERROR)(\r?\n)', s):
        if k >= len(want_queue):
            break
        want = want_queue[k]
        k += 1
        if m.group(1) != want or m.group(3) != want:
            fails.append('result code of non-blank line #%d is framed by %r ... %r, the line asked for %r' % (k, m.group(1), m.group(3), want))
            break
    return fails


def oracle_C20(scn, tr):
    if scn.meta.get('family') == 'units' or scn.name.startswith('un'):
        return oracle_C20_units_newline(scn, tr)
    return oracle_C20_newline(scn, tr)


# ---------------------------------------------------------------- C03 / C12 / C07 / C17 helpers
def oracle_C03(scn, tr):
    fails = []
    for l in tr:
        if l.startswith('CANARY') or l.startswith('TAILBYTE') or l.startswith('FAULT'):
            fails.append('out-of-bounds write detected: ' + l)
    # frame: each machine writes only its own region of the working buffer.  Without any event
    # activity the event region must still hold the fill byte; without any input the command region.
    events = any(l.startswith('> t ') or l.startswith('I t ') for l in tr)
    fed = any(l.startswith('> f ') for l in tr)
    reinit = any(l.startswith('> N') for l in tr)
    if not reinit:
        for l in tr:
            if l.startswith('B '):
                t = l.split()
                cb, ub = unhex(t[1]), unhex(t[2])
                if not events and any(b != scn.fill for b in ub):
                    fails.append('the event machine\'s buffer region was modified although no event was ever triggered (command machine wrote outside its region [0,%d)): %s' % (scn.asz(), ub.hex()))
                    break
                if not fed and any(b != scn.fill for b in cb):
                    fails.append('the command machine\'s buffer region was modified although no input was fed: %s' % cb.hex())
                    break
    return fails


def oracle_C12_group(members):
    """members: list of (scn, trace) of the same scenario under different schedules"""
    def proj(tr):
        return [l for l in tr if (l[0] in 'HVM') or (l.startswith('W ') and l.endswith(' 1')) or (l.startswith('R ') and l != 'R -')]
    base = proj(members[0][1])
    fails = []
    for scn, tr in members[1:]:
        p = proj(tr)
        if p != base:
            for i, (x, y) in enumerate(zip(base, p)):
                if x != y:
                    fails.append('schedule-dependent behaviour: eager run has %r where schedule %s has %r (event %d)' % (x, scn.name, y, i))
                    break
            else:
                fails.append('schedule-dependent behaviour: %d observable events under the eager schedule, %d under %s' % (len(base), len(p), scn.name))
    return fails


def oracle_C12(scn, tr):
    """a refused write must be retried with the same byte; a refused read changes nothing"""
    fails = []
    prev_refused = None
    for l in tr:
        t = l.split()
        if t[0] == 'W':
            key = t[1]
            if prev_refused is not None and prev_refused != key and not two_writers(tr):
                fails.append('byte %s was refused, the next write attempt offered %s instead' % (prev_refused, key))
            prev_refused = key if t[2] == '0' else None
    return fails


def two_writers(tr):
    return any(l.startswith('> t ') or l.startswith('I t ') for l in tr)


ORACLES = {
    'C01': oracle_C01, 'C02': oracle_C02, 'C03': oracle_C03, 'C04': oracle_C04, 'C05': oracle_C05,
    'C06': oracle_C06, 'C08': oracle_C08, 'C09': oracle_C09, 'C10': oracle_C10, 'C11': oracle_C11,
    'C12': oracle_C12, 'C13': oracle_C13, 'C14': oracle_C14, 'C15': oracle_C15, 'C16': oracle_C16,
    'C18': oracle_C18, 'C19': oracle_C19, 'C20': oracle_C20,
}
