#!/bin/sh
# setup.sh — full .vo build of the Coq development, extraction, build of the model executable.
# Everything goes to /verif/coq (compiled files) and /verif/build (executables); nothing to /tmp.
set -e
cd "$(dirname "$0")"
V=$(pwd)
mkdir -p build
cd coq
coq_makefile -f _CoqProject -o Makefile > /dev/null
timeout 3000 make -j16 2>&1 | tail -40
# extraction (ExtrOcamlBasic only); the extracted files land in the current directory
cd "$V/build"
timeout 600 coqc -Q "$V/coq" CatV "$V/coq/Extract.v" > /dev/null
rm -f "$V/coq/Extract.vo" "$V/coq/Extract.glob" "$V/coq/Extract.vok" "$V/coq/Extract.vos" "$V/coq/.Extract.aux"
cp "$V/extract/driver.ml" .
ocamlfind ocamlopt -w -a -O3 catmodel_ext.mli catmodel_ext.ml driver.ml -o catmodel 2>/dev/null || \
ocamlfind ocamlopt -w -a catmodel_ext.mli catmodel_ext.ml driver.ml -o catmodel
# Print Assumptions outputs of the statement files, cached by source hash (see check: proof_part)
"$V/check" --fill-pa-cache
echo "setup done: $(ls -la catmodel | awk '{print $5}') bytes catmodel"
