(* Lemmas_C11s.v — property C11, the whole-stream statement.
   1. the fresh-cursor invariant of the two wait states (every history from cat_init, arbitrary
      oracles, no hypothesis): in CS_FLUSH_WAIT / US_FLUSH_WAIT the flush cursor is fresh, and the
      FLUSH state of each machine is entered only from its wait state;
   2. the composition over a history: the accepted output of ANY history is the concatenation, in
      order of start, of the units started so far (minus what the unit in flight still has to send);
   3. the C18 corollary: when cat_is_busy says OK the output is a concatenation of complete units.
   All the work is here; the statements are restated in Properties_C11s.v / Properties_C18s.v. *)
From Coq Require Import List NArith ZArith Bool Arith Lia.
From CatV Require Import Bytes Defs Codec Fsm ResolveDefs TextDefs TraceDefs Skel SkelSim Lemmas_C11.
Import ListNotations.
Local Open Scope nat_scope.

(* ================================================================== *)
(* 1. the fresh-cursor invariant                                        *)
(* ================================================================== *)

(* the continuation states a flush is ever started with *)
Definition wafter_ok_c (a : cstate) : bool :=
  match a with
  | CS_IDLE | CS_AFTER_RESET | CS_AFTER_OK | CS_AFTER_FMT_READ | CS_AFTER_FMT_TEST | CS_PRINT_CMD => true
  | _ => false
  end.
Definition wafter_ok_u (a : ustate) : bool :=
  match a with US_IDLE | US_AFTER_OK | US_AFTER_FMT_READ | US_AFTER_FMT_TEST => true | _ => false end.

(* a fresh cursor: position 0 of the first phase (newline-framed unit: the opening newline selected by
   k_cr; raw line of the command list: the buffer itself, last phase) *)
Definition fresh_c (s : state) : Prop :=
  k_position (k s) = 0 /\
  ((k_wstate (k s) = WS_BEFORE /\ k_wbuf (k s) = WB_NL (k_cr (k s))) \/
   (k_wstate (k s) = WS_AFTER /\ k_wbuf (k s) = WB_MAIN)).
Definition fresh_u (s : state) : Prop :=
  u_position (u s) = 0 /\ u_wstate (u s) = WS_BEFORE /\ exists cr, u_wbuf (u s) = WB_NL cr.

(* machine f is not waiting for the channel / if it is, its cursor is fresh *)
Definition NW (f : fsm) (s : state) : Prop :=
  match f with
  | ATCMD => wafter_ok_c (k_wafter (k s)) = true /\ k_state (k s) <> CS_FLUSH_WAIT
  | UNSOL => wafter_ok_u (u_wafter (u s)) = true /\ u_state (u s) <> US_FLUSH_WAIT
  end.
Definition OK (f : fsm) (s : state) : Prop :=
  match f with
  | ATCMD => wafter_ok_c (k_wafter (k s)) = true /\ (k_state (k s) = CS_FLUSH_WAIT -> fresh_c s)
  | UNSOL => wafter_ok_u (u_wafter (u s)) = true /\ (u_state (u s) = US_FLUSH_WAIT -> fresh_u s)
  end.

Lemma OK_of_NW : forall f s, NW f s -> OK f s.
Proof. intros [|] s [A B]; split; try exact A; intro E; contradiction. Qed.

(* ---- setters ---- *)
Lemma nwc_setk_index : forall s v, NW ATCMD s -> NW ATCMD (setk_index v s).
Proof. intros s v H; exact H. Qed.
Lemma nwc_setk_partial : forall s v, NW ATCMD s -> NW ATCMD (setk_partial v s).
Proof. intros s v H; exact H. Qed.
Lemma nwc_setk_length : forall s v, NW ATCMD s -> NW ATCMD (setk_length v s).
Proof. intros s v H; exact H. Qed.
Lemma nwc_setk_position : forall s v, NW ATCMD s -> NW ATCMD (setk_position v s).
Proof. intros s v H; exact H. Qed.
Lemma nwc_setk_write_size : forall s v, NW ATCMD s -> NW ATCMD (setk_write_size v s).
Proof. intros s v H; exact H. Qed.
Lemma nwc_setk_cmd : forall s v, NW ATCMD s -> NW ATCMD (setk_cmd v s).
Proof. intros s v H; exact H. Qed.
Lemma nwc_setk_var : forall s v, NW ATCMD s -> NW ATCMD (setk_var v s).
Proof. intros s v H; exact H. Qed.
Lemma nwc_setk_type : forall s v, NW ATCMD s -> NW ATCMD (setk_type v s).
Proof. intros s v H; exact H. Qed.
Lemma nwc_setk_char : forall s v, NW ATCMD s -> NW ATCMD (setk_char v s).
Proof. intros s v H; exact H. Qed.
Lemma nwc_setk_cr : forall s v, NW ATCMD s -> NW ATCMD (setk_cr v s).
Proof. intros s v H; exact H. Qed.
Lemma nwc_setk_hold : forall s v, NW ATCMD s -> NW ATCMD (setk_hold v s).
Proof. intros s v H; exact H. Qed.
Lemma nwc_setk_hold_exit : forall s v, NW ATCMD s -> NW ATCMD (setk_hold_exit v s).
Proof. intros s v H; exact H. Qed.
Lemma nwc_setk_wbuf : forall s v, NW ATCMD s -> NW ATCMD (setk_wbuf v s).
Proof. intros s v H; exact H. Qed.
Lemma nwc_setk_wstate : forall s v, NW ATCMD s -> NW ATCMD (setk_wstate v s).
Proof. intros s v H; exact H. Qed.
Lemma nwc_setk_implicit : forall s v, NW ATCMD s -> NW ATCMD (setk_implicit v s).
Proof. intros s v H; exact H. Qed.
Lemma nwc_setu_state : forall s v, NW ATCMD s -> NW ATCMD (setu_state v s).
Proof. intros s v H; exact H. Qed.
Lemma nwc_setu_index : forall s v, NW ATCMD s -> NW ATCMD (setu_index v s).
Proof. intros s v H; exact H. Qed.
Lemma nwc_setu_position : forall s v, NW ATCMD s -> NW ATCMD (setu_position v s).
Proof. intros s v H; exact H. Qed.
Lemma nwc_setu_cmd : forall s v, NW ATCMD s -> NW ATCMD (setu_cmd v s).
Proof. intros s v H; exact H. Qed.
Lemma nwc_setu_var : forall s v, NW ATCMD s -> NW ATCMD (setu_var v s).
Proof. intros s v H; exact H. Qed.
Lemma nwc_setu_type : forall s v, NW ATCMD s -> NW ATCMD (setu_type v s).
Proof. intros s v H; exact H. Qed.
Lemma nwc_setu_wbuf : forall s v, NW ATCMD s -> NW ATCMD (setu_wbuf v s).
Proof. intros s v H; exact H. Qed.
Lemma nwc_setu_wstate : forall s v, NW ATCMD s -> NW ATCMD (setu_wstate v s).
Proof. intros s v H; exact H. Qed.
Lemma nwc_setu_wafter : forall s v, NW ATCMD s -> NW ATCMD (setu_wafter v s).
Proof. intros s v H; exact H. Qed.
Lemma nwc_setu_ring : forall s v, NW ATCMD s -> NW ATCMD (setu_ring v s).
Proof. intros s v H; exact H. Qed.
Lemma nwc_setu_tail : forall s v, NW ATCMD s -> NW ATCMD (setu_tail v s).
Proof. intros s v H; exact H. Qed.
Lemma nwc_setu_head : forall s v, NW ATCMD s -> NW ATCMD (setu_head v s).
Proof. intros s v H; exact H. Qed.
Lemma nwc_setu_count : forall s v, NW ATCMD s -> NW ATCMD (setu_count v s).
Proof. intros s v H; exact H. Qed.
Lemma nwc_set_cbuf : forall s v, NW ATCMD s -> NW ATCMD (set_cbuf v s).
Proof. intros s v H; exact H. Qed.
Lemma nwc_set_ubuf : forall s v, NW ATCMD s -> NW ATCMD (set_ubuf v s).
Proof. intros s v H; exact H. Qed.
Lemma nwc_set_mem : forall s v, NW ATCMD s -> NW ATCMD (set_mem v s).
Proof. intros s v H; exact H. Qed.
Lemma nwc_set_dis_cmd : forall s v, NW ATCMD s -> NW ATCMD (set_dis_cmd v s).
Proof. intros s v H; exact H. Qed.
Lemma nwc_set_dis_grp : forall s v, NW ATCMD s -> NW ATCMD (set_dis_grp v s).
Proof. intros s v H; exact H. Qed.
Lemma nwc_set_fault : forall s v, NW ATCMD s -> NW ATCMD (set_fault v s).
Proof. intros s v H; exact H. Qed.
Lemma nwc_set_gL : forall s v, NW ATCMD s -> NW ATCMD (set_gL v s).
Proof. intros s v H; exact H. Qed.
Lemma nwc_set_gS : forall s v, NW ATCMD s -> NW ATCMD (set_gS v s).
Proof. intros s v H; exact H. Qed.
Lemma nwc_set_gR : forall s v, NW ATCMD s -> NW ATCMD (set_gR v s).
Proof. intros s v H; exact H. Qed.
Lemma nwu_setk_index : forall s v, NW UNSOL s -> NW UNSOL (setk_index v s).
Proof. intros s v H; exact H. Qed.
Lemma nwu_setk_partial : forall s v, NW UNSOL s -> NW UNSOL (setk_partial v s).
Proof. intros s v H; exact H. Qed.
Lemma nwu_setk_length : forall s v, NW UNSOL s -> NW UNSOL (setk_length v s).
Proof. intros s v H; exact H. Qed.
Lemma nwu_setk_position : forall s v, NW UNSOL s -> NW UNSOL (setk_position v s).
Proof. intros s v H; exact H. Qed.
Lemma nwu_setk_write_size : forall s v, NW UNSOL s -> NW UNSOL (setk_write_size v s).
Proof. intros s v H; exact H. Qed.
Lemma nwu_setk_cmd : forall s v, NW UNSOL s -> NW UNSOL (setk_cmd v s).
Proof. intros s v H; exact H. Qed.
Lemma nwu_setk_var : forall s v, NW UNSOL s -> NW UNSOL (setk_var v s).
Proof. intros s v H; exact H. Qed.
Lemma nwu_setk_type : forall s v, NW UNSOL s -> NW UNSOL (setk_type v s).
Proof. intros s v H; exact H. Qed.
Lemma nwu_setk_char : forall s v, NW UNSOL s -> NW UNSOL (setk_char v s).
Proof. intros s v H; exact H. Qed.
Lemma nwu_setk_state : forall s v, NW UNSOL s -> NW UNSOL (setk_state v s).
Proof. intros s v H; exact H. Qed.
Lemma nwu_setk_cr : forall s v, NW UNSOL s -> NW UNSOL (setk_cr v s).
Proof. intros s v H; exact H. Qed.
Lemma nwu_setk_hold : forall s v, NW UNSOL s -> NW UNSOL (setk_hold v s).
Proof. intros s v H; exact H. Qed.
Lemma nwu_setk_hold_exit : forall s v, NW UNSOL s -> NW UNSOL (setk_hold_exit v s).
Proof. intros s v H; exact H. Qed.
Lemma nwu_setk_wbuf : forall s v, NW UNSOL s -> NW UNSOL (setk_wbuf v s).
Proof. intros s v H; exact H. Qed.
Lemma nwu_setk_wstate : forall s v, NW UNSOL s -> NW UNSOL (setk_wstate v s).
Proof. intros s v H; exact H. Qed.
Lemma nwu_setk_wafter : forall s v, NW UNSOL s -> NW UNSOL (setk_wafter v s).
Proof. intros s v H; exact H. Qed.
Lemma nwu_setk_implicit : forall s v, NW UNSOL s -> NW UNSOL (setk_implicit v s).
Proof. intros s v H; exact H. Qed.
Lemma nwu_setu_index : forall s v, NW UNSOL s -> NW UNSOL (setu_index v s).
Proof. intros s v H; exact H. Qed.
Lemma nwu_setu_position : forall s v, NW UNSOL s -> NW UNSOL (setu_position v s).
Proof. intros s v H; exact H. Qed.
Lemma nwu_setu_cmd : forall s v, NW UNSOL s -> NW UNSOL (setu_cmd v s).
Proof. intros s v H; exact H. Qed.
Lemma nwu_setu_var : forall s v, NW UNSOL s -> NW UNSOL (setu_var v s).
Proof. intros s v H; exact H. Qed.
Lemma nwu_setu_type : forall s v, NW UNSOL s -> NW UNSOL (setu_type v s).
Proof. intros s v H; exact H. Qed.
Lemma nwu_setu_wbuf : forall s v, NW UNSOL s -> NW UNSOL (setu_wbuf v s).
Proof. intros s v H; exact H. Qed.
Lemma nwu_setu_wstate : forall s v, NW UNSOL s -> NW UNSOL (setu_wstate v s).
Proof. intros s v H; exact H. Qed.
Lemma nwu_setu_ring : forall s v, NW UNSOL s -> NW UNSOL (setu_ring v s).
Proof. intros s v H; exact H. Qed.
Lemma nwu_setu_tail : forall s v, NW UNSOL s -> NW UNSOL (setu_tail v s).
Proof. intros s v H; exact H. Qed.
Lemma nwu_setu_head : forall s v, NW UNSOL s -> NW UNSOL (setu_head v s).
Proof. intros s v H; exact H. Qed.
Lemma nwu_setu_count : forall s v, NW UNSOL s -> NW UNSOL (setu_count v s).
Proof. intros s v H; exact H. Qed.
Lemma nwu_set_cbuf : forall s v, NW UNSOL s -> NW UNSOL (set_cbuf v s).
Proof. intros s v H; exact H. Qed.
Lemma nwu_set_ubuf : forall s v, NW UNSOL s -> NW UNSOL (set_ubuf v s).
Proof. intros s v H; exact H. Qed.
Lemma nwu_set_mem : forall s v, NW UNSOL s -> NW UNSOL (set_mem v s).
Proof. intros s v H; exact H. Qed.
Lemma nwu_set_dis_cmd : forall s v, NW UNSOL s -> NW UNSOL (set_dis_cmd v s).
Proof. intros s v H; exact H. Qed.
Lemma nwu_set_dis_grp : forall s v, NW UNSOL s -> NW UNSOL (set_dis_grp v s).
Proof. intros s v H; exact H. Qed.
Lemma nwu_set_fault : forall s v, NW UNSOL s -> NW UNSOL (set_fault v s).
Proof. intros s v H; exact H. Qed.
Lemma nwu_set_gL : forall s v, NW UNSOL s -> NW UNSOL (set_gL v s).
Proof. intros s v H; exact H. Qed.
Lemma nwu_set_gS : forall s v, NW UNSOL s -> NW UNSOL (set_gS v s).
Proof. intros s v H; exact H. Qed.
Lemma nwu_set_gR : forall s v, NW UNSOL s -> NW UNSOL (set_gR v s).
Proof. intros s v H; exact H. Qed.
Lemma okc_setk_index : forall s v, OK ATCMD s -> OK ATCMD (setk_index v s).
Proof. intros s v H; exact H. Qed.
Lemma okc_setk_partial : forall s v, OK ATCMD s -> OK ATCMD (setk_partial v s).
Proof. intros s v H; exact H. Qed.
Lemma okc_setk_length : forall s v, OK ATCMD s -> OK ATCMD (setk_length v s).
Proof. intros s v H; exact H. Qed.
Lemma okc_setk_write_size : forall s v, OK ATCMD s -> OK ATCMD (setk_write_size v s).
Proof. intros s v H; exact H. Qed.
Lemma okc_setk_cmd : forall s v, OK ATCMD s -> OK ATCMD (setk_cmd v s).
Proof. intros s v H; exact H. Qed.
Lemma okc_setk_var : forall s v, OK ATCMD s -> OK ATCMD (setk_var v s).
Proof. intros s v H; exact H. Qed.
Lemma okc_setk_type : forall s v, OK ATCMD s -> OK ATCMD (setk_type v s).
Proof. intros s v H; exact H. Qed.
Lemma okc_setk_char : forall s v, OK ATCMD s -> OK ATCMD (setk_char v s).
Proof. intros s v H; exact H. Qed.
Lemma okc_setk_hold : forall s v, OK ATCMD s -> OK ATCMD (setk_hold v s).
Proof. intros s v H; exact H. Qed.
Lemma okc_setk_hold_exit : forall s v, OK ATCMD s -> OK ATCMD (setk_hold_exit v s).
Proof. intros s v H; exact H. Qed.
Lemma okc_setk_implicit : forall s v, OK ATCMD s -> OK ATCMD (setk_implicit v s).
Proof. intros s v H; exact H. Qed.
Lemma okc_setu_state : forall s v, OK ATCMD s -> OK ATCMD (setu_state v s).
Proof. intros s v H; exact H. Qed.
Lemma okc_setu_index : forall s v, OK ATCMD s -> OK ATCMD (setu_index v s).
Proof. intros s v H; exact H. Qed.
Lemma okc_setu_position : forall s v, OK ATCMD s -> OK ATCMD (setu_position v s).
Proof. intros s v H; exact H. Qed.
Lemma okc_setu_cmd : forall s v, OK ATCMD s -> OK ATCMD (setu_cmd v s).
Proof. intros s v H; exact H. Qed.
Lemma okc_setu_var : forall s v, OK ATCMD s -> OK ATCMD (setu_var v s).
Proof. intros s v H; exact H. Qed.
Lemma okc_setu_type : forall s v, OK ATCMD s -> OK ATCMD (setu_type v s).
Proof. intros s v H; exact H. Qed.
Lemma okc_setu_wbuf : forall s v, OK ATCMD s -> OK ATCMD (setu_wbuf v s).
Proof. intros s v H; exact H. Qed.
Lemma okc_setu_wstate : forall s v, OK ATCMD s -> OK ATCMD (setu_wstate v s).
Proof. intros s v H; exact H. Qed.
Lemma okc_setu_wafter : forall s v, OK ATCMD s -> OK ATCMD (setu_wafter v s).
Proof. intros s v H; exact H. Qed.
Lemma okc_setu_ring : forall s v, OK ATCMD s -> OK ATCMD (setu_ring v s).
Proof. intros s v H; exact H. Qed.
Lemma okc_setu_tail : forall s v, OK ATCMD s -> OK ATCMD (setu_tail v s).
Proof. intros s v H; exact H. Qed.
Lemma okc_setu_head : forall s v, OK ATCMD s -> OK ATCMD (setu_head v s).
Proof. intros s v H; exact H. Qed.
Lemma okc_setu_count : forall s v, OK ATCMD s -> OK ATCMD (setu_count v s).
Proof. intros s v H; exact H. Qed.
Lemma okc_set_cbuf : forall s v, OK ATCMD s -> OK ATCMD (set_cbuf v s).
Proof. intros s v H; exact H. Qed.
Lemma okc_set_ubuf : forall s v, OK ATCMD s -> OK ATCMD (set_ubuf v s).
Proof. intros s v H; exact H. Qed.
Lemma okc_set_mem : forall s v, OK ATCMD s -> OK ATCMD (set_mem v s).
Proof. intros s v H; exact H. Qed.
Lemma okc_set_dis_cmd : forall s v, OK ATCMD s -> OK ATCMD (set_dis_cmd v s).
Proof. intros s v H; exact H. Qed.
Lemma okc_set_dis_grp : forall s v, OK ATCMD s -> OK ATCMD (set_dis_grp v s).
Proof. intros s v H; exact H. Qed.
Lemma okc_set_fault : forall s v, OK ATCMD s -> OK ATCMD (set_fault v s).
Proof. intros s v H; exact H. Qed.
Lemma okc_set_gL : forall s v, OK ATCMD s -> OK ATCMD (set_gL v s).
Proof. intros s v H; exact H. Qed.
Lemma okc_set_gS : forall s v, OK ATCMD s -> OK ATCMD (set_gS v s).
Proof. intros s v H; exact H. Qed.
Lemma okc_set_gR : forall s v, OK ATCMD s -> OK ATCMD (set_gR v s).
Proof. intros s v H; exact H. Qed.
Lemma oku_setk_index : forall s v, OK UNSOL s -> OK UNSOL (setk_index v s).
Proof. intros s v H; exact H. Qed.
Lemma oku_setk_partial : forall s v, OK UNSOL s -> OK UNSOL (setk_partial v s).
Proof. intros s v H; exact H. Qed.
Lemma oku_setk_length : forall s v, OK UNSOL s -> OK UNSOL (setk_length v s).
Proof. intros s v H; exact H. Qed.
Lemma oku_setk_position : forall s v, OK UNSOL s -> OK UNSOL (setk_position v s).
Proof. intros s v H; exact H. Qed.
Lemma oku_setk_write_size : forall s v, OK UNSOL s -> OK UNSOL (setk_write_size v s).
Proof. intros s v H; exact H. Qed.
Lemma oku_setk_cmd : forall s v, OK UNSOL s -> OK UNSOL (setk_cmd v s).
Proof. intros s v H; exact H. Qed.
Lemma oku_setk_var : forall s v, OK UNSOL s -> OK UNSOL (setk_var v s).
Proof. intros s v H; exact H. Qed.
Lemma oku_setk_type : forall s v, OK UNSOL s -> OK UNSOL (setk_type v s).
Proof. intros s v H; exact H. Qed.
Lemma oku_setk_char : forall s v, OK UNSOL s -> OK UNSOL (setk_char v s).
Proof. intros s v H; exact H. Qed.
Lemma oku_setk_state : forall s v, OK UNSOL s -> OK UNSOL (setk_state v s).
Proof. intros s v H; exact H. Qed.
Lemma oku_setk_cr : forall s v, OK UNSOL s -> OK UNSOL (setk_cr v s).
Proof. intros s v H; exact H. Qed.
Lemma oku_setk_hold : forall s v, OK UNSOL s -> OK UNSOL (setk_hold v s).
Proof. intros s v H; exact H. Qed.
Lemma oku_setk_hold_exit : forall s v, OK UNSOL s -> OK UNSOL (setk_hold_exit v s).
Proof. intros s v H; exact H. Qed.
Lemma oku_setk_wbuf : forall s v, OK UNSOL s -> OK UNSOL (setk_wbuf v s).
Proof. intros s v H; exact H. Qed.
Lemma oku_setk_wstate : forall s v, OK UNSOL s -> OK UNSOL (setk_wstate v s).
Proof. intros s v H; exact H. Qed.
Lemma oku_setk_wafter : forall s v, OK UNSOL s -> OK UNSOL (setk_wafter v s).
Proof. intros s v H; exact H. Qed.
Lemma oku_setk_implicit : forall s v, OK UNSOL s -> OK UNSOL (setk_implicit v s).
Proof. intros s v H; exact H. Qed.
Lemma oku_setu_index : forall s v, OK UNSOL s -> OK UNSOL (setu_index v s).
Proof. intros s v H; exact H. Qed.
Lemma oku_setu_cmd : forall s v, OK UNSOL s -> OK UNSOL (setu_cmd v s).
Proof. intros s v H; exact H. Qed.
Lemma oku_setu_var : forall s v, OK UNSOL s -> OK UNSOL (setu_var v s).
Proof. intros s v H; exact H. Qed.
Lemma oku_setu_type : forall s v, OK UNSOL s -> OK UNSOL (setu_type v s).
Proof. intros s v H; exact H. Qed.
Lemma oku_setu_ring : forall s v, OK UNSOL s -> OK UNSOL (setu_ring v s).
Proof. intros s v H; exact H. Qed.
Lemma oku_setu_tail : forall s v, OK UNSOL s -> OK UNSOL (setu_tail v s).
Proof. intros s v H; exact H. Qed.
Lemma oku_setu_head : forall s v, OK UNSOL s -> OK UNSOL (setu_head v s).
Proof. intros s v H; exact H. Qed.
Lemma oku_setu_count : forall s v, OK UNSOL s -> OK UNSOL (setu_count v s).
Proof. intros s v H; exact H. Qed.
Lemma oku_set_cbuf : forall s v, OK UNSOL s -> OK UNSOL (set_cbuf v s).
Proof. intros s v H; exact H. Qed.
Lemma oku_set_ubuf : forall s v, OK UNSOL s -> OK UNSOL (set_ubuf v s).
Proof. intros s v H; exact H. Qed.
Lemma oku_set_mem : forall s v, OK UNSOL s -> OK UNSOL (set_mem v s).
Proof. intros s v H; exact H. Qed.
Lemma oku_set_dis_cmd : forall s v, OK UNSOL s -> OK UNSOL (set_dis_cmd v s).
Proof. intros s v H; exact H. Qed.
Lemma oku_set_dis_grp : forall s v, OK UNSOL s -> OK UNSOL (set_dis_grp v s).
Proof. intros s v H; exact H. Qed.
Lemma oku_set_fault : forall s v, OK UNSOL s -> OK UNSOL (set_fault v s).
Proof. intros s v H; exact H. Qed.
Lemma oku_set_gL : forall s v, OK UNSOL s -> OK UNSOL (set_gL v s).
Proof. intros s v H; exact H. Qed.
Lemma oku_set_gS : forall s v, OK UNSOL s -> OK UNSOL (set_gS v s).
Proof. intros s v H; exact H. Qed.
Lemma oku_set_gR : forall s v, OK UNSOL s -> OK UNSOL (set_gR v s).
Proof. intros s v H; exact H. Qed.
Lemma nwc_set_fault_flag : forall s, NW ATCMD s -> NW ATCMD (set_fault_flag s).
Proof. intros s H; exact H. Qed.
Lemma okc_set_fault_flag : forall s, OK ATCMD s -> OK ATCMD (set_fault_flag s).
Proof. intros s H; exact H. Qed.
Lemma nwu_set_fault_flag : forall s, NW UNSOL s -> NW UNSOL (set_fault_flag s).
Proof. intros s H; exact H. Qed.
Lemma oku_set_fault_flag : forall s, OK UNSOL s -> OK UNSOL (set_fault_flag s).
Proof. intros s H; exact H. Qed.
Create HintDb nwok.
#[global] Hint Resolve nwc_setk_index nwc_setk_partial nwc_setk_length nwc_setk_position nwc_setk_write_size nwc_setk_cmd nwc_setk_var nwc_setk_type nwc_setk_char nwc_setk_cr nwc_setk_hold nwc_setk_hold_exit nwc_setk_wbuf nwc_setk_wstate nwc_setk_implicit nwc_setu_state nwc_setu_index nwc_setu_position nwc_setu_cmd nwc_setu_var nwc_setu_type nwc_setu_wbuf nwc_setu_wstate nwc_setu_wafter nwc_setu_ring nwc_setu_tail nwc_setu_head nwc_setu_count nwc_set_cbuf nwc_set_ubuf nwc_set_mem nwc_set_dis_cmd nwc_set_dis_grp nwc_set_fault nwc_set_gL nwc_set_gS nwc_set_gR nwu_setk_index nwu_setk_partial nwu_setk_length nwu_setk_position nwu_setk_write_size nwu_setk_cmd nwu_setk_var nwu_setk_type nwu_setk_char nwu_setk_state nwu_setk_cr nwu_setk_hold nwu_setk_hold_exit nwu_setk_wbuf nwu_setk_wstate nwu_setk_wafter nwu_setk_implicit nwu_setu_index nwu_setu_position nwu_setu_cmd nwu_setu_var nwu_setu_type nwu_setu_wbuf nwu_setu_wstate nwu_setu_ring nwu_setu_tail nwu_setu_head nwu_setu_count nwu_set_cbuf nwu_set_ubuf nwu_set_mem nwu_set_dis_cmd nwu_set_dis_grp nwu_set_fault nwu_set_gL nwu_set_gS nwu_set_gR okc_setk_index okc_setk_partial okc_setk_length okc_setk_write_size okc_setk_cmd okc_setk_var okc_setk_type okc_setk_char okc_setk_hold okc_setk_hold_exit okc_setk_implicit okc_setu_state okc_setu_index okc_setu_position okc_setu_cmd okc_setu_var okc_setu_type okc_setu_wbuf okc_setu_wstate okc_setu_wafter okc_setu_ring okc_setu_tail okc_setu_head okc_setu_count okc_set_cbuf okc_set_ubuf okc_set_mem okc_set_dis_cmd okc_set_dis_grp okc_set_fault okc_set_gL okc_set_gS okc_set_gR oku_setk_index oku_setk_partial oku_setk_length oku_setk_position oku_setk_write_size oku_setk_cmd oku_setk_var oku_setk_type oku_setk_char oku_setk_state oku_setk_cr oku_setk_hold oku_setk_hold_exit oku_setk_wbuf oku_setk_wstate oku_setk_wafter oku_setk_implicit oku_setu_index oku_setu_cmd oku_setu_var oku_setu_type oku_setu_ring oku_setu_tail oku_setu_head oku_setu_count oku_set_cbuf oku_set_ubuf oku_set_mem oku_set_dis_cmd oku_set_dis_grp oku_set_fault oku_set_gL oku_set_gS oku_set_gR nwc_set_fault_flag okc_set_fault_flag nwu_set_fault_flag oku_set_fault_flag : nwok.
#[global] Hint Resolve OK_of_NW : nwok.
#[global] Hint Extern 1 (_ <> _) => discriminate : nwok.
#[global] Hint Extern 1 (_ = true) => reflexivity : nwok.

Lemma nwc_setk_state : forall s v, v <> CS_FLUSH_WAIT -> NW ATCMD s -> NW ATCMD (setk_state v s).
Proof. intros s v Hv [A B]. split; [exact A|exact Hv]. Qed.
Lemma nwu_setu_state : forall s v, v <> US_FLUSH_WAIT -> NW UNSOL s -> NW UNSOL (setu_state v s).
Proof. intros s v Hv [A B]. split; [exact A|exact Hv]. Qed.
#[global] Hint Resolve nwc_setk_state nwu_setu_state : nwok.

Lemma nw_setg_pos : forall f s v, NW f s -> NW f (setg_pos f v s).
Proof. intros [|] s v H; exact H. Qed.
Lemma nw_setg_buf : forall f s v, NW f s -> NW f (setg_buf f v s).
Proof. intros [|] s v H; exact H. Qed.
Lemma nw_setg_var : forall f s v, NW f s -> NW f (setg_var f v s).
Proof. intros [|] s v H; exact H. Qed.
Lemma nw_setg_index : forall f s v, NW f s -> NW f (setg_index f v s).
Proof. intros [|] s v H; exact H. Qed.
Lemma nw_set_fault_flag : forall f s, NW f s -> NW f (set_fault_flag s).
Proof. intros [|] s H; exact H. Qed.
Lemma nw_set_mem : forall f s v, NW f s -> NW f (set_mem v s).
Proof. intros [|] s v H; exact H. Qed.
Lemma nw_setk_hold_exit : forall f s v, NW f s -> NW f (setk_hold_exit v s).
Proof. intros [|] s v H; exact H. Qed.
#[global] Hint Resolve nw_setg_pos nw_setg_buf nw_setg_var nw_setg_index nw_set_fault_flag nw_set_mem
  nw_setk_hold_exit : nwok.

(* ---- the flush starters establish the fresh cursor, from ANY state ---- *)
Lemma ok_start_flush_c : forall a s, wafter_ok_c a = true -> OK ATCMD (start_flush_c a s).
Proof. intros a s Ha. split; [exact Ha|]. intros _. split; [reflexivity|]. left. split; reflexivity. Qed.
Lemma ok_start_flush_raw_c : forall a s, wafter_ok_c a = true -> OK ATCMD (start_flush_raw_c a s).
Proof. intros a s Ha. split; [exact Ha|]. intros _. split; [reflexivity|]. right. split; reflexivity. Qed.
Lemma ok_start_flush_u : forall a s, wafter_ok_u a = true -> OK UNSOL (start_flush_u a s).
Proof.
  intros a s Ha. split; [exact Ha|]. intros _. split; [reflexivity|]. split; [reflexivity|].
  exists (k_cr (k s)). reflexivity.
Qed.
Lemma ok_ack_error : forall s, OK ATCMD (ack_error s).
Proof. intros s. unfold ack_error. apply ok_start_flush_c. reflexivity. Qed.
Lemma ok_ack_ok : forall s, OK ATCMD (ack_ok s).
Proof. intros s. unfold ack_ok. apply ok_start_flush_c. reflexivity. Qed.
#[global] Hint Resolve ok_start_flush_c ok_start_flush_raw_c ok_start_flush_u ok_ack_error ok_ack_ok : nwok.

(* ---- the pure state functions of Fsm.v ---- *)
Ltac ok_destruct x :=
  lazymatch type of x with
  | prod state _ =>
    let E := fresh "E" in let s0 := fresh "s" in let b0 := fresh "b" in
    destruct x as [s0 b0] eqn:E;
    let E' := fresh "E" in
    assert (E' : s0 = fst x) by (rewrite E; reflexivity); subst s0
  | _ => first [ is_var x; destruct x | destruct x eqn:? ]
  end.
Ltac ok_brk t :=
  match t with
  | context [match ?x with _ => _ end] => first [ ok_brk x | ok_destruct x ]
  end.
Ltac ok_step :=
  match goal with
  | |- context [negb ?b] => is_var b; destruct b; cbn [negb]
  | |- ?G => ok_brk G
  end.
#[global] Hint Extern 1 (snd ?x = false) =>
  match goal with E : x = (_, false) |- _ => exact (f_equal snd E) end : nwok.
Ltac ok_solve := cbv beta zeta; repeat (ok_step; cbn [fst snd]); auto 60 with nwok.
(* for functions returning (state, flag): OK of the state, and NW when the flag is false *)
Ltac ok_pair := cbv beta zeta; repeat (ok_step; cbn [fst snd]);
  (split; [ auto 60 with nwok | let Hx := fresh "Hx" in intro Hx; try discriminate Hx; auto 60 with nwok ]).

Lemma nw_put_cur : forall f c s, NW f s -> NW f (put_cur f c s).
Proof. intros. unfold put_cur. ok_solve. Qed.
#[global] Hint Resolve nw_put_cur : nwok.
Lemma nw_print_string : forall f s t, NW f s -> NW f (fst (print_string f s t)).
Proof. intros f s t Hs. unfold print_string. destruct (print_nstring _ _) as [c o]. cbn [fst]. auto with nwok. Qed.
Lemma nw_print_strings : forall f s t, NW f s -> NW f (fst (print_strings f s t)).
Proof. intros f s t Hs. unfold print_strings. destruct (print_pieces _ _) as [c o]. cbn [fst]. auto with nwok. Qed.
#[global] Hint Resolve nw_print_string nw_print_strings : nwok.

Lemma nw_unsolicited_reset_state : forall s, NW UNSOL s -> NW UNSOL (unsolicited_reset_state s).
Proof. intros. unfold unsolicited_reset_state. ok_solve. Qed.
#[global] Hint Resolve nw_unsolicited_reset_state : nwok.
Lemma ok_end_with_error : forall f s, NW f s -> OK f (end_with_error f s).
Proof. intros [|] s H; unfold end_with_error; ok_solve. Qed.
Lemma ok_end_with_ok : forall f s, NW f s -> OK f (end_with_ok f s).
Proof. intros [|] s H; unfold end_with_ok; ok_solve. Qed.
Lemma nw_set_loop_state : forall f rd s, NW f s -> NW f (set_loop_state f rd s).
Proof. intros [|] rd s H; unfold set_loop_state; destruct rd; ok_solve. Qed.
Lemma ok_start_flush_after_ok : forall f s, OK f (start_flush_after_ok f s).
Proof. intros [|] s; unfold start_flush_after_ok; ok_solve. Qed.
Lemma ok_start_flush_after : forall f ac au s, wafter_ok_c ac = true -> wafter_ok_u au = true ->
  OK f (start_flush_after f ac au s).
Proof. intros [|] ac au s H1 H2; unfold start_flush_after; ok_solve. Qed.
#[global] Hint Resolve ok_end_with_error ok_end_with_ok nw_set_loop_state ok_start_flush_after_ok
  ok_start_flush_after : nwok.

Lemma prt_okw : forall D f s, NW f s ->
  OK f (fst (print_response_test D f s)) /\
  (snd (print_response_test D f s) = false -> NW f (fst (print_response_test D f s))).
Proof. intros D f s H. unfold print_response_test. ok_pair. Qed.
Lemma ok_prt : forall D f s, NW f s -> OK f (fst (print_response_test D f s)).
Proof. intros D f s H. exact (proj1 (prt_okw D f s H)). Qed.
Lemma nw_prt_false : forall D f s, snd (print_response_test D f s) = false -> NW f s ->
  NW f (fst (print_response_test D f s)).
Proof. intros D f s E H. exact (proj2 (prt_okw D f s H) E). Qed.
#[global] Hint Resolve ok_prt nw_prt_false : nwok.

Lemma ok_spfta : forall D f s, NW f s -> OK f (start_processing_format_test_args D f s).
Proof. intros D [|] s H; unfold start_processing_format_test_args; ok_solve. Qed.
Lemma ok_spfra : forall D f s, NW f s -> OK f (start_processing_format_read_args D f s).
Proof. intros D [|] s H; unfold start_processing_format_read_args; ok_solve. Qed.
#[global] Hint Resolve ok_spfta ok_spfra : nwok.

Lemma nfv_okw : forall D f s, NW f s ->
  OK f (fst (next_format_var D f s)) /\
  (snd (next_format_var D f s) = false -> NW f (fst (next_format_var D f s))).
Proof. intros D [|] s H; unfold next_format_var; ok_pair. Qed.
Lemma ok_nfv : forall D f s, NW f s -> OK f (fst (next_format_var D f s)).
Proof. intros D f s H. exact (proj1 (nfv_okw D f s H)). Qed.
Lemma nw_nfv_false : forall D f s, snd (next_format_var D f s) = false -> NW f s ->
  NW f (fst (next_format_var D f s)).
Proof. intros D f s E H. exact (proj2 (nfv_okw D f s H) E). Qed.
#[global] Hint Resolve ok_nfv nw_nfv_false : nwok.

Lemma nw_set_cmd_state : forall s i v, NW ATCMD s -> NW ATCMD (set_cmd_state s i v).
Proof. intros. unfold set_cmd_state. ok_solve. Qed.
Lemma nw_prepare_search_command : forall s, NW ATCMD s -> NW ATCMD (prepare_search_command s).
Proof. intros. unfold prepare_search_command. ok_solve. Qed.
Lemma nw_prepare_parse_command : forall s, NW ATCMD s -> NW ATCMD (prepare_parse_command s).
Proof. intros. unfold prepare_parse_command. ok_solve. Qed.
#[global] Hint Resolve nw_set_cmd_state nw_prepare_search_command nw_prepare_parse_command : nwok.
Lemma ok_update_command : forall D s, NW ATCMD s -> OK ATCMD (update_command D s).
Proof. intros. unfold update_command. ok_solve. Qed.
Lemma ok_search_command : forall D s, NW ATCMD s -> OK ATCMD (search_command D s).
Proof. intros. unfold search_command. ok_solve. Qed.
Lemma ok_command_found : forall D s, NW ATCMD s -> OK ATCMD (command_found D s).
Proof. intros. unfold command_found. ok_solve. Qed.
Lemma ok_start_print_cmd_list : forall D s, NW ATCMD s -> OK ATCMD (start_print_cmd_list D s).
Proof. intros. unfold start_print_cmd_list. ok_solve. Qed.
Lemma nw_cmd_list_next_cmd : forall D s, NW ATCMD s -> NW ATCMD (fst (cmd_list_next_cmd D s)).
Proof. intros. unfold cmd_list_next_cmd. ok_solve. Qed.
Lemma nw_print_current_cmd_full_name : forall s c sf,
  NW ATCMD s -> NW ATCMD (fst (print_current_cmd_full_name s c sf)).
Proof. intros. unfold print_current_cmd_full_name. ok_solve. Qed.
#[global] Hint Resolve ok_update_command ok_search_command ok_command_found ok_start_print_cmd_list
  nw_cmd_list_next_cmd nw_print_current_cmd_full_name : nwok.
Lemma ok_print_cmd_form : forall s c a sf n, NW ATCMD s -> OK ATCMD (print_cmd_form s c a sf n).
Proof. intros. unfold print_cmd_form. ok_solve. Qed.
#[global] Hint Resolve ok_print_cmd_form : nwok.
Lemma ok_print_cmd_list : forall D s, NW ATCMD s -> OK ATCMD (print_cmd_list D s).
Proof. intros. unfold print_cmd_list. ok_solve. Qed.
Lemma nw_enable_hold_state : forall f s, NW f s -> NW f (enable_hold_state s).
Proof. intros [|] s H; unfold enable_hold_state; ok_solve. Qed.
Lemma nw_hold_exit : forall f s z, NW f s -> NW f (fst (hold_exit s z)).
Proof. intros [|] s z H; unfold hold_exit; ok_solve. Qed.
Lemma ok_process_hold_state : forall s, NW ATCMD s -> OK ATCMD (process_hold_state s).
Proof. intros. unfold process_hold_state. ok_solve. Qed.
Lemma nw_reset_state : forall s, NW ATCMD s -> NW ATCMD (reset_state s).
Proof. intros. unfold reset_state. ok_solve. Qed.
Lemma nw_apply_poke : forall f s p, NW f s -> NW f (apply_poke s p).
Proof. intros [|] s p H; unfold apply_poke; ok_solve. Qed.
#[global] Hint Resolve ok_print_cmd_list nw_enable_hold_state nw_hold_exit ok_process_hold_state nw_reset_state
  nw_apply_poke : nwok.
Lemma nw_apply_pokes : forall f ps s, NW f s -> NW f (fold_left apply_poke ps s).
Proof. induction ps as [|p ps IH]; intros s H; cbn [fold_left]; auto with nwok. Qed.
Lemma nw_apply_edit : forall f s e, NW f s -> NW f (apply_edit f e s).
Proof. intros. unfold apply_edit. ok_solve. Qed.
Lemma ok_format_test_args : forall D f s, NW f s -> OK f (format_test_args D f s).
Proof. intros D [|] s H; unfold format_test_args; ok_solve. Qed.
#[global] Hint Resolve nw_apply_pokes nw_apply_edit ok_format_test_args : nwok.
Lemma nw_push : forall D f s ci t, NW f s -> NW f (fst (push_unsolicited_cmd D s ci t)).
Proof. intros D [|] s ci t H; unfold push_unsolicited_cmd; ok_solve. Qed.
Lemma nw_pop : forall D s, NW UNSOL s -> NW UNSOL (fst (pop_unsolicited_cmd D s)).
Proof. intros. unfold pop_unsolicited_cmd. ok_solve. Qed.
#[global] Hint Resolve nw_push nw_pop : nwok.
Lemma ok_check_unsolicited_buffers : forall D s, NW UNSOL s -> OK UNSOL (check_unsolicited_buffers D s).
Proof. intros. unfold check_unsolicited_buffers. ok_solve. Qed.
#[global] Hint Resolve ok_check_unsolicited_buffers : nwok.

(* ---- the invariant is a property of kpart+k_state / upart ---- *)
Lemma OK_c_kpart : forall s1 s, kpart s1 = kpart s ->
  (k_state (k s1) = k_state (k s) \/ k_state (k s1) = CS_HOLD) -> OK ATCMD s -> OK ATCMD s1.
Proof.
  intros s1 s KP KS [A B]. unfold kpart in KP. inversion KP. unfold OK, fresh_c in *.
  split; [congruence|]. intro W. destruct KS as [KS|KS]; [|congruence].
  rewrite KS in W. specialize (B W).
  repeat match goal with E : _ s1 = _ s |- _ => rewrite E; clear E
                    | E : _ (k s1) = _ (k s) |- _ => rewrite E; clear E end.
  exact B.
Qed.
Lemma NW_c_kpart : forall s1 s, kpart s1 = kpart s -> k_state (k s1) = k_state (k s) -> NW ATCMD s -> NW ATCMD s1.
Proof. intros s1 s KP KS [A B]. unfold kpart in KP. inversion KP. split; congruence. Qed.
Lemma OK_u_upart : forall s1 s, upart s1 = upart s -> OK UNSOL s -> OK UNSOL s1.
Proof.
  intros s1 s UP [A B]. unfold upart in UP. inversion UP. unfold OK, fresh_u in *.
  split; [congruence|]. intro W.
  repeat match goal with E : _ (u s1) = _ (u s) |- _ => rewrite E in *; clear E end.
  exact (B W).
Qed.
Lemma NW_u_upart : forall s1 s, upart s1 = upart s -> NW UNSOL s -> NW UNSOL s1.
Proof. intros s1 s UP [A B]. unfold upart in UP. inversion UP. split; congruence. Qed.


(* ================================================================== *)
(* 3. the stream of a whole history                                     *)
(* ================================================================== *)

(* did a machine move from its wait state into its FLUSH state between s and s' *)
Definition enters_c (s s' : state) : bool :=
  cstate_beq (k_state (k s)) CS_FLUSH_WAIT && cstate_beq (k_state (k s')) CS_FLUSH.
Definition enters_u (s s' : state) : bool :=
  ustate_beq (u_state (u s)) US_FLUSH_WAIT && ustate_beq (u_state (u s')) US_FLUSH.

(* the flush sessions opened between s and s' (at most one, see new_starts_one): producer and state
   at the opening *)
Definition new_starts (s s' : state) : list (fsm * state) :=
  (if enters_u s s' then [(UNSOL, s')] else []) ++ (if enters_c s s' then [(ATCMD, s')] else []).

(* the unit a session will emit, as a function of the state at its opening: for the command machine
   the whole unit; for the event machine the unit up to its closing newline, whose text is chosen
   when the payload has been sent *)
Definition unit_of (x : fsm * state) : fsm * list N :=
  match fst x with ATCMD => (ATCMD, remaining (snd x)) | UNSOL => (UNSOL, remaining_u (snd x)) end.

(* the bytes of a unit, tagged with its producer; cr: the closing newline of an event unit *)
Definition unit_bytes (x : fsm * list N) (cr : bool) : list (fsm * N) :=
  map (pair (fst x)) (match fst x with ATCMD => snd x | UNSOL => snd x ++ nl_text cr end).
Definition stream (units : list (fsm * list N)) (crs : list bool) : list (fsm * N) :=
  concat (map (fun p => unit_bytes (fst p) (snd p)) (combine units crs)).

(* a fresh session emits a whole unit: newline ++ text of the buffer ++ newline, or (a line of the
   command list) the bare text; the event machine: newline ++ text, then the closing newline *)
Definition whole_unit (x : fsm * state) : Prop :=
  match fst x with
  | ATCMD => remaining (snd x) =
               nl_text (k_cr (k (snd x))) ++ text_of (cbuf (snd x)) ++ nl_text (k_cr (k (snd x))) \/
             remaining (snd x) = text_of (cbuf (snd x))
  | UNSOL => exists cr, remaining_u (snd x) = nl_text cr ++ text_of (ubuf (snd x))
  end.

(* the state of the stream after a history with accepted output acc and started units `units`:
   (K) the command machine owns the channel: the last started unit is its unit in flight;
   (U) the event machine owns it;  (I) nobody owns it: the output is made of whole units *)
Definition stream_inv (s : state) (acc : list (fsm * N)) (units : list (fsm * list N)) : Prop :=
  (k_state (k s) = CS_FLUSH /\ u_state (u s) <> US_FLUSH /\
   exists units' U crs bytes, units = units' ++ [(ATCMD, U)] /\ length crs = length units' /\
     acc = stream units' crs ++ map (pair ATCMD) bytes /\ bytes ++ remaining s = U) \/
  (u_state (u s) = US_FLUSH /\ k_state (k s) <> CS_FLUSH /\
   exists units' U crs bytes, units = units' ++ [(UNSOL, U)] /\ length crs = length units' /\
     acc = stream units' crs ++ map (pair UNSOL) bytes /\
     if wstate_beq (u_wstate (u s)) WS_AFTER
     then exists cr1, bytes ++ remaining_u s = U ++ nl_text cr1
     else bytes ++ remaining_u s = U) \/
  (k_state (k s) <> CS_FLUSH /\ u_state (u s) <> US_FLUSH /\
   exists crs, length crs = length units /\ acc = stream units crs).

Lemma combine_app' : forall (A B : Type) (l1 l2 : list A) (r1 r2 : list B), length l1 = length r1 ->
  combine (l1 ++ l2) (r1 ++ r2) = combine l1 r1 ++ combine l2 r2.
Proof.
  induction l1 as [|a l1 IH]; intros l2 [|b r1] r2 L; cbn [length] in L; try discriminate; cbn [app combine].
  - reflexivity.
  - f_equal. apply IH. injection L as L. exact L.
Qed.

Lemma stream_snoc : forall units crs x cr, length crs = length units ->
  stream (units ++ [x]) (crs ++ [cr]) = stream units crs ++ unit_bytes x cr.
Proof.
  intros units crs x cr L. unfold stream. rewrite combine_app' by (symmetry; exact L).
  rewrite map_app, concat_app. cbn [combine map concat fst snd]. rewrite app_nil_r. reflexivity.
Qed.

Lemma fresh_c_remaining : forall s, fresh_c s ->
  remaining s = nl_text (k_cr (k s)) ++ text_of (cbuf s) ++ nl_text (k_cr (k s)) \/
  remaining s = text_of (cbuf s).
Proof.
  intros s [P [[W B]|[W B]]]; unfold remaining, phase_rest; rewrite P, W, B; cbn [wb_text skipn].
  - left. rewrite text_of_nl. reflexivity.
  - right. reflexivity.
Qed.
Lemma fresh_u_remaining : forall s, fresh_u s -> exists cr, remaining_u s = nl_text cr ++ text_of (ubuf s).
Proof.
  intros s (P & W & cr & B). exists cr. unfold remaining_u, phase_rest. rewrite P, W, B. cbn [wb_text skipn].
  rewrite text_of_nl. reflexivity.
Qed.
Lemma fresh_c_kpart : forall s1 s, kpart s1 = kpart s -> fresh_c s -> fresh_c s1.
Proof.
  intros s1 s KP H. unfold kpart in KP. inversion KP. unfold fresh_c in *.
  repeat match goal with E : _ (k s1) = _ (k s) |- _ => rewrite E; clear E end. exact H.
Qed.
Lemma remaining_u_upart' : forall s1 s, upart s1 = upart s -> remaining_u s1 = remaining_u s.
Proof. intros s1 s H. exact (proj1 (remaining_u_upart s1 s H)). Qed.

Lemma cstate_beq_true : forall a b, cstate_beq a b = true <-> a = b.
Proof. intros a b. split; [apply internal_cstate_dec_bl|apply internal_cstate_dec_lb]. Qed.
Lemma ustate_beq_true : forall a b, ustate_beq a b = true <-> a = b.
Proof. intros a b. split; [apply internal_ustate_dec_bl|apply internal_ustate_dec_lb]. Qed.
Lemma cstate_beq_false : forall a b, a <> b -> cstate_beq a b = false.
Proof. intros a b H. destruct (cstate_beq a b) eqn:E; [|reflexivity]. apply cstate_beq_true in E. contradiction. Qed.
Lemma ustate_beq_false : forall a b, a <> b -> ustate_beq a b = false.
Proof. intros a b H. destruct (ustate_beq a b) eqn:E; [|reflexivity]. apply ustate_beq_true in E. contradiction. Qed.

Lemma enters_c_true : forall s s', k_state (k s) = CS_FLUSH_WAIT -> k_state (k s') = CS_FLUSH -> enters_c s s' = true.
Proof. intros s s' A B. unfold enters_c. rewrite A, B. reflexivity. Qed.
Lemma enters_u_true : forall s s', u_state (u s) = US_FLUSH_WAIT -> u_state (u s') = US_FLUSH -> enters_u s s' = true.
Proof. intros s s' A B. unfold enters_u. rewrite A, B. reflexivity. Qed.
Lemma enters_c_false_l : forall s s', k_state (k s) <> CS_FLUSH_WAIT -> enters_c s s' = false.
Proof. intros s s' A. unfold enters_c. rewrite (cstate_beq_false _ _ A). reflexivity. Qed.
Lemma enters_c_false_r : forall s s', k_state (k s') <> CS_FLUSH -> enters_c s s' = false.
Proof. intros s s' A. unfold enters_c. rewrite (cstate_beq_false _ _ A). apply andb_false_r. Qed.
Lemma enters_u_false_l : forall s s', u_state (u s) <> US_FLUSH_WAIT -> enters_u s s' = false.
Proof. intros s s' A. unfold enters_u. rewrite (ustate_beq_false _ _ A). reflexivity. Qed.
Lemma enters_u_false_r : forall s s', u_state (u s') <> US_FLUSH -> enters_u s s' = false.
Proof. intros s s' A. unfold enters_u. rewrite (ustate_beq_false _ _ A). apply andb_false_r. Qed.
Lemma enters_c_inv : forall s s', enters_c s s' = true -> k_state (k s) = CS_FLUSH_WAIT /\ k_state (k s') = CS_FLUSH.
Proof. intros s s' H. unfold enters_c in H. apply andb_true_iff in H. destruct H as [A B]. split; apply cstate_beq_true; assumption. Qed.
Lemma enters_u_inv : forall s s', enters_u s s' = true -> u_state (u s) = US_FLUSH_WAIT /\ u_state (u s') = US_FLUSH.
Proof. intros s s' H. unfold enters_u in H. apply andb_true_iff in H. destruct H as [A B]. split; apply ustate_beq_true; assumption. Qed.

Lemma wstate_beq_after_false : forall x, x <> WS_AFTER -> wstate_beq x WS_AFTER = false.
Proof. intros [| |] H; try reflexivity. contradiction. Qed.
Lemma upart_wstate : forall s1 s, upart s1 = upart s -> u_wstate (u s1) = u_wstate (u s).
Proof. intros s1 s H. unfold upart in H. inversion H. reflexivity. Qed.
Lemma fresh_u_upart : forall s1 s, upart s1 = upart (setu_state US_FLUSH s) -> fresh_u s -> fresh_u s1.
Proof.
  intros s1 s UP H. unfold upart in UP. inversion UP. unfold fresh_u in *.
  repeat match goal with E : _ (u s1) = _ |- _ => rewrite E; clear E end. exact H.
Qed.
Section WorldS.
Variable D : desc.
Variables ioS muS hS : Type.
Variable io_read : ioS -> ioS * option N.
Variable io_write : ioS -> N -> ioS * bool.
Variable mu_lock : muS -> muS * bool.
Variable mu_unlock : muS -> muS * bool.
Variable h_call : hS -> hreq -> hS * hres.

Local Notation world := (Fsm.world ioS muS hS).
Local Notation mkWorld := (Fsm.mkWorld ioS muS hS).
Local Notation st := (Fsm.st ioS muS hS).
Local Notation tr := (Fsm.tr ioS muS hS).
Local Notation io := (Fsm.io ioS muS hS).
Local Notation mu := (Fsm.mu ioS muS hS).
Local Notation hs := (Fsm.hs ioS muS hS).
Local Notation logw := (Fsm.logw ioS muS hS).
Local Notation upd_st := (Fsm.upd_st ioS muS hS).
Local Notation set_st := (Fsm.set_st ioS muS hS).
Local Notation set_io := (Fsm.set_io ioS muS hS).
Local Notation set_mu := (Fsm.set_mu ioS muS hS).
Local Notation set_hs := (Fsm.set_hs ioS muS hS).
Local Notation busy := (Fsm.busy ioS muS hS).
Local Notation bracket := (Fsm.bracket D ioS muS hS mu_lock mu_unlock).
Local Notation call_h := (Fsm.call_h D ioS muS hS mu_lock mu_unlock h_call).
Local Notation read_cmd_char := (Fsm.read_cmd_char ioS muS hS io_read).
Local Notation reading := (Fsm.reading ioS muS hS io_read).
Local Notation parse_write_args := (Fsm.parse_write_args D ioS muS hS mu_lock mu_unlock h_call).
Local Notation format_read_args := (Fsm.format_read_args D ioS muS hS mu_lock mu_unlock h_call).
Local Notation process_write_loop := (Fsm.process_write_loop D ioS muS hS mu_lock mu_unlock h_call).
Local Notation process_run_loop := (Fsm.process_run_loop D ioS muS hS mu_lock mu_unlock h_call).
Local Notation process_rt_loop := (Fsm.process_rt_loop D ioS muS hS mu_lock mu_unlock h_call).
Local Notation process_io_write := (Fsm.process_io_write ioS muS hS io_write).
Local Notation unsolicited_process_io_write := (Fsm.unsolicited_process_io_write ioS muS hS io_write).
Local Notation unsolicited_events_service :=
  (Fsm.unsolicited_events_service D ioS muS hS io_write mu_lock mu_unlock h_call).
Local Notation cmd_service :=
  (Fsm.cmd_service D ioS muS hS io_read io_write mu_lock mu_unlock h_call).
Local Notation service_body :=
  (Fsm.service_body D ioS muS hS io_read io_write mu_lock mu_unlock h_call).
Local Notation do_op := (Fsm.do_op D ioS muS hS io_read io_write mu_lock mu_unlock h_call).
Local Notation step := (Fsm.step D ioS muS hS io_read io_write mu_lock mu_unlock h_call).
Local Notation run := (Fsm.run D ioS muS hS io_read io_write mu_lock mu_unlock h_call).
Local Notation api_service := (Fsm.api_service D ioS muS hS io_read io_write mu_lock mu_unlock h_call).

Ltac wsimpl := cbn [Fsm.st Fsm.tr Fsm.io Fsm.mu Fsm.hs Fsm.set_st Fsm.set_io Fsm.set_mu Fsm.set_hs
                    Fsm.logw Fsm.upd_st Fsm.busy fst snd].

(* a callback (pokes, inner trigger / hold_exit calls) does not move either machine *)
Lemma call_h_NW : forall f (w : world) q, NW f (st w) -> NW f (st (fst (call_h w q))).
Proof.
  intros f w q H. destruct f.
  - destruct (call_h_fr D ioS muS hS mu_lock mu_unlock h_call true UNSOL w w q
                (wfr_refl ioS muS hS true UNSOL w)) as [(KP & _ & KS & _) _].
    exact (NW_c_kpart _ _ KP KS H).
  - destruct (call_h_fr D ioS muS hS mu_lock mu_unlock h_call true ATCMD w w q
                (wfr_refl ioS muS hS true ATCMD w)) as [[UP _] _].
    exact (NW_u_upart _ _ UP H).
Qed.

(* ---- the state functions that talk to the environment ---- *)
Ltac kcall :=
  match goal with
  | |- OK ?f ?t =>
    match t with context [call_h ?w ?q] =>
    let H := fresh "Hc" in
    assert (H : NW f (st (fst (call_h w q)))) by (apply call_h_NW; wsimpl; auto 60 with nwok);
    let E := fresh "Ec" in
    destruct (call_h w q) eqn:E; cbn [fst] in H
    end
  end.
Ltac kgo := repeat (cbv beta iota zeta; first [ kcall | ok_step ]); wsimpl; try solve [ok_solve].

Lemma reading_OK : forall (w : world) body,
  (forall ch s, NW ATCMD s -> OK ATCMD (body ch s)) ->
  NW ATCMD (st w) -> OK ATCMD (st (fst (reading w body))).
Proof.
  intros w body Hb H. unfold Fsm.reading, Fsm.read_cmd_char.
  destruct (io_read (io w)) as [io' [ch|]]; wsimpl; [|auto with nwok].
  apply Hb. ok_solve.
Qed.

Lemma parse_write_args_OK : forall w : world, NW ATCMD (st w) -> OK ATCMD (st (fst (parse_write_args w))).
Proof. intros w H. unfold Fsm.parse_write_args. kgo. Qed.
Lemma format_read_args_OK : forall f (w : world), NW f (st w) -> OK f (st (fst (format_read_args f w))).
Proof. intros f w H. unfold Fsm.format_read_args. kgo. Qed.
Lemma process_write_loop_OK : forall w : world, NW ATCMD (st w) -> OK ATCMD (st (fst (process_write_loop w))).
Proof. intros w H. unfold Fsm.process_write_loop. kgo. Qed.
Lemma process_run_loop_OK : forall w : world, NW ATCMD (st w) -> OK ATCMD (st (fst (process_run_loop w))).
Proof. intros w H. unfold Fsm.process_run_loop. kgo. Qed.
Lemma process_rt_loop_OK : forall rd f (w : world), NW f (st w) -> OK f (st (fst (process_rt_loop rd f w))).
Proof. intros rd f w H. unfold Fsm.process_rt_loop. kgo. Qed.

Lemma nw_leave_flush : forall s, NW ATCMD s -> NW ATCMD (setk_state (k_wafter (k s)) s).
Proof. intros s [A B]. split; [exact A|]. cbn. destruct (k_wafter (k s)); try discriminate A; discriminate. Qed.
Lemma nw_leave_flush_u : forall s, NW UNSOL s -> NW UNSOL (setu_state (u_wafter (u s)) s).
Proof. intros s [A B]. split; [exact A|]. cbn. destruct (u_wafter (u s)); try discriminate A; discriminate. Qed.
Hint Resolve nw_leave_flush nw_leave_flush_u : nwok.

(* ---- each machine's step keeps its own invariant ---- *)
Lemma cmd_service_OK : forall w : world, OK ATCMD (st w) -> OK ATCMD (st (fst (cmd_service w))).
Proof.
  intros w H. unfold Fsm.cmd_service.
  destruct (k_state (k (st w))) eqn:E;
    try (assert (Hn : NW ATCMD (st w)) by (destruct H as [A _]; split; [exact A|rewrite E; discriminate]));
    first [ apply parse_write_args_OK; exact Hn
          | apply format_read_args_OK; exact Hn
          | apply process_write_loop_OK; exact Hn
          | apply process_run_loop_OK; exact Hn
          | apply process_rt_loop_OK; exact Hn
          | (apply reading_OK; [ intros ch s Hs; ok_solve | exact Hn ])
          | idtac ].
  all: try solve [wsimpl; auto 60 with nwok].
  - (* CS_FLUSH_WAIT *)
    wsimpl. unfold process_io_write_wait. destruct (negb _); [|exact H].
    destruct H as [A _]. split; [exact A|]. intro X; discriminate X.
  - (* CS_FLUSH *)
    unfold Fsm.process_io_write. kgo.
Qed.

Lemma uns_service_OK : forall w : world, OK UNSOL (st w) -> OK UNSOL (st (fst (unsolicited_events_service w))).
Proof.
  intros w H. unfold Fsm.unsolicited_events_service.
  destruct (u_state (u (st w))) eqn:E;
    try (assert (Hn : NW UNSOL (st w)) by (destruct H as [A _]; split; [exact A|rewrite E; discriminate]));
    first [ apply format_read_args_OK; exact Hn
          | apply process_rt_loop_OK; exact Hn
          | idtac ].
  all: try solve [wsimpl; auto 60 with nwok].
  - (* US_IDLE *) kgo.
  - (* US_FLUSH_WAIT *)
    wsimpl. unfold unsolicited_process_io_write_wait. destruct (negb _); [|exact H].
    destruct H as [A _]. split; [exact A|]. intro X; discriminate X.
  - (* US_FLUSH *)
    unfold Fsm.unsolicited_process_io_write. kgo.
Qed.

(* ---- ... and the other machine's (frames of Lemmas_C11) ---- *)
Lemma cmd_service_OKu : forall w : world, OK UNSOL (st w) -> OK UNSOL (st (fst (cmd_service w))).
Proof.
  intros w H. apply (OK_u_upart _ (st w)); [|exact H].
  exact (C11_frame_cmd_proof D ioS muS hS io_read io_write mu_lock mu_unlock h_call w).
Qed.
Lemma uns_service_OKc : forall w : world, OK ATCMD (st w) -> OK ATCMD (st (fst (unsolicited_events_service w))).
Proof.
  intros w H.
  destruct (C11_frame_uns_proof D ioS muS hS io_write mu_lock mu_unlock h_call w) as [KP KS]. cbv zeta in KP, KS.
  exact (OK_c_kpart _ _ KP KS H).
Qed.

Definition Winv (s : state) : Prop := OK ATCMD s /\ OK UNSOL s.

Lemma Winv_service_body : forall w : world, Winv (st w) -> Winv (st (fst (service_body w))).
Proof.
  intros w [A B]. rewrite (service_body_fst D ioS muS hS io_read io_write mu_lock mu_unlock h_call).
  split.
  - apply cmd_service_OK. apply uns_service_OKc. exact A.
  - apply cmd_service_OKu. apply uns_service_OK. exact B.
Qed.

Lemma Winv_step : forall (w : world) o, Winv (st w) -> Winv (st (step w o)).
Proof.
  intros w o X. unfold Fsm.step.
  assert (G : Winv (st (fst (do_op w o)))).
  { destruct (op_eq_service o) as [E|E].
    - subst o. cbn [Fsm.do_op]. unfold Fsm.api_service, Fsm.bracket.
      destruct (d_mutex D); [|apply Winv_service_body; exact X].
      destruct (mu_lock (mu w)) as [m1 ok]. destruct ok; cbn [negb]; [|exact X].
      pose proof (Winv_service_body (logw (ELock true) (set_mu m1 w)) X) as G.
      destruct (service_body (logw (ELock true) (set_mu m1 w))) as [w2 r]. cbn [fst] in G.
      destruct (mu_unlock (mu w2)) as [m2 ok2]. destruct ok2; exact G.
    - destruct (other_op_fr D ioS muS hS io_read io_write mu_lock mu_unlock h_call true ATCMD w o E) as [[U _] _].
      destruct (other_op_fr D ioS muS hS io_read io_write mu_lock mu_unlock h_call true UNSOL w o E) as [(KP & _ & KS & _) _].
      destruct X as [A B]. split.
      + apply (OK_c_kpart _ (st w)); [exact KP|left; exact KS|exact A].
      + apply (OK_u_upart _ (st w)); [exact U|exact B]. }
  destruct (do_op w o) as [w' r]. exact G.
Qed.

Lemma Winv_init : forall m, Winv (init_state D m).
Proof. intros m. split; (split; [reflexivity|intro X; discriminate X]). Qed.

Lemma Winv_run : forall (w : world) ops, Winv (st w) -> Winv (st (run w ops)).
Proof.
  intros w ops. revert w. induction ops as [|o ops IH]; intros w H; [exact H|].
  cbn [Fsm.run fold_left]. apply IH. apply Winv_step. exact H.
Qed.

(* P1: the wait states have a fresh cursor, in every state of every history from cat_init *)
Theorem C11_wait_is_fresh_proof : forall m x mx h ops,
  let s := st (run (mkWorld (init_state D m) x mx h []) ops) in
  (k_state (k s) = CS_FLUSH_WAIT ->
     k_position (k s) = 0 /\
     ((k_wstate (k s) = WS_BEFORE /\ k_wbuf (k s) = WB_NL (k_cr (k s))) \/
      (k_wstate (k s) = WS_AFTER /\ k_wbuf (k s) = WB_MAIN))) /\
  (u_state (u s) = US_FLUSH_WAIT ->
     u_position (u s) = 0 /\ u_wstate (u s) = WS_BEFORE /\ exists cr, u_wbuf (u s) = WB_NL cr).
Proof.
  intros m x mx h ops s.
  destruct (Winv_run (mkWorld (init_state D m) x mx h []) ops (Winv_init m)) as [[_ A] [_ B]].
  split; [exact A|exact B].
Qed.

(* the continuation of a flush is never a flush state: a finished session is not replayed *)
Theorem C11_continuations_proof : forall m x mx h ops,
  let s := st (run (mkWorld (init_state D m) x mx h []) ops) in
  wafter_ok_c (k_wafter (k s)) = true /\ wafter_ok_u (u_wafter (u s)) = true.
Proof.
  intros m x mx h ops s.
  destruct (Winv_run (mkWorld (init_state D m) x mx h []) ops (Winv_init m)) as [[A _] [B _]].
  split; [exact A|exact B].
Qed.

(* ================================================================== *)
(* 2. FLUSH is entered only from FLUSH_WAIT; FLUSH_WAIT is left only    *)
(*    to FLUSH, the prepared unit untouched                             *)
(* ================================================================== *)
Local Notation L_frame_cmd := (C11_frame_cmd_proof D ioS muS hS io_read io_write mu_lock mu_unlock h_call).
Local Notation L_frame_uns := (C11_frame_uns_proof D ioS muS hS io_write mu_lock mu_unlock h_call).
Local Notation L_frame_uns_nohold := (C11_frame_uns_nohold_proof D ioS muS hS io_write mu_lock mu_unlock h_call).
Local Notation L_body_fst := (service_body_fst D ioS muS hS io_read io_write mu_lock mu_unlock h_call).
Local Notation L_cmd_fr := (cmd_service_fr D ioS muS hS io_read io_write mu_lock mu_unlock h_call).
Local Notation L_uns_fr := (uns_service_fr D ioS muS hS io_write mu_lock mu_unlock h_call).
Local Notation L_cmd_wait := (cmd_service_wait D ioS muS hS io_read io_write mu_lock mu_unlock h_call).
Local Notation L_uns_wait := (uns_service_wait D ioS muS hS io_write mu_lock mu_unlock h_call).
Local Notation L_other := (other_op_fr D ioS muS hS io_read io_write mu_lock mu_unlock h_call).
Local Notation L_one_writer := (C11_one_writer_proof D ioS muS hS io_read io_write mu_lock mu_unlock h_call).
Local Notation L_nohyp := (no_hyp_false hS h_call).
Local Notation no_uns_hold := (Lemmas_C11.no_uns_hold hS h_call).

Lemma ustate_eq_dec : forall a b : ustate, {a = b} + {a <> b}.
Proof. decide equality. Qed.
Lemma cstate_eq_dec : forall a b : cstate, {a = b} + {a <> b}.
Proof. decide equality. Qed.

(* the event machine's step *)
Lemma uns_enter : forall w : world,
  let w1 := fst (unsolicited_events_service w) in
  u_state (u (st w1)) = US_FLUSH -> u_state (u (st w)) <> US_FLUSH ->
  u_state (u (st w)) = US_FLUSH_WAIT /\ k_state (k (st w)) <> CS_FLUSH /\
  st w1 = setu_state US_FLUSH (st w).
Proof.
  intros w w1 F' NF. subst w1.
  destruct (ustate_wait_dec (u_state (u (st w)))) as [W|W].
  - rewrite L_uns_wait in * by exact W. cbn [fst Fsm.st Fsm.set_st] in *.
    destruct (C11_wait_uns_proof (st w) W) as (I & E1 & E2).
    destruct (cstate_flush_dec (k_state (k (st w)))) as [C|C].
    + rewrite (E2 C) in F'. contradiction.
    + split; [exact W|]. split; [exact C|]. exact (E1 C).
  - exfalso. destruct (L_uns_fr false L_nohyp w NF W) as [(_ & H2 & _) _]. apply NF. apply H2. exact F'.
Qed.

Lemma uns_wait_stays : forall w : world,
  let w1 := fst (unsolicited_events_service w) in
  u_state (u (st w)) = US_FLUSH_WAIT ->
  st w1 = st w \/ (k_state (k (st w)) <> CS_FLUSH /\ st w1 = setu_state US_FLUSH (st w)).
Proof.
  intros w w1 W. subst w1. rewrite L_uns_wait by exact W. cbn [fst Fsm.st Fsm.set_st].
  destruct (C11_wait_uns_proof (st w) W) as (_ & E1 & E2).
  destruct (cstate_flush_dec (k_state (k (st w)))) as [C|C]; [left; exact (E2 C)|right].
  split; [exact C|exact (E1 C)].
Qed.

(* the command machine's step *)
Lemma cmd_enter : forall w : world,
  let w2 := fst (cmd_service w) in
  k_state (k (st w2)) = CS_FLUSH -> k_state (k (st w)) <> CS_FLUSH ->
  k_state (k (st w)) = CS_FLUSH_WAIT /\ u_state (u (st w)) <> US_FLUSH /\
  st w2 = setk_state CS_FLUSH (st w).
Proof.
  intros w w2 F' NF. subst w2.
  destruct (cstate_wait_dec (k_state (k (st w)))) as [W|W].
  - rewrite L_cmd_wait in * by exact W. cbn [fst Fsm.st Fsm.set_st] in *.
    destruct (C11_wait_cmd_proof (st w) W) as (I & E1 & E2).
    destruct (ustate_flush_dec (u_state (u (st w)))) as [C|C].
    + rewrite (E2 C) in F'. contradiction.
    + split; [exact W|]. split; [exact C|]. exact (E1 C).
  - exfalso. destruct (L_cmd_fr false L_nohyp w NF W) as [(_ & H2) _]. apply NF. apply H2. exact F'.
Qed.

Lemma cmd_wait_stays : forall w : world,
  let w2 := fst (cmd_service w) in
  k_state (k (st w)) = CS_FLUSH_WAIT ->
  st w2 = st w \/ (u_state (u (st w)) <> US_FLUSH /\ st w2 = setk_state CS_FLUSH (st w)).
Proof.
  intros w w2 W. subst w2. rewrite L_cmd_wait by exact W. cbn [fst Fsm.st Fsm.set_st].
  destruct (C11_wait_cmd_proof (st w) W) as (_ & E1 & E2).
  destruct (ustate_flush_dec (u_state (u (st w)))) as [C|C]; [left; exact (E2 C)|right].
  split; [exact C|exact (E1 C)].
Qed.

Lemma upart_u_state : forall s1 s, upart s1 = upart s -> u_state (u s1) = u_state (u s).
Proof. intros s1 s H. unfold upart in H. inversion H. reflexivity. Qed.

(* one cat_service body: entries into the two FLUSH states (no hypothesis on the oracles) *)
Lemma body_enter_u : forall w : world,
  let w' := fst (service_body w) in
  u_state (u (st w')) = US_FLUSH -> u_state (u (st w)) <> US_FLUSH ->
  u_state (u (st w)) = US_FLUSH_WAIT /\ k_state (k (st w)) <> CS_FLUSH /\
  upart (st w') = upart (setu_state US_FLUSH (st w)).
Proof.
  intros w w' F' NF. subst w'. rewrite L_body_fst in *.
  set (w1 := fst (unsolicited_events_service w)) in *.
  pose proof (L_frame_cmd w1) as U. rewrite (upart_u_state _ _ U) in F'.
  destruct (uns_enter w F' NF) as (W & C & E). fold w1 in E.
  split; [exact W|]. split; [exact C|]. rewrite U, E. reflexivity.
Qed.

Lemma body_enter_c : forall w : world,
  let w' := fst (service_body w) in
  k_state (k (st w')) = CS_FLUSH -> k_state (k (st w)) <> CS_FLUSH ->
  k_state (k (st w)) = CS_FLUSH_WAIT /\ u_state (u (st w')) <> US_FLUSH /\
  kpart (st w') = kpart (st w).
Proof.
  intros w w' F' NF. subst w'. rewrite L_body_fst in *.
  set (w1 := fst (unsolicited_events_service w)) in *.
  destruct (L_frame_uns w) as [KP KS]. cbv zeta in KP, KS. fold w1 in KP, KS.
  assert (NF1 : k_state (k (st w1)) <> CS_FLUSH) by (destruct KS as [KS|KS]; congruence).
  destruct (cmd_enter w1 F' NF1) as (W & C & E).
  split; [destruct KS as [KS|KS]; congruence|].
  split; [rewrite (upart_u_state _ _ (L_frame_cmd w1)); exact C|].
  rewrite E. exact KP.
Qed.

(* one cat_service body: what happens to a machine that waits for the channel *)
Lemma body_wait_u : forall w : world,
  let w' := fst (service_body w) in
  u_state (u (st w)) = US_FLUSH_WAIT ->
  upart (st w') = upart (st w) \/
  (k_state (k (st w)) <> CS_FLUSH /\ upart (st w') = upart (setu_state US_FLUSH (st w))).
Proof.
  intros w w' W. subst w'. rewrite L_body_fst.
  set (w1 := fst (unsolicited_events_service w)).
  pose proof (L_frame_cmd w1) as U. rewrite U.
  destruct (uns_wait_stays w W) as [E|[C E]]; fold w1 in E; rewrite E; [left|right]; auto.
Qed.

Lemma body_wait_c : no_uns_hold -> forall w : world,
  let w' := fst (service_body w) in
  k_state (k (st w)) = CS_FLUSH_WAIT ->
  kpart (st w') = kpart (st w) /\
  (k_state (k (st w')) = CS_FLUSH_WAIT \/ k_state (k (st w')) = CS_FLUSH).
Proof.
  intros Hn w w' W. subst w'. rewrite L_body_fst.
  set (w1 := fst (unsolicited_events_service w)).
  destruct (L_frame_uns_nohold Hn w) as (KP & KS & _). cbv zeta in KP, KS. fold w1 in KP, KS.
  assert (W1 : k_state (k (st w1)) = CS_FLUSH_WAIT) by congruence.
  destruct (cmd_wait_stays w1 W1) as [E|[C E]]; rewrite E.
  - split; [exact KP|left; exact W1].
  - split; [exact KP|right; reflexivity].
Qed.

(* ---- from the service body to any API operation ---- *)
(* an operation either runs one service body (between events that are not writes) or leaves both
   machines' registers, buffers and states alone and writes nothing *)
Lemma step_cases : forall (w : world) o,
  (exists w1 post, st w1 = st w /\ (exists pre, tr w1 = pre ++ tr w /\ nowr pre = true) /\
     st (step w o) = st (fst (service_body w1)) /\
     tr (step w o) = post ++ tr (fst (service_body w1)) /\ nowr post = true) \/
  (kpart (st (step w o)) = kpart (st w) /\ k_state (k (st (step w o))) = k_state (k (st w)) /\
   upart (st (step w o)) = upart (st w) /\
   exists evs, tr (step w o) = evs ++ tr w /\ nowr evs = true).
Proof.
  intros w o. unfold Fsm.step. destruct (op_eq_service o) as [E|E].
  - subst o. cbn [Fsm.do_op]. unfold Fsm.api_service, Fsm.bracket.
    destruct (d_mutex D).
    + destruct (mu_lock (mu w)) as [m1 ok]. destruct ok; cbn [negb].
      * left. set (w1 := logw (ELock true) (set_mu m1 w)).
        destruct (service_body w1) as [w2 r] eqn:Eb.
        destruct (mu_unlock (mu w2)) as [m2 ok2].
        exists w1. exists [ERet OService (if ok2 then r else ST_MUTEX_UNLOCK); EUnlock ok2].
        rewrite Eb.
        split; [reflexivity|]. split; [exists [ELock true]; split; reflexivity|].
        cbn [fst]. destruct ok2; cbn [negb Fsm.logw Fsm.st Fsm.tr Fsm.set_mu]; repeat split; reflexivity.
      * right. cbn [Fsm.logw Fsm.st Fsm.tr Fsm.set_mu]. repeat split; try reflexivity.
        exists [ERet OService ST_MUTEX_LOCK; ELock false]. split; reflexivity.
    + left. destruct (service_body w) as [w2 r] eqn:Eb. exists w, [ERet OService r]. rewrite Eb.
      split; [reflexivity|]. split; [exists []; split; reflexivity|].
      cbn [fst Fsm.logw Fsm.st Fsm.tr]. repeat split; reflexivity.
  - right.
    destruct (L_other true ATCMD w o E) as [[U _] (evs & T & Nw)].
    destruct (L_other true UNSOL w o E) as [(KP & _ & KS & _) _].
    destruct (do_op w o) as [w' r]. cbn [fst] in *. cbn [Fsm.logw Fsm.st Fsm.tr].
    split; [exact KP|]. split; [exact KS|]. split; [exact U|].
    exists (ERet o r :: evs). split; [rewrite T; reflexivity|].
    change (ERet o r :: evs) with ([ERet o r] ++ evs). rewrite nowr_app, Nw. reflexivity.
Qed.

Lemma kpart_remaining : forall s1 s, kpart s1 = kpart s -> remaining s1 = remaining s.
Proof. intros s1 s H. exact (proj1 (remaining_kpart s1 s H)). Qed.

(* any operation: entries into the two FLUSH states *)
Lemma step_enter_u : forall (w : world) o,
  u_state (u (st (step w o))) = US_FLUSH -> u_state (u (st w)) <> US_FLUSH ->
  u_state (u (st w)) = US_FLUSH_WAIT /\ k_state (k (st w)) <> CS_FLUSH /\
  upart (st (step w o)) = upart (setu_state US_FLUSH (st w)).
Proof.
  intros w o F' NF.
  destruct (step_cases w o) as [(w1 & post & S1 & _ & S2 & _) | (_ & _ & U & _)].
  - rewrite S2 in *. rewrite <- S1 in *. apply body_enter_u; assumption.
  - exfalso. rewrite (upart_u_state _ _ U) in F'. contradiction.
Qed.

Lemma step_enter_c : forall (w : world) o,
  k_state (k (st (step w o))) = CS_FLUSH -> k_state (k (st w)) <> CS_FLUSH ->
  k_state (k (st w)) = CS_FLUSH_WAIT /\ u_state (u (st (step w o))) <> US_FLUSH /\
  kpart (st (step w o)) = kpart (st w).
Proof.
  intros w o F' NF.
  destruct (step_cases w o) as [(w1 & post & S1 & _ & S2 & _) | (_ & KS & _ & _)].
  - rewrite S2 in *. rewrite <- S1 in *. apply body_enter_c; assumption.
  - exfalso. congruence.
Qed.

Lemma step_wait_u : forall (w : world) o,
  u_state (u (st w)) = US_FLUSH_WAIT ->
  upart (st (step w o)) = upart (st w) \/
  (k_state (k (st w)) <> CS_FLUSH /\ upart (st (step w o)) = upart (setu_state US_FLUSH (st w))).
Proof.
  intros w o W.
  destruct (step_cases w o) as [(w1 & post & S1 & _ & S2 & _) | (_ & _ & U & _)].
  - rewrite S2. rewrite <- S1 in *. apply body_wait_u; assumption.
  - left. exact U.
Qed.

Lemma step_wait_c : no_uns_hold -> forall (w : world) o,
  k_state (k (st w)) = CS_FLUSH_WAIT ->
  kpart (st (step w o)) = kpart (st w) /\
  (k_state (k (st (step w o))) = CS_FLUSH_WAIT \/ k_state (k (st (step w o))) = CS_FLUSH).
Proof.
  intros Hn w o W.
  destruct (step_cases w o) as [(w1 & post & S1 & _ & S2 & _) | (KP & KS & _ & _)].
  - rewrite S2. rewrite <- S1 in *. apply body_wait_c; assumption.
  - split; [exact KP|left; congruence].
Qed.

(* while neither machine owns the channel, nothing is written *)
Lemma step_idle_nowr : forall (w : world) o,
  k_state (k (st w)) <> CS_FLUSH -> u_state (u (st w)) <> US_FLUSH ->
  exists evs, tr (step w o) = evs ++ tr w /\ accepted_wr (rev evs) = [].
Proof.
  intros w o NK NU.
  destruct (step_cases w o) as [(w1 & post & S1 & (pre & T1 & N1) & S2 & T2 & N2) | (_ & _ & _ & evs & T & Nw)].
  - assert (X : excl (st w1)) by (rewrite S1; intros [A _]; contradiction).
    destruct (L_one_writer w1 X) as (evs & T & Wr).
    exists (post ++ evs ++ pre). split; [rewrite T2, T, T1, <- !app_assoc; reflexivity|].
    rewrite !rev_app_distr, !accepted_wr_app, (accepted_wr_nowr _ N1), (accepted_wr_nowr _ N2).
    cbn [app]. rewrite app_nil_r. apply writes_nil_accepted.
    destruct Wr as [Wr | [(ch & ok & rest & _ & F & _) | (ch & ok & rest & _ & F & _)]]; [exact Wr| |];
      exfalso; rewrite S1 in F; contradiction.
  - exists evs. split; [exact T|apply accepted_wr_nowr; exact Nw].
Qed.

(* ================================================================== *)
(* 3b. the stream invariant along a history                             *)
(* ================================================================== *)
Local Notation L_session_op := (session_op_step D ioS muS hS io_read io_write mu_lock mu_unlock h_call).
Local Notation L_uns_session_op := (uns_session_op D ioS muS hS io_read io_write mu_lock mu_unlock h_call).
Local Notation L_step_excl := (step_excl D ioS muS hS io_read io_write mu_lock mu_unlock h_call).
Local Notation L_run_snoc := (Lemmas_C11.run_snoc D ioS muS hS io_read io_write mu_lock mu_unlock h_call).

(* the flush sessions opened along a history, in order, and the units they emit *)
Fixpoint starts (w : world) (ops : list op) : list (fsm * state) :=
  match ops with
  | [] => []
  | o :: ops' => new_starts (st w) (st (step w o)) ++ starts (step w o) ops'
  end.
Definition started (w : world) (ops : list op) : list (fsm * list N) := map unit_of (starts w ops).

Lemma starts_snoc : forall ops (w : world) o,
  starts w (ops ++ [o]) = starts w ops ++ new_starts (st (run w ops)) (st (step (run w ops) o)).
Proof.
  induction ops as [|a ops IH]; intros w o; cbn [app starts Fsm.run fold_left].
  - rewrite app_nil_r. reflexivity.
  - rewrite IH, app_assoc. reflexivity.
Qed.

Lemma acc_step : forall (w w' : world) evs, tr w' = evs ++ tr w ->
  accepted_wr (rev (tr w')) = accepted_wr (rev (tr w)) ++ accepted_wr (rev evs).
Proof. intros w w' evs T. rewrite T, rev_app_distr, accepted_wr_app. reflexivity. Qed.

Lemma stream_inv_step : no_uns_hold -> forall (w : world) o units,
  Winv (st w) -> excl (st w) ->
  stream_inv (st w) (accepted_wr (rev (tr w))) units ->
  stream_inv (st (step w o)) (accepted_wr (rev (tr (step w o))))
             (units ++ map unit_of (new_starts (st w) (st (step w o)))).
Proof.
  intros Hn w o units [Wc Wu] X SI.
  pose proof (L_step_excl w o X) as X'.
  pose proof (step_enter_c w o) as EC. pose proof (step_enter_u w o) as EU0.
  set (w' := step w o) in *.
  destruct SI as [(FK & NU & units' & U & crs & bytes & EU & L & A & R)
                 |[(FU & NK & units' & U & crs & bytes & EU & L & A & R)
                 |(NK & NU & crs & L & A)]].
  - (* the command machine owns the channel *)
    destruct (L_session_op Hn w o FK NU) as (e2 & b2 & T2 & A2 & R2 & _ & NU' & K2).
    fold w' in T2, R2, NU', K2.
    rewrite (acc_step _ _ _ T2), A, A2.
    assert (NS : new_starts (st w) (st w') = []).
    { unfold new_starts. rewrite (enters_u_false_r _ _ NU').
      rewrite (enters_c_false_l (st w) (st w')) by (rewrite FK; discriminate). reflexivity. }
    rewrite NS. cbn [map]. rewrite app_nil_r.
    destruct (cstate_flush_dec (k_state (k (st w')))) as [FK'|NK'].
    + left. split; [exact FK'|]. split; [exact NU'|]. exists units', U, crs, (bytes ++ b2).
      split; [exact EU|]. split; [exact L|]. split; [rewrite map_app, app_assoc; reflexivity|].
      rewrite <- app_assoc, R2. exact R.
    + right. right. split; [exact NK'|]. split; [exact NU'|].
      destruct K2 as [K2|[_ K3]]; [contradiction|].
      assert (E : bytes ++ b2 = U) by (rewrite K3, app_nil_r in R2; rewrite R2; exact R).
      exists (crs ++ [false]). split; [rewrite EU, !app_length, L; reflexivity|].
      rewrite EU, stream_snoc by exact L. unfold unit_bytes; cbn [fst snd].
      rewrite <- E, map_app, app_assoc. reflexivity.
  - (* the event machine owns the channel *)
    destruct (L_uns_session_op w o FU NK) as (e2 & b2 & T2 & A2 & (W2 & R2)).
    fold w' in T2, W2, R2.
    rewrite (acc_step _ _ _ T2), A, A2.
    assert (NEU : enters_u (st w) (st w') = false)
      by (apply enters_u_false_l; rewrite FU; discriminate).
    destruct (ustate_flush_dec (u_state (u (st w')))) as [FU'|NU'].
    + assert (NK' : k_state (k (st w')) <> CS_FLUSH) by (intro K; apply X'; split; assumption).
      assert (NS : new_starts (st w) (st w') = []).
      { unfold new_starts. rewrite NEU, (enters_c_false_r _ _ NK'). reflexivity. }
      rewrite NS. cbn [map]. rewrite app_nil_r.
      right. left. split; [exact FU'|]. split; [exact NK'|]. exists units', U, crs, (bytes ++ b2).
      split; [exact EU|]. split; [exact L|]. split; [rewrite map_app, app_assoc; reflexivity|].
      destruct R2 as [(_ & NA & NA' & R2) | [(_ & M & IA' & B2 & R2 & R2') | (IA & IA' & R2 & _)]].
      * rewrite (wstate_beq_after_false _ NA) in R. rewrite (wstate_beq_after_false _ NA').
        rewrite <- app_assoc, R2. exact R.
      * rewrite M in R. cbn [wstate_beq] in R. rewrite IA'. cbn [wstate_beq].
        exists (k_cr (k (st w))). subst b2. rewrite R2, app_nil_r in R. rewrite app_nil_r, R2', R. reflexivity.
      * rewrite IA in R. cbn [wstate_beq] in R. rewrite IA'. cbn [wstate_beq].
        destruct R as [cr1 R]. exists cr1. rewrite <- app_assoc, R2. exact R.
    + destruct R2 as [(F2 & _) | [(F2 & _) | (IA & IA' & R2 & S2)]]; try contradiction.
      destruct S2 as [S2|[_ R0]]; [contradiction|].
      rewrite IA in R. cbn [wstate_beq] in R. destruct R as [cr1 R].
      assert (E : bytes ++ b2 = U ++ nl_text cr1) by (rewrite R0, app_nil_r in R2; rewrite R2; exact R).
      assert (Lc : length (crs ++ [cr1]) = length units)
        by (rewrite EU, !app_length, L; reflexivity).
      assert (Ac : stream units' crs ++ map (pair UNSOL) bytes ++ map (pair UNSOL) b2 =
                   stream units (crs ++ [cr1])).
      { rewrite EU, stream_snoc by exact L. unfold unit_bytes; cbn [fst snd].
        rewrite <- E, map_app. reflexivity. }
      rewrite <- app_assoc, Ac.
      destruct (cstate_flush_dec (k_state (k (st w')))) as [FK'|NK'].
      * destruct (EC FK' NK) as (WK & _ & _).
        assert (NS : new_starts (st w) (st w') = [(ATCMD, st w')]).
        { unfold new_starts. rewrite NEU, (enters_c_true _ _ WK FK'). reflexivity. }
        rewrite NS. cbn [map unit_of fst snd].
        left. split; [exact FK'|]. split; [exact NU'|].
        exists units, (remaining (st w')), (crs ++ [cr1]), [].
        split; [reflexivity|]. split; [exact Lc|]. split; [cbn [map]; rewrite app_nil_r; reflexivity|].
        reflexivity.
      * assert (NS : new_starts (st w) (st w') = []).
        { unfold new_starts. rewrite NEU, (enters_c_false_r _ _ NK'). reflexivity. }
        rewrite NS. cbn [map]. rewrite app_nil_r.
        right. right. split; [exact NK'|]. split; [exact NU'|]. exists (crs ++ [cr1]).
        split; [exact Lc|reflexivity].
  - (* nobody owns the channel *)
    destruct (step_idle_nowr w o NK NU) as (e2 & T2 & A2). fold w' in T2.
    rewrite (acc_step _ _ _ T2), A2, app_nil_r, A.
    destruct (cstate_flush_dec (k_state (k (st w')))) as [FK'|NK'].
    + destruct (EC FK' NK) as (WK & NU' & _).
      assert (NS : new_starts (st w) (st w') = [(ATCMD, st w')]).
      { unfold new_starts. rewrite (enters_u_false_r _ _ NU'), (enters_c_true _ _ WK FK'). reflexivity. }
      rewrite NS. cbn [map unit_of fst snd].
      left. split; [exact FK'|]. split; [exact NU'|].
      exists units, (remaining (st w')), crs, [].
      split; [reflexivity|]. split; [exact L|]. split; [cbn [map]; rewrite app_nil_r; reflexivity|].
      reflexivity.
    + destruct (ustate_flush_dec (u_state (u (st w')))) as [FU'|NU'].
      * destruct (EU0 FU' NU) as (WU & _ & UP).
        assert (NS : new_starts (st w) (st w') = [(UNSOL, st w')]).
        { unfold new_starts. rewrite (enters_u_true _ _ WU FU'), (enters_c_false_r _ _ NK'). reflexivity. }
        rewrite NS. cbn [map unit_of fst snd].
        right. left. split; [exact FU'|]. split; [exact NK'|].
        exists units, (remaining_u (st w')), crs, [].
        split; [reflexivity|]. split; [exact L|]. split; [cbn [map]; rewrite app_nil_r; reflexivity|].
        destruct Wu as [_ Wu]. destruct (Wu WU) as (_ & B & _).
        rewrite (upart_wstate _ _ UP). change (u_wstate (u (setu_state US_FLUSH (st w)))) with (u_wstate (u (st w))).
        rewrite B. reflexivity.
      * assert (NS : new_starts (st w) (st w') = []).
        { unfold new_starts. rewrite (enters_u_false_r _ _ NU'), (enters_c_false_r _ _ NK'). reflexivity. }
        rewrite NS. cbn [map]. rewrite app_nil_r.
        right. right. split; [exact NK'|]. split; [exact NU'|]. exists crs. split; [exact L|reflexivity].
Qed.

Lemma excl_run : forall (w : world) ops, excl (st w) -> excl (st (run w ops)).
Proof.
  intros w ops. revert w. induction ops as [|o ops IH]; intros w H; [exact H|].
  cbn [Fsm.run fold_left]. apply IH. apply L_step_excl. exact H.
Qed.

Lemma stream_inv_run : no_uns_hold -> forall m x mx h ops,
  let w0 := mkWorld (init_state D m) x mx h [] in
  stream_inv (st (run w0 ops)) (accepted_wr (rev (tr (run w0 ops)))) (started w0 ops).
Proof.
  intros Hn m x mx h ops w0. induction ops as [|o ops IH] using rev_ind.
  - right. right. cbn. split; [discriminate|]. split; [discriminate|]. exists []. split; reflexivity.
  - unfold started. rewrite starts_snoc, map_app, L_run_snoc.
    apply stream_inv_step; [exact Hn| | |exact IH].
    + apply Winv_run. apply Winv_init.
    + apply excl_run. intros [A _]. discriminate A.
Qed.

(* P2: the accepted output of a history that ends with the channel free is the concatenation of
   the units started, in order of start *)
Theorem C11_stream_proof : no_uns_hold -> forall m x mx h ops,
  let w0 := mkWorld (init_state D m) x mx h [] in
  let w := run w0 ops in
  k_state (k (st w)) <> CS_FLUSH -> u_state (u (st w)) <> US_FLUSH ->
  exists crs, length crs = length (started w0 ops) /\
    accepted_wr (hist ioS muS hS w) = stream (started w0 ops) crs.
Proof.
  intros Hn m x mx h ops w0 w NK NU. unfold hist.
  destruct (stream_inv_run Hn m x mx h ops) as [(FK & _) | [(FU & _) | (_ & _ & H)]]; try contradiction.
  exact H.
Qed.

(* every session opened in a history emits a whole unit (no hypothesis on the oracles) *)
Lemma new_starts_whole : forall (w : world) o, Winv (st w) ->
  Forall whole_unit (new_starts (st w) (st (step w o))).
Proof.
  intros w o [[_ Wc] [_ Wu]]. unfold new_starts. apply Forall_app. split.
  - destruct (enters_u (st w) (st (step w o))) eqn:E; [|constructor].
    apply enters_u_inv in E. destruct E as [WU FU'].
    destruct (step_enter_u w o FU') as (_ & _ & UP); [rewrite WU; discriminate|].
    constructor; [|constructor]. unfold whole_unit; cbn [fst snd].
    apply fresh_u_remaining. apply (fresh_u_upart _ _ UP). exact (Wu WU).
  - destruct (enters_c (st w) (st (step w o))) eqn:E; [|constructor].
    apply enters_c_inv in E. destruct E as [WK FK'].
    destruct (step_enter_c w o FK') as (_ & _ & KP); [rewrite WK; discriminate|].
    constructor; [|constructor]. unfold whole_unit; cbn [fst snd].
    apply fresh_c_remaining. apply (fresh_c_kpart _ _ KP). exact (Wc WK).
Qed.

Lemma starts_whole_gen : forall ops (w : world), Winv (st w) -> Forall whole_unit (starts w ops).
Proof.
  induction ops as [|o ops IH]; intros w H; cbn [starts]; [constructor|].
  apply Forall_app. split; [apply new_starts_whole; exact H|]. apply IH. apply Winv_step. exact H.
Qed.

Theorem C11_starts_whole_proof : forall m x mx h ops,
  Forall whole_unit (starts (mkWorld (init_state D m) x mx h []) ops).
Proof. intros. apply starts_whole_gen. apply Winv_init. Qed.

(* at most one session is opened by an operation *)
Lemma new_starts_one : forall s s', excl s' -> length (new_starts s s') <= 1.
Proof.
  intros s s' X. unfold new_starts.
  destruct (enters_u s s') eqn:E1; destruct (enters_c s s') eqn:E2; cbn; try lia.
  exfalso. apply enters_u_inv in E1. apply enters_c_inv in E2. apply X. split; [apply E2|apply E1].
Qed.
End WorldS.

(* ================================================================== *)
(* 4. per-producer reading of the stream equality                       *)
(* ================================================================== *)
Definition proj (f : fsm) (l : list (fsm * N)) : list N :=
  map snd (filter (fun p => fsm_beq (fst p) f) l).
Definition units_of (f : fsm) (units : list (fsm * list N)) : list (fsm * list N) :=
  filter (fun x => fsm_beq (fst x) f) units.

Lemma proj_app : forall f a b, proj f (a ++ b) = proj f a ++ proj f b.
Proof. intros. unfold proj. rewrite filter_app, map_app. reflexivity. Qed.
Lemma proj_tagged : forall f g l, proj f (map (pair g) l) = if fsm_beq g f then l else [].
Proof.
  intros f g l. unfold proj. induction l as [|c l IH]; cbn [map filter fst].
  - destruct (fsm_beq g f); reflexivity.
  - destruct (fsm_beq g f); cbn [map snd]; [f_equal|]; exact IH.
Qed.
Lemma stream_cons : forall x units c crs, stream (x :: units) (c :: crs) = unit_bytes x c ++ stream units crs.
Proof. reflexivity. Qed.

Lemma proj_stream_cmd : forall units crs, length crs = length units ->
  proj ATCMD (stream units crs) = concat (map snd (units_of ATCMD units)).
Proof.
  induction units as [|x units IH]; intros [|c crs] L; cbn [length] in L; try discriminate; [reflexivity|].
  rewrite stream_cons, proj_app, IH by (injection L as L; exact L).
  unfold unit_bytes. rewrite proj_tagged. destruct x as [[|] bs]; cbn [fst snd units_of filter fsm_beq map concat]; reflexivity.
Qed.

Lemma proj_stream_uns : forall units crs, length crs = length units ->
  exists ucrs, length ucrs = length (units_of UNSOL units) /\
  proj UNSOL (stream units crs) =
    concat (map (fun p => snd (fst p) ++ nl_text (snd p)) (combine (units_of UNSOL units) ucrs)).
Proof.
  induction units as [|x units IH]; intros [|c crs] L; cbn [length] in L; try discriminate.
  - exists []. split; reflexivity.
  - destruct (IH crs) as (ucrs & Lu & E); [injection L as L; exact L|].
    rewrite stream_cons, proj_app, E. unfold unit_bytes. rewrite proj_tagged.
    destruct x as [[|] bs]; cbn [fst snd units_of filter fsm_beq].
    + exists ucrs. split; [exact Lu|reflexivity].
    + exists (c :: ucrs). split; [cbn [length]; f_equal; exact Lu|reflexivity].
Qed.

Section StreamCor.
Variable D : desc.
Variables ioS muS hS : Type.
Variable io_read : ioS -> ioS * option N.
Variable io_write : ioS -> N -> ioS * bool.
Variable mu_lock : muS -> muS * bool.
Variable mu_unlock : muS -> muS * bool.
Variable h_call : hS -> hreq -> hS * hres.
Local Notation mkWorld := (Fsm.mkWorld ioS muS hS).
Local Notation st := (Fsm.st ioS muS hS).
Local Notation run := (Fsm.run D ioS muS hS io_read io_write mu_lock mu_unlock h_call).
Local Notation started := (started D ioS muS hS io_read io_write mu_lock mu_unlock h_call).
Local Notation starts := (starts D ioS muS hS io_read io_write mu_lock mu_unlock h_call).
Local Notation no_uns_hold := (Lemmas_C11.no_uns_hold hS h_call).

(* each producer's bytes are its own units, in its own order *)
Theorem C11_stream_per_producer_proof : no_uns_hold -> forall m x mx h ops,
  let w0 := mkWorld (init_state D m) x mx h [] in
  let w := run w0 ops in
  k_state (k (st w)) <> CS_FLUSH -> u_state (u (st w)) <> US_FLUSH ->
  proj ATCMD (accepted_wr (hist ioS muS hS w)) = concat (map snd (units_of ATCMD (started w0 ops))) /\
  exists ucrs, length ucrs = length (units_of UNSOL (started w0 ops)) /\
    proj UNSOL (accepted_wr (hist ioS muS hS w)) =
      concat (map (fun p => snd (fst p) ++ nl_text (snd p)) (combine (units_of UNSOL (started w0 ops)) ucrs)).
Proof.
  intros Hn m x mx h ops w0 w NK NU.
  destruct (C11_stream_proof D ioS muS hS io_read io_write mu_lock mu_unlock h_call Hn m x mx h ops NK NU)
    as (crs & L & E).
  fold w0 in L, E. fold w in E. rewrite E. split; [apply proj_stream_cmd; exact L|apply proj_stream_uns; exact L].
Qed.

Lemma is_busy_ok : forall s, is_busy s = ST_OK -> k_state (k s) = CS_IDLE /\ u_state (u s) = US_IDLE.
Proof.
  intros s H. unfold is_busy in H.
  destruct (cstate_beq (k_state (k s)) CS_IDLE) eqn:E1; destruct (ustate_beq (u_state (u s)) US_IDLE) eqn:E2;
    cbn in H; try discriminate H.
  split; [apply cstate_beq_true; exact E1|apply ustate_beq_true; exact E2].
Qed.

(* P3 (C18, trace level): when cat_is_busy says OK the accepted output is a concatenation of
   COMPLETE units: all the units started, each a whole unit, nothing in flight *)
Theorem C18_busy_stream_complete_proof : no_uns_hold -> forall m x mx h ops,
  let w0 := mkWorld (init_state D m) x mx h [] in
  let w := run w0 ops in
  is_busy (st w) = ST_OK ->
  Forall whole_unit (starts w0 ops) /\
  exists crs, length crs = length (started w0 ops) /\
    accepted_wr (hist ioS muS hS w) = stream (started w0 ops) crs.
Proof.
  intros Hn m x mx h ops w0 w B. apply is_busy_ok in B. destruct B as [BK BU].
  split; [apply C11_starts_whole_proof|].
  apply (C11_stream_proof D ioS muS hS io_read io_write mu_lock mu_unlock h_call Hn m x mx h ops).
  - fold w0. fold w. rewrite BK. discriminate.
  - fold w0. fold w. rewrite BU. discriminate.
Qed.

Local Notation service_body := (Fsm.service_body D ioS muS hS io_read io_write mu_lock mu_unlock h_call).
Local Notation step := (Fsm.step D ioS muS hS io_read io_write mu_lock mu_unlock h_call).

(* P1, second half: the FLUSH states are entered only from the wait states (one service body; any
   operation), the prepared unit untouched; no hypothesis on the oracles *)
Theorem C11_flush_entered_only_from_wait_proof : forall w,
  let s := st w in let s' := st (fst (service_body w)) in
  (k_state (k s') = CS_FLUSH -> k_state (k s) <> CS_FLUSH ->
     k_state (k s) = CS_FLUSH_WAIT /\ u_state (u s') <> US_FLUSH /\ kpart s' = kpart s) /\
  (u_state (u s') = US_FLUSH -> u_state (u s) <> US_FLUSH ->
     u_state (u s) = US_FLUSH_WAIT /\ k_state (k s) <> CS_FLUSH /\ upart s' = upart (setu_state US_FLUSH s)).
Proof.
  intros w s s'. split.
  - exact (body_enter_c D ioS muS hS io_read io_write mu_lock mu_unlock h_call w).
  - exact (body_enter_u D ioS muS hS io_read io_write mu_lock mu_unlock h_call w).
Qed.

Theorem C11_flush_entered_only_from_wait_op_proof : forall w o,
  let s := st w in let s' := st (step w o) in
  (k_state (k s') = CS_FLUSH -> k_state (k s) <> CS_FLUSH ->
     k_state (k s) = CS_FLUSH_WAIT /\ u_state (u s') <> US_FLUSH /\ kpart s' = kpart s) /\
  (u_state (u s') = US_FLUSH -> u_state (u s) <> US_FLUSH ->
     u_state (u s) = US_FLUSH_WAIT /\ k_state (k s) <> CS_FLUSH /\ upart s' = upart (setu_state US_FLUSH s)).
Proof.
  intros w o s s'. split.
  - exact (step_enter_c D ioS muS hS io_read io_write mu_lock mu_unlock h_call w o).
  - exact (step_enter_u D ioS muS hS io_read io_write mu_lock mu_unlock h_call w o).
Qed.

(* a waiting machine keeps its prepared unit and leaves its wait state only into FLUSH (the command
   machine: under D3; an event-side HOLD would force it to CS_HOLD) *)
Theorem C11_wait_left_only_to_flush_proof : forall w o,
  let s := st w in let s' := st (step w o) in
  (no_uns_hold -> k_state (k s) = CS_FLUSH_WAIT ->
     kpart s' = kpart s /\ (k_state (k s') = CS_FLUSH_WAIT \/ k_state (k s') = CS_FLUSH)) /\
  (u_state (u s) = US_FLUSH_WAIT ->
     upart s' = upart s \/ (k_state (k s) <> CS_FLUSH /\ upart s' = upart (setu_state US_FLUSH s))).
Proof.
  intros w o s s'. split.
  - intros Hn. exact (step_wait_c D ioS muS hS io_read io_write mu_lock mu_unlock h_call Hn w o).
  - exact (step_wait_u D ioS muS hS io_read io_write mu_lock mu_unlock h_call w o).
Qed.
End StreamCor.
