(* Properties_C19.v — property C19: the automatic TEST ('=?') response and the command list
   (PRINT_CMD_LIST_OK) are faithful to the descriptor.  Proofs are in Lemmas_C19.v. *)
From Coq Require Import List NArith ZArith Bool Arith.
From CatV Require Import Bytes Defs Codec Spec Fsm ResolveDefs TextDefs Lemmas_C19.
Import ListNotations.
Local Open Scope nat_scope.

Section C19.
Variable D : desc.

(* 1. what the list advertises is what the dispatcher serves (all flag combinations);
   the only difference is the TEST form of an implicit-write command *)
Theorem C19_consistent : forall c f,
  c_implicit c = false -> advertised c f = dispatch_accepts c f.
Proof. exact Lemmas_C19.C19_consistent_proof. Qed.

Theorem C19_consistent_implicit : forall c f,
  f <> F_TEST -> advertised c f = dispatch_accepts c f.
Proof. exact Lemmas_C19.C19_consistent_implicit_proof. Qed.

(* 2. the TEST response text, both machines: exactly the specified text if it fits the buffer
   completely (length < size, room for the NUL), otherwise ERROR (command) / dropped (event);
   never a truncated text *)
Theorem C19_test_text : forall f s ci c,
  g_cmd f s = Some ci -> nth_error (pool D) ci = Some c -> fault s = false ->
  let s' := test_response D f c s in
  let bsz := length (g_buf f s) in
  match spec_test_text c (nl_chars s) with
  | Some txt =>
    if length txt <? bsz
    then fault s' = false /\ (~ In 0%N txt -> text_of (g_buf f s') = txt) /\ test_done f c s' /\
         (c_htest c = true -> g_pos f s' = length txt)
    else (f = ATCMD -> 6 <= length (cbuf s)) -> fault s' = false /\ test_failed f s'
  | None => (f = ATCMD -> 6 <= length (cbuf s)) -> fault s' = false /\ test_failed f s'
  end.
Proof. exact (Lemmas_C19.C19_test_text_proof D). Qed.

(* 3. the command list: all lines, then OK; or the lines before the first one that does not
   fit, then ERROR — never a truncated line *)
Theorem C19_list : forall s,
  fault s = false -> 6 <= length (cbuf s) ->
  (forall c, In c (cmds D) -> ~ In 0%N (c_name c)) ->
  let s0 := start_print_cmd_list D s in
  let lines := spec_cmd_list D (fun i => negb (is_command_disable D s i)) (nl_chars s) in
  forall fuel, 6 * ncmds D + 1 <= fuel ->
  let '(out, s') := list_run D fuel s0 [] in
  fault s' = false /\ k_state (k s') = CS_FLUSH_WAIT /\ k_wafter (k s') = CS_AFTER_RESET /\
  if forallb (fun l => length l <? length (cbuf s)) lines
  then out = lines /\ text_of (cbuf s') = txt_OK
  else (exists n, out = firstn n lines /\
        (forall l, nth_error lines n = Some l -> length (cbuf s) <= length l) /\
        forallb (fun l => length l <? length (cbuf s)) out = true) /\
       text_of (cbuf s') = txt_ERROR.
Proof. exact (Lemmas_C19.C19_list_proof D). Qed.

(* 3'. the same with the failing line made explicit: it exists, it is line number n, every
   line before it fits *)
Theorem C19_list_strong : forall s,
  fault s = false -> 6 <= length (cbuf s) ->
  (forall c, In c (cmds D) -> ~ In 0%N (c_name c)) ->
  let s0 := start_print_cmd_list D s in
  let lines := spec_cmd_list D (fun i => negb (is_command_disable D s i)) (nl_chars s) in
  forall fuel, 6 * ncmds D + 1 <= fuel ->
  let '(out, s') := list_run D fuel s0 [] in
  fault s' = false /\ k_state (k s') = CS_FLUSH_WAIT /\ k_wafter (k s') = CS_AFTER_RESET /\
  if forallb (fun l => length l <? length (cbuf s)) lines
  then out = lines /\ text_of (cbuf s') = txt_OK
  else (exists n l, out = firstn n lines /\ nth_error lines n = Some l /\
        length (cbuf s) <= length l /\
        forallb (fun l => length l <? length (cbuf s)) out = true) /\
       text_of (cbuf s') = txt_ERROR.
Proof. exact (Lemmas_C19.C19_list_strong_proof D). Qed.

End C19.

Print Assumptions C19_consistent.
Print Assumptions C19_consistent_implicit.
Print Assumptions C19_test_text.
Print Assumptions C19_list.
Print Assumptions C19_list_strong.

(* ---------- non-vacuity: concrete runs (vm_compute) ---------- *)
Module C19_examples.
Definition va := mkVar (Some [120]%N) VInt 2 RW false false 0.            (* x : INT16 RW *)
Definition vb := mkVar None VBufStr 8 RO false false 1.                   (* STRING RO *)
Definition vbad := mkVar None VUint 3 RW false false 0.                   (* unsupported width *)
Definition c1 := mkCmd [43;65]%N (Some [100;101]%N) true true true false [va;vb] false false false.
Definition c2 := mkCmd [43;66]%N None false false true true [] false false false.
Definition c3 := mkCmd [43;67]%N None false false false false [va] false true false.
Definition c4 := mkCmd [43;68]%N None false false false false [va;vbad] false false false.
(* two groups [c1;c2] and [c3]; c4 only for events; shared buffer of n bytes: n/2 for each machine *)
Definition Dn (n : nat) := mkDesc [[c1;c2];[c3]] [c4] n None 0%N 2 false.
Definition st0 (n : nat) := init_state (Dn n) [[0;0];[0;0;0;0;0;0;0;0]]%N.

(* "+A=<x:INT16[RW]>,<STRING[RO]>\nde" *)
Definition txt1 : list N :=
  [43;65;61; 60;120;58;73;78;84;49;54;91;82;87;93;62; 44;
   60;83;84;82;73;78;71;91;82;79;93;62; 10;100;101]%N.

Example spec_text : spec_test_text c1 [10]%N = Some txt1 /\ length txt1 = 32.
Proof. vm_compute. split; reflexivity. Qed.

(* buffer of 33 bytes: the 32 characters and the NUL fit *)
Example test_fits :
  let r := test_response (Dn 66) ATCMD c1 (setk_cmd (Some 0) (st0 66)) in
  length (cbuf (st0 66)) = 33 /\ text_of (cbuf r) = txt1 /\
  k_state (k r) = CS_FLUSH_WAIT /\ k_wafter (k r) = CS_AFTER_OK /\ fault r = false.
Proof. vm_compute. repeat split; reflexivity. Qed.

(* one byte less: ERROR, nothing of the text *)
Example test_one_byte_short :
  let r := test_response (Dn 64) ATCMD c1 (setk_cmd (Some 0) (st0 64)) in
  length (cbuf (st0 64)) = 32 /\ text_of (cbuf r) = txt_ERROR /\
  k_state (k r) = CS_FLUSH_WAIT /\ k_wafter (k r) = CS_AFTER_RESET /\ fault r = false.
Proof. vm_compute. repeat split; reflexivity. Qed.

(* the event machine: same text; one byte less: silently dropped *)
Example test_event_fits :
  let r := test_response (Dn 66) UNSOL c1 (setu_cmd (Some 0) (st0 66)) in
  text_of (ubuf r) = txt1 /\ u_state (u r) = US_FLUSH_WAIT /\ u_wafter (u r) = US_AFTER_OK.
Proof. vm_compute. repeat split; reflexivity. Qed.

Example test_event_one_byte_short :
  let r := test_response (Dn 64) UNSOL c1 (setu_cmd (Some 0) (st0 64)) in
  u_state (u r) = US_IDLE /\ u_cmd (u r) = None /\ fault r = false.
Proof. vm_compute. repeat split; reflexivity. Qed.

(* a variable with an unsupported width: no text is specified, the machine answers ERROR *)
Example test_unsupported_width :
  let r := test_response (Dn 200) ATCMD c4 (setk_cmd (Some 3) (st0 200)) in
  spec_test_text c4 [10]%N = None /\ text_of (cbuf r) = txt_ERROR /\ k_state (k r) = CS_FLUSH_WAIT.
Proof. vm_compute. repeat split; reflexivity. Qed.

Definition run_list (n : nat) (s : state) := list_run (Dn n) 100 (start_print_cmd_list (Dn n) s) [].

Definition all_lines : list (list N) :=
  [[10;65;84;43;65;10];            (* \nAT+A\n   *)
   [65;84;43;65;63;10];            (* AT+A?\n    *)
   [65;84;43;65;61;10];            (* AT+A=\n    *)
   [65;84;43;65;61;63;10];         (* AT+A=?\n   *)
   [10;65;84;43;66;10];            (* \nAT+B\n   *)
   [65;84;43;66;61;63;10];         (* AT+B=?\n   *)
   [10;65;84;43;67;61;63;10]]%N.   (* \nAT+C=?\n : only_test *)

Example list_all :
  spec_cmd_list (Dn 80) (fun _ => true) [10]%N = all_lines /\
  fst (run_list 80 (st0 80)) = all_lines /\
  text_of (cbuf (snd (run_list 80 (st0 80)))) = txt_OK.
Proof. vm_compute. repeat split; reflexivity. Qed.

(* second group disabled: +C is not listed *)
Example list_group_disabled :
  let s := set_dis_grp [false; true] (st0 80) in
  fst (run_list 80 s) = firstn 6 all_lines /\
  spec_cmd_list (Dn 80) (fun i => negb (is_command_disable (Dn 80) s i)) [10]%N = firstn 6 all_lines /\
  text_of (cbuf (snd (run_list 80 s))) = txt_OK.
Proof. vm_compute. repeat split; reflexivity. Qed.

(* first command disabled by its own flag: +A is not listed *)
Example list_cmd_disabled :
  let s := set_dis_cmd [true; false; false] (st0 80) in
  fst (run_list 80 s) = skipn 4 all_lines /\
  text_of (cbuf (snd (run_list 80 s))) = txt_OK.
Proof. vm_compute. repeat split; reflexivity. Qed.

(* buffer of 7 bytes: the 6-character lines fit, "AT+A=?\n" (7) does not: three lines, then
   ERROR; no part of the fourth line is emitted *)
Example list_line_too_long :
  length (cbuf (st0 14)) = 7 /\
  fst (run_list 14 (st0 14)) = firstn 3 all_lines /\
  text_of (cbuf (snd (run_list 14 (st0 14)))) = txt_ERROR.
Proof. vm_compute. repeat split; reflexivity. Qed.

(* buffer of 6 bytes: the newline fits, the first line does not: nothing, then ERROR *)
Example list_first_line_too_long :
  fst (run_list 12 (st0 12)) = [] /\
  text_of (cbuf (snd (run_list 12 (st0 12)))) = txt_ERROR.
Proof. vm_compute. repeat split; reflexivity. Qed.
End C19_examples.
