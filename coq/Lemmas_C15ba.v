(* Lemmas_C15ba.v — property C15, second half (termination), part a: the lexicographic
   measure, the no-hold invariant, and the progress lemmas of the pure step functions of both
   machines under the safety invariant Safe (Lemmas_C03b).  Part b (Lemmas_C15b.v) assembles the
   steps on the scripted world and proves the theorem. *)
From Coq Require Import List NArith ZArith Bool Arith Lia Wf_nat.
From CatV Require Import Bytes Defs Codec Fsm Script SchedDefs TermDefs Lemmas_C03 Lemmas_C12.
Import ListNotations.
Local Open Scope nat_scope.

(* ------------------------------------------------------------------ *)
(* lexicographic order on lists of naturals of equal length            *)
(* ------------------------------------------------------------------ *)

Fixpoint lexlt (a b : list nat) : Prop :=
  match a, b with
  | x :: a', y :: b' => x < y \/ (x = y /\ lexlt a' b')
  | _, _ => False
  end.

Definition lexR (a b : list nat) : Prop := length a = length b /\ lexlt a b.

Lemma lexR_wf_len : forall n l, length l = n -> Acc lexR l.
Proof.
  induction n as [|n IHn]; intros l Hl.
  - destruct l; [|discriminate]. constructor. intros a [_ H]. destruct a; destruct H.
  - destruct l as [|y b]; [discriminate|]. injection Hl as Hl. revert b Hl.
    induction y as [y IHy] using lt_wf_ind. intros b Hb.
    pose proof (IHn b Hb) as Ab. induction Ab as [b _ IHb].
    constructor. intros a [Hlen Hlt]. destruct a as [|x a']; [destruct Hlt|].
    cbn [length] in Hlen. injection Hlen as Hlen. cbn [lexlt] in Hlt.
    destruct Hlt as [Hlt | [-> Hlt]].
    + apply IHy; [exact Hlt | congruence].
    + apply IHb; [split; assumption | congruence].
Qed.

Lemma lexlt_trans : forall a b c, lexlt a b -> lexlt b c -> lexlt a c.
Proof.
  induction a as [|x a IH]; intros b c H1 H2; [destruct H1|].
  destruct b as [|y b]; [destruct H1|]. destruct c as [|z c]; [destruct H2|].
  cbn [lexlt] in *. destruct H1 as [H1 | [-> H1]]; destruct H2 as [H2 | [-> H2]].
  - left; lia.
  - left; exact H1.
  - left; exact H2.
  - right; split; [reflexivity | eapply IH; eassumption].
Qed.

Lemma lexlt_app_eq : forall a b b', lexlt b b' -> lexlt (a ++ b) (a ++ b').
Proof. induction a as [|x a IH]; intros b b' H; [exact H|]. cbn. right. split; [reflexivity | apply IH, H]. Qed.

Lemma lexlt_app_lt : forall a a' b b', length a = length a' -> lexlt a a' -> lexlt (a ++ b) (a' ++ b').
Proof.
  induction a as [|x a IH]; intros a' b b' Hl H; [destruct H|].
  destruct a' as [|y a']; [destruct H|]. cbn [length] in Hl. injection Hl as Hl.
  cbn [lexlt app] in *. destruct H as [H | [-> H]]; [left; exact H | right; split; [reflexivity | apply IH; assumption]].
Qed.

Ltac lex_solve_core :=
  cbn [lexlt]; repeat (first [ left; lia | right; split; [lia|] ]).

(* ------------------------------------------------------------------ *)
(* the measure                                                          *)
(* ------------------------------------------------------------------ *)

(* cost of what remains of a flush: phase weight + distance of the cursor to the end of the text *)
Definition wsw (W : nat) (ws : wstate) : nat :=
  match ws with WS_BEFORE => 2 * (W + 4) | WS_MAIN => W + 4 | WS_AFTER => 0 end.
Definition wbl (W : nat) (wb : wbuf) (p : nat) : nat :=
  match wb with WB_NL _ => 3 - p | WB_MAIN => W + 1 - p end.
Definition frank (W : nat) (wait : bool) (ws : wstate) (wb : wbuf) (p : nat) : nat :=
  (if wait then 2 else 1) + wsw W ws + wbl W wb p.

(* rank of the request type inside one row of the command list *)
Definition tyr (t : ctype) : nat :=
  match t with T_NONE => 6 | T_RUN => 5 | T_READ => 4 | T_WRITE => 3 | T_TEST => 2 | T_TOTAL => 1 end.

Ltac lex_solve := unfold frank; cbn [wsw wbl tyr]; lex_solve_core.

Section Measure.
Variable D : desc.

(* number of variables of the command being processed *)
Definition nv (oc : option nat) : nat :=
  match oc with
  | Some ci => match nth_error (pool D) ci with Some c => length (c_vars c) | None => 0 end
  | None => 0
  end.

(* a pending flush: the class is that of the continuation *)
Definition fpre (s : state) : list nat :=
  let x := k s in
  match k_wafter x with
  | CS_PRINT_CMD => [11; ncmds D - k_index x; tyr (k_type x)]
  | CS_AFTER_FMT_READ | CS_AFTER_FMT_TEST => [15; 0; 0]
  | CS_AFTER_OK => [10; 0; 0]
  | _ => [8; 0; 0]
  end.
Definition cfl (wait : bool) (s : state) : list nat :=
  let x := k s in
  fpre s ++ [frank (asz_of D) wait (k_wstate x) (k_wbuf x) (k_position x)].

(* the command machine: phase class, then the local counters of the phase *)
Definition cC (s : state) : list nat :=
  let x := k s in
  match k_state x with
  | CS_UPDATE_COMMAND_STATE => [20; ncmds D - k_index x; 0; 0]
  | CS_SEARCH_COMMAND => [19; ncmds D - k_index x; 0; 0]
  | CS_COMMAND_FOUND => [18; 0; 0; 0]
  | CS_COMMAND_NOT_FOUND => [17; 0; 0; 0]
  | CS_PARSE_WRITE_ARGS => [16; nv (k_cmd x) - k_index x; 0; 0]
  | CS_FLUSH_WAIT => cfl true s
  | CS_FLUSH => cfl false s
  | CS_AFTER_FMT_READ | CS_AFTER_FMT_TEST => [14; 0; 0; 0]
  | CS_FORMAT_READ_ARGS | CS_FORMAT_TEST_ARGS => [13; nv (k_cmd x) - k_index x; 0; 0]
  | CS_WRITE_LOOP | CS_RUN_LOOP | CS_READ_LOOP | CS_TEST_LOOP => [12; 0; 0; 0]
  | CS_PRINT_CMD => [11; ncmds D - k_index x; tyr (k_type x); 0]
  | CS_AFTER_OK => [9; 0; 0; 0]
  | CS_AFTER_RESET => [7; 0; 0; 0]
  | _ => [0; 0; 0; 0]
  end.

Definition upre (s : state) : list nat :=
  match u_wafter (u s) with
  | US_AFTER_FMT_READ | US_AFTER_FMT_TEST => [9; 0]
  | US_AFTER_OK => [5; 0]
  | _ => [3; 0]
  end.
Definition ufl (wait : bool) (s : state) : list nat :=
  let y := u s in
  upre s ++ [frank (usz_of D) wait (u_wstate y) (u_wbuf y) (u_position y)].

(* the event machine *)
Definition cU (s : state) : list nat :=
  let y := u s in
  match u_state y with
  | US_FLUSH_WAIT => ufl true s
  | US_FLUSH => ufl false s
  | US_AFTER_FMT_READ | US_AFTER_FMT_TEST => [8; 0; 0]
  | US_FORMAT_READ_ARGS | US_FORMAT_TEST_ARGS => [7; nv (u_cmd y) - u_index y; 0]
  | US_READ_LOOP | US_TEST_LOOP => [6; 0; 0]
  | US_AFTER_OK => [4; 0; 0]
  | US_AFTER_RESET => [2; 0; 0]
  | US_IDLE => [0; 0; 0]
  end.

(* queued events first: popping one restarts the event machine *)
Definition mU (s : state) : list nat := u_count (u s) :: cU s.

Lemma cC_len : forall s, length (cC s) = 4.
Proof. intros s. unfold cC, cfl, fpre. destruct (k_state (k s)); try reflexivity; destruct (k_wafter (k s)); reflexivity. Qed.
Lemma cU_len : forall s, length (cU s) = 3.
Proof. intros s. unfold cU, ufl, upre. destruct (u_state (u s)); try reflexivity; destruct (u_wafter (u s)); reflexivity. Qed.

(* the command is not held and no release is pending *)
Definition NH (s : state) : Prop := k_hold (k s) = false /\ k_state (k s) <> CS_HOLD.

(* a productive step of the command machine: the event machine's record is untouched *)
Definition PC (s s' : state) : Prop := u s' = u s /\ NH s' /\ lexlt (cC s') (cC s).
(* a productive step of the event machine *)
Definition PU (s s' : state) : Prop := k s' = k s /\ NH s' /\ lexlt (mU s') (mU s).
Definition PG (f : fsm) (s s' : state) : Prop := match f with ATCMD => PC s s' | UNSOL => PU s s' end.

(* target-class form: the step ends in a phase of class at most n *)
Definition TC (n : nat) (s s' : state) : Prop := u s' = u s /\ NH s' /\ hd 0 (cC s') <= n.
Definition TU (n : nat) (s s' : state) : Prop :=
  k s' = k s /\ u_count (u s') = u_count (u s) /\ NH s' /\ hd 0 (cU s') <= n.
Definition TG (f : fsm) (nc nu : nat) (s s' : state) : Prop :=
  match f with ATCMD => TC nc s s' | UNSOL => TU nu s s' end.

Lemma lexlt_hd : forall a b, hd 0 a < hd 0 b -> a <> [] -> b <> [] -> lexlt a b.
Proof. intros [|x a] [|y b] H Ha Hb; try congruence. cbn in *. left. exact H. Qed.

Lemma TC_PC : forall n s s', TC n s s' -> n < hd 0 (cC s) -> PC s s'.
Proof.
  intros n s s' (A & B & C) H. split; [exact A|]. split; [exact B|].
  apply lexlt_hd; [lia | |]; intro E; apply (f_equal (@length nat)) in E; rewrite cC_len in E; discriminate.
Qed.
Lemma TU_PU : forall n s s', TU n s s' -> n < hd 0 (cU s) -> PU s s'.
Proof.
  intros n s s' (K & A & B & C) H. split; [exact K|]. split; [exact B|]. unfold mU. rewrite A. cbn [lexlt]. right. split; [reflexivity|].
  apply lexlt_hd; [lia | |]; intro E; apply (f_equal (@length nat)) in E; rewrite cU_len in E; discriminate.
Qed.
Lemma TC_le : forall n n' s s', TC n s s' -> n <= n' -> TC n' s s'.
Proof. intros n n' s s' (A & B & C) H. repeat split; try assumption; try apply B. lia. Qed.
Lemma TU_le : forall n n' s s', TU n s s' -> n <= n' -> TU n' s s'.
Proof. intros n n' s s' (K & A & B & C) H. repeat split; try assumption; try apply B. lia. Qed.

End Measure.

(* ------------------------------------------------------------------ *)
(* projections through the opaque helpers                               *)
(* ------------------------------------------------------------------ *)

Lemma k_put_cur_A : forall c s, k (put_cur ATCMD c s) = set_k_position (cu_pos c) (k s).
Proof. intros c s. unfold put_cur. destruct (cu_fault c); reflexivity. Qed.
Lemma u_put_cur_A : forall c s, u (put_cur ATCMD c s) = u s.
Proof. intros c s. unfold put_cur. destruct (cu_fault c); reflexivity. Qed.
Lemma k_put_cur_U : forall c s, k (put_cur UNSOL c s) = k s.
Proof. intros c s. unfold put_cur. destruct (cu_fault c); reflexivity. Qed.
Lemma u_put_cur_U : forall c s, u (put_cur UNSOL c s) = set_u_position (cu_pos c) (u s).
Proof. intros c s. unfold put_cur. destruct (cu_fault c); reflexivity. Qed.
Lemma k_set_cmd_state : forall s i v, k (set_cmd_state s i v) = k s.
Proof. intros s i v. unfold set_cmd_state. destruct (nth_error _ _); reflexivity. Qed.
Lemma u_set_cmd_state' : forall s i v, u (set_cmd_state s i v) = u s.
Proof. intros s i v. unfold set_cmd_state. destruct (nth_error _ _); reflexivity. Qed.
Lemma fault_put_cur : forall f c s, fault s = true -> fault (put_cur f c s) = true.
Proof. intros f c s H. unfold put_cur. destruct (cu_fault c); destruct f; cbn; auto. Qed.

#[export] Hint Rewrite k_put_cur_A u_put_cur_A k_put_cur_U u_put_cur_U k_set_cmd_state u_set_cmd_state' : c15kv.

(* evaluate projections of setter chains *)
Ltac ev := repeat (progress (sproj; try autorewrite with c15kv)).
Ltac ev_in H := repeat (progress (sproj_in H; try autorewrite with c15kv in H)).

Ltac unf_helpers :=
  unfold end_with_error, end_with_ok, ack_error, ack_ok, start_flush_after_ok, start_flush_after,
         start_flush_c, start_flush_u, start_flush_raw_c, set_loop_state, unsolicited_reset_state,
         prepare_search_command, prepare_parse_command, enable_hold_state in *.

Section Pure.
Variable D : desc.
Variable m : list (list N).
Hypothesis WF : wf_desc D m.

Local Notation Safe := (Safe D m).
Local Notation Pre := (Pre D m).
Local Notation KS := (KS D).
Local Notation US := (US D).
Local Notation cC := (cC D).
Local Notation cU := (cU D).
Local Notation mU := (mU D).
Local Notation PC := (PC D).
Local Notation PU := (PU D).
Local Notation PG := (PG D).
Local Notation TC := (TC D).
Local Notation TU := (TU D).
Local Notation TG := (TG D).

Ltac base_open H :=
  let Hf := fresh "Hf" in let Hcb := fresh "Hcb" in let Hub := fresh "Hub" in
  let Hm := fresh "Hm" in let Hkc := fresh "Hkc" in let Huc := fresh "Huc" in
  let Hr := fresh "Hr" in
  destruct H as (Hf & Hcb & Hub & Hm & Hkc & Huc & Hr).

Ltac safe_open H :=
  let HB := fresh "HB" in let HK := fresh "HK" in let HU := fresh "HU" in
  destruct H as (HB & HK & HU); base_open HB.

(* close a goal PC s leaf / PU s leaf where leaf is a setter chain over s;
   Hst : k_state (k s) = _ (resp. u_state), Hnh : NH s are in the context *)
Ltac nh_fin :=
  match goal with
  | Hnh : NH ?s |- NH _ =>
    let A := fresh in let B := fresh in
    destruct Hnh as [A B]; unfold NH; ev; split; [try assumption; try reflexivity | try assumption; try discriminate; try congruence]
  end.

Ltac rw_ctx :=
  repeat match goal with
         | E : k_state (k _) = _ |- _ => progress rewrite E
         | E : u_state (u _) = _ |- _ => progress rewrite E
         | E : k_cmd (k _) = _ |- _ => progress rewrite E
         | E : k_type (k _) = _ |- _ => progress rewrite E
         | E : u_cmd (u _) = _ |- _ => progress rewrite E
         | E : nth_error (pool D) _ = _ |- _ => progress rewrite E
         end.

Ltac pc_fin :=
  unf_helpers; unfold PC; split; [ev; try reflexivity | split; [nh_fin | unfold cC, cfl, fpre, nv; ev;
    rw_ctx; ev; cbn [app]; lex_solve]].

Ltac pu_fin :=
  unf_helpers; unfold PU; split; [ev; try reflexivity | split; [nh_fin | unfold mU, cU, ufl, upre, nv; ev;
    rw_ctx; ev; cbn [app]; lex_solve]].

Ltac pg_fin :=
  unfold PG;
  lazymatch goal with
  | |- Lemmas_C15ba.PC _ _ _ => pc_fin
  | |- Lemmas_C15ba.PU _ _ _ => pu_fin
  end.

(* ---- simple states of the command machine ---- *)

Lemma nflush_true : forall x, x <> US_FLUSH -> negb (ustate_beq x US_FLUSH) = true.
Proof. intros x H. destruct x; try reflexivity. congruence. Qed.
Lemma ncflush_true : forall x, x <> CS_FLUSH -> negb (cstate_beq x CS_FLUSH) = true.
Proof. intros x H. destruct x; try reflexivity. congruence. Qed.

Lemma wait_PC : forall s, NH s -> k_state (k s) = CS_FLUSH_WAIT -> u_state (u s) <> US_FLUSH ->
  PC s (process_io_write_wait s).
Proof.
  intros s Hnh Hst Hu. unfold process_io_write_wait. rewrite nflush_true by exact Hu.
  unfold PC. split; [reflexivity|]. split; [nh_fin|].
  unfold cC, cfl. ev. rewrite Hst. apply lexlt_app_eq. lex_solve.
Qed.

Lemma wbl_adv : forall W wb b p ch, wbuf_char wb b p = Some ch -> length b = W ->
  wbl W wb (S p) < wbl W wb p.
Proof.
  intros W wb b p ch E L. unfold wbuf_char in E. unfold wbl.
  assert (X : forall (l : list N), nth_error l p = Some ch -> p < length l)
    by (intros l El; apply nth_error_Some; congruence).
  destruct wb as [[|]|]; apply X in E; cbn [length] in E; lia.
Qed.

Lemma flush_adv_PC : forall s ch, NH s -> k_state (k s) = CS_FLUSH -> length (cbuf s) = asz_of D ->
  wbuf_char (k_wbuf (k s)) (cbuf s) (k_position (k s)) = Some ch ->
  PC s (setk_position (S (k_position (k s))) s).
Proof.
  intros s ch Hnh Hst Hcb E. unfold PC. split; [reflexivity|]. split; [nh_fin|].
  unfold cC, cfl. ev. rewrite Hst. apply lexlt_app_eq.
  pose proof (wbl_adv _ _ _ _ _ E Hcb). unfold frank. cbn [lexlt]. left. lia.
Qed.

Lemma wbl_le : forall W wb p, wbl W wb p <= W + 3.
Proof. intros W wb p. unfold wbl. destruct wb; lia. Qed.

Lemma flush_done_PC : forall s, Safe s -> NH s -> k_state (k s) = CS_FLUSH ->
  PC s (match k_wstate (k s) with
        | WS_BEFORE => s |> setk_position 0 |> setk_wbuf WB_MAIN |> setk_wstate WS_MAIN
        | WS_MAIN => s |> setk_position 0 |> setk_wbuf (WB_NL (k_cr (k s))) |> setk_wstate WS_AFTER
        | WS_AFTER =>
          let s1 := setk_state (k_wafter (k s)) s in
          if cstate_beq (k_wafter (k s)) CS_AFTER_RESET then set_gR (S (gR s1)) s1 else s1
        end).
Proof.
  intros s HS Hnh Hst. safe_open HS. unfold Lemmas_C03b.KS in HK. rewrite Hst in HK. destruct HK as [_ HA].
  pose proof (wbl_le (asz_of D) (k_wbuf (k s)) (k_position (k s))) as Hw.
  destruct (k_wstate (k s)) eqn:Ew.
  - unfold PC. split; [reflexivity|]. split; [nh_fin|].
    unfold cC, cfl. ev. rewrite Hst, Ew. apply lexlt_app_eq. unfold frank. cbn [wsw wbl lexlt]. left. lia.
  - unfold PC. split; [reflexivity|]. split; [nh_fin|].
    unfold cC, cfl. ev. rewrite Hst, Ew. apply lexlt_app_eq. unfold frank. cbn [wsw wbl lexlt]. left. lia.
  - cbv zeta. unfold Kafter in HA.
    destruct (k_wafter (k s)) eqn:Ea; try contradiction; cbn [cstate_beq];
      (unfold PC; split; [reflexivity|]; split; [nh_fin|]);
      unfold cC, cfl, fpre; ev; rewrite Hst, Ea; cbn [app]; lex_solve.
Qed.

Lemma reset_PC : forall s, NH s -> k_state (k s) = CS_AFTER_RESET -> PC s (reset_state s).
Proof.
  intros s Hnh Hst. unfold reset_state. destruct Hnh as [Hh Hn]. rewrite Hh.
  unfold PC. split; [reflexivity|]. split; [unfold NH; ev; split; [exact Hh | discriminate]|].
  unfold cC. ev. rewrite Hst. lex_solve.
Qed.

Lemma ack_ok_PC : forall s, NH s -> hd 0 (cC s) > 8 -> PC s (ack_ok s).
Proof.
  intros s Hnh Hc. unfold ack_ok, start_flush_c. unfold PC. split; [reflexivity|]. split; [nh_fin|].
  unfold cC at 1. unfold cfl, fpre. ev. cbn [app]. destruct (cC s) as [|x r]; cbn [hd] in Hc; [lia|].
  cbn [lexlt]. left. lia.
Qed.

Lemma ack_error_PC : forall s, NH s -> hd 0 (cC s) > 8 -> PC s (ack_error s).
Proof.
  intros s Hnh Hc. unfold ack_error, start_flush_c. unfold PC. split; [reflexivity|]. split; [nh_fin|].
  unfold cC at 1. unfold cfl, fpre. ev. cbn [app]. destruct (cC s) as [|x r]; cbn [hd] in Hc; [lia|].
  cbn [lexlt]. left. lia.
Qed.


(* ---- leaves ---- *)
Ltac tc_fin :=
  unf_helpers; unfold TC; split; [ev; try reflexivity | split; [nh_fin | unfold cC, cfl, fpre; ev; cbn [hd app]; try lia]].
Ltac tu_fin :=
  unf_helpers; unfold TU; split; [ev; try reflexivity | split; [ev; try reflexivity | split; [nh_fin | unfold cU, ufl, upre; ev; cbn [hd app]; try lia]]].
Ltac tg_fin :=
  unfold TG;
  lazymatch goal with
  | |- Lemmas_C15ba.TC _ _ _ _ => tc_fin
  | |- Lemmas_C15ba.TU _ _ _ _ => tu_fin
  end.

Ltac brk_pair :=
  match goal with
  | |- context [let (_, _) := ?x in _] =>
    lazymatch x with
    | context [match _ with _ => _ end] => fail
    | _ => destruct x as [? ?]
    end
  end.

Lemma spfra_TG : forall f s, NH s -> cmd_ok D (g_cmd f s) ->
  TG f 13 7 s (start_processing_format_read_args D f s).
Proof.
  intros f s Hnh Hc. unfold start_processing_format_read_args, cmd_of, cmd_at, print_string.
  destruct f; sproj; sproj_in Hc; destruct (cmd_ok_at D _ Hc) as (ci & c & E1 & E2); rewrite E1, E2.
  - brk_pair. destruct b; cbn [negb]; [|tg_fin].
    brk_pair. destruct b; cbn [negb]; [|tg_fin].
    destruct (vars_access_possible c RO); [tg_fin|].
    destruct (c_hread c); cbn [negb]; tg_fin.
  - brk_pair. destruct b; cbn [negb]; [|tg_fin].
    brk_pair. destruct b; cbn [negb]; [|tg_fin].
    destruct (vars_access_possible c RO); [tg_fin|].
    destruct (c_hread c); cbn [negb]; tg_fin.
Qed.


Lemma TC_base : forall n s0 s s', TC n s s' -> u s = u s0 -> TC n s0 s'.
Proof. intros n s0 s s' (A & B & C) H. split; [congruence | split; assumption]. Qed.
Lemma TU_base : forall n s0 s s', TU n s s' -> u_count (u s) = u_count (u s0) -> k s = k s0 -> TU n s0 s'.
Proof. intros n s0 s s' (K & A & B & C) H H2. split; [congruence | split; [congruence | split; assumption]]. Qed.

Lemma prt_TG : forall f s, NH s -> cmd_ok D (g_cmd f s) ->
  TG f 12 6 s (let (s3, ok3) := print_response_test D f s in if ok3 then s3 else end_with_error f s3).
Proof.
  intros f s Hnh Hc. unfold print_response_test, cmd_of, cmd_at, print_strings.
  destruct f; sproj; sproj_in Hc; destruct (cmd_ok_at D _ Hc) as (ci & c & E1 & E2); rewrite E1, E2.
  - destruct (c_descr c).
    + brk_pair. destruct b; cbn [negb]; [|tg_fin]. destruct (c_htest c); tg_fin.
    + cbn [negb]. destruct (c_htest c); tg_fin.
  - destruct (c_descr c).
    + brk_pair. destruct b; cbn [negb]; [|tg_fin]. destruct (c_htest c); tg_fin.
    + cbn [negb]. destruct (c_htest c); tg_fin.
Qed.


Lemma TG_via : forall f nc nu nc' nu' s0 s s', TG f nc nu s s' -> nc <= nc' -> nu <= nu' ->
  match f with ATCMD => u s = u s0 | UNSOL => u_count (u s) = u_count (u s0) /\ k s = k s0 end -> TG f nc' nu' s0 s'.
Proof.
  intros f nc nu nc' nu' s0 s s' H L1 L2 E. destruct f; cbn [Lemmas_C15ba.TG] in *.
  - eapply TC_le; [eapply TC_base; eassumption | exact L1].
  - destruct E as [E1 E2]. eapply TU_le; [eapply TU_base; eassumption | exact L2].
Qed.

Lemma spfta_TG : forall f s, NH s -> cmd_ok D (g_cmd f s) ->
  TG f 13 7 s (start_processing_format_test_args D f s).
Proof.
  intros f s Hnh Hc. unfold start_processing_format_test_args, cmd_of, cmd_at, print_string.
  destruct f; sproj; sproj_in Hc; destruct (cmd_ok_at D _ Hc) as (ci & c & E1 & E2); rewrite E1, E2.
  - brk_pair. destruct b; cbn [negb]; [|tg_fin].
    brk_pair. destruct b; cbn [negb]; [|tg_fin].
    destruct (c_vars c); [|tg_fin].
    match goal with |- context [print_response_test D ATCMD ?s2] =>
      apply (TG_via ATCMD 12 6 13 7 s s2); [apply prt_TG | lia | lia | ]; ev; try assumption; try reflexivity; try (split; reflexivity) end.
    nh_fin.
  - brk_pair. destruct b; cbn [negb]; [|tg_fin].
    brk_pair. destruct b; cbn [negb]; [|tg_fin].
    destruct (c_vars c); [|tg_fin].
    match goal with |- context [print_response_test D UNSOL ?s2] =>
      apply (TG_via UNSOL 12 6 13 7 s s2); [apply prt_TG | lia | lia | ]; ev; try assumption; try reflexivity; try (split; reflexivity) end.
    nh_fin.
Qed.


Lemma TG_PG : forall f nc nu s s', TG f nc nu s s' ->
  match f with ATCMD => nc < hd 0 (cC s) | UNSOL => nu < hd 0 (cU s) end -> PG f s s'.
Proof. intros [|] nc nu s s' H L; [eapply TC_PC | eapply TU_PU]; eassumption. Qed.

(* cat.c:1857 *)
Lemma format_test_args_PG : forall f s, Safe s -> NH s -> fmt_state f s false ->
  PG f s (format_test_args D f s).
Proof.
  intros f s HS Hnh Hst. destruct (fmt_state_inv D m f s false HS Hst) as (Hv & Hp & _).
  pose proof (var_ok_cmd D _ _ Hv) as Hc.
  destruct (var_ok_at D _ _ Hv) as (ci & c & v & E1 & E2 & E3).
  unfold format_test_args, next_format_var, cmd_of, cmd_at. rewrite E1, E2, E3.
  destruct f; cbn [fmt_state] in Hst; sproj_in E1; sproj_in Hc.
  - brk_pair. destruct b; cbn [negb]; [|pg_fin]. ev. rewrite E1, E2.
    destruct (Nat.ltb_spec (S (k_index (k s))) (length (c_vars c))) as [L|L].
    + destruct (_ <=? _); cbn [fst snd]; pg_fin.
    + match goal with |- context [print_response_test D ATCMD ?s2] =>
        apply (TG_PG ATCMD 12 6); [apply (TG_via ATCMD 12 6 12 6 s s2); [apply prt_TG | lia | lia | ] | ];
        ev; try assumption; try reflexivity; try (split; reflexivity) end.
      * nh_fin.
      * unfold cC. rewrite Hst. cbn [hd]. lia.
  - brk_pair. destruct b; cbn [negb]; [|pg_fin]. ev. rewrite E1, E2.
    destruct (Nat.ltb_spec (S (u_index (u s))) (length (c_vars c))) as [L|L].
    + destruct (_ <=? _); cbn [fst snd]; pg_fin.
    + match goal with |- context [print_response_test D UNSOL ?s2] =>
        apply (TG_PG UNSOL 12 6); [apply (TG_via UNSOL 12 6 12 6 s s2); [apply prt_TG | lia | lia | ] | ];
        ev; try assumption; try reflexivity; try (split; reflexivity) end.
      * nh_fin.
      * unfold cU. rewrite Hst. cbn [hd]. lia.
Qed.


(* the part of format_read_args that runs after the variable's read callback (cat.c:1783) *)
Definition fra_body (f : fsm) (c : cmd) (v : var) (s : state) : state :=
  match nth_error (mem s) (v_slot v) with
  | None => set_fault_flag s
  | Some data =>
    let (c1, ok) := fmt_var v data (get_cur f s) in
    let s1 := put_cur f c1 s in
    if negb ok then end_with_error f s1
    else
      let (s2, handled) := next_format_var D f s1 in
      if handled then s2
      else if c_hread c then set_loop_state f true s2
      else start_flush_after_ok f s2
  end.

Lemma fra_body_PG : forall f s ci c v, Safe s -> NH s -> fmt_state f s true ->
  g_cmd f s = Some ci -> nth_error (pool D) ci = Some c ->
  nth_error (c_vars c) (g_var f s) = Some v ->
  PG f s (fra_body f c v s).
Proof.
  intros f s ci c v HS Hnh Hst E1 E2 E3.
  pose proof (fra_body_safe D m WF f s ci c v HS Hst E1 E2 E3) as HN. apply safe_fault in HN.
  fold (fra_body f c v s) in HN. revert HN.
  unfold fra_body, next_format_var, cmd_of, cmd_at.
  destruct (nth_error (mem s) (v_slot v)) as [data|]; [|intros HN; ev_in HN; discriminate HN]. intros _.
  destruct f; cbn [fmt_state] in Hst; sproj_in E1.
  - brk_pair. cbv zeta. destruct b; cbn [negb]; [|pg_fin]. ev. rewrite E1, E2.
    destruct (Nat.ltb_spec (S (k_index (k s))) (length (c_vars c))) as [L|L].
    + destruct (_ <=? _); cbn [fst snd]; pg_fin.
    + destruct (c_hread c); pg_fin.
  - brk_pair. cbv zeta. destruct b; cbn [negb]; [|pg_fin]. ev. rewrite E1, E2.
    destruct (Nat.ltb_spec (S (u_index (u s))) (length (c_vars c))) as [L|L].
    + destruct (_ <=? _); cbn [fst snd]; pg_fin.
    + destruct (c_hread c); pg_fin.
Qed.


(* ---- name sweeps (cat.c:809, 933) ---- *)
Lemma update_command_PC : forall s, Safe s -> NH s -> k_state (k s) = CS_UPDATE_COMMAND_STATE ->
  PC s (update_command D s).
Proof.
  intros s HS Hnh Hst. safe_open HS. unfold Lemmas_C03b.KS in HK. rewrite Hst in HK. destruct HK as [Hi Hl].
  unfold update_command.
  destruct (cmd_by_index_some D _ Hi) as (c & Ec). rewrite Ec.
  destruct (get_cmd_state_some D m WF s _ Hcb Hi) as (cs & Ecs). rewrite Ecs.
  match goal with |- context [if negb (cs =? CMD_NOT_MATCH)%N then ?A else s] =>
    set (X := if negb (cs =? CMD_NOT_MATCH)%N then A else s) end.
  assert (E : exists b imp, X = setk_implicit imp (set_cbuf b s)).
  { subst X. assert (Eta : exists b imp, s = setk_implicit imp (set_cbuf b s))
      by (eexists _, _; apply state_eta_cbuf_impl).
    assert (Set_ : forall v, exists b imp, set_cmd_state s (k_index (k s)) v =
                     setk_implicit imp (set_cbuf b s)).
    { intros v. destruct (set_cmd_state_eff D m WF s (k_index (k s)) v Hcb Hi) as (b & Eb & Lb).
      exists b, (k_implicit (k s)). rewrite Eb.
      destruct s as [[] ? ? ? ? ? ? ? ? ? ?]. reflexivity. }
    destruct (negb (cs =? CMD_NOT_MATCH)%N); [|exact Eta].
    destruct (Nat.ltb_spec (length (c_name c)) (k_length (k s))) as [L1|L1]; [apply Set_|].
    destruct (k_length (k s)) as [|l1] eqn:El; [lia|].
    destruct (nth_error (c_name c) l1) as [nc|] eqn:En;
      [|apply nth_error_None in En; lia].
    destruct (negb (to_upper nc =? k_char (k s))%N); [apply Set_|].
    destruct (S l1 =? length (c_name c)); [|exact Eta].
    destruct (set_cmd_state_eff D m WF s (k_index (k s)) CMD_FULL Hcb Hi) as (b & Eb & Lb). rewrite Eb.
    destruct (c_implicit c).
    - exists b, true. reflexivity.
    - exists b, (k_implicit (k s)).
      destruct s as [[] ? ? ? ? ? ? ? ? ? ?]. reflexivity. }
  destruct E as (b & imp & E). rewrite E. clear E X. cbv zeta.
  destruct (Nat.leb_spec (ncmds D) (S (k_index (k s)))) as [L|L].
  - sproj. destruct imp; cbn [negb]; pc_fin.
  - pc_fin.
Qed.

Lemma search_command_PC : forall s, Safe s -> NH s -> k_state (k s) = CS_SEARCH_COMMAND ->
  PC s (search_command D s).
Proof.
  intros s HS Hnh Hst. safe_open HS. unfold Lemmas_C03b.KS in HK. rewrite Hst in HK.
  unfold search_command.
  destruct (get_cmd_state_some D m WF s _ Hcb HK) as (cs & Ecs). rewrite Ecs. cbv zeta beta.
  destruct (cs =? CMD_PARTIAL)%N.
  - destruct (k_cmd (k s)).
    + destruct (Nat.eqb_spec (S (k_index (k s))) (ncmds D)); [destruct (k_char (k s) =? ch_LF)%N; pc_fin|].
      sproj. destruct (Nat.leb_spec (ncmds D) (S (k_index (k s)))); [|pc_fin].
      destruct (_ =? 1); [pc_fin|]. destruct (k_char (k s) =? ch_LF)%N; pc_fin.
    + sproj. destruct (Nat.leb_spec (ncmds D) (S (k_index (k s)))); [|pc_fin].
      destruct (_ =? 1); [pc_fin|]. destruct (k_char (k s) =? ch_LF)%N; pc_fin.
  - destruct (cs =? CMD_FULL)%N; [pc_fin|].
    sproj. destruct (Nat.leb_spec (ncmds D) (S (k_index (k s)))); [|pc_fin].
    destruct (k_cmd (k s)); [|destruct (k_char (k s) =? ch_LF)%N; pc_fin].
    destruct (_ =? 1); [pc_fin|]. destruct (k_char (k s) =? ch_LF)%N; pc_fin.
Qed.


(* cat.c:1019 *)
Lemma command_found_PC : forall s, Safe s -> NH s -> k_state (k s) = CS_COMMAND_FOUND ->
  PC s (command_found D s).
Proof.
  intros s HS Hnh Hst. safe_open HS. unfold Lemmas_C03b.KS in HK. rewrite Hst in HK.
  assert (Hcl : hd 0 (cC s) = 18) by (unfold cC; rewrite Hst; reflexivity).
  unfold command_found, cmd_of, cmd_at. sproj.
  destruct (cmd_ok_at D _ HK) as (ci & c & E1 & E2). rewrite E1, E2.
  destruct (k_type (k s)); try (apply ack_error_PC; [exact Hnh | lia]).
  - destruct (c_only_test c); [apply ack_error_PC; [exact Hnh | lia]|].
    destruct (c_hrun c); cbn [negb]; [|apply ack_error_PC; [exact Hnh | lia]]. pc_fin.
  - destruct (c_only_test c); [apply ack_error_PC; [exact Hnh | lia]|].
    apply (TC_PC D 13); [apply (spfra_TG ATCMD); [exact Hnh | exact HK] | lia].
  - sproj. destruct (cbuf s); pc_fin.
Qed.

(* ---- the list printer (cat.c:2031-2144) ---- *)
Lemma print_cmd_form_PC : forall s c avail suffix next, NH s -> k_state (k s) = CS_PRINT_CMD ->
  tyr next < tyr (k_type (k s)) ->
  PC s (print_cmd_form s c avail suffix next).
Proof.
  intros s c avail suffix next Hnh Hst Ht.
  unfold print_cmd_form, print_current_cmd_full_name, print_string, print_strings. destruct avail; [|pc_fin].
  sproj. destruct (k_length (k s) =? 0).
  - brk_pair. destruct b; cbn [negb]; [|pc_fin].
    brk_pair. destruct b; cbn [negb]; pc_fin.
  - cbn [negb]. brk_pair. destruct b; cbn [negb]; pc_fin.
Qed.

Lemma cmd_list_next_PC : forall s s0, NH s -> k_state (k s) = CS_PRINT_CMD -> k_index (k s) < ncmds D ->
  k s0 = set_k_cmd (Some (k_index (k s))) (k s) -> u s0 = u s ->
  PC s (let (s1, more) := cmd_list_next_cmd D s0 in if more then s1 else ack_ok s1).
Proof.
  intros s s0 Hnh Hst Hi Ek Eu. unfold cmd_list_next_cmd. rewrite Ek. sproj.
  destruct (Nat.leb_spec (ncmds D) (S (k_index (k s)))) as [L|L].
  - unf_helpers. unfold PC. split; [ev; exact Eu|]. split.
    + destruct Hnh as [A B]. unfold NH. ev. rewrite Ek. ev. split; [exact A | discriminate].
    + unfold cC, cfl, fpre. ev. rewrite Hst. cbn [app]. lex_solve.
  - unfold PC. split; [ev; exact Eu|]. split.
    + destruct Hnh as [A B]. unfold NH. ev. rewrite Ek. ev. split; [exact A | discriminate].
    + unfold cC, cfl, fpre. ev. rewrite Hst. lex_solve.
Qed.

Lemma print_cmd_list_PC : forall s, Safe s -> NH s -> k_state (k s) = CS_PRINT_CMD ->
  PC s (print_cmd_list D s).
Proof.
  intros s HS Hnh Hst. safe_open HS. unfold Lemmas_C03b.KS in HK. rewrite Hst in HK.
  unfold print_cmd_list. destruct (cmd_by_index_some D _ HK) as (c & Ec). rewrite Ec.
  set (s0 := setk_cmd (Some (k_index (k s))) s).
  assert (Hnh0 : NH s0) by (subst s0; nh_fin).
  assert (Hst0 : k_state (k s0) = CS_PRINT_CMD) by exact Hst.
  assert (B : forall s', PC s0 s' -> PC s s').
  { intros s' (A1 & A2 & A3). split; [exact A1 | split; [exact A2|]].
    replace (cC s) with (cC s0); [exact A3|]. subst s0. unfold cC. ev. rewrite Hst. reflexivity. }
  change (k_type (k s0)) with (k_type (k s)). change (k_index (k s0)) with (k_index (k s)).
  destruct (k_type (k s)) eqn:Et.
  - destruct (is_command_disable D s0 (k_index (k s))).
    + apply cmd_list_next_PC; auto.
    + subst s0. destruct (c_only_test c); pc_fin.
  - apply B, print_cmd_form_PC; auto. change (k_type (k s0)) with (k_type (k s)). rewrite Et. cbn; lia.
  - apply B, print_cmd_form_PC; auto. change (k_type (k s0)) with (k_type (k s)). rewrite Et. cbn; lia.
  - apply B, print_cmd_form_PC; auto. change (k_type (k s0)) with (k_type (k s)). rewrite Et. cbn; lia.
  - apply B, print_cmd_form_PC; auto. change (k_type (k s0)) with (k_type (k s)). rewrite Et. cbn; lia.
  - apply cmd_list_next_PC; auto.
Qed.


Lemma PC_base : forall s0 s s', PC s s' -> u s = u s0 -> cC s = cC s0 -> PC s0 s'.
Proof. intros s0 s s' (A & B & C) E1 E2. split; [congruence | split; [exact B | rewrite <- E2; exact C]]. Qed.

(* cat.c:1365: the continuation after the variable's write callback *)
Definition pwa_tail (c : cmd) (comma : bool) (s : state) : state :=
  let idx := S (k_index (k s)) in
  let s := setk_index idx s in
  if (idx <? length (c_vars c)) && comma then setk_var idx s
  else if comma then ack_error s
  else if c_need_all c && negb (idx =? length (c_vars c)) then ack_error s
  else if negb (c_hwrite c) then ack_ok s
  else setk_state CS_WRITE_LOOP s.

Lemma pwa_tail_PC : forall s ci c comma, NH s -> k_state (k s) = CS_PARSE_WRITE_ARGS ->
  k_cmd (k s) = Some ci -> nth_error (pool D) ci = Some c ->
  PC s (pwa_tail c comma s).
Proof.
  intros s ci c comma Hnh Hst E1 E2. unfold pwa_tail. cbv zeta.
  destruct (Nat.ltb_spec (S (k_index (k s))) (length (c_vars c))) as [L|L]; cbn [andb].
  - destruct comma; [pc_fin|]. destruct (_ && _); [pc_fin|]. destruct (negb _); pc_fin.
  - destruct comma; [pc_fin|]. destruct (_ && _); [pc_fin|]. destruct (negb _); pc_fin.
Qed.

(* ---- the event machine ---- *)
Lemma check_unsolicited_buffers_PU : forall s, Safe s -> NH s -> u_state (u s) = US_IDLE ->
  ring_empty s = false -> PU s (check_unsolicited_buffers D s).
Proof.
  intros s HS Hnh Hst Hemp. safe_open HS. destruct Hr as (R1 & R2 & R3 & R4).
  unfold ring_empty in Hemp. apply Nat.eqb_neq in Hemp.
  unfold check_unsolicited_buffers, pop_unsolicited_cmd, ring_empty.
  destruct (u_count (u s) =? 0) eqn:E0; [apply Nat.eqb_eq in E0; lia|].
  destruct (nth_error (u_ring (u s)) (u_head (u s))) as [[ci t]|] eqn:En;
    [|apply nth_error_None in En; lia].
  assert (Hci : ci < length (pool D)) by (eapply Forall_nth_error in R4; [|exact En]; exact R4).
  match goal with |- context [setu_type t ?x] => set (s2 := setu_type t x) end.
  assert (Hnh2 : NH s2) by (subst s2; nh_fin).
  assert (Hc2 : u_count (u s2) < u_count (u s)) by (subst s2; ev; lia).
  assert (Hk2 : cmd_ok D (g_cmd UNSOL s2)) by (subst s2; ev; exact Hci).
  assert (X : forall s', TU 7 s2 s' -> PU s s').
  { intros s' (K & A & B & C). split; [rewrite K; subst s2; reflexivity|]. split; [exact B|]. unfold mU. cbn [lexlt]. left. lia. }
  destruct t; try (apply X; apply (spfra_TG UNSOL); assumption);
    try (apply X; apply (spfta_TG UNSOL); assumption);
    (split; [reflexivity | split; [exact Hnh2 | unfold mU; cbn [lexlt]; left; exact Hc2]]).
Qed.

Lemma wait_PU : forall s, NH s -> u_state (u s) = US_FLUSH_WAIT -> k_state (k s) <> CS_FLUSH ->
  PU s (unsolicited_process_io_write_wait s).
Proof.
  intros s Hnh Hst Hk. unfold unsolicited_process_io_write_wait. rewrite ncflush_true by exact Hk.
  unfold PU. split; [reflexivity|]. split; [nh_fin|].
  unfold mU, cU, ufl. ev. rewrite Hst. cbn [lexlt]. right. split; [reflexivity|]. apply lexlt_app_eq. lex_solve.
Qed.

Lemma flush_adv_PU : forall s ch, NH s -> u_state (u s) = US_FLUSH -> length (ubuf s) = usz_of D ->
  wbuf_char (u_wbuf (u s)) (ubuf s) (u_position (u s)) = Some ch ->
  PU s (setu_position (S (u_position (u s))) s).
Proof.
  intros s ch Hnh Hst Hub E. unfold PU. split; [reflexivity|]. split; [nh_fin|].
  unfold mU, cU, ufl. ev. rewrite Hst. cbn [lexlt]. right. split; [reflexivity|]. apply lexlt_app_eq.
  pose proof (wbl_adv _ _ _ _ _ E Hub). unfold frank. cbn [lexlt]. left. lia.
Qed.

Lemma flush_done_PU : forall s, Safe s -> NH s -> u_state (u s) = US_FLUSH ->
  PU s (match u_wstate (u s) with
        | WS_BEFORE => s |> setu_position 0 |> setu_wbuf WB_MAIN |> setu_wstate WS_MAIN
        | WS_MAIN => s |> setu_position 0 |> setu_wbuf (WB_NL (k_cr (k s))) |> setu_wstate WS_AFTER
        | WS_AFTER => setu_state (u_wafter (u s)) s
        end).
Proof.
  intros s HS Hnh Hst. safe_open HS. unfold Lemmas_C03b.US in HU. rewrite Hst in HU. destruct HU as [_ HA].
  pose proof (wbl_le (usz_of D) (u_wbuf (u s)) (u_position (u s))) as Hw.
  destruct (u_wstate (u s)) eqn:Ew.
  - unfold PU. split; [reflexivity|]. split; [nh_fin|].
    unfold mU, cU, ufl. ev. rewrite Hst, Ew. cbn [lexlt]. right. split; [reflexivity|].
    apply lexlt_app_eq. unfold frank. cbn [wsw wbl lexlt]. left. lia.
  - unfold PU. split; [reflexivity|]. split; [nh_fin|].
    unfold mU, cU, ufl. ev. rewrite Hst, Ew. cbn [lexlt]. right. split; [reflexivity|].
    apply lexlt_app_eq. unfold frank. cbn [wsw wbl lexlt]. left. lia.
  - unfold Uafter in HA.
    destruct (u_wafter (u s)) eqn:Ea; try contradiction;
      (unfold PU; split; [reflexivity|]; split; [nh_fin|]);
      unfold mU, cU, ufl, upre; ev; rewrite Hst, Ea; cbn [app]; lex_solve.
Qed.

Lemma ureset_PU : forall s, NH s -> hd 0 (cU s) > 0 -> PU s (unsolicited_reset_state s).
Proof.
  intros s Hnh Hc. unfold unsolicited_reset_state. unfold PU. split; [reflexivity|]. split; [nh_fin|].
  unfold mU. cbn [lexlt]. right. split; [reflexivity|].
  unfold cU at 1. ev. destruct (cU s) as [|x r]; cbn [hd] in Hc; [lia|]. cbn [lexlt]. left. lia.
Qed.


(* ---- the bodies of the reading states: not held afterwards, event machine untouched ---- *)
Definition RB (s s' : state) : Prop := NH s' /\ u s' = u s.

Ltac rb_fin := unf_helpers; unfold RB; split; [nh_fin | ev; reflexivity].
Ltac brk_if := repeat match goal with |- context [if ?x then _ else _] => destruct x end.

Lemma error_body_RB : forall ch s, NH s ->
  RB s (if (ch =? ch_LF)%N then ack_error s else if (ch =? ch_CR)%N then setk_cr true s else s).
Proof. intros ch s Hnh. brk_if; rb_fin. Qed.

Lemma idle_body_RB : forall ch s, NH s ->
  RB s (if (ch =? ch_A)%N then setk_state CS_PARSE_PREFIX s
        else if (ch =? ch_LF)%N || (ch =? ch_CR)%N then s else setk_state CS_ERROR s).
Proof. intros ch s Hnh. brk_if; rb_fin. Qed.

Lemma prefix_body_RB : forall ch s, NH s ->
  RB s (if (ch =? ch_T)%N then s |> prepare_parse_command |> setk_state CS_PARSE_COMMAND_CHAR
        else if (ch =? ch_LF)%N then ack_error s
        else if (ch =? ch_CR)%N then setk_cr true s
        else setk_state CS_ERROR s).
Proof. intros ch s Hnh. brk_if; rb_fin. Qed.

Lemma parse_command_body_RB : forall ch s, NH s ->
  RB s (if (ch =? ch_LF)%N then
          if negb (k_length (k s) =? 0) then s |> prepare_search_command |> setk_state CS_SEARCH_COMMAND
          else ack_ok s
        else if (ch =? ch_CR)%N then setk_cr true s
        else if (ch =? ch_QM)%N then
          if k_length (k s) =? 0 then setk_state CS_ERROR s
          else s |> setk_type T_READ |> setk_state CS_WAIT_READ_ACK
        else if (ch =? ch_EQ)%N then
          if k_length (k s) =? 0 then setk_state CS_ERROR s
          else s |> setk_type T_WRITE |> prepare_search_command |> setk_state CS_SEARCH_COMMAND
        else if is_name_char ch then
          s |> setk_length (S (k_length (k s))) |> setk_state CS_UPDATE_COMMAND_STATE
        else setk_state CS_ERROR s).
Proof. intros ch s Hnh. brk_if; rb_fin. Qed.

Lemma wait_read_body_RB : forall ch s, NH s ->
  RB s (if (ch =? ch_LF)%N then s |> prepare_search_command |> setk_state CS_SEARCH_COMMAND
        else if (ch =? ch_CR)%N then setk_cr true s
        else setk_state CS_ERROR s).
Proof. intros ch s Hnh. brk_if; rb_fin. Qed.

Lemma wait_test_body_RB : forall ch s, NH s -> cmd_ok D (k_cmd (k s)) ->
  RB s (if (ch =? ch_LF)%N then start_processing_format_test_args D ATCMD s
        else if (ch =? ch_CR)%N then setk_cr true s
        else setk_state CS_ERROR s).
Proof.
  intros ch s Hnh Hc. destruct (ch =? ch_LF)%N; [|brk_if; rb_fin].
  destruct (spfta_TG ATCMD s Hnh Hc) as (A & B & _). split; assumption.
Qed.

Lemma parse_command_args_body_RB : forall ch s, NH s ->
  RB s (match cmd_of D ATCMD s with
    | None => set_fault_flag s
    | Some c =>
      if (ch =? ch_LF)%N then
        if c_only_test c then ack_error s
        else if vars_access_possible c WO then
          s |> setk_state CS_PARSE_WRITE_ARGS |> setk_position 0 |> setk_index 0 |> setk_var 0
        else if negb (c_hwrite c) then ack_error s
        else s |> setk_index 0 |> setk_state CS_WRITE_LOOP
      else if (ch =? ch_CR)%N then setk_cr true s
      else if (k_length (k s) =? 0) && (ch =? ch_QM)%N
              && (c_htest c || match c_vars c with [] => false | _ => true end)
              && negb (c_implicit c)
      then s |> setk_type T_TEST |> setk_state CS_WAIT_TEST_ACK
      else
        let len := k_length (k s) in
        if asz s <=? len then setk_state CS_ERROR s
        else
          let s1 := s |> set_cbuf (upd (cbuf s) len ch) |> setk_length (S len) in
          if S len <? asz s1 then set_cbuf (upd (cbuf s1) (S len) 0%N) s1
          else setk_state CS_ERROR s1
    end).
Proof.
  intros ch s Hnh. destruct (cmd_of D ATCMD s) as [c|]; [|rb_fin]. cbv zeta.
  destruct (ch =? ch_LF)%N; [brk_if; rb_fin|].
  destruct (ch =? ch_CR)%N; [rb_fin|].
  destruct (_ && _ && _ && _); [rb_fin|].
  destruct (_ <=? _); [rb_fin|]. destruct (_ <? _); rb_fin.
Qed.

(* ---- handler results: the continuations of the loop states ---- *)
Lemma NH_hold_exit : forall s z, NH s -> fst (hold_exit s z) = s.
Proof. intros s z [A B]. unfold hold_exit. rewrite A. reflexivity. Qed.

Lemma NH_apply_edit : forall f e s, NH s -> NH (apply_edit f e s).
Proof.
  intros f e s Hnh. destruct (apply_edit_eff f e s) as [E | (b & p & E & _)]; rewrite E; [exact Hnh|].
  destruct f; nh_fin.
Qed.

Lemma u_apply_edit_A : forall e s, u (apply_edit ATCMD e s) = u s.
Proof. intros e s. destruct (apply_edit_eff ATCMD e s) as [E | (b & p & E & _)]; rewrite E; reflexivity. Qed.

Definition write_tail (code : Z) (s : state) : state :=
  if (code =? RC_OK)%Z || (code =? RC_DATA_OK)%Z then ack_ok s
  else if (code =? RC_DATA_NEXT)%Z || (code =? RC_NEXT)%Z then s
  else if (code =? RC_HOLD)%Z then enable_hold_state s
  else ack_error s.

Definition run_tail (code : Z) (s : state) : state :=
  if (code =? RC_OK)%Z || (code =? RC_DATA_OK)%Z then ack_ok s
  else if (code =? RC_DATA_NEXT)%Z || (code =? RC_NEXT)%Z then s
  else if (code =? RC_HOLD)%Z then enable_hold_state s
  else if (code =? RC_PRINT_CMD_LIST_OK)%Z then start_print_cmd_list D s
  else ack_error s.

Definition rt_tail (rd : bool) (f : fsm) (r : hres) (s : state) : state :=
  let code := r_code r in
  let s := apply_edit f (r_edit r) s in
  if (code =? RC_OK)%Z then end_with_ok f s
  else if (code =? RC_DATA_OK)%Z then start_flush_after f CS_AFTER_OK US_AFTER_OK s
  else if (code =? RC_DATA_NEXT)%Z then
    (if rd then start_flush_after f CS_AFTER_FMT_READ US_AFTER_FMT_READ s
     else start_flush_after f CS_AFTER_FMT_TEST US_AFTER_FMT_TEST s)
  else if (code =? RC_NEXT)%Z then
    (if rd then start_processing_format_read_args D f s
     else start_processing_format_test_args D f s)
  else if (code =? RC_HOLD)%Z then enable_hold_state s
  else if (code =? RC_HOLD_EXIT_OK)%Z then end_with_ok f (fst (hold_exit s ST_OK))
  else if (code =? RC_HOLD_EXIT_ERROR)%Z then end_with_error f (fst (hold_exit s ST_ERROR))
  else if (code =? RC_PRINT_CMD_LIST_OK)%Z && negb rd then
    match f with ATCMD => start_print_cmd_list D s | UNSOL => end_with_ok f s end
  else end_with_error f s.

Lemma write_tail_NH : forall code s, NH s -> (code =? RC_HOLD)%Z = false -> NH (write_tail code s).
Proof. intros code s Hnh Hc. unfold write_tail. rewrite Hc. brk_if; unf_helpers; try exact Hnh; nh_fin. Qed.

Lemma start_print_cmd_list_NH : forall s, NH s -> NH (start_print_cmd_list D s).
Proof. intros s Hnh. unfold start_print_cmd_list. brk_if; unf_helpers; nh_fin. Qed.

Lemma run_tail_NH : forall code s, NH s -> (code =? RC_HOLD)%Z = false -> NH (run_tail code s).
Proof.
  intros code s Hnh Hc. unfold run_tail. rewrite Hc. clear Hc.
  destruct (_ || _); [unf_helpers; nh_fin|]. destruct (_ || _); [exact Hnh|].
  destruct (code =? RC_PRINT_CMD_LIST_OK)%Z; [apply start_print_cmd_list_NH; exact Hnh | unf_helpers; nh_fin].
Qed.

Lemma TG_NH : forall f nc nu s s', TG f nc nu s s' -> NH s'.
Proof. intros [|] nc nu s s' H; apply H. Qed.

Lemma rt_tail_NH : forall rd f r s, NH s -> (r_code r =? RC_HOLD)%Z = false ->
  cmd_ok D (g_cmd f (apply_edit f (r_edit r) s)) -> NH (rt_tail rd f r s).
Proof.
  intros rd f r s Hnh Hc Hk. unfold rt_tail. cbv zeta. rewrite Hc. clear Hc.
  pose proof (NH_apply_edit f (r_edit r) s Hnh) as H1.
  set (s1 := apply_edit f (r_edit r) s) in *. clearbody s1.
  rewrite !NH_hold_exit by exact H1.
  assert (X1 : NH (end_with_ok f s1)) by (destruct f; unf_helpers; nh_fin).
  assert (X2 : NH (end_with_error f s1)) by (destruct f; unf_helpers; nh_fin).
  assert (X3 : forall a b, NH (start_flush_after f a b s1)) by (intros; destruct f; unf_helpers; nh_fin).
  destruct (r_code r =? RC_OK)%Z; [exact X1|]. destruct (r_code r =? RC_DATA_OK)%Z; [apply X3|].
  destruct (r_code r =? RC_DATA_NEXT)%Z; [destruct rd; apply X3|].
  destruct (r_code r =? RC_NEXT)%Z.
  { destruct rd; [eapply TG_NH, spfra_TG | eapply TG_NH, spfta_TG]; assumption. }
  destruct (r_code r =? RC_HOLD_EXIT_OK)%Z; [exact X1|]. destruct (r_code r =? RC_HOLD_EXIT_ERROR)%Z; [exact X2|].
  destruct (_ && _); [|exact X2]. destruct f; [apply start_print_cmd_list_NH; exact H1 | exact X1].
Qed.

(* an exhausted script answers OK: the loop ends *)
Lemma write_tail_default_PC : forall s, NH s -> k_state (k s) = CS_WRITE_LOOP -> PC s (write_tail RC_OK s).
Proof. intros s Hnh Hst. unfold write_tail. cbn. apply ack_ok_PC; [exact Hnh|]. unfold cC. rewrite Hst. cbn. lia. Qed.
Lemma run_tail_default_PC : forall s, NH s -> k_state (k s) = CS_RUN_LOOP -> PC s (run_tail RC_OK s).
Proof. intros s Hnh Hst. unfold run_tail. cbn. apply ack_ok_PC; [exact Hnh|]. unfold cC. rewrite Hst. cbn. lia. Qed.
Lemma rt_tail_default_PG : forall rd f s, NH s -> loop_state f s ->
  PG f s (rt_tail rd f (mkHres RC_OK None [] []) s).
Proof.
  intros rd f s Hnh Hst. unfold rt_tail. cbn. destruct f; cbn [loop_state] in Hst.
  - apply ack_ok_PC; [exact Hnh|]. unfold cC. destruct Hst as [E|E]; rewrite E; cbn; lia.
  - apply ureset_PU; [exact Hnh|]. unfold cU. destruct Hst as [E|E]; rewrite E; cbn; lia.
Qed.

End Pure.

(* ------------------------------------------------------------------ *)
(* mixed-radix encoding of bounded tuples (for the explicit bound)      *)
(* ------------------------------------------------------------------ *)

Fixpoint prodl (bs : list nat) : nat := match bs with [] => 1 | b :: r => b * prodl r end.
Fixpoint enc (bs l : list nat) : nat :=
  match bs, l with
  | b :: bs', x :: l' => x * prodl bs' + enc bs' l'
  | _, _ => 0
  end.

Lemma enc_lt : forall bs l, Forall2 lt l bs -> enc bs l < prodl bs.
Proof.
  intros bs l H. induction H as [|x b l bs Hx _ IH]; cbn [enc prodl]; [lia|].
  assert (S x * prodl bs <= b * prodl bs) by (apply Nat.mul_le_mono_r; lia). lia.
Qed.

Lemma enc_mono : forall bs l l', lexlt l l' -> Forall2 lt l bs -> length l' = length bs ->
  enc bs l < enc bs l'.
Proof.
  induction bs as [|b bs IH]; intros l l' H F L.
  - inversion F; subst. destruct H.
  - inversion F as [|x b0 l0 bs0 Hx F']; subst. destruct l' as [|x' l0']; [destruct H|].
    cbn [length] in L. injection L as L. cbn [lexlt enc] in *.
    pose proof (enc_lt _ _ F') as He.
    destruct H as [H | [-> H]].
    + assert (S x * prodl bs <= x' * prodl bs) by (apply Nat.mul_le_mono_r; lia). lia.
    + specialize (IH _ _ H F' L). lia.
Qed.

Section Bounds.
Variable D : desc.

Local Notation max_vars := (max_vars D).

Lemma nv_le : forall oc, nv D oc <= max_vars.
Proof.
  intros [ci|]; cbn [nv]; [|lia]. destruct (nth_error (pool D) ci) as [c|] eqn:E; [|lia].
  apply nth_error_In in E. unfold max_vars. induction (pool D) as [|c0 r IH]; [destruct E|].
  cbn [fold_right]. destruct E as [-> | E]; [lia | specialize (IH E); lia].
Qed.

Definition bsC : list nat := [21; ncmds D + max_vars + 1; 7; 3 * asz_of D + 14].
Definition bsU : list nat := [10; max_vars + 1; 3 * usz_of D + 14].

Lemma frank_lt : forall W wait ws wb p, frank W wait ws wb p < 3 * W + 14.
Proof.
  intros W wait ws wb p. unfold frank. pose proof (wbl_le W wb p).
  destruct wait, ws; cbn [wsw]; lia.
Qed.

Lemma tyr_lt : forall t, tyr t < 7.
Proof. destruct t; cbn; lia. Qed.

Ltac f2 := repeat (apply Forall2_cons; [lia|]); apply Forall2_nil.

Lemma cC_bounded : forall s, Forall2 lt (cC D s) bsC.
Proof.
  intros s. unfold cC, cfl, fpre, bsC.
  pose proof (nv_le (k_cmd (k s))). pose proof (tyr_lt (k_type (k s))).
  pose proof (frank_lt (asz_of D) true (k_wstate (k s)) (k_wbuf (k s)) (k_position (k s))).
  pose proof (frank_lt (asz_of D) false (k_wstate (k s)) (k_wbuf (k s)) (k_position (k s))).
  destruct (k_state (k s)); try solve [f2];
    destruct (k_wafter (k s)); cbn [app]; f2.
Qed.

Lemma cU_bounded : forall s, Forall2 lt (cU D s) bsU.
Proof.
  intros s. unfold cU, ufl, upre, bsU.
  pose proof (nv_le (u_cmd (u s))).
  pose proof (frank_lt (usz_of D) true (u_wstate (u s)) (u_wbuf (u s)) (u_position (u s))).
  pose proof (frank_lt (usz_of D) false (u_wstate (u s)) (u_wbuf (u s)) (u_position (u s))).
  destruct (u_state (u s)); try solve [f2];
    destruct (u_wafter (u s)); cbn [app]; f2.
Qed.

(* ranks as numbers *)
Definition rC (s : state) : nat := enc bsC (cC D s).
Definition rU (s : state) : nat := enc bsU (cU D s).
Definition RC : nat := prodl bsC.
Definition RU : nat := prodl bsU.

Lemma rC_lt : forall s, rC s < RC.
Proof. intros s. apply enc_lt, cC_bounded. Qed.
Lemma rU_lt : forall s, rU s < RU.
Proof. intros s. apply enc_lt, cU_bounded. Qed.

Lemma rC_mono : forall s s', lexlt (cC D s') (cC D s) -> rC s' < rC s.
Proof. intros s s' H. apply enc_mono; [exact H | apply cC_bounded | rewrite cC_len; reflexivity]. Qed.
Lemma rU_mono : forall s s', lexlt (cU D s') (cU D s) -> rU s' < rU s.
Proof. intros s s' H. apply enc_mono; [exact H | apply cU_bounded | rewrite cU_len; reflexivity]. Qed.

(* frames of the handler continuations on the event queue *)
Definition FR (f : fsm) (s s' : state) : Prop :=
  match f with ATCMD => u s' = u s | UNSOL => u_count (u s') = u_count (u s) end.

Lemma TG_FR : forall f nc nu s s', TG D f nc nu s s' -> FR f s s'.
Proof. intros [|] nc nu s s' H; cbn; apply H. Qed.

Lemma write_tail_u : forall code s, u (write_tail code s) = u s.
Proof. intros code s. unfold write_tail. repeat match goal with |- context [if ?x then _ else _] => destruct x end; reflexivity. Qed.

Lemma start_print_cmd_list_u : forall s, u (start_print_cmd_list D s) = u s.
Proof. intros s. unfold start_print_cmd_list. destruct (_ =? _); reflexivity. Qed.

Lemma run_tail_u : forall code s, u (run_tail D code s) = u s.
Proof.
  intros code s. unfold run_tail.
  repeat match goal with |- context [if ?x then _ else _] => destruct x end;
    try reflexivity; apply start_print_cmd_list_u.
Qed.

Lemma rt_tail_FR : forall rd f r s, NH s ->
  cmd_ok D (g_cmd f (apply_edit f (r_edit r) s)) -> FR f s (rt_tail D rd f r s).
Proof.
  intros rd f r s Hnh Hk. unfold rt_tail. cbv zeta.
  pose proof (NH_apply_edit f (r_edit r) s Hnh) as H1.
  assert (E0 : FR f s (apply_edit f (r_edit r) s)).
  { destruct (apply_edit_eff f (r_edit r) s) as [E | (b & p & E & _)]; rewrite E; destruct f; reflexivity. }
  set (s1 := apply_edit f (r_edit r) s) in *. clearbody s1.
  rewrite !NH_hold_exit by exact H1.
  assert (T : forall s', FR f s1 s' -> FR f s s') by (intros s' X; destruct f; cbn in *; congruence).
  assert (X1 : FR f s (end_with_ok f s1)) by (apply T; destruct f; reflexivity).
  assert (X2 : FR f s (end_with_error f s1)) by (apply T; destruct f; reflexivity).
  assert (X3 : forall a b, FR f s (start_flush_after f a b s1)) by (intros; apply T; destruct f; reflexivity).
  destruct (r_code r =? RC_OK)%Z; [exact X1|]. destruct (r_code r =? RC_DATA_OK)%Z; [apply X3|].
  destruct (r_code r =? RC_DATA_NEXT)%Z; [destruct rd; apply X3|].
  destruct (r_code r =? RC_NEXT)%Z.
  { apply T. destruct rd; [eapply TG_FR, spfra_TG | eapply TG_FR, spfta_TG]; assumption. }
  destruct (r_code r =? RC_HOLD)%Z; [apply T; destruct f; reflexivity|].
  destruct (r_code r =? RC_HOLD_EXIT_OK)%Z; [exact X1|]. destruct (r_code r =? RC_HOLD_EXIT_ERROR)%Z; [exact X2|].
  destruct (_ && _); [|exact X2]. destruct f; [apply T; apply start_print_cmd_list_u | exact X1].
Qed.

Lemma PG_cap : forall f s s', PG D f s s' -> u_count (u s') <= u_count (u s).
Proof.
  intros [|] s s' H; cbn in H.
  - destruct H as (A & _). rewrite A. lia.
  - destruct H as (_ & _ & C). unfold mU in C. cbn [lexlt] in C. lia.
Qed.

End Bounds.
