(* Lemmas_C15ba.v — property C15, second half (termination), part a: the lexicographic
   measure, the no-hold invariant, and the progress lemmas of the pure step functions of both
   machines under the safety invariant Safe (Lemmas_C03b).  Part b (Lemmas_C15b.v) assembles the
   steps on the scripted world and proves the theorem. *)
From Coq Require Import List NArith ZArith Bool Arith Lia Wf_nat.
From CatV Require Import Bytes Defs Codec Fsm Lemmas_C03 Lemmas_C12.
Import ListNotations.
Local Open Scope nat_scope.

(* ------------------------------------------------------------------ *)
(* lexicographic order on lists of naturals of equal length            *)
(* ------------------------------------------------------------------ *)

Fixpoint lexlt (a b : list nat) : Prop :=
  match a, b with
  | x :: a', y :: b' => x < y \/ (x = y /\ lexlt a' b')
  | _, _ => False
  end.

Definition lexR (a b : list nat) : Prop := length a = length b /\ lexlt a b.

Lemma lexR_wf_len : forall n l, length l = n -> Acc lexR l.
Proof.
  induction n as [|n IHn]; intros l Hl.
  - destruct l; [|discriminate]. constructor. intros a [_ H]. destruct a; destruct H.
  - destruct l as [|y b]; [discriminate|]. injection Hl as Hl. revert b Hl.
    induction y as [y IHy] using lt_wf_ind. intros b Hb.
    pose proof (IHn b Hb) as Ab. induction Ab as [b _ IHb].
    constructor. intros a [Hlen Hlt]. destruct a as [|x a']; [destruct Hlt|].
    cbn [length] in Hlen. injection Hlen as Hlen. cbn [lexlt] in Hlt.
    destruct Hlt as [Hlt | [-> Hlt]].
    + apply IHy; [exact Hlt | congruence].
    + apply IHb; [split; assumption | congruence].
Qed.

Lemma lexlt_trans : forall a b c, lexlt a b -> lexlt b c -> lexlt a c.
Proof.
  induction a as [|x a IH]; intros b c H1 H2; [destruct H1|].
  destruct b as [|y b]; [destruct H1|]. destruct c as [|z c]; [destruct H2|].
  cbn [lexlt] in *. destruct H1 as [H1 | [-> H1]]; destruct H2 as [H2 | [-> H2]].
  - left; lia.
  - left; exact H1.
  - left; exact H2.
  - right; split; [reflexivity | eapply IH; eassumption].
Qed.

Lemma lexlt_app_eq : forall a b b', lexlt b b' -> lexlt (a ++ b) (a ++ b').
Proof. induction a as [|x a IH]; intros b b' H; [exact H|]. cbn. right. split; [reflexivity | apply IH, H]. Qed.

Lemma lexlt_app_lt : forall a a' b b', length a = length a' -> lexlt a a' -> lexlt (a ++ b) (a' ++ b').
Proof.
  induction a as [|x a IH]; intros a' b b' Hl H; [destruct H|].
  destruct a' as [|y a']; [destruct H|]. cbn [length] in Hl. injection Hl as Hl.
  cbn [lexlt app] in *. destruct H as [H | [-> H]]; [left; exact H | right; split; [reflexivity | apply IH; assumption]].
Qed.

Ltac lex_solve_core :=
  cbn [lexlt]; repeat (first [ left; lia | right; split; [lia|] ]).

(* ------------------------------------------------------------------ *)
(* the measure                                                          *)
(* ------------------------------------------------------------------ *)

(* cost of what remains of a flush: phase weight + distance of the cursor to the end of the text *)
Definition wsw (W : nat) (ws : wstate) : nat :=
  match ws with WS_BEFORE => 2 * (W + 4) | WS_MAIN => W + 4 | WS_AFTER => 0 end.
Definition wbl (W : nat) (wb : wbuf) (p : nat) : nat :=
  match wb with WB_NL _ => 3 - p | WB_MAIN => W + 1 - p end.
Definition frank (W : nat) (wait : bool) (ws : wstate) (wb : wbuf) (p : nat) : nat :=
  (if wait then 2 else 1) + wsw W ws + wbl W wb p.

(* rank of the request type inside one row of the command list *)
Definition tyr (t : ctype) : nat :=
  match t with T_NONE => 6 | T_RUN => 5 | T_READ => 4 | T_WRITE => 3 | T_TEST => 2 | T_TOTAL => 1 end.

Ltac lex_solve := unfold frank; cbn [wsw wbl tyr]; lex_solve_core.

Section Measure.
Variable D : desc.

(* number of variables of the command being processed *)
Definition nv (oc : option nat) : nat :=
  match oc with
  | Some ci => match nth_error (pool D) ci with Some c => length (c_vars c) | None => 0 end
  | None => 0
  end.

(* a pending flush: the class is that of the continuation *)
Definition fpre (s : state) : list nat :=
  let x := k s in
  match k_wafter x with
  | CS_PRINT_CMD => [11; ncmds D - k_index x; tyr (k_type x)]
  | CS_AFTER_FMT_READ | CS_AFTER_FMT_TEST => [15; 0; 0]
  | CS_AFTER_OK => [10; 0; 0]
  | _ => [8; 0; 0]
  end.
Definition cfl (wait : bool) (s : state) : list nat :=
  let x := k s in
  fpre s ++ [frank (asz_of D) wait (k_wstate x) (k_wbuf x) (k_position x)].

(* the command machine: phase class, then the local counters of the phase *)
Definition cC (s : state) : list nat :=
  let x := k s in
  match k_state x with
  | CS_UPDATE_COMMAND_STATE => [20; ncmds D - k_index x; 0; 0]
  | CS_SEARCH_COMMAND => [19; ncmds D - k_index x; 0; 0]
  | CS_COMMAND_FOUND => [18; 0; 0; 0]
  | CS_COMMAND_NOT_FOUND => [17; 0; 0; 0]
  | CS_PARSE_WRITE_ARGS => [16; nv (k_cmd x) - k_index x; 0; 0]
  | CS_FLUSH_WAIT => cfl true s
  | CS_FLUSH => cfl false s
  | CS_AFTER_FMT_READ | CS_AFTER_FMT_TEST => [14; 0; 0; 0]
  | CS_FORMAT_READ_ARGS | CS_FORMAT_TEST_ARGS => [13; nv (k_cmd x) - k_index x; 0; 0]
  | CS_WRITE_LOOP | CS_RUN_LOOP | CS_READ_LOOP | CS_TEST_LOOP => [12; 0; 0; 0]
  | CS_PRINT_CMD => [11; ncmds D - k_index x; tyr (k_type x); 0]
  | CS_AFTER_OK => [9; 0; 0; 0]
  | CS_AFTER_RESET => [7; 0; 0; 0]
  | _ => [0; 0; 0; 0]
  end.

Definition upre (s : state) : list nat :=
  match u_wafter (u s) with
  | US_AFTER_FMT_READ | US_AFTER_FMT_TEST => [9; 0]
  | US_AFTER_OK => [5; 0]
  | _ => [3; 0]
  end.
Definition ufl (wait : bool) (s : state) : list nat :=
  let y := u s in
  upre s ++ [frank (usz_of D) wait (u_wstate y) (u_wbuf y) (u_position y)].

(* the event machine *)
Definition cU (s : state) : list nat :=
  let y := u s in
  match u_state y with
  | US_FLUSH_WAIT => ufl true s
  | US_FLUSH => ufl false s
  | US_AFTER_FMT_READ | US_AFTER_FMT_TEST => [8; 0; 0]
  | US_FORMAT_READ_ARGS | US_FORMAT_TEST_ARGS => [7; nv (u_cmd y) - u_index y; 0]
  | US_READ_LOOP | US_TEST_LOOP => [6; 0; 0]
  | US_AFTER_OK => [4; 0; 0]
  | US_AFTER_RESET => [2; 0; 0]
  | US_IDLE => [0; 0; 0]
  end.

(* queued events first: popping one restarts the event machine *)
Definition mU (s : state) : list nat := u_count (u s) :: cU s.

Lemma cC_len : forall s, length (cC s) = 4.
Proof. intros s. unfold cC, cfl, fpre. destruct (k_state (k s)); try reflexivity; destruct (k_wafter (k s)); reflexivity. Qed.
Lemma cU_len : forall s, length (cU s) = 3.
Proof. intros s. unfold cU, ufl, upre. destruct (u_state (u s)); try reflexivity; destruct (u_wafter (u s)); reflexivity. Qed.

(* the command is not held and no release is pending *)
Definition NH (s : state) : Prop := k_hold (k s) = false /\ k_state (k s) <> CS_HOLD.

(* a productive step of the command machine: the event machine's record is untouched *)
Definition PC (s s' : state) : Prop := u s' = u s /\ NH s' /\ lexlt (cC s') (cC s).
(* a productive step of the event machine *)
Definition PU (s s' : state) : Prop := NH s' /\ lexlt (mU s') (mU s).
Definition PG (f : fsm) (s s' : state) : Prop := match f with ATCMD => PC s s' | UNSOL => PU s s' end.

(* target-class form: the step ends in a phase of class at most n *)
Definition TC (n : nat) (s s' : state) : Prop := u s' = u s /\ NH s' /\ hd 0 (cC s') <= n.
Definition TU (n : nat) (s s' : state) : Prop :=
  u_count (u s') = u_count (u s) /\ NH s' /\ hd 0 (cU s') <= n.
Definition TG (f : fsm) (nc nu : nat) (s s' : state) : Prop :=
  match f with ATCMD => TC nc s s' | UNSOL => TU nu s s' end.

Lemma lexlt_hd : forall a b, hd 0 a < hd 0 b -> a <> [] -> b <> [] -> lexlt a b.
Proof. intros [|x a] [|y b] H Ha Hb; try congruence. cbn in *. left. exact H. Qed.

Lemma TC_PC : forall n s s', TC n s s' -> n < hd 0 (cC s) -> PC s s'.
Proof.
  intros n s s' (A & B & C) H. split; [exact A|]. split; [exact B|].
  apply lexlt_hd; [lia | |]; intro E; apply (f_equal (@length nat)) in E; rewrite cC_len in E; discriminate.
Qed.
Lemma TU_PU : forall n s s', TU n s s' -> n < hd 0 (cU s) -> PU s s'.
Proof.
  intros n s s' (A & B & C) H. split; [exact B|]. unfold mU. rewrite A. cbn [lexlt]. right. split; [reflexivity|].
  apply lexlt_hd; [lia | |]; intro E; apply (f_equal (@length nat)) in E; rewrite cU_len in E; discriminate.
Qed.
Lemma TC_le : forall n n' s s', TC n s s' -> n <= n' -> TC n' s s'.
Proof. intros n n' s s' (A & B & C) H. repeat split; try assumption; try apply B. lia. Qed.
Lemma TU_le : forall n n' s s', TU n s s' -> n <= n' -> TU n' s s'.
Proof. intros n n' s s' (A & B & C) H. repeat split; try assumption; try apply B. lia. Qed.

End Measure.

(* ------------------------------------------------------------------ *)
(* projections through the opaque helpers                               *)
(* ------------------------------------------------------------------ *)

Lemma k_put_cur_A : forall c s, k (put_cur ATCMD c s) = set_k_position (cu_pos c) (k s).
Proof. intros c s. unfold put_cur. destruct (cu_fault c); reflexivity. Qed.
Lemma u_put_cur_A : forall c s, u (put_cur ATCMD c s) = u s.
Proof. intros c s. unfold put_cur. destruct (cu_fault c); reflexivity. Qed.
Lemma k_put_cur_U : forall c s, k (put_cur UNSOL c s) = k s.
Proof. intros c s. unfold put_cur. destruct (cu_fault c); reflexivity. Qed.
Lemma u_put_cur_U : forall c s, u (put_cur UNSOL c s) = set_u_position (cu_pos c) (u s).
Proof. intros c s. unfold put_cur. destruct (cu_fault c); reflexivity. Qed.
Lemma k_set_cmd_state : forall s i v, k (set_cmd_state s i v) = k s.
Proof. intros s i v. unfold set_cmd_state. destruct (nth_error _ _); reflexivity. Qed.
Lemma u_set_cmd_state' : forall s i v, u (set_cmd_state s i v) = u s.
Proof. intros s i v. unfold set_cmd_state. destruct (nth_error _ _); reflexivity. Qed.
Lemma fault_put_cur : forall f c s, fault s = true -> fault (put_cur f c s) = true.
Proof. intros f c s H. unfold put_cur. destruct (cu_fault c); destruct f; cbn; auto. Qed.

#[export] Hint Rewrite k_put_cur_A u_put_cur_A k_put_cur_U u_put_cur_U k_set_cmd_state u_set_cmd_state' : c15kv.

(* evaluate projections of setter chains *)
Ltac ev := repeat (progress (sproj; try autorewrite with c15kv)).
Ltac ev_in H := repeat (progress (sproj_in H; try autorewrite with c15kv in H)).

Ltac unf_helpers :=
  unfold end_with_error, end_with_ok, ack_error, ack_ok, start_flush_after_ok, start_flush_after,
         start_flush_c, start_flush_u, start_flush_raw_c, set_loop_state, unsolicited_reset_state,
         prepare_search_command, prepare_parse_command, enable_hold_state in *.

Section Pure.
Variable D : desc.
Variable m : list (list N).
Hypothesis WF : wf_desc D m.

Local Notation Safe := (Safe D m).
Local Notation Pre := (Pre D m).
Local Notation KS := (KS D).
Local Notation US := (US D).
Local Notation cC := (cC D).
Local Notation cU := (cU D).
Local Notation mU := (mU D).
Local Notation PC := (PC D).
Local Notation PU := (PU D).
Local Notation PG := (PG D).
Local Notation TC := (TC D).
Local Notation TU := (TU D).
Local Notation TG := (TG D).

Ltac base_open H :=
  let Hf := fresh "Hf" in let Hcb := fresh "Hcb" in let Hub := fresh "Hub" in
  let Hm := fresh "Hm" in let Hkc := fresh "Hkc" in let Huc := fresh "Huc" in
  let Hr := fresh "Hr" in
  destruct H as (Hf & Hcb & Hub & Hm & Hkc & Huc & Hr).

Ltac safe_open H :=
  let HB := fresh "HB" in let HK := fresh "HK" in let HU := fresh "HU" in
  destruct H as (HB & HK & HU); base_open HB.

(* close a goal PC s leaf / PU s leaf where leaf is a setter chain over s;
   Hst : k_state (k s) = _ (resp. u_state), Hnh : NH s are in the context *)
Ltac nh_fin :=
  match goal with
  | Hnh : NH ?s |- NH _ =>
    let A := fresh in let B := fresh in
    destruct Hnh as [A B]; unfold NH; ev; split; [try assumption; try reflexivity | try assumption; try discriminate; try congruence]
  end.

Ltac pc_fin :=
  unfold PC; split; [ev; try reflexivity | split; [nh_fin | unfold cC, cfl; ev;
    repeat match goal with E : k_state (k _) = _ |- _ => rewrite E end; ev; lex_solve]].

Ltac pu_fin :=
  unfold PU; split; [nh_fin | unfold mU, cU, ufl; ev;
    repeat match goal with E : u_state (u _) = _ |- _ => rewrite E end; ev; lex_solve].

(* ---- simple states of the command machine ---- *)

Lemma nflush_true : forall x, x <> US_FLUSH -> negb (ustate_beq x US_FLUSH) = true.
Proof. intros x H. destruct x; try reflexivity. congruence. Qed.
Lemma ncflush_true : forall x, x <> CS_FLUSH -> negb (cstate_beq x CS_FLUSH) = true.
Proof. intros x H. destruct x; try reflexivity. congruence. Qed.

Lemma wait_PC : forall s, NH s -> k_state (k s) = CS_FLUSH_WAIT -> u_state (u s) <> US_FLUSH ->
  PC s (process_io_write_wait s).
Proof.
  intros s Hnh Hst Hu. unfold process_io_write_wait. rewrite nflush_true by exact Hu.
  unfold PC. split; [reflexivity|]. split; [nh_fin|].
  unfold cC, cfl. ev. rewrite Hst. apply lexlt_app_eq. lex_solve.
Qed.

Lemma wbl_adv : forall W wb b p ch, wbuf_char wb b p = Some ch -> length b = W ->
  wbl W wb (S p) < wbl W wb p.
Proof.
  intros W wb b p ch E L. unfold wbuf_char in E. unfold wbl.
  assert (X : forall (l : list N), nth_error l p = Some ch -> p < length l)
    by (intros l El; apply nth_error_Some; congruence).
  destruct wb as [[|]|]; apply X in E; cbn [length] in E; lia.
Qed.

Lemma flush_adv_PC : forall s ch, NH s -> k_state (k s) = CS_FLUSH -> length (cbuf s) = asz_of D ->
  wbuf_char (k_wbuf (k s)) (cbuf s) (k_position (k s)) = Some ch ->
  PC s (setk_position (S (k_position (k s))) s).
Proof.
  intros s ch Hnh Hst Hcb E. unfold PC. split; [reflexivity|]. split; [nh_fin|].
  unfold cC, cfl. ev. rewrite Hst. apply lexlt_app_eq.
  pose proof (wbl_adv _ _ _ _ _ E Hcb). unfold frank. cbn [lexlt]. left. lia.
Qed.

Lemma wbl_le : forall W wb p, wbl W wb p <= W + 3.
Proof. intros W wb p. unfold wbl. destruct wb; lia. Qed.

Lemma flush_done_PC : forall s, Safe s -> NH s -> k_state (k s) = CS_FLUSH ->
  PC s (match k_wstate (k s) with
        | WS_BEFORE => s |> setk_position 0 |> setk_wbuf WB_MAIN |> setk_wstate WS_MAIN
        | WS_MAIN => s |> setk_position 0 |> setk_wbuf (WB_NL (k_cr (k s))) |> setk_wstate WS_AFTER
        | WS_AFTER =>
          let s1 := setk_state (k_wafter (k s)) s in
          if cstate_beq (k_wafter (k s)) CS_AFTER_RESET then set_gR (S (gR s1)) s1 else s1
        end).
Proof.
  intros s HS Hnh Hst. safe_open HS. unfold Lemmas_C03b.KS in HK. rewrite Hst in HK. destruct HK as [_ HA].
  pose proof (wbl_le (asz_of D) (k_wbuf (k s)) (k_position (k s))) as Hw.
  destruct (k_wstate (k s)) eqn:Ew.
  - unfold PC. split; [reflexivity|]. split; [nh_fin|].
    unfold cC, cfl. ev. rewrite Hst, Ew. apply lexlt_app_eq. unfold frank. cbn [wsw wbl lexlt]. left. lia.
  - unfold PC. split; [reflexivity|]. split; [nh_fin|].
    unfold cC, cfl. ev. rewrite Hst, Ew. apply lexlt_app_eq. unfold frank. cbn [wsw wbl lexlt]. left. lia.
  - cbv zeta. unfold Kafter in HA.
    destruct (k_wafter (k s)) eqn:Ea; try contradiction; cbn [cstate_beq];
      (unfold PC; split; [reflexivity|]; split; [nh_fin|]);
      unfold cC, cfl, fpre; ev; rewrite Hst, Ea; cbn [app]; lex_solve.
Qed.

Lemma reset_PC : forall s, NH s -> k_state (k s) = CS_AFTER_RESET -> PC s (reset_state s).
Proof.
  intros s Hnh Hst. unfold reset_state. destruct Hnh as [Hh Hn]. rewrite Hh.
  unfold PC. split; [reflexivity|]. split; [unfold NH; ev; split; [exact Hh | discriminate]|].
  unfold cC. ev. rewrite Hst. lex_solve.
Qed.

Lemma ack_ok_PC : forall s, NH s -> hd 0 (cC s) > 8 -> PC s (ack_ok s).
Proof.
  intros s Hnh Hc. unfold ack_ok, start_flush_c. unfold PC. split; [reflexivity|]. split; [nh_fin|].
  unfold cC at 1. unfold cfl, fpre. ev. cbn [app]. destruct (cC s) as [|x r]; cbn [hd] in Hc; [lia|].
  cbn [lexlt]. left. lia.
Qed.

Lemma ack_error_PC : forall s, NH s -> hd 0 (cC s) > 8 -> PC s (ack_error s).
Proof.
  intros s Hnh Hc. unfold ack_error, start_flush_c. unfold PC. split; [reflexivity|]. split; [nh_fin|].
  unfold cC at 1. unfold cfl, fpre. ev. cbn [app]. destruct (cC s) as [|x r]; cbn [hd] in Hc; [lia|].
  cbn [lexlt]. left. lia.
Qed.


(* ---- leaves ---- *)
Ltac tc_fin :=
  unf_helpers; unfold TC; split; [ev; try reflexivity | split; [nh_fin | unfold cC, cfl, fpre; ev; cbn [hd app]; try lia]].
Ltac tu_fin :=
  unf_helpers; unfold TU; split; [ev; try reflexivity | split; [nh_fin | unfold cU, ufl, upre; ev; cbn [hd app]; try lia]].
Ltac tg_fin := unfold TG; first [tc_fin | tu_fin].

Ltac brk_pair :=
  match goal with
  | |- context [let (_, _) := ?x in _] => destruct x as [? ?]
  end.

Lemma spfra_TG : forall f s, NH s -> cmd_ok D (g_cmd f s) ->
  TG f 13 7 s (start_processing_format_read_args D f s).
Proof.
  intros f s Hnh Hc. unfold start_processing_format_read_args, cmd_of, cmd_at, print_string.
  destruct f; sproj; sproj_in Hc; destruct (cmd_ok_at D _ Hc) as (ci & c & E1 & E2); rewrite E1, E2.
  - brk_pair. destruct b; cbn [negb]; [|tg_fin].
    brk_pair. destruct b; cbn [negb]; [|tg_fin].
    destruct (vars_access_possible c RO); [tg_fin|].
    destruct (c_hread c); cbn [negb]; tg_fin.
  - brk_pair. destruct b; cbn [negb]; [|tg_fin].
    brk_pair. destruct b; cbn [negb]; [|tg_fin].
    destruct (vars_access_possible c RO); [tg_fin|].
    destruct (c_hread c); cbn [negb]; tg_fin.
Qed.

End Pure.
