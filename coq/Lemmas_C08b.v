(* Lemmas_C08b.v — property C08, second half: write-only non-interference over histories.
   Two runs that start from memories of the same shape which agree on every slot that is not
   write-only, with the same input, the same oracles and the same handlers, produce the same
   trace (up to the `stored` payload handed to the write callback of a write-only variable),
   the same final state except `mem`, and final memories that are again of the same shape and
   agree outside the write-only slots. *)
From Coq Require Import List NArith ZArith Bool Arith Lia.
From CatV Require Import Bytes Defs Codec Spec Fsm Lemmas_C08.
Import ListNotations.
Local Open Scope nat_scope.

(* ================================================================== *)
(* A. the decoders: status, write size and consumed count do not depend on the old storage *)
(* ================================================================== *)

Lemma store_prefix_rel : forall d1 d2 b, length d1 = length d2 ->
  match store_prefix d1 b, store_prefix d2 b with
  | Some a1, Some a2 => length a1 = length a2
  | None, None => True
  | _, _ => False
  end.
Proof.
  intros d1 d2 b H. unfold store_prefix. rewrite H.
  destruct (length d2 <? length b) eqn:E; [exact Logic.I|].
  apply Nat.ltb_ge in E.
  rewrite !app_length, !skipn_length. lia.
Qed.

Definition dres_rel (r1 r2 : pstat * list N * nat * nat) : Prop :=
  let '(p1, d1, w1, n1) := r1 in
  let '(p2, d2, w2, n2) := r2 in
  p1 = p2 /\ w1 = w2 /\ n1 = n2 /\ length d1 = length d2.

Lemma validate_int_rel : forall ro dsz val d1 d2, length d1 = length d2 ->
  match validate_int ro dsz val d1, validate_int ro dsz val d2 with
  | VOk a1 w1, VOk a2 w2 => length a1 = length a2 /\ w1 = w2
  | VFault, VFault => True
  | VErr, VErr => True
  | _, _ => False
  end.
Proof.
  intros ro dsz val d1 d2 H. unfold validate_int.
  destruct ro; [split; [exact H | reflexivity]|].
  destruct (negb (supported_width dsz)); [exact Logic.I|].
  destruct ((val <? - Z.of_N (two_pow8 dsz / 2)) || (Z.of_N (two_pow8 dsz / 2) - 1 <? val))%Z;
    [exact Logic.I|].
  pose proof (store_prefix_rel d1 d2 (le_bytes_signed dsz val) H) as S.
  destruct (store_prefix d1 (le_bytes_signed dsz val)), (store_prefix d2 (le_bytes_signed dsz val));
    try contradiction; [split; [exact S | reflexivity] | exact Logic.I].
Qed.

Lemma validate_uint_rel : forall ro dsz val d1 d2, length d1 = length d2 ->
  match validate_uint ro dsz val d1, validate_uint ro dsz val d2 with
  | VOk a1 w1, VOk a2 w2 => length a1 = length a2 /\ w1 = w2
  | VFault, VFault => True
  | VErr, VErr => True
  | _, _ => False
  end.
Proof.
  intros ro dsz val d1 d2 H. unfold validate_uint.
  destruct ro; [split; [exact H | reflexivity]|].
  destruct (negb (supported_width dsz)); [exact Logic.I|].
  destruct (two_pow8 dsz - 1 <? val)%N; [exact Logic.I|].
  pose proof (store_prefix_rel d1 d2 (le_bytes dsz val) H) as S.
  destruct (store_prefix d1 (le_bytes dsz val)), (store_prefix d2 (le_bytes dsz val));
    try contradiction; [split; [exact S | reflexivity] | exact Logic.I].
Qed.

Definition bres_rel (r1 r2 : bres) : Prop :=
  b_st r1 = b_st r2 /\ b_wsize r1 = b_wsize r2 /\ b_n r1 = b_n r2 /\
  length (b_data r1) = length (b_data r2).

Lemma bres_rel_mk : forall p d1 d2 w n, length d1 = length d2 ->
  bres_rel (mkBres p d1 w n) (mkBres p d2 w n).
Proof. intros. repeat split; assumption. Qed.

Lemma parse_bufhex_go_rel : forall l byte st size d1 d2 ro dsz n, length d1 = length d2 ->
  bres_rel (parse_bufhex_go l byte st size d1 ro dsz n) (parse_bufhex_go l byte st size d2 ro dsz n).
Proof.
  induction l as [|ch0 l IH]; intros byte st size d1 d2 ro dsz n H; cbn [parse_bufhex_go].
  - apply bres_rel_mk; exact H.
  - cbv zeta.
    destruct ((0 <? size) && negb st && is_term (to_upper ch0)); [apply bres_rel_mk; exact H|].
    destruct (negb (is_hex (to_upper ch0))); [apply bres_rel_mk; exact H|].
    destruct st; [|apply IH; exact H].
    destruct (dsz <=? size); [apply bres_rel_mk; exact H|].
    destruct ro; [apply IH; exact H|].
    rewrite H. destruct (size <? length d2); [|apply bres_rel_mk; exact H].
    apply IH. rewrite !upd_length. exact H.
Qed.

Lemma parse_bufstr_go_rel : forall l st size d1 d2 ro dsz n, length d1 = length d2 ->
  bres_rel (parse_bufstr_go l st size d1 ro dsz n) (parse_bufstr_go l st size d2 ro dsz n).
Proof.
  induction l as [|ch l IH]; intros st size d1 d2 ro dsz n H; cbn [parse_bufstr_go].
  - apply bres_rel_mk; exact H.
  - cbv zeta. destruct st as [|[|[|st]]].
    + destruct (ch =? ch_QUOTE)%N; [apply IH; exact H | apply bres_rel_mk; exact H].
    + destruct (ch =? 0)%N; [apply bres_rel_mk; exact H|].
      destruct (ch =? ch_BSL)%N; [apply IH; exact H|].
      destruct (ch =? ch_QUOTE)%N; [apply IH; exact H|].
      destruct (dsz <=? size); [apply bres_rel_mk; exact H|].
      destruct ro; [apply IH; exact H|].
      rewrite H. destruct (size <? length d2); [|apply bres_rel_mk; exact H].
      apply IH. rewrite !upd_length. exact H.
    + destruct (if (ch =? ch_BSL)%N then Some ch_BSL
                else if (ch =? ch_QUOTE)%N then Some ch_QUOTE
                else if (ch =? ch_n)%N then Some ch_LF else None) as [c|];
        [|apply bres_rel_mk; exact H].
      destruct (dsz <=? size); [apply bres_rel_mk; exact H|].
      destruct ro; [apply IH; exact H|].
      rewrite H. destruct (size <? length d2); [|apply bres_rel_mk; exact H].
      apply IH. rewrite !upd_length. exact H.
    + destruct (is_term ch); [|apply bres_rel_mk; exact H].
      destruct (dsz <=? size); [apply bres_rel_mk; exact H|].
      destruct ro; [apply bres_rel_mk; exact H|].
      rewrite H. destruct (size <? length d2); [|apply bres_rel_mk; exact H].
      apply bres_rel_mk. rewrite !upd_length. exact H.
Qed.

Theorem decode_var_rel : forall v l d1 d2, length d1 = length d2 ->
  dres_rel (decode_var v l d1) (decode_var v l d2).
Proof.
  intros v l d1 d2 H. unfold decode_var, dres_rel.
  destruct (v_type v).
  - destruct (parse_int l) as [[p val] n].
    destruct p; try (repeat split; assumption).
    pose proof (validate_int_rel (vaccess_beq (v_access v) RO) (v_size v) val d1 d2 H) as V.
    destruct (validate_int (vaccess_beq (v_access v) RO) (v_size v) val d1),
             (validate_int (vaccess_beq (v_access v) RO) (v_size v) val d2);
      try contradiction; try (repeat split; assumption).
    destruct V as [V1 V2]. repeat split; assumption.
  - destruct (parse_uint l) as [[p val] n].
    destruct p; try (repeat split; assumption).
    pose proof (validate_uint_rel (vaccess_beq (v_access v) RO) (v_size v) val d1 d2 H) as V.
    destruct (validate_uint (vaccess_beq (v_access v) RO) (v_size v) val d1),
             (validate_uint (vaccess_beq (v_access v) RO) (v_size v) val d2);
      try contradiction; try (repeat split; assumption).
    destruct V as [V1 V2]. repeat split; assumption.
  - destruct (parse_hex l) as [[p val] n].
    destruct p; try (repeat split; assumption).
    pose proof (validate_uint_rel (vaccess_beq (v_access v) RO) (v_size v) val d1 d2 H) as V.
    destruct (validate_uint (vaccess_beq (v_access v) RO) (v_size v) val d1),
             (validate_uint (vaccess_beq (v_access v) RO) (v_size v) val d2);
      try contradiction; try (repeat split; assumption).
    destruct V as [V1 V2]. repeat split; assumption.
  - cbv zeta. unfold parse_bufhex.
    destruct (parse_bufhex_go_rel l 0%N false O d1 d2 (vaccess_beq (v_access v) RO) (v_size v) O H)
      as [A [B [C E]]].
    repeat split; assumption.
  - cbv zeta. unfold parse_bufstr.
    destruct (parse_bufstr_go_rel l O O d1 d2 (vaccess_beq (v_access v) RO) (v_size v) O H)
      as [A [B [C E]]].
    repeat split; assumption.
Qed.

(* ================================================================== *)
(* B. functions that neither read nor write `mem` commute with set_mem *)
(* ================================================================== *)

Lemma set_mem_id : forall s, set_mem (mem s) s = s.
Proof. intros []. reflexivity. Qed.
Lemma set_mem_set_mem : forall m m' s, set_mem m (set_mem m' s) = set_mem m s.
Proof. reflexivity. Qed.

Lemma sm_setk_index : forall v m s, setk_index v (set_mem m s) = set_mem m (setk_index v s).
Proof. reflexivity. Qed.
Lemma sm_setk_partial : forall v m s, setk_partial v (set_mem m s) = set_mem m (setk_partial v s).
Proof. reflexivity. Qed.
Lemma sm_setk_length : forall v m s, setk_length v (set_mem m s) = set_mem m (setk_length v s).
Proof. reflexivity. Qed.
Lemma sm_setk_position : forall v m s, setk_position v (set_mem m s) = set_mem m (setk_position v s).
Proof. reflexivity. Qed.
Lemma sm_setk_write_size : forall v m s, setk_write_size v (set_mem m s) = set_mem m (setk_write_size v s).
Proof. reflexivity. Qed.
Lemma sm_setk_cmd : forall v m s, setk_cmd v (set_mem m s) = set_mem m (setk_cmd v s).
Proof. reflexivity. Qed.
Lemma sm_setk_var : forall v m s, setk_var v (set_mem m s) = set_mem m (setk_var v s).
Proof. reflexivity. Qed.
Lemma sm_setk_type : forall v m s, setk_type v (set_mem m s) = set_mem m (setk_type v s).
Proof. reflexivity. Qed.
Lemma sm_setk_char : forall v m s, setk_char v (set_mem m s) = set_mem m (setk_char v s).
Proof. reflexivity. Qed.
Lemma sm_setk_state : forall v m s, setk_state v (set_mem m s) = set_mem m (setk_state v s).
Proof. reflexivity. Qed.
Lemma sm_setk_cr : forall v m s, setk_cr v (set_mem m s) = set_mem m (setk_cr v s).
Proof. reflexivity. Qed.
Lemma sm_setk_hold : forall v m s, setk_hold v (set_mem m s) = set_mem m (setk_hold v s).
Proof. reflexivity. Qed.
Lemma sm_setk_hold_exit : forall v m s, setk_hold_exit v (set_mem m s) = set_mem m (setk_hold_exit v s).
Proof. reflexivity. Qed.
Lemma sm_setk_wbuf : forall v m s, setk_wbuf v (set_mem m s) = set_mem m (setk_wbuf v s).
Proof. reflexivity. Qed.
Lemma sm_setk_wstate : forall v m s, setk_wstate v (set_mem m s) = set_mem m (setk_wstate v s).
Proof. reflexivity. Qed.
Lemma sm_setk_wafter : forall v m s, setk_wafter v (set_mem m s) = set_mem m (setk_wafter v s).
Proof. reflexivity. Qed.
Lemma sm_setk_implicit : forall v m s, setk_implicit v (set_mem m s) = set_mem m (setk_implicit v s).
Proof. reflexivity. Qed.
Lemma sm_setu_state : forall v m s, setu_state v (set_mem m s) = set_mem m (setu_state v s).
Proof. reflexivity. Qed.
Lemma sm_setu_index : forall v m s, setu_index v (set_mem m s) = set_mem m (setu_index v s).
Proof. reflexivity. Qed.
Lemma sm_setu_position : forall v m s, setu_position v (set_mem m s) = set_mem m (setu_position v s).
Proof. reflexivity. Qed.
Lemma sm_setu_cmd : forall v m s, setu_cmd v (set_mem m s) = set_mem m (setu_cmd v s).
Proof. reflexivity. Qed.
Lemma sm_setu_var : forall v m s, setu_var v (set_mem m s) = set_mem m (setu_var v s).
Proof. reflexivity. Qed.
Lemma sm_setu_type : forall v m s, setu_type v (set_mem m s) = set_mem m (setu_type v s).
Proof. reflexivity. Qed.
Lemma sm_setu_wbuf : forall v m s, setu_wbuf v (set_mem m s) = set_mem m (setu_wbuf v s).
Proof. reflexivity. Qed.
Lemma sm_setu_wstate : forall v m s, setu_wstate v (set_mem m s) = set_mem m (setu_wstate v s).
Proof. reflexivity. Qed.
Lemma sm_setu_wafter : forall v m s, setu_wafter v (set_mem m s) = set_mem m (setu_wafter v s).
Proof. reflexivity. Qed.
Lemma sm_setu_ring : forall v m s, setu_ring v (set_mem m s) = set_mem m (setu_ring v s).
Proof. reflexivity. Qed.
Lemma sm_setu_tail : forall v m s, setu_tail v (set_mem m s) = set_mem m (setu_tail v s).
Proof. reflexivity. Qed.
Lemma sm_setu_head : forall v m s, setu_head v (set_mem m s) = set_mem m (setu_head v s).
Proof. reflexivity. Qed.
Lemma sm_setu_count : forall v m s, setu_count v (set_mem m s) = set_mem m (setu_count v s).
Proof. reflexivity. Qed.
Lemma sm_set_cbuf : forall v m s, set_cbuf v (set_mem m s) = set_mem m (set_cbuf v s).
Proof. reflexivity. Qed.
Lemma sm_set_ubuf : forall v m s, set_ubuf v (set_mem m s) = set_mem m (set_ubuf v s).
Proof. reflexivity. Qed.
Lemma sm_set_dis_cmd : forall v m s, set_dis_cmd v (set_mem m s) = set_mem m (set_dis_cmd v s).
Proof. reflexivity. Qed.
Lemma sm_set_dis_grp : forall v m s, set_dis_grp v (set_mem m s) = set_mem m (set_dis_grp v s).
Proof. reflexivity. Qed.
Lemma sm_set_fault : forall v m s, set_fault v (set_mem m s) = set_mem m (set_fault v s).
Proof. reflexivity. Qed.
Lemma sm_set_gL : forall v m s, set_gL v (set_mem m s) = set_mem m (set_gL v s).
Proof. reflexivity. Qed.
Lemma sm_set_gS : forall v m s, set_gS v (set_mem m s) = set_mem m (set_gS v s).
Proof. reflexivity. Qed.
Lemma sm_set_gR : forall v m s, set_gR v (set_mem m s) = set_mem m (set_gR v s).
Proof. reflexivity. Qed.
Lemma sm_set_fault_flag : forall m s, set_fault_flag (set_mem m s) = set_mem m (set_fault_flag s).
Proof. reflexivity. Qed.
Lemma sm_setg_pos : forall f v m s, setg_pos f v (set_mem m s) = set_mem m (setg_pos f v s).
Proof. intros [|] v m s; reflexivity. Qed.
Lemma sm_setg_buf : forall f v m s, setg_buf f v (set_mem m s) = set_mem m (setg_buf f v s).
Proof. intros [|] v m s; reflexivity. Qed.
Lemma sm_setg_var : forall f v m s, setg_var f v (set_mem m s) = set_mem m (setg_var f v s).
Proof. intros [|] v m s; reflexivity. Qed.
Lemma sm_setg_index : forall f v m s, setg_index f v (set_mem m s) = set_mem m (setg_index f v s).
Proof. intros [|] v m s; reflexivity. Qed.
Lemma sm_g_pos : forall f m s, g_pos f (set_mem m s) = g_pos f s.
Proof. intros [|] m s; reflexivity. Qed.
Lemma sm_g_buf : forall f m s, g_buf f (set_mem m s) = g_buf f s.
Proof. intros [|] m s; reflexivity. Qed.
Lemma sm_g_cmd : forall f m s, g_cmd f (set_mem m s) = g_cmd f s.
Proof. intros [|] m s; reflexivity. Qed.
Lemma sm_g_var : forall f m s, g_var f (set_mem m s) = g_var f s.
Proof. intros [|] m s; reflexivity. Qed.
Lemma sm_g_index : forall f m s, g_index f (set_mem m s) = g_index f s.
Proof. intros [|] m s; reflexivity. Qed.
Lemma sm_g_bsz : forall f m s, g_bsz f (set_mem m s) = g_bsz f s.
Proof. intros [|] m s; reflexivity. Qed.
Lemma sm_asz : forall m s, asz (set_mem m s) = asz s.
Proof. reflexivity. Qed.
Lemma sm_usz : forall m s, usz (set_mem m s) = usz s.
Proof. reflexivity. Qed.
Lemma sm_nl_chars : forall m s, nl_chars (set_mem m s) = nl_chars s.
Proof. reflexivity. Qed.
Lemma sm_is_busy : forall m s, is_busy (set_mem m s) = is_busy s.
Proof. reflexivity. Qed.
Lemma sm_is_hold : forall m s, is_hold (set_mem m s) = is_hold s.
Proof. reflexivity. Qed.
#[export] Hint Rewrite sm_setk_index sm_setk_partial sm_setk_length sm_setk_position sm_setk_write_size sm_setk_cmd sm_setk_var sm_setk_type sm_setk_char sm_setk_state sm_setk_cr sm_setk_hold sm_setk_hold_exit sm_setk_wbuf sm_setk_wstate sm_setk_wafter sm_setk_implicit sm_setu_state sm_setu_index sm_setu_position sm_setu_cmd sm_setu_var sm_setu_type sm_setu_wbuf sm_setu_wstate sm_setu_wafter sm_setu_ring sm_setu_tail sm_setu_head sm_setu_count sm_set_cbuf sm_set_ubuf sm_set_dis_cmd sm_set_dis_grp sm_set_fault sm_set_gL sm_set_gS sm_set_gR sm_set_fault_flag sm_setg_pos sm_setg_buf sm_setg_var sm_setg_index sm_g_pos sm_g_buf sm_g_cmd sm_g_var sm_g_index sm_g_bsz sm_asz sm_usz sm_nl_chars sm_is_busy sm_is_hold : blinddb.

Ltac bproj :=
  cbn [k u cbuf ubuf mem dis_cmd dis_grp fault gL gS gR set_mem fst snd].

(* destruct the scrutinee of an innermost match *)
Ltac dmatch :=
  match goal with
  | |- context [match ?x with _ => _ end] =>
    lazymatch x with
    | context [match _ with _ => _ end] => fail
    | _ => destruct x
    end
  end.

Ltac dmatch_pair :=
  match goal with
  | |- context [match ?x with _ => _ end] =>
    lazymatch x with
    | context [match _ with _ => _ end] => fail
    | _ => lazymatch type of x with prod _ _ => destruct x | _ => fail end
    end
  end.

Ltac bstep :=
  first [ reflexivity
        | progress (autorewrite with blinddb)
        | progress bproj
        | dmatch_pair
        | dmatch ].
Ltac bgo := cbv beta zeta; repeat (bstep; cbv beta zeta).

Lemma sm_get_cur : forall f m s, get_cur f (set_mem m s) = get_cur f s.
Proof. intros f m s. unfold get_cur. bgo. Qed.
#[export] Hint Rewrite sm_get_cur : blinddb.

Lemma sm_reset_state : forall m s, reset_state (set_mem m s) = set_mem m (reset_state s).
Proof. intros m s. unfold reset_state. bgo. Qed.
Lemma sm_unsolicited_reset_state : forall m s,
  unsolicited_reset_state (set_mem m s) = set_mem m (unsolicited_reset_state s).
Proof. intros m s. unfold unsolicited_reset_state. bgo. Qed.
Lemma sm_start_flush_c : forall a m s, start_flush_c a (set_mem m s) = set_mem m (start_flush_c a s).
Proof. intros a m s. unfold start_flush_c. bgo. Qed.
Lemma sm_start_flush_u : forall a m s, start_flush_u a (set_mem m s) = set_mem m (start_flush_u a s).
Proof. intros a m s. unfold start_flush_u. bgo. Qed.
Lemma sm_start_flush_raw_c : forall a m s,
  start_flush_raw_c a (set_mem m s) = set_mem m (start_flush_raw_c a s).
Proof. intros a m s. unfold start_flush_raw_c. bgo. Qed.
#[export] Hint Rewrite sm_reset_state sm_unsolicited_reset_state sm_start_flush_c sm_start_flush_u
  sm_start_flush_raw_c : blinddb.

Lemma sm_ack_error : forall m s, ack_error (set_mem m s) = set_mem m (ack_error s).
Proof. intros m s. unfold ack_error. bgo. Qed.
Lemma sm_ack_ok : forall m s, ack_ok (set_mem m s) = set_mem m (ack_ok s).
Proof. intros m s. unfold ack_ok. bgo. Qed.
#[export] Hint Rewrite sm_ack_error sm_ack_ok : blinddb.

Lemma sm_put_cur : forall f c m s, put_cur f c (set_mem m s) = set_mem m (put_cur f c s).
Proof. intros f c m s. unfold put_cur. bgo. Qed.
#[export] Hint Rewrite sm_put_cur : blinddb.

Lemma sm_print_string : forall f t m s,
  print_string f (set_mem m s) t = (set_mem m (fst (print_string f s t)), snd (print_string f s t)).
Proof. intros f t m s. unfold print_string. bgo. Qed.
Lemma sm_print_strings : forall f t m s,
  print_strings f (set_mem m s) t = (set_mem m (fst (print_strings f s t)), snd (print_strings f s t)).
Proof. intros f t m s. unfold print_strings. bgo. Qed.
#[export] Hint Rewrite sm_print_string sm_print_strings : blinddb.

Lemma sm_end_with_error : forall f m s, end_with_error f (set_mem m s) = set_mem m (end_with_error f s).
Proof. intros f m s. unfold end_with_error. bgo. Qed.
Lemma sm_end_with_ok : forall f m s, end_with_ok f (set_mem m s) = set_mem m (end_with_ok f s).
Proof. intros f m s. unfold end_with_ok. bgo. Qed.
Lemma sm_set_loop_state : forall f rd m s,
  set_loop_state f rd (set_mem m s) = set_mem m (set_loop_state f rd s).
Proof. intros f rd m s. unfold set_loop_state. bgo. Qed.
Lemma sm_start_flush_after_ok : forall f m s,
  start_flush_after_ok f (set_mem m s) = set_mem m (start_flush_after_ok f s).
Proof. intros f m s. unfold start_flush_after_ok. bgo. Qed.
Lemma sm_start_flush_after : forall f a b m s,
  start_flush_after f a b (set_mem m s) = set_mem m (start_flush_after f a b s).
Proof. intros f a b m s. unfold start_flush_after. bgo. Qed.
#[export] Hint Rewrite sm_end_with_error sm_end_with_ok sm_set_loop_state sm_start_flush_after_ok
  sm_start_flush_after : blinddb.

Lemma sm_enable_hold_state : forall m s,
  enable_hold_state (set_mem m s) = set_mem m (enable_hold_state s).
Proof. intros m s. unfold enable_hold_state. bgo. Qed.
Lemma sm_hold_exit : forall z m s,
  hold_exit (set_mem m s) z = (set_mem m (fst (hold_exit s z)), snd (hold_exit s z)).
Proof. intros z m s. unfold hold_exit. bgo. Qed.
Lemma sm_process_hold_state : forall m s,
  process_hold_state (set_mem m s) = set_mem m (process_hold_state s).
Proof. intros m s. unfold process_hold_state. bgo. Qed.
Lemma sm_process_io_write_wait : forall m s,
  process_io_write_wait (set_mem m s) = set_mem m (process_io_write_wait s).
Proof. intros m s. unfold process_io_write_wait. bgo. Qed.
Lemma sm_unsolicited_process_io_write_wait : forall m s,
  unsolicited_process_io_write_wait (set_mem m s) = set_mem m (unsolicited_process_io_write_wait s).
Proof. intros m s. unfold unsolicited_process_io_write_wait. bgo. Qed.
#[export] Hint Rewrite sm_enable_hold_state sm_hold_exit sm_process_hold_state
  sm_process_io_write_wait sm_unsolicited_process_io_write_wait : blinddb.

Lemma sm_prepare_search_command : forall m s,
  prepare_search_command (set_mem m s) = set_mem m (prepare_search_command s).
Proof. intros m s. unfold prepare_search_command. bgo. Qed.
Lemma sm_prepare_parse_command : forall m s,
  prepare_parse_command (set_mem m s) = set_mem m (prepare_parse_command s).
Proof. intros m s. unfold prepare_parse_command. bgo. Qed.
#[export] Hint Rewrite sm_prepare_search_command sm_prepare_parse_command : blinddb.

Lemma sm_cmd_of : forall D f m s, cmd_of D f (set_mem m s) = cmd_of D f s.
Proof. intros D f m s. unfold cmd_of. bgo. Qed.
Lemma sm_ring_full : forall D m s, ring_full D (set_mem m s) = ring_full D s.
Proof. reflexivity. Qed.
Lemma sm_ring_empty : forall m s, ring_empty (set_mem m s) = ring_empty s.
Proof. reflexivity. Qed.
Lemma sm_ring_items : forall D m s, ring_items D (set_mem m s) = ring_items D s.
Proof. reflexivity. Qed.
Lemma sm_is_command_disable : forall D m s i, is_command_disable D (set_mem m s) i = is_command_disable D s i.
Proof. reflexivity. Qed.
Lemma sm_get_cmd_state : forall D m s i, get_cmd_state D (set_mem m s) i = get_cmd_state D s i.
Proof. reflexivity. Qed.
Lemma sm_is_event_buffered : forall D m s ci t,
  is_event_buffered D (set_mem m s) ci t = is_event_buffered D s ci t.
Proof. reflexivity. Qed.
Lemma sm_get_processed : forall m s f, get_processed (set_mem m s) f = get_processed s f.
Proof. intros m s [|]; reflexivity. Qed.
#[export] Hint Rewrite sm_cmd_of sm_ring_full sm_ring_empty sm_ring_items sm_is_command_disable
  sm_get_cmd_state sm_is_event_buffered sm_get_processed : blinddb.

Lemma sm_push_unsolicited_cmd : forall D ci t m s,
  push_unsolicited_cmd D (set_mem m s) ci t =
  (set_mem m (fst (push_unsolicited_cmd D s ci t)), snd (push_unsolicited_cmd D s ci t)).
Proof. intros D ci t m s. unfold push_unsolicited_cmd. bgo. Qed.
Lemma sm_pop_unsolicited_cmd : forall D m s,
  pop_unsolicited_cmd D (set_mem m s) =
  (set_mem m (fst (pop_unsolicited_cmd D s)), snd (pop_unsolicited_cmd D s)).
Proof. intros D m s. unfold pop_unsolicited_cmd. bgo. Qed.
#[export] Hint Rewrite sm_push_unsolicited_cmd sm_pop_unsolicited_cmd : blinddb.

Lemma sm_print_response_test : forall D f m s,
  print_response_test D f (set_mem m s) =
  (set_mem m (fst (print_response_test D f s)), snd (print_response_test D f s)).
Proof. intros D f m s. unfold print_response_test. bgo. Qed.
#[export] Hint Rewrite sm_print_response_test : blinddb.

Lemma sm_start_processing_format_test_args : forall D f m s,
  start_processing_format_test_args D f (set_mem m s) =
  set_mem m (start_processing_format_test_args D f s).
Proof. intros D f m s. unfold start_processing_format_test_args. bgo. Qed.
Lemma sm_start_processing_format_read_args : forall D f m s,
  start_processing_format_read_args D f (set_mem m s) =
  set_mem m (start_processing_format_read_args D f s).
Proof. intros D f m s. unfold start_processing_format_read_args. bgo. Qed.
#[export] Hint Rewrite sm_start_processing_format_test_args sm_start_processing_format_read_args : blinddb.

Lemma sm_next_format_var : forall D f m s,
  next_format_var D f (set_mem m s) =
  (set_mem m (fst (next_format_var D f s)), snd (next_format_var D f s)).
Proof. intros D f m s. unfold next_format_var. bgo. Qed.
#[export] Hint Rewrite sm_next_format_var : blinddb.

Lemma sm_set_cmd_state : forall i v m s, set_cmd_state (set_mem m s) i v = set_mem m (set_cmd_state s i v).
Proof. intros i v m s. unfold set_cmd_state. bgo. Qed.
#[export] Hint Rewrite sm_set_cmd_state : blinddb.

(* update_command in two pieces (the body duplicates its first half four times after zeta) *)
Definition uc_s1 (s : state) (c : cmd) (cs : N) : state :=
  let i := k_index (k s) in
  if negb (cs =? CMD_NOT_MATCH)%N then
    let nlen := length (c_name c) in
    if nlen <? k_length (k s) then set_cmd_state s i CMD_NOT_MATCH
    else match k_length (k s) with
         | O => set_fault_flag s
         | S l1 =>
           match nth_error (c_name c) l1 with
           | None => set_fault_flag s
           | Some nc =>
             if negb (to_upper nc =? k_char (k s))%N then set_cmd_state s i CMD_NOT_MATCH
             else if k_length (k s) =? nlen then
               let s' := set_cmd_state s i CMD_FULL in
               if c_implicit c then setk_implicit true s' else s'
             else s
           end
         end
  else s.
Definition uc_tail (D : desc) (i : nat) (s1 : state) : state :=
  let i' := S i in
  if ncmds D <=? i' then
    let s2 := setk_index 0 s1 in
    if negb (k_implicit (k s2)) then setk_state CS_PARSE_COMMAND_CHAR s2
    else s2 |> setk_type T_WRITE |> prepare_search_command
            |> setk_state CS_SEARCH_COMMAND |> setk_implicit false
  else setk_index i' s1.
Lemma update_command_split : forall D s,
  update_command D s =
  match cmd_by_index (d_groups D) (k_index (k s)) with
  | None => set_fault_flag s
  | Some c => match get_cmd_state D s (k_index (k s)) with
              | None => set_fault_flag s
              | Some cs => uc_tail D (k_index (k s)) (uc_s1 s c cs)
              end
  end.
Proof. reflexivity. Qed.
Lemma sm_uc_s1 : forall c cs m s, uc_s1 (set_mem m s) c cs = set_mem m (uc_s1 s c cs).
Proof. intros c cs m s. unfold uc_s1. bgo. Qed.
Lemma sm_uc_tail : forall D i m s, uc_tail D i (set_mem m s) = set_mem m (uc_tail D i s).
Proof. intros D i m s. unfold uc_tail. bgo. Qed.
#[export] Hint Rewrite sm_uc_s1 sm_uc_tail : blinddb.
Lemma sm_update_command : forall D m s, update_command D (set_mem m s) = set_mem m (update_command D s).
Proof. intros D m s. rewrite !update_command_split. bgo. Qed.
Lemma sm_search_command : forall D m s, search_command D (set_mem m s) = set_mem m (search_command D s).
Proof. intros D m s. unfold search_command. bgo. Qed.
Lemma sm_command_found : forall D m s, command_found D (set_mem m s) = set_mem m (command_found D s).
Proof. intros D m s. unfold command_found. bgo. Qed.
#[export] Hint Rewrite sm_update_command sm_search_command sm_command_found : blinddb.

Lemma sm_start_print_cmd_list : forall D m s,
  start_print_cmd_list D (set_mem m s) = set_mem m (start_print_cmd_list D s).
Proof. intros D m s. unfold start_print_cmd_list. bgo. Qed.
Lemma sm_cmd_list_next_cmd : forall D m s,
  cmd_list_next_cmd D (set_mem m s) =
  (set_mem m (fst (cmd_list_next_cmd D s)), snd (cmd_list_next_cmd D s)).
Proof. intros D m s. unfold cmd_list_next_cmd. bgo. Qed.
#[export] Hint Rewrite sm_start_print_cmd_list sm_cmd_list_next_cmd : blinddb.
Lemma sm_print_current_cmd_full_name : forall c sf m s,
  print_current_cmd_full_name (set_mem m s) c sf =
  (set_mem m (fst (print_current_cmd_full_name s c sf)), snd (print_current_cmd_full_name s c sf)).
Proof. intros c sf m s. unfold print_current_cmd_full_name. bgo. Qed.
#[export] Hint Rewrite sm_print_current_cmd_full_name : blinddb.
Lemma sm_print_cmd_form : forall c a sf nx m s,
  print_cmd_form (set_mem m s) c a sf nx = set_mem m (print_cmd_form s c a sf nx).
Proof. intros c a sf nx m s. unfold print_cmd_form. bgo. Qed.
#[export] Hint Rewrite sm_print_cmd_form : blinddb.
Lemma sm_print_cmd_list : forall D m s, print_cmd_list D (set_mem m s) = set_mem m (print_cmd_list D s).
Proof. intros D m s. unfold print_cmd_list. bgo. Qed.
#[export] Hint Rewrite sm_print_cmd_list : blinddb.

Lemma sm_format_test_args : forall D f m s,
  format_test_args D f (set_mem m s) = set_mem m (format_test_args D f s).
Proof. intros D f m s. unfold format_test_args. bgo. Qed.
Lemma sm_check_unsolicited_buffers : forall D m s,
  check_unsolicited_buffers D (set_mem m s) = set_mem m (check_unsolicited_buffers D s).
Proof. intros D m s. unfold check_unsolicited_buffers. bgo. Qed.
Lemma sm_apply_edit : forall f e m s, apply_edit f e (set_mem m s) = set_mem m (apply_edit f e s).
Proof. intros f e m s. unfold apply_edit. bgo. Qed.
#[export] Hint Rewrite sm_format_test_args sm_check_unsolicited_buffers sm_apply_edit : blinddb.

(* a state function that neither reads nor writes mem *)
Definition blind (g : state -> state) : Prop := forall m s, g (set_mem m s) = set_mem m (g s).

Lemma blind_mem : forall g s, blind g -> mem (g s) = mem s.
Proof.
  intros g s B. rewrite <- (set_mem_id s) at 1. rewrite B. reflexivity.
Qed.

(* ================================================================== *)
(* C. the relation between the two runs                                 *)
(* ================================================================== *)

(* slot sl holds only write-only variables *)
Definition wo_slot (D : desc) (sl : nat) : Prop :=
  forall c v, In c (pool D) -> In v (c_vars c) -> v_slot v = sl -> v_access v = WO.

(* same shape, equal outside the write-only slots *)
Definition memrel (D : desc) (m1 m2 : list (list N)) : Prop :=
  Forall2 (fun a b : list N => length a = length b) m1 m2 /\
  forall sl, ~ wo_slot D sl -> nth_error m1 sl = nth_error m2 sl.

Lemma wo_slot_dec : forall D sl, wo_slot D sl \/ ~ wo_slot D sl.
Proof.
  intros D sl.
  assert (Hv : forall v : var, {v_slot v = sl -> v_access v = WO} + {~ (v_slot v = sl -> v_access v = WO)}).
  { intros v. destruct (Nat.eq_dec (v_slot v) sl) as [E|E].
    - destruct (vaccess_eq_dec (v_access v) WO) as [A|A].
      + left. intros _. exact A.
      + right. intros H. apply A. apply H. exact E.
    - left. intros H. contradiction. }
  assert (Hc : forall c : cmd, {Forall (fun v => v_slot v = sl -> v_access v = WO) (c_vars c)} +
                               {~ Forall (fun v => v_slot v = sl -> v_access v = WO) (c_vars c)}).
  { intros c. apply Forall_dec. exact Hv. }
  destruct (Forall_dec _ Hc (pool D)) as [F|F].
  - left. intros c v Ic Iv. rewrite Forall_forall in F. specialize (F c Ic).
    rewrite Forall_forall in F. exact (F v Iv).
  - right. intros W. apply F. apply Forall_forall. intros c Ic. apply Forall_forall.
    intros v Iv. exact (W c v Ic Iv).
Qed.

Lemma Forall2_nth_error : forall (A : Type) (P : A -> A -> Prop) l1 l2 i, Forall2 P l1 l2 ->
  match nth_error l1 i, nth_error l2 i with
  | Some a, Some b => P a b
  | None, None => True
  | _, _ => False
  end.
Proof.
  intros A P l1 l2 i H. revert i. induction H as [|a b l1 l2 Hab H IH]; intros [|i]; cbn [nth_error];
    try exact Logic.I; [exact Hab | apply IH].
Qed.

Lemma Forall2_upd : forall (A : Type) (P : A -> A -> Prop) l1 l2 i a b, Forall2 P l1 l2 -> P a b ->
  Forall2 P (upd l1 i a) (upd l2 i b).
Proof.
  intros A P l1 l2 i a b H Hab. revert i. induction H as [|x y l1 l2 Hxy H IH]; intros [|i]; cbn [upd];
    constructor; try assumption. apply IH.
Qed.

Lemma nth_error_upd_same : forall (A : Type) (l : list A) i v,
  nth_error (upd l i v) i = match nth_error l i with Some _ => Some v | None => None end.
Proof.
  intros A l. induction l as [|x l IH]; intros [|i] v; cbn [upd nth_error]; try reflexivity. apply IH.
Qed.

Lemma memrel_upd : forall D m1 m2 i a b, memrel D m1 m2 -> length a = length b ->
  (~ wo_slot D i -> a = b) -> memrel D (upd m1 i a) (upd m2 i b).
Proof.
  intros D m1 m2 i a b [F E] L Hab. split.
  - apply Forall2_upd; assumption.
  - intros sl Hs. destruct (Nat.eq_dec i sl) as [Q|Q].
    + subst sl. rewrite !nth_error_upd_same. rewrite (E i Hs), (Hab Hs). reflexivity.
    + rewrite !nth_error_upd_neq by exact Q. apply E. exact Hs.
Qed.

(* states: equal except mem, mems related *)
Definition seq (D : desc) (s1 s2 : state) : Prop :=
  s2 = set_mem (mem s2) s1 /\ memrel D (mem s1) (mem s2).

Lemma seq_intro : forall D s m, memrel D (mem s) m -> seq D s (set_mem m s).
Proof. intros D s m H. split; [reflexivity | exact H]. Qed.

Lemma seq_blind : forall D g s1 s2, blind g -> seq D s1 s2 -> seq D (g s1) (g s2).
Proof.
  intros D g s1 s2 B [E M]. rewrite E. rewrite B. split.
  - reflexivity.
  - cbn [mem set_mem]. rewrite (blind_mem g s1 B). exact M.
Qed.

Lemma seq_apply_poke : forall D s1 s2 p, seq D s1 s2 -> seq D (apply_poke s1 p) (apply_poke s2 p).
Proof.
  intros D s1 s2 p [E M]. rewrite E. set (m2 := mem s2) in *. clearbody m2. clear E s2.
  unfold apply_poke. cbn [mem set_mem].
  pose proof (Forall2_nth_error _ _ _ _ (fst p) (proj1 M)) as N.
  destruct (nth_error (mem s1) (fst p)) as [d1|] eqn:E1, (nth_error m2 (fst p)) as [d2|] eqn:E2;
    try contradiction; [|apply seq_intro; exact M].
  pose proof (store_prefix_rel d1 d2 (snd p) N) as S.
  destruct (store_prefix d1 (snd p)) as [a1|] eqn:S1, (store_prefix d2 (snd p)) as [a2|] eqn:S2;
    try contradiction; [|apply seq_intro; exact M].
  change (set_mem (upd m2 (fst p) a2) (set_mem m2 s1)) with (set_mem (upd m2 (fst p) a2) s1).
  split; [reflexivity|]. cbn [mem set_mem]. apply memrel_upd; [exact M | exact S |].
  intros W. pose proof (proj2 M _ W) as Q. rewrite E1, E2 in Q. injection Q as Q. subst d2.
  rewrite S1 in S2. injection S2 as S2. exact S2.
Qed.

Lemma seq_fold_poke : forall D l s1 s2, seq D s1 s2 ->
  seq D (fold_left apply_poke l s1) (fold_left apply_poke l s2).
Proof.
  intros D l. induction l as [|p l IH]; intros s1 s2 H; cbn [fold_left]; [exact H|].
  apply IH. apply seq_apply_poke. exact H.
Qed.

(* ================================================================== *)
(* D. the world level                                                   *)
(* ================================================================== *)
Section NonInterference.
Variable D : desc.
Variables ioS muS hS : Type.
Variable io_read : ioS -> ioS * option N.
Variable io_write : ioS -> N -> ioS * bool.
Variable mu_lock : muS -> muS * bool.
Variable mu_unlock : muS -> muS * bool.
Variable h_call : hS -> hreq -> hS * hres.

Local Notation world := (Fsm.world ioS muS hS).
Local Notation st := (Fsm.st ioS muS hS).
Local Notation io := (Fsm.io ioS muS hS).
Local Notation mu := (Fsm.mu ioS muS hS).
Local Notation hs := (Fsm.hs ioS muS hS).
Local Notation tr := (Fsm.tr ioS muS hS).
Local Notation mkWorld := (Fsm.mkWorld ioS muS hS).
Local Notation set_st := (Fsm.set_st ioS muS hS).
Local Notation set_io := (Fsm.set_io ioS muS hS).
Local Notation set_mu := (Fsm.set_mu ioS muS hS).
Local Notation set_hs := (Fsm.set_hs ioS muS hS).
Local Notation logw := (Fsm.logw ioS muS hS).
Local Notation upd_st := (Fsm.upd_st ioS muS hS).
Local Notation busy := (Fsm.busy ioS muS hS).
Local Notation bracket := (Fsm.bracket D ioS muS hS mu_lock mu_unlock).
Local Notation api_trigger := (Fsm.api_trigger D ioS muS hS mu_lock mu_unlock).
Local Notation api_hold_exit := (Fsm.api_hold_exit D ioS muS hS mu_lock mu_unlock).
Local Notation apply_icall := (Fsm.apply_icall D ioS muS hS mu_lock mu_unlock).
Local Notation call_h := (Fsm.call_h D ioS muS hS mu_lock mu_unlock h_call).
Local Notation read_cmd_char := (Fsm.read_cmd_char ioS muS hS io_read).
Local Notation reading := (Fsm.reading ioS muS hS io_read).
Local Notation parse_write_args := (Fsm.parse_write_args D ioS muS hS mu_lock mu_unlock h_call).
Local Notation format_read_args := (Fsm.format_read_args D ioS muS hS mu_lock mu_unlock h_call).
Local Notation process_write_loop := (Fsm.process_write_loop D ioS muS hS mu_lock mu_unlock h_call).
Local Notation process_run_loop := (Fsm.process_run_loop D ioS muS hS mu_lock mu_unlock h_call).
Local Notation process_rt_loop := (Fsm.process_rt_loop D ioS muS hS mu_lock mu_unlock h_call).
Local Notation process_io_write := (Fsm.process_io_write ioS muS hS io_write).
Local Notation unsolicited_process_io_write := (Fsm.unsolicited_process_io_write ioS muS hS io_write).
Local Notation unsolicited_events_service :=
  (Fsm.unsolicited_events_service D ioS muS hS io_write mu_lock mu_unlock h_call).
Local Notation cmd_service :=
  (Fsm.cmd_service D ioS muS hS io_read io_write mu_lock mu_unlock h_call).
Local Notation service_body :=
  (Fsm.service_body D ioS muS hS io_read io_write mu_lock mu_unlock h_call).
Local Notation do_op := (Fsm.do_op D ioS muS hS io_read io_write mu_lock mu_unlock h_call).
Local Notation step := (Fsm.step D ioS muS hS io_read io_write mu_lock mu_unlock h_call).
Local Notation run := (Fsm.run D ioS muS hS io_read io_write mu_lock mu_unlock h_call).

(* two requests are indistinguishable: equal, or the write callback of a variable living in a
   write-only slot, called with stored bytes of the same length *)
Definition req_rel (q1 q2 : hreq) : Prop :=
  q1 = q2 \/
  exists ci vi ws d1 d2 c v,
    q1 = VWrite ci vi ws d1 /\ q2 = VWrite ci vi ws d2 /\
    cmd_at D ci = Some c /\ nth_error (c_vars c) vi = Some v /\ wo_slot D (v_slot v) /\
    length d1 = length d2.

Definition ev_rel (e1 e2 : event) : Prop :=
  e1 = e2 \/ exists q1 q2 code, e1 = ECall q1 code /\ e2 = ECall q2 code /\ req_rel q1 q2.

(* the application's write callback of a variable that lives in a write-only slot does not look
   at the stored bytes it is handed (it may look at everything else: which variable, how many
   bytes were written, its own state) *)
Hypothesis Hwo_blind : forall x ci vi ws d1 d2 c v,
  cmd_at D ci = Some c -> nth_error (c_vars c) vi = Some v -> wo_slot D (v_slot v) ->
  length d1 = length d2 ->
  h_call x (VWrite ci vi ws d1) = h_call x (VWrite ci vi ws d2).

Lemma Hblind : forall x q1 q2, req_rel q1 q2 -> h_call x q1 = h_call x q2.
Proof.
  intros x q1 q2 [E | [ci [vi [ws [d1 [d2 [c [v [E1 [E2 [Hc [Hv [W L]]]]]]]]]]]]].
  - rewrite E. reflexivity.
  - rewrite E1, E2. eapply Hwo_blind; eassumption.
Qed.

Definition W2 (w : world) (m : list (list N)) (t : list event) : world :=
  mkWorld (set_mem m (st w)) (io w) (mu w) (hs w) t.

Definition R (w1 w2 : world) : Prop :=
  w2 = W2 w1 (mem (st w2)) (tr w2) /\ memrel D (mem (st w1)) (mem (st w2)) /\
  Forall2 ev_rel (tr w1) (tr w2).

Definition RR {A : Type} (p1 p2 : world * A) : Prop := R (fst p1) (fst p2) /\ snd p1 = snd p2.

Lemma R_W2 : forall w m t, memrel D (mem (st w)) m -> Forall2 ev_rel (tr w) t -> R w (W2 w m t).
Proof. intros w m t M T. split; [reflexivity|]. split; assumption. Qed.

Lemma R_elim : forall w1 w2, R w1 w2 ->
  exists m t, w2 = W2 w1 m t /\ memrel D (mem (st w1)) m /\ Forall2 ev_rel (tr w1) t.
Proof. intros w1 w2 [E [M T]]. exists (mem (st w2)), (tr w2). split; [exact E | split; assumption]. Qed.

Lemma R_seq : forall w1 w2, R w1 w2 -> seq D (st w1) (st w2).
Proof. intros w1 w2 [E [M T]]. split; [|exact M]. rewrite E at 1. reflexivity. Qed.

Lemma R_set_st : forall w1 w2 s1 s2, R w1 w2 -> seq D s1 s2 -> R (set_st s1 w1) (set_st s2 w2).
Proof.
  intros w1 w2 s1 s2 H [E M]. destruct (R_elim _ _ H) as [m [t [-> [_ T]]]].
  split; [|split].
  - cbn [Fsm.st Fsm.set_st Fsm.tr W2 Fsm.io Fsm.mu Fsm.hs]. unfold W2.
    cbn [Fsm.st Fsm.set_st Fsm.tr Fsm.io Fsm.mu Fsm.hs]. rewrite E at 1. reflexivity.
  - exact M.
  - exact T.
Qed.

Lemma R_set_io : forall w1 w2 v, R w1 w2 -> R (set_io v w1) (set_io v w2).
Proof.
  intros w1 w2 v H. destruct (R_elim _ _ H) as [m [t [-> [M T]]]].
  exact (R_W2 (set_io v w1) m t M T).
Qed.
Lemma R_set_mu : forall w1 w2 v, R w1 w2 -> R (set_mu v w1) (set_mu v w2).
Proof.
  intros w1 w2 v H. destruct (R_elim _ _ H) as [m [t [-> [M T]]]].
  exact (R_W2 (set_mu v w1) m t M T).
Qed.
Lemma R_set_hs : forall w1 w2 v, R w1 w2 -> R (set_hs v w1) (set_hs v w2).
Proof.
  intros w1 w2 v H. destruct (R_elim _ _ H) as [m [t [-> [M T]]]].
  exact (R_W2 (set_hs v w1) m t M T).
Qed.
Lemma R_logw2 : forall w1 w2 e1 e2, ev_rel e1 e2 -> R w1 w2 -> R (logw e1 w1) (logw e2 w2).
Proof.
  intros w1 w2 e1 e2 He H. destruct (R_elim _ _ H) as [m [t [-> [M T]]]].
  apply (R_W2 (logw e1 w1) m (e2 :: t) M). cbn [Fsm.tr Fsm.logw]. constructor; assumption.
Qed.
Lemma R_logw : forall w1 w2 e, R w1 w2 -> R (logw e w1) (logw e w2).
Proof. intros w1 w2 e H. apply R_logw2; [left; reflexivity | exact H]. Qed.

Lemma R_upd_st_seq : forall w1 w2 g1 g2,
  (forall s1 s2, seq D s1 s2 -> seq D (g1 s1) (g2 s2)) -> R w1 w2 -> R (upd_st g1 w1) (upd_st g2 w2).
Proof.
  intros w1 w2 g1 g2 Hg H. unfold Fsm.upd_st. apply R_set_st; [exact H|].
  apply Hg. apply R_seq. exact H.
Qed.
Lemma R_upd_st : forall w1 w2 g, blind g -> R w1 w2 -> R (upd_st g w1) (upd_st g w2).
Proof.
  intros w1 w2 g B H. apply R_upd_st_seq; [|exact H]. intros s1 s2. apply seq_blind. exact B.
Qed.

(* observations of the second world *)
Lemma W2_st : forall w m t, st (W2 w m t) = set_mem m (st w).  Proof. reflexivity. Qed.
Lemma W2_io : forall w m t, io (W2 w m t) = io w.  Proof. reflexivity. Qed.
Lemma W2_mu : forall w m t, mu (W2 w m t) = mu w.  Proof. reflexivity. Qed.
Lemma W2_hs : forall w m t, hs (W2 w m t) = hs w.  Proof. reflexivity. Qed.
Hint Rewrite W2_st W2_io W2_mu W2_hs : blinddb.

Lemma RR_busy : forall w1 w2, R w1 w2 -> RR (busy w1) (busy w2).
Proof. intros w1 w2 H. split; [exact H | reflexivity]. Qed.
Lemma RR_pair : forall (A : Type) w1 w2 (z : A), R w1 w2 -> RR (w1, z) (w2, z).
Proof. intros A w1 w2 z H. split; [exact H | reflexivity]. Qed.

(* ---- bracket and the inner API calls ---- *)
Lemma RR_bracket : forall w1 w2 b1 b2,
  (forall v1 v2, R v1 v2 -> RR (b1 v1) (b2 v2)) -> R w1 w2 -> RR (bracket w1 b1) (bracket w2 b2).
Proof.
  intros w1 w2 b1 b2 Hb H. unfold Fsm.bracket.
  destruct (d_mutex D); [|apply Hb; exact H].
  destruct (R_elim _ _ H) as [m [t [E [M T]]]].
  assert (Emu : mu w2 = mu w1) by (rewrite E; reflexivity). rewrite Emu.
  destruct (mu_lock (mu w1)) as [m1 ok]. cbv zeta.
  assert (H1 : R (logw (ELock ok) (set_mu m1 w1)) (logw (ELock ok) (set_mu m1 w2)))
    by (apply R_logw, R_set_mu; exact H).
  destruct ok; cbn [negb]; [|apply RR_pair; exact H1].
  destruct (Hb _ _ H1) as [H2 S2].
  destruct (b1 (logw (ELock true) (set_mu m1 w1))) as [v1 s1].
  destruct (b2 (logw (ELock true) (set_mu m1 w2))) as [v2 s2]. cbn [fst snd] in H2, S2. subst s2.
  destruct (R_elim _ _ H2) as [m' [t' [E' [M' T']]]].
  assert (Emu' : mu v2 = mu v1) by (rewrite E'; reflexivity). rewrite Emu'.
  destruct (mu_unlock (mu v1)) as [m2 ok2].
  assert (H3 : R (logw (EUnlock ok2) (set_mu m2 v1)) (logw (EUnlock ok2) (set_mu m2 v2)))
    by (apply R_logw, R_set_mu; exact H2).
  destruct ok2; cbn [negb]; apply RR_pair; exact H3.
Qed.

Lemma RR_api_trigger : forall w1 w2 ci t, R w1 w2 -> RR (api_trigger w1 ci t) (api_trigger w2 ci t).
Proof.
  intros w1 w2 ci t H. unfold Fsm.api_trigger. apply RR_bracket; [|exact H].
  intros v1 v2 Hv. destruct (R_elim _ _ Hv) as [m [t' [-> [M T]]]].
  autorewrite with blinddb.
  destruct (push_unsolicited_cmd D (st v1) ci t) as [s' r] eqn:Ep. cbn [fst snd].
  apply RR_pair. apply R_set_st; [exact Hv|].
  pose proof (mem_push_unsolicited_cmd D (st v1) ci t) as Q. rewrite Ep in Q. cbn [fst] in Q.
  apply seq_intro. rewrite Q. exact M.
Qed.

Lemma RR_api_hold_exit : forall w1 w2 z, R w1 w2 -> RR (api_hold_exit w1 z) (api_hold_exit w2 z).
Proof.
  intros w1 w2 z H. unfold Fsm.api_hold_exit. apply RR_bracket; [|exact H].
  intros v1 v2 Hv. destruct (R_elim _ _ Hv) as [m [t' [-> [M T]]]].
  autorewrite with blinddb.
  destruct (hold_exit (st v1) z) as [s' r] eqn:Ep. cbn [fst snd].
  apply RR_pair. apply R_set_st; [exact Hv|].
  pose proof (mem_hold_exit (st v1) z) as Q. rewrite Ep in Q. cbn [fst] in Q.
  apply seq_intro. rewrite Q. exact M.
Qed.

Lemma R_apply_icall : forall w1 w2 c, R w1 w2 -> R (apply_icall w1 c) (apply_icall w2 c).
Proof.
  intros w1 w2 c H. unfold Fsm.apply_icall. destruct c as [ci t | z].
  - destruct (RR_api_trigger w1 w2 ci t H) as [H1 S1].
    destruct (api_trigger w1 ci t) as [v1 r1], (api_trigger w2 ci t) as [v2 r2].
    cbn [fst snd] in H1, S1. subst r2. apply R_logw. exact H1.
  - destruct (RR_api_hold_exit w1 w2 z H) as [H1 S1].
    destruct (api_hold_exit w1 z) as [v1 r1], (api_hold_exit w2 z) as [v2 r2].
    cbn [fst snd] in H1, S1. subst r2. apply R_logw. exact H1.
Qed.

Lemma R_fold_icall : forall l w1 w2, R w1 w2 ->
  R (fold_left apply_icall l w1) (fold_left apply_icall l w2).
Proof.
  induction l as [|c l IH]; intros w1 w2 H; cbn [fold_left]; [exact H|].
  apply IH. apply R_apply_icall. exact H.
Qed.

Lemma RR_call_h : forall w1 w2 q1 q2, R w1 w2 -> req_rel q1 q2 ->
  R (fst (call_h w1 q1)) (fst (call_h w2 q2)) /\ snd (call_h w1 q1) = snd (call_h w2 q2).
Proof.
  intros w1 w2 q1 q2 H Q. unfold Fsm.call_h.
  destruct (R_elim _ _ H) as [m [t [E [M T]]]].
  assert (Ehs : hs w2 = hs w1) by (rewrite E; reflexivity). rewrite Ehs.
  rewrite <- (Hblind (hs w1) q1 q2 Q).
  destruct (h_call (hs w1) q1) as [hs' r]. cbv zeta. cbn [fst snd]. split; [|reflexivity].
  apply R_fold_icall. apply R_upd_st_seq; [intros s1 s2; apply seq_fold_poke|].
  apply R_logw2; [|apply R_set_hs; exact H].
  right. exists q1, q2, (r_code r). repeat split. exact Q.
Qed.

(* ---- the state functions ---- *)

Ltac Rleaf :=
  lazymatch goal with
  | |- RR (Fsm.busy _ _ _ _) (Fsm.busy _ _ _ _) => apply RR_busy
  | |- RR (_, _) (_, _) => apply RR_pair
  | |- R _ _ =>
    first [ assumption
          | apply R_logw | apply R_set_io | apply R_set_mu | apply R_set_hs
          | apply R_upd_st; [solve [intros ?m ?s; bgo] |] ]
  end.

Ltac RRcall :=
  match goal with
  | |- RR ?a ?b =>
    match a with context [call_h ?w1 ?q1] =>
    match b with context [call_h ?w2 ?q2] =>
    let HC := fresh "HC" in
    assert (HC : R (fst (call_h w1 q1)) (fst (call_h w2 q2)) /\
                 snd (call_h w1 q1) = snd (call_h w2 q2))
      by (apply RR_call_h; [repeat Rleaf | left; reflexivity]);
    destruct (call_h w1 q1) as [?v ?r], (call_h w2 q2) as [?v ?r]; cbn [fst snd] in HC;
    let HC1 := fresh "HC" in destruct HC as [HC HC1]; subst
    end end
  end.

Ltac RRmatch :=
  match goal with
  | |- RR (match ?x with _ => _ end) (match ?x with _ => _ end) => destruct x eqn:?
  | |- R (match ?x with _ => _ end) (match ?x with _ => _ end) => destruct x eqn:?
  end.

Ltac Rgo := repeat (cbv beta zeta; first [RRcall | RRmatch | Rleaf]).
Ltac Rstart H :=
  let m := fresh "m" in let t := fresh "t" in let M := fresh "M" in let T := fresh "T" in
  destruct (R_elim _ _ H) as [m [t [-> [M T]]]].
Ltac Rsimp := cbv beta zeta; autorewrite with blinddb; bproj.

Lemma RR_read_cmd_char : forall w1 w2, R w1 w2 -> RR (read_cmd_char w1) (read_cmd_char w2).
Proof.
  intros w1 w2 H. Rstart H. unfold Fsm.read_cmd_char. Rsimp.
  destruct (io_read (io w1)) as [io' r]. cbv zeta.
  destruct r as [ch|]; [|Rgo].
  apply RR_pair. apply R_set_st; [Rgo|].
  unfold W2. cbn [Fsm.st Fsm.logw Fsm.set_io Fsm.io Fsm.mu Fsm.hs].
  match goal with |- seq D ?a _ => assert (Q : mem a = mem (st w1)) by mgo end.
  split; [|rewrite Q; cbn [mem set_mem]; bgo; exact M].
  bgo.
Qed.

Lemma RR_reading : forall w1 w2 body, (forall ch, blind (body ch)) -> R w1 w2 ->
  RR (reading w1 body) (reading w2 body).
Proof.
  intros w1 w2 body Hb H. unfold Fsm.reading.
  destruct (RR_read_cmd_char w1 w2 H) as [H1 S1].
  destruct (read_cmd_char w1) as [v1 got], (read_cmd_char w2) as [v2 got2].
  cbn [fst snd] in H1, S1. subst got2.
  destruct got; cbn [negb]; [|Rgo].
  apply RR_busy. apply R_upd_st; [|exact H1].
  intros m s. bproj. apply Hb.
Qed.

Lemma RR_process_write_loop : forall w1 w2, R w1 w2 ->
  RR (process_write_loop w1) (process_write_loop w2).
Proof. intros w1 w2 H. Rstart H. unfold Fsm.process_write_loop. Rsimp. Rgo. Qed.

Lemma RR_process_run_loop : forall w1 w2, R w1 w2 ->
  RR (process_run_loop w1) (process_run_loop w2).
Proof. intros w1 w2 H. Rstart H. unfold Fsm.process_run_loop. Rsimp. Rgo. Qed.

Lemma RR_process_rt_loop : forall rd f w1 w2, R w1 w2 ->
  RR (process_rt_loop rd f w1) (process_rt_loop rd f w2).
Proof. intros rd f w1 w2 H. Rstart H. unfold Fsm.process_rt_loop. Rsimp. Rgo. Qed.

Lemma RR_process_io_write : forall w1 w2, R w1 w2 ->
  RR (process_io_write w1) (process_io_write w2).
Proof. intros w1 w2 H. Rstart H. unfold Fsm.process_io_write. Rsimp. Rgo. Qed.

Lemma RR_unsolicited_process_io_write : forall w1 w2, R w1 w2 ->
  RR (unsolicited_process_io_write w1) (unsolicited_process_io_write w2).
Proof. intros w1 w2 H. Rstart H. unfold Fsm.unsolicited_process_io_write. Rsimp. Rgo. Qed.

(* the part of format_read_args that reads the variable *)
Definition fra_body (f : fsm) (c : cmd) (v : var) (s : state) : state :=
  match nth_error (mem s) (v_slot v) with
  | None => set_fault_flag s
  | Some data =>
    let (c1, ok) := fmt_var v data (get_cur f s) in
    let s1 := put_cur f c1 s in
    if negb ok then end_with_error f s1
    else
      let (s2, handled) := next_format_var D f s1 in
      if handled then s2
      else if c_hread c then set_loop_state f true s2
      else start_flush_after_ok f s2
  end.

Lemma cmd_of_in_pool : forall f s c, cmd_of D f s = Some c -> In c (pool D).
Proof.
  intros f s c H. unfold cmd_of in H. destruct (g_cmd f s) as [ci|]; [|discriminate H].
  unfold cmd_at in H. eapply nth_error_In. exact H.
Qed.

Lemma not_wo_slot : forall c v, In c (pool D) -> In v (c_vars c) -> v_access v <> WO ->
  ~ wo_slot D (v_slot v).
Proof. intros c v Ic Iv A W. apply A. exact (W c v Ic Iv eq_refl). Qed.

Lemma seq_fra_body : forall f c v s1 s2, In c (pool D) -> In v (c_vars c) -> seq D s1 s2 ->
  seq D (fra_body f c v s1) (fra_body f c v s2).
Proof.
  intros f c v s1 s2 Ic Iv [E M]. rewrite E. set (m2 := mem s2) in *. clearbody m2. clear E s2.
  unfold fra_body. cbn [mem set_mem]. rewrite sm_get_cur.
  pose proof (Forall2_nth_error _ _ _ _ (v_slot v) (proj1 M)) as N.
  destruct (nth_error (mem s1) (v_slot v)) as [d1|] eqn:E1, (nth_error m2 (v_slot v)) as [d2|] eqn:E2;
    try contradiction.
  - assert (F : fmt_var v d1 (get_cur f s1) = fmt_var v d2 (get_cur f s1)).
    { destruct (vaccess_eq_dec (v_access v) WO) as [A|A].
      - apply C08_format_writeonly; assumption.
      - pose proof (proj2 M _ (not_wo_slot c v Ic Iv A)) as Q. rewrite E1, E2 in Q.
        injection Q as Q. rewrite Q. reflexivity. }
    rewrite F. destruct (fmt_var v d2 (get_cur f s1)) as [c1 ok].
    apply (seq_blind D (fun s =>
      let s1 := put_cur f c1 s in
      if negb ok then end_with_error f s1
      else
        let (s2, handled) := next_format_var D f s1 in
        if handled then s2
        else if c_hread c then set_loop_state f true s2
        else start_flush_after_ok f s2)).
    + intros m s. bgo.
    + apply seq_intro. exact M.
  - apply (seq_blind D set_fault_flag); [intros m s; reflexivity | apply seq_intro; exact M].
Qed.

Lemma RR_format_read_args : forall f w1 w2, R w1 w2 ->
  RR (format_read_args f w1) (format_read_args f w2).
Proof.
  intros f w1 w2 H. Rstart H. unfold Fsm.format_read_args. Rsimp.
  destruct (g_cmd f (st w1)) as [ci|] eqn:Eg; [|Rgo].
  destruct (cmd_of D f (st w1)) as [c|] eqn:Ec; [|Rgo].
  destruct (nth_error (c_vars c) (g_var f (st w1))) as [v|] eqn:Ev; [|Rgo].
  assert (B : forall v1 v2, R v1 v2 ->
              R (upd_st (fra_body f c v) v1) (upd_st (fra_body f c v) v2)).
  { intros v1 v2 Hv. apply R_upd_st_seq; [|exact Hv]. intros s1 s2.
    apply seq_fra_body; [eapply cmd_of_in_pool; exact Ec | eapply nth_error_In; exact Ev]. }
  destruct (v_hread v).
  - RRcall. cbv beta iota zeta. match goal with |- context [negb ?x] => destruct (negb x) end.
    + Rgo.
    + apply RR_busy. apply B. exact HC.
  - apply RR_busy. apply B. exact H.
Qed.

Lemma seq_store : forall s m i a1 a2 p, memrel D (mem s) m -> length a1 = length a2 ->
  (~ wo_slot D i -> a1 = a2) ->
  seq D (set_mem (upd (mem s) i a1) (setk_position p s))
        (set_mem (upd m i a2) (setk_position p (set_mem m s))).
Proof.
  intros s m i a1 a2 p M L A. split; [reflexivity|]. cbn [mem set_mem].
  apply memrel_upd; assumption.
Qed.

Lemma RR_parse_write_args : forall w1 w2, R w1 w2 ->
  RR (parse_write_args w1) (parse_write_args w2).
Proof.
  intros w1 w2 H. Rstart H. unfold Fsm.parse_write_args. Rsimp.
  destruct (g_cmd ATCMD (st w1)) as [ci|] eqn:Eg; [|Rgo].
  destruct (cmd_of D ATCMD (st w1)) as [c|] eqn:Ec; [|Rgo].
  destruct (nth_error (c_vars c) (k_var (k (st w1)))) as [v|] eqn:Ev; [|Rgo].
  pose proof (Forall2_nth_error _ _ _ _ (v_slot v) (proj1 M)) as N.
  destruct (nth_error (mem (st w1)) (v_slot v)) as [d1|] eqn:E1,
           (nth_error m (v_slot v)) as [d2|] eqn:E2; try contradiction; [|Rgo].
  set (rest := skipn (k_position (k (st w1))) (cbuf (st w1))).
  pose proof (decode_var_rel v rest d1 d2 N) as DR.
  assert (DE : ~ wo_slot D (v_slot v) -> d1 = d2).
  { intros W. pose proof (proj2 M _ W) as Q. rewrite E1, E2 in Q. injection Q as Q. exact Q. }
  destruct (decode_var v rest d1) as [[[p1 a1] ws1] n1] eqn:D1.
  destruct (decode_var v rest d2) as [[[p2 a2] ws2] n2] eqn:D2.
  destruct DR as [-> [-> [-> L]]].
  assert (AE : ~ wo_slot D (v_slot v) -> a1 = a2).
  { intros W. rewrite (DE W) in D1. rewrite D1 in D2. injection D2 as D2. exact D2. }
  pose proof (seq_store (st w1) m (v_slot v) a1 a2 (k_position (k (st w1)) + n2) M L AE) as S1.
  destruct p2 as [| |comma].
  - apply RR_busy. apply R_set_st; [exact H|].
    apply (seq_blind D set_fault_flag); [intros ? ?; reflexivity | exact S1].
  - apply RR_busy. apply R_set_st; [exact H|].
    apply (seq_blind D ack_error); [intros ? ?; apply sm_ack_error | exact S1].
  - assert (HW : R (set_st (setk_write_size ws2
                      (set_mem (upd (mem (st w1)) (v_slot v) a1)
                         (setk_position (k_position (k (st w1)) + n2) (st w1)))) w1)
                   (set_st (setk_write_size ws2
                      (set_mem (upd m (v_slot v) a2)
                         (setk_position (k_position (k (st w1)) + n2) (set_mem m (st w1)))))
                      (W2 w1 m t))).
    { apply R_set_st; [exact H|].
      apply (seq_blind D (setk_write_size ws2)); [intros ? ?; reflexivity | exact S1]. }
    destruct (v_hwrite v).
    + assert (Q : req_rel (VWrite ci (k_var (k (st w1))) ws2 a1)
                          (VWrite ci (k_var (k (st w1))) ws2 a2)).
      { destruct (wo_slot_dec D (v_slot v)) as [W|W].
        - right. exists ci, (k_var (k (st w1))), ws2, a1, a2, c, v.
          split; [reflexivity|]. split; [reflexivity|]. split.
          { unfold cmd_of in Ec. rewrite Eg in Ec. exact Ec. }
          split; [exact Ev|]. split; [exact W | exact L].
        - left. rewrite (AE W). reflexivity. }
      destruct (RR_call_h _ _ _ _ HW Q) as [HC SC].
      match type of HC with R (fst ?x) (fst ?y) =>
        destruct x as [v1 r1], y as [v2 r2] end.
      cbn [fst snd] in HC, SC. subst r2. cbv beta iota zeta.
      destruct (negb (r_code r1 =? 0)%Z); Rgo.
    + cbv beta iota zeta. Rgo.
Qed.

Lemma RR_unsolicited_events_service : forall w1 w2, R w1 w2 ->
  RR (unsolicited_events_service w1) (unsolicited_events_service w2).
Proof.
  intros w1 w2 H. pose proof H as H0. Rstart H. unfold Fsm.unsolicited_events_service. Rsimp.
  destruct (u_state (u (st w1)));
    first [ apply RR_format_read_args; exact H
          | apply RR_process_rt_loop; exact H
          | apply RR_unsolicited_process_io_write; exact H
          | Rgo ].
Qed.

Lemma RR_cmd_service : forall w1 w2, R w1 w2 -> RR (cmd_service w1) (cmd_service w2).
Proof.
  intros w1 w2 H. Rstart H. unfold Fsm.cmd_service. Rsimp.
  destruct (k_state (k (st w1)));
    first [ apply RR_parse_write_args; exact H
          | apply RR_format_read_args; exact H
          | apply RR_process_write_loop; exact H
          | apply RR_process_run_loop; exact H
          | apply RR_process_rt_loop; exact H
          | apply RR_process_io_write; exact H
          | unfold Fsm.error_state, Fsm.process_idle_state, Fsm.parse_prefix, Fsm.parse_command,
              Fsm.wait_read_acknowledge, Fsm.wait_test_acknowledge, Fsm.parse_command_args;
            apply RR_reading; [intros ch ?m ?s; bgo | exact H]
          | Rgo ].
Qed.

Lemma RR_service_body : forall w1 w2, R w1 w2 -> RR (service_body w1) (service_body w2).
Proof.
  intros w1 w2 H. unfold Fsm.service_body.
  destruct (RR_unsolicited_events_service w1 w2 H) as [H1 S1].
  destruct (unsolicited_events_service w1) as [v1 us], (unsolicited_events_service w2) as [v2 us2].
  cbn [fst snd] in H1, S1. subst us2.
  destruct (RR_cmd_service v1 v2 H1) as [H2 S2].
  destruct (cmd_service v1) as [x1 s], (cmd_service v2) as [x2 s2].
  cbn [fst snd] in H2, S2. subst s2.
  pose proof H2 as H3. Rstart H3. Rsimp.
  destruct (negb (us =? ST_OK)%Z || negb (ustate_beq (u_state (u (st x1))) US_IDLE));
    apply RR_pair; exact H2.
Qed.

Lemma RR_do_op : forall w1 w2 o, R w1 w2 -> RR (do_op w1 o) (do_op w2 o).
Proof.
  intros w1 w2 o H. destruct o; cbn [Fsm.do_op].
  - unfold Fsm.api_service. apply RR_bracket; [apply RR_service_body | exact H].
  - apply RR_api_trigger. exact H.
  - apply RR_api_hold_exit. exact H.
  - unfold Fsm.api_is_busy. apply RR_bracket; [|exact H].
    intros v1 v2 Hv. pose proof Hv as Hv0. Rstart Hv. Rsimp. apply RR_pair. exact Hv0.
  - unfold Fsm.api_is_hold. apply RR_bracket; [|exact H].
    intros v1 v2 Hv. pose proof Hv as Hv0. Rstart Hv. Rsimp. apply RR_pair. exact Hv0.
  - unfold Fsm.api_is_full. apply RR_bracket; [|exact H].
    intros v1 v2 Hv. pose proof Hv as Hv0. Rstart Hv. Rsimp. apply RR_pair. exact Hv0.
  - pose proof H as H0. Rstart H. Rsimp. apply RR_pair. exact H0.
  - pose proof H as H0. Rstart H. Rsimp. apply RR_pair. exact H0.
  - apply RR_pair. apply R_upd_st; [intros ?m ?s; reflexivity | exact H].
  - apply RR_pair. apply R_upd_st; [intros ?m ?s; reflexivity | exact H].
Qed.

Lemma R_step : forall w1 w2 o, R w1 w2 -> R (step w1 o) (step w2 o).
Proof.
  intros w1 w2 o H. unfold Fsm.step. destruct (RR_do_op w1 w2 o H) as [H1 S1].
  destruct (do_op w1 o) as [v1 r1], (do_op w2 o) as [v2 r2]. cbn [fst snd] in H1, S1. subst r2.
  apply R_logw. exact H1.
Qed.

Lemma R_run : forall ops w1 w2, R w1 w2 -> R (run w1 ops) (run w2 ops).
Proof.
  induction ops as [|o ops IH]; intros w1 w2 H; [exact H|].
  unfold Fsm.run. cbn [fold_left]. apply IH. apply R_step. exact H.
Qed.

(* ---- the theorem ---- *)

(* the payload handed to write callbacks removed *)
Definition blank_req (q : hreq) : hreq :=
  match q with VWrite ci vi ws _ => VWrite ci vi ws [] | _ => q end.
Definition blank_ev (e : event) : event :=
  match e with ECall q code => ECall (blank_req q) code | _ => e end.

Lemma req_rel_blank : forall q1 q2, req_rel q1 q2 -> blank_req q1 = blank_req q2.
Proof.
  intros q1 q2 [E | [ci [vi [ws [d1 [d2 [c [v [E1 [E2 _]]]]]]]]]].
  - rewrite E. reflexivity.
  - rewrite E1, E2. reflexivity.
Qed.

Lemma ev_rel_blank : forall e1 e2, ev_rel e1 e2 -> blank_ev e1 = blank_ev e2.
Proof.
  intros e1 e2 [E | [q1 [q2 [code [E1 [E2 Q]]]]]].
  - rewrite E. reflexivity.
  - rewrite E1, E2. cbn [blank_ev]. rewrite (req_rel_blank q1 q2 Q). reflexivity.
Qed.

Lemma Forall2_ev_rel_blank : forall t1 t2, Forall2 ev_rel t1 t2 -> map blank_ev t1 = map blank_ev t2.
Proof.
  intros t1 t2 H. induction H as [|e1 e2 t1 t2 He H IH]; [reflexivity|].
  cbn [map]. rewrite (ev_rel_blank e1 e2 He), IH. reflexivity.
Qed.

Theorem noninterference_R : forall m1 m2 x mx h ops, memrel D m1 m2 ->
  R (run (mkWorld (init_state D m1) x mx h []) ops) (run (mkWorld (init_state D m2) x mx h []) ops).
Proof.
  intros m1 m2 x mx h ops M. apply R_run.
  exact (R_W2 (mkWorld (init_state D m1) x mx h []) m2 [] M (Forall2_nil _)).
Qed.

Definition wr_events (t : list event) : list event :=
  filter (fun e => match e with EWr _ _ _ => true | _ => false end) t.

Lemma wr_events_blank : forall t, wr_events (map blank_ev t) = wr_events t.
Proof.
  induction t as [|e t IH]; [reflexivity|].
  cbn [map]. unfold wr_events in *. cbn [filter]. rewrite IH. destruct e; reflexivity.
Qed.

Theorem C08_writeonly_noninterference_strong : forall m1 m2 x mx h ops, memrel D m1 m2 ->
  let w1 := run (mkWorld (init_state D m1) x mx h []) ops in
  let w2 := run (mkWorld (init_state D m2) x mx h []) ops in
  Forall2 ev_rel (tr w1) (tr w2) /\
  io w1 = io w2 /\ mu w1 = mu w2 /\ hs w1 = hs w2 /\
  set_mem [] (st w1) = set_mem [] (st w2) /\
  memrel D (mem (st w1)) (mem (st w2)).
Proof.
  intros m1 m2 x mx h ops M. cbv zeta.
  pose proof (noninterference_R m1 m2 x mx h ops M) as H.
  destruct (R_elim _ _ H) as [m [t [E [M' T]]]]. rewrite E.
  split; [exact T|]. repeat (split; [reflexivity|]). exact M'.
Qed.

Theorem C08_writeonly_noninterference : forall m1 m2 x mx h ops, memrel D m1 m2 ->
  let w1 := run (mkWorld (init_state D m1) x mx h []) ops in
  let w2 := run (mkWorld (init_state D m2) x mx h []) ops in
  map blank_ev (tr w1) = map blank_ev (tr w2) /\
  io w1 = io w2 /\ mu w1 = mu w2 /\ hs w1 = hs w2 /\
  set_mem [] (st w1) = set_mem [] (st w2) /\
  memrel D (mem (st w1)) (mem (st w2)).
Proof.
  intros m1 m2 x mx h ops M.
  destruct (C08_writeonly_noninterference_strong m1 m2 x mx h ops M) as [T Rest].
  split; [apply Forall2_ev_rel_blank; exact T | exact Rest].
Qed.

(* in particular: the same bytes are offered to io_write, with the same outcomes, in the same order *)
Theorem C08_writeonly_same_output : forall m1 m2 x mx h ops, memrel D m1 m2 ->
  wr_events (tr (run (mkWorld (init_state D m1) x mx h []) ops)) =
  wr_events (tr (run (mkWorld (init_state D m2) x mx h []) ops)).
Proof.
  intros m1 m2 x mx h ops M.
  destruct (C08_writeonly_noninterference m1 m2 x mx h ops M) as [T _].
  rewrite <- wr_events_blank, T, wr_events_blank. reflexivity.
Qed.

End NonInterference.
