(* Properties_C13e.v — an unsolicited READ event, end to end on the scripted always-ready environment
   (no mutex, command machine idle, no input): the application triggers a READ event for a command
   answered from read-write variables; repeated cat_service calls emit exactly one unit
   newline name=text1,text2,... newline, without a result code, and leave both machines idle.
   Proof in Lemmas_E2Eb.v. *)
From Coq Require Import List NArith ZArith Bool Arith.
From CatV Require Import Bytes Defs Codec Spec Fsm Script ResolveDefs SchedDefs GlueDefs TextDefs.
From CatV Require Lemmas_C07e Lemmas_C13 Lemmas_E2E Lemmas_E2Eb.
Import ListNotations.
Local Open Scope nat_scope.

Local Notation wst := (Fsm.st sio smu shs).
Local Notation whs := (Fsm.hs sio smu shs).
Local Notation wtr := (Fsm.tr sio smu shs).

Theorem E2E_event_line : forall D s h ci c args,
  d_mutex D = false -> Lemmas_C13.ring_wf D s -> fault s = false ->
  k_state (k s) = CS_IDLE -> k_cr (k s) = false -> k_hold (k s) = false ->
  u_state (u s) = US_IDLE -> u_count (u s) = 0 ->
  cmd_at D ci = Some c -> Lemmas_C07e.rt_cmd_ok (mem s) c ->
  Lemmas_C07e.read_args_text (mem s) c = Some args ->
  length (c_name c ++ [ch_EQ] ++ args) < length (ubuf s) ->
  (* the application triggers the event (no input is pending), then calls cat_service repeatedly *)
  let w0 := mkw s [] h [] in
  let (w1, r) := do_op D sio smu shs s_read s_write s_lock s_unlock s_call w0 (OTrigger ci T_READ) in
  r = ST_OK /\
  exists calls, let w := nsvc D calls w1 in
    u_state (u (wst w)) = US_IDLE /\ u_count (u (wst w)) = 0 /\ u_cmd (u (wst w)) = None /\
    k_state (k (wst w)) = CS_IDLE /\
    whs w = h /\ calls_of (wtr w) = [] /\ mem (wst w) = mem s /\ fault (wst w) = false /\
    (* one unit, no result code *)
    output_of (wtr w) = [ch_LF] ++ c_name c ++ [ch_EQ] ++ args ++ [ch_LF] /\
    gS (wst w) = gS s /\ gR (wst w) = gR s /\
    (* and the parser is quiescent *)
    snd (do_op D sio smu shs s_read s_write s_lock s_unlock s_call w OService) = ST_OK.
Proof. exact Lemmas_E2Eb.E2E_event_line_proof. Qed.
Print Assumptions E2E_event_line.

(* the instance of Lemmas_E2E.E2E_examples (command +X : int16 -2, string A,dquote, hex 0AFF, uint8 200)
   with a 40-byte event buffer: trigger accepted; after 34 calls everything is idle again and the output is
   LF +X=-2,dquote A, backslash dquote dquote,0AFF,200 LF *)
Example E2E_event_line_ex :
  Lemmas_E2Eb.E2Eb_examples.go 34 =
  (ST_OK,
   (US_IDLE, 0, None, CS_IDLE, [], [],
    [ch_LF] ++ [43; 88; 61]%N ++ Lemmas_E2E.E2E_examples.args0 ++ [ch_LF],
    Lemmas_E2E.E2E_examples.m0, false, (0, 0), ST_OK)).
Proof. vm_compute. reflexivity. Qed.
