(* Lemmas_C15.v — property C15: cat_service reports OK only when the parser is quiescent
   (no event queued or in progress, no output pending, no input byte consumed in that call);
   otherwise BUSY.  All the work for Properties_C15.v is here. *)
From Coq Require Import List NArith ZArith Bool Arith Lia.
From CatV Require Import Bytes Defs Codec Fsm Script SkelInv ResolveDefs SchedDefs.
Import ListNotations.
Local Open Scope nat_scope.

Lemma busy_ne_ok : ST_BUSY <> ST_OK.
Proof. unfold ST_BUSY, ST_OK. discriminate. Qed.

(* destruct every scrutinee of the goal, outermost first *)
Ltac brk :=
  repeat match goal with
         | |- context [match ?x with _ => _ end] => destruct x
         end.

Section C15.
Variable D : desc.
Variables ioS muS hS : Type.
Variable io_read : ioS -> ioS * option N.
Variable io_write : ioS -> N -> ioS * bool.
Variable mu_lock : muS -> muS * bool.
Variable mu_unlock : muS -> muS * bool.
Variable h_call : hS -> hreq -> hS * hres.

Local Notation world := (Fsm.world ioS muS hS).
Local Notation st := (Fsm.st ioS muS hS).
Local Notation io := (Fsm.io ioS muS hS).
Local Notation mu := (Fsm.mu ioS muS hS).
Local Notation hs := (Fsm.hs ioS muS hS).
Local Notation tr := (Fsm.tr ioS muS hS).
Local Notation set_io := (Fsm.set_io ioS muS hS).
Local Notation set_mu := (Fsm.set_mu ioS muS hS).
Local Notation logw := (Fsm.logw ioS muS hS).
Local Notation upd_st := (Fsm.upd_st ioS muS hS).
Local Notation busy := (Fsm.busy ioS muS hS).
Local Notation call_h := (Fsm.call_h D ioS muS hS mu_lock mu_unlock h_call).
Local Notation read_cmd_char := (Fsm.read_cmd_char ioS muS hS io_read).
Local Notation reading := (Fsm.reading ioS muS hS io_read).
Local Notation bracket := (Fsm.bracket D ioS muS hS mu_lock mu_unlock).
Local Notation format_read_args := (Fsm.format_read_args D ioS muS hS mu_lock mu_unlock h_call).
Local Notation process_rt_loop := (Fsm.process_rt_loop D ioS muS hS mu_lock mu_unlock h_call).
Local Notation process_write_loop := (Fsm.process_write_loop D ioS muS hS mu_lock mu_unlock h_call).
Local Notation process_run_loop := (Fsm.process_run_loop D ioS muS hS mu_lock mu_unlock h_call).
Local Notation parse_write_args := (Fsm.parse_write_args D ioS muS hS mu_lock mu_unlock h_call).
Local Notation process_io_write := (Fsm.process_io_write ioS muS hS io_write).
Local Notation unsolicited_process_io_write := (Fsm.unsolicited_process_io_write ioS muS hS io_write).
Local Notation unsolicited_events_service :=
  (Fsm.unsolicited_events_service D ioS muS hS io_write mu_lock mu_unlock h_call).
Local Notation cmd_service :=
  (Fsm.cmd_service D ioS muS hS io_read io_write mu_lock mu_unlock h_call).
Local Notation service_body :=
  (Fsm.service_body D ioS muS hS io_read io_write mu_lock mu_unlock h_call).
Local Notation api_service :=
  (Fsm.api_service D ioS muS hS io_read io_write mu_lock mu_unlock h_call).

(* ------------------------------------------------------------------ *)
(* the non-reading pieces always answer BUSY                            *)
(* ------------------------------------------------------------------ *)

Lemma format_read_args_busy : forall f w, snd (format_read_args f w) = ST_BUSY.
Proof. intros f w. unfold Fsm.format_read_args, Fsm.busy. brk; reflexivity. Qed.

Lemma process_rt_loop_busy : forall rd f w, snd (process_rt_loop rd f w) = ST_BUSY.
Proof. intros rd f w. unfold Fsm.process_rt_loop, Fsm.busy. brk; reflexivity. Qed.

Lemma process_write_loop_busy : forall w, snd (process_write_loop w) = ST_BUSY.
Proof. intros w. unfold Fsm.process_write_loop, Fsm.busy. brk; reflexivity. Qed.

Lemma process_run_loop_busy : forall w, snd (process_run_loop w) = ST_BUSY.
Proof. intros w. unfold Fsm.process_run_loop, Fsm.busy. brk; reflexivity. Qed.

Lemma parse_write_args_busy : forall w, snd (parse_write_args w) = ST_BUSY.
Proof. intros w. unfold Fsm.parse_write_args, Fsm.busy. brk; reflexivity. Qed.

Lemma process_io_write_busy : forall w, snd (process_io_write w) = ST_BUSY.
Proof. intros w. unfold Fsm.process_io_write, Fsm.busy. brk; reflexivity. Qed.

Lemma unsolicited_process_io_write_busy : forall w, snd (unsolicited_process_io_write w) = ST_BUSY.
Proof. intros w. unfold Fsm.unsolicited_process_io_write, Fsm.busy. brk; reflexivity. Qed.

(* ------------------------------------------------------------------ *)
(* a reading state                                                      *)
(* ------------------------------------------------------------------ *)

Lemma reading_none : forall w body io',
  io_read (io w) = (io', None) -> reading w body = (logw (ERd None) (set_io io' w), ST_OK).
Proof.
  intros w body io' H. unfold Fsm.reading, Fsm.read_cmd_char. rewrite H. reflexivity.
Qed.

Lemma reading_some : forall w body io' ch,
  io_read (io w) = (io', Some ch) -> snd (reading w body) = ST_BUSY.
Proof.
  intros w body io' ch H. unfold Fsm.reading, Fsm.read_cmd_char. rewrite H. reflexivity.
Qed.

(* ------------------------------------------------------------------ *)
(* the command machine                                                  *)
(* ------------------------------------------------------------------ *)

Ltac unfold_readers :=
  unfold Fsm.error_state, Fsm.process_idle_state, Fsm.parse_prefix, Fsm.parse_command,
         Fsm.wait_read_acknowledge, Fsm.wait_test_acknowledge, Fsm.parse_command_args.

Lemma cmd_none : forall w io',
  reading_state (k_state (k (st w))) = true -> io_read (io w) = (io', None) ->
  cmd_service w = (logw (ERd None) (set_io io' w), ST_OK).
Proof.
  intros w io' Hr Hio. unfold Fsm.cmd_service.
  destruct (k_state (k (st w))); try discriminate Hr; unfold_readers; apply reading_none; exact Hio.
Qed.

Lemma cmd_nonreading : forall w,
  reading_state (k_state (k (st w))) = false -> snd (cmd_service w) = ST_BUSY.
Proof.
  intros w Hr. unfold Fsm.cmd_service.
  destruct (k_state (k (st w))); try discriminate Hr; try reflexivity.
  - apply parse_write_args_busy.
  - apply format_read_args_busy.
  - apply process_write_loop_busy.
  - apply process_rt_loop_busy.
  - apply process_rt_loop_busy.
  - apply process_run_loop_busy.
  - apply process_io_write_busy.
Qed.

Lemma cmd_some : forall w io' ch,
  io_read (io w) = (io', Some ch) -> snd (cmd_service w) = ST_BUSY.
Proof.
  intros w io' ch Hio. destruct (reading_state (k_state (k (st w)))) eqn:Hr.
  - unfold Fsm.cmd_service.
    destruct (k_state (k (st w))); try discriminate Hr; unfold_readers;
      eapply reading_some; exact Hio.
  - apply cmd_nonreading. exact Hr.
Qed.

Lemma cmd_ok_inv : forall w w2, cmd_service w = (w2, ST_OK) ->
  reading_state (k_state (k (st w))) = true /\
  exists io', io_read (io w) = (io', None) /\ w2 = logw (ERd None) (set_io io' w).
Proof.
  intros w w2 H. destruct (reading_state (k_state (k (st w)))) eqn:Hr.
  - split; [reflexivity|]. destruct (io_read (io w)) as [io' [ch|]] eqn:Hio.
    + pose proof (cmd_some w io' ch Hio) as Hb. rewrite H in Hb. cbn [snd] in Hb.
      symmetry in Hb. destruct (busy_ne_ok Hb).
    + exists io'. split; [reflexivity|]. rewrite (cmd_none w io' Hr Hio) in H.
      inversion H. reflexivity.
  - pose proof (cmd_nonreading w Hr) as Hb. rewrite H in Hb. cbn [snd] in Hb.
    symmetry in Hb. destruct (busy_ne_ok Hb).
Qed.

Lemma cmd_status_range : forall w, snd (cmd_service w) = ST_OK \/ snd (cmd_service w) = ST_BUSY.
Proof.
  intros w. destruct (reading_state (k_state (k (st w)))) eqn:Hr.
  - destruct (io_read (io w)) as [io' [ch|]] eqn:Hio.
    + right. eapply cmd_some. exact Hio.
    + left. rewrite (cmd_none w io' Hr Hio). reflexivity.
  - right. apply cmd_nonreading. exact Hr.
Qed.

(* ------------------------------------------------------------------ *)
(* the event machine                                                    *)
(* ------------------------------------------------------------------ *)

Lemma uns_cases : forall w,
  snd (unsolicited_events_service w) = ST_BUSY \/
  (unsolicited_events_service w = (w, ST_OK) /\
   u_state (u (st w)) = US_IDLE /\ u_count (u (st w)) = 0).
Proof.
  intros w. unfold Fsm.unsolicited_events_service.
  destruct (u_state (u (st w))) eqn:E.
  1: { unfold ring_empty. destruct (u_count (u (st w)) =? 0) eqn:R; cbn [negb].
       - right. apply Nat.eqb_eq in R. auto.
       - left. reflexivity. }
  all: left; try reflexivity.
  - apply format_read_args_busy.
  - apply process_rt_loop_busy.
  - apply process_rt_loop_busy.
  - apply unsolicited_process_io_write_busy.
Qed.

Lemma uns_idle_empty : forall w,
  u_state (u (st w)) = US_IDLE -> u_count (u (st w)) = 0 ->
  unsolicited_events_service w = (w, ST_OK).
Proof.
  intros w Hi Hc. unfold Fsm.unsolicited_events_service, ring_empty. rewrite Hi, Hc. reflexivity.
Qed.

Lemma ring_items_count0 : forall s, u_count (u s) = 0 -> ring_items D s = [].
Proof. intros s H. unfold ring_items. rewrite H. reflexivity. Qed.

(* ------------------------------------------------------------------ *)
(* the body of cat_service                                              *)
(* ------------------------------------------------------------------ *)

(* forward: a quiescent parser whose read is refused answers OK and only logs the read *)
Lemma body_quiescent : forall w io',
  reading_state (k_state (k (st w))) = true ->
  u_state (u (st w)) = US_IDLE -> u_count (u (st w)) = 0 ->
  io_read (io w) = (io', None) ->
  service_body w = (logw (ERd None) (set_io io' w), ST_OK).
Proof.
  intros w io' Hr Hi Hc Hio. unfold Fsm.service_body.
  rewrite (uns_idle_empty w Hi Hc). rewrite (cmd_none w io' Hr Hio).
  cbn [Fsm.st Fsm.logw Fsm.set_io]. rewrite Hi. reflexivity.
Qed.

(* backward *)
Lemma body_ok_inv : forall w w', service_body w = (w', ST_OK) ->
  reading_state (k_state (k (st w))) = true /\
  u_state (u (st w)) = US_IDLE /\ u_count (u (st w)) = 0 /\
  exists io', io_read (io w) = (io', None) /\ w' = logw (ERd None) (set_io io' w).
Proof.
  intros w w' H. unfold Fsm.service_body in H.
  destruct (uns_cases w) as [Hb | (Hu & Hi & Hc)].
  - destruct (unsolicited_events_service w) as [w1 us]. cbn [snd] in Hb. subst us.
    destruct (cmd_service w1) as [w2 s]. cbn [Z.eqb ST_BUSY ST_OK negb orb] in H.
    inversion H.
  - rewrite Hu in H. destruct (cmd_service w) as [w2 s] eqn:Hk.
    cbn [Z.eqb ST_OK negb orb] in H.
    destruct (negb (ustate_beq (u_state (u (st w2))) US_IDLE)).
    + inversion H.
    + inversion H. subst w2 s.
      destruct (cmd_ok_inv w w' Hk) as (Hr & io' & Hio & Hw).
      split; [exact Hr|]. split; [exact Hi|]. split; [exact Hc|].
      exists io'. split; assumption.
Qed.

Theorem C15_ok_is_quiescent : forall w w', service_body w = (w', ST_OK) ->
  reading_state (k_state (k (st w))) = true /\
  u_state (u (st w)) = US_IDLE /\ u_count (u (st w)) = 0 /\ ring_items D (st w) = [] /\
  exists io', io_read (io w) = (io', None) /\
              st w' = st w /\ hs w' = hs w /\ mu w' = mu w /\ io w' = io' /\
              tr w' = ERd None :: tr w.
Proof.
  intros w w' H. destruct (body_ok_inv w w' H) as (Hr & Hi & Hc & io' & Hio & Hw).
  split; [exact Hr|]. split; [exact Hi|]. split; [exact Hc|].
  split; [apply ring_items_count0; exact Hc|].
  exists io'. split; [exact Hio|]. subst w'. repeat split.
Qed.

Theorem C15_status_range : forall w,
  snd (service_body w) = ST_OK \/ snd (service_body w) = ST_BUSY.
Proof.
  intros w. unfold Fsm.service_body.
  destruct (unsolicited_events_service w) as [w1 us].
  pose proof (cmd_status_range w1) as Hk.
  destruct (cmd_service w1) as [w2 s]. cbn [snd] in Hk.
  destruct (negb (us =? ST_OK)%Z || negb (ustate_beq (u_state (u (st w2))) US_IDLE)).
  - right. reflexivity.
  - exact Hk.
Qed.

Theorem C15_ok_idempotent : forall w w', service_body w = (w', ST_OK) ->
  forall io'', io_read (io w') = (io'', None) ->
  service_body w' = (logw (ERd None) (set_io io'' w'), ST_OK).
Proof.
  intros w w' H io'' Hio2.
  destruct (body_ok_inv w w' H) as (Hr & Hi & Hc & io' & Hio & Hw).
  assert (Hst : st w' = st w) by (subst w'; reflexivity).
  apply body_quiescent; try rewrite Hst; assumption.
Qed.

Theorem C15_busy_when_work : forall w,
  (u_state (u (st w)) <> US_IDLE \/ u_count (u (st w)) <> 0 \/
   reading_state (k_state (k (st w))) = false \/
   (exists io' ch, io_read (io w) = (io', Some ch))) ->
  snd (service_body w) = ST_BUSY.
Proof.
  intros w Hw. destruct (C15_status_range w) as [Hok | Hb]; [|exact Hb].
  exfalso. destruct (service_body w) as [w' s] eqn:Hs. cbn [snd] in Hok. subst s.
  destruct (body_ok_inv w w' Hs) as (Hr & Hi & Hc & io' & Hio & _).
  destruct Hw as [Hw | [Hw | [Hw | (io1 & ch & Hw)]]].
  - apply Hw. exact Hi.
  - apply Hw. exact Hc.
  - rewrite Hr in Hw. discriminate Hw.
  - rewrite Hio in Hw. discriminate Hw.
Qed.

(* ------------------------------------------------------------------ *)
(* API level                                                            *)
(* ------------------------------------------------------------------ *)

Lemma api_ok_inv : forall w, snd (api_service w) = ST_OK ->
  exists w1 w2, st w1 = st w /\ hs w1 = hs w /\ io w1 = io w /\
                service_body w1 = (w2, ST_OK) /\
                st (fst (api_service w)) = st w2 /\ hs (fst (api_service w)) = hs w2 /\
                io (fst (api_service w)) = io w2.
Proof.
  intros w H. unfold Fsm.api_service, Fsm.bracket in *.
  destruct (d_mutex D).
  - destruct (mu_lock (mu w)) as [m1 ok]. destruct ok; cbn [negb] in *.
    + set (w1 := logw (ELock true) (set_mu m1 w)) in *.
      destruct (service_body w1) as [w2 s] eqn:Hs.
      destruct (mu_unlock (mu w2)) as [m2 ok2]. destruct ok2; cbn [negb snd fst] in *.
      * subst s. exists w1, w2. repeat split; assumption.
      * discriminate H.
    + discriminate H.
  - destruct (service_body w) as [w2 s] eqn:Hs. cbn [snd fst] in *. subst s.
    exists w, w2. repeat split; assumption.
Qed.

Theorem C15_api_ok : forall w, snd (api_service w) = ST_OK ->
  reading_state (k_state (k (st w))) = true /\ u_state (u (st w)) = US_IDLE /\
  ring_items D (st w) = [] /\
  st (fst (api_service w)) = st w /\ hs (fst (api_service w)) = hs w.
Proof.
  intros w H.
  destruct (api_ok_inv w H) as (w1 & w2 & Hst & Hhs & _ & Hs & Hst2 & Hhs2 & _).
  destruct (C15_ok_is_quiescent w1 w2 Hs) as (Hr & Hi & Hc & Hq & io' & _ & Hst3 & Hhs3 & _).
  rewrite Hst in *. repeat split; try assumption; congruence.
Qed.

End C15.

(* ------------------------------------------------------------------ *)
(* the scripted environment: the quiescent fixpoint                     *)
(* ------------------------------------------------------------------ *)

Section Scripted.
Variable D : desc.

Local Notation st := (Fsm.st sio smu shs).
Local Notation io := (Fsm.io sio smu shs).
Local Notation hs := (Fsm.hs sio smu shs).
Local Notation sdo_op := (Fsm.do_op D sio smu shs s_read s_write s_lock s_unlock s_call).
Local Notation sbody := (Fsm.service_body D sio smu shs s_read s_write s_lock s_unlock s_call).

Lemma s_read_empty : forall x, inq x = [] ->
  exists x', s_read x = (x', None) /\ inq x' = [].
Proof.
  intros x H. unfold s_read. destruct (pop_bit (rd_sched x)) as [bit rs]. destruct bit.
  - rewrite H. eexists. split; reflexivity.
  - eexists. split; [reflexivity|]. exact H.
Qed.

(* quiescent and nothing left to read *)
Definition quiet (w : sworld) : Prop :=
  reading_state (k_state (k (st w))) = true /\ u_state (u (st w)) = US_IDLE /\
  u_count (u (st w)) = 0 /\ inq (io w) = [].

Lemma quiet_svc : forall w, d_mutex D = false -> quiet w ->
  quiet (svc D w) /\ st (svc D w) = st w /\ hs (svc D w) = hs w /\
  snd (sdo_op w OService) = ST_OK.
Proof.
  intros w Hm (Hr & Hi & Hc & Hq).
  destruct (s_read_empty (io w) Hq) as (x' & Hrd & Hq').
  pose proof (body_quiescent D sio smu shs s_read s_write s_lock s_unlock s_call w x' Hr Hi Hc Hrd)
    as Hb.
  unfold svc, step, quiet. cbn [Fsm.do_op]. unfold api_service, bracket. rewrite Hm, Hb.
  cbn. repeat split; assumption.
Qed.

Lemma quiet_nsvc : forall n w, d_mutex D = false -> quiet w ->
  quiet (nsvc D n w) /\ st (nsvc D n w) = st w /\ hs (nsvc D n w) = hs w.
Proof.
  unfold nsvc. induction n as [|n IH]; intros w Hm Hq.
  - cbn [iter]. auto.
  - cbn [iter]. destruct (quiet_svc w Hm Hq) as (Hq1 & Hst & Hhs & _).
    destruct (IH (svc D w) Hm Hq1) as (Hq2 & Hst2 & Hhs2).
    split; [exact Hq2|]. split; congruence.
Qed.

Theorem C15_quiescent_forever : forall (w : sworld) n, d_mutex D = false ->
  inq (io w) = [] -> snd (sdo_op w OService) = ST_OK ->
  st (nsvc D n w) = st w /\ hs (nsvc D n w) = hs w.
Proof.
  intros w n Hm Hq Hok.
  assert (Hqw : quiet w).
  { cbn [Fsm.do_op] in Hok. unfold api_service, bracket in Hok. rewrite Hm in Hok.
    destruct (sbody w) as [w' s] eqn:Hs. cbn [snd] in Hok. subst s.
    destruct (body_ok_inv D sio smu shs s_read s_write s_lock s_unlock s_call w w' Hs)
      as (Hr & Hi & Hc & _).
    unfold quiet. auto. }
  destruct (quiet_nsvc n w Hm Hqw) as (_ & H1 & H2). split; assumption.
Qed.

(* every one of those calls also answers OK *)
Theorem C15_quiescent_forever_ok : forall (w : sworld) n, d_mutex D = false ->
  inq (io w) = [] -> snd (sdo_op w OService) = ST_OK ->
  snd (sdo_op (nsvc D n w) OService) = ST_OK.
Proof.
  intros w n Hm Hq Hok.
  assert (Hqw : quiet w).
  { cbn [Fsm.do_op] in Hok. unfold api_service, bracket in Hok. rewrite Hm in Hok.
    destruct (sbody w) as [w' s] eqn:Hs. cbn [snd] in Hok. subst s.
    destruct (body_ok_inv D sio smu shs s_read s_write s_lock s_unlock s_call w w' Hs)
      as (Hr & Hi & Hc & _).
    unfold quiet. auto. }
  destruct (quiet_nsvc n w Hm Hqw) as (Hq2 & _).
  destruct (quiet_svc _ Hm Hq2) as (_ & _ & _ & H). exact H.
Qed.

End Scripted.
