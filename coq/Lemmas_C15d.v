(* Lemmas_C15d.v — property C15, second half, WITHOUT the ban on holds.  Lemmas_C15b / Lemmas_C15c
   prove that the service loop reaches quiescence provided no handler answers HOLD any more and the
   command is not held.  Here any handler may answer HOLD at any time and the start state may be
   held (with or without a release requested); there is no condition on HOLD answers at all (the
   from-cat_init forms at the end assume no_rt_hold of Lemmas_Inv.v, scope decision D3, because
   the invariants Safe and J are only reached under it).  Every cat_service call
     - decreases the potential Phi' = Phi (Lemmas_C15b) + one complete run of the command machine
       while the command is held (the release restarts the command machine), or
     - keeps Phi' and uses up a scheduled io attempt by a refusal, or
     - answers OK with no input left (quiescent), or
     - changes nothing because the command is held with no release requested while the event
       machine is idle with an empty queue (suspended: only the application's cat_hold_exit can go on).
   Hence after at most C15_bound D w + sched_left w calls the run is quiescent or suspended in an
   unreleased hold with every event drained.

   Reused unchanged: the measure and all step lemmas of the command machine (Lemmas_C15ba.v: they
   assume NH, which holds in every state of the command machine other than CS_HOLD), the potential
   and the oracle lemmas of Lemmas_C15b.v / Lemmas_C15c.v.  New: the step lemmas of the EVENT machine
   without the assumption NH (the event machine runs while the command is held), the handler
   continuations that enter / leave the hold, the state CS_HOLD.  The invariant on the hold flag
   is HH: k_hold = true <-> k_state = CS_HOLD (the first clause of J). *)
From Coq Require Import List NArith ZArith Bool Arith Lia Wf_nat.
From CatV Require Import Bytes Defs Codec Fsm Script Skel SkelInv ResolveDefs SchedDefs TermDefs.
From CatV Require Import Lemmas_C03 Lemmas_C12 Lemmas_C15 Lemmas_C15ba Lemmas_C15b Lemmas_C15c Lemmas_Inv.
Import ListNotations.
Local Open Scope nat_scope.

(* ================================================================== *)
(* 1. the event machine's pure steps, for ANY state of the command     *)
(*    machine (no assumption on the hold flag)                         *)
(* ================================================================== *)

Section PureU.
Variable D : desc.
Variable m : list (list N).
Hypothesis WF : wf_desc D m.

Local Notation Safe := (Safe D m).
Local Notation cU := (cU D).
Local Notation mU := (mU D).

(* a productive step of the event machine: the command machine's record is untouched *)
Definition PU0 (s s' : state) : Prop := k s' = k s /\ lexlt (mU s') (mU s).
(* target-class form *)
Definition TU0 (n : nat) (s s' : state) : Prop :=
  k s' = k s /\ u_count (u s') = u_count (u s) /\ hd 0 (cU s') <= n.

Lemma PU_PU0 : forall s s', PU D s s' -> PU0 s s'.
Proof. intros s s' (A & _ & C). split; assumption. Qed.

Lemma TU0_PU0 : forall n s s', TU0 n s s' -> n < hd 0 (cU s) -> PU0 s s'.
Proof.
  intros n s s' (K & A & C) H. split; [exact K|]. unfold Lemmas_C15ba.mU. rewrite A. cbn [lexlt]. right. split; [reflexivity|].
  apply lexlt_hd; [lia | |]; intro E; apply (f_equal (@length nat)) in E; rewrite cU_len in E; discriminate.
Qed.
Lemma TU0_le : forall n n' s s', TU0 n s s' -> n <= n' -> TU0 n' s s'.
Proof. intros n n' s s' (K & A & C) H. repeat split; try assumption. lia. Qed.
Lemma TU0_via : forall n n' s0 s s', TU0 n s s' -> n <= n' ->
  u_count (u s) = u_count (u s0) /\ k s = k s0 -> TU0 n' s0 s'.
Proof. intros n n' s0 s s' (K & A & C) L [E1 E2]. split; [congruence | split; [congruence | lia]]. Qed.

Ltac base_open H :=
  let Hf := fresh "Hf" in let Hcb := fresh "Hcb" in let Hub := fresh "Hub" in
  let Hm := fresh "Hm" in let Hkc := fresh "Hkc" in let Huc := fresh "Huc" in
  let Hr := fresh "Hr" in
  destruct H as (Hf & Hcb & Hub & Hm & Hkc & Huc & Hr).
Ltac safe_open H :=
  let HB := fresh "HB" in let HK := fresh "HK" in let HU := fresh "HU" in
  destruct H as (HB & HK & HU); base_open HB.

Ltac rw_ctx :=
  repeat match goal with
         | E : k_state (k _) = _ |- _ => progress rewrite E
         | E : u_state (u _) = _ |- _ => progress rewrite E
         | E : k_cmd (k _) = _ |- _ => progress rewrite E
         | E : k_type (k _) = _ |- _ => progress rewrite E
         | E : u_cmd (u _) = _ |- _ => progress rewrite E
         | E : nth_error (pool D) _ = _ |- _ => progress rewrite E
         end.

Ltac pu0_fin :=
  unf_helpers; unfold PU0; split; [ev; try reflexivity |
    unfold Lemmas_C15ba.mU, Lemmas_C15ba.cU, ufl, upre, nv; ev; rw_ctx; ev; cbn [app]; lex_solve].
Ltac tu0_fin :=
  unf_helpers; unfold TU0; split; [ev; try reflexivity | split; [ev; try reflexivity |
    unfold Lemmas_C15ba.cU, ufl, upre; ev; cbn [hd app]; try lia]].

Ltac brk_pair :=
  match goal with
  | |- context [let (_, _) := ?x in _] =>
    lazymatch x with
    | context [match _ with _ => _ end] => fail
    | _ => destruct x as [? ?]
    end
  end.

Lemma spfra_TU0 : forall s, cmd_ok D (g_cmd UNSOL s) ->
  TU0 7 s (start_processing_format_read_args D UNSOL s).
Proof.
  intros s Hc. unfold start_processing_format_read_args, cmd_of, cmd_at, print_string.
  sproj; sproj_in Hc; destruct (cmd_ok_at D _ Hc) as (ci & c & E1 & E2); rewrite E1, E2.
  brk_pair. destruct b; cbn [negb]; [|tu0_fin].
  brk_pair. destruct b; cbn [negb]; [|tu0_fin].
  destruct (vars_access_possible c RO); [tu0_fin|].
  destruct (c_hread c); cbn [negb]; tu0_fin.
Qed.

Lemma prt_TU0 : forall s, cmd_ok D (g_cmd UNSOL s) ->
  TU0 6 s (let (s3, ok3) := print_response_test D UNSOL s in if ok3 then s3 else end_with_error UNSOL s3).
Proof.
  intros s Hc. unfold print_response_test, cmd_of, cmd_at, print_strings.
  sproj; sproj_in Hc; destruct (cmd_ok_at D _ Hc) as (ci & c & E1 & E2); rewrite E1, E2.
  destruct (c_descr c).
  - brk_pair. destruct b; cbn [negb]; [|tu0_fin]. destruct (c_htest c); tu0_fin.
  - cbn [negb]. destruct (c_htest c); tu0_fin.
Qed.

Lemma spfta_TU0 : forall s, cmd_ok D (g_cmd UNSOL s) ->
  TU0 7 s (start_processing_format_test_args D UNSOL s).
Proof.
  intros s Hc. unfold start_processing_format_test_args, cmd_of, cmd_at, print_string.
  sproj; sproj_in Hc; destruct (cmd_ok_at D _ Hc) as (ci & c & E1 & E2); rewrite E1, E2.
  brk_pair. destruct b; cbn [negb]; [|tu0_fin].
  brk_pair. destruct b; cbn [negb]; [|tu0_fin].
  destruct (c_vars c); [|tu0_fin].
  match goal with |- context [print_response_test D UNSOL ?s2] =>
    apply (TU0_via 6 7 s s2); [apply prt_TU0 | lia | ]; ev; try assumption; try reflexivity; try (split; reflexivity) end.
Qed.

(* cat.c:1857 *)
Lemma format_test_args_PU0 : forall s, Safe s -> fmt_state UNSOL s false ->
  PU0 s (format_test_args D UNSOL s).
Proof.
  intros s HS Hst. destruct (fmt_state_inv D m UNSOL s false HS Hst) as (Hv & Hp & _).
  pose proof (var_ok_cmd D _ _ Hv) as Hc.
  destruct (var_ok_at D _ _ Hv) as (ci & c & v & E1 & E2 & E3).
  unfold format_test_args, next_format_var, cmd_of, cmd_at. rewrite E1, E2, E3.
  cbn [fmt_state] in Hst; sproj_in E1; sproj_in Hc.
  brk_pair. destruct b; cbn [negb]; [|pu0_fin]. ev. rewrite E1, E2.
  destruct (Nat.ltb_spec (S (u_index (u s))) (length (c_vars c))) as [L|L].
  - destruct (_ <=? _); cbn [fst snd]; pu0_fin.
  - match goal with |- context [print_response_test D UNSOL ?s2] =>
      apply (TU0_PU0 6); [apply (TU0_via 6 6 s s2); [apply prt_TU0 | lia | ] | ];
      ev; try assumption; try reflexivity; try (split; reflexivity) end.
    unfold Lemmas_C15ba.cU. rewrite Hst. cbn [hd]. lia.
Qed.

Lemma fra_body_PU0 : forall s ci c v, Safe s -> fmt_state UNSOL s true ->
  g_cmd UNSOL s = Some ci -> nth_error (pool D) ci = Some c ->
  nth_error (c_vars c) (g_var UNSOL s) = Some v ->
  PU0 s (fra_body D UNSOL c v s).
Proof.
  intros s ci c v HS Hst E1 E2 E3.
  pose proof (fra_body_safe D m WF UNSOL s ci c v HS Hst E1 E2 E3) as HN. apply safe_fault in HN.
  fold (fra_body D UNSOL c v s) in HN. revert HN.
  unfold fra_body, next_format_var, cmd_of, cmd_at.
  destruct (nth_error (mem s) (v_slot v)) as [data|]; [|intros HN; ev_in HN; discriminate HN]. intros _.
  cbn [fmt_state] in Hst; sproj_in E1.
  brk_pair. cbv zeta. destruct b; cbn [negb]; [|pu0_fin]. ev. rewrite E1, E2.
  destruct (Nat.ltb_spec (S (u_index (u s))) (length (c_vars c))) as [L|L].
  - destruct (_ <=? _); cbn [fst snd]; pu0_fin.
  - destruct (c_hread c); pu0_fin.
Qed.

Lemma check_unsolicited_buffers_PU0 : forall s, Safe s -> u_state (u s) = US_IDLE ->
  ring_empty s = false -> PU0 s (check_unsolicited_buffers D s).
Proof.
  intros s HS Hst Hemp. safe_open HS. destruct Hr as (R1 & R2 & R3 & R4).
  unfold ring_empty in Hemp. apply Nat.eqb_neq in Hemp.
  unfold check_unsolicited_buffers, pop_unsolicited_cmd, ring_empty.
  destruct (u_count (u s) =? 0) eqn:E0; [apply Nat.eqb_eq in E0; lia|].
  destruct (nth_error (u_ring (u s)) (u_head (u s))) as [[ci t]|] eqn:En;
    [|apply nth_error_None in En; lia].
  assert (Hci : ci < length (pool D)) by (eapply Forall_nth_error in R4; [|exact En]; exact R4).
  match goal with |- context [setu_type t ?x] => set (s2 := setu_type t x) end.
  assert (Hc2 : u_count (u s2) < u_count (u s)) by (subst s2; ev; lia).
  assert (Hk2 : cmd_ok D (g_cmd UNSOL s2)) by (subst s2; ev; exact Hci).
  assert (X : forall s', TU0 7 s2 s' -> PU0 s s').
  { intros s' (K & A & C). split; [rewrite K; subst s2; reflexivity|]. unfold Lemmas_C15ba.mU. cbn [lexlt]. left. lia. }
  destruct t; try (apply X; apply spfra_TU0; assumption);
    try (apply X; apply spfta_TU0; assumption);
    (split; [reflexivity | unfold Lemmas_C15ba.mU; cbn [lexlt]; left; exact Hc2]).
Qed.

Lemma wait_PU0 : forall s, u_state (u s) = US_FLUSH_WAIT -> k_state (k s) <> CS_FLUSH ->
  PU0 s (unsolicited_process_io_write_wait s).
Proof.
  intros s Hst Hk. unfold unsolicited_process_io_write_wait. rewrite ncflush_true by exact Hk.
  unfold PU0. split; [reflexivity|].
  unfold Lemmas_C15ba.mU, Lemmas_C15ba.cU, ufl. ev. rewrite Hst. cbn [lexlt]. right. split; [reflexivity|]. apply lexlt_app_eq. lex_solve.
Qed.

Lemma flush_adv_PU0 : forall s ch, u_state (u s) = US_FLUSH -> length (ubuf s) = usz_of D ->
  wbuf_char (u_wbuf (u s)) (ubuf s) (u_position (u s)) = Some ch ->
  PU0 s (setu_position (S (u_position (u s))) s).
Proof.
  intros s ch Hst Hub E. unfold PU0. split; [reflexivity|].
  unfold Lemmas_C15ba.mU, Lemmas_C15ba.cU, ufl. ev. rewrite Hst. cbn [lexlt]. right. split; [reflexivity|]. apply lexlt_app_eq.
  pose proof (wbl_adv _ _ _ _ _ E Hub). unfold frank. cbn [lexlt]. left. lia.
Qed.

Lemma flush_done_PU0 : forall s, Safe s -> u_state (u s) = US_FLUSH ->
  PU0 s (match u_wstate (u s) with
        | WS_BEFORE => s |> setu_position 0 |> setu_wbuf WB_MAIN |> setu_wstate WS_MAIN
        | WS_MAIN => s |> setu_position 0 |> setu_wbuf (WB_NL (k_cr (k s))) |> setu_wstate WS_AFTER
        | WS_AFTER => setu_state (u_wafter (u s)) s
        end).
Proof.
  intros s HS Hst. safe_open HS. unfold Lemmas_C03b.US in HU. rewrite Hst in HU. destruct HU as [_ HA].
  pose proof (wbl_le (usz_of D) (u_wbuf (u s)) (u_position (u s))) as Hw.
  destruct (u_wstate (u s)) eqn:Ew.
  - unfold PU0. split; [reflexivity|].
    unfold Lemmas_C15ba.mU, Lemmas_C15ba.cU, ufl. ev. rewrite Hst, Ew. cbn [lexlt]. right. split; [reflexivity|].
    apply lexlt_app_eq. unfold frank. cbn [wsw wbl lexlt]. left. lia.
  - unfold PU0. split; [reflexivity|].
    unfold Lemmas_C15ba.mU, Lemmas_C15ba.cU, ufl. ev. rewrite Hst, Ew. cbn [lexlt]. right. split; [reflexivity|].
    apply lexlt_app_eq. unfold frank. cbn [wsw wbl lexlt]. left. lia.
  - unfold Uafter in HA.
    destruct (u_wafter (u s)) eqn:Ea; try contradiction;
      (unfold PU0; split; [reflexivity|]);
      unfold Lemmas_C15ba.mU, Lemmas_C15ba.cU, ufl, upre; ev; rewrite Hst, Ea; cbn [app]; lex_solve.
Qed.

Lemma ureset_PU0 : forall s, hd 0 (cU s) > 0 -> PU0 s (unsolicited_reset_state s).
Proof.
  intros s Hc. unfold unsolicited_reset_state. unfold PU0. split; [reflexivity|].
  unfold Lemmas_C15ba.mU. cbn [lexlt]. right. split; [reflexivity|].
  unfold Lemmas_C15ba.cU at 1. ev. destruct (cU s) as [|x r]; cbn [hd] in Hc; [lia|]. cbn [lexlt]. left. lia.
Qed.

Lemma rt_tail_default_PU0 : forall rd s, loop_state UNSOL s ->
  PU0 s (rt_tail D rd UNSOL (mkHres RC_OK None [] []) s).
Proof.
  intros rd s Hst. unfold rt_tail. cbn. cbn [loop_state] in Hst.
  apply ureset_PU0. unfold Lemmas_C15ba.cU. destruct Hst as [E|E]; rewrite E; cbn; lia.
Qed.

Lemma PU0_cap : forall s s', PU0 s s' -> u_count (u s') <= u_count (u s).
Proof. intros s s' (_ & C). unfold Lemmas_C15ba.mU in C. cbn [lexlt] in C. lia. Qed.

(* ---- the continuation of an event-side read / test handler that does not answer HOLD:
        the hold flag and the state of the command machine are kept (a hold-exit code only
        records the release request), the number of queued events is kept ---- *)
Definition KU (s s' : state) : Prop :=
  k_state (k s') = k_state (k s) /\ k_hold (k s') = k_hold (k s) /\ u_count (u s') = u_count (u s).

Lemma KU_refl : forall s, KU s s.
Proof. intros s. repeat split. Qed.
Lemma KU_trans : forall a b c, KU a b -> KU b c -> KU a c.
Proof. intros a b c (A1 & A2 & A3) (B1 & B2 & B3). repeat split; congruence. Qed.
Lemma TU0_KU : forall n s s', TU0 n s s' -> KU s s'.
Proof. intros n s s' (K & A & _). repeat split; [rewrite K | rewrite K | exact A]; reflexivity. Qed.

Lemma KU_apply_edit_U : forall e s, KU s (apply_edit UNSOL e s).
Proof.
  intros e s. destruct (apply_edit_eff UNSOL e s) as [E | (b & p & E & _)]; rewrite E; repeat split.
Qed.

Lemma KU_hold_exit : forall s z, KU s (fst (hold_exit s z)).
Proof. intros s z. unfold hold_exit. destruct (negb _); cbn [fst]; repeat split. Qed.

Lemma rt_tail_U_KU : forall rd r s, (r_code r =? RC_HOLD)%Z = false ->
  cmd_ok D (g_cmd UNSOL (apply_edit UNSOL (r_edit r) s)) -> KU s (rt_tail D rd UNSOL r s).
Proof.
  intros rd r s Hc Hk. unfold rt_tail. cbv zeta. rewrite Hc. clear Hc.
  pose proof (KU_apply_edit_U (r_edit r) s) as H1.
  set (s1 := apply_edit UNSOL (r_edit r) s) in *. clearbody s1.
  assert (T : forall s', KU s1 s' -> KU s s') by (intros s'; apply KU_trans; exact H1).
  assert (X1 : forall s2, KU s1 s2 -> KU s (end_with_ok UNSOL s2))
    by (intros s2 H2; apply T; eapply KU_trans; [exact H2 | repeat split]).
  assert (X2 : forall s2, KU s1 s2 -> KU s (end_with_error UNSOL s2))
    by (intros s2 H2; apply T; eapply KU_trans; [exact H2 | repeat split]).
  assert (X3 : forall a b, KU s (start_flush_after UNSOL a b s1)) by (intros; apply T; repeat split).
  destruct (r_code r =? RC_OK)%Z; [apply X1, KU_refl|]. destruct (r_code r =? RC_DATA_OK)%Z; [apply X3|].
  destruct (r_code r =? RC_DATA_NEXT)%Z; [destruct rd; apply X3|].
  destruct (r_code r =? RC_NEXT)%Z.
  { apply T. destruct rd; [eapply TU0_KU, spfra_TU0 | eapply TU0_KU, spfta_TU0]; assumption. }
  destruct (r_code r =? RC_HOLD_EXIT_OK)%Z; [apply X1, KU_hold_exit|].
  destruct (r_code r =? RC_HOLD_EXIT_ERROR)%Z; [apply X2, KU_hold_exit|].
  destruct (_ && _); [apply X1 | apply X2]; apply KU_refl.
Qed.

(* a HOLD answer of a read / test handler, to either machine: the command machine is put on hold *)
Lemma rt_tail_hold : forall rd f r s, (r_code r =? RC_HOLD)%Z = true ->
  rt_tail D rd f r s = enable_hold_state (apply_edit f (r_edit r) s).
Proof.
  intros rd f r s H. apply Z.eqb_eq in H. unfold rt_tail. cbv zeta. rewrite H. reflexivity.
Qed.

End PureU.

(* ================================================================== *)
(* 2. the scripted world: invariant, potential, step outcomes           *)
(* ================================================================== *)

Section Held.
Variable D : desc.
Variable m : list (list N).
Hypothesis WF : wf_desc D m.

Local Notation st := (Fsm.st sio smu shs).
Local Notation io := (Fsm.io sio smu shs).
Local Notation mu := (Fsm.mu sio smu shs).
Local Notation hs := (Fsm.hs sio smu shs).
Local Notation tr := (Fsm.tr sio smu shs).
Local Notation set_st := (Fsm.set_st sio smu shs).
Local Notation set_io := (Fsm.set_io sio smu shs).
Local Notation set_hs := (Fsm.set_hs sio smu shs).
Local Notation logw := (Fsm.logw sio smu shs).
Local Notation upd_st := (Fsm.upd_st sio smu shs).
Local Notation busy := (Fsm.busy sio smu shs).
Local Notation Safe := (Safe D m).
Local Notation NH := Lemmas_C15ba.NH.
Local Notation PC := (PC D).
Local Notation PU0 := (PU0 D).
Local Notation cC := (cC D).
Local Notation cU := (cU D).
Local Notation mU := (mU D).
Local Notation capok := (Lemmas_C15b.capok D).
Local Notation Prog := (Lemmas_C15b.Prog D).
Local Notation Same := Lemmas_C15b.Same.
Local Notation Phi := (Lemmas_C15b.Phi D).
Local Notation h_san := (Lemmas_C15b.h_san D).
Local Notation sl := sched_left.

Local Notation call_h := (Fsm.call_h D sio smu shs s_lock s_unlock s_call).
Local Notation call_h' := (Fsm.call_h D sio smu shs s_lock s_unlock h_san).
Local Notation s_cmd := (Fsm.cmd_service D sio smu shs s_read s_write s_lock s_unlock s_call).
Local Notation s_uns := (Fsm.unsolicited_events_service D sio smu shs s_write s_lock s_unlock s_call).
Local Notation s_cmd' := (Fsm.cmd_service D sio smu shs s_read s_write s_lock s_unlock h_san).
Local Notation s_uns' := (Fsm.unsolicited_events_service D sio smu shs s_write s_lock s_unlock h_san).
Local Notation s_body := (Fsm.service_body D sio smu shs s_read s_write s_lock s_unlock s_call).
Local Notation apply_icall := (Fsm.apply_icall D sio smu shs s_lock s_unlock).

(* ---- the hold flag is the state CS_HOLD (part of J) ---- *)
Definition HH (s : state) : Prop := k_hold (k s) = true <-> k_state (k s) = CS_HOLD.

Lemma NH_HH : forall s, NH s -> HH s.
Proof. intros s [A B]. unfold HH. rewrite A. split; [discriminate | intros E; destruct (B E)]. Qed.

Lemma HH_NH : forall s, HH s -> k_state (k s) <> CS_HOLD -> NH s.
Proof.
  intros s [A _] B. split; [|exact B].
  destruct (k_hold (k s)); [exfalso; apply B, A; reflexivity | reflexivity].
Qed.

Lemma HH_keep : forall s s', HH s -> k_state (k s') = k_state (k s) -> k_hold (k s') = k_hold (k s) -> HH s'.
Proof. intros s s' H E1 E2. unfold HH in *. rewrite E1, E2. exact H. Qed.

Lemma HH_k : forall s s', HH s -> k s' = k s -> HH s'.
Proof. intros s s' H E. unfold HH in *. rewrite E. exact H. Qed.

Lemma hrel_HH : forall s s', hrel D m s s' -> HH s -> HH s'.
Proof.
  intros s s' (_ & _ & K & _) H. assert (E := f_equal fst K). unfold kv in E. cbn [fst] in E.
  apply (HH_keep s s' H); [exact (f_equal k_state E) | exact (f_equal k_hold E)].
Qed.

Lemma KU_HH : forall s s', KU s s' -> HH s -> HH s'.
Proof. intros s s' (A & B & _) H. apply (HH_keep s s' H); assumption. Qed.

Lemma enable_hold_HH : forall s, HH (enable_hold_state s).
Proof. intros s. unfold HH, enable_hold_state. sproj. split; reflexivity. Qed.

(* ---- scripts: inner triggers name pool commands; NO condition on HOLD answers ---- *)
Definition SOKd (h : shs) : Prop := script_ok (res_calls_ok D) h = true.

Lemma SOKd_call : forall h q, SOKd h ->
  SOKd (fst (s_call h q)) /\ res_calls_ok D (snd (s_call h q)) = true.
Proof.
  intros h q B.
  destruct (s_call_ok (res_calls_ok D)) with (h := h) (q := q) as [B1 B2]; [destruct q0; reflexivity | exact B |].
  split; assumption.
Qed.

Lemma h_san_eqd : forall h q, SOKd h -> h_san h q = s_call h q.
Proof.
  intros h q H. destruct (SOKd_call h q H) as (_ & C). unfold Lemmas_C15b.h_san.
  destruct (s_call h q) as [h' r]. cbn [snd] in C. rewrite C. reflexivity.
Qed.

Lemma call_h_eqd : forall w q, SOKd (hs w) -> call_h w q = call_h' w q.
Proof. intros w q H. unfold Fsm.call_h. rewrite h_san_eqd by exact H. reflexivity. Qed.

Ltac eq_go H :=
  repeat first [ reflexivity
               | rewrite call_h_eqd by (cbn [Fsm.hs Fsm.set_st]; exact H)
               | dm ].

Lemma s_cmd_eqd : forall w, SOKd (hs w) -> s_cmd w = s_cmd' w.
Proof.
  intros w H. unfold Fsm.cmd_service.
  destruct (k_state (k (st w))); try reflexivity;
    unfold Fsm.parse_write_args, Fsm.format_read_args, Fsm.process_write_loop, Fsm.process_run_loop,
           Fsm.process_rt_loop; cbv zeta; eq_go H.
Qed.

Lemma s_uns_eqd : forall w, SOKd (hs w) -> s_uns w = s_uns' w.
Proof.
  intros w H. unfold Fsm.unsolicited_events_service.
  destruct (u_state (u (st w))); try reflexivity;
    unfold Fsm.format_read_args, Fsm.process_rt_loop; cbv zeta; eq_go H.
Qed.

Lemma s_cmd_safed : forall w, SOKd (hs w) -> Safe (st w) -> Safe (st (fst (s_cmd w))).
Proof.
  intros w H HS. rewrite s_cmd_eqd by exact H.
  apply (cmd_service_safe D m WF sio smu shs s_read s_write s_lock s_unlock h_san (h_san_ok D)). exact HS.
Qed.

Lemma s_uns_safed : forall w, SOKd (hs w) -> Safe (st w) -> Safe (st (fst (s_uns w))).
Proof.
  intros w H HS. rewrite s_uns_eqd by exact H.
  apply (unsolicited_events_service_safe D m WF sio smu shs s_write s_lock s_unlock h_san (h_san_ok D)). exact HS.
Qed.

(* one callback: the script is exhausted (terminal default, nothing changes) or an entry is consumed *)
Lemma call_h_casesd : forall w q, SOKd (hs w) ->
  let w1 := fst (call_h w q) in let r := snd (call_h w q) in
  SOKd (hs w1) /\ io w1 = io w /\ hrel D m (st w) (st w1) /\
  (capok (st w) -> capok (st w1)) /\
  ((st w1 = st w /\ hs w1 = hs w /\ r = default_res q) \/ script_left (hs w1) < script_left (hs w)).
Proof.
  intros w q H. cbv zeta. unfold Fsm.call_h.
  destruct (SOKd_call _ q H) as (A & C). pose proof (s_call_cases (hs w) q) as Cs.
  destruct (s_call (hs w) q) as [h' r]. cbn [fst snd] in *.
  match goal with |- context [fold_left _ _ ?x] => set (w2 := x) end.
  destruct (fold_icall_frame D (r_calls r) w2) as [F1 F2].
  split; [rewrite F2; exact A|]. split; [rewrite F1; reflexivity|].
  split.
  { apply (fold_icall_hrel D m WF); [apply res_calls_ok_Forall; exact C|].
    subst w2. wcbn. apply (fold_poke_hrel D m). apply hrel_refl. }
  split.
  { intros Hcap. apply fold_icall_cap. subst w2. wcbn. unfold Lemmas_C15b.capok. rewrite u_fold_poke. exact Hcap. }
  destruct Cs as [[E1 E2] | E].
  - left. subst h' r. destruct q; cbn [default_res r_calls r_pokes fold_left] in *; subst w2; wcbn; auto.
  - right. rewrite F2. subst w2. wcbn. lia.
Qed.

Lemma call_splitd : forall w q (P : sworld * hres -> Prop), SOKd (hs w) ->
  (forall w1, st w1 = st w -> hs w1 = hs w -> io w1 = io w -> P (w1, default_res q)) ->
  (forall w1 r, SOKd (hs w1) -> io w1 = io w -> hrel D m (st w) (st w1) ->
     (capok (st w) -> capok (st w1)) ->
     script_left (hs w1) < script_left (hs w) -> P (w1, r)) ->
  P (call_h w q).
Proof.
  intros w q P H Hd Hc. pose proof (call_h_casesd w q H) as X. cbv zeta in X.
  destruct (call_h w q) as [w1 r]. cbn [fst snd] in X.
  destruct X as (A & B & C & Cp & [(E1 & E2 & E3) | L]).
  - subst r. apply Hd; assumption.
  - apply Hc; assumption.
Qed.

(* ---- invariant ---- *)
Definition GInv' (w : sworld) : Prop := HH (st w) /\ SOKd (hs w).
Definition GInv (w : sworld) : Prop := Safe (st w) /\ GInv' w.

(* ---- potential: while the command is held, one complete run of the command machine is still
        to come (the release restarts it with the flush of the result code) ---- *)
Definition hb (s : state) : nat := match k_state (k s) with CS_HOLD => RC D | _ => 0 end.
Definition Phi' (w : sworld) : nat := Phi w + hb (st w).

Lemma hb_NH : forall s, NH s -> hb s = 0.
Proof. intros s [_ B]. unfold hb. destruct (k_state (k s)); try reflexivity. destruct (B eq_refl). Qed.

Lemma hb_k : forall s s', k s' = k s -> hb s' = hb s.
Proof. intros s s' E. unfold hb. rewrite E. reflexivity. Qed.

Lemma rC_held : forall s, k_state (k s) = CS_HOLD -> rC D s = 0.
Proof. intros s H. unfold rC, Lemmas_C15ba.cC. rewrite H. unfold bsC. cbn [enc]. lia. Qed.

Lemma rC_hb : forall s, rC D s + hb s <= RC D.
Proof.
  intros s. pose proof (rC_lt D s) as L. unfold hb.
  destruct (k_state (k s)) eqn:E; try lia. rewrite (rC_held s E). lia.
Qed.

Definition Dec (w w2 : sworld) : Prop := capok (st w2) -> Phi' w2 < Phi' w.

Lemma consumed_dec : forall w w2, script_left (hs w2) < script_left (hs w) ->
  inq (io w2) = inq (io w) -> Dec w w2.
Proof.
  intros w w2 A B Hc. unfold Phi', Lemmas_C15b.Phi, Lemmas_C15b.capok in *. rewrite B.
  pose proof (rU_lt D (st w2)) as HU2. pose proof (rC_hb (st w2)) as HC2.
  assert (X1 : S (script_left (hs w2)) * wS D <= script_left (hs w) * wS D) by (apply Nat.mul_le_mono_r; lia).
  assert (X2 : u_count (u (st w2)) * RU D <= d_cap D * RU D) by (apply Nat.mul_le_mono_r; lia).
  rewrite Nat.mul_succ_l in X1. unfold wS in X1 at 2. lia.
Qed.

Lemma Prog_dec : forall w w2, Prog w w2 -> hb (st w2) <= hb (st w) -> Dec w w2.
Proof. intros w w2 P L Hc. pose proof (Prog_phi D _ _ P Hc). unfold Phi'. lia. Qed.

Lemma Same_phi' : forall w w2, Same w w2 -> Phi' w2 = Phi' w.
Proof. intros w w2 S. unfold Phi'. rewrite (Same_phi D _ _ S). destruct S as (A & _). rewrite A. reflexivity. Qed.

(* ---- outcome of one step of the command machine / of the event machine ---- *)
Definition GStepC (w w2 : sworld) (rc : Z) : Prop :=
  GInv' w2 /\ (capok (st w) -> capok (st w2)) /\ sl w2 <= sl w /\
  (Dec w w2 \/
   (Same w w2 /\ sl w2 < sl w) \/
   (Same w w2 /\ k_state (k (st w)) <> CS_FLUSH /\
    ((rc = ST_OK /\ inq (io w) = []) \/
     (k_state (k (st w)) = CS_FLUSH_WAIT /\ u_state (u (st w)) = US_FLUSH) \/
     (k_state (k (st w)) = CS_HOLD /\ Defs.k_hold_exit (k (st w)) = 0%Z)))).

Definition GStepU (w w1 : sworld) (us : Z) : Prop :=
  GInv' w1 /\ (capok (st w) -> capok (st w1)) /\ sl w1 <= sl w /\
  (Dec w w1 \/
   (Same w w1 /\ sl w1 < sl w) \/
   (Same w w1 /\
    ((us = ST_OK /\ u_state (u (st w)) = US_IDLE /\ u_count (u (st w)) = 0) \/
     k_state (k (st w)) = CS_FLUSH))).

Definition GStepG (f : fsm) (w w2 : sworld) (rc : Z) : Prop :=
  match f with ATCMD => GStepC w w2 rc | UNSOL => GStepU w w2 rc end.

Definition io_le (w w1 : sworld) : Prop := inq (io w1) = inq (io w) /\ sl w1 <= sl w.

Lemma io_le_refl : forall w, io_le w w.
Proof. intros w. split; [reflexivity | lia]. Qed.
Lemma io_le_eq : forall w w1, io w1 = io w -> io_le w w1.
Proof. intros w w1 E. unfold io_le, sched_left. rewrite E. split; [reflexivity | lia]. Qed.

Lemma stepC_pure : forall w w1 s' rc, GInv w -> hs w1 = hs w -> io_le w w1 ->
  PC (st w) s' -> GStepC w (set_st s' w1) rc.
Proof.
  intros w w1 s' rc (HS & Hh & HK) E2 (I1 & I2) (A & B & C). split; [|split; [|split]].
  - unfold GInv'. wcbn. rewrite E2. split; [apply NH_HH; exact B | exact HK].
  - unfold Lemmas_C15b.capok. wcbn. rewrite A. auto.
  - unfold sched_left in *. wcbn. exact I2.
  - left. apply Prog_dec.
    + right. right. left. wcbn. rewrite E2. auto.
    + wcbn. rewrite (hb_NH s' B). lia.
Qed.

Lemma stepU_pure : forall w w1 s' us, GInv w -> hs w1 = hs w -> io_le w w1 ->
  PU0 (st w) s' -> GStepU w (set_st s' w1) us.
Proof.
  intros w w1 s' us (HS & Hh & HK) E2 (I1 & I2) (K & C). split; [|split; [|split]].
  - unfold GInv'. wcbn. rewrite E2. split; [apply (HH_k (st w)); assumption | exact HK].
  - unfold Lemmas_C15b.capok. wcbn. unfold Lemmas_C15ba.mU in C. cbn [lexlt] in C. lia.
  - unfold sched_left in *. wcbn. exact I2.
  - left. apply Prog_dec.
    + right. right. right. wcbn. rewrite E2. auto.
    + wcbn. rewrite (hb_k _ _ K). lia.
Qed.

(* a productive pure step of machine f *)
Definition PG0 (f : fsm) (s s' : state) : Prop :=
  match f with ATCMD => PC s s' | UNSOL => PU0 s s' end.

Lemma stepG_pure : forall f w w1 s' rc, GInv w -> hs w1 = hs w -> io_le w w1 ->
  PG0 f (st w) s' -> GStepG f w (set_st s' w1) rc.
Proof. intros [|] w w1 s' rc; [apply stepC_pure | apply stepU_pure]. Qed.

Lemma PG0_HH : forall f s s', HH s -> PG0 f s s' -> HH s'.
Proof. intros [|] s s' H P; cbn in P; [apply NH_HH, P | apply (HH_k s); [exact H | apply P]]. Qed.

Lemma PG0_cap : forall f s s', PG0 f s s' -> u_count (u s') <= u_count (u s).
Proof.
  intros [|] s s' P; cbn in P.
  - destruct P as (A & _). rewrite A. lia.
  - exact (PU0_cap D s s' P).
Qed.

Lemma stepG_consumed : forall f w w2 rc, GInv' w2 -> (capok (st w) -> capok (st w2)) ->
  sl w2 <= sl w ->
  script_left (hs w2) < script_left (hs w) -> inq (io w2) = inq (io w) ->
  GStepG f w w2 rc.
Proof.
  intros f w w2 rc HI Hc Hl H E.
  destruct f; (split; [exact HI | split; [exact Hc | split; [exact Hl | left; apply consumed_dec; assumption]]]).
Qed.

Lemma consumed_after : forall f w w1 s' rc, SOKd (hs w1) -> io w1 = io w ->
  script_left (hs w1) < script_left (hs w) -> (capok (st w) -> capok (st w1)) ->
  HH s' -> u_count (u s') <= u_count (u (st w1)) -> GStepG f w (set_st s' w1) rc.
Proof.
  intros f w w1 s' rc H1 E3 L Hcap Hn Hu. apply stepG_consumed.
  - unfold GInv'. wcbn. auto.
  - intros Hc0. specialize (Hcap Hc0). unfold Lemmas_C15b.capok in *. wcbn. lia.
  - unfold sched_left. wcbn. rewrite E3. lia.
  - wcbn. exact L.
  - wcbn. rewrite E3. reflexivity.
Qed.

(* ------------------------------------------------------------------ *)
(* the states that call a handler                                       *)
(* ------------------------------------------------------------------ *)

Local Notation process_rt_loop := (Fsm.process_rt_loop D sio smu shs s_lock s_unlock s_call).
Local Notation format_read_args := (Fsm.format_read_args D sio smu shs s_lock s_unlock s_call).
Local Notation process_write_loop := (Fsm.process_write_loop D sio smu shs s_lock s_unlock s_call).
Local Notation process_run_loop := (Fsm.process_run_loop D sio smu shs s_lock s_unlock s_call).
Local Notation parse_write_args := (Fsm.parse_write_args D sio smu shs s_lock s_unlock s_call).

Ltac wred := unfold Fsm.busy, Fsm.upd_st; cbn [fst snd].

Ltac split_call :=
  match goal with |- context [call_h ?w ?q] => pattern (call_h w q); apply call_splitd end.

Lemma loop_NH : forall s, HH s -> loop_state ATCMD s -> NH s.
Proof. intros s H [E|E]; apply HH_NH; try exact H; rewrite E; discriminate. Qed.

(* cat.c:2220, 2295 *)
Lemma rt_loop_step : forall rd f w, GInv w -> loop_state f (st w) ->
  GStepG f w (fst (process_rt_loop rd f w)) (snd (process_rt_loop rd f w)).
Proof.
  intros rd f w HI Hst. pose proof HI as (HS & Hh & HK).
  unfold Fsm.process_rt_loop. destruct (loop_state_inv D m f _ HS Hst) as [Hc _].
  destruct (g_cmd f (st w)) as [ci|] eqn:Ec; [|destruct Hc]. cbv zeta.
  split_call; [exact HK | |].
  - intros w1 E1 E2 E3. wred. rewrite E1.
    assert (X : PG0 f (st w) (rt_tail D rd f (mkHres RC_OK None [] []) (st w))).
    { destruct f; cbn [PG0].
      - apply (rt_tail_default_PG D rd ATCMD); [apply loop_NH; assumption | exact Hst].
      - apply rt_tail_default_PU0; exact Hst. }
    destruct rd; (apply stepG_pure; [exact HI | exact E2 | apply io_le_eq; assumption | exact X]).
  - intros w1 r H1 E3 R Hcap L. wred.
    pose proof (hrel_HH _ _ R Hh) as Hh1. pose proof (hrel_loop D m f _ _ R Hst) as Hst1.
    destruct R as (R1' & _). specialize (R1' HS).
    destruct (apply_edit_loop D m f (r_edit r) (st w1) R1' Hst1) as (_ & C2 & _).
    apply (consumed_after f w w1); try assumption.
    + match goal with |- HH ?x => change x with (rt_tail D rd f r (st w1)) end.
      destruct (r_code r =? RC_HOLD)%Z eqn:Hc1'.
      * rewrite (rt_tail_hold D rd f r (st w1) Hc1'). apply enable_hold_HH.
      * destruct f.
        -- apply NH_HH. exact (rt_tail_NH D rd ATCMD r (st w1) (loop_NH _ Hh1 Hst1) Hc1' C2).
        -- exact (KU_HH _ _ (rt_tail_U_KU D rd r (st w1) Hc1' C2) Hh1).
    + destruct f.
      * apply (FR_le ATCMD). exact (rt_tail_FR D rd ATCMD r (st w1) (loop_NH _ Hh1 Hst1) C2).
      * match goal with |- u_count (u ?x) <= _ => change x with (rt_tail D rd UNSOL r (st w1)) end.
        destruct (r_code r =? RC_HOLD)%Z eqn:Hc1'.
        -- rewrite (rt_tail_hold D rd UNSOL r (st w1) Hc1').
           destruct (KU_apply_edit_U (r_edit r) (st w1)) as (_ & _ & Q).
           change (u_count (u (enable_hold_state (apply_edit UNSOL (r_edit r) (st w1)))))
             with (u_count (u (apply_edit UNSOL (r_edit r) (st w1)))). rewrite Q. lia.
        -- destruct (rt_tail_U_KU D rd r (st w1) Hc1' C2) as (_ & _ & Q). rewrite Q. lia.
Qed.

Lemma fmt_NH : forall s rd, HH s -> fmt_state ATCMD s rd -> NH s.
Proof. intros s rd H E. apply HH_NH; [exact H|]. cbn [fmt_state] in E. rewrite E. destruct rd; discriminate. Qed.

Lemma fra_body_PG0 : forall f s ci c v, Safe s -> HH s -> fmt_state f s true ->
  g_cmd f s = Some ci -> nth_error (pool D) ci = Some c ->
  nth_error (c_vars c) (g_var f s) = Some v ->
  PG0 f s (fra_body D f c v s).
Proof.
  intros f s ci c v HS Hh Hst E1 E2 E3. destruct f; cbn [PG0].
  - apply (fra_body_PG D m WF ATCMD s ci c v); try assumption. apply (fmt_NH s true); assumption.
  - apply (fra_body_PU0 D m WF s ci c v); assumption.
Qed.

Lemma HH_end_with_error : forall f s, HH s -> (f = ATCMD -> NH s) -> HH (end_with_error f s).
Proof.
  intros f s H Hn. destruct f.
  - apply NH_HH. apply (NH_end_with_error ATCMD). apply Hn. reflexivity.
  - apply (HH_k s); [exact H | reflexivity].
Qed.

(* cat.c:1783 *)
Lemma format_read_args_step : forall f w, GInv w -> fmt_state f (st w) true ->
  GStepG f w (fst (format_read_args f w)) (snd (format_read_args f w)).
Proof.
  intros f w HI Hst. pose proof HI as (HS & Hh & HK).
  unfold Fsm.format_read_args.
  destruct (fmt_state_inv D m f _ true HS Hst) as (Hv & _).
  destruct (var_ok_at D _ _ Hv) as (ci & c & v & E1 & E2 & E3).
  unfold cmd_of, cmd_at. rewrite E1, E2, E3.
  assert (Body : forall s1, Safe s1 -> HH s1 -> fmt_state f s1 true -> g_cmd f s1 = g_cmd f (st w) ->
            g_var f s1 = g_var f (st w) -> PG0 f s1 (fra_body D f c v s1)).
  { intros s1 S1 N1 F1 G1 G2. apply (fra_body_PG0 f s1 ci c v); try assumption; congruence. }
  destruct (v_hread v).
  - split_call; [exact HK | |].
    + intros w1 E1' E2' E3'. cbn [default_res r_code Z.eqb negb]. wred. rewrite E1'.
      apply stepG_pure; [exact HI | exact E2' | apply io_le_eq; assumption |].
      apply Body; auto.
    + intros w1 r H1 E3' R Hcap L.
      destruct (hrel_fmt D m f _ _ true R Hst) as (Hst1 & Ec1 & Ev1).
      pose proof (hrel_HH _ _ R Hh) as Hh1. destruct R as (R1' & _). specialize (R1' HS).
      destruct (negb (r_code r =? 0)%Z); wred; apply (consumed_after f w w1); try assumption.
      * apply HH_end_with_error; [exact Hh1|]. intros ->. apply (fmt_NH _ true); assumption.
      * destruct f; cbn; lia.
      * eapply PG0_HH; [exact Hh1|]. apply Body; assumption.
      * eapply PG0_cap. apply Body; assumption.
  - wred. apply stepG_pure; [exact HI | reflexivity | apply io_le_refl |]. apply Body; auto.
Qed.

Lemma ack_ok_NH : forall s, NH s -> NH (ack_ok s).
Proof. intros s [A B]. unfold ack_ok, start_flush_c, Lemmas_C15ba.NH. sproj. split; [exact A | discriminate]. Qed.

Lemma write_tail_HH : forall code s, NH s -> HH (write_tail code s).
Proof.
  intros code s Hnh. unfold write_tail.
  destruct (_ || _); [apply NH_HH, ack_ok_NH, Hnh|]. destruct (_ || _); [apply NH_HH, Hnh|].
  destruct (code =? RC_HOLD)%Z; [apply enable_hold_HH|]. apply NH_HH. apply (NH_end_with_error ATCMD). exact Hnh.
Qed.

Lemma run_tail_HH : forall code s, NH s -> HH (run_tail D code s).
Proof.
  intros code s Hnh. unfold run_tail.
  destruct (_ || _); [apply NH_HH, ack_ok_NH, Hnh|]. destruct (_ || _); [apply NH_HH, Hnh|].
  destruct (code =? RC_HOLD)%Z; [apply enable_hold_HH|].
  destruct (code =? RC_PRINT_CMD_LIST_OK)%Z; [apply NH_HH, start_print_cmd_list_NH, Hnh|].
  apply NH_HH. apply (NH_end_with_error ATCMD). exact Hnh.
Qed.

(* cat.c:2146 *)
Lemma write_loop_step : forall w, GInv w -> k_state (k (st w)) = CS_WRITE_LOOP ->
  GStepC w (fst (process_write_loop w)) (snd (process_write_loop w)).
Proof.
  intros w HI Hst. pose proof HI as (HS & Hh & HK).
  assert (Hnh : NH (st w)) by (apply HH_NH; [exact Hh | rewrite Hst; discriminate]).
  unfold Fsm.process_write_loop.
  assert (Hc : cmd_ok D (k_cmd (k (st w)))).
  { destruct HS as (_ & HKS & _). unfold KS in HKS. rewrite Hst in HKS. exact HKS. }
  sproj. destruct (k_cmd (k (st w))) as [ci|] eqn:Ec; [|destruct Hc]. cbv zeta.
  split_call; [exact HK | |].
  - intros w1 E1 E2 E3. wred. rewrite E1.
    apply stepC_pure; [exact HI | exact E2 | apply io_le_eq; assumption |].
    exact (write_tail_default_PC D (st w) Hnh Hst).
  - intros w1 r H1 E3 R Hcap L. wred. apply (consumed_after ATCMD w w1); try assumption.
    + exact (write_tail_HH (r_code r) (st w1) (hrel_NH D m _ _ R Hnh)).
    + match goal with |- u_count (u ?x) <= _ => change x with (write_tail (r_code r) (st w1)) end.
      rewrite write_tail_u. lia.
Qed.

(* cat.c:2173 *)
Lemma run_loop_step : forall w, GInv w -> k_state (k (st w)) = CS_RUN_LOOP ->
  GStepC w (fst (process_run_loop w)) (snd (process_run_loop w)).
Proof.
  intros w HI Hst. pose proof HI as (HS & Hh & HK).
  assert (Hnh : NH (st w)) by (apply HH_NH; [exact Hh | rewrite Hst; discriminate]).
  unfold Fsm.process_run_loop.
  assert (Hc : cmd_ok D (k_cmd (k (st w)))).
  { destruct HS as (_ & HKS & _). unfold KS in HKS. rewrite Hst in HKS. exact HKS. }
  sproj. destruct (k_cmd (k (st w))) as [ci|] eqn:Ec; [|destruct Hc]. cbv zeta.
  split_call; [exact HK | |].
  - intros w1 E1 E2 E3. wred. rewrite E1.
    apply stepC_pure; [exact HI | exact E2 | apply io_le_eq; assumption |].
    exact (run_tail_default_PC D (st w) Hnh Hst).
  - intros w1 r H1 E3 R Hcap L. wred. apply (consumed_after ATCMD w w1); try assumption.
    + exact (run_tail_HH (r_code r) (st w1) (hrel_NH D m _ _ R Hnh)).
    + match goal with |- u_count (u ?x) <= _ => change x with (run_tail D (r_code r) (st w1)) end.
      rewrite run_tail_u. lia.
Qed.

(* cat.c:1365 *)
Lemma parse_write_args_step : forall w, GInv w -> k_state (k (st w)) = CS_PARSE_WRITE_ARGS ->
  GStepC w (fst (parse_write_args w)) (snd (parse_write_args w)).
Proof.
  intros w HI Hst. pose proof HI as (HS & Hh & HK).
  assert (Hnh : NH (st w)) by (apply HH_NH; [exact Hh | rewrite Hst; discriminate]).
  assert (HF : fault (st (fst (parse_write_args w))) = false).
  { pose proof (s_cmd_safed w HK HS) as X. unfold Fsm.cmd_service in X. rewrite Hst in X.
    apply safe_fault in X. exact X. }
  revert HF. unfold Fsm.parse_write_args.
  assert (HKS : var_ok D (k_cmd (k (st w))) (k_var (k (st w)))).
  { destruct HS as (_ & HKS & _). unfold KS in HKS. rewrite Hst in HKS. apply HKS. }
  destruct (var_ok_at D _ _ HKS) as (ci & c & v & E1 & E2 & E3).
  unfold cmd_of, cmd_at. sproj. rewrite E1, E2, E3.
  destruct (nth_error (mem (st w)) (v_slot v)) as [data|]; [|intros HF; discriminate HF].
  destruct (decode_var v _ data) as [[[pst data'] wsz] n].
  set (s1 := set_mem (upd (mem (st w)) (v_slot v) data')
                     (setk_position (k_position (k (st w)) + n) (st w))).
  assert (Hn1 : NH s1) by (destruct Hnh as [A B]; split; assumption).
  assert (Hc1 : cC s1 = cC (st w)) by (unfold Lemmas_C15ba.cC; subst s1; sproj; rewrite Hst; reflexivity).
  destruct pst as [| |comma]; [intros HF; discriminate HF | |]; intros _.
  - wred. apply stepC_pure; [exact HI | reflexivity | apply io_le_refl |].
    apply (PC_base D (st w) s1); [|reflexivity | exact Hc1].
    apply ack_error_PC; [exact Hn1|]. unfold Lemmas_C15ba.cC. subst s1. sproj. rewrite Hst. cbn. lia.
  - set (s2 := setk_write_size wsz s1).
    assert (Hn2 : NH s2) by (destruct Hnh as [A B]; split; assumption).
    assert (Hc2 : cC s2 = cC (st w)) by (unfold Lemmas_C15ba.cC; subst s2 s1; sproj; rewrite Hst; reflexivity).
    assert (Tail : forall s3, NH s3 -> k_state (k s3) = CS_PARSE_WRITE_ARGS -> k_cmd (k s3) = Some ci ->
              PC s3 (pwa_tail c comma s3)).
    { intros s3 N3 K3 C3. apply (pwa_tail_PC D s3 ci c comma); assumption. }
    assert (T2 : PC (st w) (pwa_tail c comma s2)).
    { apply (PC_base D (st w) s2); [|reflexivity | exact Hc2]. apply Tail; [exact Hn2 | exact Hst | exact E1]. }
    destruct (v_hwrite v).
    + split_call; [exact HK | |].
      * intros w1 E1' E2' E3'. cbn [default_res r_code Z.eqb negb]. wred. rewrite E1'. cbn [Fsm.st Fsm.set_st].
        apply stepC_pure; [exact HI | exact E2' | apply io_le_eq; exact E3' | exact T2].
      * intros w1 r H1 E3' R Hcap L. cbn [Fsm.st Fsm.set_st Fsm.hs Fsm.io] in *.
        pose proof (hrel_NH D m _ _ R Hn2) as Hn3. destruct R as (_ & _ & K & _).
        destruct (kv_proj _ _ K) as (K1 & K2 & _).
        assert (T3 : PC (st w1) (pwa_tail c comma (st w1)))
          by (apply Tail; [exact Hn3 | rewrite K1; exact Hst | rewrite K2; exact E1]).
        destruct (negb (r_code r =? 0)%Z); wred; apply (consumed_after ATCMD w w1); try assumption.
        -- apply NH_HH. apply (NH_end_with_error ATCMD); exact Hn3.
        -- cbn. lia.
        -- apply NH_HH. exact (PG_NH D ATCMD _ _ T3).
        -- exact (PG_cap D ATCMD _ _ T3).
    + wred. cbn [Fsm.st Fsm.set_st].
      apply stepC_pure; [exact HI | reflexivity | apply io_le_eq; reflexivity | exact T2].
Qed.

(* ------------------------------------------------------------------ *)
(* the io states under an arbitrary schedule                            *)
(* ------------------------------------------------------------------ *)

Local Notation reading := (Fsm.reading sio smu shs s_read).
Local Notation process_io_write := (Fsm.process_io_write sio smu shs s_write).
Local Notation unsolicited_process_io_write := (Fsm.unsolicited_process_io_write sio smu shs s_write).

Lemma reading_step : forall w body, GInv w -> NH (st w) -> k_state (k (st w)) <> CS_FLUSH ->
  (forall ch s, NH s -> k_state (k s) = k_state (k (st w)) -> k_cmd (k s) = k_cmd (k (st w)) ->
     RB s (body ch s)) ->
  GStepC w (fst (reading w body)) (snd (reading w body)).
Proof.
  intros w body HI Hnh Hnf Hb. pose proof HI as (HS & Hh & HK).
  unfold Fsm.reading, Fsm.read_cmd_char.
  destruct (s_read_cases (io w)) as [(A & B & C) | [(A & Ei & B & C) | (c & q & Ei & A & B & C)]];
    destruct (s_read (io w)) as [io' r]; cbn [fst snd] in *; subst r.
  - (* refused by the schedule *)
    cbn [negb fst snd]. split; [|split; [|split]].
    + unfold GInv'. wcbn. auto.
    + auto.
    + unfold sched_left, slio in *. wcbn. lia.
    + right. left. split; [unfold Lemmas_C15b.Same; wcbn; auto|]. unfold sched_left, slio in *. wcbn. exact C.
  - (* ready, no input *)
    cbn [negb fst snd]. split; [|split; [|split]].
    + unfold GInv'. wcbn. auto.
    + auto.
    + unfold sched_left, slio in *. wcbn. lia.
    + right. right. split; [unfold Lemmas_C15b.Same; wcbn; rewrite B, Ei; auto|].
      split; [exact Hnf | left; auto].
  - (* one byte consumed *)
    cbn [negb]. wred. wcbn.
    match goal with |- context [body _ ?s2] => set (s2' := s2) end.
    assert (Hn2 : NH s2') by (subst s2'; destruct Hnh as [A' B']; destruct (_ && _); split; assumption).
    assert (Hk2 : k_state (k s2') = k_state (k (st w))) by (subst s2'; destruct (_ && _); reflexivity).
    assert (Hc2 : k_cmd (k s2') = k_cmd (k (st w))) by (subst s2'; destruct (_ && _); reflexivity).
    assert (Hu2 : u s2' = u (st w)) by (subst s2'; destruct (_ && _); reflexivity).
    destruct (Hb (k_char (k s2')) s2' Hn2 Hk2 Hc2) as [B1 B2]. split; [|split; [|split]].
    + unfold GInv'. wcbn. split; [apply NH_HH; exact B1 | exact HK].
    + unfold Lemmas_C15b.capok. wcbn. rewrite B2, Hu2. auto.
    + unfold sched_left, slio in *. wcbn. lia.
    + left. apply Prog_dec.
      * right. left. wcbn. rewrite Ei, B, B2, Hu2. cbn [length]. auto.
      * wcbn. rewrite (hb_NH _ B1). lia.
Qed.

(* cat.c:2461 *)
Lemma flush_step_C : forall w, GInv w -> k_state (k (st w)) = CS_FLUSH ->
  GStepC w (fst (process_io_write w)) (snd (process_io_write w)).
Proof.
  intros w HI Hst. pose proof HI as (HS & Hh & HK).
  assert (Hnh : NH (st w)) by (apply HH_NH; [exact Hh | rewrite Hst; discriminate]).
  unfold Fsm.process_io_write.
  assert (F : flush_ok (k_wbuf (k (st w))) (k_wstate (k (st w))) (k_position (k (st w))) (cbuf (st w))).
  { destruct HS as (_ & HKS & _). unfold KS in HKS. rewrite Hst in HKS. apply HKS. }
  destruct (wbuf_char_ok _ _ _ _ F) as (ch & Ec & _). rewrite Ec.
  destruct (N.eqb_spec ch 0) as [Z|Z].
  - wred. apply stepC_pure; [exact HI | reflexivity | apply io_le_refl |].
    apply (flush_done_PC D m); assumption.
  - destruct (s_write_cases (io w) ch) as (W1 & W2 & W3).
    destruct (s_write (io w) ch) as [io' ok]. cbn [fst snd] in *. destruct ok.
    + wred. wcbn.
      apply stepC_pure; [exact HI | reflexivity | split; [exact W2 | unfold sched_left, slio in *; wcbn; exact W1] |].
      apply (flush_adv_PC D (st w) ch); try assumption. apply HS.
    + destruct W3 as [W3|W3]; [discriminate W3|]. wred. split; [|split; [|split]].
      * unfold GInv'. wcbn. auto.
      * auto.
      * unfold sched_left, slio in *. wcbn. exact W1.
      * right. left. split; [unfold Lemmas_C15b.Same; wcbn; auto|]. unfold sched_left, slio in *. wcbn. exact W3.
Qed.

(* cat.c:2493 *)
Lemma flush_step_U : forall w, GInv w -> u_state (u (st w)) = US_FLUSH ->
  GStepU w (fst (unsolicited_process_io_write w)) (snd (unsolicited_process_io_write w)).
Proof.
  intros w HI Hst. pose proof HI as (HS & Hh & HK).
  unfold Fsm.unsolicited_process_io_write.
  assert (F : flush_ok (u_wbuf (u (st w))) (u_wstate (u (st w))) (u_position (u (st w))) (ubuf (st w))).
  { destruct HS as (_ & _ & HUS). unfold US in HUS. rewrite Hst in HUS. apply HUS. }
  destruct (wbuf_char_ok _ _ _ _ F) as (ch & Ec & _). rewrite Ec.
  destruct (N.eqb_spec ch 0) as [Z|Z].
  - wred. apply stepU_pure; [exact HI | reflexivity | apply io_le_refl |].
    apply (flush_done_PU0 D m); assumption.
  - destruct (s_write_cases (io w) ch) as (W1 & W2 & W3).
    destruct (s_write (io w) ch) as [io' ok]. cbn [fst snd] in *. destruct ok.
    + wred. wcbn.
      apply stepU_pure; [exact HI | reflexivity | split; [exact W2 | unfold sched_left, slio in *; wcbn; exact W1] |].
      apply (flush_adv_PU0 D (st w) ch); try assumption. apply HS.
    + destruct W3 as [W3|W3]; [discriminate W3|]. wred. split; [|split; [|split]].
      * unfold GInv'. wcbn. auto.
      * auto.
      * unfold sched_left, slio in *. wcbn. exact W1.
      * right. left. split; [unfold Lemmas_C15b.Same; wcbn; auto|]. unfold sched_left, slio in *. wcbn. exact W3.
Qed.

(* ------------------------------------------------------------------ *)
(* the held command (cat.c:2358)                                        *)
(* ------------------------------------------------------------------ *)

Lemma release_NH : forall s, NH (if (Defs.k_hold_exit (k s) <? 0)%Z then ack_error (setk_hold false s)
                                else ack_ok (setk_hold false s)).
Proof.
  intros s. destruct (_ <? _)%Z; unfold ack_error, ack_ok, start_flush_c, Lemmas_C15ba.NH; sproj;
    split; [reflexivity | discriminate | reflexivity | discriminate].
Qed.

Lemma hold_step : forall w, GInv w -> k_state (k (st w)) = CS_HOLD ->
  GStepC w (upd_st process_hold_state w) ST_BUSY.
Proof.
  intros w HI Hst. pose proof HI as (HS & Hh & HK). unfold Fsm.upd_st, process_hold_state.
  destruct (Z.eqb_spec (Defs.k_hold_exit (k (st w))) 0) as [E|E].
  - (* no release requested: the command machine waits *)
    split; [|split; [|split]].
    + unfold GInv'. wcbn. auto.
    + auto.
    + unfold sched_left. wcbn. lia.
    + right. right. split; [repeat split; reflexivity|]. split; [rewrite Hst; discriminate|].
      right. right. auto.
  - (* released: the result code is flushed *)
    pose proof (release_NH (st w)) as Hn. cbv zeta.
    set (s' := if (Defs.k_hold_exit (k (st w)) <? 0)%Z then ack_error (setk_hold false (st w))
               else ack_ok (setk_hold false (st w))) in *.
    assert (Eu : u s' = u (st w)) by (subst s'; destruct (_ <? _)%Z; reflexivity).
    split; [|split; [|split]].
    + unfold GInv'. wcbn. split; [apply NH_HH; exact Hn | exact HK].
    + unfold Lemmas_C15b.capok. wcbn. rewrite Eu. auto.
    + unfold sched_left. wcbn. lia.
    + left. intros _. unfold Phi', Lemmas_C15b.Phi. wcbn. rewrite Eu, (rU_ext D _ _ Eu).
      rewrite (hb_NH _ Hn). unfold hb. rewrite Hst. rewrite (rC_held _ Hst).
      pose proof (rC_lt D s'). lia.
Qed.

(* ------------------------------------------------------------------ *)
(* one step of each machine                                             *)
(* ------------------------------------------------------------------ *)

Lemma KS_of : forall w, GInv w -> KS D (k (st w)) (cbuf (st w)).
Proof. intros w ((_ & H & _) & _). exact H. Qed.
Lemma US_of : forall w, GInv w -> US D (u (st w)) (ubuf (st w)).
Proof. intros w ((_ & _ & H) & _). exact H. Qed.

Ltac pure_c HI := wred; apply stepC_pure; [exact HI | reflexivity | apply io_le_refl |].
Ltac pure_u HI := wred; apply stepU_pure; [exact HI | reflexivity | apply io_le_refl |].
Ltac get_nh Hh Hst := apply HH_NH; [exact Hh | rewrite Hst; discriminate].

Theorem s_cmd_step : forall w, GInv w -> GStepC w (fst (s_cmd w)) (snd (s_cmd w)).
Proof.
  intros w HI. pose proof HI as (HS & Hh & HK). pose proof (KS_of w HI) as HKS.
  unfold Fsm.cmd_service.
  destruct (k_state (k (st w))) eqn:Hst; unfold KS in HKS; rewrite Hst in HKS;
    unfold Fsm.error_state, Fsm.process_idle_state, Fsm.parse_prefix, Fsm.parse_command,
           Fsm.wait_read_acknowledge, Fsm.wait_test_acknowledge, Fsm.parse_command_args;
    try (assert (Hnh : NH (st w)) by (get_nh Hh Hst)).
  - apply reading_step; [exact HI | exact Hnh | congruence|]. intros ch s N _ _. apply error_body_RB; exact N.
  - apply reading_step; [exact HI | exact Hnh | congruence|]. intros ch s N _ _. apply idle_body_RB; exact N.
  - apply reading_step; [exact HI | exact Hnh | congruence|]. intros ch s N _ _. apply prefix_body_RB; exact N.
  - apply reading_step; [exact HI | exact Hnh | congruence|]. intros ch s N _ _. apply parse_command_body_RB; exact N.
  - pure_c HI. apply (update_command_PC D m WF); assumption.
  - apply reading_step; [exact HI | exact Hnh | congruence|]. intros ch s N _ _. apply wait_read_body_RB; exact N.
  - pure_c HI. apply (search_command_PC D m WF); assumption.
  - pure_c HI. apply (command_found_PC D m); assumption.
  - pure_c HI. apply ack_error_PC; [exact Hnh|]. unfold Lemmas_C15ba.cC. rewrite Hst. cbn. lia.
  - apply reading_step; [exact HI | exact Hnh | congruence|]. intros ch s N _ _. apply parse_command_args_body_RB; exact N.
  - apply parse_write_args_step; assumption.
  - apply (format_read_args_step ATCMD); [exact HI | exact Hst].
  - apply reading_step; [exact HI | exact Hnh | congruence|]. intros ch s N _ Ec.
    apply (wait_test_body_RB D); [exact N | rewrite Ec; exact HKS].
  - pure_c HI. apply (format_test_args_PG D m ATCMD); [exact HS | exact Hnh | exact Hst].
  - apply write_loop_step; assumption.
  - apply (rt_loop_step true ATCMD); [exact HI | left; exact Hst].
  - apply (rt_loop_step false ATCMD); [exact HI | right; exact Hst].
  - apply run_loop_step; assumption.
  - apply hold_step; assumption.
  - destruct (ustate_eq_dec (u_state (u (st w))) US_FLUSH) as [E|E].
    + wred. unfold process_io_write_wait. rewrite E. cbn [ustate_beq negb]. split; [|split; [|split]].
      * unfold GInv'. wcbn. auto.
      * auto.
      * unfold sched_left. wcbn. lia.
      * right. right. split; [repeat split; reflexivity|]. split; [congruence|]. right. left. auto.
    + pure_c HI. apply wait_PC; assumption.
  - apply flush_step_C; assumption.
  - pure_c HI. apply reset_PC; assumption.
  - pure_c HI. apply ack_ok_PC; [exact Hnh|]. unfold Lemmas_C15ba.cC. rewrite Hst. cbn. lia.
  - pure_c HI. apply (TC_PC D 13); [apply (spfra_TG D ATCMD); [exact Hnh | exact HKS]|].
    unfold Lemmas_C15ba.cC. rewrite Hst. cbn. lia.
  - pure_c HI. apply (TC_PC D 13); [apply (spfta_TG D ATCMD); [exact Hnh | exact HKS]|].
    unfold Lemmas_C15ba.cC. rewrite Hst. cbn. lia.
  - pure_c HI. apply (print_cmd_list_PC D m); assumption.
Qed.

Theorem s_uns_step : forall w, GInv w -> GStepU w (fst (s_uns w)) (snd (s_uns w)).
Proof.
  intros w HI. pose proof HI as (HS & Hh & HK). pose proof (US_of w HI) as HUS.
  unfold Fsm.unsolicited_events_service.
  destruct (u_state (u (st w))) eqn:Hst; unfold US in HUS; rewrite Hst in HUS.
  - destruct (ring_empty (st w)) eqn:Er; cbn [negb].
    + cbn [fst snd]. split; [exact (proj2 HI)|]. split; [auto|]. split; [lia|].
      right. right. split; [repeat split; reflexivity|]. left.
      unfold ring_empty in Er. apply Nat.eqb_eq in Er. auto.
    + wred. apply stepU_pure; [exact HI | destruct (ring_items D (st w)); reflexivity | |].
      * destruct (ring_items D (st w)); apply io_le_eq; reflexivity.
      * replace (st match ring_items D (st w) with [] => w | it :: _ => logw (EPop (fst it) (snd it)) w end)
          with (st w) by (destruct (ring_items D (st w)); reflexivity).
        apply (check_unsolicited_buffers_PU0 D m); assumption.
  - apply (format_read_args_step UNSOL); [exact HI | exact Hst].
  - pure_u HI. apply (format_test_args_PU0 D m); [exact HS | exact Hst].
  - apply (rt_loop_step true UNSOL); [exact HI | left; exact Hst].
  - apply (rt_loop_step false UNSOL); [exact HI | right; exact Hst].
  - destruct (cstate_eq_dec (k_state (k (st w))) CS_FLUSH) as [E|E].
    + wred. unfold unsolicited_process_io_write_wait. rewrite E. cbn [cstate_beq negb]. split; [|split; [|split]].
      * unfold GInv'. wcbn. auto.
      * auto.
      * unfold sched_left. wcbn. lia.
      * right. right. split; [repeat split; reflexivity|]. right. exact E.
    + pure_u HI. apply wait_PU0; assumption.
  - apply flush_step_U; assumption.
  - pure_u HI. apply ureset_PU0. unfold Lemmas_C15ba.cU. rewrite Hst. cbn. lia.
  - pure_u HI. apply ureset_PU0. unfold Lemmas_C15ba.cU. rewrite Hst. cbn. lia.
  - pure_u HI. apply (TU0_PU0 D 7); [apply (spfra_TU0 D); exact HUS|].
    unfold Lemmas_C15ba.cU. rewrite Hst. cbn. lia.
  - pure_u HI. apply (TU0_PU0 D 7); [apply (spfta_TU0 D); exact HUS|].
    unfold Lemmas_C15ba.cU. rewrite Hst. cbn. lia.
Qed.

(* ------------------------------------------------------------------ *)
(* one cat_service call                                                 *)
(* ------------------------------------------------------------------ *)

(* suspended in an unreleased hold: the command is held, no release has been requested, the event
   machine is idle and the queue is empty *)
Definition Susp (s : state) : Prop :=
  k_state (k s) = CS_HOLD /\ Defs.k_hold_exit (k s) = 0%Z /\ u_state (u s) = US_IDLE /\ u_count (u s) = 0.

Theorem body_step : forall w, GInv w ->
  GInv (fst (s_body w)) /\ (capok (st w) -> capok (st (fst (s_body w)))) /\
  sl (fst (s_body w)) <= sl w /\
  ((capok (st w) -> Phi' (fst (s_body w)) < Phi' w) \/
   (Phi' (fst (s_body w)) = Phi' w /\ sl (fst (s_body w)) < sl w) \/
   (snd (s_body w) = ST_OK /\ inq (io w) = []) \/
   Susp (st w)).
Proof.
  intros w HI. pose proof HI as (HS & Hh & HK).
  pose proof (s_uns_step w HI) as (HI1' & Hc1 & L1 & HU). pose proof (s_uns_safed w HK HS) as HS1.
  unfold Fsm.service_body. destruct (s_uns w) as [w1 us]. cbn [fst snd] in *.
  assert (HI1 : GInv w1) by (split; assumption).
  pose proof (s_cmd_step w1 HI1) as (HI2' & Hc2 & L2 & HC).
  pose proof (s_cmd_safed w1 (proj2 HI1') HS1) as HS2.
  destruct (s_cmd w1) as [w2 rc]. cbn [fst snd] in *.
  assert (HI2 : GInv w2) by (split; assumption).
  assert (X : (capok (st w) -> Phi' w2 < Phi' w) \/ (Phi' w2 = Phi' w /\ sl w2 < sl w) \/
              (us = ST_OK /\ u_state (u (st w2)) = US_IDLE /\ rc = ST_OK /\ inq (io w) = []) \/
              Susp (st w)).
  { destruct HU as [HU | [(EM1 & S1) | (EM1 & HU)]]; destruct HC as [HC | [(EM2 & S2) | (EM2 & Hnf & HC)]].
    - left. intros C0. pose proof (HU (Hc1 C0)). pose proof (HC (Hc2 (Hc1 C0))). lia.
    - left. intros C0. rewrite (Same_phi' _ _ EM2). exact (HU (Hc1 C0)).
    - left. intros C0. rewrite (Same_phi' _ _ EM2). exact (HU (Hc1 C0)).
    - left. intros C0. rewrite <- (Same_phi' _ _ EM1). exact (HC (Hc2 (Hc1 C0))).
    - right. left. rewrite (Same_phi' _ _ EM2), (Same_phi' _ _ EM1). split; [reflexivity | lia].
    - right. left. rewrite (Same_phi' _ _ EM2), (Same_phi' _ _ EM1). split; [reflexivity | lia].
    - left. intros C0. rewrite <- (Same_phi' _ _ EM1). exact (HC (Hc2 (Hc1 C0))).
    - right. left. rewrite (Same_phi' _ _ EM2), (Same_phi' _ _ EM1). split; [reflexivity | lia].
    - destruct EM1 as (ES1 & _ & EI1). destruct EM2 as (ES2 & _). rewrite ES1 in *.
      destruct HU as [(U1 & U2 & U3) | U]; [|congruence].
      destruct HC as [[C1 C2] | [[_ C] | [C1 C2]]]; [|congruence|].
      + right. right. left. rewrite ES2. rewrite EI1 in C2. auto.
      + right. right. right. unfold Susp. auto. }
  assert (Hc : capok (st w) -> capok (st w2)) by auto.
  assert (L : sl w2 <= sl w) by lia.
  destruct X as [X | [X | [(X1 & X2 & X3 & X4) | X]]].
  - destruct (_ || _); cbn [fst snd]; (split; [exact HI2 | split; [exact Hc | split; [exact L | left; exact X]]]).
  - destruct (_ || _); cbn [fst snd]; (split; [exact HI2 | split; [exact Hc | split; [exact L | right; left; exact X]]]).
  - subst us rc. rewrite X2. cbn. split; [exact HI2 | split; [exact Hc | split; [exact L | right; right; left; auto]]].
  - destruct (_ || _); cbn [fst snd]; (split; [exact HI2 | split; [exact Hc | split; [exact L | right; right; right; exact X]]]).
Qed.

Local Notation s_do := (Fsm.do_op D sio smu shs s_read s_write s_lock s_unlock s_call).

(* after at most Phi' + scheduled attempts calls the run is quiescent or suspended *)
Theorem reaches_ok_or_hold : forall w, d_mutex D = false -> GInv w -> capok (st w) ->
  exists n, n <= Phi' w + sl w /\ GInv (nsvc D n w) /\
    ((inq (io (nsvc D n w)) = [] /\ snd (s_do (nsvc D n w) OService) = ST_OK) \/
     Susp (st (nsvc D n w))).
Proof.
  intros w Hmx. remember (Phi' w + sl w) as p eqn:Ep. revert w Ep.
  induction p as [p IH] using lt_wf_ind. intros w Ep HI Hc.
  destruct (body_step w HI) as (HI2 & Hc2 & L & Cs).
  assert (Es : exists w2 r, s_body w = (w2, r) /\ svc D w = logw (ERet OService r) w2).
  { unfold svc, Fsm.step. cbn [Fsm.do_op]. unfold Fsm.api_service, Fsm.bracket. rewrite Hmx.
    destruct (s_body w) as [w2 r]. eauto. }
  destruct Es as (w2 & r & Eb & Es). rewrite Eb in *. cbn [fst snd] in *.
  assert (Rec : Phi' w2 + sl w2 < Phi' w + sl w ->
    exists n, n <= p /\ GInv (nsvc D n w) /\
      ((inq (io (nsvc D n w)) = [] /\ snd (s_do (nsvc D n w) OService) = ST_OK) \/
       Susp (st (nsvc D n w)))).
  { intros Lt. destruct (IH (Phi' (svc D w) + sl (svc D w))) with (w := svc D w) as (n & Hn & Hg & Ho).
    + rewrite Ep, Es. exact Lt.
    + reflexivity.
    + rewrite Es. exact HI2.
    + rewrite Es. exact (Hc2 Hc).
    + exists (S n). split; [|split; [exact Hg | exact Ho]]. rewrite Es in Hn.
      change (Phi' (logw (ERet OService r) w2)) with (Phi' w2) in Hn.
      change (sl (logw (ERet OService r) w2)) with (sl w2) in Hn. lia. }
  destruct Cs as [X | [(X1 & X2) | [(E & Ei) | X]]].
  - apply Rec. specialize (X Hc). lia.
  - apply Rec. lia.
  - exists 0. split; [lia|]. split; [exact HI|]. left. split; [exact Ei|].
    cbn [nsvc iter Fsm.do_op]. unfold Fsm.api_service, Fsm.bracket. rewrite Hmx, Eb. exact E.
  - exists 0. split; [lia|]. split; [exact HI|]. right. exact X.
Qed.

(* a suspended world stays suspended: every further call answers BUSY and changes nothing *)
Lemma susp_svc : forall w, d_mutex D = false -> Susp (st w) ->
  st (svc D w) = st w /\ hs (svc D w) = hs w /\ io (svc D w) = io w /\
  snd (s_do w OService) = ST_BUSY.
Proof.
  intros w Hmx (S1 & S2 & S3 & S4).
  unfold svc, Fsm.step. cbn [Fsm.do_op]. unfold Fsm.api_service, Fsm.bracket. rewrite Hmx.
  unfold Fsm.service_body, Fsm.unsolicited_events_service. rewrite S3.
  unfold ring_empty. rewrite S4. cbn [Nat.eqb negb].
  unfold Fsm.cmd_service. rewrite S1. unfold Fsm.busy, Fsm.upd_st, process_hold_state. rewrite S2.
  cbn [Z.eqb]. wcbn. rewrite S3. cbn. repeat split; reflexivity.
Qed.

Lemma susp_nsvc : forall j w, d_mutex D = false -> Susp (st w) ->
  st (nsvc D j w) = st w /\ hs (nsvc D j w) = hs w /\ io (nsvc D j w) = io w /\
  snd (s_do (nsvc D j w) OService) = ST_BUSY.
Proof.
  induction j as [|j IH]; intros w Hmx HSu.
  - cbn [nsvc iter]. destruct (susp_svc w Hmx HSu) as (_ & _ & _ & B). auto.
  - destruct (susp_svc w Hmx HSu) as (B1 & B2 & B3 & _).
    assert (HS' : Susp (st (svc D w))) by (rewrite B1; exact HSu).
    destruct (IH (svc D w) Hmx HS') as (A1 & A2 & A3 & A4).
    change (nsvc D (S j) w) with (nsvc D j (svc D w)).
    repeat split; congruence.
Qed.

End Held.

(* ================================================================== *)
(* the delivered statements                                            *)
(* ================================================================== *)

Lemma Phi'_bound : forall D (w : sworld), Phi' D w <= C15_bound D w.
Proof.
  intros D w. unfold Phi', Phi, C15_bound, wS.
  pose proof (rU_lt D (st _ _ _ w)). pose proof (rC_hb D (st _ _ _ w)).
  rewrite RU_cost, RC_cost in *.
  replace ((d_cap D + 1) * cost_u D) with (d_cap D * cost_u D + cost_u D) by lia. lia.
Qed.

Lemma J_HH : forall s, J (ctl_of s) -> HH s.
Proof. intros s [H _]. exact H. Qed.

Theorem C15_quiescence_or_hold_proof : forall D m (w : sworld),
  d_mutex D = false ->
  wf_desc D m -> Safe D m (st _ _ _ w) ->
  J (ctl_of (st _ _ _ w)) ->
  script_ok (res_calls_ok D) (hs _ _ _ w) = true ->
  u_count (u (st _ _ _ w)) <= d_cap D ->
  exists n, n <= C15_bound D w + sched_left w /\
    let w' := nsvc D n w in
    (inq (io _ _ _ w') = [] /\
     snd (do_op D sio smu shs s_read s_write s_lock s_unlock s_call w' OService) = ST_OK) \/
    (k_state (k (st _ _ _ w')) = CS_HOLD /\ Defs.k_hold_exit (k (st _ _ _ w')) = 0%Z /\
     u_state (u (st _ _ _ w')) = US_IDLE /\ u_count (u (st _ _ _ w')) = 0).
Proof.
  intros D m w Hmx WF HS HJ S2 Hc.
  destruct (reaches_ok_or_hold D m WF w Hmx) as (n & Hn & _ & Ho).
  - split; [exact HS|]. split; [apply J_HH; exact HJ | exact S2].
  - exact Hc.
  - exists n. split; [pose proof (Phi'_bound D w); lia|]. exact Ho.
Qed.

Print Assumptions C15_quiescence_or_hold_proof.

(* a suspended world stays suspended *)
Theorem C15_hold_suspended_forever_proof : forall D (w : sworld) j,
  d_mutex D = false ->
  k_state (k (st _ _ _ w)) = CS_HOLD -> Defs.k_hold_exit (k (st _ _ _ w)) = 0%Z ->
  u_state (u (st _ _ _ w)) = US_IDLE -> u_count (u (st _ _ _ w)) = 0 ->
  snd (do_op D sio smu shs s_read s_write s_lock s_unlock s_call (nsvc D j w) OService) = ST_BUSY /\
  st _ _ _ (nsvc D j w) = st _ _ _ w /\ hs _ _ _ (nsvc D j w) = hs _ _ _ w /\
  io _ _ _ (nsvc D j w) = io _ _ _ w.
Proof.
  intros D w j Hmx S1 S2 S3 S4.
  destruct (susp_nsvc D j w Hmx) as (A & B & C & E); [unfold Susp; auto|]. auto.
Qed.

Print Assumptions C15_hold_suspended_forever_proof.

(* the same with what is left behind in either case, and for ever after *)
Theorem C15_quiescence_or_hold_nothing_left_proof : forall D m (w : sworld),
  d_mutex D = false ->
  wf_desc D m -> Safe D m (st _ _ _ w) ->
  J (ctl_of (st _ _ _ w)) ->
  script_ok (res_calls_ok D) (hs _ _ _ w) = true ->
  u_count (u (st _ _ _ w)) <= d_cap D ->
  exists n, n <= C15_bound D w + sched_left w /\
    let w' := nsvc D n w in
    u_count (u (st _ _ _ w')) = 0 /\ u_state (u (st _ _ _ w')) = US_IDLE /\ ring_items D (st _ _ _ w') = [] /\
    ((inq (io _ _ _ w') = [] /\ reading_state (k_state (k (st _ _ _ w'))) = true /\
      forall j,
        snd (do_op D sio smu shs s_read s_write s_lock s_unlock s_call (nsvc D j w') OService) = ST_OK /\
        st _ _ _ (nsvc D j w') = st _ _ _ w' /\ hs _ _ _ (nsvc D j w') = hs _ _ _ w')
     \/
     (k_state (k (st _ _ _ w')) = CS_HOLD /\ is_hold (st _ _ _ w') = ST_HOLD /\
      Defs.k_hold_exit (k (st _ _ _ w')) = 0%Z /\
      forall j,
        snd (do_op D sio smu shs s_read s_write s_lock s_unlock s_call (nsvc D j w') OService) = ST_BUSY /\
        st _ _ _ (nsvc D j w') = st _ _ _ w' /\ hs _ _ _ (nsvc D j w') = hs _ _ _ w' /\
        io _ _ _ (nsvc D j w') = io _ _ _ w')).
Proof.
  intros D m w Hmx WF HS HJ S2 Hc.
  destruct (reaches_ok_or_hold D m WF w Hmx) as (n & Hn & Hg & Ho).
  - split; [exact HS|]. split; [apply J_HH; exact HJ | exact S2].
  - exact Hc.
  - exists n. split; [pose proof (Phi'_bound D w); lia|]. cbv zeta. set (w' := nsvc D n w) in *.
    destruct Ho as [[Hi Hok] | (Q1 & Q2 & Q3 & Q4)].
    + assert (Q : exists w'', service_body D sio smu shs s_read s_write s_lock s_unlock s_call w' = (w'', ST_OK)).
      { cbn [Fsm.do_op] in Hok. unfold Fsm.api_service, Fsm.bracket in Hok. rewrite Hmx in Hok.
        destruct (service_body D sio smu shs s_read s_write s_lock s_unlock s_call w') as [w'' s].
        cbn [snd] in Hok. subst s. eauto. }
      destruct Q as (w'' & Q).
      destruct (C15_ok_is_quiescent D sio smu shs s_read s_write s_lock s_unlock s_call w' w'' Q)
        as (Q1 & Q2 & Q3 & Q4 & _).
      split; [exact Q3|]. split; [exact Q2|]. split; [exact Q4|]. left.
      split; [exact Hi|]. split; [exact Q1|].
      intros j. split; [exact (C15_quiescent_forever_ok D w' j Hmx Hi Hok)|].
      exact (C15_quiescent_forever D w' j Hmx Hi Hok).
    + split; [exact Q4|]. split; [exact Q3|]. split; [apply ring_items_count0; exact Q4|]. right.
      split; [exact Q1|]. split.
      { destruct Hg as (_ & [_ Hh] & _). unfold is_hold. rewrite (Hh Q1). reflexivity. }
      split; [exact Q2|]. intros j.
      exact (C15_hold_suspended_forever_proof D w' j Hmx Q1 Q2 Q3 Q4).
Qed.

Print Assumptions C15_quiescence_or_hold_nothing_left_proof.

(* ---- from cat_init: every scripted scenario (API calls, new input, application stores in any
        order) reaches a world from which the service loop ends quiescent or suspended ---- *)
Theorem C15_scenario_quiescence_or_hold_proof : forall D m x mx h sops,
  d_mutex D = false -> wf_desc D m -> Forall (valid_sop D) sops ->
  no_rt_hold h = true -> script_ok (res_calls_valid D) h = true ->
  let w := srun D (sinit D m x mx h) sops in
  exists n, n <= C15_bound D w + sched_left w /\
    let w' := nsvc D n w in
    (inq (io _ _ _ w') = [] /\
     snd (do_op D sio smu shs s_read s_write s_lock s_unlock s_call w' OService) = ST_OK) \/
    (k_state (k (st _ _ _ w')) = CS_HOLD /\ Defs.k_hold_exit (k (st _ _ _ w')) = 0%Z /\
     u_state (u (st _ _ _ w')) = US_IDLE /\ u_count (u (st _ _ _ w')) = 0).
Proof.
  intros D m x mx h sops M WF F A B w.
  destruct (scenario_inv_scripted D m x mx h sops WF F A B) as (_ & HS & HJ & HR & HV). fold w in HS, HJ, HR, HV.
  destruct (C13_exactly_once_scenario D m x mx h sops (proj1 WF) (or_introl M) (valid_no_reinit D sops F))
    as [(_ & _ & _ & _ & Hc & _) _]. fold w in Hc.
  exact (C15_quiescence_or_hold_proof D m w M WF HS HJ
           (script_ok_impl _ _ (res_calls_valid_ok D) _ HV) Hc).
Qed.

Print Assumptions C15_scenario_quiescence_or_hold_proof.

Theorem C15_scenario_quiescence_or_hold_nothing_left_proof : forall D m x mx h sops,
  d_mutex D = false -> wf_desc D m -> Forall (valid_sop D) sops ->
  no_rt_hold h = true -> script_ok (res_calls_valid D) h = true ->
  let w := srun D (sinit D m x mx h) sops in
  exists n, n <= C15_bound D w + sched_left w /\
    let w' := nsvc D n w in
    u_count (u (st _ _ _ w')) = 0 /\ u_state (u (st _ _ _ w')) = US_IDLE /\ ring_items D (st _ _ _ w') = [] /\
    ((inq (io _ _ _ w') = [] /\ reading_state (k_state (k (st _ _ _ w'))) = true /\
      forall j,
        snd (do_op D sio smu shs s_read s_write s_lock s_unlock s_call (nsvc D j w') OService) = ST_OK /\
        st _ _ _ (nsvc D j w') = st _ _ _ w' /\ hs _ _ _ (nsvc D j w') = hs _ _ _ w')
     \/
     (k_state (k (st _ _ _ w')) = CS_HOLD /\ is_hold (st _ _ _ w') = ST_HOLD /\
      Defs.k_hold_exit (k (st _ _ _ w')) = 0%Z /\
      forall j,
        snd (do_op D sio smu shs s_read s_write s_lock s_unlock s_call (nsvc D j w') OService) = ST_BUSY /\
        st _ _ _ (nsvc D j w') = st _ _ _ w' /\ hs _ _ _ (nsvc D j w') = hs _ _ _ w' /\
        io _ _ _ (nsvc D j w') = io _ _ _ w')).
Proof.
  intros D m x mx h sops M WF F A B w.
  destruct (scenario_inv_scripted D m x mx h sops WF F A B) as (_ & HS & HJ & HR & HV). fold w in HS, HJ, HR, HV.
  destruct (C13_exactly_once_scenario D m x mx h sops (proj1 WF) (or_introl M) (valid_no_reinit D sops F))
    as [(_ & _ & _ & _ & Hc & _) _]. fold w in Hc.
  exact (C15_quiescence_or_hold_nothing_left_proof D m w M WF HS HJ
           (script_ok_impl _ _ (res_calls_valid_ok D) _ HV) Hc).
Qed.

Print Assumptions C15_scenario_quiescence_or_hold_nothing_left_proof.

(* the same for histories of API calls *)
Theorem C15_reachable_quiescence_or_hold_proof : forall D m x mx h ops0,
  d_mutex D = false -> wf_desc D m -> Forall (valid_op D) ops0 ->
  no_rt_hold h = true -> script_ok (res_calls_valid D) h = true ->
  let w := srun D (sinit D m x mx h) (map SOp ops0) in
  exists n, n <= C15_bound D w + sched_left w /\
    let w' := nsvc D n w in
    (inq (io _ _ _ w') = [] /\
     snd (do_op D sio smu shs s_read s_write s_lock s_unlock s_call w' OService) = ST_OK) \/
    (k_state (k (st _ _ _ w')) = CS_HOLD /\ Defs.k_hold_exit (k (st _ _ _ w')) = 0%Z /\
     u_state (u (st _ _ _ w')) = US_IDLE /\ u_count (u (st _ _ _ w')) = 0).
Proof.
  intros D m x mx h ops0 M WF F.
  exact (C15_scenario_quiescence_or_hold_proof D m x mx h (map SOp ops0) M WF (valid_sop_map D ops0 F)).
Qed.

Print Assumptions C15_reachable_quiescence_or_hold_proof.
