(* Properties_C13.v — final statements of property C13: the unsolicited-event queue is a bounded
   FIFO queue with no loss, duplication or reordering, for every history and every capacity > 0.
   Proofs are in Lemmas_C13.v.

   Imported definitions (Lemmas_C13.v), repeated here for the reader:

     ring_wf D s :=
       0 < d_cap D /\ length (u_ring (u s)) = d_cap D /\ u_head (u s) < d_cap D /\
       u_tail (u s) < d_cap D /\ u_count (u s) <= d_cap D /\
       u_tail (u s) = (u_head (u s) + u_count (u s)) mod d_cap D.

     ring_inv w := ring_wf D (st w) /\ accepted (hist w) = popped (hist w) ++ ring_items D (st w).

     unlock_ok := d_mutex D = false \/ (forall m, snd (mu_unlock m) = true).

     pushed c h := snd (fold_left (pushed_step c) h (0, []))     with, for acc = (n, l):
       pushed_step c (n,l) (EPop _ _)                    = (pred n, l)
       pushed_step c (n,l) (ERet (OTrigger ci t) r)  and
       pushed_step c (n,l) (EInner (ITrigger ci t) r)    =
           if (r =? ST_OK) || ((r =? ST_MUTEX_UNLOCK) && (n <? c)) then (S n, l ++ [(ci,t)]) else (n,l)
       pushed_step c (n,l) _                             = (n, l)
     i.e. the triggers whose push was really executed (n tracks the queue length).

   DIFFERENCE WITH THE REQUESTED STATEMENT of C13_exactly_once: it needs the extra hypothesis
   `unlock_ok`.  Without it the statement is false (Example C13_cex_unlock below): when the
   unlock fails the trigger returns MUTEX_UNLOCK although the event has been queued.
   C13_exactly_once_general is the version without that hypothesis. *)
From Coq Require Import List NArith ZArith Bool Arith.
From CatV Require Import Bytes Defs Codec Fsm TraceDefs Script Lemmas_C13.
Import ListNotations.
Local Open Scope nat_scope.

Section Statements.
Variable D : desc.
Variables ioS muS hS : Type.
Variable io_read : ioS -> ioS * option N.
Variable io_write : ioS -> N -> ioS * bool.
Variable mu_lock : muS -> muS * bool.
Variable mu_unlock : muS -> muS * bool.
Variable h_call : hS -> hreq -> hS * hres.

(* 1. refinement of the ring to a list (any capacity) *)
Theorem C13_items_length : forall s, ring_wf D s -> length (ring_items D s) = u_count (u s).
Proof. exact (Lemmas_C13.C13_items_length D). Qed.

Theorem C13_push : forall s ci t, ring_wf D s ->
  let (s', r) := push_unsolicited_cmd D s ci t in
  if length (ring_items D s) <? d_cap D
  then r = ST_OK /\ ring_wf D s' /\ ring_items D s' = ring_items D s ++ [(ci, t)] /\ fault s' = fault s
  else r = ST_BUFFER_FULL /\ s' = s.
Proof. exact (Lemmas_C13.C13_push D). Qed.

Theorem C13_pop : forall s, ring_wf D s ->
  match ring_items D s with
  | [] => pop_unsolicited_cmd D s = (s, None)
  | it :: rest => exists s', pop_unsolicited_cmd D s = (s', Some it) /\ ring_wf D s' /\
                             ring_items D s' = rest /\ fault s' = fault s
  end.
Proof. exact (Lemmas_C13.C13_pop D). Qed.

Theorem C13_full : forall s, ring_wf D s -> ring_full D s = (length (ring_items D s) =? d_cap D).
Proof. exact (Lemmas_C13.C13_full D). Qed.

(* 2. every history: the queue is always well formed, and
      accepted events = events already taken out ++ events still queued
      (no loss, no duplication, FIFO) — provided the unlock never fails *)
Theorem C13_exactly_once : forall m x mx h ops,
  0 < d_cap D ->
  (d_mutex D = false \/ (forall m, snd (mu_unlock m) = true)) ->
  let w := run D ioS muS hS io_read io_write mu_lock mu_unlock h_call
               (mkWorld ioS muS hS (init_state D m) x mx h []) ops in
  ring_wf D (st ioS muS hS w) /\
  accepted (hist ioS muS hS w) = popped (hist ioS muS hS w) ++ ring_items D (st ioS muS hS w).
Proof. exact (Lemmas_C13.C13_exactly_once D ioS muS hS io_read io_write mu_lock mu_unlock h_call). Qed.

(* 2'. the same without any hypothesis on the mutex: the events whose push was executed *)
Theorem C13_exactly_once_general : forall m x mx h ops,
  0 < d_cap D ->
  let w := run D ioS muS hS io_read io_write mu_lock mu_unlock h_call
               (mkWorld ioS muS hS (init_state D m) x mx h []) ops in
  ring_wf D (st ioS muS hS w) /\
  pushed (d_cap D) (hist ioS muS hS w) = popped (hist ioS muS hS w) ++ ring_items D (st ioS muS hS w).
Proof. exact (Lemmas_C13.C13_exactly_once_general D ioS muS hS io_read io_write mu_lock mu_unlock h_call). Qed.

(* 3. a refused trigger changes nothing and an accepted one is reported as such, at the API level,
      any state *)
Theorem C13_trigger_api : forall (w : world ioS muS hS) ci t, ring_wf D (st ioS muS hS w) -> d_mutex D = false ->
  let (w', r) := api_trigger D ioS muS hS mu_lock mu_unlock w ci t in
  (r = ST_OK /\ length (ring_items D (st ioS muS hS w)) < d_cap D /\
   ring_items D (st ioS muS hS w') = ring_items D (st ioS muS hS w) ++ [(ci, t)]) \/
  (r = ST_BUFFER_FULL /\ length (ring_items D (st ioS muS hS w)) = d_cap D /\ w' = w).
Proof. exact (Lemmas_C13.C13_trigger_api D ioS muS hS mu_lock mu_unlock). Qed.

(* 4. the observer: is_event_buffered reports BUSY iff a matching event is being processed or queued *)
Theorem C13_is_buffered : forall s ci t,
  is_event_buffered D s ci t = ST_BUSY <->
  (exists c, u_cmd (u s) = Some c /\ ev_match ci t (c, u_type (u s)) = true) \/
  (exists it, In it (ring_items D s) /\ ev_match ci t it = true).
Proof. exact (Lemmas_C13.C13_is_buffered D). Qed.

End Statements.

Print Assumptions C13_items_length.
Print Assumptions C13_push.
Print Assumptions C13_pop.
Print Assumptions C13_full.
Print Assumptions C13_exactly_once.
Print Assumptions C13_exactly_once_general.
Print Assumptions C13_trigger_api.
Print Assumptions C13_is_buffered.

(* ---------------- non-vacuity: concrete runs with the scripted oracles of Script.v ---------------- *)

(* one command "+X" with a read and a test handler, capacity 2 *)
Definition exC : cmd := mkCmd [43; 88]%N None false true false true [] false false false.
Definition exD (mutex : bool) : desc := mkDesc [[exC]] [] 32 None 0%N 2 mutex.
Definition exRun (mutex : bool) (mx : smu) (h : shs) (ops : list op) : sworld :=
  run (exD mutex) sio smu shs s_read s_write s_lock s_unlock s_call
      (mkWorld sio smu shs (init_state (exD mutex) []) (mkSio [] [] []) mx h []) ops.
Definition rets (w : sworld) : list Z :=
  flat_map (fun e => match e with ERet (OTrigger _ _) r => [r] | _ => [] end) (hist _ _ _ w).

(* capacity 2, three triggers: OK, OK, BUFFER_FULL; the refused one is not queued *)
Example C13_ex_bounded :
  let w := exRun false (mkSmu [] []) [] [OTrigger 0 T_READ; OTrigger 0 T_TEST; OTrigger 0 T_READ] in
  rets w = [ST_OK; ST_OK; ST_BUFFER_FULL] /\
  ring_items (exD false) (st _ _ _ w) = [(0, T_READ); (0, T_TEST)] /\
  fault (st _ _ _ w) = false.
Proof. vm_compute. auto. Qed.

(* triggers interleaved with service calls: delivered in order, exactly once; the slot freed by
   the first pop makes the fourth trigger succeed *)
Example C13_ex_fifo :
  let w := exRun false (mkSmu [] []) []
             ([OTrigger 0 T_READ; OTrigger 0 T_TEST; OTrigger 0 T_READ; OService; OTrigger 0 T_READ]
              ++ repeat OService 40) in
  rets w = [ST_OK; ST_OK; ST_BUFFER_FULL; ST_OK] /\
  accepted (hist _ _ _ w) = [(0, T_READ); (0, T_TEST); (0, T_READ)] /\
  popped (hist _ _ _ w) = [(0, T_READ); (0, T_TEST); (0, T_READ)] /\
  ring_items (exD false) (st _ _ _ w) = [] /\ fault (st _ _ _ w) = false.
Proof. vm_compute. auto 6. Qed.

(* a trigger issued from inside the read handler of the event being processed (EInner) *)
Example C13_ex_inner :
  let h : shs := [((1, 0, 0), [mkHres RC_OK None [] [ITrigger 0 T_TEST; ITrigger 0 T_TEST; ITrigger 0 T_TEST]])] in
  let w := exRun true (mkSmu [] []) h ([OTrigger 0 T_READ] ++ repeat OService 40) in
  accepted (hist _ _ _ w) = [(0, T_READ); (0, T_TEST); (0, T_TEST)] /\
  refused_of (nth 18 (hist _ _ _ w) (ERd None)) = [(0, T_TEST)] /\
  popped (hist _ _ _ w) = [(0, T_READ); (0, T_TEST); (0, T_TEST)] /\
  ring_items (exD true) (st _ _ _ w) = [] /\ fault (st _ _ _ w) = false.
Proof. vm_compute. auto 6. Qed.

(* COUNTER-EXAMPLE to the statement without `unlock_ok`: the unlock of the first trigger fails;
   the call returns MUTEX_UNLOCK (-2) but the event is in the queue and is delivered later *)
Example C13_cex_unlock :
  let w := exRun true (mkSmu [] [false]) [] [OTrigger 0 T_READ] in
  rets w = [ST_MUTEX_UNLOCK] /\ accepted (hist _ _ _ w) = [] /\
  ring_items (exD true) (st _ _ _ w) = [(0, T_READ)] /\
  pushed 2 (hist _ _ _ w) = [(0, T_READ)] /\
  popped (hist _ _ _ (exRun true (mkSmu [] [false]) [] [OTrigger 0 T_READ; OService])) = [(0, T_READ)].
Proof. vm_compute. auto 6. Qed.

(* ... and MUTEX_UNLOCK does not always mean "pushed": third trigger on a full queue, unlock fails *)
Example C13_cex_unlock_full :
  let w := exRun true (mkSmu [] [true; true; false]) [] [OTrigger 0 T_READ; OTrigger 0 T_TEST; OTrigger 0 T_READ] in
  rets w = [ST_OK; ST_OK; ST_MUTEX_UNLOCK] /\
  ring_items (exD true) (st _ _ _ w) = [(0, T_READ); (0, T_TEST)] /\
  pushed 2 (hist _ _ _ w) = [(0, T_READ); (0, T_TEST)].
Proof. vm_compute. auto. Qed.
