(* Lemmas_Ctl.v — the control invariant J over every history of the model: J is proved on the
   skeleton (SkelInv.v), the model refines the skeleton (SkelSim.v), hence J holds in every state
   reachable from cat_init by any operation list, for arbitrary environment oracles.  Corollaries
   used by C01, C11, C14, C18, C20. *)
From Coq Require Import List NArith ZArith Bool Arith Lia.
From CatV Require Import Bytes Defs Codec Fsm Skel SkelInv SkelSim.
Import ListNotations.
Local Open Scope nat_scope.

Section Ctl.
Variable D : desc.
Variables ioS muS hS : Type.
Variable io_read : ioS -> ioS * option N.
Variable io_write : ioS -> N -> ioS * bool.
Variable mu_lock : muS -> muS * bool.
Variable mu_unlock : muS -> muS * bool.
Variable h_call : hS -> hreq -> hS * hres.
(* scope decision D3: an event-side read/test handler never returns HOLD *)
Hypothesis no_uhold : forall hs q, unsol_req q = true -> r_code (snd (h_call hs q)) <> RC_HOLD.

Notation world := (Fsm.world ioS muS hS).
Notation st := (Fsm.st ioS muS hS).
Notation do_op := (Fsm.do_op D ioS muS hS io_read io_write mu_lock mu_unlock h_call).
Notation step := (Fsm.step D ioS muS hS io_read io_write mu_lock mu_unlock h_call).
Notation run := (Fsm.run D ioS muS hS io_read io_write mu_lock mu_unlock h_call).

Lemma st_step : forall (w : world) o, st (step w o) = st (fst (do_op w o)).
Proof. intros w o. unfold Fsm.step. destruct (do_op w o) as [w' r]. reflexivity. Qed.

Lemma run_snoc : forall ops (w : world) o, run w (ops ++ [o]) = step (run w ops) o.
Proof. intros ops w o. unfold Fsm.run. rewrite fold_left_app. reflexivity. Qed.

(* one step preserves J unless it raises the fault flag *)
Lemma J_step : forall (w : world) o,
  J (ctl_of (st w)) -> fault (st (step w o)) = false -> J (ctl_of (st (step w o))).
Proof.
  intros w o HJ Hf. rewrite st_step in *.
  pose proof (do_op_sim D ioS muS hS io_read io_write mu_lock mu_unlock h_call no_uhold w o) as H.
  eapply J_op_next; [exact HJ|].
  eapply op_next_weaken; [|exact H]. intro Hb. rewrite Hb in Hf. discriminate.
Qed.

Lemma fault_step_back : forall (w : world) o, fault (st (step w o)) = false -> fault (st w) = false.
Proof.
  intros w o H. destruct (fault (st w)) eqn:E; [|reflexivity].
  rewrite st_step in H.
  rewrite (fault_sticky D ioS muS hS io_read io_write mu_lock mu_unlock h_call w o E) in H. discriminate.
Qed.

Lemma ctl_init : forall m, ctl_of (init_state D m) = init_ctl.
Proof. reflexivity. Qed.

(* every reachable state in which no fault was raised satisfies J *)
Theorem J_reachable : forall m x mx h ops,
  let w := run (mkWorld ioS muS hS (init_state D m) x mx h []) ops in
  fault (st w) = false -> J (ctl_of (st w)).
Proof.
  intros m x mx h ops. induction ops as [|o ops IH] using rev_ind; intros w Hf.
  - subst w. cbn. apply J_init.
  - subst w. rewrite run_snoc in *. apply J_step; [|exact Hf].
    apply IH. eapply fault_step_back; exact Hf.
Qed.

(* the same from any state that satisfies J (e.g. any reachable state) *)
Theorem J_run : forall (w0 : world) ops,
  J (ctl_of (st w0)) -> fault (st (run w0 ops)) = false -> J (ctl_of (st (run w0 ops))).
Proof.
  intros w0 ops H0. induction ops as [|o ops IH] using rev_ind; intro Hf.
  - exact H0.
  - rewrite run_snoc in *. apply J_step; [|exact Hf]. apply IH. eapply fault_step_back; exact Hf.
Qed.
End Ctl.

(* ---------- reading J: projections used by the property files ---------- *)
Section Read.
Variable s : state.
Hypothesis HJ : J (ctl_of s).

Lemma J_hold_iff : k_hold (k s) = true <-> k_state (k s) = CS_HOLD.
Proof. destruct HJ as [H _]. exact H. Qed.

Lemma J_implicit : k_implicit (k s) = true -> k_state (k s) = CS_UPDATE_COMMAND_STATE.
Proof. destruct HJ as (_ & H & _). exact H. Qed.

Lemma J_idle_cr : k_state (k s) = CS_IDLE -> k_cr (k s) = false.
Proof. destruct HJ as (_ & _ & H & _). exact H. Qed.

Lemma J_flush_excl : ~ (k_state (k s) = CS_FLUSH /\ u_state (u s) = US_FLUSH).
Proof. destruct HJ as (_ & _ & _ & H & _). exact H. Qed.

(* ghost counters: gL lines terminated, gS result codes started, gR result codes completed *)
Lemma J_counters : gR s <= gL s <= S (gR s) /\ gR s <= gS s <= gL s.
Proof.
  destruct HJ as (_ & _ & _ & _ & H). unfold Jphase, settled, proc, result in H. cbn in H.
  destruct (k_state (k s)); cbn in H; intuition lia.
Qed.

Lemma J_reading_settled : reading_state (k_state (k s)) = true -> gL s = gR s /\ gS s = gR s.
Proof.
  destruct HJ as (_ & _ & _ & _ & H). unfold Jphase, settled, proc, result in H. cbn in H.
  destruct (k_state (k s)); cbn in H; cbn; intros E; try discriminate; intuition lia.
Qed.

Lemma J_held_no_result : k_state (k s) = CS_HOLD -> gL s = S (gR s) /\ gS s = gR s.
Proof.
  destruct HJ as (_ & _ & _ & _ & H). unfold Jphase, settled, proc, result in H. cbn in H.
  intro E. rewrite E in H. exact H.
Qed.

(* a result code is in flight exactly in the final flush *)
Lemma J_result_in_flight : gS s = S (gR s) ->
  (k_state (k s) = CS_FLUSH_WAIT \/ k_state (k s) = CS_FLUSH) /\ k_wafter (k s) = CS_AFTER_RESET.
Proof.
  destruct HJ as (_ & _ & _ & _ & H). unfold Jphase, settled, proc, result in H. cbn in H.
  intro E. destruct (k_state (k s)); cbn in H; try (exfalso; intuition lia).
  all: destruct H as [[Ha _]|[_ Hb]]; [auto | exfalso; unfold proc in Hb; cbn in Hb; lia].
Qed.
End Read.
