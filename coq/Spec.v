(* Spec.v — the specification side: what the properties say, written as small
   functions on unbounded integers and plain lists, independent of the machine.
   The theorems relate the model (Codec.v, Fsm.v) to these. *)
From Coq Require Import List NArith ZArith Bool Arith.
From CatV Require Import Bytes Defs Codec.
Import ListNotations.
Local Open Scope N_scope.

(* ---------- fields of an argument list ---------- *)
(* a field is the text up to (not including) its terminator: NUL or comma *)
Definition field_ok (f : list N) : bool := forallb (fun c => negb (is_term c)) f.

(* ---------- C04: numeric grammar and mathematical value ---------- *)
Fixpoint dec_value_go (acc : N) (l : list N) : N :=
  match l with
  | [] => acc
  | c :: r => dec_value_go (acc * 10 + (c - 48)) r
  end.
Definition dec_value (l : list N) : N := dec_value_go 0 l.

Fixpoint hex_value_go (acc : N) (l : list N) : N :=
  match l with
  | [] => acc
  | c :: r => hex_value_go (acc * 16 + hexval (to_upper c)) r
  end.

Definition nonempty {A} (l : list A) : bool := match l with [] => false | _ => true end.

Definition uint_grammar (f : list N) : bool := nonempty f && forallb is_dec f.

Definition int_grammar (f : list N) : bool :=
  match f with
  | [] => false
  | c :: r => if (c =? ch_MINUS) || (c =? ch_PLUS) then uint_grammar r else uint_grammar f
  end.
Definition int_value (f : list N) : Z :=
  match f with
  | [] => 0%Z
  | c :: r => if c =? ch_MINUS then (- Z.of_N (dec_value r))%Z
              else if c =? ch_PLUS then Z.of_N (dec_value r)
              else Z.of_N (dec_value f)
  end.

Definition hex_grammar (f : list N) : bool :=
  match f with
  | a :: b :: r => (a =? ch_0) && (to_upper b =? ch_X) && nonempty r
                   && forallb (fun c => is_hex (to_upper c)) r
  | _ => false
  end.
Definition hex_value (f : list N) : N := hex_value_go 0 (skipn 2 f).

(* does the text match the type's grammar and does its mathematical value fit
   the variable's width and signedness? *)
Definition num_accepts (v : var) (f : list N) : bool :=
  supported_width (v_size v) &&
  match v_type v with
  | VInt => int_grammar f &&
            let half := Z.of_N (two_pow8 (v_size v) / 2) in
            ((- half <=? int_value f) && (int_value f <=? half - 1))%Z
  | VUint => uint_grammar f && (dec_value f <? two_pow8 (v_size v))
  | VHex => hex_grammar f && (hex_value f <? two_pow8 (v_size v))
  | _ => false
  end.

(* the bytes a successful store leaves in the variable *)
Definition num_encode (v : var) (f : list N) : list N :=
  match v_type v with
  | VInt => le_bytes_signed (v_size v) (int_value f)
  | VUint => le_bytes (v_size v) (dec_value f)
  | VHex => le_bytes (v_size v) (hex_value f)
  | _ => []
  end.

(* the mathematical value stored in a numeric variable *)
Definition num_decode (v : var) (data : list N) : Z :=
  match v_type v with
  | VInt => le_value_signed (v_size v) data
  | _ => Z.of_N (le_value (firstn (v_size v) data))
  end.
Definition num_value (v : var) (f : list N) : Z :=
  match v_type v with
  | VInt => int_value f
  | VUint => Z.of_N (dec_value f)
  | _ => Z.of_N (hex_value f)
  end.

Definition is_numeric (t : vtype) : bool :=
  match t with VInt | VUint | VHex => true | _ => false end.

(* the text the automatic READ response prints for a numeric variable *)
Definition fmt_num_text (v : var) (data : list N) : option (list N) :=
  match v_type v with
  | VInt => fmt_int_text v data
  | VUint => fmt_uint_text v data
  | VHex => fmt_hex_text v data
  | _ => None
  end.

Definition bytes_ok (l : list N) : Prop := Forall (fun b => b < 256) l.

(* the complete text the automatic READ response prints for one variable *)
Definition var_text (v : var) (data : list N) : option (list N) :=
  match v_type v with
  | VBufHex => Some (concat (fmt_bufhex_pieces v data))
  | VBufStr => Some (concat (fmt_bufstr_pieces v data))
  | _ => fmt_num_text v data
  end.

(* ---------- C05: hex buffers and strings ---------- *)
Fixpoint hexbuf_decode (l : list N) : option (list N) :=
  match l with
  | [] => Some []
  | a :: r1 =>
    match r1 with
    | b :: r =>
      if is_hex (to_upper a) && is_hex (to_upper b) then
        match hexbuf_decode r with
        | Some bs => Some ((hexval (to_upper a) * 16 + hexval (to_upper b)) :: bs)
        | None => None
        end
      else None
    | [] => None
    end
  end.

Definition hexbuf_accepts (dsz : nat) (f : list N) : option (list N) :=
  match hexbuf_decode f with
  | Some bs => if nonempty bs && (length bs <=? dsz)%nat then Some bs else None
  | None => None
  end.

Definition unescape (e : N) : option N :=
  if e =? ch_BSL then Some ch_BSL
  else if e =? ch_QUOTE then Some ch_QUOTE
  else if e =? ch_n then Some ch_LF else None.

(* body of a quoted string: decoded bytes and the text after the closing quote *)
Fixpoint str_body (l : list N) : option (list N * list N) :=
  match l with
  | [] => None
  | c :: r =>
    if c =? 0 then None
    else if c =? ch_QUOTE then Some ([], r)
    else if c =? ch_BSL then
      match r with
      | e :: r' =>
        match unescape e, str_body r' with
        | Some d, Some (bs, rest) => Some (d :: bs, rest)
        | _, _ => None
        end
      | [] => None
      end
    else match str_body r with
         | Some (bs, rest) => Some (c :: bs, rest)
         | None => None
         end
  end.

(* a string argument at the head of l: decoded bytes, was the terminator a comma,
   number of characters consumed (including the terminator) *)
Definition str_decode (l : list N) : option (list N * bool * nat) :=
  match l with
  | q :: r =>
    if q =? ch_QUOTE then
      match str_body r with
      | Some (bs, t :: rest) =>
        if is_term t then Some (bs, t =? ch_COMMA, (length l - length rest)%nat) else None
      | _ => None
      end
    else None
  | [] => None
  end.

(* ---------- C02: name resolution ---------- *)
Definition upper (l : list N) : list N := map to_upper l.

Fixpoint list_eqb (a b : list N) : bool :=
  match a, b with
  | [], [] => true
  | x :: a', y :: b' => (x =? y) && list_eqb a' b'
  | _, _ => false
  end.

Fixpoint is_prefix (a b : list N) : bool :=       (* a is a prefix of b *)
  match a, b with
  | [], _ => true
  | x :: a', y :: b' => (x =? y) && is_prefix a' b'
  | _ :: _, [] => false
  end.

(* en i = command i is enabled; names are compared upper-cased *)
Fixpoint find_full (typed : list N) (en : nat -> bool) (cs : list cmd) (i : nat) : option nat :=
  match cs with
  | [] => None
  | c :: r => if en i && list_eqb (upper (c_name c)) typed then Some i
              else find_full typed en r (S i)
  end.

Fixpoint proper_prefix_of (typed : list N) (en : nat -> bool) (cs : list cmd) (i : nat) : list nat :=
  match cs with
  | [] => []
  | c :: r =>
    (if en i && is_prefix typed (upper (c_name c)) && (length typed <? length (c_name c))%nat
     then [i] else []) ++ proper_prefix_of typed en r (S i)
  end.

(* property C02: the first enabled command with that name, otherwise the unique enabled
   command of which the typed name is a proper prefix *)
Definition resolve (typed : list N) (en : nat -> bool) (cs : list cmd) : option nat :=
  match find_full typed en cs 0 with
  | Some i => Some i
  | None => match proper_prefix_of typed en cs 0 with
            | [i] => Some i
            | _ => None
            end
  end.

(* ---------- C19: texts derived from the descriptor ---------- *)
Definition join_comma (l : list (list N)) : list N :=
  match l with
  | [] => []
  | x :: r => x ++ concat (map (fun y => ch_COMMA :: y) r)
  end.

Definition var_info_text (v : var) : option (list N) :=
  match type_name (v_type v) (v_size v) with
  | None => None
  | Some tn => Some (concat (info_pieces v tn))
  end.

Fixpoint all_some {A} (l : list (option A)) : option (list A) :=
  match l with
  | [] => Some []
  | Some x :: r => match all_some r with Some xs => Some (x :: xs) | None => None end
  | None :: _ => None
  end.

(* the text of the automatic '=?' response, nl = the newline of this line *)
Definition spec_test_text (c : cmd) (nl : list N) : option (list N) :=
  match all_some (map var_info_text (c_vars c)) with
  | None => None
  | Some infos =>
    Some (c_name c ++ [ch_EQ] ++ join_comma infos ++
          match c_descr c with Some d => nl ++ d | None => [] end)
  end.

(* which request forms the dispatcher serves (C09/C19) *)
Inductive form := F_RUN | F_READ | F_WRITE | F_TEST.

Definition readable (c : cmd) : bool :=
  existsb (fun v => vaccess_beq (v_access v) RW || vaccess_beq (v_access v) RO) (c_vars c).
Definition writable (c : cmd) : bool :=
  existsb (fun v => vaccess_beq (v_access v) RW || vaccess_beq (v_access v) WO) (c_vars c).

Definition dispatch_accepts (c : cmd) (f : form) : bool :=
  match f with
  | F_TEST => (c_htest c || nonempty (c_vars c)) && negb (c_implicit c)
  | F_RUN => negb (c_only_test c) && c_hrun c
  | F_READ => negb (c_only_test c) && (c_hread c || readable c)
  | F_WRITE => negb (c_only_test c) && (c_hwrite c || writable c)
  end.

(* which forms the command list prints for an enabled command *)
Definition advertised (c : cmd) (f : form) : bool :=
  match f with
  | F_TEST => c_htest c || nonempty (c_vars c)
  | F_RUN => negb (c_only_test c) && c_hrun c
  | F_READ => negb (c_only_test c) && (c_hread c || readable c)
  | F_WRITE => negb (c_only_test c) && (c_hwrite c || writable c)
  end.
