(* Properties_C19e.v — property C19, end to end: a line  AT<name> LF  whose run handler answers
   RC_PRINT_CMD_LIST_OK, fed through the scripted always-ready environment of Script.v (event machine idle
   with an empty queue, no mutex), makes the machine call that handler once, print exactly the
   specification's command list (every line shorter than the buffer) followed by LF OK LF, and return to
   CS_IDLE with the rest of the input untouched.  Proofs: Lemmas_E2Eb.v (part II). *)
From Coq Require Import List NArith ZArith Bool Arith.
From CatV Require Import Bytes Defs Codec Spec Fsm Script ResolveDefs SchedDefs GlueDefs TextDefs.
From CatV Require Lemmas_E2E Lemmas_E2Eb.
Import ListNotations.
Local Open Scope nat_scope.

Local Notation wst := (Fsm.st sio smu shs).
Local Notation wio := (Fsm.io sio smu shs).
Local Notation whs := (Fsm.hs sio smu shs).
Local Notation wtr := (Fsm.tr sio smu shs).

Theorem E2E_list_line : forall D s name rest h h' i c r0,
  d_mutex D = false -> 0 < ncmds D -> ncmds D <= 4 * length (cbuf s) -> 6 <= length (cbuf s) ->
  fault s = false ->
  k_state (k s) = CS_IDLE -> k_cr (k s) = false -> k_implicit (k s) = false -> k_hold (k s) = false ->
  u_state (u s) = US_IDLE -> u_count (u s) = 0 ->
  name_ok name = true -> implicit_hit D s (upper name) = false ->
  resolve (upper name) (enabled D s) (cmds D) = Some i -> nth_error (cmds D) i = Some c ->
  c_hrun c = true -> c_only_test c = false ->
  s_call h (HRun i) = (h', r0) -> r_code r0 = RC_PRINT_CMD_LIST_OK -> r_edit r0 = None ->
  r_pokes r0 = [] -> r_calls r0 = [] ->
  (forall c', In c' (cmds D) -> ~ In 0%N (c_name c')) ->
  let lines := spec_cmd_list D (enabled D s) [ch_LF] in
  forallb (fun l => length l <? length (cbuf s)) lines = true ->
  let w0 := mkw s ([ch_A; ch_T] ++ name ++ [ch_LF] ++ rest) h [] in
  exists calls, let w := nsvc D calls w0 in
    k_state (k (wst w)) = CS_IDLE /\ inq (wio w) = rest /\ whs w = h' /\
    calls_of (wtr w) = [(HRun i, RC_PRINT_CMD_LIST_OK)] /\
    mem (wst w) = mem s /\ fault (wst w) = false /\
    output_of (wtr w) = concat lines ++ [ch_LF] ++ txt_OK ++ [ch_LF].
Proof. exact Lemmas_E2Eb.E2E_list_line_proof. Qed.
Print Assumptions E2E_list_line.

(* the instance of Lemmas_E2E.E2E_examples: "AT+xy" LF then byte 7; the run handler of "+XY" (command 1)
   answers RC_PRINT_CMD_LIST_OK.  After 72 service calls: idle, byte 7 still queued, one handler call,
   LF "AT+X?" LF  "AT+X=" LF  "AT+X=?" LF  LF "AT+XY" LF  LF "OK" LF  on the output, variables untouched,
   one line / one started and one finished result code counted. *)
Example E2E_list_line_example :
  Lemmas_E2Eb.E2Ec_example.go_list 72 =
  (CS_IDLE, [7%N], Lemmas_E2Eb.E2Ec_example.hh', [(HRun 1, RC_PRINT_CMD_LIST_OK)],
   [10; 65; 84; 43; 88; 63; 10;  65; 84; 43; 88; 61; 10;  65; 84; 43; 88; 61; 63; 10;
    10; 65; 84; 43; 88; 89; 10;  10; 79; 75; 10]%N,
   Lemmas_E2E.E2E_examples.m0, false, (1, 1, 1)).
Proof. vm_compute. reflexivity. Qed.
