(* Properties_C14w.v — property C14, the multi-call theorems (complements Properties_C14.v, whose theorems
   are about one step).
     I.   the hold WINDOW, for arbitrary oracles and ANY operation list: from a held command machine with
          no release request recorded, as long as the trace shows no release event, nothing of the command
          machine changes over any number of calls (service calls, triggers, queries, refused
          cat_hold_exit), no read is attempted, no byte of the command machine is written, only handlers of
          the event machine run, cat_service answers BUSY and cat_is_hold answers HOLD.  No hypothesis on
          the oracles is needed (an event-side handler answering HOLD during a hold changes nothing).
     II.  release requests at the API level, with and without a mutex: refused outside a hold with no
          effect; several requests before the machine acts: all accepted, the last one is recorded.
     III. events are delivered during a hold (scripted world, end to end).
     IV.  the release, end to end (scripted world): exactly one result code matching the status, no input
          consumed, parsing resumes with the next line.
   Proofs: Lemmas_C14w.v. *)
From Coq Require Import List NArith ZArith Bool Arith.
From CatV Require Import Bytes Defs Codec Spec Fsm Script ResolveDefs SchedDefs GlueDefs TextDefs.
From CatV Require Import SkelSim.
From CatV Require Lemmas_C02e Lemmas_C07e Lemmas_C13 Lemmas_E2E Lemmas_E2Eb.
From CatV Require Import Lemmas_C14w.
Import ListNotations.
Local Open Scope nat_scope.

(* ---------- the definitions used in the statements (they live in Lemmas_C14w.v; spelled out here) ---------- *)
(* requests issued by the event machine *)
Example ev_req_def : ev_req = fun q =>
  match q with
  | HRead UNSOL _ _ _ _ | HTest UNSOL _ _ _ _ | VRead UNSOL _ _ => true
  | _ => false
  end.
Proof. reflexivity. Qed.

(* a trace event that shows an accepted release request: cat_hold_exit answered OK (as an operation or
   from inside a handler), or an event-side read/test handler answered HOLD_EXIT_OK / HOLD_EXIT_ERROR.
   A cat_hold_exit whose unlock failed (ST_MUTEX_UNLOCK) HAS recorded the request, see the example
   window_needs_unlock_case below. *)
Example release_ev_def : release_ev = fun e =>
  match e with
  | ERet (OHoldExit _) r | EInner (IHoldExit _) r => (r =? ST_OK)%Z || (r =? ST_MUTEX_UNLOCK)%Z
  | ECall q c => unsol_req q && ((c =? RC_HOLD_EXIT_OK)%Z || (c =? RC_HOLD_EXIT_ERROR)%Z)
  | _ => false
  end.
Proof. reflexivity. Qed.

(* the same without the unlock case: exact when no mutex is configured *)
Example release_ev0_def : release_ev0 = fun e =>
  match e with
  | ERet (OHoldExit _) r | EInner (IHoldExit _) r => (r =? ST_OK)%Z
  | ECall q c => unsol_req q && ((c =? RC_HOLD_EXIT_OK)%Z || (c =? RC_HOLD_EXIT_ERROR)%Z)
  | _ => false
  end.
Proof. reflexivity. Qed.

Example hx_sign_def : hx_sign = fun status => if (status =? ST_OK)%Z then 1%Z else (-1)%Z.
Proof. reflexivity. Qed.

(* ====================================================================================== *)
(* I. the hold window                                                                      *)
(* ====================================================================================== *)
Section Window.
Variable D : desc.
Variables ioS muS hS : Type.
Variable io_read : ioS -> ioS * option N.
Variable io_write : ioS -> N -> ioS * bool.
Variable mu_lock : muS -> muS * bool.
Variable mu_unlock : muS -> muS * bool.
Variable h_call : hS -> hreq -> hS * hres.
Notation st := (Fsm.st ioS muS hS).
Notation tr := (Fsm.tr ioS muS hS).
Notation run := (Fsm.run D ioS muS hS io_read io_write mu_lock mu_unlock h_call).

Theorem C14_hold_window : forall w0 ops evs,
  k_state (k (st w0)) = CS_HOLD -> k_hold (k (st w0)) = true -> k_hold_exit (k (st w0)) = 0%Z ->
  tr (run w0 ops) = evs ++ tr w0 -> existsb release_ev evs = false ->
  let s := st (run w0 ops) in
  (* the command machine's record (state, flags, cursor, selected command, ...), its buffer and the three
     ghost counters are what they were: still CS_HOLD, still held, no request, no result code started *)
  k s = k (st w0) /\ cbuf s = cbuf (st w0) /\
  gL s = gL (st w0) /\ gS s = gS (st w0) /\ gR s = gR (st w0) /\
  (* no read was even attempted, no byte of the command machine was written *)
  (forall r, ~ In (ERd r) evs) /\
  (forall ch ok, ~ In (EWr ATCMD ch ok) evs) /\
  (* the only callbacks are those of the event machine *)
  (forall q c, In (ECall q c) evs -> ev_req q = true) /\
  (* cat_service / cat_is_busy answered BUSY, cat_is_hold answered HOLD (or a mutex error) *)
  (forall r, In (ERet OService r) evs -> r = ST_BUSY \/ r = ST_MUTEX_LOCK \/ r = ST_MUTEX_UNLOCK) /\
  (forall r, In (ERet OIsBusy r) evs -> r = ST_BUSY \/ r = ST_MUTEX_LOCK \/ r = ST_MUTEX_UNLOCK) /\
  (forall r, In (ERet OIsHold r) evs -> r = ST_HOLD \/ r = ST_MUTEX_LOCK \/ r = ST_MUTEX_UNLOCK).
Proof. exact (C14_hold_window_proof D ioS muS hS io_read io_write mu_lock mu_unlock h_call). Qed.

(* without a mutex, with the release events exactly as proposed by the reviewer; the answers are exact *)
Theorem C14_hold_window_nomutex : forall w0 ops evs, d_mutex D = false ->
  k_state (k (st w0)) = CS_HOLD -> k_hold (k (st w0)) = true -> k_hold_exit (k (st w0)) = 0%Z ->
  tr (run w0 ops) = evs ++ tr w0 -> existsb release_ev0 evs = false ->
  let s := st (run w0 ops) in
  k s = k (st w0) /\ cbuf s = cbuf (st w0) /\
  gL s = gL (st w0) /\ gS s = gS (st w0) /\ gR s = gR (st w0) /\
  (forall r, ~ In (ERd r) evs) /\
  (forall ch ok, ~ In (EWr ATCMD ch ok) evs) /\
  (forall q c, In (ECall q c) evs -> ev_req q = true) /\
  (forall r, In (ERet OService r) evs -> r = ST_BUSY) /\
  (forall r, In (ERet OIsBusy r) evs -> r = ST_BUSY) /\
  (forall r, In (ERet OIsHold r) evs -> r = ST_HOLD).
Proof. exact (C14_hold_window_nomutex_proof D ioS muS hS io_read io_write mu_lock mu_unlock h_call). Qed.

(* the trace premise can always be instantiated: a run only extends the trace *)
Theorem C14_run_trace_extends : forall w0 ops, exists evs, tr (run w0 ops) = evs ++ tr w0.
Proof. exact (run_trace_extends_proof D ioS muS hS io_read io_write mu_lock mu_unlock h_call). Qed.
End Window.
Print Assumptions C14_hold_window.
Print Assumptions C14_hold_window_nomutex.
Print Assumptions C14_run_trace_extends.

(* ====================================================================================== *)
(* II. release requests at the API level                                                   *)
(* ====================================================================================== *)
Section Api.
Variable D : desc.
Variables ioS muS hS : Type.
Variable io_read : ioS -> ioS * option N.
Variable io_write : ioS -> N -> ioS * bool.
Variable mu_lock : muS -> muS * bool.
Variable mu_unlock : muS -> muS * bool.
Variable h_call : hS -> hreq -> hS * hres.
Notation st := (Fsm.st ioS muS hS).
Notation io := (Fsm.io ioS muS hS).
Notation hs := (Fsm.hs ioS muS hS).
Notation tr := (Fsm.tr ioS muS hS).
Notation logw := (Fsm.logw ioS muS hS).
Notation api_hold_exit := (Fsm.api_hold_exit D ioS muS hS mu_lock mu_unlock).
Notation apply_icall := (Fsm.apply_icall D ioS muS hS mu_lock mu_unlock).
Notation step := (Fsm.step D ioS muS hS io_read io_write mu_lock mu_unlock h_call).
Notation run := (Fsm.run D ioS muS hS io_read io_write mu_lock mu_unlock h_call).

(* cat_hold_exit outside a hold, whatever the mutex does: the object, the io state and the handlers' state
   are untouched, the answer is ERROR_NOT_HOLD or a mutex error, never OK; without a mutex the world is
   returned exactly as it was *)
Theorem C14_spurious_release : forall w status, k_hold (k (st w)) = false ->
  let x := api_hold_exit w status in
  st (fst x) = st w /\ io (fst x) = io w /\ hs (fst x) = hs w /\
  (snd x = ST_NOT_HOLD \/ d_mutex D = true /\ (snd x = ST_MUTEX_LOCK \/ snd x = ST_MUTEX_UNLOCK)) /\
  (d_mutex D = false -> x = (w, ST_NOT_HOLD)).
Proof. exact (spurious_release_proof D ioS muS hS mu_lock mu_unlock). Qed.

(* as an operation and as a call made from inside a handler (no mutex): only the record of the refused
   call is added to the trace *)
Theorem C14_spurious_release_op : forall w status, d_mutex D = false -> k_hold (k (st w)) = false ->
  step w (OHoldExit status) = logw (ERet (OHoldExit status) ST_NOT_HOLD) w /\
  apply_icall w (IHoldExit status) = logw (EInner (IHoldExit status) ST_NOT_HOLD) w.
Proof. exact (spurious_release_op_proof D ioS muS hS io_read io_write mu_lock mu_unlock h_call). Qed.

(* several requests before the command machine acts on them (no service call in between): every one is
   answered OK and the LAST one is the one recorded; E2E_hold_exit_release below (k_hold_exit arbitrary
   before the request) then gives the result code of the last request.  After the machine has acted
   k_hold is false and C14_spurious_release applies: later requests are refused without effect. *)
Theorem C14_last_request_wins : forall l w b, d_mutex D = false -> k_hold (k (st w)) = true ->
  let w' := run w (map OHoldExit (l ++ [b])) in
  st w' = setk_hold_exit (hx_sign b) (st w) /\ io w' = io w /\ hs w' = hs w /\
  tr w' = rev (map (fun a => ERet (OHoldExit a) ST_OK) (l ++ [b])) ++ tr w.
Proof. exact (last_request_wins_proof D ioS muS hS io_read io_write mu_lock mu_unlock h_call). Qed.
End Api.
Print Assumptions C14_spurious_release.
Print Assumptions C14_spurious_release_op.
Print Assumptions C14_last_request_wins.

(* ====================================================================================== *)
(* III. events are delivered during a hold (scripted always-ready world, no mutex)          *)
(* ====================================================================================== *)
Local Notation wst := (Fsm.st sio smu shs).
Local Notation wio := (Fsm.io sio smu shs).
Local Notation whs := (Fsm.hs sio smu shs).
Local Notation wtr := (Fsm.tr sio smu shs).

(* E2E_event_line (Properties_C13e.v) with the command machine HELD instead of idle, ARBITRARY input q
   pending and either newline convention: the application triggers a READ event; repeated cat_service calls
   emit exactly the event's unit, every call answers BUSY, no read is attempted, nothing is consumed and the
   command machine's record and buffer are exactly what they were *)
Theorem E2E_event_line_held : forall D s q h ci c args,
  d_mutex D = false -> Lemmas_C13.ring_wf D s -> fault s = false ->
  k_state (k s) = CS_HOLD -> k_hold (k s) = true -> k_hold_exit (k s) = 0%Z ->
  u_state (u s) = US_IDLE -> u_count (u s) = 0 ->
  cmd_at D ci = Some c -> Lemmas_C07e.rt_cmd_ok (mem s) c ->
  Lemmas_C07e.read_args_text (mem s) c = Some args ->
  length (c_name c ++ [ch_EQ] ++ args) < length (ubuf s) ->
  let nl := nl_chars s in
  let w0 := mkw s q h [] in
  let (w1, r) := do_op D sio smu shs s_read s_write s_lock s_unlock s_call w0 (OTrigger ci T_READ) in
  r = ST_OK /\
  exists calls, let w := nsvc D calls w1 in
    u_state (u (wst w)) = US_IDLE /\ u_count (u (wst w)) = 0 /\ u_cmd (u (wst w)) = None /\
    k (wst w) = k s /\ cbuf (wst w) = cbuf s /\ inq (wio w) = q /\ (forall r, ~ In (ERd r) (wtr w)) /\
    whs w = h /\ calls_of (wtr w) = [] /\ mem (wst w) = mem s /\ fault (wst w) = false /\
    output_of (wtr w) = nl ++ c_name c ++ [ch_EQ] ++ args ++ nl /\
    gL (wst w) = gL s /\ gS (wst w) = gS s /\ gR (wst w) = gR s /\
    (forall r, In (ERet OService r) (wtr w) -> r = ST_BUSY) /\
    snd (do_op D sio smu shs s_read s_write s_lock s_unlock s_call w OService) = ST_BUSY.
Proof. exact Lemmas_C14w.E2E_event_line_held_proof. Qed.
Print Assumptions E2E_event_line_held.

(* ====================================================================================== *)
(* IV. the release, end to end (scripted always-ready world, no mutex)                      *)
(* ====================================================================================== *)
(* a recorded request z <> 0 (sign convention of process_hold_state: negative = ERROR, positive = OK):
   repeated cat_service calls emit newline, the result code, newline; one result code is started and
   completed (gS and gR each + 1); the pending input q is untouched and no handler is called; the command
   machine is back in CS_IDLE, not held, ready for the next line *)
Theorem E2E_release : forall D s q h z,
  d_mutex D = false ->
  k_state (k s) = CS_HOLD -> k_hold (k s) = true -> k_hold_exit (k s) = z -> z <> 0%Z ->
  Lemmas_C02e.idle s -> 6 <= length (cbuf s) ->
  let nl := nl_chars s in
  exists calls, let w := nsvc D calls (mkw s q h []) in
    k_state (k (wst w)) = CS_IDLE /\ k_hold (k (wst w)) = false /\ k_cr (k (wst w)) = false /\
    k_cmd (k (wst w)) = None /\
    inq (wio w) = q /\ whs w = h /\ calls_of (wtr w) = [] /\
    output_of (wtr w) = nl ++ (if (z <? 0)%Z then txt_ERROR else txt_OK) ++ nl /\
    gS (wst w) = S (gS s) /\ gR (wst w) = S (gR s) /\ gL (wst w) = gL s /\
    mem (wst w) = mem s /\ fault (wst w) = fault s /\ u (wst w) = u s.
Proof. exact Lemmas_C14w.E2E_release_proof. Qed.
Print Assumptions E2E_release.

(* composed: cat_hold_exit(status) on a held parser (whatever request was recorded before), then
   cat_service repeatedly: the request is accepted, exactly one result code matching status is emitted,
   and a further release request is refused without effect *)
Theorem E2E_hold_exit_release : forall D s q h status,
  d_mutex D = false ->
  k_state (k s) = CS_HOLD -> k_hold (k s) = true ->
  Lemmas_C02e.idle s -> 6 <= length (cbuf s) ->
  let nl := nl_chars s in
  let (w1, r) := do_op D sio smu shs s_read s_write s_lock s_unlock s_call (mkw s q h []) (OHoldExit status) in
  r = ST_OK /\
  exists calls, let w := nsvc D calls w1 in
    (k_state (k (wst w)) = CS_IDLE /\ k_hold (k (wst w)) = false /\ k_cr (k (wst w)) = false /\
     k_cmd (k (wst w)) = None /\
     inq (wio w) = q /\ whs w = h /\ calls_of (wtr w) = [] /\
     output_of (wtr w) = nl ++ (if (status =? ST_OK)%Z then txt_OK else txt_ERROR) ++ nl /\
     gS (wst w) = S (gS s) /\ gR (wst w) = S (gR s) /\ gL (wst w) = gL s /\
     mem (wst w) = mem s /\ fault (wst w) = fault s /\ u (wst w) = u s) /\
    do_op D sio smu shs s_read s_write s_lock s_unlock s_call w (OHoldExit status) = (w, ST_NOT_HOLD).
Proof. exact Lemmas_C14w.E2E_hold_exit_release_proof. Qed.
Print Assumptions E2E_hold_exit_release.

(* ====================================================================================== *)
(* Non-vacuity                                                                             *)
(* ====================================================================================== *)
Module Ex := Lemmas_C14w.C14w_examples.

(* One scripted run (no mutex; commands +X with four read-write variables and +W with a write handler
   whose script answers HOLD; input  AT+W=1 LF AT LF ):
   wA  a release request before anything: refused with ERROR_NOT_HOLD, nothing else happens;
   wH  15 service calls later the write handler has answered HOLD (code 4): CS_HOLD, the second line is
       still queued, no result code;
   wW  the window: cat_is_hold, an event, 33 service calls, queries, two more events queued together, 70
       service calls, cat_is_hold — 183 trace events, none of them a release;
   wR  cat_hold_exit(0) accepted; 10 service calls give exactly one OK for +W; 15 more parse the second
       line, which gets its own OK. *)
Example scenario_spurious_before :
  wtr Ex.wA = [ERet (OHoldExit 0) ST_NOT_HOLD] /\ wst Ex.wA = wst Ex.wI.
Proof. vm_compute. split; reflexivity. Qed.

Example scenario_hold_entered :
  Ex.obs Ex.wH = (CS_HOLD, true, [65; 84; 10]%N, [(HWrite 1 [49; 0]%N 1 0, RC_HOLD)], 0, 0) /\
  k_hold_exit (k (wst Ex.wH)) = 0%Z /\ output_of (wtr Ex.wH) = [].
Proof. vm_compute. repeat split; reflexivity. Qed.

(* the premises of C14_hold_window hold for  w0 := wH, ops := win_ops, evs := win_evs *)
Example window_premises :
  k_state (k (wst Ex.wH)) = CS_HOLD /\ k_hold (k (wst Ex.wH)) = true /\ k_hold_exit (k (wst Ex.wH)) = 0%Z /\
  wtr (Ex.srunD Ex.wH Ex.win_ops) = Ex.win_evs ++ wtr Ex.wH /\
  existsb release_ev Ex.win_evs = false /\ existsb release_ev0 Ex.win_evs = false /\
  length Ex.win_evs = 183 /\ length Ex.win_ops = 111.
Proof. vm_compute. repeat split; reflexivity. Qed.

(* ... and its conclusion, by the theorem *)
Example window_instance :
  let s := wst (Fsm.run Ex.D2 sio smu shs s_read s_write s_lock s_unlock s_call Ex.wH Ex.win_ops) in
  k s = k (wst Ex.wH) /\ cbuf s = cbuf (wst Ex.wH) /\ gS s = gS (wst Ex.wH) /\
  (forall r, ~ In (ERd r) Ex.win_evs) /\ (forall ch ok, ~ In (EWr ATCMD ch ok) Ex.win_evs).
Proof.
  destruct window_premises as (A & B & C & T & R & _).
  destruct (C14_hold_window Ex.D2 sio smu shs s_read s_write s_lock s_unlock s_call
              Ex.wH Ex.win_ops Ex.win_evs A B C T R) as (H1 & H2 & _ & H4 & _ & H6 & H7 & _).
  exact (conj H1 (conj H2 (conj H4 (conj H6 H7)))).
Qed.

(* what happened in the window, by computation: three event units were written, nothing else; no read,
   no byte of the command machine; the queued line is untouched; no new handler call *)
Example window_observed :
  output_of (wtr Ex.wW) = Ex.unitX ++ Ex.unitX ++ Ex.unitX /\
  Ex.obs Ex.wW = Ex.obs Ex.wH /\
  Ex.count_ev Ex.is_rd Ex.win_evs = 0 /\ Ex.count_ev Ex.is_wr_cmd Ex.win_evs = 0 /\
  u_state (u (wst Ex.wW)) = US_IDLE /\ u_count (u (wst Ex.wW)) = 0.
Proof. vm_compute. repeat split; reflexivity. Qed.

(* the release: accepted; after 10 calls one OK, the second line still queued; after 25 calls the second
   line has been parsed and answered; gS = gR = number of result codes *)
Example scenario_release :
  wtr Ex.wR = ERet (OHoldExit 0) ST_OK :: wtr Ex.wW /\
  output_of (wtr (Ex.srunD Ex.wR (repeat OService 10))) =
    Ex.unitX ++ Ex.unitX ++ Ex.unitX ++ [ch_LF] ++ txt_OK ++ [ch_LF] /\
  Ex.obs (Ex.srunD Ex.wR (repeat OService 10)) =
    (CS_IDLE, false, [65; 84; 10]%N, [(HWrite 1 [49; 0]%N 1 0, RC_HOLD)], 1, 1) /\
  output_of (wtr (Ex.srunD Ex.wR (repeat OService 25))) =
    Ex.unitX ++ Ex.unitX ++ Ex.unitX ++ [ch_LF] ++ txt_OK ++ [ch_LF] ++ [ch_LF] ++ txt_OK ++ [ch_LF] /\
  Ex.obs (Ex.srunD Ex.wR (repeat OService 25)) =
    (CS_IDLE, false, [], [(HWrite 1 [49; 0]%N 1 0, RC_HOLD)], 2, 2).
Proof. vm_compute. repeat split; reflexivity. Qed.

(* Why release_ev has the ST_MUTEX_UNLOCK case: with a mutex whose unlock fails, cat_hold_exit on a held
   parser answers ST_MUTEX_UNLOCK although its body ran; the reviewer's release_ev0 sees no release in the
   trace, yet the request is recorded (k_hold_exit = 1): C14_hold_window stated with release_ev0 and a
   mutex would be false. *)
Example window_needs_unlock_case :
  k_state (k (wst Ex.wM)) = CS_HOLD /\ k_hold (k (wst Ex.wM)) = true /\ k_hold_exit (k (wst Ex.wM)) = 0%Z /\
  wtr Ex.wM' = [ERet (OHoldExit 0) ST_MUTEX_UNLOCK; EUnlock false; ELock true] ++ wtr Ex.wM /\
  existsb release_ev0 [ERet (OHoldExit 0) ST_MUTEX_UNLOCK; EUnlock false; ELock true] = false /\
  existsb release_ev [ERet (OHoldExit 0) ST_MUTEX_UNLOCK; EUnlock false; ELock true] = true /\
  k_hold_exit (k (wst Ex.wM')) = 1%Z.
Proof. vm_compute. repeat split; reflexivity. Qed.

(* a REFUSED cat_hold_exit inside the window (mutex configured, its lock fails): not a release event, the
   window theorem applies to the whole run, cat_is_hold answers HOLD and cat_service BUSY afterwards *)
Example window_refused_release :
  let w0 := mkWorld sio smu shs (wst Ex.wM) (mkSio [] [] []) (mkSmu [false] []) [] [] in
  let w1 := Fsm.run Ex.Dm sio smu shs s_read s_write s_lock s_unlock s_call w0 [OHoldExit 0; OIsHold; OService] in
  wtr w1 = [ERet OService ST_BUSY; EUnlock true; ELock true; ERet OIsHold ST_HOLD; EUnlock true; ELock true;
            ERet (OHoldExit 0) ST_MUTEX_LOCK; ELock false] ++ wtr w0 /\
  existsb release_ev (wtr w1) = false /\ k_hold_exit (k (wst w1)) = 0%Z /\ k_state (k (wst w1)) = CS_HOLD.
Proof. vm_compute. repeat split; reflexivity. Qed.

(* III: the instance of Properties_C13e.v (command +X, 40-byte event buffer) with the command machine held
   and  A T LF  pending.  Components of the observation: trigger status; event machine (state, queue length,
   current command); command machine (state, hold flag, request, cr flag); (pending input, no read event in
   the trace, every cat_service answered BUSY); handler scripts; handler calls; output; variables; fault;
   (gL, gS, gR); answer of one more cat_service call.  33 calls with LF newlines, 35 with CR LF. *)
Module HEx := Lemmas_C14w.hev_examples.
Example event_during_hold_lf :
  HEx.go HEx.sH 33 =
  (ST_OK,
   (US_IDLE, 0, None, (CS_HOLD, true, 0%Z, false), (HEx.qAT, true, true), [], [],
    [ch_LF] ++ [43; 88; 61]%N ++ Lemmas_E2E.E2E_examples.args0 ++ [ch_LF],
    Lemmas_E2E.E2E_examples.m0, false, (0, 0, 0), ST_BUSY)).
Proof. vm_compute. reflexivity. Qed.

Example event_during_hold_crlf :
  HEx.go HEx.sHc 35 =
  (ST_OK,
   (US_IDLE, 0, None, (CS_HOLD, true, 0%Z, true), (HEx.qAT, true, true), [], [],
    [ch_CR; ch_LF] ++ [43; 88; 61]%N ++ Lemmas_E2E.E2E_examples.args0 ++ [ch_CR; ch_LF],
    Lemmas_E2E.E2E_examples.m0, false, (0, 0, 0), ST_BUSY)).
Proof. vm_compute. reflexivity. Qed.

(* all hypotheses of E2E_event_line_held are satisfied by both states *)
Example event_during_hold_hyps : forall s, s = HEx.sH \/ s = HEx.sHc ->
  d_mutex Lemmas_E2Eb.E2Eb_examples.D1 = false /\ Lemmas_C13.ring_wf Lemmas_E2Eb.E2Eb_examples.D1 s /\
  fault s = false /\
  k_state (k s) = CS_HOLD /\ k_hold (k s) = true /\ k_hold_exit (k s) = 0%Z /\
  u_state (u s) = US_IDLE /\ u_count (u s) = 0 /\
  cmd_at Lemmas_E2Eb.E2Eb_examples.D1 0 = Some Lemmas_E2E.E2E_examples.c0 /\
  Lemmas_C07e.rt_cmd_ok (mem s) Lemmas_E2E.E2E_examples.c0 /\
  Lemmas_C07e.read_args_text (mem s) Lemmas_E2E.E2E_examples.c0 = Some Lemmas_E2E.E2E_examples.args0 /\
  length (c_name Lemmas_E2E.E2E_examples.c0 ++ [ch_EQ] ++ Lemmas_E2E.E2E_examples.args0) < length (ubuf s).
Proof. exact HEx.hev_ex_hyps. Qed.

(* IV: the parser of Lemmas_E2E.E2E_examples held, A T LF pending.  Observation: status of cat_hold_exit,
   (state, hold flag, pending input, output, gS, gR) after the given number of cat_service calls. *)
Module REx := Lemmas_C14w.rel_examples.
Example release_hyps : REx.rel_hyps REx.sH = true /\ REx.rel_hyps REx.sH1 = true.
Proof. vm_compute. split; reflexivity. Qed.
(* held, no request: 25 calls change nothing *)
Example release_waits : REx.rel_obs (nsvc Lemmas_E2E.E2E_examples.D0 25 (mkw REx.sH REx.pend [] [])) =
  (CS_HOLD, true, REx.pend, [], 0, 0).
Proof. vm_compute. reflexivity. Qed.
Example release_ok : REx.rel_go REx.sH ST_OK 10 =
  (ST_OK, (CS_IDLE, false, REx.pend, [ch_LF; 79; 75; ch_LF]%N, 1, 1)).
Proof. vm_compute. reflexivity. Qed.
Example release_error : REx.rel_go REx.sH ST_ERROR 13 =
  (ST_OK, (CS_IDLE, false, REx.pend, [ch_LF; 69; 82; 82; 79; 82; ch_LF]%N, 1, 1)).
Proof. vm_compute. reflexivity. Qed.
(* the held line had ended with CR LF *)
Example release_ok_crlf : REx.rel_go REx.sH1 ST_OK 12 =
  (ST_OK, (CS_IDLE, false, REx.pend, [ch_CR; ch_LF; 79; 75; ch_CR; ch_LF]%N, 1, 1)).
Proof. vm_compute. reflexivity. Qed.
(* requests ST_ERROR then ST_OK before any service call: both accepted, the last one decides *)
Example release_last_wins :
  let w1 := Fsm.run Lemmas_E2E.E2E_examples.D0 sio smu shs s_read s_write s_lock s_unlock s_call
              (mkw REx.sH REx.pend [] []) [OHoldExit ST_ERROR; OHoldExit ST_OK] in
  wtr w1 = [ERet (OHoldExit ST_OK) ST_OK; ERet (OHoldExit ST_ERROR) ST_OK] /\
  REx.rel_obs (nsvc Lemmas_E2E.E2E_examples.D0 10 w1) =
    (CS_IDLE, false, REx.pend, [ch_LF; 79; 75; ch_LF]%N, 1, 1).
Proof. vm_compute. split; reflexivity. Qed.
