(* Properties_C18s.v — property C18, trace-level corollary of the whole-stream theorem of C11
   (Properties_C11s.v): at any point of any history from cat_init where cat_is_busy answers OK, the
   accepted output so far is a concatenation of COMPLETE units — every unit ever started has been
   sent to its last byte, each is a whole unit (newline ++ text ++ newline, or the bare text of a list
   line), nothing is in flight.  Arbitrary oracles and descriptor; D3 (no_uhold) only.
   Proofs are in Lemmas_C11s.v. *)
From Coq Require Import List NArith ZArith Bool Arith.
From CatV Require Import Bytes Defs Codec Fsm Script ResolveDefs TextDefs TraceDefs Skel SkelSim Lemmas_C11 Lemmas_C11s.
Import ListNotations.
Local Open Scope nat_scope.

(* definitions (Lemmas_C11s.v; see Properties_C11s.v for all of them restated) *)
Example def_unit_bytes : forall x cr,
  unit_bytes x cr = map (pair (fst x)) (match fst x with ATCMD => snd x | UNSOL => snd x ++ nl_text cr end).
Proof. reflexivity. Qed.
Example def_stream : forall units crs,
  stream units crs = concat (map (fun p => unit_bytes (fst p) (snd p)) (combine units crs)).
Proof. reflexivity. Qed.
Example def_whole_unit : forall x,
  whole_unit x =
  match fst x with
  | ATCMD => remaining (snd x) =
               nl_text (k_cr (k (snd x))) ++ text_of (cbuf (snd x)) ++ nl_text (k_cr (k (snd x))) \/
             remaining (snd x) = text_of (cbuf (snd x))
  | UNSOL => exists cr, remaining_u (snd x) = nl_text cr ++ text_of (ubuf (snd x))
  end.
Proof. reflexivity. Qed.

Section C18s.
Variable D : desc.
Variables ioS muS hS : Type.
Variable io_read : ioS -> ioS * option N.
Variable io_write : ioS -> N -> ioS * bool.
Variable mu_lock : muS -> muS * bool.
Variable mu_unlock : muS -> muS * bool.
Variable h_call : hS -> hreq -> hS * hres.
Hypothesis no_uhold : forall hs q, unsol_req q = true -> r_code (snd (h_call hs q)) <> RC_HOLD.

Notation world := (Fsm.world ioS muS hS).
Notation st := (Fsm.st ioS muS hS).
Notation hist := (TraceDefs.hist ioS muS hS).
Notation step := (Fsm.step D ioS muS hS io_read io_write mu_lock mu_unlock h_call).
Notation run := (Fsm.run D ioS muS hS io_read io_write mu_lock mu_unlock h_call).
Notation init m x mx h := (mkWorld ioS muS hS (init_state D m) x mx h []).
Notation reach m x mx h ops := (run (init m x mx h) ops).
(* the flush sessions opened along a history (producer, state at the opening: a machine moved from
   its FLUSH_WAIT state to its FLUSH state), and the units they emit *)
Notation starts := (Lemmas_C11s.starts D ioS muS hS io_read io_write mu_lock mu_unlock h_call).
Notation started := (Lemmas_C11s.started D ioS muS hS io_read io_write mu_lock mu_unlock h_call).
Example def_starts : forall (w : world) o ops,
  starts w [] = [] /\
  starts w (o :: ops) = new_starts (st w) (st (step w o)) ++ starts (step w o) ops.
Proof. split; reflexivity. Qed.
Example def_started : forall (w : world) ops, started w ops = map unit_of (starts w ops).
Proof. reflexivity. Qed.

Theorem C18_busy_stream_complete : forall m x mx h ops,
  let w := reach m x mx h ops in
  is_busy (st w) = ST_OK ->
  Forall whole_unit (starts (init m x mx h) ops) /\
  exists crs, length crs = length (started (init m x mx h) ops) /\
    accepted_wr (hist w) = stream (started (init m x mx h) ops) crs.
Proof.
  exact (Lemmas_C11s.C18_busy_stream_complete_proof D ioS muS hS io_read io_write mu_lock mu_unlock h_call no_uhold).
Qed.
End C18s.

Print Assumptions C18_busy_stream_complete.

(* ------------------------------------------------------------------ *)
(* non-vacuity                                                          *)
(* ------------------------------------------------------------------ *)
(* one command "+X" with run and read handlers; input "AT+X?\r\n" "AT+X\r\n"; two events; the read
   handler answers DATA_OK three times; write refusals *)
Definition c18s_D : desc :=
  mkDesc [[mkCmd [43; 88]%N None false true true false [] false false false]] [] 16 None 0%N 2 false.
Definition c18s_w0 : sworld :=
  sinit c18s_D []
        (mkSio [65;84;43;88;63;13;10; 65;84;43;88;13;10]%N [] [false; true; false; false; true; true; false; true])
        (mkSmu [] []) [((1, 0, 0), repeat (mkHres RC_DATA_OK None [] []) 3)].
Definition c18s_ops (n : nat) : list op :=
  [OTrigger 0 T_READ] ++ repeat OService 12 ++ [OTrigger 0 T_READ] ++ repeat OService n.
Definition c18s_run := run c18s_D sio smu shs s_read s_write s_lock s_unlock s_call.
Definition c18s_started := started c18s_D sio smu shs s_read s_write s_lock s_unlock s_call.

(* at the end cat_is_busy says OK: five complete units, and the output is their concatenation *)
Example C18s_ex_idle :
  let w := c18s_run c18s_w0 (c18s_ops 80) in
  is_busy (st _ _ _ w) = ST_OK /\
  c18s_started c18s_w0 (c18s_ops 80) =
    [(UNSOL, [10; 43; 88; 61]); (ATCMD, [13; 10; 43; 88; 61; 13; 10]); (UNSOL, [13; 10; 43; 88; 61]);
     (ATCMD, [13; 10; 79; 75; 13; 10]); (ATCMD, [13; 10; 79; 75; 13; 10])]%N /\
  accepted_wr (hist _ _ _ w) = stream (c18s_started c18s_w0 (c18s_ops 80)) [true; false; true; false; false].
Proof. vm_compute. repeat split; reflexivity. Qed.

(* earlier in the same run a unit is in flight, and cat_is_busy says BUSY *)
Example C18s_ex_busy :
  let w := c18s_run c18s_w0 (c18s_ops 10) in
  is_busy (st _ _ _ w) = ST_BUSY /\ k_state (k (st _ _ _ w)) = CS_FLUSH /\ remaining (st _ _ _ w) <> [].
Proof. vm_compute. repeat split; try reflexivity. discriminate. Qed.
