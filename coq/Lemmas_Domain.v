(* Lemmas_Domain.v — in the supported domain (wf_desc, valid triggers: Lemmas_C03) the fault flag is
   never raised (C03), so the control invariant J (Lemmas_Ctl) holds UNCONDITIONALLY in every
   reachable state.  Used by the `_in_domain` theorems of C01, C11, C14, C18, C20. *)
From Coq Require Import List NArith ZArith Bool Arith Lia.
From CatV Require Import Bytes Defs Codec Fsm Skel SkelInv SkelSim Lemmas_Ctl Lemmas_C03.
Import ListNotations.

Section Domain.
Variable D : desc.
Variables ioS muS hS : Type.
Variable io_read : ioS -> ioS * option N.
Variable io_write : ioS -> N -> ioS * bool.
Variable mu_lock : muS -> muS * bool.
Variable mu_unlock : muS -> muS * bool.
Variable h_call : hS -> hreq -> hS * hres.
(* D3: event-side handlers do not return HOLD; events triggered from handlers name pool commands *)
Hypothesis no_uhold : forall hs q, unsol_req q = true -> r_code (snd (h_call hs q)) <> RC_HOLD.
Hypothesis handlers_valid : forall hs q, Forall (valid_icall D) (r_calls (snd (h_call hs q))).

Notation st := (Fsm.st ioS muS hS).
Notation run := (Fsm.run D ioS muS hS io_read io_write mu_lock mu_unlock h_call).

Theorem J_in_domain : forall m x mx h ops,
  wf_desc D m -> Forall (valid_op D) ops ->
  let s := st (run (mkWorld ioS muS hS (init_state D m) x mx h []) ops) in
  fault s = false /\ J (ctl_of s).
Proof.
  intros m x mx h ops Hwf Hops s.
  assert (Hf : fault s = false)
    by exact (C03_no_fault D ioS muS hS io_read io_write mu_lock mu_unlock h_call handlers_valid m x mx h ops Hwf Hops).
  split; [exact Hf|].
  exact (J_reachable D ioS muS hS io_read io_write mu_lock mu_unlock h_call no_uhold m x mx h ops Hf).
Qed.
End Domain.
