(* Properties_C06m.v - property C06 at machine level, through CS_PARSE_WRITE_ARGS: parsing the
   arguments into variables never changes the collected argument text or its length, so the
   write handler that runs afterwards is given exactly the text that was sent (C06_collect,
   C06_write_handler_args of Properties_C06.v) and args_num = the number of arguments decoded.
   Arbitrary oracles; all proofs are in Lemmas_WriteM.v.

   Definitions imported (repeated for the reader; see Properties_C04m.v for the full list):
   pwa_step w := fst (parse_write_args w)
   pwa_run fuel w := fuel times: if the state is CS_PARSE_WRITE_ARGS then pwa_step else stop
   field_bytes v f : does variable v accept field f (Spec.num_accepts / hexbuf_accepts / str_body)
   store_fields vs fs m : Some m' when field i is accepted by variable i for all i, m' the
     specified memory
   fields_shaped vs fs : fields of non-string variables contain neither comma nor NUL
   args_ready w ci c args : CS_PARSE_WRITE_ARGS just entered for command ci = c, cursor, counter
     and variable index 0, args ++ [0] at the start of the buffer, variables not read-only and
     without write callback, storage at least data_size long *)
From Coq Require Import List NArith ZArith Bool Arith.
From CatV Require Import Bytes Defs Codec Spec Fsm TextDefs CollectDefs Lemmas_C07e Lemmas_WriteM.
Import ListNotations.
Local Open Scope nat_scope.

(* ---------- 0. entry: LF in CS_PARSE_COMMAND_ARGS, command with a writable variable ---------- *)
(* pca_body is the function parse_command_args gives to `reading` (C06_pca_body_is_model) *)
Theorem C06_dispatch_vars : forall D s c,
  k_state (k s) = CS_PARSE_COMMAND_ARGS -> cmd_of D ATCMD s = Some c ->
  c_only_test c = false -> vars_access_possible c WO = true ->
  let s' := pca_body D ch_LF (setk_char ch_LF s) in
  k_state (k s') = CS_PARSE_WRITE_ARGS /\ cbuf s' = cbuf s /\ k_length (k s') = k_length (k s) /\
  k_position (k s') = 0 /\ k_index (k s') = 0 /\ k_var (k s') = 0 /\ mem s' = mem s /\
  k_cmd (k s') = k_cmd (k s) /\ fault s' = fault s.
Proof. exact Lemmas_WriteM.C06_dispatch_vars. Qed.
Print Assumptions C06_dispatch_vars.

Section C06m.
Variable D : desc.
Variables ioS muS hS : Type.
Variable io_read : ioS -> ioS * option N.
Variable io_write : ioS -> N -> ioS * bool.
Variable mu_lock : muS -> muS * bool.
Variable mu_unlock : muS -> muS * bool.
Variable h_call : hS -> hreq -> hS * hres.

Local Notation world := (Fsm.world ioS muS hS).
Local Notation st := (Fsm.st ioS muS hS).
Local Notation hs := (Fsm.hs ioS muS hS).
Local Notation tr := (Fsm.tr ioS muS hS).
Local Notation parse_write_args := (Fsm.parse_write_args D ioS muS hS mu_lock mu_unlock h_call).
Local Notation process_write_loop := (Fsm.process_write_loop D ioS muS hS mu_lock mu_unlock h_call).
Local Notation cmd_service := (Fsm.cmd_service D ioS muS hS io_read io_write mu_lock mu_unlock h_call).
Local Notation pwa_run := (Lemmas_C07e.pwa_run D ioS muS hS mu_lock mu_unlock h_call).
Local Notation args_ready := (Lemmas_WriteM.args_ready D ioS muS hS).

(* the step of the command machine in CS_PARSE_WRITE_ARGS is parse_write_args *)
Theorem C06_service_is_pwa : forall w : world,
  k_state (k (st w)) = CS_PARSE_WRITE_ARGS -> cmd_service w = parse_write_args w.
Proof. intros w H. unfold Fsm.cmd_service. rewrite H. reflexivity. Qed.

(* ---------- 1. C06.P1: one step keeps the text (any world, callbacks and faults included) ---------- *)
(* length and command always; the buffer unless a result code was started (ERROR / OK overwrite
   it); entering CS_WRITE_LOOP counts exactly one more argument *)
Theorem C06_pwa_keeps_text : forall (w : world),
  let w' := fst (parse_write_args w) in
  k_length (k (st w')) = k_length (k (st w)) /\ k_cmd (k (st w')) = k_cmd (k (st w)) /\
  ubuf (st w') = ubuf (st w) /\
  (k_state (k (st w')) <> CS_FLUSH_WAIT -> cbuf (st w') = cbuf (st w)) /\
  (k_state (k (st w)) = CS_PARSE_WRITE_ARGS -> k_state (k (st w')) = CS_WRITE_LOOP ->
   k_index (k (st w')) = S (k_index (k (st w)))) /\
  (k_state (k (st w)) = CS_PARSE_WRITE_ARGS ->
   k_state (k (st w')) = CS_PARSE_WRITE_ARGS \/ k_state (k (st w')) = CS_WRITE_LOOP \/
   k_state (k (st w')) = CS_FLUSH_WAIT).
Proof. exact (Lemmas_WriteM.pwa_keeps_text D ioS muS hS mu_lock mu_unlock h_call). Qed.

(* the same for any number of steps *)
Theorem C06_pwa_run_keeps_text : forall fuel (w : world),
  k_state (k (st w)) = CS_PARSE_WRITE_ARGS ->
  let w' := pwa_run fuel w in
  k_length (k (st w')) = k_length (k (st w)) /\ k_cmd (k (st w')) = k_cmd (k (st w)) /\
  ubuf (st w') = ubuf (st w) /\
  (k_state (k (st w')) <> CS_FLUSH_WAIT -> cbuf (st w') = cbuf (st w)) /\
  (k_state (k (st w')) = CS_PARSE_WRITE_ARGS \/ k_state (k (st w')) = CS_WRITE_LOOP \/
   k_state (k (st w')) = CS_FLUSH_WAIT).
Proof. exact (Lemmas_WriteM.pwa_run_keeps_text D ioS muS hS mu_lock mu_unlock h_call). Qed.

(* ---------- 2. P4: the write handler after the last argument (callbacks allowed) ---------- *)
(* whenever a step of parse_write_args enters CS_WRITE_LOOP, the next step calls the write
   handler exactly once with the collected text a, NUL-terminated, its exact length, and
   args_num = one more than the arguments counted before this step *)
Theorem C06_write_handler_text : forall (w : world) ci a,
  k_state (k (st w)) = CS_PARSE_WRITE_ARGS -> k_cmd (k (st w)) = Some ci ->
  k_length (k (st w)) = length a -> firstn (S (length a)) (cbuf (st w)) = a ++ [0%N] ->
  let w1 := fst (parse_write_args w) in
  k_state (k (st w1)) = CS_WRITE_LOOP ->
  exists code rest,
    tr (fst (process_write_loop w1)) =
      rest ++ ECall (HWrite ci (a ++ [0%N]) (length a) (S (k_index (k (st w))))) code :: tr w1
    /\ forallb (fun e => match e with ECall _ _ => false | _ => true end) rest = true.
Proof. exact (Lemmas_WriteM.C06_write_handler_text D ioS muS hS mu_lock mu_unlock h_call). Qed.

(* ---------- 3. C06.P2: the whole accepted argument list, then the write handler ---------- *)
(* args_num = |fields| = the number of fields decoded; the handler sees the text as sent; the
   variables hold the specified memory m'; before the handler nothing was called *)
Theorem C06_write_args_num : forall (w : world) ci c fields m' fuel,
  args_ready w ci c (join_comma fields) -> fields <> [] ->
  fields_shaped (c_vars c) fields ->
  store_fields (c_vars c) fields (mem (st w)) = Some m' ->
  length fields <= fuel ->
  k_length (k (st w)) = length (join_comma fields) ->
  c_hwrite c = true -> (c_need_all c = true -> length fields = length (c_vars c)) ->
  let w1 := pwa_run fuel w in
  k_state (k (st w1)) = CS_WRITE_LOOP /\ k_index (k (st w1)) = length fields /\
  mem (st w1) = m' /\ tr w1 = tr w /\ hs w1 = hs w /\
  exists code rest,
    tr (fst (process_write_loop w1)) =
      rest ++ ECall (HWrite ci (join_comma fields ++ [0%N]) (length (join_comma fields))
                            (length fields)) code :: tr w
    /\ forallb (fun e => match e with ECall _ _ => false | _ => true end) rest = true.
Proof. exact (Lemmas_WriteM.C06_write_args_handler D ioS muS hS mu_lock mu_unlock h_call). Qed.

End C06m.

Print Assumptions C06_service_is_pwa.
Print Assumptions C06_pwa_keeps_text.
Print Assumptions C06_pwa_run_keeps_text.
Print Assumptions C06_write_handler_text.
Print Assumptions C06_write_args_num.

(* ---------- non-vacuity: command +X with int8, hex16, string[6] and a write handler ---------- *)
Module C06m_examples.
Definition v1 := mkVar None VInt 1 RW false false 0.
Definition v2 := mkVar None VHex 2 WO false false 1.
Definition v3 := mkVar None VBufStr 6 RW false false 2.
Definition c0 := mkCmd [43; 88]%N None true false false false [v1; v2; v3] false false false.
Definition D0 := mkDesc [[c0]] [] 48 (Some 8) 85%N 2 false.
Definition m0 : list (list N) := [[1]; [2; 3]; [4; 5; 6; 7; 8; 9]]%N.

Definition f1 : list N := [45; 53]%N.                     (* -5 *)
Definition f2 : list N := [48; 88; 49; 102]%N.            (* 0X1f : both cases *)
Definition f3 : list N := [34; 97; 44; 98; 34]%N.         (* dquote a , b dquote *)
Definition f2bad : list N := [48; 120; 49; 71]%N.         (* 0x1G *)

(* whole lines through the complete model: AT+X=<args> LF, 120 service calls *)
Definition rd (l : list N) : list N * option N := match l with [] => ([], None) | x :: r => (r, Some x) end.
Definition wr (l : list N) (c : N) : list N * bool := (l, true).
Definition mx (u : unit) : unit * bool := (u, true).
Definition hc (u : unit) (q : hreq) : unit * hres := (u, mkHres RC_OK None [] []).
Definition line (args : list N) : list N := [65; 84; 43; 88; 61]%N ++ args ++ [10]%N.
Definition final (args : list N) :=
  run D0 _ _ _ rd wr mx mx hc (mkWorld (list N) unit unit (init_state D0 m0) (line args) tt tt [])
      (repeat OService 120).
Definition calls (args : list N) : list event :=
  filter (fun e => match e with ECall _ _ => true | _ => false end) (tr _ _ _ (final args)).
Definition output (args : list N) : list N :=
  rev (flat_map (fun e => match e with EWr _ ch true => [ch] | _ => [] end) (tr _ _ _ (final args))).

(* accepted: the handler gets the 13 characters as sent (case kept, comma inside the string),
   args_num = 3, the variables hold -5, 0x001f, the string a,b *)
Example ex_line_accept :
  calls (join_comma [f1; f2; f3]) = [ECall (HWrite 0 (join_comma [f1; f2; f3] ++ [0%N]) 13 3) 3] /\
  mem (st _ _ _ (final (join_comma [f1; f2; f3]))) = [[251]; [31; 0]; [97; 44; 98; 0; 8; 9]]%N /\
  output (join_comma [f1; f2; f3]) = [10; 79; 75; 10]%N.
Proof. vm_compute. repeat split; reflexivity. Qed.

(* failing at field 1: ERROR, the write handler is not called, variable 0 was stored *)
Example ex_line_reject :
  calls (join_comma [f1; f2bad; f3]) = [] /\
  mem (st _ _ _ (final (join_comma [f1; f2bad; f3]))) = [[251]; [2; 3]; [4; 5; 6; 7; 8; 9]]%N /\
  output (join_comma [f1; f2bad; f3]) = [10; 69; 82; 82; 79; 82; 10]%N.
Proof. vm_compute. repeat split; reflexivity. Qed.

(* two fields: args_num = 2 *)
Example ex_line_two :
  calls (join_comma [f1; f2]) = [ECall (HWrite 0 (join_comma [f1; f2] ++ [0%N]) 7 2) 3].
Proof. vm_compute. reflexivity. Qed.

(* the hypotheses of C06_write_args_num hold in the state the machine is in when it enters
   CS_PARSE_WRITE_ARGS on that line (after 23 service calls) *)
Definition entered (args : list N) (n : nat) :=
  run D0 _ _ _ rd wr mx mx hc (mkWorld (list N) unit unit (init_state D0 m0) (line args) tt tt [])
      (repeat OService n).
Definition steps_to_entry : nat := 23.
Example ex_entered :
  let w := entered (join_comma [f1; f2; f3]) steps_to_entry in
  k_state (k (st _ _ _ w)) = CS_PARSE_WRITE_ARGS /\ k_cmd (k (st _ _ _ w)) = Some 0 /\
  k_position (k (st _ _ _ w)) = 0 /\ k_index (k (st _ _ _ w)) = 0 /\ k_var (k (st _ _ _ w)) = 0 /\
  k_length (k (st _ _ _ w)) = 13 /\
  firstn 14 (cbuf (st _ _ _ w)) = join_comma [f1; f2; f3] ++ [0%N] /\
  mem (st _ _ _ w) = m0 /\
  store_fields (c_vars c0) [f1; f2; f3] m0 = Some [[251]; [31; 0]; [97; 44; 98; 0; 8; 9]]%N.
Proof. vm_compute. repeat split; reflexivity. Qed.
End C06m_examples.
