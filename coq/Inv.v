(* Inv.v — invariants of the whole machine, for arbitrary environment oracles. *)
From Coq Require Import List NArith ZArith Bool Arith Lia.
From CatV Require Import Bytes Defs Codec Spec Fsm.
Import ListNotations.

(* ---------- tactics ---------- *)
Ltac break_match :=
  match goal with
  | |- context [match ?x with _ => _ end] =>
    match type of x with
    | sumbool _ _ => destruct x
    | _ => let E := fresh "E" in destruct x eqn:E
    end
  end.

Ltac break_let :=
  match goal with
  | |- context [let (_, _) := ?x in _] => let E := fresh "E" in destruct x eqn:E
  end.

Section Inv.
Variable D : desc.
Variables ioS muS hS : Type.
Variable io_read : ioS -> ioS * option N.
Variable io_write : ioS -> N -> ioS * bool.
Variable mu_lock : muS -> muS * bool.
Variable mu_unlock : muS -> muS * bool.
Variable h_call : hS -> hreq -> hS * hres.

Notation world := (world ioS muS hS).
Notation cmd_service := (cmd_service D ioS muS hS io_read io_write h_call mu_lock mu_unlock).

Definition hold_ok (s : state) : Prop :=
  k_hold (k s) = cstate_beq (k_state (k s)) CS_HOLD.

Lemma test_reset : forall s, hold_ok s -> hold_ok (reset_state s).
Proof.
  unfold hold_ok, reset_state. intros s H.
  destruct (k_hold (k s)) eqn:E; cbn; auto.
Qed.
End Inv.
