(* Properties_C01r.v - property C01, the result-code counters tied to the OUTPUT bytes at history level.
   Properties_C01s.v ties gL to the input (gL = number of non-blank lines consumed) and shows, as a
   window theorem from an ack state, that one increment of gR is one unit  nl OK/ERROR nl.  What was
   missing: a theorem over whole histories saying that the accepted output contains gR such units.
   Here, with the session list `starts` of Properties_C11s.v (the flush sessions opened in a history,
   producer + state at the opening; the accepted output is the concatenation of their units):

     rc := the sessions opened by the command machine with continuation CS_AFTER_RESET
           (the continuation is set to CS_AFTER_RESET only by ack_ok / ack_error)

   C01_result_code_counters   any descriptor, D3 only: gS and gR count these sessions (exactly: gS is
                              one ahead while a prepared result code waits for the channel, gR one
                              behind while its session is in flight);
   C01_result_codes_are_units supported domain: every element of rc emits  nl ++ OK|ERROR ++ nl  (nl
                              selected by the CR flag at the opening) - identified by the SESSION, not
                              by the text (C01r_ex_units: a data unit that reads  CR LF O K CR LF  is
                              not in rc);
   C01_rc_tracks_lines        at EVERY point of every history: |rc| <= non-blank lines consumed <=
                              |rc| + 1, with equality to |rc| while a result-code session is in flight
                              and in every reading state: result code k is opened after exactly k lines
                              have been consumed and no byte of line k+1 is consumed before it is out;
   C01_lines_answered_in_stream  whenever the parser is ready to read: the command machine's accepted
                              output is the concatenation of the units of its sessions, and the
                              result-code units among them are as many as the non-blank lines consumed;
   *_scripted                 the same with conditions on the scripts (transfer of Lemmas_Inv.v).
   NOTE: the proposed statement `gS = |rc| in every state` is false (C01r_ex_pending): between ack
   and the opening of the session gS = |rc| + 1.  Proofs: Lemmas_C01r.v. *)
From Coq Require Import List NArith ZArith Bool Arith Lia.
From CatV Require Import Bytes Defs Codec Spec Fsm Script SchedDefs ResolveDefs TextDefs TraceDefs Skel SkelInv SkelSim.
From CatV Require Import Lemmas_C03 Lemmas_Domain Lemmas_C11 Lemmas_C11s Lemmas_C01s.
From CatV Require Lemmas_Inv.
From CatV Require Import Lemmas_C01r.
Import ListNotations.
Local Open Scope nat_scope.

(* ------------------------------------------------------------------ *)
(* definitions used in the statements (they live in Lemmas_C01r.v; restated as checked equations).   *)
(* From Properties_C11s.v: starts, unit_of, remaining, proj, accepted_wr, nl_text; from              *)
(* Properties_C01s.v: consumed, nonblank_lines; SkelInv.reading_state.                               *)
(* ------------------------------------------------------------------ *)

(* a result-code session: opened by the command machine, continuation CS_AFTER_RESET *)
Example def_is_rc : forall x,
  is_rc x = fsm_beq (fst x) ATCMD && cstate_beq (k_wafter (k (snd x))) CS_AFTER_RESET.
Proof. reflexivity. Qed.
Example def_rc_sessions : forall l, rc_sessions l = filter is_rc l.
Proof. reflexivity. Qed.
(* the sessions of the command machine *)
Example def_cmd_sessions : forall l, cmd_sessions l = filter (fun x => fsm_beq (fst x) ATCMD) l.
Proof. reflexivity. Qed.
(* a result code has been prepared (ack_ok / ack_error) and waits for the channel *)
Example def_rc_pending : forall s,
  rc_pending s = (k_state (k s) = CS_FLUSH_WAIT /\ k_wafter (k s) = CS_AFTER_RESET).
Proof. reflexivity. Qed.
(* the session of a result code is open *)
Example def_rc_in_flight : forall s,
  rc_in_flight s = (k_state (k s) = CS_FLUSH /\ k_wafter (k s) = CS_AFTER_RESET).
Proof. reflexivity. Qed.
(* the unit of the session is  nl OK nl  or  nl ERROR nl, nl chosen by the CR flag at the opening *)
Example def_rc_unit : forall x,
  rc_unit x = exists txt, (txt = txt_OK \/ txt = txt_ERROR) /\
    unit_of x = (ATCMD, nl_text (k_cr (k (snd x))) ++ txt ++ nl_text (k_cr (k (snd x)))).
Proof. reflexivity. Qed.

Section C01r.
Variable D : desc.
Variables ioS muS hS : Type.
Variable io_read : ioS -> ioS * option N.
Variable io_write : ioS -> N -> ioS * bool.
Variable mu_lock : muS -> muS * bool.
Variable mu_unlock : muS -> muS * bool.
Variable h_call : hS -> hreq -> hS * hres.
(* D3: event-side handlers do not return HOLD *)
Hypothesis no_uhold : forall hs q, unsol_req q = true -> r_code (snd (h_call hs q)) <> RC_HOLD.

Notation world := (Fsm.world ioS muS hS).
Notation st := (Fsm.st ioS muS hS).
Notation tr := (Fsm.tr ioS muS hS).
Notation hist := (TraceDefs.hist ioS muS hS).
Notation run := (Fsm.run D ioS muS hS io_read io_write mu_lock mu_unlock h_call).
Notation init m x mx h := (mkWorld ioS muS hS (init_state D m) x mx h []).
Notation starts := (Lemmas_C11s.starts D ioS muS hS io_read io_write mu_lock mu_unlock h_call).

(* ANY descriptor, ANY history from cat_init, at any point: the number n of result-code sessions
   opened so far, and the two counters *)
Theorem C01_result_code_counters : forall m x mx h ops,
  let s := st (run (init m x mx h) ops) in
  let n := length (rc_sessions (starts (init m x mx h) ops)) in
  (rc_pending s -> gS s = S n /\ gR s = n) /\
  (rc_in_flight s -> gS s = n /\ S (gR s) = n) /\
  (~ rc_pending s -> ~ rc_in_flight s -> gS s = n /\ gR s = n).
Proof.
  exact (Lemmas_C01r.rc_counters_proof D ioS muS hS io_read io_write mu_lock mu_unlock h_call no_uhold).
Qed.

(* events triggered from handlers name pool commands *)
Hypothesis handlers_valid : forall hs q, Forall (valid_icall D) (r_calls (snd (h_call hs q))).

(* supported domain: every result-code session emits exactly  nl OK/ERROR nl  (6 <= buffer size is
   what is used of wf_desc: the text ERROR and its NUL fit), and the counters count these sessions *)
Theorem C01_result_codes_are_units : forall m x mx h ops,
  wf_desc D m -> Forall (valid_op D) ops ->
  let s := st (run (init m x mx h) ops) in
  let rc := rc_sessions (starts (init m x mx h) ops) in
  Forall rc_unit rc /\
  (rc_pending s -> gS s = S (length rc) /\ gR s = length rc) /\
  (rc_in_flight s -> gS s = length rc /\ S (gR s) = length rc) /\
  (~ rc_pending s -> ~ rc_in_flight s -> gS s = length rc /\ gR s = length rc).
Proof.
  exact (Lemmas_C01r.C01_result_codes_are_units_proof D ioS muS hS io_read io_write mu_lock mu_unlock
           h_call no_uhold handlers_valid).
Qed.

(* at EVERY point of every history: result-code sessions opened so far versus non-blank lines
   consumed so far (applied to every prefix of a history: session k is opened when exactly k lines
   have been consumed, and line k+1 is not touched before it is out) *)
Theorem C01_rc_tracks_lines : forall m x mx h ops,
  wf_desc D m -> Forall (valid_op D) ops ->
  let w := run (init m x mx h) ops in
  let n := length (rc_sessions (starts (init m x mx h) ops)) in
  let lines := nonblank_lines false (consumed (tr w)) in
  n <= lines <= S n /\
  (rc_in_flight (st w) -> lines = n) /\ (rc_pending (st w) -> lines = S n) /\
  (reading_state (k_state (k (st w))) = true -> lines = n /\ gR (st w) = n /\ gS (st w) = n).
Proof.
  exact (Lemmas_C01r.C01_rc_tracks_lines_proof D ioS muS hS io_read io_write mu_lock mu_unlock
           h_call no_uhold handlers_valid).
Qed.

(* the clause of C01: whenever the parser is ready to read (one of the seven reading states; no
   condition on the event machine, which may be in the middle of a unit): the bytes accepted from the
   command machine are the concatenation, in order, of the units of its sessions; the result-code
   sessions are those with continuation CS_AFTER_RESET; each of them emits  nl OK/ERROR nl;  and
       number of result-code units in the output = number of non-blank lines consumed = gR = gS *)
Theorem C01_lines_answered_in_stream : forall m x mx h ops,
  wf_desc D m -> Forall (valid_op D) ops ->
  let w := run (init m x mx h) ops in
  let ss := starts (init m x mx h) ops in
  reading_state (k_state (k (st w))) = true ->
  proj ATCMD (accepted_wr (hist w)) = concat (map (fun x => snd (unit_of x)) (cmd_sessions ss)) /\
  rc_sessions ss = filter (fun x => cstate_beq (k_wafter (k (snd x))) CS_AFTER_RESET) (cmd_sessions ss) /\
  Forall rc_unit (rc_sessions ss) /\
  length (rc_sessions ss) = nonblank_lines false (consumed (tr w)) /\
  gR (st w) = length (rc_sessions ss) /\ gS (st w) = gR (st w).
Proof.
  exact (Lemmas_C01r.C01_lines_answered_in_stream_proof D ioS muS hS io_read io_write mu_lock mu_unlock
           h_call no_uhold handlers_valid).
Qed.
End C01r.

Print Assumptions C01_result_code_counters.
Print Assumptions C01_result_codes_are_units.
Print Assumptions C01_rc_tracks_lines.
Print Assumptions C01_lines_answered_in_stream.

(* ================================================================== *)
(* the scripted environment: conditions on the scripts                  *)
(* ================================================================== *)
Local Notation wst := (Fsm.st sio smu shs).
Local Notation wtr := (Fsm.tr sio smu shs).
Local Notation srunops D := (Fsm.run D sio smu shs s_read s_write s_lock s_unlock s_call).
Local Notation sstarts D := (Lemmas_C11s.starts D sio smu shs s_read s_write s_lock s_unlock s_call).

(* any descriptor; no read or test script contains a HOLD answer *)
Theorem C01_result_code_counters_scripted : forall D m x mx h ops,
  Lemmas_Inv.no_rt_hold h = true ->
  let s := wst (srunops D (sinit D m x mx h) ops) in
  let n := length (rc_sessions (sstarts D (sinit D m x mx h) ops)) in
  (rc_pending s -> gS s = S n /\ gR s = n) /\
  (rc_in_flight s -> gS s = n /\ S (gR s) = n) /\
  (~ rc_pending s -> ~ rc_in_flight s -> gS s = n /\ gR s = n).
Proof. exact Lemmas_C01r.rc_counters_scripted. Qed.
Print Assumptions C01_result_code_counters_scripted.

(* ... and every inner call of every scripted answer is a valid trigger or a hold exit *)
Theorem C01_result_codes_are_units_scripted : forall D m x mx h ops,
  wf_desc D m -> Forall (valid_op D) ops ->
  Lemmas_Inv.no_rt_hold h = true -> script_ok (Lemmas_Inv.res_calls_valid D) h = true ->
  let s := wst (srunops D (sinit D m x mx h) ops) in
  let rc := rc_sessions (sstarts D (sinit D m x mx h) ops) in
  Forall rc_unit rc /\
  (rc_pending s -> gS s = S (length rc) /\ gR s = length rc) /\
  (rc_in_flight s -> gS s = length rc /\ S (gR s) = length rc) /\
  (~ rc_pending s -> ~ rc_in_flight s -> gS s = length rc /\ gR s = length rc).
Proof. exact Lemmas_C01r.C01_result_codes_are_units_scripted. Qed.
Print Assumptions C01_result_codes_are_units_scripted.

Theorem C01_rc_tracks_lines_scripted : forall D m x mx h ops,
  wf_desc D m -> Forall (valid_op D) ops ->
  Lemmas_Inv.no_rt_hold h = true -> script_ok (Lemmas_Inv.res_calls_valid D) h = true ->
  let w := srunops D (sinit D m x mx h) ops in
  let n := length (rc_sessions (sstarts D (sinit D m x mx h) ops)) in
  let lines := nonblank_lines false (consumed (wtr w)) in
  n <= lines <= S n /\
  (rc_in_flight (wst w) -> lines = n) /\ (rc_pending (wst w) -> lines = S n) /\
  (reading_state (k_state (k (wst w))) = true -> lines = n /\ gR (wst w) = n /\ gS (wst w) = n).
Proof. exact Lemmas_C01r.C01_rc_tracks_lines_scripted. Qed.
Print Assumptions C01_rc_tracks_lines_scripted.

Theorem C01_lines_answered_in_stream_scripted : forall D m x mx h ops,
  wf_desc D m -> Forall (valid_op D) ops ->
  Lemmas_Inv.no_rt_hold h = true -> script_ok (Lemmas_Inv.res_calls_valid D) h = true ->
  let w := srunops D (sinit D m x mx h) ops in
  let ss := sstarts D (sinit D m x mx h) ops in
  reading_state (k_state (k (wst w))) = true ->
  proj ATCMD (accepted_wr (TraceDefs.hist sio smu shs w)) =
    concat (map (fun x => snd (unit_of x)) (cmd_sessions ss)) /\
  rc_sessions ss = filter (fun x => cstate_beq (k_wafter (k (snd x))) CS_AFTER_RESET) (cmd_sessions ss) /\
  Forall rc_unit (rc_sessions ss) /\
  length (rc_sessions ss) = nonblank_lines false (consumed (wtr w)) /\
  gR (wst w) = length (rc_sessions ss) /\ gS (wst w) = gR (wst w).
Proof. exact Lemmas_C01r.C01_lines_answered_in_stream_scripted. Qed.
Print Assumptions C01_lines_answered_in_stream_scripted.

(* ================================================================== *)
(* non-vacuity: computed examples                                       *)
(* ================================================================== *)
Module C01r_examples.

(* one command +X with run and read handlers, no variables; 32-byte command buffer, separate 16-byte
   event buffer, queue capacity 2, no mutex *)
Definition exD : desc :=
  mkDesc [[mkCmd [43; 88]%N None false true true false [] false false false]] [] 32 (Some 16) 0%N 2 false.

(* the input, four lines:   CR LF | AT+Q LF | AT+X? CR LF | AT LF
   a blank line, an unknown command (ERROR), a READ whose handler produces two data units, a bare AT *)
Definition ex_input : list N := [13; 10;  65; 84; 43; 81; 10;  65; 84; 43; 88; 63; 13; 10;  65; 84; 10]%N.
(* the read handler of +X: first call (from the event machine) DATA_OK; second call (command machine)
   replaces the text by the two letters O K and answers DATA_NEXT; third call DATA_OK *)
Definition ex_h : shs :=
  [((1, 0, 0), [mkHres RC_DATA_OK None [] []; mkHres RC_DATA_NEXT (Some [79; 75]%N) [] [];
                mkHres RC_DATA_OK None [] []])].
Definition ex_w0 : sworld := sinit exD [] (mkSio ex_input [] []) (mkSmu [] []) ex_h.
(* a read event of +X is triggered, then cat_service is called 100 times *)
Definition ex_ops : list op := [OTrigger 0 T_READ] ++ repeat OService 100.
Local Notation ex_run n := (srunops exD ex_w0 (firstn n ex_ops)).
Local Notation ex_ss n := (sstarts exD ex_w0 (firstn n ex_ops)).

Example C01r_ex_lines : nonblank_lines false ex_input = 3.
Proof. vm_compute. reflexivity. Qed.

(* the six sessions of the run: one of the event machine, five of the command machine.  The third
   (a DATA unit of the READ response, continuation CS_AFTER_FMT_READ) and the fifth (the result code
   of that line, continuation CS_AFTER_RESET) emit the SAME bytes  CR LF O K CR LF *)
Example C01r_ex_sessions :
  map (fun x => (unit_of x, k_wafter (k (snd x)))) (ex_ss 101) =
  [((UNSOL, [10; 43; 88; 61]), CS_IDLE);
   ((ATCMD, [10; 69; 82; 82; 79; 82; 10]), CS_AFTER_RESET);
   ((ATCMD, [13; 10; 79; 75; 13; 10]), CS_AFTER_FMT_READ);
   ((ATCMD, [13; 10; 43; 88; 61; 13; 10]), CS_AFTER_OK);
   ((ATCMD, [13; 10; 79; 75; 13; 10]), CS_AFTER_RESET);
   ((ATCMD, [10; 79; 75; 10]), CS_AFTER_RESET)]%N.
Proof. vm_compute. reflexivity. Qed.

(* rc: three sessions = three non-blank lines; ERROR, OK, OK in the order of the lines *)
Example C01r_ex_units :
  map unit_of (rc_sessions (ex_ss 101)) =
  [(ATCMD, [10; 69; 82; 82; 79; 82; 10]); (ATCMD, [13; 10; 79; 75; 13; 10]); (ATCMD, [10; 79; 75; 10])]%N /\
  length (cmd_sessions (ex_ss 101)) = 5.
Proof. vm_compute. split; reflexivity. Qed.

(* the end of the run: idle, everything consumed, counters (3,3,3); the command machine's accepted
   output (30 bytes) is the concatenation of its five units; the event unit is not part of it *)
Example C01r_ex_final :
  let w := ex_run 101 in
  k_state (k (wst w)) = CS_IDLE /\ inq (Fsm.io _ _ _ w) = [] /\
  (gL (wst w), gS (wst w), gR (wst w)) = (3, 3, 3) /\
  nonblank_lines false (consumed (wtr w)) = 3 /\
  proj ATCMD (accepted_wr (TraceDefs.hist _ _ _ w)) =
    [10; 69; 82; 82; 79; 82; 10;  13; 10; 79; 75; 13; 10;  13; 10; 43; 88; 61; 13; 10;
     13; 10; 79; 75; 13; 10;  10; 79; 75; 10]%N /\
  proj UNSOL (accepted_wr (TraceDefs.hist _ _ _ w)) = [10; 43; 88; 61; 10]%N.
Proof. vm_compute. repeat split; reflexivity. Qed.

(* (state, continuation, (gL, gS, gR), |rc|, non-blank lines consumed) along the run *)
Definition ex_obs (n : nat) :=
  let w := ex_run n in
  (k_state (k (wst w)), k_wafter (k (wst w)), (gL (wst w), gS (wst w), gR (wst w)),
   length (rc_sessions (ex_ss n)), nonblank_lines false (consumed (wtr w))).

(* after 12 operations the result code of the second line is prepared and waits: gS = |rc| + 1
   (so `gS = |rc| in every state` is false); after 13 its session is open: gS = |rc| = gR + 1;
   after 24 it is out: all equal; 37 / 49: the two data sessions of the READ response do not count;
   60 / 61 / 71: the result code of the READ line; 74 / 75 / 83: the last line *)
Example C01r_ex_pending :
  map ex_obs [11; 12; 13; 24; 37; 49; 60; 61; 71; 74; 75; 83] =
  [(CS_COMMAND_NOT_FOUND, CS_IDLE, (1, 0, 0), 0, 1);
   (CS_FLUSH_WAIT, CS_AFTER_RESET, (1, 1, 0), 0, 1);
   (CS_FLUSH, CS_AFTER_RESET, (1, 1, 0), 1, 1);
   (CS_IDLE, CS_AFTER_RESET, (1, 1, 1), 1, 1);
   (CS_FLUSH, CS_AFTER_FMT_READ, (2, 1, 1), 1, 2);
   (CS_FLUSH, CS_AFTER_OK, (2, 1, 1), 1, 2);
   (CS_FLUSH_WAIT, CS_AFTER_RESET, (2, 2, 1), 1, 2);
   (CS_FLUSH, CS_AFTER_RESET, (2, 2, 1), 2, 2);
   (CS_IDLE, CS_AFTER_RESET, (2, 2, 2), 2, 2);
   (CS_FLUSH_WAIT, CS_AFTER_RESET, (3, 3, 2), 2, 3);
   (CS_FLUSH, CS_AFTER_RESET, (3, 3, 2), 3, 3);
   (CS_IDLE, CS_AFTER_RESET, (3, 3, 3), 3, 3)].
Proof. vm_compute. reflexivity. Qed.

(* the statements of C01_result_code_counters and C01_rc_tracks_lines checked pointwise after each of
   the 101 operations *)
Example C01r_ex_pointwise :
  forallb (fun n =>
    let w := ex_run n in let s := wst w in
    let r := length (rc_sessions (ex_ss n)) in
    let l := nonblank_lines false (consumed (wtr w)) in
    let wa := cstate_beq (k_wafter (k s)) CS_AFTER_RESET in
    let pe := cstate_beq (k_state (k s)) CS_FLUSH_WAIT && wa in
    let fl := cstate_beq (k_state (k s)) CS_FLUSH && wa in
    (gS s =? r + (if pe then 1 else 0)) && (gR s + (if fl then 1 else 0) =? r) &&
    (r <=? l) && (l <=? S r) && (negb (reading_state (k_state (k s))) || (l =? r)))
    (seq 0 102) = true.
Proof. vm_compute. reflexivity. Qed.

(* the hypotheses of the scripted theorems hold for this instance *)
Lemma ex_wf : wf_desc exD [].
Proof.
  unfold wf_desc. repeat split; try (cbn; lia).
  - repeat constructor.
  - repeat constructor.
Qed.
Lemma ex_valid : forall n, Forall (valid_op exD) (firstn n ex_ops).
Proof.
  intros n. apply Lemmas_Inv.Forall_firstn. constructor.
  - split; [apply Nat.ltb_lt; reflexivity | left; reflexivity].
  - apply Forall_forall. intros o Ho. apply repeat_spec in Ho. subst o. exact I.
Qed.
Example C01r_ex_hyps :
  Lemmas_Inv.no_rt_hold ex_h = true /\ script_ok (Lemmas_Inv.res_calls_valid exD) ex_h = true.
Proof. split; reflexivity. Qed.

(* the theorems applied: at the end of the run (a reading state) ... *)
Example C01r_ex_reading : reading_state (k_state (k (wst (ex_run 101)))) = true.
Proof. vm_compute. reflexivity. Qed.

(* (the theorems instantiated with this descriptor and these scripts, for an arbitrary list of
   operations; the examples below apply them to prefixes of ex_ops) *)
Lemma ex_stream_applies : forall ops, Forall (valid_op exD) ops ->
  let w := srunops exD ex_w0 ops in let ss := sstarts exD ex_w0 ops in
  reading_state (k_state (k (wst w))) = true ->
  proj ATCMD (accepted_wr (TraceDefs.hist sio smu shs w)) =
    concat (map (fun x => snd (unit_of x)) (cmd_sessions ss)) /\
  rc_sessions ss = filter (fun x => cstate_beq (k_wafter (k (snd x))) CS_AFTER_RESET) (cmd_sessions ss) /\
  Forall rc_unit (rc_sessions ss) /\
  length (rc_sessions ss) = nonblank_lines false (consumed (wtr w)) /\
  gR (wst w) = length (rc_sessions ss) /\ gS (wst w) = gR (wst w).
Proof.
  intros ops F.
  exact (C01_lines_answered_in_stream_scripted exD [] (mkSio ex_input [] []) (mkSmu [] []) ex_h
           ops ex_wf F (proj1 C01r_ex_hyps) (proj2 C01r_ex_hyps)).
Qed.
Lemma ex_units_applies : forall ops, Forall (valid_op exD) ops ->
  let s := wst (srunops exD ex_w0 ops) in let rc := rc_sessions (sstarts exD ex_w0 ops) in
  Forall rc_unit rc /\
  (rc_pending s -> gS s = S (length rc) /\ gR s = length rc) /\
  (rc_in_flight s -> gS s = length rc /\ S (gR s) = length rc) /\
  (~ rc_pending s -> ~ rc_in_flight s -> gS s = length rc /\ gR s = length rc).
Proof.
  intros ops F.
  exact (C01_result_codes_are_units_scripted exD [] (mkSio ex_input [] []) (mkSmu [] []) ex_h
           ops ex_wf F (proj1 C01r_ex_hyps) (proj2 C01r_ex_hyps)).
Qed.

Example C01r_ex_apply_stream :
  let w := ex_run 101 in let ss := ex_ss 101 in
  proj ATCMD (accepted_wr (TraceDefs.hist sio smu shs w)) =
    concat (map (fun x => snd (unit_of x)) (cmd_sessions ss)) /\
  rc_sessions ss = filter (fun x => cstate_beq (k_wafter (k (snd x))) CS_AFTER_RESET) (cmd_sessions ss) /\
  Forall rc_unit (rc_sessions ss) /\
  length (rc_sessions ss) = nonblank_lines false (consumed (wtr w)) /\
  gR (wst w) = length (rc_sessions ss) /\ gS (wst w) = gR (wst w).
Proof. exact (ex_stream_applies (firstn 101 ex_ops) (ex_valid 101) C01r_ex_reading). Qed.

(* ... and in the middle of it, for every prefix *)
Example C01r_ex_apply_units : forall n,
  let s := wst (ex_run n) in let rc := rc_sessions (ex_ss n) in
  Forall rc_unit rc /\
  (rc_pending s -> gS s = S (length rc) /\ gR s = length rc) /\
  (rc_in_flight s -> gS s = length rc /\ S (gR s) = length rc) /\
  (~ rc_pending s -> ~ rc_in_flight s -> gS s = length rc /\ gR s = length rc).
Proof. intros n. exact (ex_units_applies (firstn n ex_ops) (ex_valid n)). Qed.

(* the universally quantified oracle hypotheses of the history theorems are satisfiable: a handler
   oracle that always gives the default answer; the stream theorem for all its histories on exD *)
Definition ex_o (h : unit) (q : hreq) : unit * hres := (h, default_res q).
Example C01r_ex_oracle_hyps :
  (forall hs q, unsol_req q = true -> r_code (snd (ex_o hs q)) <> RC_HOLD) /\
  (forall hs q, Forall (valid_icall exD) (r_calls (snd (ex_o hs q)))).
Proof. split; intros hs q; destruct q; cbn; try discriminate; constructor. Qed.

Example C01r_ex_history : forall x mx ops, Forall (valid_op exD) ops ->
  let w0 := mkWorld sio smu unit (init_state exD []) x mx tt [] in
  let w := Fsm.run exD sio smu unit s_read s_write s_lock s_unlock ex_o w0 ops in
  let ss := Lemmas_C11s.starts exD sio smu unit s_read s_write s_lock s_unlock ex_o w0 ops in
  reading_state (k_state (k (Fsm.st _ _ _ w))) = true ->
  length (rc_sessions ss) = nonblank_lines false (consumed (Fsm.tr _ _ _ w)) /\
  Forall rc_unit (rc_sessions ss).
Proof.
  intros x mx ops Hops w0 w ss HR.
  destruct (C01_lines_answered_in_stream exD sio smu unit s_read s_write s_lock s_unlock ex_o
              (proj1 C01r_ex_oracle_hyps) (proj2 C01r_ex_oracle_hyps) [] x mx tt ops ex_wf Hops HR)
    as (_ & _ & A & B & _).
  split; [exact B | exact A].
Qed.

(* D3 is necessary: the read handler of +X, called for an EVENT while the command machine is sending
   the result code of the line AT+X (one byte sent), answers HOLD: the command machine is forced to
   CS_HOLD and its unit is truncated; after cat_hold_exit a second result code is sent.  At the end
   (idle): two result-code sessions were opened, gS = 2, but gR = 1 and only one line was consumed *)
Definition ex_hold_w0 : sworld :=
  sinit exD [] (mkSio [65; 84; 43; 88; 13; 10]%N [] []) (mkSmu [] []) [((1, 0, 0), [mkHres RC_HOLD None [] []])].
Definition ex_hold_ops : list op :=
  repeat OService 12 ++ [OTrigger 0 T_READ] ++ repeat OService 6 ++ [OHoldExit 0%Z] ++ repeat OService 40.
Example C01r_ex_hold_needed :
  let w := srunops exD ex_hold_w0 ex_hold_ops in
  k_state (k (wst w)) = CS_IDLE /\ Lemmas_Inv.no_rt_hold (Fsm.hs _ _ _ ex_hold_w0) = false /\
  length (rc_sessions (sstarts exD ex_hold_w0 ex_hold_ops)) = 2 /\
  (gL (wst w), gS (wst w), gR (wst w)) = (1, 2, 1) /\
  nonblank_lines false (consumed (wtr w)) = 1.
Proof. vm_compute. repeat split; reflexivity. Qed.
End C01r_examples.
