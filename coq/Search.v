(* Search.v — model and specification of the two by-name lookup helpers of the public API
   (cat.c:2400 cat_search_command_by_name, cat.c:2434 cat_search_variable_by_name): plain strcmp
   scans in registration order, and of cat.c:2417 cat_search_command_group_by_name (the same scan
   over the optional group names; these are not part of the model's descriptor, which needs them
   nowhere else, so the function takes the list of names).  Names are NUL-free byte lists, so
   strcmp = equality. *)
From Coq Require Import List NArith Bool Arith Lia.
From CatV Require Import Bytes Defs Spec.
Import ListNotations.

Fixpoint find_index {A} (p : A -> bool) (l : list A) (i : nat) : option nat :=
  match l with
  | [] => None
  | x :: r => if p x then Some i else find_index p r (S i)
  end.

(* index of the first registered command whose name is exactly `name` (case-sensitive) *)
Definition search_command_by_name (D : desc) (name : list N) : option nat :=
  find_index (fun c => list_eqb (c_name c) name) (cmds D) 0.

(* index of the first variable of c whose (optional) name is exactly `name` *)
Definition search_variable_by_name (c : cmd) (name : list N) : option nat :=
  find_index (fun v => match v_name v with Some nm => list_eqb nm name | None => false end) (c_vars c) 0.

(* index of the first group whose (optional) name is exactly `name`; gnames = the name of each
   registered group in registration order, None = the group has no name (NULL) *)
Definition search_group_by_name (gnames : list (option (list N))) (name : list N) : option nat :=
  find_index (fun g => match g with Some nm => list_eqb nm name | None => false end) gnames 0.

(* ---- specification: first exact match, None iff there is none ---- *)
Lemma list_eqb_eq : forall a b, list_eqb a b = true <-> a = b.
Proof.
  induction a as [|x a IH]; destruct b as [|y b]; cbn; split; intro H; try discriminate; try reflexivity.
  - apply andb_true_iff in H. destruct H as [H1 H2]. apply N.eqb_eq in H1. apply IH in H2. congruence.
  - inversion H; subst. apply andb_true_iff. split; [apply N.eqb_refl | apply IH; reflexivity].
Qed.

Lemma find_index_spec : forall A (p : A -> bool) l i,
  match find_index p l i with
  | Some j => i <= j /\ exists x, nth_error l (j - i) = Some x /\ p x = true /\
              forall k y, k < j - i -> nth_error l k = Some y -> p y = false
  | None => forall y, In y l -> p y = false
  end.
Proof.
  intros A p. induction l as [|x r IH]; intros i; cbn.
  - intros y [].
  - destruct (p x) eqn:E.
    + split; [apply le_n|]. exists x. rewrite Nat.sub_diag. cbn. repeat split; auto. intros k y Hk. inversion Hk.
    + specialize (IH (S i)). destruct (find_index p r (S i)) as [j|].
      * destruct IH as [Hle [z [Hz [Hp Hbefore]]]]. split; [lia|].
        exists z. replace (j - i) with (S (j - S i)) by lia.
        cbn. repeat split; auto. intros k y Hk Hy. destruct k as [|k]; cbn in Hy.
        -- inversion Hy; subst; exact E.
        -- apply (Hbefore k y); [lia | exact Hy].
      * intros y [<- | Hy]; [exact E | apply IH; exact Hy].
Qed.

Theorem search_command_by_name_spec : forall D name,
  match search_command_by_name D name with
  | Some j => exists c, nth_error (cmds D) j = Some c /\ c_name c = name /\
              forall k c', k < j -> nth_error (cmds D) k = Some c' -> c_name c' <> name
  | None => forall c, In c (cmds D) -> c_name c <> name
  end.
Proof.
  intros D name. unfold search_command_by_name.
  pose proof (find_index_spec _ (fun c => list_eqb (c_name c) name) (cmds D) 0) as H.
  destruct (find_index _ (cmds D) 0) as [j|].
  - destruct H as [_ [c [Hc [Hp Hb]]]]. rewrite Nat.sub_0_r in *. exists c. repeat split; auto.
    + apply list_eqb_eq; exact Hp.
    + intros k c' Hk Hc' Heq. specialize (Hb k c' Hk Hc'). apply list_eqb_eq in Heq. congruence.
  - intros c Hc Heq. specialize (H c Hc). apply list_eqb_eq in Heq. cbn in H. congruence.
Qed.
Print Assumptions search_command_by_name_spec.

Theorem search_group_by_name_spec : forall gnames name,
  match search_group_by_name gnames name with
  | Some j => nth_error gnames j = Some (Some name) /\
              forall k, k < j -> nth_error gnames k <> Some (Some name)
  | None => ~ In (Some name) gnames
  end.
Proof.
  intros gnames name. unfold search_group_by_name.
  pose proof (find_index_spec _ (fun g => match g with Some nm => list_eqb nm name | None => false end) gnames 0) as H.
  destruct (find_index _ gnames 0) as [j|].
  - destruct H as [_ [g [Hg [Hp Hb]]]]. rewrite Nat.sub_0_r in *. destruct g as [nm|]; [|discriminate].
    apply list_eqb_eq in Hp. subst nm. split; [exact Hg|].
    intros k Hk Hn. specialize (Hb k (Some name) Hk Hn). cbn in Hb.
    assert (list_eqb name name = true) by (apply list_eqb_eq; reflexivity). congruence.
  - intros Hin. specialize (H (Some name) Hin). cbn in H.
    assert (list_eqb name name = true) by (apply list_eqb_eq; reflexivity). congruence.
Qed.
Print Assumptions search_group_by_name_spec.
