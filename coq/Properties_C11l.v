(* Properties_C11l.v — property C11, "NO UNIT IS LOST": liveness of a started or waiting unit.

   Properties_C11s.v (and its scripted / scenario forms in Properties_Inv2.v) prove the stream
   theorem: at every point of a history the accepted output, plus what the unit in flight still
   has to send, is the concatenation in order of start of the units started (stream_inv), and a
   waiting machine keeps the unit it prepared for one operation (C11_wait_left_only_to_flush).
   Properties_C15d.v proves that under any finite readiness schedule the service loop ends, within
   C15_bound D w + sched_left w calls, quiescent or suspended in an unreleased hold with the event
   machine idle.  Here the two are combined into the statement that closes C11:

     for every world w reached from cat_init there is n within that bound such that after n more
     calls of cat_service NEITHER machine is in FLUSH or FLUSH_WAIT (in the suspended disjunct the
     command machine is in CS_HOLD and the event machine idle), and at that point
       - the accepted output is `stream` of ALL units started up to then: no remainder in flight;
         the unit that was in flight at w (the last unit started at w, by stream_inv at w) and
         every unit started since has been written completely;
       - the units started at w are a prefix of the units started then, and the output accepted at
         w is a prefix of the output accepted then;
       - a machine that was WAITING for the channel at w (FLUSH_WAIT) has started since, and the
         FIRST unit it started is exactly the unit pending at w (unit_of of the state at w: the
         newline, the text of its buffer as prepared, for the command machine the closing newline).

   Theorem 1 (C11_waiting_unit_kept) is the new invariant, for ANY scenario continuation from ANY
   scripted world; theorem 2 is the corollary from any world that satisfies the invariants;
   theorems 3, 4, 4d are the forms from cat_init (scenarios; histories of API calls; the same with
   the domain hypotheses decided by computation).  Proofs: Lemmas_C11l.v.

   Hypotheses: those of Properties_C15d.v (no mutex, well-formed descriptor, valid operations,
   scripts whose inner triggers are valid) and that of the stream theorems (no_rt_hold: scope
   decision D3, no HOLD answer in a read / test script; C11s_ex_hold_truncates in Properties_C11s.v
   shows that the stream equality fails without it, C11l_ex_hold_loses_waiting below that theorem 1
   fails without it). *)
From Coq Require Import List NArith ZArith Bool Arith Lia.
From Coq Require Import ZifyNat ZifyN.
From CatV Require Import Bytes Defs Codec Spec Fsm Script Skel SkelInv SkelSim TraceDefs ResolveDefs SchedDefs TermDefs.
From CatV Require Import Lemmas_C03 Lemmas_C11 Lemmas_C11s Lemmas_C15c Lemmas_Inv Lemmas_Inv2 Lemmas_C15d Lemmas_C11l.
From CatV Require Properties_C11s Properties_C15d.
Import ListNotations.
Local Open Scope nat_scope.

(* ------------------------------------------------------------------ *)
(* definitions used in the statements (Lemmas_C11l.v), restated          *)
(* ------------------------------------------------------------------ *)
(* From Lemmas_C11.v / Lemmas_C11s.v (see Properties_C11s.v): remaining, remaining_u, accepted_wr,
   excl, new_starts, unit_of, stream, stream_inv, units_of, Winv;  Lemmas_Inv2.v: sc_starts,
   sc_started, sc_sstarts, sc_sstarted (see Properties_Inv2.v);  SchedDefs.v: svc, nsvc. *)

(* neither machine owns the channel nor waits for it *)
Example def_not_flushing : forall s,
  not_flushing s =
  (k_state (k s) <> CS_FLUSH /\ k_state (k s) <> CS_FLUSH_WAIT /\
   u_state (u s) <> US_FLUSH /\ u_state (u s) <> US_FLUSH_WAIT).
Proof. reflexivity. Qed.

(* the first unit of producer f in a list of units *)
Example def_first_unit : forall f l, first_unit f l = hd_error (units_of f l).
Proof. reflexivity. Qed.

Example def_prefix : forall (A : Type) (l1 l2 : list A), prefix l1 l2 = exists r, l2 = l1 ++ r.
Proof. reflexivity. Qed.

(* the unit pending in a waiting machine: what it will send from its fresh cursor *)
Example def_pending : forall s,
  unit_of (ATCMD, s) = (ATCMD, remaining s) /\ unit_of (UNSOL, s) = (UNSOL, remaining_u s).
Proof. split; reflexivity. Qed.

(* n calls of cat_service are the scenario of n SOp OService *)
Theorem nsvc_is_srun : forall D n (w : sworld), nsvc D n w = srun D w (repeat (SOp OService) n).
Proof. exact Lemmas_C11l.nsvc_srun. Qed.
Print Assumptions nsvc_is_srun.

(* the units started along a scenario a ++ b are those of a followed by those of b *)
Theorem sc_sstarted_app : forall D a b (w : sworld),
  sc_sstarted D w (a ++ b) = sc_sstarted D w a ++ sc_sstarted D (srun D w a) b.
Proof. exact Lemmas_C11l.sc_sstarted_app. Qed.
Print Assumptions sc_sstarted_app.

(* ================================================================== *)
(* 1. a waiting unit is kept, and is the first its producer starts      *)
(* ================================================================== *)
(* ANY scripted world w, ANY scenario continuation (API calls, new input, stores; no cat_init):
   a unit pending in a machine that waits for the channel at w is, at the end, either still
   pending, untouched, with no session of that machine opened meanwhile, or it is the FIRST unit
   that machine has started since.  The command machine's half needs `no HOLD in the read / test
   scripts` (an event-side HOLD forces CS_HOLD); the event machine's half needs nothing. *)
Theorem C11_waiting_unit_kept : forall D (w : sworld) sops, Forall no_reinit sops ->
  let w' := srun D w sops in
  let new := sc_sstarted D w sops in
  (no_rt_hold (hs _ _ _ w) = true -> k_state (k (st _ _ _ w)) = CS_FLUSH_WAIT ->
     (k_state (k (st _ _ _ w')) = CS_FLUSH_WAIT /\ remaining (st _ _ _ w') = remaining (st _ _ _ w) /\
      units_of ATCMD new = []) \/
     first_unit ATCMD new = Some (unit_of (ATCMD, st _ _ _ w))) /\
  (u_state (u (st _ _ _ w)) = US_FLUSH_WAIT ->
     (u_state (u (st _ _ _ w')) = US_FLUSH_WAIT /\ remaining_u (st _ _ _ w') = remaining_u (st _ _ _ w) /\
      units_of UNSOL new = []) \/
     first_unit UNSOL new = Some (unit_of (UNSOL, st _ _ _ w))).
Proof. exact Lemmas_C11l.C11_waiting_unit_kept_proof. Qed.
Print Assumptions C11_waiting_unit_kept.

(* ================================================================== *)
(* 2. no unit is lost: from any world that satisfies the invariants     *)
(* ================================================================== *)
(* hypotheses 1-6: those of Properties_C15d.C15_quiescence_or_hold;  7-10: the one-step invariant
   of the stream theorems (Lemmas_Inv2.StI), `units` being the units started so far *)
Theorem C11_no_unit_lost_from : forall D m (w : sworld) units,
  d_mutex D = false ->
  wf_desc D m -> Safe D m (st _ _ _ w) ->
  J (ctl_of (st _ _ _ w)) ->
  script_ok (res_calls_ok D) (hs _ _ _ w) = true ->
  u_count (u (st _ _ _ w)) <= d_cap D ->
  Winv (st _ _ _ w) -> excl (st _ _ _ w) ->
  stream_inv (st _ _ _ w) (accepted_wr (hist _ _ _ w)) units ->
  no_rt_hold (hs _ _ _ w) = true ->
  exists n, n <= C15_bound D w + sched_left w /\
    let w' := nsvc D n w in
    let new := sc_sstarted D w (repeat (SOp OService) n) in
    not_flushing (st _ _ _ w') /\
    (exists crs, length crs = length (units ++ new) /\
       accepted_wr (hist _ _ _ w') = stream (units ++ new) crs) /\
    prefix (accepted_wr (hist _ _ _ w)) (accepted_wr (hist _ _ _ w')) /\
    (k_state (k (st _ _ _ w)) = CS_FLUSH_WAIT ->
       first_unit ATCMD new = Some (unit_of (ATCMD, st _ _ _ w))) /\
    (u_state (u (st _ _ _ w)) = US_FLUSH_WAIT ->
       first_unit UNSOL new = Some (unit_of (UNSOL, st _ _ _ w))).
Proof. exact Lemmas_C11l.C11_no_unit_lost_from_proof. Qed.
Print Assumptions C11_no_unit_lost_from.

(* ================================================================== *)
(* 3. from cat_init: every scenario                                     *)
(* ================================================================== *)
(* w: the world reached by ANY scripted scenario (API calls - cat_hold_exit included -, new input
   and application stores in any order).  Conclusion, for some n within the bound of C15:
     (a) n calls of cat_service are the scenario extended by n SOp OService;
     (b) at w: the stream invariant (a unit in flight at w is the LAST unit started at w);
     (c) at w': neither machine is in FLUSH or FLUSH_WAIT;
     (d) the units started at w are a prefix of the units started at w';
     (e) the output accepted at w' IS the stream of ALL units started up to w';
     (f) the output accepted at w is a prefix of it;
     (g) a unit pending in a waiting machine at w is the first unit that machine starts after w *)
Theorem C11_no_unit_lost_scenario : forall D m x mx h sops,
  d_mutex D = false -> wf_desc D m -> Forall (valid_sop D) sops ->
  no_rt_hold h = true -> script_ok (res_calls_valid D) h = true ->
  let w0 := sinit D m x mx h in
  let w := srun D w0 sops in
  exists n, n <= C15_bound D w + sched_left w /\
    let sops' := sops ++ repeat (SOp OService) n in
    let w' := nsvc D n w in
    let new := sc_sstarted D w (repeat (SOp OService) n) in
    w' = srun D w0 sops' /\
    stream_inv (st _ _ _ w) (accepted_wr (hist _ _ _ w)) (sc_sstarted D w0 sops) /\
    not_flushing (st _ _ _ w') /\
    sc_sstarted D w0 sops' = sc_sstarted D w0 sops ++ new /\
    (exists crs, length crs = length (sc_sstarted D w0 sops') /\
       accepted_wr (hist _ _ _ w') = stream (sc_sstarted D w0 sops') crs) /\
    prefix (accepted_wr (hist _ _ _ w)) (accepted_wr (hist _ _ _ w')) /\
    (k_state (k (st _ _ _ w)) = CS_FLUSH_WAIT ->
       first_unit ATCMD new = Some (unit_of (ATCMD, st _ _ _ w))) /\
    (u_state (u (st _ _ _ w)) = US_FLUSH_WAIT ->
       first_unit UNSOL new = Some (unit_of (UNSOL, st _ _ _ w))).
Proof. exact Lemmas_C11l.C11_no_unit_lost_scenario_proof. Qed.
Print Assumptions C11_no_unit_lost_scenario.

(* ================================================================== *)
(* 4. from cat_init: histories of API calls                             *)
(* ================================================================== *)
Theorem C11_no_unit_lost_history : forall D m x mx h ops,
  d_mutex D = false -> wf_desc D m -> Forall (valid_op D) ops ->
  no_rt_hold h = true -> script_ok (res_calls_valid D) h = true ->
  let w0 := sinit D m x mx h in
  let w := srun D w0 (map SOp ops) in
  exists n, n <= C15_bound D w + sched_left w /\
    let ops' := ops ++ repeat OService n in
    let w' := nsvc D n w in
    let new := sc_started D w (repeat OService n) in
    w' = srun D w0 (map SOp ops') /\
    stream_inv (st _ _ _ w) (accepted_wr (hist _ _ _ w)) (sc_started D w0 ops) /\
    not_flushing (st _ _ _ w') /\
    sc_started D w0 ops' = sc_started D w0 ops ++ new /\
    (exists crs, length crs = length (sc_started D w0 ops') /\
       accepted_wr (hist _ _ _ w') = stream (sc_started D w0 ops') crs) /\
    prefix (accepted_wr (hist _ _ _ w)) (accepted_wr (hist _ _ _ w')) /\
    (k_state (k (st _ _ _ w)) = CS_FLUSH_WAIT ->
       first_unit ATCMD new = Some (unit_of (ATCMD, st _ _ _ w))) /\
    (u_state (u (st _ _ _ w)) = US_FLUSH_WAIT ->
       first_unit UNSOL new = Some (unit_of (UNSOL, st _ _ _ w))).
Proof. exact Lemmas_C11l.C11_no_unit_lost_history_proof. Qed.
Print Assumptions C11_no_unit_lost_history.

(* 4d. the same, every hypothesis a boolean computation (wf_descb, valid_opb: Properties_Inv2.v) *)
Theorem C11_no_unit_lost_history_decided : forall D m x mx h ops,
  d_mutex D = false -> wf_descb D m = true -> forallb (valid_opb D) ops = true ->
  no_rt_hold h = true -> script_ok (res_calls_valid D) h = true ->
  let w0 := sinit D m x mx h in
  let w := srun D w0 (map SOp ops) in
  exists n, n <= C15_bound D w + sched_left w /\
    let ops' := ops ++ repeat OService n in
    let w' := nsvc D n w in
    let new := sc_started D w (repeat OService n) in
    w' = srun D w0 (map SOp ops') /\
    stream_inv (st _ _ _ w) (accepted_wr (hist _ _ _ w)) (sc_started D w0 ops) /\
    not_flushing (st _ _ _ w') /\
    sc_started D w0 ops' = sc_started D w0 ops ++ new /\
    (exists crs, length crs = length (sc_started D w0 ops') /\
       accepted_wr (hist _ _ _ w') = stream (sc_started D w0 ops') crs) /\
    prefix (accepted_wr (hist _ _ _ w)) (accepted_wr (hist _ _ _ w')) /\
    (k_state (k (st _ _ _ w)) = CS_FLUSH_WAIT ->
       first_unit ATCMD new = Some (unit_of (ATCMD, st _ _ _ w))) /\
    (u_state (u (st _ _ _ w)) = US_FLUSH_WAIT ->
       first_unit UNSOL new = Some (unit_of (UNSOL, st _ _ _ w))).
Proof. exact Lemmas_C11l.C11_no_unit_lost_history_decided_proof. Qed.
Print Assumptions C11_no_unit_lost_history_decided.

(* ------------------------------------------------------------------ *)
(* non-vacuity: computed examples                                       *)
(* ------------------------------------------------------------------ *)
(* The descriptor, start world and operations of Properties_C11s.v: one command "+X" with run and
   read handlers, no mutex, queue capacity 2; input "AT+X?\r\n" "AT+X\r\n" "AT+X?\n"; the read
   handler answers DATA_OK five times; a write schedule with 12 refusals.  The worlds are named by
   notations (not definitions), see the lesson in Properties_Inv2Ex.v. *)
Local Notation exD := Properties_C11s.exD.
Local Notation ex_x :=
  (mkSio [65;84;43;88;63;13;10; 65;84;43;88;13;10; 65;84;43;88;63;10]%N []
         [false; true; false; false; true; true; false; true; false; true; false; false; false; true;
          true; true; false; true; true; false; false; true]).
Local Notation ex_mx := (mkSmu [] []).
Local Notation ex_h := ([((1, 0, 0), repeat (mkHres RC_DATA_OK None [] []) 5)] : shs).
Local Notation ex_w0 := (sinit exD [] ex_x ex_mx ex_h).
(* the first 30 operations: a trigger, 12 services, two triggers, 15 services; the first 40: 10 more *)
Local Notation ops30 := (firstn 30 Properties_C11s.ex_ops).
Local Notation ops40 := (firstn 40 Properties_C11s.ex_ops).
Local Notation w30 := (srun exD ex_w0 (map SOp ops30)).
Local Notation w40 := (srun exD ex_w0 (map SOp ops40)).

Example C11l_ex_same_world : ex_w0 = Properties_C11s.ex_w0.
Proof. reflexivity. Qed.

Definition refused (h : list event) : nat :=
  length (filter (fun e => match e with EWr _ _ false => true | _ => false end) h).

(* the hypotheses of theorem 4d hold, for both prefixes *)
Example C11l_ex_hypotheses :
  d_mutex exD = false /\ wf_descb exD [] = true /\
  forallb (valid_opb exD) ops30 = true /\ forallb (valid_opb exD) ops40 = true /\
  no_rt_hold ex_h = true /\ script_ok (res_calls_valid exD) ex_h = true.
Proof. vm_compute. repeat split; reflexivity. Qed.

(* A. stopped in the middle of a unit.  After 30 operations the command machine is in CS_FLUSH:
   of its unit "\r\n+X=\r\n" four bytes have been accepted, "=\r\n" remains; ten write attempts
   have been refused so far and the schedule will refuse again; the event machine WAITS
   (US_FLUSH_WAIT) with the unit "\r\n+X=" pending; two more input lines are unread *)
Example C11l_ex_mid_unit :
  k_state (k (st _ _ _ w30)) = CS_FLUSH /\ u_state (u (st _ _ _ w30)) = US_FLUSH_WAIT /\
  refused (hist _ _ _ w30) = 10 /\ wr_sched (io _ _ _ w30) = [false; true] /\
  length (inq (io _ _ _ w30)) = 12 /\
  sc_started exD ex_w0 ops30 = [(UNSOL, [10; 43; 88; 61]); (ATCMD, [13; 10; 43; 88; 61; 13; 10])]%N /\
  accepted_wr (hist _ _ _ w30) =
    stream [(UNSOL, [10; 43; 88; 61]%N)] [true] ++ map (pair ATCMD) [13; 10; 43; 88]%N /\
  remaining (st _ _ _ w30) = [61; 13; 10]%N /\
  unit_of (UNSOL, st _ _ _ w30) = (UNSOL, [13; 10; 43; 88; 61]%N) /\
  N.of_nat (C15_bound exD w30 + sched_left w30) = 170622%N.
Proof. vm_compute. repeat split; reflexivity. Qed.

(* ... 79 calls of cat_service later (one more refusal) the run is idle with the input consumed:
   the conclusion of theorem 4, with n = 79.  Eight units have been started, the first two at w30;
   the unit that was in flight and the six started since have been written completely: the 47
   accepted bytes are the stream of the eight units; the first unit the event machine started
   after w30 is the unit that was pending at w30 *)
Example C11l_ex_mid_unit_completed :
  let n := 79 in
  let w' := nsvc exD n w30 in
  let new := sc_started exD w30 (repeat OService n) in
  w' = srun exD ex_w0 (map SOp (ops30 ++ repeat OService n)) /\
  k_state (k (st _ _ _ w')) = CS_IDLE /\ u_state (u (st _ _ _ w')) = US_IDLE /\ inq (io _ _ _ w') = [] /\
  refused (hist _ _ _ w') = 11 /\
  new = [(UNSOL, [13; 10; 43; 88; 61]); (ATCMD, [13; 10; 79; 75; 13; 10]);
         (UNSOL, [13; 10; 43; 88; 61]); (ATCMD, [13; 10; 79; 75; 13; 10]);
         (ATCMD, [10; 43; 88; 61; 10]); (ATCMD, [10; 79; 75; 10])]%N /\
  sc_started exD ex_w0 (ops30 ++ repeat OService n) = sc_started exD ex_w0 ops30 ++ new /\
  length (accepted_wr (hist _ _ _ w')) = 47 /\
  accepted_wr (hist _ _ _ w') =
    stream (sc_started exD ex_w0 (ops30 ++ repeat OService n))
           [true; false; true; false; false; false; false; false] /\
  first_unit UNSOL new = Some (unit_of (UNSOL, st _ _ _ w30)) /\
  (N.of_nat n <= 170622)%N.
Proof. vm_compute. repeat split; try reflexivity. discriminate. Qed.

(* B. the other way round.  After 40 operations the event machine owns the channel (US_FLUSH,
   "\r\n" of its unit accepted, "+X=" remains) and the COMMAND machine waits (CS_FLUSH_WAIT) with
   "\r\nOK\r\n" pending; 69 calls later everything is out, and the first unit the command machine
   started after w40 is "\r\nOK\r\n" *)
Example C11l_ex_cmd_waits :
  let n := 69 in
  let w' := nsvc exD n w40 in
  let new := sc_started exD w40 (repeat OService n) in
  k_state (k (st _ _ _ w40)) = CS_FLUSH_WAIT /\ u_state (u (st _ _ _ w40)) = US_FLUSH /\
  remaining_u (st _ _ _ w40) = [43; 88; 61]%N /\
  unit_of (ATCMD, st _ _ _ w40) = (ATCMD, [13; 10; 79; 75; 13; 10]%N) /\
  sc_started exD ex_w0 ops40 =
    [(UNSOL, [10; 43; 88; 61]); (ATCMD, [13; 10; 43; 88; 61; 13; 10]); (UNSOL, [13; 10; 43; 88; 61])]%N /\
  k_state (k (st _ _ _ w')) = CS_IDLE /\ u_state (u (st _ _ _ w')) = US_IDLE /\ inq (io _ _ _ w') = [] /\
  new = [(ATCMD, [13; 10; 79; 75; 13; 10]); (UNSOL, [13; 10; 43; 88; 61]);
         (ATCMD, [13; 10; 79; 75; 13; 10]); (ATCMD, [10; 43; 88; 61; 10]); (ATCMD, [10; 79; 75; 10])]%N /\
  accepted_wr (hist _ _ _ w') =
    stream (sc_started exD ex_w0 ops40 ++ new) [true; false; true; false; false; false; false; false] /\
  first_unit ATCMD new = Some (unit_of (ATCMD, st _ _ _ w40)) /\
  N.of_nat (C15_bound exD w40 + sched_left w40) = 170620%N.
Proof. vm_compute. repeat split; reflexivity. Qed.

(* the bound as a number (generic over the world, cf. Properties_C15d.ex_applies) *)
Lemma ex_applies : forall D (w : sworld) (b : N) (P : nat -> Prop),
  (exists n, n <= C15_bound D w + sched_left w /\ P n) ->
  N.of_nat (C15_bound D w + sched_left w) = b -> exists n, (N.of_nat n <= b)%N /\ P n.
Proof. intros D w b P (n & Hn & Hp) Hb. exists n. split; [rewrite <- Hb; lia | exact Hp]. Qed.

(* theorem 4d applies to w30: the conclusion, with the bound as a number *)
Example C11l_ex_theorem_applies :
  exists n, (N.of_nat n <= 170622)%N /\
    let ops' := ops30 ++ repeat OService n in
    let w' := nsvc exD n w30 in
    let new := sc_started exD w30 (repeat OService n) in
    w' = srun exD ex_w0 (map SOp ops') /\
    stream_inv (st _ _ _ w30) (accepted_wr (hist _ _ _ w30)) (sc_started exD ex_w0 ops30) /\
    not_flushing (st _ _ _ w') /\
    sc_started exD ex_w0 ops' = sc_started exD ex_w0 ops30 ++ new /\
    (exists crs, length crs = length (sc_started exD ex_w0 ops') /\
       accepted_wr (hist _ _ _ w') = stream (sc_started exD ex_w0 ops') crs) /\
    prefix (accepted_wr (hist _ _ _ w30)) (accepted_wr (hist _ _ _ w')) /\
    (k_state (k (st _ _ _ w30)) = CS_FLUSH_WAIT ->
       first_unit ATCMD new = Some (unit_of (ATCMD, st _ _ _ w30))) /\
    (u_state (u (st _ _ _ w30)) = US_FLUSH_WAIT ->
       first_unit UNSOL new = Some (unit_of (UNSOL, st _ _ _ w30))).
Proof.
  destruct C11l_ex_hypotheses as (H1 & H2 & H3 & _ & H5 & H6).
  destruct C11l_ex_mid_unit as (_ & _ & _ & _ & _ & _ & _ & _ & _ & Hb).
  exact (ex_applies exD w30 170622%N _
           (C11_no_unit_lost_history_decided exD [] ex_x ex_mx ex_h ops30 H1 H2 H3 H5 H6) Hb).
Qed.

(* ... and to w40 *)
Example C11l_ex_theorem_applies_40 :
  exists n, (N.of_nat n <= 170620)%N /\
    let ops' := ops40 ++ repeat OService n in
    let w' := nsvc exD n w40 in
    let new := sc_started exD w40 (repeat OService n) in
    w' = srun exD ex_w0 (map SOp ops') /\
    stream_inv (st _ _ _ w40) (accepted_wr (hist _ _ _ w40)) (sc_started exD ex_w0 ops40) /\
    not_flushing (st _ _ _ w') /\
    sc_started exD ex_w0 ops' = sc_started exD ex_w0 ops40 ++ new /\
    (exists crs, length crs = length (sc_started exD ex_w0 ops') /\
       accepted_wr (hist _ _ _ w') = stream (sc_started exD ex_w0 ops') crs) /\
    prefix (accepted_wr (hist _ _ _ w40)) (accepted_wr (hist _ _ _ w')) /\
    (k_state (k (st _ _ _ w40)) = CS_FLUSH_WAIT ->
       first_unit ATCMD new = Some (unit_of (ATCMD, st _ _ _ w40))) /\
    (u_state (u (st _ _ _ w40)) = US_FLUSH_WAIT ->
       first_unit UNSOL new = Some (unit_of (UNSOL, st _ _ _ w40))).
Proof.
  destruct C11l_ex_hypotheses as (H1 & H2 & _ & H4 & H5 & H6).
  destruct C11l_ex_cmd_waits as (_ & _ & _ & _ & _ & _ & _ & _ & _ & _ & _ & Hb).
  exact (ex_applies exD w40 170620%N _
           (C11_no_unit_lost_history_decided exD [] ex_x ex_mx ex_h ops40 H1 H2 H4 H5 H6) Hb).
Qed.

(* the hypothesis `no HOLD in the read / test scripts` of theorem 1 (command machine's half) is
   NECESSARY over arbitrary worlds.  The world of Properties_C15d.C15d_ex_event_side_hold after one
   call (the event machine is in its read loop, the read script answers HOLD), with the command
   machine put into CS_FLUSH_WAIT (pending: "\n\n"): the next call forces CS_HOLD; the machine has
   left its wait state, no session has been opened in 40 calls: the pending unit is lost *)
Local Notation w_bad :=
  (upd_st sio smu shs (setk_state CS_FLUSH_WAIT) (nsvc exD 1 Properties_C15d.exWe)).
Example C11l_ex_hold_loses_waiting :
  k_state (k (st _ _ _ w_bad)) = CS_FLUSH_WAIT /\ u_state (u (st _ _ _ w_bad)) = US_READ_LOOP /\
  unit_of (ATCMD, st _ _ _ w_bad) = (ATCMD, [10; 10]%N) /\
  no_rt_hold (hs _ _ _ w_bad) = false /\
  k_state (k (st _ _ _ (nsvc exD 1 w_bad))) = CS_HOLD /\
  k_state (k (st _ _ _ (nsvc exD 40 w_bad))) = CS_HOLD /\
  sc_sstarted exD w_bad (repeat (SOp OService) 40) = [] /\
  first_unit ATCMD (sc_sstarted exD w_bad (repeat (SOp OService) 40)) = None.
Proof. vm_compute. repeat split; reflexivity. Qed.
