(* Lemmas_Inv2.v — second batch of history theorems transferred from hypotheses quantified over
   ALL oracle states (no_uhold, handlers_valid) to oracles that behave on an invariant of their own
   state, and to the scripted worlds of Script.v.  Continuation of Lemmas_Inv.v, same technique:
   the run driven by h_call equals the run driven by a sanitised oracle on the invariant; the
   existing theorem is applied to the sanitised oracle, nothing is proved again.

   Lifted here:
     C11s / C18s   the whole-stream theorems (need no_uhold only).  Their conclusions mention the
                   oracle through `starts` (the sessions opened along the history, computed by
                   stepping): starts_sanH shows that the sanitised oracle opens the same sessions;
     C13o          in progress / queue valid / observers exact / OK means all processed, and
     C03c          lengths of the buffers: they need handlers_valid ONLY, so a third sanitised
                   oracle h_sanV (drops the invalid inner calls, keeps HOLD answers) gives them
                   on an invariant that says nothing about HOLD;
     C02c          request type in the loops, callbacks of a history (need both: invariant Good);
     C01s          gL counts lines, idle iff blank, no read ahead (need both);
     C09c          no oracle hypothesis at all: instances for the scripted worlds only.
   Section 5: boolean deciders for the domain hypotheses (valid_opb, valid_sopb, wf_descb) with their
   soundness lemmas, so that concrete instances are discharged by computation.
   Section 6: scenario forms (API calls, SFeed, SPoke in any order) for the theorems that have a
   one-step form: the step is transferred to the sanitised oracle by step_sanH / step_sanV /
   step_san, SFeed changes the io state only, SPoke only the variable storage (apply_poke_eff). *)
From Coq Require Import List NArith ZArith Bool Arith Lia.
From CatV Require Import Bytes Defs Codec Spec Fsm Script Skel SkelInv SkelSim EvSkelSim TraceDefs ResolveDefs SchedDefs TermDefs.
From CatV Require Import Lemmas_Ctl Lemmas_C03 Lemmas_Domain Lemmas_C12 Lemmas_C13 Lemmas_C11 Lemmas_C11s Lemmas_C01s Lemmas_Inv.
From CatV Require Properties_C11s Properties_C18s Properties_C13o Properties_C02c Properties_C09c Properties_C03c
                  Properties_C01s.
Import ListNotations.
Local Open Scope nat_scope.

(* ================================================================== *)
(* 0. a third sanitised oracle: only the invalid inner calls are dropped *)
(* ================================================================== *)
Definition fix_calls (D : desc) (r : hres) : hres :=
  mkHres (r_code r) (r_edit r) (r_pokes r) (filter (valid_icallb D) (r_calls r)).

Lemma fix_calls_valid : forall D r, Forall (valid_icall D) (r_calls (fix_calls D r)).
Proof.
  intros D r. cbn [fix_calls r_calls]. apply Forall_forall. intros c Hc.
  apply filter_In in Hc. apply valid_icallb_spec. apply Hc.
Qed.

Lemma filter_all : forall (A : Type) (f : A -> bool) l, forallb f l = true -> filter f l = l.
Proof.
  intros A f. induction l as [|a l IH]; intros H; [reflexivity|]. cbn [forallb] in H.
  apply andb_true_iff in H. destruct H as [Ha Hl]. cbn [filter]. rewrite Ha, (IH Hl). reflexivity.
Qed.

Lemma fix_calls_id : forall D r, Forall (valid_icall D) (r_calls r) -> fix_calls D r = r.
Proof.
  intros D [c e p l] H. cbn [r_calls] in H. unfold fix_calls. cbn [r_code r_edit r_pokes r_calls].
  rewrite (filter_all _ _ l (proj2 (forallb_valid D l) H)). reflexivity.
Qed.

(* ================================================================== *)
(* 1. theorems that need `no event-side HOLD` only: C11s, C18s, C01s    *)
(* ================================================================== *)
Section InvH2.
Variable D : desc.
Variables ioS muS hS : Type.
Variable io_read : ioS -> ioS * option N.
Variable io_write : ioS -> N -> ioS * bool.
Variable mu_lock : muS -> muS * bool.
Variable mu_unlock : muS -> muS * bool.
Variable h_call : hS -> hreq -> hS * hres.
Variable HI : hS -> Prop.
Hypothesis HI_stepH : forall h q, HI h ->
  HI (fst (h_call h q)) /\ (unsol_req q = true -> r_code (snd (h_call h q)) <> RC_HOLD).

Local Notation world := (Fsm.world ioS muS hS).
Local Notation st := (Fsm.st ioS muS hS).
Local Notation hs := (Fsm.hs ioS muS hS).
Local Notation tr := (Fsm.tr ioS muS hS).
Local Notation hist := (TraceDefs.hist ioS muS hS).
Local Notation run := (Fsm.run D ioS muS hS io_read io_write mu_lock mu_unlock h_call).
Local Notation step := (Fsm.step D ioS muS hS io_read io_write mu_lock mu_unlock h_call).
Local Notation init m x mx h := (mkWorld ioS muS hS (init_state D m) x mx h []).
Local Notation reach m x mx h ops := (run (init m x mx h) ops).
Local Notation hsan := (h_sanH hS h_call).
Local Notation NU := (h_sanH_no_uhold hS h_call).
Local Notation stepH := (Fsm.step D ioS muS hS io_read io_write mu_lock mu_unlock hsan).
Local Notation starts := (Lemmas_C11s.starts D ioS muS hS io_read io_write mu_lock mu_unlock h_call).
Local Notation started := (Lemmas_C11s.started D ioS muS hS io_read io_write mu_lock mu_unlock h_call).
Local Notation startsH := (Lemmas_C11s.starts D ioS muS hS io_read io_write mu_lock mu_unlock hsan).
Local Notation startedH := (Lemmas_C11s.started D ioS muS hS io_read io_write mu_lock mu_unlock hsan).
Local Notation RS := (run_sanH D ioS muS hS io_read io_write mu_lock mu_unlock h_call HI HI_stepH).
Local Notation SS := (step_sanH D ioS muS hS io_read io_write mu_lock mu_unlock h_call HI HI_stepH).
Local Notation ARGS T := (T D ioS muS hS io_read io_write mu_lock mu_unlock hsan).

(* the sanitised oracle opens the same flush sessions *)
Lemma starts_sanH : forall ops (w : world), HI (hs w) -> startsH w ops = starts w ops.
Proof.
  induction ops as [|o ops IH]; intros w H; [reflexivity|]. cbn [Lemmas_C11s.starts].
  destruct (SS w o H) as [E W]. rewrite E, (IH _ W). reflexivity.
Qed.

Lemma started_sanH : forall ops (w : world), HI (hs w) -> startedH w ops = started w ops.
Proof. intros ops w H. unfold Lemmas_C11s.started. rewrite (starts_sanH ops w H). reflexivity. Qed.

Ltac to_san m x mx h ops Hh :=
  cbv zeta;
  rewrite <- ?(started_sanH ops (init m x mx h) Hh), <- ?(starts_sanH ops (init m x mx h) Hh),
          <- (proj1 (RS (init m x mx h) ops Hh)).

Theorem C11_stream_any_inv : forall m x mx h ops, HI h ->
  let w := reach m x mx h ops in
  stream_inv (st w) (accepted_wr (hist w)) (started (init m x mx h) ops).
Proof.
  intros m x mx h ops Hh. to_san m x mx h ops Hh.
  exact (ARGS Properties_C11s.C11_stream_any NU m x mx h ops).
Qed.

Theorem C11_stream_inv : forall m x mx h ops, HI h ->
  let w := reach m x mx h ops in
  k_state (k (st w)) <> CS_FLUSH -> u_state (u (st w)) <> US_FLUSH ->
  exists crs, length crs = length (started (init m x mx h) ops) /\
    accepted_wr (hist w) = stream (started (init m x mx h) ops) crs.
Proof.
  intros m x mx h ops Hh. to_san m x mx h ops Hh.
  exact (ARGS Properties_C11s.C11_stream NU m x mx h ops).
Qed.

Theorem C11_stream_per_producer_inv : forall m x mx h ops, HI h ->
  let w := reach m x mx h ops in
  k_state (k (st w)) <> CS_FLUSH -> u_state (u (st w)) <> US_FLUSH ->
  proj ATCMD (accepted_wr (hist w)) = concat (map snd (units_of ATCMD (started (init m x mx h) ops))) /\
  exists ucrs, length ucrs = length (units_of UNSOL (started (init m x mx h) ops)) /\
    proj UNSOL (accepted_wr (hist w)) =
      concat (map (fun p => snd (fst p) ++ nl_text (snd p))
                  (combine (units_of UNSOL (started (init m x mx h) ops)) ucrs)).
Proof.
  intros m x mx h ops Hh. to_san m x mx h ops Hh.
  exact (ARGS Properties_C11s.C11_stream_per_producer NU m x mx h ops).
Qed.

Theorem C18_busy_stream_complete_inv : forall m x mx h ops, HI h ->
  let w := reach m x mx h ops in
  is_busy (st w) = ST_OK ->
  Forall whole_unit (starts (init m x mx h) ops) /\
  exists crs, length crs = length (started (init m x mx h) ops) /\
    accepted_wr (hist w) = stream (started (init m x mx h) ops) crs.
Proof.
  intros m x mx h ops Hh. to_san m x mx h ops Hh.
  exact (ARGS Properties_C18s.C18_busy_stream_complete NU m x mx h ops).
Qed.

(* C01s: the counting theorem for any descriptor, as long as no fault has been raised *)
Theorem C01_gL_counts_lines_nofault_inv : forall m x mx h ops, HI h ->
  let w := reach m x mx h ops in
  fault (st w) = false -> gL (st w) = nonblank_lines false (consumed (tr w)).
Proof.
  intros m x mx h ops Hh. to_san m x mx h ops Hh.
  exact (ARGS Properties_C01s.C01_gL_counts_lines_nofault NU m x mx h ops).
Qed.

(* any world whose handler state satisfies the invariant: a read is made only by cat_service in a
   reading state *)
Theorem C01_read_implies_reading_state_inv : forall (w : world) o evs r, HI (hs w) ->
  tr (step w o) = evs ++ tr w -> In (ERd r) evs ->
  o = OService /\ reading_state (k_state (k (st w))) = true.
Proof.
  intros w o evs r Hh. rewrite <- (proj1 (SS w o Hh)).
  exact (ARGS Properties_C01s.C01_read_implies_reading_state NU w o evs r).
Qed.
End InvH2.

(* ================================================================== *)
(* 2. theorems that need handlers_valid only: C13o, C03c                *)
(* ================================================================== *)
Section InvV.
Variable D : desc.
Variables ioS muS hS : Type.
Variable io_read : ioS -> ioS * option N.
Variable io_write : ioS -> N -> ioS * bool.
Variable mu_lock : muS -> muS * bool.
Variable mu_unlock : muS -> muS * bool.
Variable h_call : hS -> hreq -> hS * hres.
Variable HV : hS -> Prop.
(* the handlers called from HV states only trigger valid events; nothing is said about HOLD *)
Hypothesis HV_step : forall h q, HV h ->
  HV (fst (h_call h q)) /\ Forall (valid_icall D) (r_calls (snd (h_call h q))).

Local Notation world := (Fsm.world ioS muS hS).
Local Notation st := (Fsm.st ioS muS hS).
Local Notation hs := (Fsm.hs ioS muS hS).
Local Notation hist := (TraceDefs.hist ioS muS hS).
Local Notation run := (Fsm.run D ioS muS hS io_read io_write mu_lock mu_unlock h_call).
Local Notation step := (Fsm.step D ioS muS hS io_read io_write mu_lock mu_unlock h_call).
Local Notation do_op := (Fsm.do_op D ioS muS hS io_read io_write mu_lock mu_unlock h_call).
Local Notation init m x mx h := (mkWorld ioS muS hS (init_state D m) x mx h []).
Local Notation reach m x mx h ops := (run (init m x mx h) ops).
Local Notation in_progress := (Properties_C13o.in_progress ioS muS hS).

Definition h_sanV (h : hS) (q : hreq) : hS * hres :=
  let (h', r) := h_call h q in (h', fix_calls D r).

Lemma h_sanV_valid : forall h q, Forall (valid_icall D) (r_calls (snd (h_sanV h q))).
Proof. intros h q. unfold h_sanV. destruct (h_call h q) as [h' r]. apply fix_calls_valid. Qed.

Lemma h_sanV_eq : forall h q, HV h -> h_sanV h q = h_call h q.
Proof.
  intros h q H. destruct (HV_step h q H) as [_ G]. unfold h_sanV.
  destruct (h_call h q) as [h' r]. cbn [snd] in G. rewrite (fix_calls_id D r G). reflexivity.
Qed.

Local Notation TRV T := (T D ioS muS hS io_read io_write mu_lock mu_unlock mu_unlock h_call h_sanV HV
                           (fun _ : muS => True) h_sanV_eq (fun h q Hh => proj1 (HV_step h q Hh))
                           (fun m _ => eq_refl) (fun m _ => I) (fun m _ => I)).
Local Notation runV := (Fsm.run D ioS muS hS io_read io_write mu_lock mu_unlock h_sanV).
Local Notation stepV := (Fsm.step D ioS muS hS io_read io_write mu_lock mu_unlock h_sanV).
Local Notation do_opV := (Fsm.do_op D ioS muS hS io_read io_write mu_lock mu_unlock h_sanV).
Local Notation ARGS T := (T D ioS muS hS io_read io_write mu_lock mu_unlock h_sanV).

Theorem run_sanV : forall (w : world) ops, HV (hs w) -> runV w ops = run w ops /\ HV (hs (run w ops)).
Proof.
  intros w ops H. destruct (TRV run_agree ops w (conj H I)) as [E W]. split; [exact E | exact (proj1 W)].
Qed.

Theorem step_sanV : forall (w : world) o, HV (hs w) -> stepV w o = step w o /\ HV (hs (step w o)).
Proof.
  intros w o H. destruct (TRV step_agree w o (conj H I)) as [E W]. split; [exact E | exact (proj1 W)].
Qed.

Lemma do_op_sanV : forall (w : world) o, HV (hs w) -> do_opV w o = do_op w o.
Proof. intros w o H. exact (proj1 (TRV do_op_agree w o (conj H I))). Qed.

Theorem HV_reachable : forall (w : world) ops, HV (hs w) -> HV (hs (run w ops)).
Proof. intros w ops H. exact (proj2 (run_sanV w ops H)). Qed.

Ltac to_san m x mx h ops Hh :=
  cbv zeta; rewrite <- (proj1 (run_sanV (init m x mx h) ops Hh)).

(* ---- C13o ---- *)
Theorem C13_in_progress_inv : forall m x mx h ops, HV h ->
  0 < d_cap D -> Forall (valid_op D) ops ->
  let w := reach m x mx h ops in
  (u_state (u (st w)) = US_IDLE -> u_cmd (u (st w)) = None) /\
  (u_state (u (st w)) <> US_IDLE ->
     exists p ci t, popped (hist w) = p ++ [(ci, t)] /\ u_cmd (u (st w)) = Some ci /\ u_type (u (st w)) = t).
Proof.
  intros m x mx h ops Hh Hc F. to_san m x mx h ops Hh.
  exact (ARGS Properties_C13o.C13_in_progress m x mx h ops Hc h_sanV_valid F).
Qed.

Theorem C13_queue_valid_inv : forall m x mx h ops, HV h ->
  0 < d_cap D -> Forall (valid_op D) ops ->
  let w := reach m x mx h ops in
  Forall (fun it => valid_trigger D (fst it) (snd it)) (ring_items D (st w)).
Proof.
  intros m x mx h ops Hh Hc F. to_san m x mx h ops Hh.
  exact (ARGS Properties_C13o.C13_queue_valid m x mx h ops Hc h_sanV_valid F).
Qed.

Theorem C13_observers_exact_inv : forall m x mx h ops, HV h ->
  0 < d_cap D -> Forall (valid_op D) ops ->
  let w := reach m x mx h ops in
  (forall ci t, is_event_buffered D (st w) ci t = ST_BUSY <->
     exists it, In it (in_progress w ++ ring_items D (st w)) /\ ev_match ci t it = true) /\
  get_processed (st w) UNSOL = match in_progress w with [] => (-1)%Z | it :: _ => Z.of_nat (fst it) end.
Proof.
  intros m x mx h ops Hh Hc F. to_san m x mx h ops Hh.
  exact (ARGS Properties_C13o.C13_observers_exact m x mx h ops Hc h_sanV_valid F).
Qed.

Theorem C13_ok_means_all_processed_inv : forall m x mx h ops, HV h ->
  0 < d_cap D -> Forall (valid_op D) ops ->
  let w := reach m x mx h ops in
  snd (do_op w OService) = ST_OK ->
  pushed (d_cap D) (hist w) = popped (hist w) /\
  ((d_mutex D = false \/ (forall m, snd (mu_unlock m) = true)) -> accepted (hist w) = popped (hist w)) /\
  ring_items D (st w) = [] /\
  u_state (u (st w)) = US_IDLE /\ u_cmd (u (st w)) = None /\ in_progress w = [] /\
  (forall ci t, is_event_buffered D (st w) ci t = ST_OK) /\
  get_processed (st w) UNSOL = (-1)%Z /\
  st (step w OService) = st w.
Proof.
  intros m x mx h ops Hh Hc F. cbv zeta.
  pose proof (HV_reachable (init m x mx h) ops Hh) as Hw.
  rewrite <- (do_op_sanV _ OService Hw), <- (proj1 (step_sanV _ OService Hw)).
  rewrite <- (proj1 (run_sanV (init m x mx h) ops Hh)).
  exact (ARGS Properties_C13o.C13_ok_means_all_processed m x mx h ops Hc h_sanV_valid F).
Qed.

(* ---- C03c ---- *)
Theorem C03_lengths_reachable_inv : forall m x mx h ops, HV h ->
  wf_desc D m -> Forall (valid_op D) ops ->
  let s := st (reach m x mx h ops) in
  length (cbuf s) = asz_of D /\ length (ubuf s) = usz_of D /\ length (u_ring (u s)) = d_cap D /\
  map (@length N) (mem s) = map (@length N) m.
Proof.
  intros m x mx h ops Hh WF F. to_san m x mx h ops Hh.
  exact (ARGS Properties_C03c.C03_lengths_reachable h_sanV_valid m x mx h ops WF F).
Qed.

(* the fault flag is never raised: needs handlers_valid only as well (Lemmas_C03.C03_no_fault) *)
Theorem C03_no_fault_invV : forall m x mx h ops, HV h ->
  wf_desc D m -> Forall (valid_op D) ops ->
  fault (st (reach m x mx h ops)) = false.
Proof.
  intros m x mx h ops Hh WF F. to_san m x mx h ops Hh.
  exact (ARGS C03_no_fault h_sanV_valid m x mx h ops WF F).
Qed.
End InvV.

(* ================================================================== *)
(* 3. theorems of the supported domain (every answer Good): C02c, C01s  *)
(* ================================================================== *)
Section InvD2.
Variable D : desc.
Variables ioS muS hS : Type.
Variable io_read : ioS -> ioS * option N.
Variable io_write : ioS -> N -> ioS * bool.
Variable mu_lock : muS -> muS * bool.
Variable mu_unlock : muS -> muS * bool.
Variable h_call : hS -> hreq -> hS * hres.
Variable HI : hS -> Prop.
Hypothesis HI_step : forall h q, HI h -> HI (fst (h_call h q)) /\ Good D q (snd (h_call h q)).

Local Notation world := (Fsm.world ioS muS hS).
Local Notation st := (Fsm.st ioS muS hS).
Local Notation hs := (Fsm.hs ioS muS hS).
Local Notation tr := (Fsm.tr ioS muS hS).
Local Notation run := (Fsm.run D ioS muS hS io_read io_write mu_lock mu_unlock h_call).
Local Notation step := (Fsm.step D ioS muS hS io_read io_write mu_lock mu_unlock h_call).
Local Notation init m x mx h := (mkWorld ioS muS hS (init_state D m) x mx h []).
Local Notation reach m x mx h ops := (run (init m x mx h) ops).
Local Notation hsan := (h_san D hS h_call).
Local Notation NU := (h_san_no_uhold D hS h_call).
Local Notation HVa := (h_san_valid D hS h_call).
Local Notation run' := (Fsm.run D ioS muS hS io_read io_write mu_lock mu_unlock hsan).
Local Notation RS := (run_san D ioS muS hS io_read io_write mu_lock mu_unlock h_call HI HI_step).
Local Notation SS := (step_san D ioS muS hS io_read io_write mu_lock mu_unlock h_call HI HI_step).
Local Notation ARGS T := (T D ioS muS hS io_read io_write mu_lock mu_unlock hsan).

Ltac to_san m x mx h ops Hh :=
  cbv zeta; rewrite <- (proj1 (RS (init m x mx h) ops Hh)).

(* every run from the initial world, whatever its operations *)
Lemma run_san_all : forall m x mx h, HI h -> forall ops, run' (init m x mx h) ops = run (init m x mx h) ops.
Proof. intros m x mx h Hh ops. exact (proj1 (RS (init m x mx h) ops Hh)). Qed.

(* ---- C02c ---- *)
Theorem C02_loop_type_inv : forall m x mx h ops, HI h ->
  wf_desc D m -> Forall (valid_op D) ops ->
  Properties_C02c.loop_type (st (reach m x mx h ops)).
Proof.
  intros m x mx h ops Hh WF F. to_san m x mx h ops Hh.
  exact (ARGS Properties_C02c.C02_loop_type NU HVa m x mx h ops WF F).
Qed.

Theorem C02_calls_history_inv : forall m x mx h ops q code, HI h ->
  wf_desc D m -> Forall (valid_op D) ops ->
  let w0 := init m x mx h in
  In (ECall q code) (tr (run w0 ops)) -> Properties_C02c.ev_side q = false ->
  exists ops1 ops2 evs, ops = ops1 ++ OService :: ops2 /\
    tr (run w0 (ops1 ++ [OService])) = evs ++ tr (run w0 ops1) /\ In (ECall q code) evs /\
    let s := st (run w0 ops1) in
    k_cmd (k s) = Some (req_cmd q) /\ k_state (k s) = Properties_C02c.call_state q /\
    k_type (k s) = Properties_C02c.kind_type q.
Proof.
  intros m x mx h ops q code Hh WF F. cbv zeta. intros Hin Hev.
  pose proof (run_san_all m x mx h Hh) as E. rewrite <- E in Hin.
  destruct (ARGS Properties_C02c.C02_calls_history NU HVa m x mx h ops q code WF F Hin Hev)
    as (ops1 & ops2 & evs & H1 & H2 & H3 & H4).
  cbv zeta in H4. rewrite (E (ops1 ++ [OService])), (E ops1) in H2. rewrite (E ops1) in H4.
  exists ops1, ops2, evs.
  split; [exact H1|]. split; [exact H2|]. split; [exact H3 | exact H4].
Qed.

Theorem C02_selection_origin_inv : forall m x mx h ops, HI h ->
  wf_desc D m -> Forall (valid_op D) ops ->
  let w0 := init m x mx h in
  Properties_C02c.needs_cmd (st (run w0 ops)) = true ->
  exists ops1 ops2, ops = ops1 ++ ops2 /\
    k_state (k (st (run w0 ops1))) = CS_COMMAND_FOUND /\
    k_cmd (k (st (run w0 ops1))) = k_cmd (k (st (run w0 ops))) /\
    forall n, n <= length ops2 -> Properties_C02c.needs_cmd (st (run w0 (ops1 ++ firstn n ops2))) = true.
Proof.
  intros m x mx h ops Hh WF F. cbv zeta. intros Hn.
  pose proof (run_san_all m x mx h Hh) as E. rewrite <- E in Hn.
  destruct (ARGS Properties_C02c.C02_selection_origin NU HVa m x mx h ops WF F Hn)
    as (ops1 & ops2 & H1 & H2 & H3 & H4).
  rewrite (E ops1) in H2. rewrite (E ops1), (E ops) in H3. exists ops1, ops2.
  split; [exact H1|]. split; [exact H2|]. split; [exact H3|].
  intros n Hl. rewrite <- E. exact (H4 n Hl).
Qed.

Theorem C02_calls_selected_inv : forall m x mx h ops q code, HI h ->
  wf_desc D m -> Forall (valid_op D) ops ->
  let w0 := init m x mx h in
  In (ECall q code) (tr (run w0 ops)) -> Properties_C02c.ev_side q = false ->
  exists ops0 opsm ops2, ops = ops0 ++ opsm ++ OService :: ops2 /\
    k_state (k (st (run w0 ops0))) = CS_COMMAND_FOUND /\
    k_cmd (k (st (run w0 ops0))) = Some (req_cmd q) /\
    (forall n, n <= length opsm -> Properties_C02c.needs_cmd (st (run w0 (ops0 ++ firstn n opsm))) = true) /\
    let s := st (run w0 (ops0 ++ opsm)) in
    k_cmd (k s) = Some (req_cmd q) /\ k_state (k s) = Properties_C02c.call_state q /\
    k_type (k s) = Properties_C02c.kind_type q.
Proof.
  intros m x mx h ops q code Hh WF F. cbv zeta. intros Hin Hev.
  pose proof (run_san_all m x mx h Hh) as E. rewrite <- E in Hin.
  destruct (ARGS Properties_C02c.C02_calls_selected NU HVa m x mx h ops q code WF F Hin Hev)
    as (ops0 & opsm & ops2 & H1 & H2 & H3 & H4 & H5).
  cbv zeta in H5. rewrite (E ops0) in H2, H3. rewrite (E (ops0 ++ opsm)) in H5. exists ops0, opsm, ops2.
  split; [exact H1|]. split; [exact H2|]. split; [exact H3|]. split; [|exact H5].
  intros n Hl. rewrite <- E. exact (H4 n Hl).
Qed.

(* ---- C01s ---- *)
Theorem C01_gL_counts_lines_inv : forall m x mx h ops, HI h ->
  wf_desc D m -> Forall (valid_op D) ops ->
  let w := reach m x mx h ops in
  gL (st w) = nonblank_lines false (consumed (tr w)).
Proof.
  intros m x mx h ops Hh WF F. to_san m x mx h ops Hh.
  exact (ARGS Properties_C01s.C01_gL_counts_lines NU HVa m x mx h ops WF F).
Qed.

Theorem C01_idle_iff_blank_inv : forall m x mx h ops, HI h ->
  wf_desc D m -> Forall (valid_op D) ops ->
  let w := reach m x mx h ops in
  reading_state (k_state (k (st w))) = true ->
  (k_state (k (st w)) = CS_IDLE <-> seen_after false (consumed (tr w)) = false).
Proof.
  intros m x mx h ops Hh WF F. to_san m x mx h ops Hh.
  exact (ARGS Properties_C01s.C01_idle_iff_blank NU HVa m x mx h ops WF F).
Qed.

Theorem C01_read_only_when_settled_trace_inv : forall m x mx h ops o evs r, HI h ->
  wf_desc D m -> Forall (valid_op D) ops ->
  let w := reach m x mx h ops in
  tr (step w o) = evs ++ tr w -> In (ERd r) evs ->
  gL (st w) = gR (st w) /\ gS (st w) = gR (st w).
Proof.
  intros m x mx h ops o evs r Hh WF F. cbv zeta.
  rewrite <- (proj1 (SS _ o (proj2 (RS (init m x mx h) ops Hh)))).
  rewrite <- (proj1 (RS (init m x mx h) ops Hh)).
  exact (ARGS Properties_C01s.C01_read_only_when_settled_trace NU HVa m x mx h ops o evs r WF F).
Qed.

Theorem C01_no_read_ahead_inv : forall m x mx h ops o evs r, HI h ->
  wf_desc D m -> Forall (valid_op D) ops ->
  let w := reach m x mx h ops in
  tr (step w o) = evs ++ tr w -> In (ERd r) evs ->
  gR (st w) = nonblank_lines false (consumed (tr w)) /\ gS (st w) = gR (st w).
Proof.
  intros m x mx h ops o evs r Hh WF F. cbv zeta.
  rewrite <- (proj1 (SS _ o (proj2 (RS (init m x mx h) ops Hh)))).
  rewrite <- (proj1 (RS (init m x mx h) ops Hh)).
  exact (ARGS Properties_C01s.C01_no_read_ahead NU HVa m x mx h ops o evs r WF F).
Qed.
End InvD2.

(* ================================================================== *)
(* 4. the scripted oracles of Script.v                                 *)
(* ================================================================== *)

(* the flush sessions opened along a scripted history of API calls, and the units they emit *)
Definition sc_starts (D : desc) : sworld -> list op -> list (fsm * state) :=
  Lemmas_C11s.starts D sio smu shs s_read s_write s_lock s_unlock s_call.
Definition sc_started (D : desc) : sworld -> list op -> list (fsm * list N) :=
  Lemmas_C11s.started D sio smu shs s_read s_write s_lock s_unlock s_call.
(* the enable flags are changed only between lines (Properties_C09c.v), scripted worlds *)
Definition sc_flags_between_lines (D : desc) : sworld -> list op -> Prop :=
  Properties_C09c.flags_between_lines D sio smu shs s_read s_write s_lock s_unlock s_call.

(* the invariant for `valid inner calls only`: nothing about HOLD *)
Lemma SV_step : forall D h q, script_ok (res_calls_valid D) h = true ->
  script_ok (res_calls_valid D) (fst (s_call h q)) = true /\
  Forall (valid_icall D) (r_calls (snd (s_call h q))).
Proof.
  intros D h q B.
  destruct (s_call_ok (res_calls_valid D)) with (h := h) (q := q) as [B1 B2];
    [destruct q0; reflexivity | exact B |].
  split; [exact B1 | apply forallb_valid; exact B2].
Qed.

Section Scripted2.
Variable D : desc.

Local Notation st := (Fsm.st sio smu shs).
Local Notation io := (Fsm.io sio smu shs).
Local Notation mu := (Fsm.mu sio smu shs).
Local Notation hs := (Fsm.hs sio smu shs).
Local Notation tr := (Fsm.tr sio smu shs).
Local Notation hist := (TraceDefs.hist sio smu shs).
Local Notation s_run := (Fsm.run D sio smu shs s_read s_write s_lock s_unlock s_call).
Local Notation s_step := (Fsm.step D sio smu shs s_read s_write s_lock s_unlock s_call).
Local Notation s_do_op := (Fsm.do_op D sio smu shs s_read s_write s_lock s_unlock s_call).
Local Notation SC T := (T D sio smu shs s_read s_write s_lock s_unlock s_call).
Local Notation HIH := (fun h : shs => no_rt_hold h = true).
Local Notation HVs := (fun h : shs => script_ok (res_calls_valid D) h = true).
Local Notation in_progress := (Properties_C13o.in_progress sio smu shs).
Local Notation sreach m x mx h ops := (srun D (sinit D m x mx h) (map SOp ops)).

Lemma sreach_run : forall m x mx h ops,
  sreach m x mx h ops = s_run (mkWorld sio smu shs (init_state D m) x mx h []) ops.
Proof. intros. unfold sinit. apply srun_SOp. Qed.

(* ---- C11s / C18s ---- *)
Theorem C11_wait_is_fresh_scripted : forall m x mx h ops,
  let s := st (sreach m x mx h ops) in
  (k_state (k s) = CS_FLUSH_WAIT ->
     k_position (k s) = 0 /\
     ((k_wstate (k s) = WS_BEFORE /\ k_wbuf (k s) = WB_NL (k_cr (k s))) \/
      (k_wstate (k s) = WS_AFTER /\ k_wbuf (k s) = WB_MAIN))) /\
  (u_state (u s) = US_FLUSH_WAIT ->
     u_position (u s) = 0 /\ u_wstate (u s) = WS_BEFORE /\ exists cr, u_wbuf (u s) = WB_NL cr).
Proof.
  intros m x mx h ops. cbv zeta. rewrite sreach_run.
  exact (SC Properties_C11s.C11_wait_is_fresh m x mx h ops).
Qed.

Theorem C11_started_whole_scripted : forall m x mx h ops,
  Forall whole_unit (sc_starts D (sinit D m x mx h) ops).
Proof. intros m x mx h ops. exact (SC Properties_C11s.C11_started_whole m x mx h ops). Qed.

Theorem C11_stream_any_scripted : forall m x mx h ops, no_rt_hold h = true ->
  let w := sreach m x mx h ops in
  stream_inv (st w) (accepted_wr (hist w)) (sc_started D (sinit D m x mx h) ops).
Proof.
  intros m x mx h ops Hh. cbv zeta. rewrite sreach_run.
  exact (SC C11_stream_any_inv HIH no_rt_hold_step m x mx h ops Hh).
Qed.

Theorem C11_stream_scripted : forall m x mx h ops, no_rt_hold h = true ->
  let w := sreach m x mx h ops in
  k_state (k (st w)) <> CS_FLUSH -> u_state (u (st w)) <> US_FLUSH ->
  exists crs, length crs = length (sc_started D (sinit D m x mx h) ops) /\
    accepted_wr (hist w) = stream (sc_started D (sinit D m x mx h) ops) crs.
Proof.
  intros m x mx h ops Hh. cbv zeta. rewrite sreach_run.
  exact (SC C11_stream_inv HIH no_rt_hold_step m x mx h ops Hh).
Qed.

Theorem C11_stream_per_producer_scripted : forall m x mx h ops, no_rt_hold h = true ->
  let w := sreach m x mx h ops in
  k_state (k (st w)) <> CS_FLUSH -> u_state (u (st w)) <> US_FLUSH ->
  proj ATCMD (accepted_wr (hist w)) =
    concat (map snd (units_of ATCMD (sc_started D (sinit D m x mx h) ops))) /\
  exists ucrs, length ucrs = length (units_of UNSOL (sc_started D (sinit D m x mx h) ops)) /\
    proj UNSOL (accepted_wr (hist w)) =
      concat (map (fun p => snd (fst p) ++ nl_text (snd p))
                  (combine (units_of UNSOL (sc_started D (sinit D m x mx h) ops)) ucrs)).
Proof.
  intros m x mx h ops Hh. cbv zeta. rewrite sreach_run.
  exact (SC C11_stream_per_producer_inv HIH no_rt_hold_step m x mx h ops Hh).
Qed.

Theorem C18_busy_stream_complete_scripted : forall m x mx h ops, no_rt_hold h = true ->
  let w := sreach m x mx h ops in
  is_busy (st w) = ST_OK ->
  Forall whole_unit (sc_starts D (sinit D m x mx h) ops) /\
  exists crs, length crs = length (sc_started D (sinit D m x mx h) ops) /\
    accepted_wr (hist w) = stream (sc_started D (sinit D m x mx h) ops) crs.
Proof.
  intros m x mx h ops Hh. cbv zeta. rewrite sreach_run.
  exact (SC C18_busy_stream_complete_inv HIH no_rt_hold_step m x mx h ops Hh).
Qed.

(* ---- C13o: only `valid inner calls` is asked of the scripts; they may hold anywhere ---- *)
Theorem C13_in_progress_scripted : forall m x mx h ops,
  0 < d_cap D -> Forall (valid_op D) ops -> script_ok (res_calls_valid D) h = true ->
  let w := sreach m x mx h ops in
  (u_state (u (st w)) = US_IDLE -> u_cmd (u (st w)) = None) /\
  (u_state (u (st w)) <> US_IDLE ->
     exists p ci t, popped (hist w) = p ++ [(ci, t)] /\ u_cmd (u (st w)) = Some ci /\ u_type (u (st w)) = t).
Proof.
  intros m x mx h ops Hc F B. cbv zeta. rewrite sreach_run.
  exact (SC C13_in_progress_inv HVs (SV_step D) m x mx h ops B Hc F).
Qed.

Theorem C13_queue_valid_scripted : forall m x mx h ops,
  0 < d_cap D -> Forall (valid_op D) ops -> script_ok (res_calls_valid D) h = true ->
  let w := sreach m x mx h ops in
  Forall (fun it => valid_trigger D (fst it) (snd it)) (ring_items D (st w)).
Proof.
  intros m x mx h ops Hc F B. cbv zeta. rewrite sreach_run.
  exact (SC C13_queue_valid_inv HVs (SV_step D) m x mx h ops B Hc F).
Qed.

Theorem C13_observers_exact_scripted : forall m x mx h ops,
  0 < d_cap D -> Forall (valid_op D) ops -> script_ok (res_calls_valid D) h = true ->
  let w := sreach m x mx h ops in
  (forall ci t, is_event_buffered D (st w) ci t = ST_BUSY <->
     exists it, In it (in_progress w ++ ring_items D (st w)) /\ ev_match ci t it = true) /\
  get_processed (st w) UNSOL = match in_progress w with [] => (-1)%Z | it :: _ => Z.of_nat (fst it) end.
Proof.
  intros m x mx h ops Hc F B. cbv zeta. rewrite sreach_run.
  exact (SC C13_observers_exact_inv HVs (SV_step D) m x mx h ops B Hc F).
Qed.

(* `the unlock never fails` as a condition on the schedule of the scripted mutex: then every
   accepted event has been popped (C13_exactly_once_scripted and an empty queue) *)
Theorem C13_ok_means_all_processed_scripted : forall m x mx h ops,
  0 < d_cap D -> Forall (valid_op D) ops -> script_ok (res_calls_valid D) h = true ->
  let w := sreach m x mx h ops in
  snd (s_do_op w OService) = ST_OK ->
  pushed (d_cap D) (hist w) = popped (hist w) /\
  ((d_mutex D = false \/ unlock_never_fails mx = true) -> accepted (hist w) = popped (hist w)) /\
  ring_items D (st w) = [] /\
  u_state (u (st w)) = US_IDLE /\ u_cmd (u (st w)) = None /\ in_progress w = [] /\
  (forall ci t, is_event_buffered D (st w) ci t = ST_OK) /\
  get_processed (st w) UNSOL = (-1)%Z /\
  st (s_step w OService) = st w.
Proof.
  intros m x mx h ops Hc F B. cbv zeta. intros Hok.
  pose proof (C13_exactly_once_scripted D m x mx h ops Hc) as HQ. cbv zeta in HQ.
  rewrite sreach_run in *.
  destruct (SC C13_ok_means_all_processed_inv HVs (SV_step D) m x mx h ops B Hc F Hok)
    as (H1 & _ & H3 & H4).
  split; [exact H1|]. split; [|split; [exact H3 | exact H4]].
  intros Hm. destruct (HQ Hm) as [_ E]. rewrite H3, app_nil_r in E. exact E.
Qed.

(* ---- C03c ---- *)
Theorem C03_lengths_reachable_scripted : forall m x mx h ops,
  wf_desc D m -> Forall (valid_op D) ops -> script_ok (res_calls_valid D) h = true ->
  let s := st (sreach m x mx h ops) in
  length (cbuf s) = asz_of D /\ length (ubuf s) = usz_of D /\ length (u_ring (u s)) = d_cap D /\
  map (@length N) (mem s) = map (@length N) m.
Proof.
  intros m x mx h ops WF F B. cbv zeta. rewrite sreach_run.
  exact (SC C03_lengths_reachable_inv HVs (SV_step D) m x mx h ops B WF F).
Qed.

Theorem C03_no_fault_scripted : forall m x mx h ops,
  wf_desc D m -> Forall (valid_op D) ops -> script_ok (res_calls_valid D) h = true ->
  fault (st (sreach m x mx h ops)) = false.
Proof.
  intros m x mx h ops WF F B. rewrite sreach_run.
  exact (SC C03_no_fault_invV HVs (SV_step D) m x mx h ops B WF F).
Qed.

(* ---- C02c ---- *)
Theorem C02_loop_type_scripted : forall m x mx h ops,
  wf_desc D m -> Forall (valid_op D) ops ->
  no_rt_hold h = true -> script_ok (res_calls_valid D) h = true ->
  Properties_C02c.loop_type (st (sreach m x mx h ops)).
Proof.
  intros m x mx h ops WF F A B. rewrite sreach_run.
  exact (SC C02_loop_type_inv (SI D) (SI_step D) m x mx h ops (conj A B) WF F).
Qed.

Theorem C02_calls_history_scripted : forall m x mx h ops q code,
  wf_desc D m -> Forall (valid_op D) ops ->
  no_rt_hold h = true -> script_ok (res_calls_valid D) h = true ->
  In (ECall q code) (tr (sreach m x mx h ops)) -> Properties_C02c.ev_side q = false ->
  exists ops1 ops2 evs, ops = ops1 ++ OService :: ops2 /\
    tr (sreach m x mx h (ops1 ++ [OService])) = evs ++ tr (sreach m x mx h ops1) /\ In (ECall q code) evs /\
    let s := st (sreach m x mx h ops1) in
    k_cmd (k s) = Some (req_cmd q) /\ k_state (k s) = Properties_C02c.call_state q /\
    k_type (k s) = Properties_C02c.kind_type q.
Proof.
  intros m x mx h ops q code WF F A B Hin Hev. rewrite sreach_run in Hin.
  destruct (SC C02_calls_history_inv (SI D) (SI_step D) m x mx h ops q code (conj A B) WF F Hin Hev)
    as (ops1 & ops2 & evs & H1 & H2 & H3 & H4).
  exists ops1, ops2, evs. rewrite !sreach_run. auto.
Qed.

Theorem C02_selection_origin_scripted : forall m x mx h ops,
  wf_desc D m -> Forall (valid_op D) ops ->
  no_rt_hold h = true -> script_ok (res_calls_valid D) h = true ->
  Properties_C02c.needs_cmd (st (sreach m x mx h ops)) = true ->
  exists ops1 ops2, ops = ops1 ++ ops2 /\
    k_state (k (st (sreach m x mx h ops1))) = CS_COMMAND_FOUND /\
    k_cmd (k (st (sreach m x mx h ops1))) = k_cmd (k (st (sreach m x mx h ops))) /\
    forall n, n <= length ops2 ->
      Properties_C02c.needs_cmd (st (sreach m x mx h (ops1 ++ firstn n ops2))) = true.
Proof.
  intros m x mx h ops WF F A B Hn. rewrite sreach_run in Hn.
  destruct (SC C02_selection_origin_inv (SI D) (SI_step D) m x mx h ops (conj A B) WF F Hn)
    as (ops1 & ops2 & H1 & H2 & H3 & H4).
  exists ops1, ops2. rewrite !sreach_run. split; [exact H1|]. split; [exact H2|]. split; [exact H3|].
  intros n Hl. rewrite sreach_run. exact (H4 n Hl).
Qed.

Theorem C02_calls_selected_scripted : forall m x mx h ops q code,
  wf_desc D m -> Forall (valid_op D) ops ->
  no_rt_hold h = true -> script_ok (res_calls_valid D) h = true ->
  In (ECall q code) (tr (sreach m x mx h ops)) -> Properties_C02c.ev_side q = false ->
  exists ops0 opsm ops2, ops = ops0 ++ opsm ++ OService :: ops2 /\
    k_state (k (st (sreach m x mx h ops0))) = CS_COMMAND_FOUND /\
    k_cmd (k (st (sreach m x mx h ops0))) = Some (req_cmd q) /\
    (forall n, n <= length opsm ->
       Properties_C02c.needs_cmd (st (sreach m x mx h (ops0 ++ firstn n opsm))) = true) /\
    let s := st (sreach m x mx h (ops0 ++ opsm)) in
    k_cmd (k s) = Some (req_cmd q) /\ k_state (k s) = Properties_C02c.call_state q /\
    k_type (k s) = Properties_C02c.kind_type q.
Proof.
  intros m x mx h ops q code WF F A B Hin Hev. rewrite sreach_run in Hin.
  destruct (SC C02_calls_selected_inv (SI D) (SI_step D) m x mx h ops q code (conj A B) WF F Hin Hev)
    as (ops0 & opsm & ops2 & H1 & H2 & H3 & H4 & H5).
  exists ops0, opsm, ops2. rewrite !sreach_run. split; [exact H1|]. split; [exact H2|]. split; [exact H3|].
  split; [|exact H5]. intros n Hl. rewrite sreach_run. exact (H4 n Hl).
Qed.

(* ---- C09c: no hypothesis on the oracles at all; instances ---- *)
Theorem C09_calls_enabled_history_scripted : forall m x mx h ops q code,
  0 < ncmds D ->
  sc_flags_between_lines D (sinit D m x mx h) ops ->
  In (ECall q code) (tr (sreach m x mx h ops)) -> Properties_C09c.ev_side q = false ->
  exists ops1 ops2 evs, ops = ops1 ++ OService :: ops2 /\
    tr (sreach m x mx h (ops1 ++ [OService])) = evs ++ tr (sreach m x mx h ops1) /\ In (ECall q code) evs /\
    let s := st (sreach m x mx h ops1) in
    k_cmd (k s) = Some (req_cmd q) /\ k_state (k s) = Properties_C09c.call_state q /\
    req_cmd q < ncmds D /\ is_command_disable D s (req_cmd q) = false.
Proof.
  intros m x mx h ops q code Hn Hf Hin Hev. rewrite sreach_run in Hin.
  destruct (SC Properties_C09c.C09_calls_enabled_history Hn m x mx h ops q code Hf Hin Hev)
    as (ops1 & ops2 & evs & H1 & H2 & H3 & H4).
  exists ops1, ops2, evs. rewrite !sreach_run. auto.
Qed.

Theorem C09_calls_accepted_scripted : forall m x mx h ops q code c,
  In (ECall q code) (tr (sreach m x mx h ops)) -> Properties_C09c.ev_side q = false ->
  nth_error (pool D) (req_cmd q) = Some c ->
  dispatch_accepts c (Properties_C09c.form_of q) = true /\ Properties_C09c.served c q = true /\
  (Properties_C09c.form_of q <> F_TEST -> c_only_test c = false).
Proof.
  intros m x mx h ops q code c Hin. rewrite sreach_run in Hin.
  exact (SC Properties_C09c.C09_calls_accepted m x mx h ops q code c Hin).
Qed.

(* ---- C01s ---- *)
Theorem C01_gL_in_domain_scripted : forall m x mx h ops,
  wf_desc D m -> Forall (valid_op D) ops ->
  no_rt_hold h = true -> script_ok (res_calls_valid D) h = true ->
  let w := sreach m x mx h ops in
  gL (st w) = nonblank_lines false (consumed (tr w)).
Proof.
  intros m x mx h ops WF F A B. cbv zeta. rewrite sreach_run.
  exact (SC C01_gL_counts_lines_inv (SI D) (SI_step D) m x mx h ops (conj A B) WF F).
Qed.

Theorem C01_idle_iff_blank_scripted : forall m x mx h ops,
  wf_desc D m -> Forall (valid_op D) ops ->
  no_rt_hold h = true -> script_ok (res_calls_valid D) h = true ->
  let w := sreach m x mx h ops in
  reading_state (k_state (k (st w))) = true ->
  (k_state (k (st w)) = CS_IDLE <-> seen_after false (consumed (tr w)) = false).
Proof.
  intros m x mx h ops WF F A B. cbv zeta. rewrite sreach_run.
  exact (SC C01_idle_iff_blank_inv (SI D) (SI_step D) m x mx h ops (conj A B) WF F).
Qed.

Theorem C01_no_read_ahead_scripted : forall m x mx h ops o evs r,
  wf_desc D m -> Forall (valid_op D) ops ->
  no_rt_hold h = true -> script_ok (res_calls_valid D) h = true ->
  let w := sreach m x mx h ops in
  tr (sstep D w (SOp o)) = evs ++ tr w -> In (ERd r) evs ->
  gR (st w) = nonblank_lines false (consumed (tr w)) /\ gS (st w) = gR (st w).
Proof.
  intros m x mx h ops o evs r WF F A B. cbv zeta. cbn [sstep]. rewrite sreach_run.
  exact (SC C01_no_read_ahead_inv (SI D) (SI_step D) m x mx h ops o evs r (conj A B) WF F).
Qed.

End Scripted2.

(* ================================================================== *)
(* 5. the domain hypotheses, decided (so that they can be discharged by *)
(*    computation on concrete descriptors and operation lists)          *)
(* ================================================================== *)
Definition valid_opb (D : desc) (o : op) : bool :=
  match o with
  | OTrigger ci t => (ci <? length (pool D)) && (ctype_beq t T_READ || ctype_beq t T_TEST)
  | _ => true
  end.

Lemma valid_opb_sound : forall D o, valid_opb D o = true -> valid_op D o.
Proof.
  intros D o H. destruct o; try exact I. cbn [valid_opb valid_op] in *.
  exact (proj1 (valid_icallb_spec D (ITrigger ci t)) H).
Qed.

Lemma valid_ops_sound : forall D ops, forallb (valid_opb D) ops = true -> Forall (valid_op D) ops.
Proof.
  intros D ops H. apply Forall_forall. intros o Ho. apply valid_opb_sound.
  exact (proj1 (forallb_forall _ _) H o Ho).
Qed.

Definition valid_sopb (D : desc) (o : sop) : bool :=
  match o with SOp o => valid_opb D o | SReinit => false | _ => true end.

Lemma valid_sops_sound : forall D sops, forallb (valid_sopb D) sops = true -> Forall (valid_sop D) sops.
Proof.
  intros D sops H. apply Forall_forall. intros o Ho.
  pose proof (proj1 (forallb_forall _ _) H o Ho) as B.
  destruct o; cbn [valid_sopb valid_sop] in *; [apply valid_opb_sound; exact B | exact I | exact I | discriminate B].
Qed.

Definition wf_varb (m : list (list N)) (v : var) : bool :=
  match nth_error m (v_slot v) with Some data => v_size v <=? length data | None => false end.
Definition hexbuf_nonemptyb (v : var) : bool :=
  match v_type v with VBufHex => 0 <? v_size v | _ => true end.
Definition wf_descb (D : desc) (m : list (list N)) : bool :=
  (0 <? d_cap D) && (0 <? ncmds D) && (ncmds D <=? 4 * asz_of D) && (6 <=? asz_of D) &&
  forallb (fun c => forallb (wf_varb m) (c_vars c)) (pool D) &&
  forallb (fun c => forallb hexbuf_nonemptyb (tl (c_vars c))) (pool D).

Lemma forallb_Forall2 : forall (A B : Type) (f : B -> bool) (P : B -> Prop) (g : A -> list B),
  (forall b, f b = true -> P b) ->
  forall l, forallb (fun a => forallb f (g a)) l = true -> Forall (fun a => Forall P (g a)) l.
Proof.
  intros A B f P g HfP l H. apply Forall_forall. intros a Ha. apply Forall_forall. intros b Hb.
  apply HfP. pose proof (proj1 (forallb_forall _ _) H a Ha) as H1.
  exact (proj1 (forallb_forall _ _) H1 b Hb).
Qed.

Lemma wf_descb_sound : forall D m, wf_descb D m = true -> wf_desc D m.
Proof.
  intros D m H. unfold wf_descb in H. repeat (apply andb_true_iff in H; destruct H as [H ?]).
  unfold wf_desc. split; [apply Nat.ltb_lt; assumption|]. split; [apply Nat.ltb_lt; assumption|].
  split; [apply Nat.leb_le; assumption|]. split; [apply Nat.leb_le; assumption|]. split.
  - eapply forallb_Forall2; [|eassumption]. intros v Hv. unfold wf_varb in Hv. unfold wf_var.
    destruct (nth_error m (v_slot v)) as [data|]; [|discriminate]. exists data. split; [reflexivity|].
    apply Nat.leb_le. exact Hv.
  - eapply forallb_Forall2 with (g := fun c => tl (c_vars c)); [|eassumption].
    intros v Hv E. unfold hexbuf_nonemptyb in Hv. rewrite E in Hv. apply Nat.ltb_lt. exact Hv.
Qed.

(* no operation of the list changes an enable flag: the condition of C09c holds trivially *)
Lemma no_flag_ops_between : forall D ops (w : sworld),
  forallb (fun o => negb (Properties_C09c.flag_op o)) ops = true -> sc_flags_between_lines D w ops.
Proof.
  intros D. unfold sc_flags_between_lines. induction ops as [|o ops IH]; intros w H; [exact I|].
  cbn [forallb] in H. apply andb_true_iff in H. destruct H as [Ho Hr]. cbn [Properties_C09c.flags_between_lines].
  split; [|apply IH; exact Hr]. intros E. rewrite E in Ho. discriminate Ho.
Qed.

(* an operation that changes a flag while the command machine is idle, then the rest *)
Lemma flags_between_cons : forall D o ops (w : sworld),
  (Properties_C09c.flag_op o = true -> k_state (k (Fsm.st sio smu shs w)) = CS_IDLE) ->
  sc_flags_between_lines D (sstep D w (SOp o)) ops -> sc_flags_between_lines D w (o :: ops).
Proof. intros D o ops w H1 H2. split; [exact H1 | exact H2]. Qed.

(* ================================================================== *)
(* 6. scenarios: API calls, new input (SFeed) and application stores    *)
(*    (SPoke) in any order, for the theorems that have a one-step form  *)
(* ================================================================== *)
From CatV Require Lemmas_C13o Lemmas_Calls Lemmas_C03b Lemmas_C15.

(* the flush sessions opened along a scenario; SFeed and SPoke open none *)
Fixpoint sc_sstarts (D : desc) (w : sworld) (sops : list sop) : list (fsm * state) :=
  match sops with
  | [] => []
  | o :: r => new_starts (Fsm.st sio smu shs w) (Fsm.st sio smu shs (sstep D w o)) ++ sc_sstarts D (sstep D w o) r
  end.
Definition sc_sstarted (D : desc) (w : sworld) (sops : list sop) : list (fsm * list N) :=
  map unit_of (sc_sstarts D w sops).

Lemma sc_sstarts_SOp : forall D ops (w : sworld), sc_sstarts D w (map SOp ops) = sc_starts D w ops.
Proof.
  intros D. unfold sc_starts. induction ops as [|o ops IH]; intros w; [reflexivity|].
  cbn [map sc_sstarts Lemmas_C11s.starts sstep]. rewrite IH. reflexivity.
Qed.

Lemma new_starts_same : forall s s',
  k_state (k s') = k_state (k s) -> u_state (u s') = u_state (u s) -> new_starts s s' = [].
Proof.
  intros s s' Hk Hu. unfold new_starts, enters_c, enters_u. rewrite Hk, Hu.
  destruct (k_state (k s)); destruct (u_state (u s)); reflexivity.
Qed.

Section Scenario2.
Variable D : desc.

Local Notation st := (Fsm.st sio smu shs).
Local Notation io := (Fsm.io sio smu shs).
Local Notation hs := (Fsm.hs sio smu shs).
Local Notation tr := (Fsm.tr sio smu shs).
Local Notation hist := (TraceDefs.hist sio smu shs).
Local Notation s_step := (Fsm.step D sio smu shs s_read s_write s_lock s_unlock s_call).
Local Notation SC T := (T D sio smu shs s_read s_write s_lock s_unlock s_call).
Local Notation HIH := (fun h : shs => no_rt_hold h = true).
Local Notation HVs := (fun h : shs => script_ok (res_calls_valid D) h = true).
Local Notation in_progress := (Properties_C13o.in_progress sio smu shs).

(* ---------------- 6a. the stream of C11 ---------------- *)
Definition StI (units : list (fsm * list N)) (w : sworld) : Prop :=
  Winv (st w) /\ excl (st w) /\ stream_inv (st w) (accepted_wr (hist w)) units /\ no_rt_hold (hs w) = true.

Lemma sstep_StI : forall units w o, no_reinit o -> StI units w ->
  StI (units ++ map unit_of (new_starts (st w) (st (sstep D w o)))) (sstep D w o).
Proof.
  intros units w o Ho (HW & HX & HS & HH). destruct o as [o|bytes|slot bytes|]; cbn [sstep no_reinit] in *.
  - destruct (SC step_sanH HIH no_rt_hold_step w o HH) as [E HH'].
    split; [exact (SC Winv_step w o HW)|]. split; [exact (SC step_excl w o HX)|]. split; [|exact HH'].
    rewrite <- E.
    exact (stream_inv_step D sio smu shs s_read s_write s_lock s_unlock (h_sanH shs s_call)
             (h_sanH_no_uhold shs s_call) w o units HW HX HS).
  - match goal with |- StI (units ++ map unit_of (new_starts ?a ?b)) _ =>
      change b with a; rewrite (new_starts_same a a eq_refl eq_refl) end.
    cbn [map]. rewrite app_nil_r. exact (conj HW (conj HX (conj HS HH))).
  - destruct (Lemmas_C03b.apply_poke_eff (st w) (slot, bytes)) as (mm & E & _).
    unfold Fsm.upd_st, Fsm.set_st. cbv beta. cbn [Fsm.st]. rewrite E.
    rewrite (new_starts_same (st w) (set_mem mm (st w)) eq_refl eq_refl).
    cbn [map]. rewrite app_nil_r. exact (conj HW (conj HX (conj HS HH))).
  - destruct Ho.
Qed.

Lemma srun_StI : forall sops units w, Forall no_reinit sops -> StI units w ->
  StI (units ++ map unit_of (sc_sstarts D w sops)) (srun D w sops).
Proof.
  unfold srun. induction sops as [|o sops IH]; intros units w F H.
  - cbn [sc_sstarts map fold_left]. rewrite app_nil_r. exact H.
  - inversion F; subst. cbn [sc_sstarts fold_left]. rewrite map_app, app_assoc.
    apply IH; [assumption|]. apply sstep_StI; assumption.
Qed.

Lemma StI_init : forall m x mx h, no_rt_hold h = true -> StI [] (sinit D m x mx h).
Proof.
  intros m x mx h Hh. split; [exact (Winv_init D m)|]. split; [intros [A _]; discriminate A|].
  split; [|exact Hh]. right. right. split; [discriminate|]. split; [discriminate|].
  exists []. split; reflexivity.
Qed.

Theorem C11_stream_any_scenario : forall m x mx h sops,
  no_rt_hold h = true -> Forall no_reinit sops ->
  let w := srun D (sinit D m x mx h) sops in
  stream_inv (st w) (accepted_wr (hist w)) (sc_sstarted D (sinit D m x mx h) sops).
Proof.
  intros m x mx h sops Hh F. cbv zeta.
  destruct (srun_StI sops [] (sinit D m x mx h) F (StI_init m x mx h Hh)) as (_ & _ & H & _). exact H.
Qed.

Theorem C11_stream_scenario : forall m x mx h sops,
  no_rt_hold h = true -> Forall no_reinit sops ->
  let w := srun D (sinit D m x mx h) sops in
  k_state (k (st w)) <> CS_FLUSH -> u_state (u (st w)) <> US_FLUSH ->
  exists crs, length crs = length (sc_sstarted D (sinit D m x mx h) sops) /\
    accepted_wr (hist w) = stream (sc_sstarted D (sinit D m x mx h) sops) crs.
Proof.
  intros m x mx h sops Hh F. cbv zeta. intros NK NU.
  destruct (C11_stream_any_scenario m x mx h sops Hh F) as [(A & _) | [(A & _) | (_ & _ & H)]];
    [contradiction | contradiction | exact H].
Qed.

(* every session opened in a scenario emits a whole unit: no condition on the scripts *)
Lemma sstarts_whole_gen : forall sops (w : sworld), Forall no_reinit sops -> Winv (st w) ->
  Forall whole_unit (sc_sstarts D w sops).
Proof.
  induction sops as [|o sops IH]; intros w F HW; [constructor|].
  inversion F as [|o' r Ho Hr]; subst. cbn [sc_sstarts]. apply Forall_app.
  destruct o as [o|bytes|slot bytes|]; cbn [sstep no_reinit] in *.
  - split; [exact (SC new_starts_whole w o HW)|]. apply IH; [exact Hr|]. exact (SC Winv_step w o HW).
  - split; [|apply IH; [exact Hr | exact HW]].
    match goal with |- Forall _ (new_starts ?a ?b) =>
      change b with a; rewrite (new_starts_same a a eq_refl eq_refl) end. constructor.
  - destruct (Lemmas_C03b.apply_poke_eff (st w) (slot, bytes)) as (mm & E & _).
    split.
    + unfold Fsm.upd_st, Fsm.set_st. cbv beta. cbn [Fsm.st]. rewrite E.
      rewrite (new_starts_same (st w) (set_mem mm (st w)) eq_refl eq_refl). constructor.
    + apply IH; [exact Hr|]. unfold Fsm.upd_st, Fsm.set_st. cbv beta. cbn [Fsm.st]. rewrite E. exact HW.
  - destruct Ho.
Qed.

Theorem C11_started_whole_scenario : forall m x mx h sops, Forall no_reinit sops ->
  Forall whole_unit (sc_sstarts D (sinit D m x mx h) sops).
Proof. intros m x mx h sops F. apply sstarts_whole_gen; [exact F | exact (Winv_init D m)]. Qed.

Theorem C18_busy_stream_complete_scenario : forall m x mx h sops,
  no_rt_hold h = true -> Forall no_reinit sops ->
  let w := srun D (sinit D m x mx h) sops in
  is_busy (st w) = ST_OK ->
  Forall whole_unit (sc_sstarts D (sinit D m x mx h) sops) /\
  exists crs, length crs = length (sc_sstarted D (sinit D m x mx h) sops) /\
    accepted_wr (hist w) = stream (sc_sstarted D (sinit D m x mx h) sops) crs.
Proof.
  intros m x mx h sops Hh F. cbv zeta. intros Hb.
  destruct (is_busy_ok _ Hb) as [Ek Eu].
  split; [exact (C11_started_whole_scenario m x mx h sops F)|].
  apply (C11_stream_scenario m x mx h sops Hh F); [rewrite Ek | rewrite Eu]; discriminate.
Qed.

(* ---------------- 6b. the observers of C13 ---------------- *)
Definition OI (w : sworld) : Prop :=
  Lemmas_C13o.Inv D sio smu shs w /\ script_ok (res_calls_valid D) (hs w) = true.

Lemma sstep_OI : forall w o, valid_sop D o -> OI w -> OI (sstep D w o).
Proof.
  intros w o Ho [HI HH]. destruct o as [o|bytes|slot bytes|]; cbn [sstep valid_sop] in *.
  - destruct (SC step_sanV HVs (SV_step D) w o HH) as [E HH']. split; [|exact HH']. rewrite <- E.
    exact (Lemmas_C13o.Inv_step D sio smu shs s_read s_write s_lock s_unlock (h_sanV D shs s_call) w o
             (h_sanV_valid D shs s_call) Ho HI).
  - split; [exact HI | exact HH].
  - split; [|exact HH]. destruct (Lemmas_C03b.apply_poke_eff (st w) (slot, bytes)) as (mm & E & _).
    unfold Lemmas_C13o.Inv, Lemmas_C13o.cur_ok, TraceDefs.hist, Fsm.upd_st, Fsm.set_st in *. cbv beta.
    cbn [Fsm.st Fsm.tr]. rewrite E. exact HI.
  - destruct Ho.
Qed.

Lemma srun_OI : forall sops w, Forall (valid_sop D) sops -> OI w -> OI (srun D w sops).
Proof.
  unfold srun. induction sops as [|o sops IH]; intros w F H; [exact H|].
  inversion F; subst. cbn [fold_left]. apply IH; [assumption|]. apply sstep_OI; assumption.
Qed.

Lemma OI_scenario : forall m x mx h sops,
  0 < d_cap D -> Forall (valid_sop D) sops -> script_ok (res_calls_valid D) h = true ->
  OI (srun D (sinit D m x mx h) sops).
Proof.
  intros m x mx h sops Hc F B. apply srun_OI; [exact F|]. split; [|exact B].
  exact (Lemmas_C13o.Inv_init D sio smu shs m x mx h Hc).
Qed.

Theorem C13_in_progress_scenario : forall m x mx h sops,
  0 < d_cap D -> Forall (valid_sop D) sops -> script_ok (res_calls_valid D) h = true ->
  let w := srun D (sinit D m x mx h) sops in
  (u_state (u (st w)) = US_IDLE -> u_cmd (u (st w)) = None) /\
  (u_state (u (st w)) <> US_IDLE ->
     exists p ci t, popped (hist w) = p ++ [(ci, t)] /\ u_cmd (u (st w)) = Some ci /\ u_type (u (st w)) = t).
Proof.
  intros m x mx h sops Hc F B. cbv zeta.
  destruct (OI_scenario m x mx h sops Hc F B) as [[_ [Hi Hb]] _].
  split; [exact Hi|]. intros H. destruct (Hb H) as [_ He]. exact He.
Qed.

Theorem C13_queue_valid_scenario : forall m x mx h sops,
  0 < d_cap D -> Forall (valid_sop D) sops -> script_ok (res_calls_valid D) h = true ->
  let w := srun D (sinit D m x mx h) sops in
  Forall (fun it => valid_trigger D (fst it) (snd it)) (ring_items D (st w)).
Proof.
  intros m x mx h sops Hc F B. cbv zeta.
  destruct (OI_scenario m x mx h sops Hc F B) as [[[_ H] _] _]. exact H.
Qed.

Theorem C13_observers_exact_scenario : forall m x mx h sops,
  0 < d_cap D -> Forall (valid_sop D) sops -> script_ok (res_calls_valid D) h = true ->
  let w := srun D (sinit D m x mx h) sops in
  (forall ci t, is_event_buffered D (st w) ci t = ST_BUSY <->
     exists it, In it (in_progress w ++ ring_items D (st w)) /\ ev_match ci t it = true) /\
  get_processed (st w) UNSOL = match in_progress w with [] => (-1)%Z | it :: _ => Z.of_nat (fst it) end.
Proof.
  intros m x mx h sops Hc F B. cbv zeta.
  destruct (OI_scenario m x mx h sops Hc F B) as [[_ H] _].
  exact (Lemmas_C13o.observers_of_cur D sio smu shs _ H).
Qed.

(* when cat_service answers OK at the end of a scenario: nothing queued, nothing in progress, and
   (unlock never fails) every accepted event has been popped.  The clause on `pushed` of the API
   form is not restated: its general queue equation has no scenario form yet *)
Theorem C13_ok_means_all_processed_scenario : forall m x mx h sops,
  0 < d_cap D -> Forall (valid_sop D) sops -> script_ok (res_calls_valid D) h = true ->
  let w := srun D (sinit D m x mx h) sops in
  snd (Fsm.do_op D sio smu shs s_read s_write s_lock s_unlock s_call w OService) = ST_OK ->
  ((d_mutex D = false \/ unlock_never_fails mx = true) -> accepted (hist w) = popped (hist w)) /\
  ring_items D (st w) = [] /\
  u_state (u (st w)) = US_IDLE /\ u_cmd (u (st w)) = None /\ in_progress w = [] /\
  (forall ci t, is_event_buffered D (st w) ci t = ST_OK) /\
  get_processed (st w) UNSOL = (-1)%Z /\
  st (s_step w OService) = st w.
Proof.
  intros m x mx h sops Hc F B. cbv zeta. intros Hok. cbn [Fsm.do_op] in Hok.
  destruct (SC Lemmas_C15.C15_api_ok _ Hok) as (_ & Hs & Hi & Hst & _).
  destruct (OI_scenario m x mx h sops Hc F B) as [[_ [Hidle _]] _]. specialize (Hidle Hs).
  split.
  { intros Hu. destruct (C13_exactly_once_scenario D m x mx h sops Hc Hu (valid_no_reinit D sops F)) as [_ Ha].
    rewrite Hi, app_nil_r in Ha. exact Ha. }
  split; [exact Hi|]. split; [exact Hs|]. split; [exact Hidle|].
  split; [unfold Properties_C13o.in_progress; rewrite Hs; reflexivity|].
  split.
  { intros ci t. unfold is_event_buffered. rewrite Hidle, Hi. reflexivity. }
  split; [unfold get_processed, g_cmd; rewrite Hidle; reflexivity|].
  rewrite (SC Lemmas_C13o.step_st). cbn [Fsm.do_op]. exact Hst.
Qed.

(* ---------------- 6c. lengths, request type in the loops, gL ---------------- *)
Theorem C03_lengths_scenario : forall m x mx h sops,
  wf_desc D m -> Forall (valid_sop D) sops ->
  no_rt_hold h = true -> script_ok (res_calls_valid D) h = true ->
  let s := st (srun D (sinit D m x mx h) sops) in
  length (cbuf s) = asz_of D /\ length (ubuf s) = usz_of D /\ length (u_ring (u s)) = d_cap D /\
  map (@length N) (mem s) = map (@length N) m.
Proof.
  intros m x mx h sops WF F A B. cbv zeta.
  destruct (scenario_inv_scripted D m x mx h sops WF F A B) as (_ & S & _).
  destruct S as ((_ & A1 & B1 & M & _ & _ & (R & _)) & _). auto.
Qed.

Definition GI2 (m : list (list N)) (w : sworld) : Prop :=
  GI D m w /\ Lemmas_Calls.JT (ctl_of (st w)) /\ Lemmas_C01s.WI sio smu shs w.

Lemma sstep_GI2 : forall m w o, wf_desc D m -> valid_sop D o -> GI2 m w -> GI2 m (sstep D w o).
Proof.
  intros m w o WF Ho (HG & HT & HW). pose proof (sstep_GI D m w o WF Ho HG) as HG'.
  split; [exact HG'|]. destruct HG as (HS & HJ & HH). destruct HG' as (HS' & _ & _).
  destruct o as [o|bytes|slot bytes|]; cbn [sstep valid_sop] in *.
  - pose proof (safe_fault D m _ HS') as Hf.
    pose proof (proj1 (SC step_san (SI D) (SI_step D) w o HH)) as E. rewrite <- E in Hf |- *. split.
    + exact (Lemmas_Calls.JT_step D sio smu shs s_read s_write s_lock s_unlock (h_san D shs s_call)
               (h_san_no_uhold D shs s_call) w o HT Hf).
    + exact (Lemmas_C01s.WI_step D sio smu shs s_read s_write s_lock s_unlock (h_san D shs s_call)
               (h_san_no_uhold D shs s_call) w o HJ HW Hf).
  - split; [exact HT | exact HW].
  - unfold Lemmas_C01s.WI, Fsm.upd_st, Fsm.set_st in *. cbv beta. cbn [Fsm.st Fsm.tr].
    rewrite C_apply_poke. split; [exact HT | exact HW].
  - destruct Ho.
Qed.

Lemma srun_GI2 : forall m sops w, wf_desc D m -> Forall (valid_sop D) sops -> GI2 m w -> GI2 m (srun D w sops).
Proof.
  intros m. unfold srun. induction sops as [|o sops IH]; intros w WF F H; [exact H|].
  inversion F; subst. cbn [fold_left]. apply IH; [exact WF | assumption |]. apply sstep_GI2; assumption.
Qed.

Lemma GI2_scenario : forall m x mx h sops,
  wf_desc D m -> Forall (valid_sop D) sops ->
  no_rt_hold h = true -> script_ok (res_calls_valid D) h = true ->
  GI2 m (srun D (sinit D m x mx h) sops).
Proof.
  intros m x mx h sops WF F A B. apply srun_GI2; [exact WF | exact F |]. split.
  - split; [apply safe_init; exact WF|]. split; [apply J_init | split; assumption].
  - split; [exact Lemmas_Calls.JT_init|]. exact (Lemmas_C01s.WI_init D sio smu shs m x mx h).
Qed.

Theorem C02_loop_type_scenario : forall m x mx h sops,
  wf_desc D m -> Forall (valid_sop D) sops ->
  no_rt_hold h = true -> script_ok (res_calls_valid D) h = true ->
  Properties_C02c.loop_type (st (srun D (sinit D m x mx h) sops)).
Proof.
  intros m x mx h sops WF F A B. destruct (GI2_scenario m x mx h sops WF F A B) as (_ & HT & _).
  exact (Lemmas_Calls.JT_loop_type _ HT).
Qed.

Theorem C01_gL_scenario : forall m x mx h sops,
  wf_desc D m -> Forall (valid_sop D) sops ->
  no_rt_hold h = true -> script_ok (res_calls_valid D) h = true ->
  let w := srun D (sinit D m x mx h) sops in
  gL (st w) = nonblank_lines false (consumed (tr w)).
Proof.
  intros m x mx h sops WF F A B. cbv zeta.
  destruct (GI2_scenario m x mx h sops WF F A B) as (_ & _ & HW). exact (proj2 HW).
Qed.

End Scenario2.

(* ---------------- 6d. C16: every scenario is guarded (SFeed, SPoke and SReinit log nothing) ---------------- *)
From CatV Require Lemmas_C16g.
Section ScenarioC16.
Variable D : desc.
Local Notation hs := (Fsm.hs sio smu shs).
Local Notation hist := (TraceDefs.hist sio smu shs).
Local Notation HNs := (fun h : shs => d_mutex D = true -> script_ok res_no_calls h = true).

Lemma sstep_guarded : forall (w : sworld) o, d_mutex D = true ->
  Lemmas_C16g.guarded false (hist w) = true /\ HNs (hs w) ->
  Lemmas_C16g.guarded false (hist (sstep D w o)) = true /\ HNs (hs (sstep D w o)).
Proof.
  intros w o M [G H]. destruct o as [o|bytes|slot bytes|]; cbn [sstep]; try (split; [exact G | exact H]).
  split.
  - exact (Lemmas_C16g.C16_guarded_run_inv D sio smu shs s_read s_write s_lock s_unlock s_call HNs
             (HN_step D) [o] w M H G).
  - exact (proj2 (run_noinner D sio smu shs s_read s_write s_lock s_unlock s_call HNs (HN_step D) w [o] H)).
Qed.

Theorem C16_guarded_scenario : forall m x mx h sops, d_mutex D = true ->
  script_ok res_no_calls h = true ->
  Lemmas_C16g.guarded false (hist (srun D (sinit D m x mx h) sops)) = true.
Proof.
  intros m x mx h sops M Hh.
  assert (G : forall sops (w : sworld),
             Lemmas_C16g.guarded false (hist w) = true /\ HNs (hs w) ->
             Lemmas_C16g.guarded false (hist (srun D w sops)) = true /\ HNs (hs (srun D w sops))).
  { unfold srun. induction sops0 as [|o r IH]; intros w H; [exact H|]. cbn [fold_left].
    apply IH. apply sstep_guarded; assumption. }
  apply G. split; [reflexivity | intros _; exact Hh].
Qed.
End ScenarioC16.
