(* Lemmas_C20d.v -- property C20: the chain / concatenation theorems of Lemmas_C20c.v with a
   post-condition for WRITE lines that is strong enough for a following READ line
   (statements: Properties_C20d.v).

   Lemmas_C20c.line_post describes the variables after a WRITE line up to Lemmas_C07.same_value
   (a string: equal up to its first NUL, same length).  The premise of the next line in chain_ok /
   concat2 is asked for EVERY state satisfying line_post; for a READ line on a command with a string
   variable that premise (rt_cmd_ok: every byte < 256 ...) is false (Examples.old_premise_false).
   Here:
   (Exact)  stored / write_mem: the memory a WRITE line leaves, as a function (the decoder stores the
            value written; a string keeps the old bytes behind its NUL); roundtrip_exact (the codec
            round trip of Lemmas_C07 with the stored bytes spelled out); wloop_mem: the WRITE loop
            again, tracking the memory exactly, joined to Lemmas_C20c.wloop_steps_len by determinism
            of [steps]; write_line_x = Lemmas_C20c.write_line_len + the exact memory.
   (Chain)  line_mem, line_post' = line_post /\ mem s' = line_mem l (mem s); line_re', chain_ok',
            chain', world forms, concat2', concat2_mem / chain_pre (premises on computed states).
   (WR)     write_mem slot by slot; the READ premises hold on the memory a WRITE leaves, with the same
            argument text (write_mem_rt); concat_write_read.
   (Examples) lW ; lB on the instance of Lemmas_E2E.E2E_examples. *)
From Coq Require Import List NArith ZArith Bool Arith Lia.
From CatV Require Import Bytes Defs Codec Spec Fsm Script ResolveDefs SchedDefs GlueDefs TextDefs CollectDefs.
From CatV Require Import Skel SkelInv SkelSim Lemmas_Ctl Lemmas_C03 Lemmas_Inv.
From CatV Require Lemmas_C02 Lemmas_C02e Lemmas_C06 Lemmas_C07 Lemmas_C07e Lemmas_C11 Lemmas_C19 Lemmas_E2E Lemmas_C20 Lemmas_C20c.
Import ListNotations.
Local Open Scope nat_scope.

Local Notation cstr := Lemmas_C07.cstr.
Local Notation same_value := Lemmas_C07.same_value.

Definition stored (v : var) (d0 old : list N) : list N :=
  match v_type v with
  | VBufStr => cstr d0 ++ 0%N :: skipn (S (length (cstr d0))) old
  | _ => d0
  end.

Lemma roundtrip_exact : forall v data data' txt t tail,
  v_access v = RW ->
  Forall (fun b => (b < 256)%N) data -> length data = v_size v -> length data' = v_size v ->
  (v_type v = VBufStr -> In 0%N data) -> (v_type v = VBufHex -> 0 < v_size v) ->
  var_text v data = Some txt -> is_term t = true ->
  exists ws, decode_var v (txt ++ t :: tail) data'
             = (SOk (t =? ch_COMMA)%N, stored v data data', ws, S (length txt)).
Proof.
  intros v data data' txt t tail Hacc Hb Hl Hl' Hstr Hhex Htxt Ht.
  destruct (Lemmas_C07.C07_var_roundtrip v data data' txt t tail Hacc Hb Hl Hl' Hstr Hhex Htxt Ht)
    as (d & ws & Hdec & Hsame).
  exists ws. rewrite Hdec. f_equal. f_equal. f_equal.
  unfold Lemmas_C07.same_value in Hsame. unfold stored.
  destruct (v_type v) eqn:Ety; try exact Hsame.
  (* string: recompute the decoder's result *)
  clear Hsame. revert Hdec.
  unfold var_text in Htxt. rewrite Ety in Htxt. injection Htxt as <-.
  unfold decode_var. rewrite Ety. rewrite !Hacc. change (vaccess_beq RW RO) with false.
  rewrite <- Hl, firstn_all.
  cbn [concat app]. rewrite concat_app. cbn [concat app]. rewrite <- app_assoc. cbn [app].
  rewrite (Lemmas_C07.bufstr_full t tail (length data) Ht) by (auto; lia).
  cbn [b_st b_data b_wsize b_n]. intros E. injection E as E1 E2 E3. symmetry. exact E1.
Qed.

(* ---------- the memory a WRITE line leaves ---------- *)
Definition wr1 (m m0 acc : list (list N)) (v : var) : list (list N) :=
  match nth_error m (v_slot v), nth_error m0 (v_slot v) with
  | Some d0, Some o => upd acc (v_slot v) (stored v d0 o)
  | _, _ => acc
  end.
Definition write_mem (vs : list var) (m m0 : list (list N)) : list (list N) := fold_left (wr1 m m0) vs m0.

Lemma write_mem_snoc : forall pre v m m0, write_mem (pre ++ [v]) m m0 = wr1 m m0 (write_mem pre m m0) v.
Proof. intros. unfold write_mem. rewrite fold_left_app. reflexivity. Qed.

Section ReX.
Variable D : desc.
Hypothesis Hmx : d_mutex D = false.
Local Notation n := (ncmds D).
Local Notation steps := (Lemmas_C02e.steps D).
Local Notation osteps := (Lemmas_E2E.osteps D).
Local Notation osteps_trans := (Lemmas_E2E.osteps_trans D).
Local Notation osteps_of_steps := (Lemmas_E2E.osteps_of_steps D).
Local Notation osteps_cast := (Lemmas_E2E.osteps_cast D).
Local Notation post := Lemmas_E2E.post.
Local Notation idle := Lemmas_C02e.idle.

Lemma steps_det : forall k s q s1 q1 s2 q2, steps k s q s1 q1 -> steps k s q s2 q2 -> s1 = s2.
Proof.
  intros k s q s1 q1 s2 q2 H1 H2.
  destruct (H1 [] []) as (t1 & _ & E1). destruct (H2 [] []) as (t2 & _ & E2).
  rewrite E1 in E2. unfold mkw in E2. injection E2 as E _. exact E.
Qed.

Lemma mem_pwa_next : forall c comma s, mem (Lemmas_C07e.pwa_next c comma s) = mem s.
Proof.
  intros c comma s. unfold Lemmas_C07e.pwa_next. cbv zeta.
  repeat match goal with |- context [if ?b then _ else _] => destruct b end; reflexivity.
Qed.

(* the WRITE loop again, tracking the memory exactly *)
Lemma wloop_mem : forall c m m0 cb q, c_hwrite c = false -> NoDup (map v_slot (c_vars c)) ->
  forall vs v pre0 s done txts tl,
  c_vars c = pre0 ++ v :: vs -> Forall (Lemmas_C07e.rt_var_ok m) (v :: vs) ->
  Lemmas_C07e.WInv D c m m0 cb s pre0 (length done) -> idle s ->
  mem s = write_mem pre0 m m0 ->
  all_some (map (Lemmas_C07e.slot_text m) (v :: vs)) = Some txts ->
  cb = done ++ join_comma txts ++ 0%N :: tl ->
  exists s', steps (length (v :: vs)) s q s' q /\ mem s' = write_mem (c_vars c) m m0.
Proof.
  intros c m m0 cb q Hw Hnd.
  (* one step: the stored bytes are exactly [stored] *)
  assert (STEP : forall vs v pre0 s done txt t tail,
    c_vars c = pre0 ++ v :: vs -> Lemmas_C07e.rt_var_ok m v ->
    Lemmas_C07e.WInv D c m m0 cb s pre0 (length done) -> mem s = write_mem pre0 m m0 ->
    Lemmas_C07e.slot_text m v = Some txt -> is_term t = true ->
    cb = done ++ txt ++ t :: tail ->
    forall data' d ws comma nn,
    nth_error (mem s) (v_slot v) = Some data' ->
    decode_var v (skipn (k_position (k s)) (cbuf s)) data' = (SOk comma, d, ws, nn) ->
    mem (Lemmas_C07e.pwa_next c comma (Lemmas_C07e.pwa_store v d ws nn s)) = write_mem (pre0 ++ [v]) m m0).
  { intros vs v pre0 s done txt t tail Hc Hok HW HM Hi Hterm Hcb data' d ws comma nn Hd' Hdec.
    destruct HW as (W1 & W2 & W3 & W4 & W5 & W6 & W7 & W8 & W9 & W10).
    destruct (Lemmas_C07e.var_facts m v txt Hok Hi) as (data & Hd & Hvt & Hdl & Hhex & Hb & Hs).
    destruct Hok as (Hrw & _).
    destruct (Lemmas_C07e.same_shape_nth m (mem s) (v_slot v) data W8 Hd) as (data'' & Hd'' & Hl').
    rewrite Hd' in Hd''. injection Hd'' as <-.
    destruct (roundtrip_exact v data data' txt t tail Hrw Hb Hdl ltac:(lia) Hs Hhex Hvt Hterm) as (ws' & Hex).
    rewrite W6, W7, Hcb, Lemmas_C07e.skipn_app_len, Hex in Hdec. injection Hdec as _ Ed _ _.
    rewrite mem_pwa_next. unfold Lemmas_C07e.pwa_store. cbn [mem setk_write_size set_mem set_k].
    rewrite write_mem_snoc, <- HM. unfold wr1. rewrite Hd.
    assert (Hm0 : nth_error m0 (v_slot v) = Some data').
    { rewrite <- (W10 (v_slot v)); [exact Hd'|].
      intros Hin. rewrite Hc, map_app in Hnd. cbn [map] in Hnd.
      apply NoDup_remove_2 in Hnd. apply Hnd. apply in_or_app. left. exact Hin. }
    rewrite Hm0, <- Ed. reflexivity. }
  induction vs as [|v2 vs IH]; intros v pre0 s done txts tl Hc Hok HW Hidl HM Ha Hcb;
    destruct (Lemmas_C07e.all_some_cons_st _ _ _ _ Ha) as (txt & txts' & -> & Hi & Ha');
    inversion Hok as [|? ? Hokv Hokvs]; subst x l;
    pose proof Hokv as (_ & _ & Hnw & _);
    pose proof HW as (_ & Hst & Hcmd & _);
    assert (Hnf : k_state (k s) <> CS_FLUSH_WAIT) by (rewrite Hst; discriminate).
  - cbn [map all_some] in Ha'. injection Ha' as <-.
    rewrite Lemmas_C07e.join_comma_one in Hcb.
    destruct (Lemmas_C07e.wstep_decode D c m m0 cb s pre0 (length done) v [] txt 0%N tl done
                HW Hc Hnd Hokv Hi eq_refl Hcb eq_refl) as (data' & d & ws & Hn & Hd' & Hdec & HMid).
    pose proof (STEP [] v pre0 s done txt 0%N tl Hc Hokv HW HM Hi eq_refl Hcb data' d ws _ _ Hd' Hdec) as EM.
    change (0 =? ch_COMMA)%N with false in Hdec, EM.
    exists (Lemmas_C07e.pwa_next c false (Lemmas_C07e.pwa_store v d ws (S (length txt)) s)).
    split; [exact (Lemmas_E2E.pwa_one D Hmx s q c v data' false d ws _ Hidl Hst Hcmd Hn Hd' Hnw Hdec)|].
    rewrite EM, Hc. reflexivity.
  - destruct (Lemmas_C07e.all_some_cons_st _ _ _ _ Ha') as (txt2 & txts2 & -> & Hi2 & Ha2).
    rewrite Lemmas_C07e.join_comma_cons2 in Hcb.
    assert (Hcb' : cb = done ++ txt ++ ch_COMMA :: join_comma (txt2 :: txts2) ++ 0%N :: tl).
    { rewrite Hcb, <- !app_assoc. reflexivity. }
    destruct (Lemmas_C07e.wstep_decode D c m m0 cb s pre0 (length done) v (v2 :: vs) txt ch_COMMA
                (join_comma (txt2 :: txts2) ++ 0%N :: tl) done
                HW Hc Hnd Hokv Hi eq_refl Hcb' eq_refl) as (data' & d & ws & Hn & Hd' & Hdec & HMid).
    pose proof (STEP (v2 :: vs) v pre0 s done txt ch_COMMA _ Hc Hokv HW HM Hi eq_refl Hcb' data' d ws _ _ Hd' Hdec) as EM.
    change (ch_COMMA =? ch_COMMA)%N with true in Hdec, EM.
    pose proof (Lemmas_E2E.pwa_one D Hmx s q c v data' true d ws _ Hidl Hst Hcmd Hn Hd' Hnw Hdec) as S1.
    pose proof (Lemmas_E2E.post_pwa c true v d ws (S (length txt)) s Hnf) as HP1.
    pose proof (Lemmas_C07e.wmid_more D _ _ _ _ _ _ _ _ HMid) as HW'.
    specialize (HW' ltac:(rewrite Hc, app_length; cbn [length]; lia)).
    set (s1 := Lemmas_C07e.pwa_next c true (Lemmas_C07e.pwa_store v d ws (S (length txt)) s)) in *.
    specialize (IH v2 (pre0 ++ [v]) s1 (done ++ txt ++ [ch_COMMA]) (txt2 :: txts2) tl).
    destruct IH as (s' & E & HD).
    + rewrite Hc, <- app_assoc. reflexivity.
    + exact Hokvs.
    + exact HW'.
    + apply (Lemmas_C02e.idle_of_u s); [apply HP1 | exact Hidl].
    + exact EM.
    + exact Ha'.
    + rewrite Hcb, <- !app_assoc. reflexivity.
    + exists s'. split; [|exact HD].
      change (length (v :: v2 :: vs)) with (1 + length (v2 :: vs)).
      exact (Lemmas_C02e.steps_trans D _ _ _ _ _ _ _ _ S1 E).
Qed.

Section Lines.
Variable s : state.
Hypothesis Hn : 0 < n.
Hypothesis HL : n <= 4 * length (cbuf s).
Hypothesis H6 : 6 <= length (cbuf s).
Hypothesis Hf : fault s = false.
Hypothesis Hst : k_state (k s) = CS_IDLE.
Hypothesis Hcr : k_cr (k s) = false.
Hypothesis Himp : k_implicit (k s) = false.
Hypothesis Hhold : k_hold (k s) = false.
Hypothesis Hidle : idle s.

(* Lemmas_C20c.write_line_len, additionally: the memory, exactly *)
Lemma write_line_x : forall name rest i c m args,
  name_ok name = true -> implicit_hit D s (upper name) = false ->
  resolve (upper name) (enabled D s) (cmds D) = Some i -> nth_error (cmds D) i = Some c ->
  Lemmas_C07e.rt_cmd_ok m c -> Lemmas_C07e.read_args_text m c = Some args ->
  Lemmas_C07e.same_shape m (mem s) -> ~ In ch_CR args -> length args < length (cbuf s) ->
  exists calls s4,
    osteps calls s ([ch_A; ch_T] ++ name ++ [ch_EQ] ++ args ++ [ch_LF] ++ rest) s4 rest
      ([ch_LF] ++ txt_OK ++ [ch_LF]) /\
    k_state (k s4) = CS_IDLE /\ fault s4 = false /\ u s4 = u s /\
    gL s4 = S (gL s) /\ gS s4 = S (gS s) /\ gR s4 = S (gR s) /\
    k_cr (k s4) = false /\ k_hold (k s4) = false /\ k_cmd (k s4) = None /\
    length (cbuf s4) = length (cbuf s) /\
    (forall v d0, In v (c_vars c) -> nth_error m (v_slot v) = Some d0 ->
       exists d1, nth_error (mem s4) (v_slot v) = Some d1 /\ Lemmas_C07.same_value v d1 d0) /\
    (forall sl, ~ In sl (map v_slot (c_vars c)) -> nth_error (mem s4) sl = nth_error (mem s) sl) /\
    mem s4 = write_mem (c_vars c) m (mem s).
Proof.
  intros name rest i c m args Hok Hh Hres Hc Hrt Ha Hsh Hncr Hfit.
  destruct (Lemmas_E2E.dispatch_eq_ex D Hmx s Hn HL Hf Hst Himp Hidle name (args ++ [ch_LF] ++ rest) Hok Hh)
    as (c1 & s2 & H1 & (M2 & F2 & U2 & R2) & S2).
  rewrite Hres in R2. destruct R2 as (A1 & A2 & A3 & A4).
  unfold Lemmas_E2E.six in S2.
  assert (G2 : gL s2 = gL s /\ gS s2 = gS s /\ gR s2 = gR s /\ k_cr (k s2) = false /\
               k_hold (k s2) = false /\ length (cbuf s2) = length (cbuf s)).
  { repeat split; congruence. }
  destruct G2 as (gl2 & gs2 & gr2 & cr2 & ho2 & len2).
  pose proof (Lemmas_E2E.cmd_at_of_cmds D i c Hc) as Hc'.
  assert (Hi2 : idle s2) by (apply (Lemmas_C02e.idle_of_u s); assumption).
  assert (Hcmd2 : cmd_of D ATCMD s2 = Some c) by (unfold cmd_of, g_cmd; rewrite A2; exact Hc').
  pose proof Hrt as (Hne & Hokv & Hnd & _ & Hw & Hot & _).
  destruct (Lemmas_E2E.args_no_lf D m c args Hrt Ha) as (Hnlf & Hq).
  pose proof (Lemmas_E2E.found_write_step D Hmx s2 (args ++ [ch_LF] ++ rest) Hi2 A1) as H2.
  destruct (Lemmas_C06.C06_entry D s2 c Hcmd2 A3 ltac:(unfold asz; lia)) as (E1 & E2 & E3 & E4 & E5 & E6 & E7 & E8).
  destruct (Lemmas_E2E.found_write_pre D s2 c Hcmd2 A3) as (K3 & gs3 & _).
  set (s3 := command_found D s2) in *.
  assert (Hi3 : idle s3) by (apply (Lemmas_C02e.idle_of_u s2); [apply K3 | exact Hi2]).
  unfold asz in E5.
  destruct (Lemmas_E2E.args_steps D Hmx c args s3 ([ch_LF] ++ rest) Hi3 E1 E2 E3 ltac:(unfold asz; lia) ltac:(congruence)
              E4 Hnlf Hncr (fun _ => Hq) ltac:(unfold asz; lia)) as (H3 & K5 & gs5).
  pose proof (Lemmas_C06.C06_collect D s3 c args E1 E2 E3 ltac:(unfold asz; lia) ltac:(congruence) E4 Hnlf) as HC.
  rewrite (Lemmas_E2E.no_cr_id args Hncr) in HC. specialize (HC (fun _ => Hq)). cbv zeta in HC.
  destruct HC as (F5 & M5 & C5 & HC).
  replace (length args <? asz s3) with true in HC by (symmetry; apply Nat.ltb_lt; unfold asz; lia).
  destruct HC as (S5 & _ & B5 & L5 & _).
  set (s5 := args_feed D s3 args) in *.
  assert (Hi5 : idle s5) by (apply (Lemmas_C02e.idle_of_u s3); [apply K5 | exact Hi3]).
  destruct (c_vars c) as [|v vs] eqn:Hvs; [congruence|].
  assert (Hrw : v_access v = RW).
  { inversion Hokv as [|? ? (A & _) _]. exact A. }
  pose proof (Lemmas_E2E.pca_lf_step D Hmx s5 rest c v vs Hi5 S5 C5 Hot Hvs Hrw) as H4.
  set (s6 := Lemmas_E2E.pwa_entry s5) in *.
  unfold Lemmas_C07e.read_args_text in Ha.
  change (fun v : var => match nth_error m (v_slot v) with
                         | Some d => var_text v d | None => None end)
    with (Lemmas_C07e.slot_text m) in Ha.
  rewrite Hvs in Ha.
  destruct (all_some (map (Lemmas_C07e.slot_text m) (v :: vs))) as [txts|] eqn:Hall; [|discriminate].
  injection Ha as <-.
  apply Lemmas_C07e.firstn_app_nul in B5.
  set (tl := skipn (S (length (join_comma txts))) (cbuf s5)) in B5.
  assert (HW : Lemmas_C07e.WInv D c m (mem s6) (cbuf s6) s6 [] (length (@nil N))).
  { unfold Lemmas_C07e.WInv, Lemmas_C07e.vals_ok, Lemmas_C07e.frame_ok.
    split; [exact F5|]. split; [reflexivity|]. split; [exact C5|].
    split; [reflexivity|]. split; [reflexivity|]. split; [reflexivity|]. split; [reflexivity|].
    split; [change (mem s6) with (mem s5); rewrite M5, E7, M2; exact Hsh|].
    split; [intros v' d0 [] | intros sl _; reflexivity]. }
  assert (Hi6 : idle s6) by exact Hi5.
  destruct (Lemmas_C20c.wloop_steps_len D Hmx c m (mem s6) (cbuf s6) rest Hw ltac:(rewrite Hvs; exact Hnd)
              ltac:(change (cbuf s6) with (cbuf s5); lia)
              vs v [] s6 [] txts tl Hvs Hokv HW Hi6 Hall B5)
    as (s7 & H5 & (D1 & D2 & D3 & D4 & D5 & D6) & (K7 & FL7 & _) & I7 & Len7).
  destruct (wloop_mem c m (mem s6) (cbuf s6) rest Hw ltac:(rewrite Hvs; exact Hnd)
              vs v [] s6 [] txts tl Hvs Hokv HW Hi6 eq_refl Hall B5) as (s7' & H5' & M7).
  rewrite <- (steps_det _ _ _ _ _ _ _ H5 H5'), Hvs in M7. clear s7' H5'.
  destruct (FL7 D2) as (P1 & P2 & P3 & _ & P5). specialize (P5 D3).
  rewrite Hvs in D5, D6.
  destruct K3 as (u3 & gl3 & gr3 & cr3 & ho3). destruct K5 as (u5 & gl5 & gr5 & cr5 & ho5).
  destruct K7 as (u7 & gl7 & gr7 & cr7 & ho7).
  change (u s6) with (u s5) in u7. change (gL s6) with (S (gL s5)) in gl7. change (gR s6) with (gR s5) in gr7.
  change (k_cr (k s6)) with (k_cr (k s5)) in cr7. change (k_hold (k s6)) with (k_hold (k s5)) in ho7.
  change (gS s6) with (gS s5) in P5.
  assert (Hi7 : idle s7) by (apply (Lemmas_C02e.idle_of_u s5); assumption).
  destruct (Lemmas_E2E.result_tail D Hmx s7 rest txt_OK Hi7 (conj D2 (conj P1 (conj P2 P3))) D3
              ltac:(congruence) ltac:(congruence) I7 D4)
    as (s8 & O6 & R1 & R2 & R3 & R4 & R5 & R6 & R7 & R8 & R9 & R10 & R11).
  exists (c1 + (1 + (length (join_comma txts) + (1 + (length (v :: vs) + (7 + length txt_OK)))))), s8.
  split.
  - eapply osteps_cast;
      [exact (osteps_trans _ _ _ _ _ _ _ _ _ _ (osteps_of_steps _ _ _ _ _ H1)
               (osteps_trans _ _ _ _ _ _ _ _ _ _ (osteps_of_steps _ _ _ _ _ H2)
                 (osteps_trans _ _ _ _ _ _ _ _ _ _ (osteps_of_steps _ _ _ _ _ H3)
                   (osteps_trans _ _ _ _ _ _ _ _ _ _ (osteps_of_steps _ _ _ _ _ H4)
                     (osteps_trans _ _ _ _ _ _ _ _ _ _ (osteps_of_steps _ _ _ _ _ H5) O6)))))
      | reflexivity | reflexivity].
  - split; [exact R1|]. split; [congruence|]. split; [congruence|].
    split; [congruence|]. split; [congruence|]. split; [congruence|].
    split; [exact R8|]. split; [exact R9|]. split; [exact R10|]. split.
    { rewrite R11, Len7. change (cbuf s6) with (cbuf s5). rewrite L5. exact (eq_trans E5 len2). }
    split.
    { intros v' d0 Hin Hn0. rewrite R2. exact (D5 v' d0 Hin Hn0). }
    split.
    + intros sl Hsl. rewrite R2, (D6 sl Hsl). change (mem s6) with (mem s5).
      rewrite M5, E7, M2. reflexivity.
    + rewrite R2, M7. change (mem s6) with (mem s5). rewrite M5, E7, M2. reflexivity.
Qed.
End Lines.
End ReX.

(* ===================================================================== *)
(* the strengthened post-condition and the chain theorems                *)
(* ===================================================================== *)
Import Lemmas_C20c.
Local Notation wst := (Fsm.st sio smu shs).
Local Notation wio := (Fsm.io sio smu shs).
Local Notation whs := (Fsm.hs sio smu shs).
Local Notation wtr := (Fsm.tr sio smu shs).

(* the variables after a covered line, as a function of the variables before it *)
Definition line_mem (l : line) (m0 : list (list N)) : list (list N) :=
  match l with
  | LWrite _ _ c m _ => write_mem (c_vars c) m m0
  | _ => m0
  end.

Definition line_post' (l : line) (s s' : state) : Prop :=
  line_post l s s' /\ mem s' = line_mem l (mem s).

Lemma line_post'_weaken : forall l s s', line_post' l s s' -> line_post l s s'.
Proof. intros l s s' H. exact (proj1 H). Qed.

Section Kinds'.
Variable D : desc.
Hypothesis Hmx : d_mutex D = false.
Local Notation osteps := (Lemmas_E2E.osteps D).
Local Notation idle := Lemmas_C02e.idle.

Theorem line_re' : forall l s rest, ready D s -> line_pre D l s ->
  exists calls s',
    osteps calls s (line_in l ++ rest) s' rest (line_out l) /\
    ready D s' /\ same_ctx s s' /\ line_post' l s s'.
Proof.
  intros l s rest R P.
  destruct l as [name i c args | name i c args | name | name | name i c m args].
  1-4: destruct (line_re D Hmx _ s rest R P) as (calls & s' & O & R' & X & Q);
       exists calls, s'; exact (conj O (conj R' (conj X (conj Q Q)))).
  pose proof R as (Hn & HL & H6 & Hf & Hst & Hcr & Himp & Hh & Hu1 & Hu2).
  assert (Hidle : idle s) by (split; assumption).
  cbn [line_pre] in P. cbn [line_in line_out].
  destruct P as (P1 & P2 & P3 & P4 & P5 & P6 & P7 & P8 & P9).
  destruct (write_line_x D Hmx s Hn HL H6 Hf Hst Hcr Himp Hh Hidle name rest i c m args
              P1 P2 P3 P4 P5 P6 P7 P8 P9)
    as (calls & s4 & O & L1 & L3 & L4 & L5 & L6 & L7 & L8 & L9 & L10 & Len & V1 & V2 & V3).
  rewrite <- !app_assoc. exists calls, s4. split; [exact O|].
  destruct (line_ready D calls s _ s4 rest _ R O L1 L3 L4 L8 L9 Len) as (R4 & Z1 & Z2).
  split; [exact R4|]. split; [|split; [split; assumption | exact V3]].
  unfold same_ctx. repeat split; assumption.
Qed.

(* ---------- chains of lines: the premise of a line is needed only in the states that have the
   EXACT variables its predecessors leave ---------- *)
Inductive chain_ok' : state -> list line -> Prop :=
  | chain_nil' : forall s, chain_ok' s []
  | chain_cons' : forall s l ls, line_pre D l s ->
      (forall s1, ready D s1 -> same_ctx s s1 -> line_post' l s s1 -> chain_ok' s1 ls) ->
      chain_ok' s (l :: ls).

Lemma chain_ok'_of_chain_ok : forall ls s, chain_ok D s ls -> chain_ok' s ls.
Proof.
  induction ls as [|l ls IH]; intros s C; [constructor|].
  inversion C as [|s0 l0 ls0 P K]; subst. constructor; [exact P|].
  intros s1 R1 X1 Q1. apply IH. exact (K s1 R1 X1 (proj1 Q1)).
Qed.

Theorem chain' : forall ls s rest, ready D s -> chain_ok' s ls ->
  exists calls s',
    osteps calls s (concat (map line_in ls) ++ rest) s' rest (concat (map line_out ls)) /\ ready D s' /\
    mem s' = fold_left (fun m0 l => line_mem l m0) ls (mem s).
Proof.
  induction ls as [|l ls IH]; intros s rest R C.
  - exists 0, s. split; [|split; [exact R | reflexivity]]. intros h t. exists []. repeat split; reflexivity.
  - inversion C as [|s0 l0 ls0 P K]; subst.
    cbn [map concat fold_left]. rewrite <- app_assoc.
    destruct (line_re' l s (concat (map line_in ls) ++ rest) R P) as (c1 & s1 & O1 & R1 & X1 & Q1).
    destruct (IH s1 rest R1 (K s1 R1 X1 Q1)) as (c2 & s2 & O2 & R2 & M2).
    exists (c1 + c2), s2. split; [|split; [exact R2|]].
    + exact (Lemmas_E2E.osteps_trans D _ _ _ _ _ _ _ _ _ _ O1 O2).
    + rewrite M2, (proj2 Q1). reflexivity.
Qed.

(* the premises computed: each line's premise on the start state with the variables its predecessors
   leave (line_pre depends on the state through variables, disable flags and buffer size only) *)
Fixpoint chain_pre (s : state) (ls : list line) : Prop :=
  match ls with
  | [] => True
  | l :: ls' => line_pre D l s /\ chain_pre (set_mem (line_mem l (mem s)) s) ls'
  end.

Lemma chain_pre_transfer : forall ls s s',
  mem s' = mem s -> dis_cmd s' = dis_cmd s -> dis_grp s' = dis_grp s -> length (cbuf s') = length (cbuf s) ->
  chain_pre s ls -> chain_pre s' ls.
Proof.
  induction ls as [|l ls IH]; intros s s' Hm H1 H2 Hl C; [exact I|].
  destruct C as [P C]. split; [exact (line_pre_transfer D l s s' Hm H1 H2 Hl P)|].
  apply (IH (set_mem (line_mem l (mem s)) s)); try assumption.
  cbn [mem set_mem]. rewrite Hm. reflexivity.
Qed.

Lemma chain_ok'_of_pre : forall ls s, chain_pre s ls -> chain_ok' s ls.
Proof.
  induction ls as [|l ls IH]; intros s C; [constructor|].
  destruct C as [P C]. constructor; [exact P|].
  intros s1 R1 (X1 & X2 & X3 & _) (_ & Q). apply IH.
  apply (chain_pre_transfer ls (set_mem (line_mem l (mem s)) s) s1); try assumption.
Qed.

End Kinds'.

Section World'.
Variable D : desc.
Hypothesis Hmx : d_mutex D = false.

Theorem line_re_world' : forall l s rest h t, ready D s -> line_pre D l s ->
  exists calls s' t',
    nsvc D calls (mkw s (line_in l ++ rest) h t) = mkw s' rest h (t' ++ t) /\
    calls_of t' = [] /\ output_of t' = line_out l /\
    ready D s' /\ same_ctx s s' /\ line_post' l s s'.
Proof.
  intros l s rest h t R P. destruct (line_re' D Hmx l s rest R P) as (calls & s' & O & R' & X & Q).
  destruct (osteps_world_t D calls s _ s' rest _ h t O) as (t' & E & A & B).
  exists calls, s', t'. exact (conj E (conj A (conj B (conj R' (conj X Q))))).
Qed.

Theorem chain_world' : forall ls s rest h t, ready D s -> chain_ok' D s ls ->
  exists calls s' t',
    nsvc D calls (mkw s (concat (map line_in ls) ++ rest) h t) = mkw s' rest h (t' ++ t) /\
    calls_of t' = [] /\ output_of t' = concat (map line_out ls) /\ ready D s' /\
    mem s' = fold_left (fun m0 l => line_mem l m0) ls (mem s).
Proof.
  intros ls s rest h t R C. destruct (chain' D Hmx ls s rest R C) as (calls & s' & O & R' & M).
  destruct (osteps_world_t D calls s _ s' rest _ h t O) as (t' & E & A & B).
  exists calls, s', t'. exact (conj E (conj A (conj B (conj R' M)))).
Qed.

Theorem concat2' : forall l1 l2 s rest h,
  length (cbuf s) = asz_of D -> ready D s -> line_pre D l1 s ->
  (forall s1, ready D s1 -> same_ctx s s1 -> line_post' l1 s s1 -> line_pre D l2 s1) ->
  exists c c1 c2,
    let w  := nsvc D c  (mkw s (line_in l1 ++ line_in l2 ++ rest) h []) in
    let wa := nsvc D c1 (mkw s (line_in l1) h []) in
    let wb := nsvc D c2 (mkw (reinit_state D (wst wa)) (line_in l2) h []) in
    output_of (wtr w) = output_of (wtr wa) ++ output_of (wtr wb) /\
    output_of (wtr wa) = line_out l1 /\ output_of (wtr wb) = line_out l2 /\
    inq (wio w) = rest /\ inq (wio wa) = [] /\ inq (wio wb) = [] /\
    calls_of (wtr w) = [] /\ ready D (wst w) /\ ready D (wst wa) /\ ready D (wst wb) /\
    mem (wst wa) = line_mem l1 (mem s) /\ mem (wst w) = line_mem l2 (line_mem l1 (mem s)) /\
    mem (wst wb) = mem (wst w).
Proof.
  intros l1 l2 s rest h L R P1 K.
  destruct (line_re_world' l1 s (line_in l2 ++ rest) h [] R P1) as (c1 & s1 & t1 & E1 & A1 & B1 & R1 & X1 & Q1).
  destruct (line_re_world' l2 s1 rest h (t1 ++ []) R1 (K s1 R1 X1 Q1)) as (c2 & s2 & t2 & E2 & A2 & B2 & R2 & X2 & Q2).
  pose proof (line_re_world' l1 s [] h [] R P1) as Ha. rewrite app_nil_r in Ha.
  destruct Ha as (ca & sa & ta & Ea & Aa & Ba & Ra & Xa & Qa).
  assert (La : length (cbuf sa) = asz_of D) by (destruct Xa as (Xl & _); rewrite Xl; exact L).
  pose proof (line_re_world' l2 (reinit_state D sa) [] h [] (ready_reinit D sa La Ra)
                (line_pre_reinit D l2 sa La (K sa Ra Xa Qa))) as Hb. rewrite app_nil_r in Hb.
  destruct Hb as (cb & sb & tb & Eb & Ab & Bb & Rb & Xb & Qb).
  exists (c1 + c2), ca, cb. cbv zeta.
  assert (E : nsvc D (c1 + c2) (mkw s (line_in l1 ++ line_in l2 ++ rest) h []) = mkw s2 rest h (t2 ++ t1 ++ [])).
  { unfold nsvc in *. rewrite Lemmas_C02e.iter_add, E1, E2. reflexivity. }
  rewrite E, Ea. cbn [Fsm.st Fsm.io Fsm.tr mkw inq]. rewrite Eb. cbn [Fsm.st Fsm.io Fsm.tr mkw inq].
  rewrite !app_nil_r, Lemmas_E2E.output_of_app, Lemmas_E2E.calls_of_app, A1, A2, B1, B2, Ba, Bb.
  assert (Ma : mem sa = line_mem l1 (mem s)) by exact (proj2 Qa).
  assert (M2 : mem s2 = line_mem l2 (line_mem l1 (mem s))) by (rewrite (proj2 Q2), (proj2 Q1); reflexivity).
  assert (Mb : mem sb = mem s2).
  { rewrite (proj2 Qb), M2. change (mem (reinit_state D sa)) with (mem sa). rewrite Ma. reflexivity. }
  exact (conj eq_refl (conj eq_refl (conj eq_refl (conj eq_refl (conj eq_refl (conj eq_refl (conj eq_refl
        (conj R2 (conj Ra (conj Rb (conj Ma (conj M2 Mb)))))))))))).
Qed.

(* the premise of the second line on ONE computed state *)
Theorem concat2_mem : forall l1 l2 s rest h,
  length (cbuf s) = asz_of D -> ready D s -> line_pre D l1 s ->
  line_pre D l2 (set_mem (line_mem l1 (mem s)) s) ->
  exists c c1 c2,
    let w  := nsvc D c  (mkw s (line_in l1 ++ line_in l2 ++ rest) h []) in
    let wa := nsvc D c1 (mkw s (line_in l1) h []) in
    let wb := nsvc D c2 (mkw (reinit_state D (wst wa)) (line_in l2) h []) in
    output_of (wtr w) = output_of (wtr wa) ++ output_of (wtr wb) /\
    output_of (wtr wa) = line_out l1 /\ output_of (wtr wb) = line_out l2 /\
    inq (wio w) = rest /\ inq (wio wa) = [] /\ inq (wio wb) = [] /\
    calls_of (wtr w) = [] /\ ready D (wst w) /\ ready D (wst wa) /\ ready D (wst wb) /\
    mem (wst wa) = line_mem l1 (mem s) /\ mem (wst w) = line_mem l2 (line_mem l1 (mem s)) /\
    mem (wst wb) = mem (wst w).
Proof.
  intros l1 l2 s rest h L R P1 P2. apply (concat2' l1 l2 s rest h L R P1).
  intros s1 R1 (X1 & X2 & X3 & _) (_ & Q).
  apply (line_pre_transfer D l2 (set_mem (line_mem l1 (mem s)) s) s1); try assumption.
Qed.
End World'.

(* ---------- the explicit forms ---------- *)
Lemma re_world_explicit' : forall D, d_mutex D = false -> forall l s rest h, ready D s -> line_pre D l s ->
  let w0 := mkw s (line_in l ++ rest) h [] in
  exists calls, let w := nsvc D calls w0 in
    w = mkw (wst w) rest h (wtr w) /\ calls_of (wtr w) = [] /\ output_of (wtr w) = line_out l /\
    ready D (wst w) /\ same_ctx s (wst w) /\ line_post' l s (wst w).
Proof.
  intros D Hmx l s rest h R P w0.
  destruct (line_re_world' D Hmx l s rest h [] R P) as (calls & s' & t' & E & A & B & R' & X & Q).
  exists calls. cbv zeta. unfold w0. rewrite E. cbn [Fsm.st Fsm.tr mkw]. rewrite app_nil_r.
  exact (conj eq_refl (conj A (conj B (conj R' (conj X Q))))).
Qed.

Theorem E2E_write_line_exact_proof : forall D s name rest h i c m args,
  d_mutex D = false -> 0 < ncmds D -> ncmds D <= 4 * length (cbuf s) -> 6 <= length (cbuf s) ->
  fault s = false ->
  k_state (k s) = CS_IDLE -> k_cr (k s) = false -> k_implicit (k s) = false -> k_hold (k s) = false ->
  u_state (u s) = US_IDLE -> u_count (u s) = 0 ->
  name_ok name = true -> implicit_hit D s (upper name) = false ->
  resolve (upper name) (enabled D s) (cmds D) = Some i -> nth_error (cmds D) i = Some c ->
  Lemmas_C07e.rt_cmd_ok m c -> Lemmas_C07e.read_args_text m c = Some args ->
  Lemmas_C07e.same_shape m (mem s) -> ~ In ch_CR args -> length args < length (cbuf s) ->
  let w0 := mkw s ([ch_A; ch_T] ++ name ++ [ch_EQ] ++ args ++ [ch_LF] ++ rest) h [] in
  exists calls, let w := nsvc D calls w0 in
    output_of (wtr w) = [ch_LF] ++ txt_OK ++ [ch_LF] /\
    mem (wst w) = write_mem (c_vars c) m (mem s) /\
    re_facts D s rest h w.
Proof.
  intros D s name rest h i c m args Hmx Hn HL H6 Hf Hst Hcr Himp Hh Hu1 Hu2 P1 P2 P3 P4 P5 P6 P7 P8 P9 w0.
  pose proof (ready_intro D s Hn HL H6 Hf Hst Hcr Himp Hh Hu1 Hu2) as R.
  destruct (re_world_explicit' D Hmx (LWrite name i c m args) s rest h R
              (conj P1 (conj P2 (conj P3 (conj P4 (conj P5 (conj P6 (conj P7 (conj P8 P9)))))))))
    as (calls & E & A & B & R' & X & _ & Q).
  cbn [line_in line_mem] in E, A, B, R', X, Q. rewrite <- !app_assoc in E, A, B, R', X, Q.
  exists calls. cbv zeta. split; [exact B|]. split; [exact Q|].
  exact (re_facts_intro D s rest h _ E A R' X).
Qed.

(* ===================================================================== *)
(* write_mem, slot by slot; a WRITE line followed by the READ line       *)
(* ===================================================================== *)
Lemma fold_wr1_other : forall m m0 vs acc sl, ~ In sl (map v_slot vs) ->
  nth_error (fold_left (wr1 m m0) vs acc) sl = nth_error acc sl.
Proof.
  intros m m0. induction vs as [|a r IH]; intros acc sl Hn; [reflexivity|].
  cbn [fold_left map] in *. rewrite IH by (intro H; apply Hn; right; exact H).
  unfold wr1. destruct (nth_error m (v_slot a)); [|reflexivity]. destruct (nth_error m0 (v_slot a)); [|reflexivity].
  apply Lemmas_C07e.nth_error_upd_other. intro E. apply Hn. left. exact E.
Qed.

Lemma fold_wr1_in : forall m m0 vs v d0 o, NoDup (map v_slot vs) -> In v vs ->
  nth_error m (v_slot v) = Some d0 -> nth_error m0 (v_slot v) = Some o ->
  forall acc y, nth_error acc (v_slot v) = Some y ->
  nth_error (fold_left (wr1 m m0) vs acc) (v_slot v) = Some (stored v d0 o).
Proof.
  intros m m0. induction vs as [|a r IH]; intros v d0 o Hnd Hin Hd Ho acc y Hy; [destruct Hin|].
  cbn [map] in Hnd. inversion Hnd as [|? ? Hna Hnd']; subst. cbn [fold_left].
  destruct Hin as [->|Hin].
  - rewrite fold_wr1_other by exact Hna. unfold wr1. rewrite Hd, Ho.
    exact (Lemmas_C07e.nth_error_upd_same _ _ _ _ _ Hy).
  - assert (Hne : v_slot a <> v_slot v).
    { intro E. apply Hna. rewrite E. apply in_map. exact Hin. }
    apply (IH v d0 o Hnd' Hin Hd Ho _ y).
    unfold wr1. destruct (nth_error m (v_slot a)); [|exact Hy]. destruct (nth_error m0 (v_slot a)); [|exact Hy].
    rewrite Lemmas_C07e.nth_error_upd_other by exact Hne. exact Hy.
Qed.

(* distinct storage: every variable that has a slot in both memories holds [stored]; every other
   slot is unchanged *)
Lemma write_mem_values : forall vs m m0, NoDup (map v_slot vs) ->
  (forall v d0 o, In v vs -> nth_error m (v_slot v) = Some d0 -> nth_error m0 (v_slot v) = Some o ->
     nth_error (write_mem vs m m0) (v_slot v) = Some (stored v d0 o)) /\
  (forall sl, ~ In sl (map v_slot vs) -> nth_error (write_mem vs m m0) sl = nth_error m0 sl).
Proof.
  intros vs m m0 Hnd. split.
  - intros v d0 o Hin Hd Ho. exact (fold_wr1_in m m0 vs v d0 o Hnd Hin Hd Ho m0 o Ho).
  - intros sl Hn. exact (fold_wr1_other m m0 vs m0 sl Hn).
Qed.

Lemma Forall_cstr : forall (P : N -> Prop) l, Forall P l -> Forall P (cstr l).
Proof.
  intros P. induction l as [|c r IH]; intros H; cbn [Lemmas_C07.cstr]; [constructor|].
  inversion H; subst. destruct (c =? 0)%N; [constructor|]. constructor; auto.
Qed.

Lemma Forall_skipn' : forall (P : N -> Prop) k l, Forall P l -> Forall P (skipn k l).
Proof.
  intros P. induction k as [|k IH]; intros l H; [exact H|].
  destruct l as [|a l]; [constructor|]. inversion H; subst. cbn [skipn]. auto.
Qed.

Lemma sbp_cstr : forall l x, str_body_pieces (cstr l ++ 0%N :: x) = str_body_pieces l.
Proof.
  induction l as [|c r IH]; intros x; cbn [Lemmas_C07.cstr app str_body_pieces]; [reflexivity|].
  destruct (c =? 0)%N eqn:E; cbn [app str_body_pieces]; [reflexivity|]. rewrite E, IH. reflexivity.
Qed.

(* what is stored is a well-formed value with the text of the value written *)
Lemma stored_ok : forall v d0 o,
  length d0 = v_size v -> length o = v_size v ->
  Forall (fun b => (b < 256)%N) d0 -> Forall (fun b => (b < 256)%N) o ->
  (v_type v = VBufStr -> In 0%N d0) ->
  length (stored v d0 o) = v_size v /\ Forall (fun b => (b < 256)%N) (stored v d0 o) /\
  (v_type v = VBufStr -> In 0%N (stored v d0 o)) /\ var_text v (stored v d0 o) = var_text v d0 /\
  same_value v (stored v d0 o) d0.
Proof.
  intros v d0 o L0 Lo B0 Bo Hs. unfold stored, Lemmas_C07.same_value, var_text.
  destruct (v_type v) eqn:Ety; try (repeat split; auto; intros; discriminate).
  specialize (Hs eq_refl). pose proof (Lemmas_C07.cstr_shorter d0 Hs) as Hlt.
  assert (Hlen : length (cstr d0 ++ 0%N :: skipn (S (length (cstr d0))) o) = v_size v).
  { rewrite app_length. cbn [length]. rewrite skipn_length. lia. }
  split; [exact Hlen|]. split.
  { apply Forall_app. split; [apply Forall_cstr; exact B0|].
    constructor; [reflexivity | apply Forall_skipn'; exact Bo]. }
  split; [intros _; apply in_or_app; right; left; reflexivity|]. split.
  - unfold fmt_bufstr_pieces.
    rewrite (firstn_all2 (cstr d0 ++ 0%N :: skipn (S (length (cstr d0))) o)) by lia.
    rewrite (firstn_all2 d0) by lia.
    destruct (v_access v); rewrite ?sbp_cstr; reflexivity.
  - split; [apply Lemmas_C07.cstr_cstr_app | congruence].
Qed.

(* every stored byte is a byte *)
Definition mem_bytes (m0 : list (list N)) : Prop := Forall (Forall (fun b => (b < 256)%N)) m0.

(* the READ premises on the memory a WRITE leaves: m is the memory written, m0 the memory before *)
Lemma write_mem_rt : forall c m m0,
  Lemmas_C07e.rt_cmd_ok m c -> Lemmas_C07e.same_shape m m0 -> mem_bytes m0 ->
  Lemmas_C07e.rt_cmd_ok (write_mem (c_vars c) m m0) c /\
  Lemmas_C07e.read_args_text (write_mem (c_vars c) m m0) c = Lemmas_C07e.read_args_text m c.
Proof.
  intros c m m0 (A1 & A2 & A3 & A4 & A5 & A6 & A7) Hsh Hby.
  destruct (write_mem_values (c_vars c) m m0 A3) as [HV _].
  assert (K : forall v, In v (c_vars c) ->
    exists d0 o, nth_error m (v_slot v) = Some d0 /\
      nth_error (write_mem (c_vars c) m m0) (v_slot v) = Some (stored v d0 o) /\
      Lemmas_C07e.rt_var_ok (write_mem (c_vars c) m m0) v /\ var_text v (stored v d0 o) = var_text v d0).
  { intros v Hin. rewrite Forall_forall in A2.
    destruct (A2 v Hin) as (R1 & R2 & R3 & d0 & Hd & L0 & F0 & S0 & X0 & N0).
    destruct (Lemmas_C07e.same_shape_nth m m0 (v_slot v) d0 Hsh Hd) as (o & Ho & Lo).
    assert (Fo : Forall (fun b => (b < 256)%N) o).
    { unfold mem_bytes in Hby. rewrite Forall_forall in Hby. exact (Hby o (nth_error_In _ _ Ho)). }
    destruct (stored_ok v d0 o L0 ltac:(lia) F0 Fo S0) as (T1 & T2 & T3 & T4 & _).
    exists d0, o. split; [exact Hd|]. split; [exact (HV v d0 o Hin Hd Ho)|]. split; [|exact T4].
    split; [exact R1|]. split; [exact R2|]. split; [exact R3|].
    exists (stored v d0 o). split; [exact (HV v d0 o Hin Hd Ho)|]. repeat split; assumption. }
  split.
  - split; [exact A1|]. split; [|repeat split; assumption].
    apply Forall_forall. intros v Hin. destruct (K v Hin) as (d0 & o & _ & _ & H & _). exact H.
  - unfold Lemmas_C07e.read_args_text. f_equal.
    replace (map (fun v : var => match nth_error (write_mem (c_vars c) m m0) (v_slot v) with
                                 | Some d => var_text v d | None => None end) (c_vars c))
      with (map (fun v : var => match nth_error m (v_slot v) with
                                | Some d => var_text v d | None => None end) (c_vars c)); [reflexivity|].
    apply map_ext_in. intros v Hin. destruct (K v Hin) as (d0 & o & E1 & E2 & _ & E3).
    rewrite E1, E2, E3. reflexivity.
Qed.

Section WriteRead.
Variable D : desc.
Hypothesis Hmx : d_mutex D = false.

(* AT name1 = args LF  then  AT name2 ? LF  on the same command: the READ line's premises hold in the
   state the WRITE line leaves, with the SAME argument text *)
Lemma write_then_read_pre : forall s name1 name2 i c m args,
  line_pre D (LWrite name1 i c m args) s ->
  mem_bytes (mem s) ->
  name_ok name2 = true -> implicit_hit D s (upper name2) = false ->
  resolve (upper name2) (enabled D s) (cmds D) = Some i ->
  length (c_name c ++ [ch_EQ] ++ args) < length (cbuf s) ->
  line_pre D (LRead name2 i c args) (set_mem (line_mem (LWrite name1 i c m args) (mem s)) s).
Proof.
  intros s name1 name2 i c m args (P1 & P2 & P3 & P4 & P5 & P6 & P7 & _) Hold N1 N2 N3 N4.
  destruct (write_mem_rt c m (mem s) P5 P7 Hold) as [W1 W2].
  cbn [line_pre line_mem mem set_mem cbuf].
  split; [exact N1|]. split; [exact N2|]. split; [exact N3|]. split; [exact P4|].
  split; [exact W1|]. split; [rewrite W2; exact P6 | exact N4].
Qed.

Theorem concat_write_read : forall s rest h name1 name2 i c m args,
  length (cbuf s) = asz_of D -> ready D s ->
  line_pre D (LWrite name1 i c m args) s ->
  mem_bytes (mem s) ->
  name_ok name2 = true -> implicit_hit D s (upper name2) = false ->
  resolve (upper name2) (enabled D s) (cmds D) = Some i ->
  length (c_name c ++ [ch_EQ] ++ args) < length (cbuf s) ->
  exists c0 c1 c2,
    let w  := nsvc D c0 (mkw s (([ch_A; ch_T] ++ name1 ++ [ch_EQ] ++ args ++ [ch_LF]) ++
                                ([ch_A; ch_T] ++ name2 ++ [ch_QM; ch_LF]) ++ rest) h []) in
    let wa := nsvc D c1 (mkw s ([ch_A; ch_T] ++ name1 ++ [ch_EQ] ++ args ++ [ch_LF]) h []) in
    let wb := nsvc D c2 (mkw (reinit_state D (wst wa)) ([ch_A; ch_T] ++ name2 ++ [ch_QM; ch_LF]) h []) in
    output_of (wtr w) = output_of (wtr wa) ++ output_of (wtr wb) /\
    output_of (wtr wa) = [ch_LF] ++ txt_OK ++ [ch_LF] /\
    output_of (wtr wb) = [ch_LF] ++ c_name c ++ [ch_EQ] ++ args ++ [ch_LF] ++ [ch_LF] ++ txt_OK ++ [ch_LF] /\
    inq (wio w) = rest /\ inq (wio wa) = [] /\ inq (wio wb) = [] /\
    calls_of (wtr w) = [] /\ ready D (wst w) /\ ready D (wst wa) /\ ready D (wst wb) /\
    mem (wst wa) = write_mem (c_vars c) m (mem s) /\ mem (wst w) = mem (wst wa) /\ mem (wst wb) = mem (wst wa) /\
    Lemmas_C07e.rt_cmd_ok (mem (wst wa)) c /\ Lemmas_C07e.read_args_text (mem (wst wa)) c = Some args.
Proof.
  intros s rest h name1 name2 i c m args L R P Hold N1 N2 N3 N4.
  pose proof (write_then_read_pre s name1 name2 i c m args P Hold N1 N2 N3 N4) as P2.
  destruct (concat2_mem D Hmx (LWrite name1 i c m args) (LRead name2 i c args) s rest h L R P P2)
    as (c0 & c1 & c2 & H).
  exists c0, c1, c2. cbv zeta in *. cbn [line_in line_out line_mem] in H.
  destruct H as (H1 & H2 & H3 & H4 & H5 & H6 & H7 & H8 & H9 & H10 & H11 & H12 & H13).
  destruct P as (_ & _ & _ & _ & P5 & P6 & P7 & _).
  destruct (write_mem_rt c m (mem s) P5 P7 Hold) as [W1 W2].
  repeat (split; [assumption|]).
  split; [rewrite H12, H11; reflexivity|]. split; [rewrite H13, H12, H11; reflexivity|].
  rewrite H11. split; [exact W1 | rewrite W2; exact P6].
Qed.
End WriteRead.

(* ===================================================================== *)
(* the instance of Lemmas_E2E.E2E_examples: lW (AT+x= args0 LF) then lB (AT+x? LF)  *)
(* ===================================================================== *)
Module Examples.
Import Lemmas_E2E.E2E_examples Lemmas_C20c.Examples.

(* the variables lW leaves when it meets the all-ones memory m1: the string slot keeps the old bytes
   behind its NUL *)
Definition m01 : list (list N) := [[254; 255]; [65; 44; 34; 0; 1; 1]; [10; 255]; [200]; [5]]%N.
Example ex_line_mem : line_mem lW m1 = m01.
Proof. vm_compute. reflexivity. Qed.

(* the OLD premise of C20_concat2 / chain_ok for lW ; lB is false: a state that line_post allows
   (string equal up to its NUL, junk behind it) in which the READ premise fails *)
Definition mbad : list (list N) := [[254; 255]; [65; 44; 34; 0; 999; 999]; [10; 255]; [200]; [5]]%N.
Definition sbad : state := set_gL 1 (set_gS 1 (set_gR 1 (init_state D0 mbad))).

Lemma ex_sbad : ready D0 sbad /\ same_ctx s1 sbad /\ line_post lW s1 sbad /\ ~ line_pre D0 lB sbad.
Proof.
  split. { unfold ready. cbn. repeat split; lia. }
  split. { unfold same_ctx. cbn. repeat split. }
  split.
  { unfold line_post, lW. split.
    - intros v d0 Hin Hn. cbn in Hin. destruct Hin as [<-|[<-|[<-|[<-|[]]]]]; cbn in Hn; injection Hn as <-;
        eexists; (split; [reflexivity|]); cbn; auto.
    - intros sl Hsl. cbn in Hsl. destruct sl as [|[|[|[|[|sl]]]]]; try (exfalso; apply Hsl; cbn; tauto); reflexivity. }
  intros (_ & _ & _ & _ & (_ & Hv & _) & _).
  inversion Hv as [|? ? _ Hv2]. inversion Hv2 as [|? ? H2 _].
  destruct H2 as (_ & _ & _ & data & Hd & _ & Hb & _). cbn in Hd. injection Hd as <-.
  inversion Hb as [|? ? _ Hb1]. inversion Hb1 as [|? ? _ Hb2]. inversion Hb2 as [|? ? _ Hb3]. inversion Hb3 as [|? ? _ Hb4].
  inversion Hb4 as [|? ? Hlt _]. vm_compute in Hlt. discriminate.
Qed.

Theorem old_premise_false :
  ~ (forall sx, ready D0 sx -> same_ctx s1 sx -> line_post lW s1 sx -> line_pre D0 lB sx).
Proof. intros H. destruct ex_sbad as (A & B & C & N). exact (N (H sbad A B C)). Qed.

(* ... and sbad is not a state lW can leave *)
Example ex_sbad_not_post' : ~ line_post' lW s1 sbad.
Proof. intros (_ & H). vm_compute in H. discriminate H. Qed.

(* the memory before the WRITE line consists of bytes *)
Lemma ex_old_ok : mem_bytes (mem s1).
Proof. repeat constructor. Qed.

(* that hypothesis of concat_write_read is needed for the READ premise: from an old memory with a
   non-byte behind the string's NUL, lW leaves exactly mbad *)
Example ex_mem_bytes_needed :
  let mold : list (list N) := [[1; 1]; [1; 1; 1; 1; 999; 999]; [1; 1]; [1]; [5]]%N in
  line_mem lW mold = mbad /\ ~ line_pre D0 lB (set_mem (line_mem lW mold) (init_state D0 mold)).
Proof.
  cbv zeta. split; [vm_compute; reflexivity|].
  destruct ex_sbad as (_ & _ & _ & N). intros H. apply N.
  apply (line_pre_transfer D0 lB _ sbad) in H; [exact H | vm_compute; reflexivity | reflexivity | reflexivity | reflexivity].
Qed.

Example ex_write_read_apply : forall rest h,
  exists c c1 c2,
    let w  := nsvc D0 c  (mkw s1 (line_in lW ++ line_in lB ++ rest) h []) in
    let wa := nsvc D0 c1 (mkw s1 (line_in lW) h []) in
    let wb := nsvc D0 c2 (mkw (reinit_state D0 (wst wa)) (line_in lB) h []) in
    output_of (wtr w) = output_of (wtr wa) ++ output_of (wtr wb) /\
    output_of (wtr w) = ([10; 79; 75; 10] ++ [10; 43; 88; 61] ++ args0 ++ [10; 10; 79; 75; 10])%N /\
    inq (wio w) = rest /\ mem (wst w) = m01 /\ mem (wst wb) = m01.
Proof.
  intros rest h.
  destruct (concat_write_read D0 eq_refl s1 rest h [43; 120]%N [43; 120]%N 0 c0 m0 args0 eq_refl
              (ex_ready m1) ex_pre_write ex_old_ok) as (c & ca & cb & H).
  - vm_compute; reflexivity.
  - vm_compute; reflexivity.
  - vm_compute; reflexivity.
  - apply Nat.ltb_lt. vm_compute. reflexivity.
  - exists c, ca, cb. cbv zeta in *. unfold lW, lB. cbn [line_in].
    destruct H as (H1 & H2 & H3 & H4 & _ & _ & _ & _ & _ & _ & H11 & H12 & H13 & _).
    split; [exact H1|]. split; [rewrite H1, H2, H3; reflexivity|]. split; [exact H4|].
    split; [rewrite H12, H11; vm_compute; reflexivity | rewrite H13, H11; vm_compute; reflexivity].
Qed.

(* chain' applied to the three lines lW ; lB ; lA: the premises are computed on the start state *)
Example ex_chain_apply : forall rest h,
  exists calls s' t',
    nsvc D0 calls (mkw s1 (concat (map line_in [lW; lB; lA]) ++ rest) h []) = mkw s' rest h (t' ++ []) /\
    output_of t' = ([10; 79; 75; 10] ++ [10; 43; 88; 61] ++ args0 ++ [10; 10; 79; 75; 10] ++
                    [13; 10; 43; 88; 61] ++ args0 ++ [13; 10; 13; 10; 79; 75; 13; 10])%N /\
    ready D0 s' /\ mem s' = m01.
Proof.
  intros rest h.
  assert (PB : line_pre D0 lB (set_mem m01 s1) /\ line_pre D0 lA (set_mem m01 s1)).
  { assert (X : line_pre D0 lB (set_mem m01 s1)).
    { pose proof (write_then_read_pre D0 s1 [43; 120]%N [43; 120]%N 0 c0 m0 args0 ex_pre_write ex_old_ok) as H.
      apply H; try (vm_compute; reflexivity). apply Nat.ltb_lt. vm_compute. reflexivity. }
    split; exact X. }
  destruct (chain_world' D0 eq_refl [lW; lB; lA] s1 rest h [] (ex_ready m1)) as (calls & s' & t' & E & _ & O & R & M).
  { apply chain_ok'_of_pre. cbn [chain_pre]. split; [exact ex_pre_write|].
    split; [exact (proj1 PB)|]. split; [exact (proj2 PB) | exact I]. }
  exists calls, s', t'. split; [exact E|]. split; [rewrite O; reflexivity|]. split; [exact R|].
  rewrite M. vm_compute. reflexivity.
Qed.

(* the same by computation, the three runs spelled out: AT+x= args0 LF AT+x? LF on the memory m1
   (43 + 53 calls); line 1 alone (43 calls); line 2 alone after cat_init (53 calls) *)
Example ex_write_read_run :
  let l1 := line_in lW in let l2 := line_in lB in
  let w  := nsvc D0 (43 + 53) (mkw s1 (l1 ++ l2) [] []) in
  let wa := nsvc D0 43 (mkw s1 l1 [] []) in
  let wb := nsvc D0 53 (mkw (reinit_state D0 (wst wa)) l2 [] []) in
  output_of (wtr w) = output_of (wtr wa) ++ output_of (wtr wb) /\
  output_of (wtr wa) = [10; 79; 75; 10]%N /\
  output_of (wtr wb) = ([10; 43; 88; 61] ++ args0 ++ [10; 10; 79; 75; 10])%N /\
  inq (wio w) = [] /\ mem (wst wa) = m01 /\ mem (wst w) = m01 /\ mem (wst wb) = m01 /\
  k_state (k (wst w)) = CS_IDLE /\ k_cmd (k (wst w)) = None.
Proof. vm_compute. repeat split; reflexivity. Qed.
End Examples.
