(* Script.v — scripted instances of the environment oracles, used for
   extraction, for the correspondence check and for vm_compute examples.
   The C driver's callbacks implement exactly these functions. *)
From Coq Require Import List NArith ZArith Bool Arith.
From CatV Require Import Bytes Defs Codec Fsm.
Import ListNotations.

Definition pop_bit (l : list bool) : bool * list bool :=
  match l with [] => (true, []) | b :: r => (b, r) end.

(* io: an input queue and two readiness schedules, one bit per attempt;
   an exhausted schedule means "always ready" *)
Record sio := mkSio { inq : list N; rd_sched : list bool; wr_sched : list bool }.

Definition s_read (x : sio) : sio * option N :=
  let (bit, rs) := pop_bit (rd_sched x) in
  if bit then
    match inq x with
    | [] => (mkSio [] rs (wr_sched x), None)
    | c :: q => (mkSio q rs (wr_sched x), Some c)
    end
  else (mkSio (inq x) rs (wr_sched x), None).

Definition s_write (x : sio) (ch : N) : sio * bool :=
  let (bit, ws) := pop_bit (wr_sched x) in
  (mkSio (inq x) (rd_sched x) ws, bit).

(* mutex: success schedules for lock and unlock *)
Record smu := mkSmu { lock_sched : list bool; unlock_sched : list bool }.
Definition s_lock (x : smu) : smu * bool :=
  let (bit, r) := pop_bit (lock_sched x) in (mkSmu r (unlock_sched x), bit).
Definition s_unlock (x : smu) : smu * bool :=
  let (bit, r) := pop_bit (unlock_sched x) in (mkSmu (lock_sched x) r, bit).

(* handlers: one script per (kind, command, variable); an exhausted script
   answers OK (command handlers) / 0 (variable callbacks) *)
Definition hkey := (nat * nat * nat)%type.
Definition key_of (q : hreq) : hkey :=
  match q with
  | HWrite ci _ _ _ => (0, ci, 0)
  | HRead _ ci _ _ _ => (1, ci, 0)
  | HRun ci => (2, ci, 0)
  | HTest _ ci _ _ _ => (3, ci, 0)
  | VRead _ ci vi => (4, ci, vi)
  | VWrite ci vi _ _ => (5, ci, vi)
  end.
Definition key_eqb (a b : hkey) : bool :=
  let '(a1, a2, a3) := a in let '(b1, b2, b3) := b in
  (a1 =? b1) && (a2 =? b2) && (a3 =? b3).

Definition shs := list (hkey * list hres).

Definition default_res (q : hreq) : hres :=
  match q with
  | VRead _ _ _ | VWrite _ _ _ _ => mkHres 0%Z None [] []
  | _ => mkHres RC_OK None [] []
  end.

Fixpoint s_call (h : shs) (q : hreq) : shs * hres :=
  match h with
  | [] => ([], default_res q)
  | (k0, sc) :: r =>
    if key_eqb k0 (key_of q) then
      match sc with
      | [] => (h, default_res q)
      | x :: sc' => ((k0, sc') :: r, x)
      end
    else let (r', x) := s_call r q in ((k0, sc) :: r', x)
  end.

Definition sworld := world sio smu shs.

(* scenario-level operations: API calls, new input, the application changing a variable *)
Inductive sop :=
  | SOp (o : op) | SFeed (bytes : list N) | SPoke (slot : nat) (bytes : list N)
  | SReinit.   (* cat_init again on the same descriptor: a fresh parser, same variables and flags *)

Definition reinit_state (D : desc) (s : state) : state :=
  init_state D (mem s) |> set_dis_cmd (dis_cmd s) |> set_dis_grp (dis_grp s)
    |> set_gL (gL s) |> set_gS (gS s) |> set_gR (gR s) |> set_fault (fault s).

Definition sstep (D : desc) (w : sworld) (o : sop) : sworld :=
  match o with
  | SOp o => step D sio smu shs s_read s_write s_lock s_unlock s_call w o
  | SFeed bytes =>
    set_io sio smu shs (mkSio (inq (io _ _ _ w) ++ bytes) (rd_sched (io _ _ _ w)) (wr_sched (io _ _ _ w))) w
  | SPoke slot bytes => upd_st sio smu shs (fun s => apply_poke s (slot, bytes)) w
  | SReinit => upd_st sio smu shs (reinit_state D) w
  end.

Definition sinit (D : desc) (m : list (list N)) (x : sio) (mx : smu) (h : shs) : sworld :=
  mkWorld sio smu shs (init_state D m) x mx h [].

Definition srun (D : desc) (w : sworld) (ops : list sop) : sworld := fold_left (sstep D) ops w.
