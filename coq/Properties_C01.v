(* Properties_C01.v — property C01: exactly one final result code per command line, in order; no
   byte after a line's LF is consumed before that line's result code is complete.
   Ghost counters of the model (Fsm.v): gL is incremented by read_cmd_char exactly when it delivers
   an LF while the command machine is not idle (a non-blank line ends), gS by ack_ok / ack_error
   (a result code starts), gR by process_io_write when the flush whose continuation is
   AFTER_FLUSH_RESET completes (a result code has been completely emitted).
   All theorems: arbitrary io / mutex / handler oracles, every operation history from cat_init;
   hypothesis D3 (DESIGN.md section 7): event-side handlers do not return HOLD; `fault = false`
   is discharged by C03 in the supported domain.  Proofs: Skel/SkelSim/SkelInv/Lemmas_Ctl/Lemmas_C01. *)
From Coq Require Import List NArith ZArith Bool Arith.
From CatV Require Import Bytes Defs Codec Fsm Skel SkelInv SkelSim EvSkel EvSkelSim Lemmas_Ctl Lemmas_C03 Lemmas_Domain Lemmas_C01.
Import ListNotations.

Section C01.
Variable D : desc.
Variables ioS muS hS : Type.
Variable io_read : ioS -> ioS * option N.
Variable io_write : ioS -> N -> ioS * bool.
Variable mu_lock : muS -> muS * bool.
Variable mu_unlock : muS -> muS * bool.
Variable h_call : hS -> hreq -> hS * hres.
Hypothesis no_uhold : forall hs q, unsol_req q = true -> r_code (snd (h_call hs q)) <> RC_HOLD.

Notation st := (Fsm.st ioS muS hS).
Notation tr := (Fsm.tr ioS muS hS).
Notation run := (Fsm.run D ioS muS hS io_read io_write mu_lock mu_unlock h_call).
Notation cmd_service := (Fsm.cmd_service D ioS muS hS io_read io_write mu_lock mu_unlock h_call).
Notation unsolicited_events_service := (Fsm.unsolicited_events_service D ioS muS hS io_write mu_lock mu_unlock h_call).
Notation reach m x mx h ops := (run (mkWorld ioS muS hS (init_state D m) x mx h []) ops).

(* (a)+(d): at every point of every history  completed <= started <= terminated lines <= completed + 1:
   results never run ahead of lines, a line never gets a second result, results are in line order *)
Theorem C01_one_result_per_line : forall m x mx h ops,
  let s := st (reach m x mx h ops) in
  fault s = false ->
  gR s <= gL s <= S (gR s) /\ gR s <= gS s <= gL s.
Proof. intros m x mx h ops s Hf. apply J_counters. exact (J_reachable D ioS muS hS io_read io_write mu_lock mu_unlock h_call no_uhold m x mx h ops Hf). Qed.

(* (b) whenever the command machine is in a state that can consume input, every terminated line
   has its result code completely emitted *)
Theorem C01_reads_only_when_settled : forall m x mx h ops,
  let s := st (reach m x mx h ops) in
  fault s = false -> reading_state (k_state (k s)) = true ->
  gL s = gR s /\ gS s = gR s.
Proof. intros m x mx h ops s Hf. apply J_reading_settled. exact (J_reachable D ioS muS hS io_read io_write mu_lock mu_unlock h_call no_uhold m x mx h ops Hf). Qed.

(* ... and input is requested from io only in those states, by the command machine only *)
Theorem C01_input_only_in_reading_states : forall w evs r,
  tr (fst (cmd_service w)) = evs ++ tr w -> In (ERd r) evs ->
  reading_state (k_state (k (st w))) = true.
Proof. exact (reads_only_in_reading_states D ioS muS hS io_read io_write mu_lock mu_unlock h_call). Qed.

Theorem C01_event_machine_never_reads : forall w evs r,
  tr (fst (unsolicited_events_service w)) = evs ++ tr w -> ~ In (ERd r) evs.
Proof. exact (event_machine_never_reads D ioS muS hS io_write mu_lock mu_unlock h_call). Qed.

(* a result code in flight is always the last unit of its line: it is being flushed with the
   continuation AFTER_FLUSH_RESET *)
Theorem C01_result_is_last : forall m x mx h ops,
  let s := st (reach m x mx h ops) in
  fault s = false -> gS s = S (gR s) ->
  (k_state (k s) = CS_FLUSH_WAIT \/ k_state (k s) = CS_FLUSH) /\ k_wafter (k s) = CS_AFTER_RESET.
Proof. intros m x mx h ops s Hf. apply J_result_in_flight. exact (J_reachable D ioS muS hS io_read io_write mu_lock mu_unlock h_call no_uhold m x mx h ops Hf). Qed.

(* (c) blank lines: CR / LF consumed while idle change no counter *)
Theorem C01_blank_line : forall w, k_state (k (st w)) = CS_IDLE ->
  let s := st w in let s' := st (fst (cmd_service w)) in
  gL s' = gL s /\ gS s' = gS s /\ gR s' = gR s /\
  (k_state (k s') = CS_IDLE \/ k_state (k s') = CS_PARSE_PREFIX \/ k_state (k s') = CS_ERROR).
Proof. exact (idle_step D ioS muS hS io_read io_write mu_lock mu_unlock h_call no_uhold). Qed.

(* the drain state consumes the rest of a bad line: it is left only by consuming the LF, and exactly
   then one result code starts *)
Theorem C01_drain : forall w, k_state (k (st w)) = CS_ERROR ->
  let s := st w in let s' := st (fst (cmd_service w)) in
  (k_state (k s') = CS_ERROR /\ gL s' = gL s /\ gS s' = gS s /\ gR s' = gR s) \/
  (k_state (k s') = CS_FLUSH_WAIT /\ k_wafter (k s') = CS_AFTER_RESET /\
   gL s' = S (gL s) /\ gS s' = S (gS s) /\ gR s' = gR s).
Proof. exact (error_step D ioS muS hS io_read io_write mu_lock mu_unlock h_call no_uhold). Qed.

(* the exits of the name lookup (where the pinned tree had its defect): a failed lookup is
   acknowledged at once only if the whole line has been consumed (last char LF); otherwise the
   machine goes to the drain state *)
Theorem C01_lookup_exits : forall w, k_state (k (st w)) = CS_SEARCH_COMMAND ->
  let s := st w in let s' := st (fst (cmd_service w)) in
  gL s' = gL s /\ gS s' = gS s /\ gR s' = gR s /\
  (k_state (k s') = CS_SEARCH_COMMAND \/ k_state (k s') = CS_COMMAND_FOUND \/
   (k_state (k s') = CS_COMMAND_NOT_FOUND /\ k_char (k s) = ch_LF) \/
   (k_state (k s') = CS_ERROR /\ k_char (k s) <> ch_LF)).
Proof. exact (search_step D ioS muS hS io_read io_write mu_lock mu_unlock h_call no_uhold). Qed.
End C01.

Print Assumptions C01_one_result_per_line.
Print Assumptions C01_reads_only_when_settled.
Print Assumptions C01_input_only_in_reading_states.
Print Assumptions C01_event_machine_never_reads.
Print Assumptions C01_result_is_last.
Print Assumptions C01_blank_line.
Print Assumptions C01_drain.
Print Assumptions C01_lookup_exits.

(* ---------------------------------------------------------------------------------------------
   The same, unconditionally, in the supported domain: C03 (Lemmas_C03.C03_no_fault) shows that the
   fault flag is never raised for descriptors satisfying wf_desc, events naming pool commands
   (valid_op / valid_icall) — so the hypothesis `fault = false` above is discharged. *)
Section InDomain.
Variable D : desc.
Variables ioS muS hS : Type.
Variable io_read : ioS -> ioS * option N.
Variable io_write : ioS -> N -> ioS * bool.
Variable mu_lock : muS -> muS * bool.
Variable mu_unlock : muS -> muS * bool.
Variable h_call : hS -> hreq -> hS * hres.
Hypothesis no_uhold : forall hs q, unsol_req q = true -> r_code (snd (h_call hs q)) <> RC_HOLD.
Hypothesis handlers_valid : forall hs q, Forall (valid_icall D) (r_calls (snd (h_call hs q))).
Notation st := (Fsm.st ioS muS hS).
Notation run := (Fsm.run D ioS muS hS io_read io_write mu_lock mu_unlock h_call).
Notation reach m x mx h ops := (run (mkWorld ioS muS hS (init_state D m) x mx h []) ops).
Notation JD := (J_in_domain D ioS muS hS io_read io_write mu_lock mu_unlock h_call no_uhold handlers_valid).

Theorem C01_in_domain : forall m x mx h ops,
  wf_desc D m -> Forall (valid_op D) ops ->
  let s := st (reach m x mx h ops) in
  (gR s <= gL s <= S (gR s) /\ gR s <= gS s <= gL s) /\
  (reading_state (k_state (k s)) = true -> gL s = gR s /\ gS s = gR s) /\
  (gS s = S (gR s) -> (k_state (k s) = CS_FLUSH_WAIT \/ k_state (k s) = CS_FLUSH) /\ k_wafter (k s) = CS_AFTER_RESET).
Proof.
  intros m x mx h ops Hwf Hops s. destruct (JD m x mx h ops Hwf Hops) as [_ HJ]. fold s in HJ.
  split; [exact (J_counters s HJ)|]. split; [exact (J_reading_settled s HJ) | exact (J_result_in_flight s HJ)].
Qed.
End InDomain.
Print Assumptions C01_in_domain.
