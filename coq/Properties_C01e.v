(* Properties_C01e.v — whole-line end-to-end theorems (input line in, exact output bytes out), composed from C02, C06, C07, C09, C10, C11: property C01 (one result code per line, in order) made concrete for three kinds of lines, and C07 (round trip) through the real line reader.  Proofs in Lemmas_E2E.v.
   always-ready io (both schedules empty), the event machine idle with an empty queue and no mutex, the
   per-phase results (C02 dispatch, C06 collection, C07 formatting and write-back, C09 forms, C10
   continuations, C11 flush units) chain into the observable behaviour of one complete line:
     1. a READ line answered from variables:   LF name=args LF  LF OK LF
     2. an unknown or ambiguous name:          LF ERROR LF
     3. a WRITE line to variables:             LF OK LF, every variable holds the written value
   In each case the parser is idle again after some number of cat_service calls, has consumed exactly
   the line (the queue holds `rest`), has called no handler, and each of the three ghost counters
   (lines gL, started result codes gS, completely emitted result codes gR) has advanced by one.
   All proofs are in Lemmas_E2E.v.

   Definitions (GlueDefs / Lemmas_C07e / Lemmas_C07, repeated for the reader):
     mkw s input h t  : the scripted world with object state s, input queue `input`, handler scripts h,
                        trace t, empty read/write readiness schedules (always ready), no mutex scripts
     nsvc D n w       : n calls of cat_service
     calls_of t       : the handler calls (ECall events) of trace t, oldest first
     output_of t      : the accepted output bytes of trace t, oldest first
     name_ok name     : name is non-empty and consists of name characters
     rt_cmd_ok m c    : c has at least one variable, all variables read-write without callbacks with
                        well-formed storage in m, distinct slots, no read/write handler, not test-only,
                        no NUL in its name
     read_args_text m c = Some args : args is the comma-joined text of c's variables in memory m
     same_shape m m'  : same number of slots, same slot sizes
     same_value v d1 d2 : equal byte for byte; strings up to and including the first NUL *)
From Coq Require Import List NArith ZArith Bool Arith.
From CatV Require Import Bytes Defs Codec Spec Fsm Script ResolveDefs SchedDefs GlueDefs TextDefs.
From CatV Require Import Lemmas_C07 Lemmas_C07e Lemmas_E2E.
Import ListNotations.
Local Open Scope nat_scope.

Local Notation wst := (Fsm.st sio smu shs).
Local Notation wio := (Fsm.io sio smu shs).
Local Notation whs := (Fsm.hs sio smu shs).
Local Notation wtr := (Fsm.tr sio smu shs).

(* 1. a READ line answered from variables *)
Theorem E2E_read_line : forall D s name rest h i c args,
  d_mutex D = false -> 0 < ncmds D -> ncmds D <= 4 * length (cbuf s) -> 6 <= length (cbuf s) ->
  fault s = false ->
  k_state (k s) = CS_IDLE -> k_cr (k s) = false -> k_implicit (k s) = false -> k_hold (k s) = false ->
  u_state (u s) = US_IDLE -> u_count (u s) = 0 ->
  name_ok name = true -> implicit_hit D s (upper name) = false ->
  resolve (upper name) (enabled D s) (cmds D) = Some i -> nth_error (cmds D) i = Some c ->
  rt_cmd_ok (mem s) c -> read_args_text (mem s) c = Some args ->
  length (c_name c ++ [ch_EQ] ++ args) < length (cbuf s) ->
  let w0 := mkw s ([ch_A; ch_T] ++ name ++ [ch_QM; ch_LF] ++ rest) h [] in
  exists calls, let w := nsvc D calls w0 in
    k_state (k (wst w)) = CS_IDLE /\ inq (wio w) = rest /\ whs w = h /\ calls_of (wtr w) = [] /\
    mem (wst w) = mem s /\ fault (wst w) = false /\
    output_of (wtr w) = [ch_LF] ++ c_name c ++ [ch_EQ] ++ args ++ [ch_LF] ++ [ch_LF] ++ txt_OK ++ [ch_LF] /\
    gL (wst w) = S (gL s) /\ gS (wst w) = S (gS s) /\ gR (wst w) = S (gR s).
Proof. exact Lemmas_E2E.E2E_read_line_proof. Qed.
Print Assumptions E2E_read_line.

(* 2. an unknown or ambiguous name (RUN form AT<name> LF, and READ form AT<name>? LF) *)
Theorem E2E_unknown_line : forall D s name rest h,
  d_mutex D = false -> 0 < ncmds D -> ncmds D <= 4 * length (cbuf s) -> 6 <= length (cbuf s) ->
  fault s = false ->
  k_state (k s) = CS_IDLE -> k_cr (k s) = false -> k_implicit (k s) = false -> k_hold (k s) = false ->
  u_state (u s) = US_IDLE -> u_count (u s) = 0 ->
  name_ok name = true -> implicit_hit D s (upper name) = false ->
  resolve (upper name) (enabled D s) (cmds D) = None ->
  let w0 := mkw s ([ch_A; ch_T] ++ name ++ [ch_LF] ++ rest) h [] in
  exists calls, let w := nsvc D calls w0 in
    k_state (k (wst w)) = CS_IDLE /\ inq (wio w) = rest /\ whs w = h /\ calls_of (wtr w) = [] /\
    mem (wst w) = mem s /\ fault (wst w) = false /\
    output_of (wtr w) = [ch_LF] ++ txt_ERROR ++ [ch_LF] /\
    gL (wst w) = S (gL s) /\ gS (wst w) = S (gS s) /\ gR (wst w) = S (gR s).
Proof. exact Lemmas_E2E.E2E_unknown_line_proof. Qed.
Print Assumptions E2E_unknown_line.

Theorem E2E_unknown_read_line : forall D s name rest h,
  d_mutex D = false -> 0 < ncmds D -> ncmds D <= 4 * length (cbuf s) -> 6 <= length (cbuf s) ->
  fault s = false ->
  k_state (k s) = CS_IDLE -> k_cr (k s) = false -> k_implicit (k s) = false -> k_hold (k s) = false ->
  u_state (u s) = US_IDLE -> u_count (u s) = 0 ->
  name_ok name = true -> implicit_hit D s (upper name) = false ->
  resolve (upper name) (enabled D s) (cmds D) = None ->
  let w0 := mkw s ([ch_A; ch_T] ++ name ++ [ch_QM; ch_LF] ++ rest) h [] in
  exists calls, let w := nsvc D calls w0 in
    k_state (k (wst w)) = CS_IDLE /\ inq (wio w) = rest /\ whs w = h /\ calls_of (wtr w) = [] /\
    mem (wst w) = mem s /\ fault (wst w) = false /\
    output_of (wtr w) = [ch_LF] ++ txt_ERROR ++ [ch_LF] /\
    gL (wst w) = S (gL s) /\ gS (wst w) = S (gS s) /\ gR (wst w) = S (gR s).
Proof. exact Lemmas_E2E.E2E_unknown_read_line_proof. Qed.
Print Assumptions E2E_unknown_read_line.

(* 3. a WRITE line to variables: args is the text READ would print for memory m (of the shape of the
      current memory) and contains no carriage return (the machine drops CRs; a string variable that
      holds a CR is printed with the raw CR, see Codec.str_body_pieces) *)
Theorem E2E_write_line : forall D s name rest h i c m args,
  d_mutex D = false -> 0 < ncmds D -> ncmds D <= 4 * length (cbuf s) -> 6 <= length (cbuf s) ->
  fault s = false ->
  k_state (k s) = CS_IDLE -> k_cr (k s) = false -> k_implicit (k s) = false -> k_hold (k s) = false ->
  u_state (u s) = US_IDLE -> u_count (u s) = 0 ->
  name_ok name = true -> implicit_hit D s (upper name) = false ->
  resolve (upper name) (enabled D s) (cmds D) = Some i -> nth_error (cmds D) i = Some c ->
  rt_cmd_ok m c -> read_args_text m c = Some args ->
  same_shape m (mem s) -> ~ In ch_CR args -> length args < length (cbuf s) ->
  let w0 := mkw s ([ch_A; ch_T] ++ name ++ [ch_EQ] ++ args ++ [ch_LF] ++ rest) h [] in
  exists calls, let w := nsvc D calls w0 in
    k_state (k (wst w)) = CS_IDLE /\ inq (wio w) = rest /\ whs w = h /\ calls_of (wtr w) = [] /\
    fault (wst w) = false /\
    output_of (wtr w) = [ch_LF] ++ txt_OK ++ [ch_LF] /\
    (forall v d0, In v (c_vars c) -> nth_error m (v_slot v) = Some d0 ->
       exists d1, nth_error (mem (wst w)) (v_slot v) = Some d1 /\ same_value v d1 d0) /\
    (forall sl, ~ In sl (map v_slot (c_vars c)) -> nth_error (mem (wst w)) sl = nth_error (mem s) sl) /\
    gL (wst w) = S (gL s) /\ gS (wst w) = S (gS s) /\ gR (wst w) = S (gR s).
Proof. exact Lemmas_E2E.E2E_write_line_proof. Qed.
Print Assumptions E2E_write_line.

(* ---------- non-vacuity: the instance E2E_examples of Lemmas_E2E.v ----------
   table  +X (int16, string[6], hexbuf[2], uint8; no handlers)  and  +XY (run handler);
   buffer of 40 bytes; memory m0 = -2 ; A , dquote ; 0A FF ; 200 ; (a fifth slot no variable uses);
   obs = (state, remaining input, handler scripts, calls, output, memory, fault, (gL, gS, gR)) *)
Import Lemmas_E2E.E2E_examples.

(* the hypotheses of E2E_read_line hold for  at+x?  on (D0, s0) *)
Example E2E_ex_read_hyps :
  hyps_ok D0 s0 = true /\ name_ok [43; 120]%N = true /\
  implicit_hit D0 s0 (upper [43; 120]%N) = false /\
  resolve (upper [43; 120]%N) (enabled D0 s0) (cmds D0) = Some 0 /\ nth_error (cmds D0) 0 = Some c0 /\
  read_args_text (mem s0) c0 = Some args0 /\
  (length (c_name c0 ++ [ch_EQ] ++ args0) <? length (cbuf s0)) = true /\
  rt_cmd_ok (mem s0) c0.
Proof. repeat (split; [vm_compute; reflexivity|]). exact ex_rt. Qed.

(* AT+x? LF 1 2 3 : after exactly 53 calls the parser is idle, 1 2 3 is still queued, no call, the
   output is LF +X=-2,A,\,0AFF,200 LF LF OK LF, memory unchanged, counters (1,1,1) *)
Example E2E_ex_read_run :
  go s0 ([65; 84; 43; 120; 63; 10; 1; 2; 3]%N) 53 =
    (CS_IDLE, [1; 2; 3]%N, [], [],
     [10]%N ++ [43; 88; 61]%N ++ args0 ++ [10; 10; 79; 75; 10]%N, m0, false, (1, 1, 1)).
Proof. vm_compute. reflexivity. Qed.

(* the general theorem applied to this instance *)
Example E2E_ex_read_apply :
  exists calls, let w := nsvc D0 calls (mkw s0 ([65; 84; 43; 120; 63; 10; 1; 2; 3]%N) [] []) in
    k_state (k (wst w)) = CS_IDLE /\ inq (wio w) = [1; 2; 3]%N /\
    output_of (wtr w) = [10; 43; 88; 61]%N ++ args0 ++ [10; 10; 79; 75; 10]%N.
Proof.
  destruct E2E_ex_read_hyps as (_ & H2 & H3 & H4 & H5 & H6 & H7 & H8).
  apply Nat.ltb_lt in H7.
  destruct (E2E_read_line D0 s0 [43; 120]%N [1; 2; 3]%N [] 0 c0 args0
              eq_refl ltac:(apply Nat.ltb_lt; reflexivity) ltac:(apply Nat.leb_le; reflexivity)
              ltac:(apply Nat.leb_le; reflexivity)
              eq_refl eq_refl eq_refl eq_refl eq_refl eq_refl eq_refl H2 H3 H4 H5 H8 H6 H7)
    as (calls & A & B & _ & _ & _ & _ & O & _).
  exists calls. cbv zeta. split; [exact A|]. split; [exact B|]. exact O.
Qed.

(* AT+ LF 1 2 3 : + is a proper prefix of both names, hence ambiguous: LF ERROR LF in 21 calls *)
Example E2E_ex_unknown_run :
  resolve (upper [43]%N) (enabled D0 s0) (cmds D0) = None /\
  go s0 ([65; 84; 43; 10; 1; 2; 3]%N) 21 =
    (CS_IDLE, [1; 2; 3]%N, [], [], [10; 69; 82; 82; 79; 82; 10]%N, m0, false, (1, 1, 1)).
Proof. vm_compute. split; reflexivity. Qed.

(* AT+x= args0 LF 1 2 3  over the different contents m1 (same shape): LF OK LF in 43 calls, the
   variables hold the values of m0 (the string up to its NUL), the fifth slot is untouched *)
Example E2E_ex_write_run :
  hyps_ok D0 s1 = true /\ same_shape m0 (mem s1) /\ (length args0 <? length (cbuf s1)) = true /\
  go s1 ([65; 84; 43; 120; 61]%N ++ args0 ++ [10; 1; 2; 3]%N) 43 =
    (CS_IDLE, [1; 2; 3]%N, [], [], [10; 79; 75; 10]%N,
     [[254; 255]; [65; 44; 34; 0; 1; 1]; [10; 255]; [200]; [5]]%N, false, (1, 1, 1)).
Proof. vm_compute. repeat split; reflexivity. Qed.

Example E2E_ex_write_apply : forall v d0, In v (c_vars c0) -> nth_error m0 (v_slot v) = Some d0 ->
  exists calls d1,
    nth_error (mem (wst (nsvc D0 calls (mkw s1 ([65; 84; 43; 120; 61]%N ++ args0 ++ [10; 1; 2; 3]%N) [] []))))
              (v_slot v) = Some d1 /\ same_value v d1 d0.
Proof.
  intros v d0 Hin Hn.
  destruct E2E_ex_read_hyps as (_ & H2 & _ & _ & H5 & H6 & _ & H8).
  destruct (E2E_write_line D0 s1 [43; 120]%N [1; 2; 3]%N [] 0 c0 m0 args0
              eq_refl ltac:(apply Nat.ltb_lt; reflexivity) ltac:(apply Nat.leb_le; reflexivity)
              ltac:(apply Nat.leb_le; reflexivity)
              eq_refl eq_refl eq_refl eq_refl eq_refl eq_refl eq_refl H2 eq_refl eq_refl H5 H8 H6
              eq_refl ex_no_cr ltac:(apply Nat.ltb_lt; reflexivity))
    as (calls & _ & _ & _ & _ & _ & _ & V & _).
  destruct (V v d0 Hin Hn) as (d1 & A & B). exists calls, d1. split; assumption.
Qed.
