(* Lemmas_Calls.v — which handler RUNS (C02), for which command (C09), and three C03 facts.
   Part 1 (skeleton): the request-type invariant JT (RUN_LOOP => T_RUN, argument parsing / WRITE_LOOP =>
           T_WRITE, read formatting / READ_LOOP => T_READ, test states => T_TEST), proved on the control
           skeleton of Skel.v with the machinery of SkelInv.v; the states that need the selected command
           are entered only through CS_COMMAND_FOUND (needs_back).
   Part 2 (model, any oracles): k_cmd is assigned only in the six states of writes_cmd (P1); every
           callback recorded in a history was made inside one cat_service operation, command-side
           callbacks by the command machine's step, in the state call_state q, for the command in k_cmd.
   Part 3 (histories): JT in the domain (P2); the callbacks' command, kind and request type (P3); the
           selection goes back to a CS_COMMAND_FOUND state of the same line (selection_origin); callbacks
           concern registered, enabled commands (P4).
   Part 4: a disabled command is invisible to name resolution (P5).
   Part 5: decoders stay within data_size (P6), the shared-buffer split (P7), lengths in reachable
           states (P8).
   Part 6: the invariant Acc (any descriptor, any oracles, any operations): in the handler-loop,
           argument and formatting states the selected command serves that request form (not test-only,
           has the handler / an accessible variable); hence every command-side callback of a history
           is one that Spec.dispatch_accepts allows, and variable callbacks exist.
   Statements: Properties_C02c.v, Properties_C09c.v, Properties_C03c.v. *)
From Coq Require Import List NArith ZArith Bool Arith Lia.
From CatV Require Import Bytes Defs Codec Spec Fsm Skel SkelInv SkelSim EvSkel EvSkelSim Lemmas_Ctl Lemmas_C09 Lemmas_C03 Lemmas_Domain.
Import ListNotations.
Local Open Scope nat_scope.

Definition JT (c : ctl) : Prop :=
  match ck c with
  | CS_RUN_LOOP => cty c = T_RUN
  | CS_PARSE_COMMAND_ARGS | CS_PARSE_WRITE_ARGS | CS_WRITE_LOOP => cty c = T_WRITE
  | CS_FORMAT_READ_ARGS | CS_READ_LOOP | CS_AFTER_FMT_READ => cty c = T_READ
  | CS_WAIT_TEST_ACK | CS_FORMAT_TEST_ARGS | CS_TEST_LOOP | CS_AFTER_FMT_TEST => cty c = T_TEST
  | CS_FLUSH_WAIT | CS_FLUSH =>
    (cwa c = CS_AFTER_RESET \/ flush_cont (cwa c) = true) /\
    (cwa c = CS_AFTER_FMT_READ -> cty c = T_READ) /\ (cwa c = CS_AFTER_FMT_TEST -> cty c = T_TEST)
  | _ => True
  end.

Ltac solveT :=
  unfold JT, flush_cont in *; unfa; cbn in *;
  repeat match goal with
         | H : _ /\ _ |- _ => destruct H
         end;
  repeat match goal with
         | |- _ /\ _ => split
         end;
  try solve [ intros; try discriminate; try congruence; auto;
              intuition (try discriminate; try congruence) ].

Lemma JT_cmd_next : forall c c' r, JT c -> cmd_next False c c' r -> JT c'.
Proof.
  intros c c' r HJ H. dctl c. destruct k0; cbn in H; unfrel.
  8: destruct ty; cbn in H.
  all: repeat (progress (unfrel; decomp; cbn in * )).
  all: try solve [solveT].
  all: try solve [destruct wa; solveT].
  all: try solve [destruct hold; solveT].
  all: try solve [destruct lf; solveT].
Qed.

Lemma uns_next_frame : forall c c' r, uns_next c c' r ->
  ck c' = ck c /\ cty c' = cty c /\ cwa c' = cwa c.
Proof.
  intros c c' r H. dctl c. destruct u0; cbn in H; unfrel.
  all: repeat (progress (unfrel; decomp; cbn in * )).
  all: try solve [unfa; cbn; auto].
  all: match goal with H : UNSOL = ATCMD |- _ => discriminate H end.
Qed.

(* JT only reads the state, the request type and the flush continuation *)
Lemma JT_ext : forall c c', ck c' = ck c -> cty c' = cty c -> cwa c' = cwa c -> JT c -> JT c'.
Proof. intros c c' E1 E2 E3 H. unfold JT in *. rewrite E1, E2, E3. exact H. Qed.

Lemma JT_uns_next : forall c c' r, JT c -> uns_next c c' r -> JT c'.
Proof. intros c c' r H U. destruct (uns_next_frame _ _ _ U) as (E1 & E2 & E3). eapply JT_ext; eassumption. Qed.

Lemma JT_heff : forall c c1, JT c -> heff c c1 -> JT c1.
Proof.
  intros c c1 H E. destruct (heff_ck _ _ E) as (E1 & _ & _ & E2 & E3). eapply JT_ext; eassumption.
Qed.

Lemma JT_op_next : forall o c c' r, JT c -> op_next False o c c' r -> JT c'.
Proof.
  intros o c c' r HJ H. destruct o; cbn in H; try (subst; assumption).
  - destruct H as [[-> _] | (r0 & (c1 & us & rc & Hu & Hc & _) & _)]; [assumption|].
    eapply JT_cmd_next; [|eassumption]. eapply JT_uns_next; eassumption.
  - eapply JT_heff; eassumption.
Qed.

Lemma JT_init : JT init_ctl.
Proof. exact I. Qed.

(* ---------- the states that need the selected command are entered only from CS_COMMAND_FOUND ---------- *)
Definition a_needs (c : ctl) : bool :=
  uses_cmd (ck c) || (is_flush (ck c) && fmt_cont (cwa c)).

Lemma a_needs_ext : forall c c', ck c' = ck c -> cwa c' = cwa c -> a_needs c' = a_needs c.
Proof. intros c c' E1 E2. unfold a_needs. rewrite E1, E2. reflexivity. Qed.

Ltac solveN :=
  unfold a_needs in *; unfa; cbn in *;
  try solve [ auto | discriminate | intuition (try discriminate; try congruence) ].

Lemma needs_back_cmd : forall c c' r, JT c -> cmd_next False c c' r -> a_needs c' = true ->
  ck c' = CS_COMMAND_FOUND \/ a_needs c = true.
Proof.
  intros c c' r HT H N. dctl c. destruct k0; cbn in H; unfrel.
  8: destruct ty; cbn in H.
  all: repeat (progress (unfrel; decomp; cbn in * )).
  all: try solve [solveN].
  all: try solve [destruct wa; solveN].
  all: try solve [destruct lf; solveN].
  all: try solve [destruct hold; solveN].
Qed.

Lemma needs_back_op : forall o c c' r, JT c -> op_next False o c c' r -> a_needs c' = true ->
  ck c' = CS_COMMAND_FOUND \/ a_needs c = true.
Proof.
  intros o c c' r HT H N. destruct o; cbn in H; try (subst; right; assumption).
  - destruct H as [[-> _] | (r0 & (c1 & us & rc & Hu & Hc & _) & _)]; [right; assumption|].
    destruct (needs_back_cmd _ _ _ (JT_uns_next _ _ _ HT Hu) Hc N) as [L|R]; [left; exact L|]. right.
    destruct (uns_next_frame _ _ _ Hu) as (E1 & _ & E3). rewrite <- (a_needs_ext c c1 E1 E3). exact R.
  - right. destruct (heff_ck _ _ H) as (E1 & _ & _ & _ & E3). rewrite <- (a_needs_ext c c' E1 E3). exact N.
Qed.

(* JT spelled out on the object state *)
Definition loop_type (s : state) : Prop :=
  match k_state (k s) with
  | CS_RUN_LOOP => k_type (k s) = T_RUN
  | CS_PARSE_COMMAND_ARGS | CS_PARSE_WRITE_ARGS | CS_WRITE_LOOP => k_type (k s) = T_WRITE
  | CS_FORMAT_READ_ARGS | CS_READ_LOOP | CS_AFTER_FMT_READ => k_type (k s) = T_READ
  | CS_WAIT_TEST_ACK | CS_FORMAT_TEST_ARGS | CS_TEST_LOOP | CS_AFTER_FMT_TEST => k_type (k s) = T_TEST
  | CS_FLUSH_WAIT | CS_FLUSH =>
    (k_wafter (k s) = CS_AFTER_RESET \/ k_wafter (k s) = CS_AFTER_OK \/ k_wafter (k s) = CS_AFTER_FMT_READ \/
     k_wafter (k s) = CS_AFTER_FMT_TEST \/ k_wafter (k s) = CS_PRINT_CMD) /\
    (k_wafter (k s) = CS_AFTER_FMT_READ -> k_type (k s) = T_READ) /\
    (k_wafter (k s) = CS_AFTER_FMT_TEST -> k_type (k s) = T_TEST)
  | _ => True
  end.

Lemma JT_loop_type : forall s, JT (ctl_of s) -> loop_type s.
Proof.
  intros s H. unfold JT, loop_type in *.
  change (ck (ctl_of s)) with (k_state (k s)) in H. change (cty (ctl_of s)) with (k_type (k s)) in H.
  change (cwa (ctl_of s)) with (k_wafter (k s)) in H.
  destruct (k_state (k s)); try exact H.
  all: destruct H as [[A|A] B]; (split; [|exact B]); unfold flush_cont in A;
    destruct (k_wafter (k s)); try discriminate A; auto 10.
Qed.

Lemma loop_type_JT : forall s, loop_type s -> JT (ctl_of s).
Proof.
  intros s H. unfold JT, loop_type in *.
  change (ck (ctl_of s)) with (k_state (k s)). change (cty (ctl_of s)) with (k_type (k s)).
  change (cwa (ctl_of s)) with (k_wafter (k s)).
  destruct (k_state (k s)); try exact H.
  all: destruct H as [A B]; (split; [|exact B]); unfold flush_cont;
    destruct A as [A|[A|[A|[A|A]]]]; rewrite A; auto.
Qed.
(* which machine a request comes from *)
Definition ev_side (q : hreq) : bool :=
  match q with HRead UNSOL _ _ _ _ | HTest UNSOL _ _ _ _ | VRead UNSOL _ _ => true | _ => false end.
(* the request type a callback kind belongs to *)
Definition kind_type (q : hreq) : ctype :=
  match q with
  | HRun _ => T_RUN
  | HWrite _ _ _ _ | VWrite _ _ _ _ => T_WRITE
  | HRead _ _ _ _ _ | VRead _ _ _ => T_READ
  | HTest _ _ _ _ _ => T_TEST
  end.
(* the state of the command machine in which a callback kind is made *)
Definition call_state (q : hreq) : cstate :=
  match q with
  | HRun _ => CS_RUN_LOOP
  | HWrite _ _ _ _ => CS_WRITE_LOOP
  | VWrite _ _ _ _ => CS_PARSE_WRITE_ARGS
  | HRead _ _ _ _ _ => CS_READ_LOOP
  | VRead _ _ _ => CS_FORMAT_READ_ARGS
  | HTest _ _ _ _ _ => CS_TEST_LOOP
  end.

Ltac open_rows :=
  repeat match goal with
         | C : _ \/ _ |- _ => destruct C as [C|C]
         | C : exists _, _ |- _ => let x := fresh "x" in destruct C as [x C]
         | C : _ /\ _ |- _ => let K := fresh "K" in destruct C as [K C]
         | C : ?e = [] |- _ => subst e
         | C : ?e = [_] |- _ => subst e
         end.
Ltac no_in :=
  match goal with
  | H : In _ [] |- _ => destruct H
  | H : In _ [_] |- _ => destruct H as [H|[]]; try discriminate H
  end.

Lemma cmd_evs_kind : forall s evs q code, cmd_evs s evs -> In (ECall q code) evs ->
  k_state (k s) = call_state q /\ k_cmd (k s) = Some (req_cmd q) /\ ev_side q = false.
Proof.
  intros s evs q code C H. unfold cmd_evs in C.
  destruct (k_state (k s)); open_rows; try no_in;
    rewrite (call_evs_call _ _ _ _ C H); cbn [call_state req_cmd ev_side]; auto.
Qed.

Lemma uns_evs_kind : forall D s evs q code, uns_evs D s evs -> In (ECall q code) evs ->
  ev_side q = true /\ u_cmd (u s) = Some (req_cmd q).
Proof.
  intros D s evs q code C H. unfold uns_evs in C.
  destruct (u_state (u s)); open_rows; try no_in;
    rewrite (call_evs_call _ _ _ _ C H); cbn [req_cmd ev_side]; auto.
Qed.
(* states whose step may assign k_cmd *)
Definition writes_cmd (x : cstate) : bool :=
  match x with
  | CS_PARSE_COMMAND_CHAR | CS_UPDATE_COMMAND_STATE | CS_WAIT_READ_ACK | CS_SEARCH_COMMAND
  | CS_AFTER_RESET | CS_PRINT_CMD => true
  | _ => false
  end.
Section Hist.
Variable D : desc.
Variables ioS muS hS : Type.
Variable io_read : ioS -> ioS * option N.
Variable io_write : ioS -> N -> ioS * bool.
Variable mu_lock : muS -> muS * bool.
Variable mu_unlock : muS -> muS * bool.
Variable h_call : hS -> hreq -> hS * hres.

Local Notation world := (Fsm.world ioS muS hS).
Local Notation st := (Fsm.st ioS muS hS).
Local Notation io := (Fsm.io ioS muS hS).
Local Notation mu := (Fsm.mu ioS muS hS).
Local Notation tr := (Fsm.tr ioS muS hS).
Local Notation mkWorld := (Fsm.mkWorld ioS muS hS).
Local Notation set_mu := (Fsm.set_mu ioS muS hS).
Local Notation logw := (Fsm.logw ioS muS hS).
Local Notation bracket := (Fsm.bracket D ioS muS hS mu_lock mu_unlock).
Local Notation call_h := (Fsm.call_h D ioS muS hS mu_lock mu_unlock h_call).
Local Notation read_cmd_char := (Fsm.read_cmd_char ioS muS hS io_read).
Local Notation reading := (Fsm.reading ioS muS hS io_read).
Local Notation unsolicited_events_service :=
  (Fsm.unsolicited_events_service D ioS muS hS io_write mu_lock mu_unlock h_call).
Local Notation cmd_service := (Fsm.cmd_service D ioS muS hS io_read io_write mu_lock mu_unlock h_call).
Local Notation service_body := (Fsm.service_body D ioS muS hS io_read io_write mu_lock mu_unlock h_call).
Local Notation do_op := (Fsm.do_op D ioS muS hS io_read io_write mu_lock mu_unlock h_call).
Local Notation step := (Fsm.step D ioS muS hS io_read io_write mu_lock mu_unlock h_call).
Local Notation run := (Fsm.run D ioS muS hS io_read io_write mu_lock mu_unlock h_call).

Ltac wred := cbn [fst snd Fsm.busy Fsm.upd_st Fsm.set_st Fsm.set_io Fsm.set_mu Fsm.set_hs
                  Fsm.logw Fsm.tr Fsm.st Fsm.io Fsm.mu Fsm.hs].

(* ---------- P1: k_cmd is assigned only in the six states of writes_cmd ---------- *)
Ltac kcall :=
  match goal with
  | |- context [call_h ?w ?q] =>
    let R := fresh "R" in let w1 := fresh "w" in let r := fresh "r" in
    destruct (call_h_rel D ioS muS hS mu_lock mu_unlock h_call w q) as [R _];
    destruct R as (_ & _ & R & _);
    destruct (call_h w q) as [w1 r]; cbn [fst snd] in R
  end.
Ltac kgo := repeat (cbv beta iota zeta; wred; first [kcall | brk1]); cbv beta iota zeta; wred.
Ltac kleaf :=
  first [ reflexivity
        | match goal with R : k_cmd (k (st ?w1)) = _ |- _ => etransitivity; [|exact R]; reflexivity end ].

Lemma reading_keeps : forall (w : world) body,
  (forall ch s, k_cmd (k (body ch s)) = k_cmd (k s)) ->
  k_cmd (k (st (fst (reading w body)))) = k_cmd (k (st w)).
Proof.
  intros w body Hb. unfold Fsm.reading, Fsm.read_cmd_char.
  destruct (io_read (io w)) as [io' [ch|]]; cbv zeta; cbn [negb]; wred; [|reflexivity].
  rewrite Hb. brk; reflexivity.
Qed.

Theorem cmd_service_keeps_cmd : forall (w : world),
  writes_cmd (k_state (k (st w))) = false ->
  k_cmd (k (st (fst (cmd_service w)))) = k_cmd (k (st w)).
Proof.
  intros w HW. unfold Fsm.cmd_service. destruct (k_state (k (st w))) eqn:HX; try discriminate HW.
  all: unfold Fsm.error_state, Fsm.process_idle_state, Fsm.parse_prefix, Fsm.wait_test_acknowledge,
         Fsm.parse_command_args; wred.
  - apply reading_keeps. intros; brk; reflexivity.
  - apply reading_keeps. intros; brk; reflexivity.
  - apply reading_keeps. intros; unfold prepare_parse_command; brk; reflexivity.
  - unfold command_found. unf_fmt. brk; reflexivity.
  - reflexivity.
  - apply reading_keeps. intros; brk; reflexivity.
  - unfold Fsm.parse_write_args. kgo; kleaf.
  - unfold Fsm.format_read_args. unf_fmt. kgo; kleaf.
  - apply reading_keeps. intros. unf_fmt. brk; reflexivity.
  - unf_fmt. brk; reflexivity.
  - unfold Fsm.process_write_loop, enable_hold_state. kgo; kleaf.
  - unfold Fsm.process_rt_loop, apply_edit, hold_exit, start_print_cmd_list. unf_fmt. kgo; kleaf.
  - unfold Fsm.process_rt_loop, apply_edit, hold_exit, start_print_cmd_list. unf_fmt. kgo; kleaf.
  - unfold Fsm.process_run_loop, start_print_cmd_list. kgo; kleaf.
  - unfold process_hold_state. brk; reflexivity.
  - unfold process_io_write_wait. brk; reflexivity.
  - unfold Fsm.process_io_write. kgo; kleaf.
  - reflexivity.
  - unf_fmt. brk; reflexivity.
  - unf_fmt. brk; reflexivity.
Qed.

(* the event machine never assigns k_cmd (any state, any oracles) *)
Lemma uns_keeps_cmd : forall (w : world),
  k_cmd (k (st (fst (unsolicited_events_service w)))) = k_cmd (k (st w)).
Proof.
  intros w. destruct (uns_evrel D ioS muS hS io_write mu_lock mu_unlock h_call w) as (_ & E & _). exact E.
Qed.

Lemma writes_cmd_hold : writes_cmd CS_HOLD = false. Proof. reflexivity. Qed.

Theorem service_body_keeps_cmd : forall (w : world),
  writes_cmd (k_state (k (st w))) = false ->
  k_cmd (k (st (fst (service_body w)))) = k_cmd (k (st w)).
Proof.
  intros w HW. unfold Fsm.service_body.
  pose proof (uns_evrel D ioS muS hS io_write mu_lock mu_unlock h_call w) as (_ & E & _ & _ & _ & X).
  destruct (unsolicited_events_service w) as [w1 us]. cbn [fst] in E, X.
  assert (HW1 : writes_cmd (k_state (k (st w1))) = false)
    by (destruct X as [X|X]; rewrite X; [exact HW | reflexivity]).
  pose proof (cmd_service_keeps_cmd w1 HW1) as C.
  destruct (cmd_service w1) as [w2 s]. cbn [fst] in C.
  destruct (negb (us =? ST_OK)%Z || negb (ustate_beq (u_state (u (st w2))) US_IDLE)); cbn [fst];
    rewrite C; exact E.
Qed.

Theorem do_op_keeps_cmd : forall (w : world) o,
  writes_cmd (k_state (k (st w))) = false ->
  k_cmd (k (st (fst (do_op w o)))) = k_cmd (k (st w)).
Proof.
  intros w o HW. destruct o; cbn [Fsm.do_op]; try reflexivity.
  - unfold Fsm.api_service.
    apply (bracket_P D ioS muS hS mu_lock mu_unlock (fun s => k_cmd (k s) = k_cmd (k (st w)))); [reflexivity|].
    intros w0 E. rewrite <- E. apply service_body_keeps_cmd. rewrite E. exact HW.
  - unfold Fsm.api_trigger.
    apply (bracket_P D ioS muS hS mu_lock mu_unlock (fun s => k_cmd (k s) = k_cmd (k (st w)))); [reflexivity|].
    intros w0 E. rewrite E.
    pose proof (push_rel D (st w) ci t) as P. destruct (push_unsolicited_cmd D (st w) ci t). wred.
    cbn [fst] in P. destruct P as (_ & _ & P & _). exact P.
  - unfold Fsm.api_hold_exit.
    apply (bracket_P D ioS muS hS mu_lock mu_unlock (fun s => k_cmd (k s) = k_cmd (k (st w)))); [reflexivity|].
    intros w0 E. rewrite E.
    pose proof (hold_exit_rel (st w) status) as P. destruct (hold_exit (st w) status). wred.
    cbn [fst] in P. destruct P as (_ & _ & P & _). exact P.
  - unfold Fsm.api_is_busy.
    apply (bracket_P D ioS muS hS mu_lock mu_unlock (fun s => k_cmd (k s) = k_cmd (k (st w)))); [reflexivity|].
    intros w0 E. wred. rewrite E. reflexivity.
  - unfold Fsm.api_is_hold.
    apply (bracket_P D ioS muS hS mu_lock mu_unlock (fun s => k_cmd (k s) = k_cmd (k (st w)))); [reflexivity|].
    intros w0 E. wred. rewrite E. reflexivity.
  - unfold Fsm.api_is_full.
    apply (bracket_P D ioS muS hS mu_lock mu_unlock (fun s => k_cmd (k s) = k_cmd (k (st w)))); [reflexivity|].
    intros w0 E. wred. rewrite E. reflexivity.
Qed.

(* ---------- where the callbacks of a history come from ---------- *)
Lemma bracket_calls : forall (P : world -> hreq -> Z -> Prop) (w : world) body,
  (forall w', st w' = st w -> exists evs, tr (fst (body w')) = evs ++ tr w' /\
      forall q code, In (ECall q code) evs -> P w' q code) ->
  exists evs, tr (fst (bracket w body)) = evs ++ tr w /\
    forall q code, In (ECall q code) evs -> exists w', st w' = st w /\ P w' q code.
Proof.
  intros P w body Hb. unfold Fsm.bracket. destruct (d_mutex D).
  - destruct (mu_lock (mu w)) as [m1 ok]. destruct ok; cbn [negb]; cbv zeta.
    + destruct (Hb (logw (ELock true) (set_mu m1 w)) eq_refl) as [evs [T HP]].
      destruct (body (logw (ELock true) (set_mu m1 w))) as [w2 s]. cbn [fst] in T.
      destruct (mu_unlock (mu w2)) as [m2 ok2].
      exists (EUnlock ok2 :: evs ++ [ELock true]). split.
      * destruct ok2; cbn [negb]; wred; rewrite T; wred; rewrite <- app_comm_cons, <- app_assoc; reflexivity.
      * intros q code [H|H]; [discriminate H|]. apply in_app_or in H.
        destruct H as [H|[H|[]]]; [|discriminate H].
        exists (logw (ELock true) (set_mu m1 w)). split; [reflexivity | apply HP; exact H].
    + exists [ELock false]. split; [reflexivity|]. intros q code [H|[]]; discriminate H.
  - destruct (Hb w eq_refl) as [evs [T HP]]. exists evs. split; [exact T|].
    intros q code H. exists w. split; [reflexivity | apply HP; exact H].
Qed.

(* the moment of a callback inside a cat_service call entered with world w' (after the lock):
   an event-side callback is made for the event being processed; a command-side callback is
   logged by the command machine's step, taken after the event machine's step *)
Definition call_moment (w' : world) (q : hreq) (code : Z) : Prop :=
  let w1 := fst (unsolicited_events_service w') in
  (ev_side q = true /\ u_cmd (u (st w')) = Some (req_cmd q)) \/
  (ev_side q = false /\
   exists evs, tr (fst (cmd_service w1)) = evs ++ tr w1 /\ In (ECall q code) evs).

Lemma service_body_calls : forall (w' : world),
  exists evs, tr (fst (service_body w')) = evs ++ tr w' /\
    forall q code, In (ECall q code) evs -> call_moment w' q code.
Proof.
  intros w'.
  destruct (uns_service_evs D ioS muS hS io_write mu_lock mu_unlock h_call w') as [e1 [T1 U]].
  destruct (cmd_service_evs D ioS muS hS io_read io_write mu_lock mu_unlock h_call
              (fst (unsolicited_events_service w'))) as [e2 [T2 C]].
  exists (e2 ++ e1). split.
  - unfold Fsm.service_body. destruct (unsolicited_events_service w') as [w1 us]. cbn [fst] in *.
    destruct (cmd_service w1) as [w2 s]. cbn [fst] in *.
    destruct (negb (us =? ST_OK)%Z || negb (ustate_beq (u_state (u (st w2))) US_IDLE)); cbn [fst];
      rewrite T2, T1, app_assoc; reflexivity.
  - intros q code H. apply in_app_or in H. destruct H as [H|H].
    + right. destruct (cmd_evs_kind _ _ _ _ C H) as (_ & _ & S). split; [exact S|].
      exists e2. split; [exact T2 | exact H].
    + left. exact (uns_evs_kind D _ _ _ _ U H).
Qed.

Lemma do_op_calls : forall (w : world) o,
  exists evs, tr (fst (do_op w o)) = evs ++ tr w /\
    forall q code, In (ECall q code) evs ->
      o = OService /\ exists w', st w' = st w /\ call_moment w' q code.
Proof.
  intros w o.
  assert (Q : forall body : world -> world * Z, (forall w0, tr (fst (body w0)) = tr w0) ->
    exists evs, tr (fst (bracket w body)) = evs ++ tr w /\
      forall q code, In (ECall q code) evs ->
        o = OService /\ exists w', st w' = st w /\ call_moment w' q code).
  { intros body Hb.
    destruct (bracket_calls (fun _ _ _ => False) w body) as [evs [T HP]].
    - intros w' _. exists []. split; [apply Hb|]. intros q code [].
    - exists evs. split; [exact T|]. intros q code H. destruct (HP q code H) as [_ [_ []]]. }
  destruct o; cbn [Fsm.do_op].
  - unfold Fsm.api_service.
    destruct (bracket_calls call_moment w service_body) as [evs [T HP]].
    + intros w' _. apply service_body_calls.
    + exists evs. split; [exact T|]. intros q code H. split; [reflexivity | exact (HP q code H)].
  - unfold Fsm.api_trigger. apply Q. intros w0. destruct (push_unsolicited_cmd D (st w0) ci t); reflexivity.
  - unfold Fsm.api_hold_exit. apply Q. intros w0. destruct (hold_exit (st w0) status); reflexivity.
  - unfold Fsm.api_is_busy. apply Q. reflexivity.
  - unfold Fsm.api_is_hold. apply Q. reflexivity.
  - unfold Fsm.api_is_full. apply Q. reflexivity.
  - exists []. split; [reflexivity | intros q code []].
  - exists []. split; [reflexivity | intros q code []].
  - exists []. split; [reflexivity | intros q code []].
  - exists []. split; [reflexivity | intros q code []].
Qed.

Lemma step_tr : forall (w : world) o, tr (step w o) = ERet o (snd (do_op w o)) :: tr (fst (do_op w o)).
Proof. intros w o. unfold Fsm.step. destruct (do_op w o) as [w' r]. reflexivity. Qed.

Lemma run_snoc : forall ops (w : world) o, run w (ops ++ [o]) = step (run w ops) o.
Proof. intros ops w o. unfold Fsm.run. rewrite fold_left_app. reflexivity. Qed.

(* every callback recorded in a history was made inside one of its cat_service operations *)
Lemma run_calls : forall ops (w0 : world) q code, In (ECall q code) (tr (run w0 ops)) ->
  In (ECall q code) (tr w0) \/
  exists ops1 ops2 w' evs, ops = ops1 ++ OService :: ops2 /\
    tr (run w0 (ops1 ++ [OService])) = evs ++ tr (run w0 ops1) /\ In (ECall q code) evs /\
    st w' = st (run w0 ops1) /\ call_moment w' q code.
Proof.
  induction ops as [|o ops IH] using rev_ind; intros w0 q code H.
  - left. exact H.
  - rewrite run_snoc, step_tr in H. destruct H as [H|H]; [discriminate H|].
    destruct (do_op_calls (run w0 ops) o) as [evs [T HP]]. rewrite T in H.
    apply in_app_or in H. destruct H as [H|H].
    + destruct (HP q code H) as [-> [w' [E M]]]. right.
      exists ops, [], w', (ERet OService (snd (do_op (run w0 ops) OService)) :: evs).
      split; [reflexivity|]. split; [rewrite run_snoc, step_tr, T; reflexivity|].
      split; [right; exact H|]. split; assumption.
    + destruct (IH w0 q code H) as [L | (ops1 & ops2 & w' & e & E & R)]; [left; exact L|].
      right. exists ops1, (ops2 ++ [o]), w', e. split; [|exact R].
      rewrite E, <- app_assoc. reflexivity.
Qed.

(* the command machine's state at the start of the cat_service call that made a command-side
   callback: the state in which that kind of callback is made, with the command selected.
   Any oracles, any history, no domain assumption *)
Lemma moment_cmd_side : forall (w' : world) q code, call_moment w' q code -> ev_side q = false ->
  let s1 := st (fst (unsolicited_events_service w')) in
  k_state (k s1) = call_state q /\ k_cmd (k s1) = Some (req_cmd q) /\
  k_state (k (st w')) = call_state q /\ k_cmd (k (st w')) = Some (req_cmd q).
Proof.
  intros w' q code M S s1. destruct M as [[S' _] | [_ [evs [T H]]]]; [congruence|].
  destruct (cmd_service_evs D ioS muS hS io_read io_write mu_lock mu_unlock h_call
              (fst (unsolicited_events_service w'))) as [e2 [T2 C]].
  rewrite T in T2. apply app_inv_tail in T2. subst e2.
  destruct (cmd_evs_kind _ _ _ _ C H) as (K1 & K2 & _). fold s1 in K1, K2.
  pose proof (uns_evrel D ioS muS hS io_write mu_lock mu_unlock h_call w') as (_ & E & _ & _ & _ & X).
  fold s1 in E, X. repeat split; try assumption.
  - destruct X as [X|X]; [congruence|]. rewrite X in K1. destruct q; discriminate K1.
  - congruence.
Qed.

(* ---------- P3, one step: the callback's command, kind and request type ---------- *)
Lemma JT_kind : forall s q, JT (ctl_of s) -> k_state (k s) = call_state q -> k_type (k s) = kind_type q.
Proof.
  intros s q H E. unfold JT in H. change (ck (ctl_of s)) with (k_state (k s)) in H.
  change (cty (ctl_of s)) with (k_type (k s)) in H. rewrite E in H. destruct q; exact H.
Qed.

Theorem calls_of_step : forall (w : world) evs q code,
  JT (ctl_of (st w)) ->
  tr (fst (cmd_service w)) = evs ++ tr w -> In (ECall q code) evs ->
  k_cmd (k (st w)) = Some (req_cmd q) /\ k_state (k (st w)) = call_state q /\
  k_type (k (st w)) = kind_type q /\ ev_side q = false.
Proof.
  intros w evs q code HT T H.
  destruct (cmd_service_evs D ioS muS hS io_read io_write mu_lock mu_unlock h_call w) as [e2 [T2 C]].
  rewrite T in T2. apply app_inv_tail in T2. subst e2.
  destruct (cmd_evs_kind _ _ _ _ C H) as (K1 & K2 & K3).
  repeat split; try assumption. apply JT_kind; assumption.
Qed.

(* any oracles, any descriptor, faults allowed: where a callback of a history was made *)
Theorem calls_history_any : forall (w0 : world) ops q code,
  tr w0 = [] -> In (ECall q code) (tr (run w0 ops)) ->
  exists ops1 ops2, ops = ops1 ++ OService :: ops2 /\
    let s := st (run w0 ops1) in
    if ev_side q then u_cmd (u s) = Some (req_cmd q)
    else k_cmd (k s) = Some (req_cmd q) /\ k_state (k s) = call_state q.
Proof.
  intros w0 ops q code T0 H.
  destruct (run_calls ops w0 q code H) as [L | (ops1 & ops2 & w' & evs & E & _ & _ & Ew & M)].
  { rewrite T0 in L. destruct L. }
  exists ops1, ops2. split; [exact E|]. cbv zeta.
  destruct (ev_side q) eqn:S.
  - destruct M as [[_ U] | [S' _]]; [rewrite <- Ew; exact U | congruence].
  - destruct (moment_cmd_side w' q code M S) as (_ & _ & K1 & K2). rewrite Ew in K1, K2. auto.
Qed.

(* ---------- the type invariant over histories ---------- *)
Section Domain.
Hypothesis no_uhold : forall hs q, unsol_req q = true -> r_code (snd (h_call hs q)) <> RC_HOLD.
Hypothesis handlers_valid : forall hs q, Forall (valid_icall D) (r_calls (snd (h_call hs q))).

Lemma st_step : forall (w : world) o, st (step w o) = st (fst (do_op w o)).
Proof. intros w o. unfold Fsm.step. destruct (do_op w o) as [w' r]. reflexivity. Qed.

Lemma JT_step : forall (w : world) o,
  JT (ctl_of (st w)) -> fault (st (step w o)) = false -> JT (ctl_of (st (step w o))).
Proof.
  intros w o HJ Hf. rewrite st_step in *.
  pose proof (do_op_sim D ioS muS hS io_read io_write mu_lock mu_unlock h_call no_uhold w o) as H.
  eapply JT_op_next; [exact HJ|].
  eapply op_next_weaken; [|exact H]. intro Hb. rewrite Hb in Hf. discriminate.
Qed.

Lemma Forall_app_l : forall {A} (P : A -> Prop) l1 l2, Forall P (l1 ++ l2) -> Forall P l1.
Proof. intros A P l1 l2 H. apply Forall_app in H. apply H. Qed.

Theorem JT_in_domain : forall m x mx h ops,
  wf_desc D m -> Forall (valid_op D) ops ->
  JT (ctl_of (st (run (mkWorld (init_state D m) x mx h []) ops))).
Proof.
  intros m x mx h ops WF. induction ops as [|o ops IH] using rev_ind; intros F.
  - exact I.
  - rewrite run_snoc. apply JT_step; [apply IH; eapply Forall_app_l; exact F|].
    rewrite <- run_snoc.
    exact (C03_no_fault D ioS muS hS io_read io_write mu_lock mu_unlock h_call handlers_valid
             m x mx h (ops ++ [o]) WF F).
Qed.

(* the event machine's step changes neither the state, the request type nor the flush continuation *)
Lemma uns_frame : forall (w : world),
  let s1 := st (fst (unsolicited_events_service w)) in
  k_state (k s1) = k_state (k (st w)) /\ k_type (k s1) = k_type (k (st w)) /\
  k_wafter (k s1) = k_wafter (k (st w)).
Proof.
  intros w s1.
  exact (uns_next_frame _ _ _ (uns_service_sim D ioS muS hS io_write mu_lock mu_unlock h_call no_uhold w)).
Qed.

(* P3, histories *)
Theorem calls_history : forall m x mx h ops q code,
  wf_desc D m -> Forall (valid_op D) ops ->
  let w0 := mkWorld (init_state D m) x mx h [] in
  In (ECall q code) (tr (run w0 ops)) -> ev_side q = false ->
  exists ops1 ops2 evs, ops = ops1 ++ OService :: ops2 /\
    tr (run w0 (ops1 ++ [OService])) = evs ++ tr (run w0 ops1) /\ In (ECall q code) evs /\
    let s := st (run w0 ops1) in
    k_cmd (k s) = Some (req_cmd q) /\ k_state (k s) = call_state q /\ k_type (k s) = kind_type q.
Proof.
  intros m x mx h ops q code WF F w0 H S.
  destruct (run_calls ops w0 q code H) as [[] | (ops1 & ops2 & w' & evs & E & T & I & Ew & M)].
  exists ops1, ops2, evs. split; [exact E|]. split; [exact T|]. split; [exact I|].
  destruct (moment_cmd_side w' q code M S) as (_ & _ & K1 & K2). rewrite Ew in K1, K2.
  cbv zeta. split; [exact K2|]. split; [exact K1|].
  apply JT_kind; [|exact K1]. apply JT_in_domain; [exact WF|].
  rewrite E in F. eapply Forall_app_l; exact F.
Qed.

(* ---------- the selection on which a state depends was made in CS_COMMAND_FOUND, on this line ---------- *)
Lemma needs_is : forall s, needs_cmd s = a_needs (ctl_of s).
Proof. reflexivity. Qed.

Lemma needs_not_writer : forall s, needs_cmd s = true -> writes_cmd (k_state (k s)) = false.
Proof. intros s. unfold needs_cmd. destruct (k_state (k s)); cbn; try reflexivity; discriminate. Qed.

Lemma needs_back_step : forall (w : world) o,
  JT (ctl_of (st w)) -> fault (st (step w o)) = false -> needs_cmd (st (step w o)) = true ->
  k_state (k (st (step w o))) = CS_COMMAND_FOUND \/
  (needs_cmd (st w) = true /\ k_cmd (k (st (step w o))) = k_cmd (k (st w))).
Proof.
  intros w o HT Hf N. rewrite st_step in *.
  pose proof (do_op_sim D ioS muS hS io_read io_write mu_lock mu_unlock h_call no_uhold w o) as H.
  assert (H' : op_next False o (ctl_of (st w)) (ctl_of (st (fst (do_op w o)))) (snd (do_op w o))).
  { eapply op_next_weaken; [|exact H]. intro Hb. rewrite Hb in Hf. discriminate. }
  rewrite needs_is in N.
  destruct (needs_back_op _ _ _ _ HT H' N) as [L|R]; [left; exact L|].
  right. split; [exact R|]. apply do_op_keeps_cmd. apply needs_not_writer. exact R.
Qed.

Theorem selection_origin : forall m x mx h ops,
  wf_desc D m -> Forall (valid_op D) ops ->
  let w0 := mkWorld (init_state D m) x mx h [] in
  needs_cmd (st (run w0 ops)) = true ->
  exists ops1 ops2, ops = ops1 ++ ops2 /\
    k_state (k (st (run w0 ops1))) = CS_COMMAND_FOUND /\
    k_cmd (k (st (run w0 ops1))) = k_cmd (k (st (run w0 ops))) /\
    forall n, n <= length ops2 -> needs_cmd (st (run w0 (ops1 ++ firstn n ops2))) = true.
Proof.
  intros m x mx h ops WF. induction ops as [|o ops IH] using rev_ind; intros F w0 N.
  - discriminate N.
  - assert (F0 : Forall (valid_op D) ops) by (eapply Forall_app_l; exact F).
    assert (Hf : fault (st (step (run w0 ops) o)) = false).
    { rewrite <- run_snoc.
      exact (C03_no_fault D ioS muS hS io_read io_write mu_lock mu_unlock h_call handlers_valid
               m x mx h (ops ++ [o]) WF F). }
    destruct (cstate_eq_dec (k_state (k (st (run w0 (ops ++ [o]))))) CS_COMMAND_FOUND) as [Ef|Ef].
    + exists (ops ++ [o]), []. split; [rewrite app_nil_r; reflexivity|]. split; [exact Ef|].
      split; [reflexivity|]. intros n _. destruct n; cbn [firstn]; rewrite app_nil_r; exact N.
    + rewrite run_snoc in N, Ef.
      destruct (needs_back_step (run w0 ops) o (JT_in_domain m x mx h ops WF F0) Hf N) as [L|[N0 K]];
        [contradiction|].
      destruct (IH F0 N0) as (ops1 & ops2 & E & X & C & A).
      exists ops1, (ops2 ++ [o]). split; [rewrite E, app_assoc; reflexivity|]. split; [exact X|].
      split; [rewrite run_snoc, K; exact C|].
      intros n Hn. rewrite app_length in Hn. cbn [length] in Hn.
      destruct (Nat.le_gt_cases n (length ops2)) as [Le|Gt].
      * rewrite firstn_app. replace (n - length ops2) with 0 by lia. cbn [firstn]. rewrite app_nil_r.
        apply A. exact Le.
      * rewrite firstn_all2 by (rewrite app_length; cbn [length]; lia).
        rewrite app_assoc, <- E, run_snoc. exact N.
Qed.

(* P1 + P3 composed: the command whose handler or variable callback runs is the one that was in
   k_cmd when CS_COMMAND_FOUND was entered, and no reset lies in between *)
Theorem calls_selected : forall m x mx h ops q code,
  wf_desc D m -> Forall (valid_op D) ops ->
  let w0 := mkWorld (init_state D m) x mx h [] in
  In (ECall q code) (tr (run w0 ops)) -> ev_side q = false ->
  exists ops0 opsm ops2, ops = ops0 ++ opsm ++ OService :: ops2 /\
    k_state (k (st (run w0 ops0))) = CS_COMMAND_FOUND /\
    k_cmd (k (st (run w0 ops0))) = Some (req_cmd q) /\
    (forall n, n <= length opsm -> needs_cmd (st (run w0 (ops0 ++ firstn n opsm))) = true) /\
    let s := st (run w0 (ops0 ++ opsm)) in
    k_cmd (k s) = Some (req_cmd q) /\ k_state (k s) = call_state q /\ k_type (k s) = kind_type q.
Proof.
  intros m x mx h ops q code WF F w0 H S.
  destruct (calls_history m x mx h ops q code WF F H S) as (ops1 & ops2 & evs & E & _ & _ & K2 & K1 & K3).
  fold w0 in K1, K2, K3.
  assert (F1 : Forall (valid_op D) ops1) by (rewrite E in F; eapply Forall_app_l; exact F).
  assert (N : needs_cmd (st (run w0 ops1)) = true).
  { unfold needs_cmd. rewrite K1. destruct q; reflexivity. }
  destruct (selection_origin m x mx h ops1 WF F1 N) as (ops0 & opsm & E1 & X & C & A).
  fold w0 in X, C, A.
  exists ops0, opsm, ops2. split; [rewrite E, E1, <- app_assoc; reflexivity|].
  split; [exact X|]. split; [rewrite C; exact K2|]. split; [exact A|].
  cbv zeta. rewrite <- E1. auto.
Qed.
End Domain.

(* ---------- P4: callbacks concern registered, enabled commands ---------- *)
Section Enabled.
Hypothesis Hn : 0 < ncmds D.
Local Notation flags_between_lines :=
  (Lemmas_C09.flags_between_lines D ioS muS hS io_read io_write mu_lock mu_unlock h_call).

Lemma uses_call_state : forall q, uses_cmd (call_state q) = true.
Proof. destruct q; reflexivity. Qed.

Theorem calls_concern_enabled : forall m x mx h ops (w' : world),
  let w0 := mkWorld (init_state D m) x mx h [] in
  flags_between_lines w0 ops ->
  st w' = st (run w0 ops) ->
  let w1 := fst (unsolicited_events_service w') in
  forall evs q code, tr (fst (cmd_service w1)) = evs ++ tr w1 -> In (ECall q code) evs ->
  exists i, req_cmd q = i /\ k_cmd (k (st w1)) = Some i /\ i < ncmds D /\
            is_command_disable D (st w1) i = false.
Proof.
  intros m x mx h ops w' w0 F E w1 evs q code T H.
  pose proof (history_Inv D ioS muS hS io_read io_write mu_lock mu_unlock h_call Hn m x mx h ops F) as I0.
  fold w0 in I0. rewrite <- E in I0.
  pose proof (uns_evrel D ioS muS hS io_write mu_lock mu_unlock h_call w') as R. fold w1 in R.
  pose proof (Inv_evrel D _ _ R I0) as I1.
  destruct (cmd_service_evs D ioS muS hS io_read io_write mu_lock mu_unlock h_call w1) as [e2 [T2 C]].
  rewrite T in T2. apply app_inv_tail in T2. subst e2.
  destruct (cmd_evs_kind _ _ _ _ C H) as (K1 & K2 & _).
  assert (U : uses_cmd (k_state (k (st w1))) = true) by (rewrite K1; apply uses_call_state).
  destruct (Inv_sel D _ I1 U) as (i & Ei & Li & Di).
  rewrite K2 in Ei. injection Ei as <-.
  exists (req_cmd q). auto.
Qed.

Lemma flags_prefix : forall ops1 ops2 (w : world),
  flags_between_lines w (ops1 ++ ops2) -> flags_between_lines w ops1.
Proof.
  induction ops1 as [|o ops1 IH]; intros ops2 w F.
  - exact I.
  - cbn [app Lemmas_C09.flags_between_lines] in *. destruct F as [F1 F2]. split; [exact F1|].
    eapply IH; exact F2.
Qed.

Theorem calls_enabled_history : forall m x mx h ops q code,
  let w0 := mkWorld (init_state D m) x mx h [] in
  flags_between_lines w0 ops ->
  In (ECall q code) (tr (run w0 ops)) -> ev_side q = false ->
  exists ops1 ops2 evs, ops = ops1 ++ OService :: ops2 /\
    tr (run w0 (ops1 ++ [OService])) = evs ++ tr (run w0 ops1) /\ In (ECall q code) evs /\
    let s := st (run w0 ops1) in
    k_cmd (k s) = Some (req_cmd q) /\ k_state (k s) = call_state q /\
    req_cmd q < ncmds D /\ is_command_disable D s (req_cmd q) = false.
Proof.
  intros m x mx h ops q code w0 F H S.
  destruct (run_calls ops w0 q code H) as [[] | (ops1 & ops2 & w' & evs & E & T & I & Ew & M)].
  exists ops1, ops2, evs. split; [exact E|]. split; [exact T|]. split; [exact I|].
  destruct (moment_cmd_side w' q code M S) as (_ & _ & K1 & K2). rewrite Ew in K1, K2.
  cbv zeta. split; [exact K2|]. split; [exact K1|].
  rewrite E in F. apply flags_prefix in F.
  pose proof (history_Inv D ioS muS hS io_read io_write mu_lock mu_unlock h_call Hn m x mx h ops1 F) as I0.
  fold w0 in I0.
  assert (U : uses_cmd (k_state (k (st (run w0 ops1)))) = true) by (rewrite K1; apply uses_call_state).
  destruct (Inv_sel D _ I0 U) as (i & Ei & Li & Di).
  rewrite K2 in Ei. injection Ei as <-. auto.
Qed.
End Enabled.
End Hist.

(* ====================================================================== *)
(* P5: a disabled command is invisible to name resolution                   *)
(* ====================================================================== *)
Lemma find_full_upd : forall typed en c' cs i j, en (j + i) = false ->
  find_full typed en (upd cs i c') j = find_full typed en cs j.
Proof.
  intros typed en c'. induction cs as [|c r IH]; intros i j E.
  - destruct i; reflexivity.
  - destruct i as [|i]; cbn [upd find_full].
    + rewrite Nat.add_0_r in E. rewrite E. reflexivity.
    + rewrite (IH i (S j)); [reflexivity|]. rewrite <- E. f_equal. lia.
Qed.

Lemma proper_prefix_upd : forall typed en c' cs i j, en (j + i) = false ->
  proper_prefix_of typed en (upd cs i c') j = proper_prefix_of typed en cs j.
Proof.
  intros typed en c'. induction cs as [|c r IH]; intros i j E.
  - destruct i; reflexivity.
  - destruct i as [|i]; cbn [upd proper_prefix_of].
    + rewrite Nat.add_0_r in E. rewrite E. reflexivity.
    + rewrite (IH i (S j)); [reflexivity|]. rewrite <- E. f_equal. lia.
Qed.

Theorem disabled_irrelevant : forall typed en cs i c', en i = false ->
  resolve typed en (upd cs i c') = resolve typed en cs.
Proof.
  intros typed en cs i c' E. unfold resolve.
  rewrite find_full_upd by exact E. rewrite proper_prefix_upd by exact E. reflexivity.
Qed.

(* the table with the disabled entries deleted: the enabled commands with their table indices *)
Fixpoint enabled_sub (en : nat -> bool) (cs : list cmd) (i : nat) : list (nat * cmd) :=
  match cs with
  | [] => []
  | c :: r => (if en i then [(i, c)] else []) ++ enabled_sub en r (S i)
  end.

Definition all_en (_ : nat) : bool := true.

Lemma find_full_ge : forall typed en cs k j, find_full typed en cs k = Some j -> k <= j.
Proof.
  intros typed en. induction cs as [|c r IH]; intros k j H; cbn [find_full] in H; [discriminate|].
  destruct (en k && list_eqb (upper (c_name c)) typed).
  - injection H as <-. apply le_n.
  - apply IH in H. lia.
Qed.

Lemma find_full_lt : forall typed en cs k j, find_full typed en cs k = Some j -> j < k + length cs.
Proof.
  intros typed en. induction cs as [|c r IH]; intros k j H; cbn [find_full] in H; [discriminate|].
  cbn [length]. destruct (en k && list_eqb (upper (c_name c)) typed).
  - injection H as <-. lia.
  - apply IH in H. lia.
Qed.

Lemma proper_prefix_ge : forall typed en cs k, Forall (fun j => k <= j) (proper_prefix_of typed en cs k).
Proof.
  intros typed en. induction cs as [|c r IH]; intros k; cbn [proper_prefix_of]; [constructor|].
  apply Forall_app. split.
  - destruct (_ && _); repeat constructor.
  - eapply Forall_impl; [|apply IH]. cbn. intros; lia.
Qed.

(* position j of the reduced table (counted from k) back to the table index *)
Definition back (sub : list (nat * cmd)) (k j : nat) : option nat := option_map fst (nth_error sub (j - k)).

Lemma find_full_sub : forall typed en cs i k,
  find_full typed en cs i =
  match find_full typed all_en (map snd (enabled_sub en cs i)) k with
  | Some j => back (enabled_sub en cs i) k j
  | None => None
  end.
Proof.
  intros typed en. induction cs as [|c r IH]; intros i k; cbn [enabled_sub find_full map]; [reflexivity|].
  destruct (en i); cbn [app map snd find_full all_en andb].
  - destruct (list_eqb (upper (c_name c)) typed).
    + unfold back. rewrite Nat.sub_diag. reflexivity.
    + rewrite (IH (S i) (S k)).
      destruct (find_full typed all_en (map snd (enabled_sub en r (S i))) (S k)) as [j|] eqn:E; [|reflexivity].
      apply find_full_ge in E. unfold back. replace (j - k) with (S (j - S k)) by lia. reflexivity.
  - apply IH.
Qed.

Lemma proper_prefix_sub : forall typed en cs i k,
  map Some (proper_prefix_of typed en cs i) =
  map (back (enabled_sub en cs i) k) (proper_prefix_of typed all_en (map snd (enabled_sub en cs i)) k).
Proof.
  intros typed en. induction cs as [|c r IH]; intros i k; cbn [enabled_sub proper_prefix_of map]; [reflexivity|].
  destruct (en i); cbn [app map snd proper_prefix_of all_en andb].
  - rewrite !map_app. f_equal.
    + destruct (is_prefix typed (upper (c_name c)) && (length typed <? length (c_name c))); [|reflexivity].
      cbn [map]. unfold back. rewrite Nat.sub_diag. reflexivity.
    + rewrite (IH (S i) (S k)). apply map_ext_in. intros j Hj.
      pose proof (proper_prefix_ge typed all_en (map snd (enabled_sub en r (S i))) (S k)) as G.
      rewrite Forall_forall in G. apply G in Hj. unfold back.
      replace (j - k) with (S (j - S k)) by lia. reflexivity.
  - apply IH.
Qed.

(* resolution over the table = resolution over the table with the disabled entries deleted (every
   remaining entry enabled), mapped back to table indices: the answer is the same command *)
Theorem resolve_without_disabled : forall typed en cs,
  let sub := enabled_sub en cs 0 in
  resolve typed en cs =
  match resolve typed all_en (map snd sub) with
  | Some j => option_map fst (nth_error sub j)
  | None => None
  end.
Proof.
  intros typed en cs sub. unfold resolve.
  rewrite (find_full_sub typed en cs 0 0). fold sub.
  destruct (find_full typed all_en (map snd sub) 0) as [j|] eqn:E.
  - unfold back. rewrite Nat.sub_0_r.
    destruct (nth_error sub j) as [p|] eqn:N; [reflexivity|].
    exfalso. apply find_full_lt in E. rewrite map_length in E. cbn [plus] in E.
    apply nth_error_None in N. lia.
  - pose proof (proper_prefix_sub typed en cs 0 0) as P. fold sub in P.
    destruct (proper_prefix_of typed all_en (map snd sub) 0) as [|j [|j' t]];
      destruct (proper_prefix_of typed en cs 0) as [|a [|a' t']]; cbn [map] in P; try discriminate P; try reflexivity.
    + injection P as P. unfold back in P. rewrite Nat.sub_0_r in P. exact P.
Qed.

(* ====================================================================== *)
(* C03: the decoders stay inside data_size; the shared buffer split; lengths *)
(* ====================================================================== *)
Lemma skipn_upd_lt : forall {A} (l : list A) i n v, i < n -> skipn n (upd l i v) = skipn n l.
Proof.
  intros A. induction l as [|x r IH]; intros i n v H.
  - destruct i; reflexivity.
  - destruct n as [|n]; [lia|]. destruct i as [|i]; cbn [upd skipn]; [reflexivity|].
    apply IH. lia.
Qed.

Definition within (dsz : nat) (data : list N) (r : bres) : Prop :=
  length (b_data r) = length data /\ skipn dsz (b_data r) = skipn dsz data /\ b_wsize r <= dsz.

Lemma within_refl : forall dsz data st w n, w <= dsz -> within dsz data (mkBres st data w n).
Proof. intros. unfold within. cbn. auto. Qed.

Lemma within_upd : forall dsz data size v r, size < dsz ->
  within dsz (upd data size v) r -> within dsz data r.
Proof.
  intros dsz data size v r H (A & B & C). unfold within.
  rewrite A, B, upd_len, (skipn_upd_lt data size dsz v H). auto.
Qed.

Lemma bufhex_within : forall l byte s size data ro dsz n, size <= dsz ->
  within dsz data (parse_bufhex_go l byte s size data ro dsz n).
Proof.
  induction l as [|ch0 r IH]; intros byte s size data ro dsz n H; cbn [parse_bufhex_go].
  - apply within_refl. lia.
  - cbv zeta.
    destruct ((0 <? size) && negb s && is_term (to_upper ch0)).
    { apply within_refl. destruct ro; lia. }
    destruct (negb (is_hex (to_upper ch0))); [apply within_refl; lia|].
    destruct s; [|apply IH; exact H].
    destruct (dsz <=? size) eqn:E; [apply within_refl; lia|]. apply Nat.leb_gt in E.
    destruct ro; [apply IH; lia|].
    destruct (size <? length data); [|apply within_refl; lia].
    eapply within_upd; [exact E|]. apply IH. lia.
Qed.

Lemma bufstr_within : forall l s size data ro dsz n, size <= dsz ->
  within dsz data (parse_bufstr_go l s size data ro dsz n).
Proof.
  induction l as [|ch r IH]; intros s size data ro dsz n H; cbn [parse_bufstr_go].
  - apply within_refl. lia.
  - cbv zeta. destruct s as [|[|[|s]]].
    + destruct (ch =? ch_QUOTE)%N; [apply IH; exact H | apply within_refl; lia].
    + destruct (ch =? 0)%N; [apply within_refl; lia|].
      destruct (ch =? ch_BSL)%N; [apply IH; exact H|].
      destruct (ch =? ch_QUOTE)%N; [apply IH; exact H|].
      destruct (dsz <=? size) eqn:E; [apply within_refl; lia|]. apply Nat.leb_gt in E.
      destruct ro; [apply IH; lia|].
      destruct (size <? length data); [|apply within_refl; lia].
      eapply within_upd; [exact E|]. apply IH. lia.
    + destruct (if (ch =? ch_BSL)%N then Some ch_BSL
                else if (ch =? ch_QUOTE)%N then Some ch_QUOTE
                else if (ch =? ch_n)%N then Some ch_LF else None) as [c|]; [|apply within_refl; lia].
      destruct (dsz <=? size) eqn:E; [apply within_refl; lia|]. apply Nat.leb_gt in E.
      destruct ro; [apply IH; lia|].
      destruct (size <? length data); [|apply within_refl; lia].
      eapply within_upd; [exact E|]. apply IH. lia.
    + destruct (is_term ch); [|apply within_refl; lia].
      destruct (dsz <=? size) eqn:E; [apply within_refl; lia|]. apply Nat.leb_gt in E.
      destruct ro; [apply within_refl; lia|].
      destruct (size <? length data); [|apply within_refl; lia].
      eapply within_upd; [exact E|]. apply within_refl. lia.
Qed.

Lemma store_prefix_within : forall data bytes d dsz, length bytes = dsz ->
  store_prefix data bytes = Some d -> length d = length data /\ skipn dsz d = skipn dsz data.
Proof.
  intros data bytes d dsz L H. split; [eapply store_prefix_len; exact H|].
  unfold store_prefix in H. destruct (length data <? length bytes); [discriminate|].
  injection H as <-. rewrite skipn_app, L, Nat.sub_diag. cbn [skipn].
  rewrite skipn_all2 by lia. reflexivity.
Qed.

Lemma le_bytes_len : forall k n, length (le_bytes k n) = k.
Proof. induction k as [|k IH]; intros n; cbn [le_bytes length]; [reflexivity|]. rewrite IH. reflexivity. Qed.

Lemma validate_uint_within : forall ro dsz val data d ws,
  validate_uint ro dsz val data = VOk d ws ->
  length d = length data /\ skipn dsz d = skipn dsz data /\ ws <= dsz.
Proof.
  intros ro dsz val data d ws H. unfold validate_uint in H.
  destruct ro; [injection H as <- <-; auto with arith|].
  destruct (negb (supported_width dsz)); [discriminate|].
  destruct (two_pow8 dsz - 1 <? val)%N; [discriminate|].
  destruct (store_prefix data (le_bytes dsz val)) as [d'|] eqn:E; [|discriminate].
  injection H as <- <-.
  destruct (store_prefix_within data _ d' dsz (le_bytes_len dsz val) E). auto.
Qed.

Lemma validate_int_within : forall ro dsz val data d ws,
  validate_int ro dsz val data = VOk d ws ->
  length d = length data /\ skipn dsz d = skipn dsz data /\ ws <= dsz.
Proof.
  intros ro dsz val data d ws H. unfold validate_int in H.
  destruct ro; [injection H as <- <-; auto with arith|].
  destruct (negb (supported_width dsz)); [discriminate|]. cbv zeta in H.
  destruct ((val <? - Z.of_N (two_pow8 dsz / 2)) || (Z.of_N (two_pow8 dsz / 2) - 1 <? val))%Z; [discriminate|].
  destruct (store_prefix data (le_bytes_signed dsz val)) as [d'|] eqn:E; [|discriminate].
  injection H as <- <-.
  destruct (store_prefix_within data _ d' dsz (le_bytes_len dsz _) E). auto.
Qed.

(* P6: for EVERY text (terminated or not) and every storage, decoding an argument for variable v
   keeps the length of the storage, changes no byte at or beyond data_size, and reports a
   write_size of at most data_size *)
Theorem decode_within_size : forall v l data,
  let '(p, d, ws, n) := decode_var v l data in
  length d = length data /\ skipn (v_size v) d = skipn (v_size v) data /\ ws <= v_size v.
Proof.
  intros v l data. unfold decode_var.
  assert (R : length data = length data /\ skipn (v_size v) data = skipn (v_size v) data /\ 0 <= v_size v)
    by auto with arith.
  destruct (v_type v).
  - destruct (parse_int l) as [[pst val] n]. destruct pst; try exact R.
    destruct (validate_int _ _ _ _) as [| |d ws] eqn:E; try exact R.
    eapply validate_int_within; exact E.
  - destruct (parse_uint l) as [[pst val] n]. destruct pst; try exact R.
    destruct (validate_uint _ _ _ _) as [| |d ws] eqn:E; try exact R.
    eapply validate_uint_within; exact E.
  - destruct (parse_hex l) as [[pst val] n]. destruct pst; try exact R.
    destruct (validate_uint _ _ _ _) as [| |d ws] eqn:E; try exact R.
    eapply validate_uint_within; exact E.
  - apply (bufhex_within l 0%N false 0 data _ (v_size v) 0). lia.
  - apply (bufstr_within l 0 0 data _ (v_size v) 0). lia.
Qed.

(* P7: in shared mode the two working regions are disjoint and inside the buffer *)
Theorem shared_split : forall D, d_ubuf_size D = None ->
  asz_of D <= uoff_of D /\ uoff_of D + usz_of D <= d_buf_size D.
Proof.
  intros D H. unfold asz_of, usz_of, uoff_of. rewrite H.
  pose proof (Nat.div2_odd (d_buf_size D)) as E. destruct (Nat.odd (d_buf_size D)); cbn [Nat.b2n] in E; lia.
Qed.

(* P8: buffer and ring lengths in every reachable state of the domain *)
Theorem lengths_reachable : forall (D : desc) (ioS muS hS : Type)
  (io_read : ioS -> ioS * option N) (io_write : ioS -> N -> ioS * bool)
  (mu_lock mu_unlock : muS -> muS * bool) (h_call : hS -> hreq -> hS * hres),
  (forall hs q, Forall (valid_icall D) (r_calls (snd (h_call hs q)))) ->
  forall m x mx h ops, wf_desc D m -> Forall (valid_op D) ops ->
  let s := st ioS muS hS (run D ioS muS hS io_read io_write mu_lock mu_unlock h_call
                              (mkWorld ioS muS hS (init_state D m) x mx h []) ops) in
  length (cbuf s) = asz_of D /\ length (ubuf s) = usz_of D /\ length (u_ring (u s)) = d_cap D /\
  map (@length N) (mem s) = map (@length N) m.
Proof.
  intros D ioS muS hS io_read io_write mu_lock mu_unlock h_call HV m x mx h ops WF F s.
  assert (S : Safe D m s).
  { apply C03_safe_reachable; [|exact WF|].
    - intros hs0 q. eapply Forall_impl; [|apply HV]. intros [ci t|z] Hc; cbn in *; [apply Hc | exact I].
    - eapply Forall_impl; [|exact F]. intros o Ho. destruct o; cbn in *; try exact I. apply Ho. }
  destruct S as ((_ & A & B & M & _ & _ & (R & _)) & _). auto.
Qed.

(* ====================================================================== *)
(* the request form of a callback is one the command serves (C09)           *)
(* ====================================================================== *)
Definition vne (c : cmd) : bool := match c_vars c with [] => false | _ => true end.
Definition tst (c : cmd) : bool := (c_htest c || vne c) && negb (c_implicit c).

(* what the state (and, in a flush, its continuation) requires of the selected command *)
Definition req (x wa : cstate) (c : cmd) : bool :=
  match x with
  | CS_RUN_LOOP => negb (c_only_test c) && c_hrun c
  | CS_PARSE_WRITE_ARGS => negb (c_only_test c) && vars_access_possible c WO
  | CS_WRITE_LOOP => negb (c_only_test c) && c_hwrite c
  | CS_FORMAT_READ_ARGS => negb (c_only_test c) && vars_access_possible c RO
  | CS_READ_LOOP | CS_AFTER_FMT_READ => negb (c_only_test c) && c_hread c
  | CS_WAIT_TEST_ACK | CS_FORMAT_TEST_ARGS => tst c
  | CS_TEST_LOOP | CS_AFTER_FMT_TEST => c_htest c && negb (c_implicit c)
  | CS_FLUSH_WAIT | CS_FLUSH =>
    match wa with
    | CS_AFTER_FMT_READ => negb (c_only_test c) && c_hread c
    | CS_AFTER_FMT_TEST => c_htest c && negb (c_implicit c)
    | CS_AFTER_RESET | CS_AFTER_OK | CS_PRINT_CMD => true
    | _ => false
    end
  | _ => true
  end.

Ltac try_states K :=
  first [ K CS_ERROR | K CS_IDLE | K CS_PARSE_PREFIX | K CS_PARSE_COMMAND_CHAR | K CS_UPDATE_COMMAND_STATE
        | K CS_WAIT_READ_ACK | K CS_SEARCH_COMMAND | K CS_COMMAND_FOUND | K CS_COMMAND_NOT_FOUND
        | K CS_PARSE_COMMAND_ARGS | K CS_PARSE_WRITE_ARGS | K CS_FORMAT_READ_ARGS | K CS_WAIT_TEST_ACK
        | K CS_FORMAT_TEST_ARGS | K CS_WRITE_LOOP | K CS_READ_LOOP | K CS_TEST_LOOP | K CS_RUN_LOOP | K CS_HOLD
        | K CS_FLUSH_WAIT | K CS_FLUSH | K CS_AFTER_RESET | K CS_AFTER_OK | K CS_AFTER_FMT_READ
        | K CS_AFTER_FMT_TEST | K CS_PRINT_CMD ].

(* bring the state (and continuation) of a req goal to a constructor, by conversion or through the
   hypotheses HX : k_state (k b) = _ / HA : k_wafter (k b) = _ about the base state b *)
Ltac norm_x :=
  match goal with
  | |- req ?x ?y ?c = true =>
    first [ try_states ltac:(fun X => change x with X)
          | match goal with HX : k_state (k ?b) = _ |- _ => change x with (k_state (k b)); rewrite HX end ]
  end.
Ltac norm_y :=
  match goal with
  | |- req ?x ?y ?c = true =>
    first [ try_states ltac:(fun X => change y with X)
          | match goal with HA : k_wafter (k ?b) = _ |- _ => change y with (k_wafter (k b)); rewrite HA end
          | idtac ]
  end.

Ltac batom t := let E := fresh "E" in destruct t eqn:E; rewrite ?E in *.
Ltac batoms :=
  repeat match goal with
         | |- context [c_only_test ?c] => batom (c_only_test c)
         | |- context [c_hrun ?c] => batom (c_hrun c)
         | |- context [c_hread ?c] => batom (c_hread c)
         | |- context [c_hwrite ?c] => batom (c_hwrite c)
         | |- context [c_htest ?c] => batom (c_htest c)
         | |- context [c_implicit ?c] => batom (c_implicit c)
         | |- context [vars_access_possible ?c ?a] => batom (vars_access_possible c a)
         | |- context [vne ?c] => batom (vne c)
         end.
Ltac bfin := cbn [negb andb orb] in *; first [ reflexivity | discriminate | congruence ].
Ltac req_leaf := norm_x; norm_y; cbv beta iota delta [req tst]; batoms; bfin.

(* the command a state function finds is the selected one *)
Ltac same_cmd H :=
  repeat match goal with
         | E : cmd_of _ ATCMD _ = Some ?c0 |- _ =>
           lazymatch type of H with
           | _ = Some c0 => fail
           | _ => let X := fresh "X" in
                  assert (X : Some c0 = _) by (rewrite <- E; exact H); injection X as X; subst c0
           end
         end.

Ltac vars_hyps :=
  unfold tst, vne in *;
  repeat match goal with H : _ && _ = true |- _ => apply andb_true_iff in H; destruct H end;
  repeat match goal with H : c_vars ?c = _ |- _ => progress (rewrite H in * |-) end.
Ltac batoms2 :=
  repeat match goal with
         | |- context [c_only_test ?c] => batom (c_only_test c)
         | |- context [c_hrun ?c] => batom (c_hrun c)
         | |- context [c_hread ?c] => batom (c_hread c)
         | |- context [c_hwrite ?c] => batom (c_hwrite c)
         | |- context [c_htest ?c] => batom (c_htest c)
         | |- context [c_implicit ?c] => batom (c_implicit c)
         | |- context [vars_access_possible ?c ?a] => batom (vars_access_possible c a)
         | |- context [c_vars ?c] => batom (c_vars c)
         end.
Ltac no_cmd H :=
  match goal with
  | E : cmd_of _ ATCMD _ = None |- _ =>
    exfalso; let X := fresh "X" in assert (X : @None cmd = Some _) by (rewrite <- E; exact H); discriminate X
  end.
Ltac rleaf H :=
  first [ no_cmd H
        | same_cmd H; norm_x; norm_y; cbv beta iota delta [req]; vars_hyps; batoms2; bfin ].

Section Req.
Variable D : desc.

Lemma req_ack_error : forall s c, req (k_state (k (ack_error s))) (k_wafter (k (ack_error s))) c = true.
Proof. reflexivity. Qed.
Lemma req_ack_ok : forall s c, req (k_state (k (ack_ok s))) (k_wafter (k (ack_ok s))) c = true.
Proof. reflexivity. Qed.

Lemma spfra_req : forall s c, cmd_of D ATCMD s = Some c -> c_only_test c = false ->
  let s' := start_processing_format_read_args D ATCMD s in
  req (k_state (k s')) (k_wafter (k s')) c = true.
Proof.
  intros s c H OT. cbv zeta. unf_fmt. unfold ack_error.
  destruct (cmd_of D ATCMD s) as [c0|] eqn:E0; [|discriminate H]. injection H as ->.
  brk; rleaf E0.
Qed.

Lemma spfta_req : forall s c, cmd_of D ATCMD s = Some c -> tst c = true ->
  let s' := start_processing_format_test_args D ATCMD s in
  req (k_state (k s')) (k_wafter (k s')) c = true.
Proof.
  intros s c H T. cbv zeta. unf_fmt. unfold ack_error.
  destruct (cmd_of D ATCMD s) as [c0|] eqn:E0; [|discriminate H]. injection H as ->.
  brk; rleaf E0.
Qed.

Lemma fta_req : forall s c, cmd_of D ATCMD s = Some c -> tst c = true ->
  k_state (k s) = CS_FORMAT_TEST_ARGS ->
  let s' := format_test_args D ATCMD s in
  req (k_state (k s')) (k_wafter (k s')) c = true.
Proof.
  intros s c H T HX. cbv zeta. unf_fmt. unfold ack_error.
  destruct (cmd_of D ATCMD s) as [c0|] eqn:E0; [|discriminate H]. injection H as ->.
  brk; rleaf E0.
Qed.

Lemma command_found_req : forall s c, cmd_of D ATCMD s = Some c ->
  let s' := command_found D s in
  req (k_state (k s')) (k_wafter (k s')) c = true.
Proof.
  intros s c H. cbv zeta. unfold command_found.
  destruct (cmd_of D ATCMD s) as [c0|] eqn:E; [|discriminate H]. injection H as ->.
  destruct (k_type (k s)); try reflexivity.
  - brk; rleaf E.
  - destruct (c_only_test c) eqn:OT; [reflexivity|]. apply spfra_req; assumption.
Qed.
End Req.

Section ReqHist.
Variable D : desc.
Variables ioS muS hS : Type.
Variable io_read : ioS -> ioS * option N.
Variable io_write : ioS -> N -> ioS * bool.
Variable mu_lock : muS -> muS * bool.
Variable mu_unlock : muS -> muS * bool.
Variable h_call : hS -> hreq -> hS * hres.

Local Notation world := (Fsm.world ioS muS hS).
Local Notation st := (Fsm.st ioS muS hS).
Local Notation io := (Fsm.io ioS muS hS).
Local Notation tr := (Fsm.tr ioS muS hS).
Local Notation mkWorld := (Fsm.mkWorld ioS muS hS).
Local Notation call_h := (Fsm.call_h D ioS muS hS mu_lock mu_unlock h_call).
Local Notation read_cmd_char := (Fsm.read_cmd_char ioS muS hS io_read).
Local Notation reading := (Fsm.reading ioS muS hS io_read).
Local Notation parse_write_args := (Fsm.parse_write_args D ioS muS hS mu_lock mu_unlock h_call).
Local Notation format_read_args := (Fsm.format_read_args D ioS muS hS mu_lock mu_unlock h_call).
Local Notation process_write_loop := (Fsm.process_write_loop D ioS muS hS mu_lock mu_unlock h_call).
Local Notation process_run_loop := (Fsm.process_run_loop D ioS muS hS mu_lock mu_unlock h_call).
Local Notation process_rt_loop := (Fsm.process_rt_loop D ioS muS hS mu_lock mu_unlock h_call).
Local Notation process_io_write := (Fsm.process_io_write ioS muS hS io_write).
Local Notation unsolicited_events_service :=
  (Fsm.unsolicited_events_service D ioS muS hS io_write mu_lock mu_unlock h_call).
Local Notation cmd_service := (Fsm.cmd_service D ioS muS hS io_read io_write mu_lock mu_unlock h_call).
Local Notation service_body := (Fsm.service_body D ioS muS hS io_read io_write mu_lock mu_unlock h_call).
Local Notation do_op := (Fsm.do_op D ioS muS hS io_read io_write mu_lock mu_unlock h_call).
Local Notation step := (Fsm.step D ioS muS hS io_read io_write mu_lock mu_unlock h_call).
Local Notation run := (Fsm.run D ioS muS hS io_read io_write mu_lock mu_unlock h_call).

Ltac wred := cbn [fst snd Fsm.busy Fsm.upd_st Fsm.set_st Fsm.set_io Fsm.set_mu Fsm.set_hs
                  Fsm.logw Fsm.tr Fsm.st Fsm.io Fsm.mu Fsm.hs].

Definition Acc (s : state) : Prop :=
  forall c, cmd_of D ATCMD s = Some c -> req (k_state (k s)) (k_wafter (k s)) c = true.

Lemma cmd_of_kcmd : forall s s', k_cmd (k s') = k_cmd (k s) -> cmd_of D ATCMD s' = cmd_of D ATCMD s.
Proof. intros s s' E. unfold cmd_of, g_cmd. rewrite E. reflexivity. Qed.

(* a callback: state, continuation and selection are kept; the facts about the old world are
   restated for the new one *)
Ltac rcall :=
  match goal with
  | |- context [call_h ?w ?q] =>
    let R := fresh "R" in let w1 := fresh "w" in let r := fresh "r" in
    let R1 := fresh "R" in let R2 := fresh "R" in let R3 := fresh "R" in
    destruct (call_h_rel D ioS muS hS mu_lock mu_unlock h_call w q) as [R _];
    destruct R as (R1 & R2 & R3 & _);
    destruct (call_h w q) as [w1 r]; cbn [fst snd] in R1, R2, R3;
    match goal with
    | HX : k_state (k (st _)) = ?X, E : cmd_of D ATCMD (st _) = Some ?c |- _ =>
      let HX1 := fresh "HX" in let E1 := fresh "E" in
      assert (HX1 : k_state (k (st w1)) = X) by (rewrite R1; exact HX);
      assert (E1 : cmd_of D ATCMD (st w1) = Some c) by (rewrite (cmd_of_kcmd _ _ R3); exact E)
    end
  end.
Ltac rgo := repeat (cbv beta iota zeta; wred; first [rcall | brk1]); cbv beta iota zeta; wred.

Ltac use_cmd := match goal with G : cmd_of _ ATCMD _ = Some _ |- _ => exact G end.
Ltac same_cmd2 c :=
  repeat match goal with
         | E : cmd_of _ ATCMD _ = Some ?c0 |- _ =>
           lazymatch c0 with
           | c => fail
           | _ => let X := fresh "X" in
                  assert (X : Some c0 = Some c) by (rewrite <- E; use_cmd); injection X as X; subst c0
           end
         end.
Ltac no_cmd2 :=
  match goal with
  | E : cmd_of _ ATCMD _ = None |- _ =>
    exfalso; let X := fresh "X" in assert (X : @None cmd = Some _) by (rewrite <- E; use_cmd); discriminate X
  end.
Ltac bsolve := unfold tst, vne; vars_hyps; batoms2; bfin.
Ltac wleaf c :=
  first [ no_cmd2
        | apply spfra_req; [use_cmd | same_cmd2 c; bsolve]
        | apply spfta_req; [use_cmd | same_cmd2 c; bsolve]
        | same_cmd2 c; norm_x; norm_y; cbv beta iota delta [req]; vars_hyps; batoms2; bfin ].

Lemma parse_write_args_req : forall (w : world) c,
  cmd_of D ATCMD (st w) = Some c -> k_state (k (st w)) = CS_PARSE_WRITE_ARGS ->
  negb (c_only_test c) && vars_access_possible c WO = true ->
  let s' := st (fst (parse_write_args w)) in req (k_state (k s')) (k_wafter (k s')) c = true.
Proof.
  intros w c H HX P. cbv zeta. unfold Fsm.parse_write_args, ack_error, ack_ok.
  destruct (cmd_of D ATCMD (st w)) as [c0|] eqn:E0; [|discriminate H]. injection H as ->.
  rgo; wleaf c.
Qed.

Lemma format_read_args_req : forall (w : world) c,
  cmd_of D ATCMD (st w) = Some c -> k_state (k (st w)) = CS_FORMAT_READ_ARGS ->
  negb (c_only_test c) && vars_access_possible c RO = true ->
  let s' := st (fst (format_read_args ATCMD w)) in req (k_state (k s')) (k_wafter (k s')) c = true.
Proof.
  intros w c H HX P. cbv zeta. unfold Fsm.format_read_args. unf_fmt. unfold ack_error.
  destruct (cmd_of D ATCMD (st w)) as [c0|] eqn:E0; [|discriminate H]. injection H as ->.
  rgo; wleaf c.
Qed.

Lemma process_write_loop_req : forall (w : world) c,
  cmd_of D ATCMD (st w) = Some c -> k_state (k (st w)) = CS_WRITE_LOOP ->
  negb (c_only_test c) && c_hwrite c = true ->
  let s' := st (fst (process_write_loop w)) in req (k_state (k s')) (k_wafter (k s')) c = true.
Proof.
  intros w c H HX P. cbv zeta. unfold Fsm.process_write_loop, enable_hold_state, ack_error, ack_ok.
  rgo; wleaf c.
Qed.

Lemma process_run_loop_req : forall (w : world) c,
  cmd_of D ATCMD (st w) = Some c -> k_state (k (st w)) = CS_RUN_LOOP ->
  negb (c_only_test c) && c_hrun c = true ->
  let s' := st (fst (process_run_loop w)) in req (k_state (k s')) (k_wafter (k s')) c = true.
Proof.
  intros w c H HX P. cbv zeta.
  unfold Fsm.process_run_loop, enable_hold_state, start_print_cmd_list, ack_error, ack_ok.
  rgo; wleaf c.
Qed.

Lemma process_rt_loop_req : forall (rd : bool) (w : world) c,
  cmd_of D ATCMD (st w) = Some c ->
  k_state (k (st w)) = (if rd then CS_READ_LOOP else CS_TEST_LOOP) ->
  (if rd then negb (c_only_test c) && c_hread c else c_htest c && negb (c_implicit c)) = true ->
  let s' := st (fst (process_rt_loop rd ATCMD w)) in req (k_state (k s')) (k_wafter (k s')) c = true.
Proof.
  intros rd w c H HX P. cbv zeta.
  unfold Fsm.process_rt_loop, apply_edit, hold_exit, enable_hold_state, start_print_cmd_list,
    end_with_ok, end_with_error, start_flush_after, put_cur, get_cur, ack_error, ack_ok.
  destruct rd; rgo; wleaf c.
Qed.

Lemma process_io_write_req : forall (w : world) c,
  k_state (k (st w)) = CS_FLUSH -> req CS_FLUSH (k_wafter (k (st w))) c = true ->
  let s' := st (fst (process_io_write w)) in req (k_state (k s')) (k_wafter (k s')) c = true.
Proof.
  intros w c HX P. cbv zeta. unfold Fsm.process_io_write.
  rgo; try solve [norm_x; exact P].
  all: destruct (k_wafter (k (st w))) eqn:HA; try discriminate P; norm_x; norm_y; exact P.
Qed.

Lemma reading_req : forall (w : world) body c,
  (forall ch s, same (st w) s -> req (k_state (k (body ch s))) (k_wafter (k (body ch s))) c = true) ->
  req (k_state (k (st w))) (k_wafter (k (st w))) c = true ->
  let s' := st (fst (reading w body)) in req (k_state (k s')) (k_wafter (k s')) c = true.
Proof.
  intros w body c Hb A. cbv zeta. unfold Fsm.reading.
  pose proof (read_cmd_char_same ioS muS hS io_read w) as R.
  destruct (read_cmd_char w) as [w1 got]. cbn [fst] in R.
  destruct got; cbn [negb]; wred.
  - apply Hb. exact R.
  - destruct R as (R1 & R2 & _). rewrite R1, R2. exact A.
Qed.

Lemma same_cmd_of : forall s s', same s s' -> cmd_of D ATCMD s' = cmd_of D ATCMD s.
Proof. intros s s' (_ & _ & E & _). apply cmd_of_kcmd. exact E. Qed.

Ltac unfold_readers :=
  unfold Fsm.error_state, Fsm.process_idle_state, Fsm.parse_prefix, Fsm.parse_command,
         Fsm.wait_read_acknowledge, Fsm.wait_test_acknowledge, Fsm.parse_command_args.

(* a step taken in one of the six states that assign k_cmd ends in a state that requires nothing *)
Lemma cmd_service_triv : forall (w : world) c,
  writes_cmd (k_state (k (st w))) = true ->
  let s' := st (fst (cmd_service w)) in req (k_state (k s')) (k_wafter (k s')) c = true.
Proof.
  intros w c HW. cbv zeta. unfold Fsm.cmd_service.
  destruct (k_state (k (st w))) eqn:HX; try discriminate HW; unfold_readers; wred.
  - apply reading_req; [|rewrite HX; reflexivity].
    intros ch s (R1 & R2 & _). rewrite HX in R1. unfold prepare_search_command, ack_ok.
    brk; norm_x; norm_y; reflexivity.
  - unfold update_command, set_cmd_state, prepare_search_command. brk; norm_x; norm_y; reflexivity.
  - apply reading_req; [|rewrite HX; reflexivity].
    intros ch s (R1 & R2 & _). rewrite HX in R1. unfold prepare_search_command.
    brk; norm_x; norm_y; reflexivity.
  - unfold search_command. brk; norm_x; norm_y; reflexivity.
  - unfold reset_state. brk; norm_x; norm_y; reflexivity.
  - unfold print_cmd_list, print_cmd_form, print_current_cmd_full_name, cmd_list_next_cmd,
      start_flush_raw_c, ack_ok, ack_error.
    brk; norm_x; norm_y; reflexivity.
Qed.

Theorem cmd_service_Acc : forall (w : world), Acc (st w) -> Acc (st (fst (cmd_service w))).
Proof.
  intros w A c Hc.
  destruct (writes_cmd (k_state (k (st w)))) eqn:HW; [apply cmd_service_triv; exact HW|].
  rewrite (cmd_of_kcmd _ _ (cmd_service_keeps_cmd D ioS muS hS io_read io_write mu_lock mu_unlock h_call w HW)) in Hc.
  specialize (A c Hc).
  unfold Fsm.cmd_service. destruct (k_state (k (st w))) eqn:HX; try discriminate HW; unfold_readers; wred;
    cbv beta iota delta [req] in A.
  - (* ERROR *) apply reading_req; [|rewrite HX; reflexivity].
    intros ch s (R1 & R2 & _). rewrite HX in R1. unfold ack_error. brk; norm_x; norm_y; reflexivity.
  - (* IDLE *) apply reading_req; [|rewrite HX; reflexivity].
    intros ch s (R1 & R2 & _). rewrite HX in R1. brk; norm_x; norm_y; reflexivity.
  - (* PARSE_PREFIX *) apply reading_req; [|rewrite HX; reflexivity].
    intros ch s (R1 & R2 & _). rewrite HX in R1. unfold prepare_parse_command, ack_error.
    brk; norm_x; norm_y; reflexivity.
  - (* COMMAND_FOUND *) apply command_found_req. exact Hc.
  - reflexivity.
  - (* PARSE_COMMAND_ARGS *) apply reading_req; [|rewrite HX; reflexivity].
    intros ch s R. pose proof (same_cmd_of _ _ R) as E. rewrite Hc in E.
    destruct R as (HX1 & _). rewrite HX in HX1. unfold ack_error.
    destruct (cmd_of D ATCMD s) as [c0|] eqn:E0; [|discriminate E]. injection E as ->.
    brk; wleaf c.
  - apply parse_write_args_req; assumption.
  - apply format_read_args_req; assumption.
  - (* WAIT_TEST_ACK *) apply reading_req; [|rewrite HX; exact A].
    intros ch s R. pose proof (same_cmd_of _ _ R) as E. rewrite Hc in E.
    destruct R as (HX1 & _). rewrite HX in HX1.
    destruct ((ch =? ch_LF)%N); [apply spfta_req; assumption|].
    brk; wleaf c.
  - apply fta_req; assumption.
  - apply process_write_loop_req; assumption.
  - apply (process_rt_loop_req true); assumption.
  - apply (process_rt_loop_req false); assumption.
  - apply process_run_loop_req; assumption.
  - (* HOLD *) unfold process_hold_state, ack_error, ack_ok. brk; norm_x; norm_y; reflexivity.
  - (* FLUSH_WAIT *) unfold process_io_write_wait. brk.
    + destruct (k_wafter (k (st w))) eqn:HA; try discriminate A; norm_x; norm_y; exact A.
    + rewrite HX. exact A.
  - apply process_io_write_req; assumption.
  - reflexivity.
  - (* AFTER_FMT_READ *) apply spfra_req; [exact Hc|].
    apply andb_true_iff in A. destruct A as [A _]. apply negb_true_iff in A. exact A.
  - (* AFTER_FMT_TEST *) apply spfta_req; [exact Hc|].
    unfold tst. apply andb_true_iff in A. destruct A as [A1 A2]. rewrite A1, A2. reflexivity.
Qed.

Lemma Acc_evrel : forall s s', evrel s s' -> Acc s -> Acc s'.
Proof.
  intros s s' (E2 & E3 & _ & _ & _ & E1) A c Hc.
  rewrite (cmd_of_kcmd _ _ E3) in Hc. rewrite E2. destruct E1 as [E1|E1]; rewrite E1; [apply A; exact Hc | reflexivity].
Qed.

Lemma Acc_same : forall s s', same s s' -> Acc s -> Acc s'.
Proof. intros s s' R. apply Acc_evrel. apply same_evrel. exact R. Qed.

Lemma service_body_Acc : forall (w : world), Acc (st w) -> Acc (st (fst (service_body w))).
Proof.
  intros w A. unfold Fsm.service_body.
  pose proof (uns_evrel D ioS muS hS io_write mu_lock mu_unlock h_call w) as E.
  destruct (unsolicited_events_service w) as [w1 us]. cbn [fst] in E.
  pose proof (cmd_service_Acc w1 (Acc_evrel _ _ E A)) as C.
  destruct (cmd_service w1) as [w2 s]. cbn [fst] in C.
  destruct (negb (us =? ST_OK)%Z || negb (ustate_beq (u_state (u (st w2))) US_IDLE)); exact C.
Qed.

Lemma do_op_Acc : forall (w : world) o, Acc (st w) -> Acc (st (fst (do_op w o))).
Proof.
  intros w o A. destruct o; cbn [Fsm.do_op]; try exact A.
  - unfold Fsm.api_service. apply (bracket_P D ioS muS hS mu_lock mu_unlock Acc); [exact A|].
    intros w0 E. apply service_body_Acc. rewrite E. exact A.
  - unfold Fsm.api_trigger. apply (bracket_P D ioS muS hS mu_lock mu_unlock Acc); [exact A|].
    intros w0 E. rewrite E.
    pose proof (push_rel D (st w) ci t) as P. destruct (push_unsolicited_cmd D (st w) ci t). wred.
    cbn [fst] in P. apply (Acc_same (st w)); [eapply cbrel_same; exact P | exact A].
  - unfold Fsm.api_hold_exit. apply (bracket_P D ioS muS hS mu_lock mu_unlock Acc); [exact A|].
    intros w0 E. rewrite E.
    pose proof (hold_exit_rel (st w) status) as P. destruct (hold_exit (st w) status). wred.
    cbn [fst] in P. apply (Acc_same (st w)); [eapply cbrel_same; exact P | exact A].
  - unfold Fsm.api_is_busy. apply (bracket_P D ioS muS hS mu_lock mu_unlock Acc); [exact A|].
    intros w0 E. wred. rewrite E. exact A.
  - unfold Fsm.api_is_hold. apply (bracket_P D ioS muS hS mu_lock mu_unlock Acc); [exact A|].
    intros w0 E. wred. rewrite E. exact A.
  - unfold Fsm.api_is_full. apply (bracket_P D ioS muS hS mu_lock mu_unlock Acc); [exact A|].
    intros w0 E. wred. rewrite E. exact A.
Qed.

Lemma run_Acc : forall ops (w : world), Acc (st w) -> Acc (st (run w ops)).
Proof.
  induction ops as [|o ops IH]; intros w A; [exact A|].
  change (run w (o :: ops)) with (run (step w o) ops). apply IH.
  unfold Fsm.step. pose proof (do_op_Acc w o A) as X. destruct (do_op w o). exact X.
Qed.

Lemma init_Acc : forall m, Acc (init_state D m).
Proof. intros m c _. reflexivity. Qed.

(* one step: a callback's kind is one the selected command serves *)
Theorem calls_accepted_step : forall (w : world) evs q code c,
  Acc (st w) -> tr (fst (cmd_service w)) = evs ++ tr w -> In (ECall q code) evs ->
  nth_error (pool D) (req_cmd q) = Some c -> req (call_state q) CS_IDLE c = true.
Proof.
  intros w evs q code c A T H Hc.
  destruct (cmd_service_evs D ioS muS hS io_read io_write mu_lock mu_unlock h_call w) as [e2 [T2 C]].
  rewrite T in T2. apply app_inv_tail in T2. subst e2.
  destruct (cmd_evs_kind _ _ _ _ C H) as (K1 & K2 & _).
  assert (E : cmd_of D ATCMD (st w) = Some c) by (unfold cmd_of, g_cmd; rewrite K2; exact Hc).
  specialize (A c E). rewrite K1 in A. destruct q; exact A.
Qed.

(* histories: any descriptor, any oracles, any operations (flag changes at any time, faults allowed) *)
Theorem calls_accepted_history : forall m x mx h ops q code c,
  let w0 := mkWorld (init_state D m) x mx h [] in
  In (ECall q code) (tr (run w0 ops)) -> ev_side q = false ->
  nth_error (pool D) (req_cmd q) = Some c -> req (call_state q) CS_IDLE c = true.
Proof.
  intros m x mx h ops q code c w0 H S Hc.
  destruct (run_calls D ioS muS hS io_read io_write mu_lock mu_unlock h_call ops w0 q code H)
    as [[] | (ops1 & ops2 & w' & evs & E & _ & _ & Ew & M)].
  destruct M as [[S' _] | [_ [e2 [T2 I2]]]]; [congruence|].
  assert (A : Acc (st w')) by (rewrite Ew; apply run_Acc; apply init_Acc).
  pose proof (uns_evrel D ioS muS hS io_write mu_lock mu_unlock h_call w') as R.
  exact (calls_accepted_step _ e2 q code c (Acc_evrel _ _ R A) T2 I2 Hc).
Qed.

(* variable callbacks are made only for a variable of the selected command that has that callback *)
Definition var_handler (q : hreq) : Prop :=
  match q with
  | VWrite ci vi _ _ =>
    exists c v, nth_error (pool D) ci = Some c /\ nth_error (c_vars c) vi = Some v /\ v_hwrite v = true
  | VRead _ ci vi =>
    exists c v, nth_error (pool D) ci = Some c /\ nth_error (c_vars c) vi = Some v /\ v_hread v = true
  | _ => True
  end.

Lemma no_new_events : forall (t evs : list event) (e : event), t = evs ++ t -> In e evs -> False.
Proof.
  intros t evs e T H. assert (E : evs = []) by (apply (app_inv_tail t); symmetry; exact T).
  subst evs. destruct H.
Qed.

Ltac nocall T H := exfalso; wred_in_T T; exact (no_new_events _ _ _ T H)
with wred_in_T T := cbn [fst snd Fsm.busy Fsm.upd_st Fsm.set_st Fsm.set_io Fsm.set_mu Fsm.set_hs
                        Fsm.logw Fsm.tr Fsm.st Fsm.io Fsm.mu Fsm.hs] in T.

Lemma call_h_tr : forall (w : world) q q' code evs,
  tr (fst (call_h w q)) = evs ++ tr w -> In (ECall q' code) evs -> q' = q.
Proof.
  intros w q q' code evs T H.
  destruct (call_h_evs D ioS muS hS mu_lock mu_unlock h_call w q) as [e [T' C]].
  rewrite T in T'. apply app_inv_tail in T'. subst e. exact (call_evs_call _ _ _ _ C H).
Qed.

Lemma parse_write_args_handler : forall (w : world) evs q code,
  tr (fst (parse_write_args w)) = evs ++ tr w -> In (ECall q code) evs -> var_handler q.
Proof.
  intros w evs q code T H. unfold Fsm.parse_write_args in T. cbv zeta in T.
  destruct (g_cmd ATCMD (st w)) as [ci|] eqn:G; [|nocall T H].
  destruct (cmd_of D ATCMD (st w)) as [c|] eqn:C; [|nocall T H].
  destruct (nth_error (c_vars c) (k_var (k (st w)))) as [v|] eqn:V; [|nocall T H].
  destruct (nth_error (mem (st w)) (v_slot v)) as [data|]; [|nocall T H].
  destruct (decode_var v (skipn (k_position (k (st w))) (cbuf (st w))) data) as [[[pst d] ws] n].
  destruct pst; try (nocall T H).
  destruct (v_hwrite v) eqn:HV.
  - match type of T with context [call_h ?w0 ?q0] =>
      pose proof (call_h_tr w0 q0 q code evs) as X; destruct (call_h w0 q0) as [w1 r] end.
    cbn [fst] in X.
    assert (E : q = VWrite ci (k_var (k (st w))) ws d).
    { apply X; [|exact H]. destruct (negb (r_code r =? 0)%Z); exact T. }
    subst q. cbn [var_handler]. exists c, v. unfold cmd_of in C. rewrite G in C. auto.
  - nocall T H.
Qed.

Lemma format_read_args_handler : forall (w : world) evs q code,
  tr (fst (format_read_args ATCMD w)) = evs ++ tr w -> In (ECall q code) evs -> var_handler q.
Proof.
  intros w evs q code T H. unfold Fsm.format_read_args in T. cbv zeta in T.
  destruct (g_cmd ATCMD (st w)) as [ci|] eqn:G; [|nocall T H].
  destruct (cmd_of D ATCMD (st w)) as [c|] eqn:C; [|nocall T H].
  destruct (nth_error (c_vars c) (g_var ATCMD (st w))) as [v|] eqn:V; [|nocall T H].
  destruct (v_hread v) eqn:HV.
  - match type of T with context [call_h ?w0 ?q0] =>
      pose proof (call_h_tr w0 q0 q code evs) as X; destruct (call_h w0 q0) as [w1 r] end.
    cbn [fst] in X.
    assert (E : q = VRead ATCMD ci (g_var ATCMD (st w))).
    { apply X; [|exact H]. destruct (negb (r_code r =? 0)%Z); exact T. }
    subst q. cbn [var_handler]. exists c, v. unfold cmd_of in C. rewrite G in C. auto.
  - destruct (negb false); nocall T H.
Qed.

Theorem var_calls_have_handler : forall (w : world) evs q code,
  tr (fst (cmd_service w)) = evs ++ tr w -> In (ECall q code) evs -> var_handler q.
Proof.
  intros w evs q code T H.
  destruct (cmd_service_evs D ioS muS hS io_read io_write mu_lock mu_unlock h_call w) as [e2 [T2 C]].
  rewrite T in T2. apply app_inv_tail in T2. subst e2.
  destruct (cmd_evs_kind _ _ _ _ C H) as (K1 & _ & _).
  unfold Fsm.cmd_service in T. rewrite K1 in T.
  destruct q; cbn [call_state] in T; try exact I.
  - eapply format_read_args_handler; eassumption.
  - eapply parse_write_args_handler; eassumption.
Qed.

Theorem var_calls_history : forall (w0 : world) ops q code,
  tr w0 = [] -> In (ECall q code) (tr (run w0 ops)) -> ev_side q = false -> var_handler q.
Proof.
  intros w0 ops q code T0 H S.
  destruct (run_calls D ioS muS hS io_read io_write mu_lock mu_unlock h_call ops w0 q code H)
    as [L | (ops1 & ops2 & w' & evs & E & _ & _ & Ew & M)].
  { rewrite T0 in L. destruct L. }
  destruct M as [[S' _] | [_ [e2 [T2 I2]]]]; [congruence|].
  exact (var_calls_have_handler _ e2 q code T2 I2).
Qed.
End ReqHist.

(* the requirement of the callback's state, in the terms of Spec.dispatch_accepts *)
Definition form_of (q : hreq) : form :=
  match q with
  | HRun _ => F_RUN
  | HWrite _ _ _ _ | VWrite _ _ _ _ => F_WRITE
  | HRead _ _ _ _ _ | VRead _ _ _ => F_READ
  | HTest _ _ _ _ _ => F_TEST
  end.
Definition served (c : cmd) (q : hreq) : bool :=
  match q with
  | HRun _ => c_hrun c
  | HWrite _ _ _ _ => c_hwrite c
  | HRead _ _ _ _ _ => c_hread c
  | HTest _ _ _ _ _ => c_htest c
  | VRead _ _ _ => readable c
  | VWrite _ _ _ _ => writable c
  end.

Lemma req_accepts : forall q c, req (call_state q) CS_IDLE c = true ->
  dispatch_accepts c (form_of q) = true /\ served c q = true /\
  (form_of q <> F_TEST -> c_only_test c = false).
Proof.
  intros q c H. destruct q; cbn [call_state req form_of served dispatch_accepts] in *;
    change (vars_access_possible c RO) with (readable c) in *;
    change (vars_access_possible c WO) with (writable c) in *.
  all: apply andb_true_iff in H; destruct H as [H1 H2].
  all: try (apply negb_true_iff in H1).
  all: rewrite ?H1, ?H2; cbn [negb andb orb]; rewrite ?orb_true_r; repeat split; try reflexivity.
  all: try (intros _; exact H1).
  - intros X; exfalso; apply X; reflexivity.
Qed.
