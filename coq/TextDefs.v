(* TextDefs.v — definitions used to state C19 (TEST response text and command list) and C06:
   the multi-call formatting loops of the machine as iterations of the model's own step
   functions, and the specification texts.  No proofs. *)
From Coq Require Import List NArith ZArith Bool Arith.
From CatV Require Import Bytes Defs Codec Spec Fsm ResolveDefs.
Import ListNotations.
Local Open Scope nat_scope.

(* the NUL-terminated text at the start of a buffer *)
Fixpoint text_of (l : list N) : list N :=
  match l with [] => [] | c :: r => if (c =? 0)%N then [] else c :: text_of r end.

Section Text.
Variable D : desc.

(* ---- the TEST response ---- *)
Definition in_fmt_test (f : fsm) (s : state) : bool :=
  match f with
  | ATCMD => cstate_beq (k_state (k s)) CS_FORMAT_TEST_ARGS
  | UNSOL => ustate_beq (u_state (u s)) US_FORMAT_TEST_ARGS
  end.
(* cat_service calls spent in FORMAT_TEST_ARGS (one variable per call), until the state changes *)
Fixpoint fmt_test_run (fuel : nat) (f : fsm) (s : state) : state :=
  match fuel with
  | O => s
  | S n => if in_fmt_test f s then fmt_test_run n f (format_test_args D f s) else s
  end.
(* the whole automatic part of the '=?' response, from the call that starts it *)
Definition test_response (f : fsm) (c : cmd) (s : state) : state :=
  fmt_test_run (length (c_vars c)) f (start_processing_format_test_args D f s).

(* what the machine does when the text is complete: hand it to the test handler, or emit it *)
Definition test_done (f : fsm) (c : cmd) (s : state) : Prop :=
  if c_htest c
  then match f with ATCMD => k_state (k s) = CS_TEST_LOOP | UNSOL => u_state (u s) = US_TEST_LOOP end
  else match f with
       | ATCMD => k_state (k s) = CS_FLUSH_WAIT /\ k_wafter (k s) = CS_AFTER_OK /\ k_wbuf (k s) = WB_NL (k_cr (k s))
       | UNSOL => u_state (u s) = US_FLUSH_WAIT /\ u_wafter (u s) = US_AFTER_OK
       end.
(* ... and when it does not fit or a variable has an unsupported width: ERROR (command) / silently dropped (event) *)
Definition test_failed (f : fsm) (s : state) : Prop :=
  match f with
  | ATCMD => k_state (k s) = CS_FLUSH_WAIT /\ k_wafter (k s) = CS_AFTER_RESET /\ text_of (cbuf s) = txt_ERROR
  | UNSOL => u_state (u s) = US_IDLE /\ u_cmd (u s) = None
  end.

(* ---- the command list ---- *)
Definition form_suffix (f : form) : list N :=
  match f with F_RUN => [] | F_READ => [ch_QM] | F_WRITE => [ch_EQ] | F_TEST => [ch_EQ; ch_QM] end.
(* lines printed for one enabled command: each advertised form on its own line "AT<name><suffix><nl>",
   the first of them preceded by <nl> *)
Definition spec_cmd_lines (c : cmd) (nl : list N) : list (list N) :=
  let forms := filter (advertised c) [F_RUN; F_READ; F_WRITE; F_TEST] in
  match map (fun f => txt_AT ++ c_name c ++ form_suffix f ++ nl) forms with
  | [] => []
  | l :: r => (nl ++ l) :: r
  end.
Definition spec_cmd_list (en : nat -> bool) (nl : list N) : list (list N) :=
  flat_map (fun ic => if en (fst ic) then spec_cmd_lines (snd ic) nl else [])
           (combine (seq 0 (ncmds D)) (cmds D)).

(* run the list printer: calls of print_cmd_list; every time it starts a raw flush the line in the
   buffer is collected and the flush is taken as completed (state back to CS_PRINT_CMD, as
   process_io_write does at the terminating NUL).  Stops when the printer acknowledges. *)
Fixpoint list_run (fuel : nat) (s : state) (acc : list (list N)) : list (list N) * state :=
  match fuel with
  | O => (acc, s)
  | S n =>
    if cstate_beq (k_state (k s)) CS_PRINT_CMD then
      let s1 := print_cmd_list D s in
      if cstate_beq (k_state (k s1)) CS_FLUSH_WAIT && cstate_beq (k_wafter (k s1)) CS_PRINT_CMD
      then list_run n (setk_state CS_PRINT_CMD s1) (acc ++ [text_of (cbuf s1)])
      else list_run n s1 acc
    else (acc, s)
  end.
End Text.
