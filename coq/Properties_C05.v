(* Properties_C05.v — final statements of property C05 (hex-buffer and string decoders).
   Proofs are in Lemmas_C05.v. *)
From Coq Require Import List NArith ZArith Bool Arith.
From CatV Require Import Bytes Defs Codec Spec Lemmas_C05.
Import ListNotations.
Local Open Scope N_scope.

(* 1. hex buffer: accepted iff an even, non-zero number of hex digits (either case) decoding
      to at most dsz bytes; then exactly those bytes are stored at the front, the rest of the
      storage is untouched *)
Theorem C05_hexbuf : forall f t tail data dsz,
  field_ok f = true -> is_term t = true -> (dsz <= length data)%nat ->
  let r := parse_bufhex (f ++ t :: tail) data false dsz in
  match hexbuf_accepts dsz f with
  | Some bs => b_st r = SOk (t =? ch_COMMA) /\ b_data r = bs ++ skipn (length bs) data /\
               b_wsize r = length bs /\ b_n r = S (length f)
  | None => b_st r = SErr
  end.
Proof. exact Lemmas_C05.C05_hexbuf. Qed.
Print Assumptions C05_hexbuf.

(* 2. quoted string: accepted iff  QUOTE body QUOTE  followed by a terminator, body decoding
      (escapes BSL BSL, BSL QUOTE, BSL n) to at most dsz-1 bytes; then the bytes followed by a NUL are stored
      at the front, the rest untouched *)
Theorem C05_string : forall l data dsz,
  In 0 l -> (dsz <= length data)%nat ->
  let r := parse_bufstr l data false dsz in
  match str_decode l with
  | Some (bs, comma, n) =>
      if (length bs <? dsz)%nat
      then b_st r = SOk comma /\ b_data r = bs ++ 0 :: skipn (S (length bs)) data /\
           b_wsize r = length bs /\ b_n r = n
      else b_st r = SErr
  | None => b_st r = SErr
  end.
Proof. exact Lemmas_C05.C05_string. Qed.
Print Assumptions C05_string.

(* 3. memory safety of both decoders in EVERY case (success, every failing prefix, read-only
      or not): never SFault when the text contains a NUL and dsz fits the allocation; the
      storage keeps its length; no byte at index >= dsz is modified *)
Theorem C05_bounds_hex : forall l data ro dsz,
  In 0 l -> (dsz <= length data)%nat ->
  let r := parse_bufhex l data ro dsz in
  b_st r <> SFault /\ length (b_data r) = length data /\
  skipn dsz (b_data r) = skipn dsz data /\ (b_wsize r <= dsz)%nat /\ (b_n r <= length l)%nat.
Proof. exact Lemmas_C05.C05_bounds_hex. Qed.
Print Assumptions C05_bounds_hex.

Theorem C05_bounds_str : forall l data ro dsz,
  In 0 l -> (dsz <= length data)%nat ->
  let r := parse_bufstr l data ro dsz in
  b_st r <> SFault /\ length (b_data r) = length data /\
  skipn dsz (b_data r) = skipn dsz data /\ (b_wsize r <= dsz)%nat /\ (b_n r <= length l)%nat.
Proof. exact Lemmas_C05.C05_bounds_str. Qed.
Print Assumptions C05_bounds_str.

(* 4. read-only variables are never modified, by either decoder *)
Theorem C05_readonly : forall l data dsz,
  b_data (parse_bufhex l data true dsz) = data /\ b_wsize (parse_bufhex l data true dsz) = O /\
  b_data (parse_bufstr l data true dsz) = data /\ b_wsize (parse_bufstr l data true dsz) = O.
Proof. exact Lemmas_C05.C05_readonly. Qed.
Print Assumptions C05_readonly.
