(* Lemmas_E2Eb.v — two more composed end-to-end theorems on the scripted always-ready environment.
   PART I — an unsolicited READ event, end to end: on the scripted always-ready environment of
   Script.v (no mutex, command machine idle, no input pending) the application triggers a READ event
   for a command whose variables are all read-write without callbacks; repeated cat_service calls emit
   exactly one unit  newline name=text1,text2,... newline  (no result code) and leave both machines idle.
   Structure: (A) the relation [usteps m s s' out] = m cat_service calls with an empty input queue whose
   command-machine half is a refused read in CS_IDLE, calling no handler, accepted output out;
   (B) single-call lemmas of the event machine; (C) the flush engine of the event machine as usteps
   (after Lemmas_C11); (D) the READ formatting loop on the event machine's buffer (Lemmas_C07e redone for
   UNSOL on top of the machine-generic lemmas of Lemmas_C19); (E) trigger, pop, the composed theorem.
   PART II — the command list, end to end (see the comment at the head of that part). *)
From Coq Require Import List NArith ZArith Bool Arith Lia.
From CatV Require Import Bytes Defs Codec Spec Fsm Script ResolveDefs SchedDefs GlueDefs TextDefs CollectDefs.
From CatV Require Lemmas_C02 Lemmas_C02e Lemmas_C07 Lemmas_C07e Lemmas_C08 Lemmas_C11 Lemmas_C13 Lemmas_C19 Lemmas_E2E.
Import ListNotations.
Local Open Scope nat_scope.

Local Notation wst := (Fsm.st sio smu shs).
Local Notation wio := (Fsm.io sio smu shs).
Local Notation whs := (Fsm.hs sio smu shs).
Local Notation wtr := (Fsm.tr sio smu shs).
Local Notation idle := Lemmas_C02e.idle.
Local Notation flush_step_u := Lemmas_C11.flush_step_u.
Local Notation run_flush_u := Lemmas_C11.run_flush_u.
Local Notation run_flush_c := Lemmas_C11.run_flush_c.
Local Notation calls_of_app := Lemmas_E2E.calls_of_app.
Local Notation output_of_app := Lemmas_E2E.output_of_app.
Local Notation obyte := Lemmas_E2E.obyte.

Ltac destr_all := repeat match goal with
  | |- context [if ?b then _ else _] => destruct b
  | |- context [match ?x with _ => _ end] => destruct x
  end.

Ltac brk := repeat (cbv beta iota zeta; match goal with
  | |- context [match ?x with _ => _ end] =>
      lazymatch x with
      | context [match _ with _ => _ end] => fail
      | _ => destruct x
      end
  end).

Section Ev.
Variable D : desc.
Hypothesis Hmx : d_mutex D = false.

Local Notation uessvc := (unsolicited_events_service D sio smu shs s_write s_lock s_unlock s_call).
Local Notation cmdsvc := (cmd_service D sio smu shs s_read s_write s_lock s_unlock s_call).
Local Notation sdo := (do_op D sio smu shs s_read s_write s_lock s_unlock s_call).

(* ================= A. the relation usteps ================= *)
Definition usteps (m : nat) (s s' : state) (out : list N) : Prop :=
  forall h t, exists t', calls_of t' = [] /\ output_of t' = out /\
    nsvc D m (mkw s [] h t) = mkw s' [] h (t' ++ t).

Lemma usteps_0 : forall s, usteps 0 s s [].
Proof. intros s h t. exists []. repeat split; reflexivity. Qed.

Lemma usteps_trans : forall a b s s1 s2 o1 o2,
  usteps a s s1 o1 -> usteps b s1 s2 o2 -> usteps (a + b) s s2 (o1 ++ o2).
Proof.
  intros a b s s1 s2 o1 o2 H1 H2 h t.
  destruct (H1 h t) as [t1 [C1 [O1 E1]]]. destruct (H2 h (t1 ++ t)) as [t2 [C2 [O2 E2]]].
  exists (t2 ++ t1). split; [rewrite calls_of_app, C1, C2; reflexivity|].
  split; [rewrite output_of_app, O1, O2; reflexivity|].
  unfold nsvc in *. rewrite Lemmas_C02e.iter_add, E1, E2, app_assoc. reflexivity.
Qed.

Lemma usteps_cast : forall m m' s s' o o', usteps m s s' o -> m = m' -> o = o' -> usteps m' s s' o'.
Proof. intros; subst; assumption. Qed.

Lemma usteps_world : forall calls s s2 out h, usteps calls s s2 out ->
  exists t', nsvc D calls (mkw s [] h []) = mkw s2 [] h t' /\ calls_of t' = [] /\ output_of t' = out.
Proof.
  intros calls s s2 out h H. destruct (H h []) as [t' [A [B E]]]. exists t'. rewrite E, app_nil_r.
  repeat split; assumption.
Qed.

(* ================= B. one service call: the event machine moves, the command machine is refused a byte ================= *)
Lemma svc_uev : forall s s' h t ev, k_state (k s') = CS_IDLE ->
  uessvc (mkw s [] h t) = (mkw s' [] h (ev ++ t), ST_BUSY) ->
  svc D (mkw s [] h t) = mkw s' [] h ((ERet OService ST_BUSY :: ERd None :: ev) ++ t).
Proof.
  intros s s' h t ev Hk Hu. unfold svc, step, do_op, api_service, bracket. rewrite Hmx.
  unfold service_body. rewrite Hu. unfold cmd_service. cbn [Fsm.st mkw]. rewrite Hk.
  reflexivity.
Qed.

Lemma ustep_ev : forall s s' ev out, k_state (k s') = CS_IDLE ->
  (forall h t, uessvc (mkw s [] h t) = (mkw s' [] h (ev ++ t), ST_BUSY)) ->
  calls_of ev = [] -> output_of ev = out -> usteps 1 s s' out.
Proof.
  intros s s' ev out Hk Hu Hc Ho h t. exists (ERet OService ST_BUSY :: ERd None :: ev).
  split; [|split].
  - change (ERet OService ST_BUSY :: ERd None :: ev) with ([ERet OService ST_BUSY; ERd None] ++ ev).
    rewrite calls_of_app, Hc. reflexivity.
  - change (ERet OService ST_BUSY :: ERd None :: ev) with ([ERet OService ST_BUSY; ERd None] ++ ev).
    rewrite output_of_app, Ho. apply app_nil_r.
  - unfold nsvc. simpl iter. apply svc_uev; [exact Hk | apply Hu].
Qed.

(* a state of the event machine that neither writes nor calls *)
Lemma ustep_pure : forall s f, k_state (k (f s)) = CS_IDLE ->
  (forall h t, uessvc (mkw s [] h t) = (mkw (f s) [] h t, ST_BUSY)) -> usteps 1 s (f s) [].
Proof. intros s f Hk Hu. apply (ustep_ev s (f s) [] [] Hk); [exact Hu | reflexivity | reflexivity]. Qed.

(* ================= C. the flush engine of the event machine ================= *)
Lemma flush_step_u_k : forall s, k (fst (flush_step_u s)) = k s.
Proof.
  intros s. unfold Lemmas_C11.flush_step_u, Lemmas_C11.phase_switch_u. destr_all; reflexivity.
Qed.

Lemma ustep_flush : forall s, k_state (k s) = CS_IDLE -> u_state (u s) = US_FLUSH ->
  usteps 1 s (fst (flush_step_u s)) (obyte (snd (flush_step_u s))).
Proof.
  intros s Hk Hs.
  apply (ustep_ev s (fst (flush_step_u s))
           (match snd (flush_step_u s) with Some ch => [EWr UNSOL ch true] | None => [] end)).
  - rewrite flush_step_u_k. exact Hk.
  - intros h t. unfold unsolicited_events_service. cbn [Fsm.st mkw]. rewrite Hs.
    unfold unsolicited_process_io_write, Lemmas_C11.flush_step_u. cbn [Fsm.st mkw].
    destruct (wbuf_char (u_wbuf (u s)) (ubuf s) (u_position (u s))) as [ch|]; [|reflexivity].
    destruct (ch =? 0)%N; reflexivity.
  - destruct (snd (flush_step_u s)); reflexivity.
  - destruct (snd (flush_step_u s)); reflexivity.
Qed.

Lemma run_flush_u_S : forall m s, run_flush_u (S m) s =
  (fst (run_flush_u m (fst (flush_step_u s))), obyte (snd (flush_step_u s)) ++ snd (run_flush_u m (fst (flush_step_u s)))).
Proof.
  intros m s. cbn [Lemmas_C11.run_flush_u]. destruct (flush_step_u s) as [s1 o]. cbn [fst snd].
  destruct (run_flush_u m s1) as [s2 out]. destruct o; reflexivity.
Qed.

Lemma flush_usteps : forall m s, k_state (k s) = CS_IDLE ->
  (forall j, j < m -> u_state (u (fst (run_flush_u j s))) = US_FLUSH) ->
  usteps m s (fst (run_flush_u m s)) (snd (run_flush_u m s)).
Proof.
  induction m as [|m IH]; intros s Hk Hall.
  - apply usteps_0.
  - rewrite run_flush_u_S. cbn [fst snd]. change (S m) with (1 + m).
    eapply usteps_trans.
    + apply ustep_flush; [exact Hk|]. exact (Hall 0 (Nat.lt_0_succ m)).
    + apply IH.
      * rewrite flush_step_u_k. exact Hk.
      * intros j Hj. specialize (Hall (S j) (proj1 (Nat.succ_lt_mono j m) Hj)).
        rewrite run_flush_u_S in Hall. exact Hall.
Qed.

(* what the flush of the event machine never changes *)
Definition ukeep (s s' : state) : Prop :=
  k s' = k s /\ mem s' = mem s /\ fault s' = fault s /\ gL s' = gL s /\ gS s' = gS s /\ gR s' = gR s /\
  cbuf s' = cbuf s /\ ubuf s' = ubuf s /\ u_count (u s') = u_count (u s) /\ u_cmd (u s') = u_cmd (u s).

(* a whole unit by pure iteration, with the frame of the final state (after Lemmas_C11.C11_unit_uns_proof) *)
Lemma unit_run_u : forall s txt, u_position (u s) = 0 -> u_wstate (u s) = WS_BEFORE ->
  u_wbuf (u s) = WB_NL (k_cr (k s)) -> In 0%N (ubuf s) -> text_of (ubuf s) = txt ->
  let nl := Lemmas_C11.nl_text (k_cr (k s)) in
  let nn := 3 + 2 * length nl + length txt in
  exists s3, run_flush_u nn s = (s3, nl ++ txt ++ nl) /\ ukeep s s3 /\
    u_state (u s3) = u_wafter (u s) /\
    (forall m, m < nn -> u_state (u (fst (run_flush_u m s))) = u_state (u s)).
Proof.
  intros s T Hp Hw Hb H0 HT. cbv zeta.
  set (nl := Lemmas_C11.nl_text (k_cr (k s))). set (L1 := length nl). set (L2 := length T).
  assert (T0 : text_of (Lemmas_C11.wb_text (u_wbuf (u s)) (ubuf s)) = nl).
  { rewrite Hb. apply Lemmas_C11.text_of_nl. }
  assert (I0 : In 0%N (Lemmas_C11.wb_text (u_wbuf (u s)) (ubuf s))).
  { rewrite Hb. apply Lemmas_C11.In0_nl. }
  pose proof (Lemmas_C11.phase_u_before s nl Hp Hw I0 T0) as P1. fold L1 in P1.
  match type of P1 with _ = (?x, _) => set (s1 := x) in * end.
  assert (T1 : text_of (Lemmas_C11.wb_text (u_wbuf (u s1)) (ubuf s1)) = T) by exact HT.
  pose proof (Lemmas_C11.phase_u_main s1 T eq_refl eq_refl H0 T1) as P2. fold L2 in P2.
  match type of P2 with _ = (?x, _) => set (s2 := x) in * end.
  assert (T2 : text_of (Lemmas_C11.wb_text (u_wbuf (u s2)) (ubuf s2)) = nl) by apply Lemmas_C11.text_of_nl.
  pose proof (Lemmas_C11.phase_u_after s2 nl eq_refl eq_refl (Lemmas_C11.In0_nl _) T2) as P3. fold L1 in P3.
  match type of P3 with _ = (?x, _) => set (s3 := x) in * end.
  assert (En : 3 + 2 * L1 + L2 = S L1 + (S L2 + S L1)) by lia. rewrite En. clear En.
  assert (R : run_flush_u (S L1 + (S L2 + S L1)) s = (s3, nl ++ T ++ nl)).
  { rewrite Lemmas_C11.run_flush_u_app, P1, Lemmas_C11.run_flush_u_app, P2, P3. reflexivity. }
  exists s3. split; [exact R|].
  split; [unfold ukeep; repeat split; reflexivity|]. split; [reflexivity|].
  intros m Hm.
  destruct (le_lt_dec m L1) as [A|A].
  - apply Lemmas_C11.run_flush_u_text_state. rewrite (Lemmas_C11.len_phase_rest0_u s nl Hp T0). exact A.
  - destruct (le_lt_dec m (S L1 + L2)) as [B|B].
    + replace m with (S L1 + (m - S L1)) by lia. rewrite Lemmas_C11.fst_run_flush_u_app, P1. cbn [fst].
      rewrite Lemmas_C11.run_flush_u_text_state
        by (rewrite (Lemmas_C11.len_phase_rest0_u s1 T eq_refl T1); fold L2; lia). reflexivity.
    + replace m with (S L1 + (S L2 + (m - S L1 - S L2))) by lia.
      rewrite Lemmas_C11.fst_run_flush_u_app, P1. cbn [fst]. rewrite Lemmas_C11.fst_run_flush_u_app, P2. cbn [fst].
      rewrite Lemmas_C11.run_flush_u_text_state
        by (rewrite (Lemmas_C11.len_phase_rest0_u s2 nl eq_refl T2); fold L1; lia). reflexivity.
Qed.

(* the flush has been prepared with a fresh cursor *)
Definition ufresh (s : state) : Prop :=
  u_state (u s) = US_FLUSH_WAIT /\ u_position (u s) = 0 /\ u_wstate (u s) = WS_BEFORE /\
  u_wbuf (u s) = WB_NL (k_cr (k s)).

(* the unit as service calls: LF text LF when no CR was seen *)
Lemma emit_unit_u : forall s txt, k_state (k s) = CS_IDLE -> ufresh s -> k_cr (k s) = false ->
  In 0%N (ubuf s) -> text_of (ubuf s) = txt ->
  exists s3, usteps (6 + length txt) s s3 ([ch_LF] ++ txt ++ [ch_LF]) /\ ukeep s s3 /\
    u_state (u s3) = u_wafter (u s).
Proof.
  intros s txt Hk (Hs & Hp & Hw & Hb) Hcr H0 HT.
  assert (H1 : usteps 1 s (setu_state US_FLUSH s) []).
  { apply (ustep_pure s (setu_state US_FLUSH) Hk). intros h t. unfold unsolicited_events_service.
    cbn [Fsm.st mkw]. rewrite Hs. unfold busy, upd_st, unsolicited_process_io_write_wait.
    cbn [Fsm.st mkw]. rewrite Hk. reflexivity. }
  destruct (unit_run_u (setu_state US_FLUSH s) txt Hp Hw Hb H0 HT) as (s3 & R & K & A & Hall).
  cbv zeta in *. change (k_cr (k (setu_state US_FLUSH s))) with (k_cr (k s)) in *. rewrite Hcr in *.
  change (3 + 2 * length (Lemmas_C11.nl_text false) + length txt) with (5 + length txt) in *.
  exists s3. split; [|split; [exact K | exact A]].
  change (6 + length txt) with (1 + (5 + length txt)).
  refine (usteps_trans _ _ _ _ _ _ _ H1 _).
  pose proof (flush_usteps (5 + length txt) (setu_state US_FLUSH s) Hk) as F. rewrite R in F. cbn [fst snd] in F.
  apply F. intros j Hj. rewrite (Hall j Hj). reflexivity.
Qed.

(* ================= D. the READ formatting loop on the event machine's buffer ================= *)
Local Notation slot_text := Lemmas_C07e.slot_text.
Local Notation BInv := (Lemmas_C19.BInv D).

(* what format_read_args UNSOL does to the object state for a variable without read callback *)
Definition fra_rest_u (c : cmd) (s1 : state) : state :=
  let (s2, handled) := next_format_var D UNSOL s1 in
  if handled then s2
  else if c_hread c then set_loop_state UNSOL true s2
  else start_flush_after_ok UNSOL s2.

Definition fra_state_u (c : cmd) (v : var) (s : state) : state :=
  match nth_error (mem s) (v_slot v) with
  | None => set_fault_flag s
  | Some data =>
    let (c1, ok) := fmt_var v data (get_cur UNSOL s) in
    let s1 := put_cur UNSOL c1 s in
    if negb ok then end_with_error UNSOL s1 else fra_rest_u c s1
  end.

Definition RInvU (c : cmd) (m : list (list N)) (s : state) (i : nat) (t rest nl : list N)
           (bsz : nat) : Prop :=
  BInv UNSOL c s t rest nl bsz /\ u_var (u s) = i /\ u_index (u s) = i /\
  u_state (u s) = US_FORMAT_READ_ARGS /\ mem s = m.

Definition RDoneU (m : list (list N)) (s : state) (txt : list N) (bsz : nat) : Prop :=
  fault s = false /\ (exists r, ubuf s = txt ++ 0%N :: r) /\ length (ubuf s) = bsz /\
  ufresh s /\ u_wafter (u s) = US_AFTER_OK /\ mem s = m.

(* what the formatting never changes *)
Definition uframe (s : state) : cfsm * nat * nat * nat * list N * nat :=
  (k s, gL s, gS s, gR s, cbuf s, u_count (u s)).

Lemma uframe_fra : forall c v s, uframe (fra_state_u c v s) = uframe s.
Proof.
  intros c v s. unfold fra_state_u, fra_rest_u, next_format_var, put_cur, cmd_of.
  brk; reflexivity.
Qed.

Lemma uframe_spfra : forall s, uframe (start_processing_format_read_args D UNSOL s) = uframe s.
Proof.
  intros s. unfold start_processing_format_read_args, print_string, put_cur, cmd_of.
  brk; reflexivity.
Qed.

Lemma fra_print_ok_u : forall c m s i t rest nl bsz v data txt,
  RInvU c m s i t rest nl bsz -> nth_error m (v_slot v) = Some data ->
  var_text v data = Some txt -> length data = v_size v -> (v_type v = VBufHex -> 0 < v_size v) ->
  length txt < length rest ->
  exists s1 r', RInvU c m s1 i (t ++ txt) (0%N :: r') nl bsz /\
                length txt + S (length r') = length rest /\
                fra_state_u c v s = fra_rest_u c s1.
Proof.
  intros c m s i t rest nl bsz v data txt (HB & Hv & Hi & Hst & Hm) Hd Ht Hl Hhex Hfit.
  pose proof HB as (H1 & H2 & H3 & H4 & H5 & H6).
  unfold fra_state_u. rewrite Hm, Hd. unfold get_cur. rewrite H3, H4.
  destruct (Lemmas_C07e.fmt_var_ok v data txt t rest Ht Hl Hhex Hfit) as [r' [E L]]. rewrite E.
  cbn [negb].
  change (put_cur UNSOL (mkCur ((t ++ txt) ++ 0%N :: r') (length (t ++ txt)) false) s)
    with (setg_pos UNSOL (length (t ++ txt)) (setg_buf UNSOL ((t ++ txt) ++ 0%N :: r') s)).
  eexists. exists r'. split; [|split; [exact L|reflexivity]].
  unfold RInvU. split; [apply (Lemmas_C19.BInv_set D UNSOL c s t rest); [exact HB|]|].
  - rewrite app_length. cbn [length]. lia.
  - cbn. auto.
Qed.

Lemma fra_more_u : forall c m s i t rest nl bsz v data txt,
  RInvU c m s i t rest nl bsz -> nth_error m (v_slot v) = Some data ->
  var_text v data = Some txt -> length data = v_size v -> (v_type v = VBufHex -> 0 < v_size v) ->
  length txt < length rest -> S i < length (c_vars c) ->
  exists r', RInvU c m (fra_state_u c v s) (S i) (t ++ txt ++ [ch_COMMA]) r' nl bsz /\
             length txt + S (length r') = length rest.
Proof.
  intros c m s i t rest nl bsz v data txt HR Hd Ht Hl Hhex Hfit Hi.
  destruct (fra_print_ok_u c m s i t rest nl bsz v data txt HR Hd Ht Hl Hhex Hfit)
    as (s1 & r' & HR1 & L & E).
  rewrite E. unfold fra_rest_u. destruct HR1 as (HB1 & Hv1 & Hi1 & Hst1 & Hm1).
  destruct (Lemmas_C19.nfv_more D UNSOL c s1 (t ++ txt) r' nl bsz HB1) as (s2 & E2 & HB2 & Hv2 & Hi2 & _).
  { cbn [g_index]. rewrite Hi1. exact Hi. }
  exists r'. split; [|exact L].
  assert (Hs2 : u_state (u s2) = US_FORMAT_READ_ARGS /\ mem s2 = m).
  { unfold next_format_var in E2. destruct HB1 as (_ & H2 & H3 & H4 & _). rewrite H2 in E2.
    destruct (S (g_index UNSOL s1) <? length (c_vars c)); [|discriminate].
    match type of E2 with (if ?b then _ else _) = _ => destruct b eqn:Eb end.
    - exfalso. apply Nat.leb_le in Eb. unfold g_bsz in Eb. cbn in Eb, H3, H4.
      rewrite H3, H4, !app_length in Eb. cbn [length] in Eb. lia.
    - injection E2 as <-. cbn. auto. }
  rewrite E2. cbn [g_var g_index] in Hv2, Hi2.
  unfold RInvU. rewrite Hv2, Hi2, Hi1, app_assoc. destruct Hs2. auto.
Qed.

Lemma fra_last_ok_u : forall c m s i t rest nl bsz v data txt,
  RInvU c m s i t rest nl bsz -> nth_error m (v_slot v) = Some data ->
  var_text v data = Some txt -> length data = v_size v -> (v_type v = VBufHex -> 0 < v_size v) ->
  length txt < length rest -> length (c_vars c) <= S i -> c_hread c = false ->
  RDoneU m (fra_state_u c v s) (t ++ txt) bsz.
Proof.
  intros c m s i t rest nl bsz v data txt HR Hd Ht Hl Hhex Hfit Hi Hrd.
  destruct (fra_print_ok_u c m s i t rest nl bsz v data txt HR Hd Ht Hl Hhex Hfit)
    as (s1 & r' & HR1 & L & E).
  rewrite E. unfold fra_rest_u. destruct HR1 as (HB1 & Hv1 & Hi1 & Hst1 & Hm1).
  pose proof HB1 as (H1 & H2 & H3 & H4 & H5 & H6).
  rewrite (Lemmas_C19.nfv_last D UNSOL c s1 H2) by (cbn [g_index]; rewrite Hi1; exact Hi).
  rewrite Hrd. cbn [g_buf] in H3. unfold RDoneU, ufresh. cbn.
  rewrite H3. repeat split; try assumption.
  - exists r'. reflexivity.
  - rewrite !app_length in *. cbn [length] in *. lia.
Qed.

(* ---- the start: "name=" ---- *)
Lemma read_start_ok_u : forall s ci c v vs,
  g_cmd UNSOL s = Some ci -> nth_error (pool D) ci = Some c -> fault s = false ->
  c_vars c = v :: vs -> v_access v = RW ->
  length (c_name c) + 1 < length (ubuf s) ->
  exists r, RInvU c (mem s) (start_processing_format_read_args D UNSOL s) 0
                 (c_name c ++ [ch_EQ]) (0%N :: r) (nl_chars s) (length (ubuf s)) /\
            length (c_name c) + 1 + S (length r) = length (ubuf s).
Proof.
  intros s ci c v vs Hg Hc Hf Hvs Hrw Hl.
  pose proof (Lemmas_C19.BInv_start D UNSOL s ci c Hg Hc Hf) as HB0.
  unfold start_processing_format_read_args. cbv zeta.
  set (s0 := setg_pos UNSOL 0 s) in *. set (nl := nl_chars s) in *.
  cbn [g_buf] in HB0. set (bsz := length (ubuf s)) in *.
  pose proof HB0 as (_ & H2 & H3 & H4 & _). rewrite H2.
  rewrite Lemmas_C19.print_string_as_strings.
  destruct (Lemmas_C19.ps_ok UNSOL s0 [] (ubuf s) (c_name c) [] H3 H4) as [r1 [E1 L1]].
  { cbn [concat]. rewrite app_nil_r. lia. }
  rewrite E1. cbn [negb]. cbn [concat app] in E1, L1 |- *. rewrite app_nil_r in *.
  assert (HB1 : BInv UNSOL c (setg_pos UNSOL (length (c_name c))
                                  (setg_buf UNSOL (c_name c ++ 0%N :: r1) s0))
                     (c_name c) (0%N :: r1) nl bsz).
  { apply (Lemmas_C19.BInv_set D UNSOL c s0 [] (ubuf s)); [exact HB0|]. cbn [length] in *. lia. }
  set (s1 := setg_pos UNSOL (length (c_name c)) (setg_buf UNSOL (c_name c ++ 0%N :: r1) s0)) in *.
  pose proof HB1 as (_ & H2' & H3' & H4' & _).
  rewrite Lemmas_C19.print_string_as_strings.
  destruct (Lemmas_C19.ps_ok UNSOL s1 (c_name c) (0%N :: r1) [ch_EQ] [] H3' H4') as [r2 [E2 L2]].
  { cbn [concat app length] in *. lia. }
  rewrite E2. cbn [negb]. cbn [concat app] in E2, L2 |- *.
  assert (HB2 : BInv UNSOL c (setg_pos UNSOL (length (c_name c ++ [ch_EQ]))
                            (setg_buf UNSOL ((c_name c ++ [ch_EQ]) ++ 0%N :: r2) s1))
                     (c_name c ++ [ch_EQ]) (0%N :: r2) nl bsz).
  { apply (Lemmas_C19.BInv_set D UNSOL c s1 (c_name c) (0%N :: r1)); [exact HB1|].
    rewrite app_length. cbn [length] in *. lia. }
  rewrite (Lemmas_C07e.vap_rw c v vs RO Hvs Hrw).
  exists r2. split; [|cbn [length] in *; lia].
  unfold RInvU. split; [|cbn; auto].
  destruct HB2 as (B1 & B2 & B3 & B4 & B5 & B6).
  unfold Lemmas_C19.BInv. repeat split; assumption.
Qed.

(* ---- the loop as service calls ---- *)
Lemma uframe_k : forall a b, uframe a = uframe b -> k a = k b.
Proof. intros a b E. unfold uframe in E. congruence. Qed.

(* one call in US_FORMAT_READ_ARGS for a variable without read callback *)
Lemma fra_one_u : forall s c v, k_state (k s) = CS_IDLE -> u_state (u s) = US_FORMAT_READ_ARGS ->
  cmd_of D UNSOL s = Some c -> nth_error (c_vars c) (u_var (u s)) = Some v -> v_hread v = false ->
  usteps 1 s (fra_state_u c v s) [].
Proof.
  intros s c v Hk Hs Hc Hn Hr.
  apply (ustep_pure s (fra_state_u c v)).
  - rewrite (uframe_k _ _ (uframe_fra c v s)). exact Hk.
  - intros h t. unfold unsolicited_events_service. cbn [Fsm.st mkw]. rewrite Hs. unfold format_read_args.
    cbn [Fsm.st mkw]. unfold cmd_of in Hc |- *. destruct (g_cmd UNSOL s) as [ci|] eqn:Eg; [|discriminate].
    rewrite Hc. cbn [g_var]. rewrite Hn, Hr. reflexivity.
Qed.

Lemma rloop_usteps : forall c m nl bsz, c_hread c = false ->
  forall vs v pre0 s t rest txts,
  c_vars c = pre0 ++ v :: vs -> Forall (Lemmas_C07e.rt_var_ok m) (v :: vs) ->
  RInvU c m s (length pre0) t rest nl bsz -> k_state (k s) = CS_IDLE ->
  all_some (map (slot_text m) (v :: vs)) = Some txts ->
  length (join_comma txts) < length rest ->
  exists s', usteps (length (v :: vs)) s s' [] /\
    RDoneU m s' (t ++ join_comma txts) bsz /\ uframe s' = uframe s.
Proof.
  intros c m nl bsz Hrd.
  induction vs as [|v2 vs IH]; intros v pre0 s t rest txts Hc Hok HR Hk Ha Hl;
    destruct (Lemmas_C07e.all_some_cons_st _ _ _ _ Ha) as (txt & txts' & -> & Hi & Ha');
    inversion Hok as [|? ? Hokv Hokvs]; subst;
    destruct (Lemmas_C07e.var_facts m v txt Hokv Hi) as (data & Hd & Ht & Hdl & Hhex & _);
    destruct Hokv as (_ & Hnr & _);
    pose proof (Lemmas_C19.nth_mid _ pre0 v) as Hn;
    pose proof HR as (HB & Hv & _ & Hst & _);
    pose proof HB as (_ & Hcmd & _).
  - specialize (Hn []). rewrite <- Hc, <- Hv in Hn.
    cbn [map all_some] in Ha'. injection Ha' as <-.
    rewrite Lemmas_C07e.join_comma_one in *.
    exists (fra_state_u c v s). split; [apply fra_one_u; assumption|]. split.
    + apply (fra_last_ok_u c m s (length pre0) t rest nl bsz v data txt); try assumption.
      rewrite Hc, app_length. cbn [length]. lia.
    + apply uframe_fra.
  - specialize (Hn (v2 :: vs)). rewrite <- Hc, <- Hv in Hn.
    destruct (Lemmas_C07e.all_some_cons_st _ _ _ _ Ha') as (txt2 & txts2 & -> & Hi2 & Ha2).
    rewrite Lemmas_C07e.join_comma_cons2 in *. rewrite app_length in Hl. cbn [length] in Hl.
    destruct (fra_more_u c m s (length pre0) t rest nl bsz v data txt HR Hd Ht Hdl Hhex)
      as (r' & HR' & L); [lia| rewrite Hc, app_length; cbn [length]; lia |].
    pose proof (uframe_fra c v s) as HF1.
    specialize (IH v2 (pre0 ++ [v]) (fra_state_u c v s)
                   (t ++ txt ++ [ch_COMMA]) r' (txt2 :: txts2)).
    replace (length (pre0 ++ [v])) with (S (length pre0)) in IH
      by (rewrite app_length; cbn [length]; lia).
    destruct IH as (s' & E & HD & HF2).
    + rewrite Hc, <- app_assoc. reflexivity.
    + exact Hokvs.
    + exact HR'.
    + rewrite (uframe_k _ _ HF1). exact Hk.
    + exact Ha'.
    + lia.
    + exists s'. split; [|split].
      * change (length (v :: v2 :: vs)) with (1 + length (v2 :: vs)).
        eapply usteps_cast; [eapply usteps_trans; [apply fra_one_u; eassumption | exact E] | reflexivity | reflexivity].
      * replace (t ++ txt ++ ch_COMMA :: join_comma (txt2 :: txts2))
          with ((t ++ txt ++ [ch_COMMA]) ++ join_comma (txt2 :: txts2))
          by (rewrite <- !app_assoc; reflexivity).
        exact HD.
      * rewrite HF2. exact HF1.
Qed.

(* ================= E. trigger, pop, the composed behaviour ================= *)
Lemma trigger_pop : forall s ci, Lemmas_C13.ring_wf D s -> u_count (u s) = 0 ->
  exists s1 s2, push_unsolicited_cmd D s ci T_READ = (s1, ST_OK) /\
    u_state (u s1) = u_state (u s) /\ ring_empty s1 = false /\ k s1 = k s /\
    check_unsolicited_buffers D s1 = start_processing_format_read_args D UNSOL s2 /\
    u_cmd (u s2) = Some ci /\ uframe s2 = uframe s /\ mem s2 = mem s /\ fault s2 = fault s /\
    ubuf s2 = ubuf s.
Proof.
  intros s ci (Hc & HL & Hh & Ht & Hn & Hm) H0.
  assert (Etl : u_tail (u s) = u_head (u s)).
  { rewrite Hm, H0, Nat.add_0_r. apply Nat.mod_small. exact Hh. }
  unfold push_unsolicited_cmd, ring_full, cap. rewrite H0.
  replace (0 =? d_cap D) with false by (symmetry; apply Nat.eqb_neq; lia).
  cbv zeta. replace (u_tail (u s) <? length (u_ring (u s))) with true by (symmetry; apply Nat.ltb_lt; lia).
  eexists. eexists. split; [reflexivity|]. split; [reflexivity|]. split; [reflexivity|]. split; [reflexivity|].
  split.
  - unfold check_unsolicited_buffers, pop_unsolicited_cmd, ring_empty. Lemmas_C11.scbn. cbn [Nat.eqb].
    rewrite Etl, Lemmas_C13.nth_error_upd_eq by lia. reflexivity.
  - unfold uframe. Lemmas_C11.scbn. rewrite H0. repeat split; reflexivity.
Qed.

(* the call that takes the event from the queue *)
Lemma pop_step : forall s1, u_state (u s1) = US_IDLE -> ring_empty s1 = false ->
  k_state (k (check_unsolicited_buffers D s1)) = CS_IDLE ->
  usteps 1 s1 (check_unsolicited_buffers D s1) [].
Proof.
  intros s1 Hs Hre Hk.
  apply (ustep_ev s1 (check_unsolicited_buffers D s1)
           (match ring_items D s1 with it :: _ => [EPop (fst it) (snd it)] | [] => [] end) [] Hk).
  - intros h t. unfold unsolicited_events_service. cbn [Fsm.st mkw]. rewrite Hs, Hre. cbn [negb].
    destruct (ring_items D s1); reflexivity.
  - destruct (ring_items D s1); reflexivity.
  - destruct (ring_items D s1); reflexivity.
Qed.

Lemma event_usteps : forall s ci c args,
  Lemmas_C13.ring_wf D s -> fault s = false -> k_state (k s) = CS_IDLE -> k_cr (k s) = false ->
  u_state (u s) = US_IDLE -> u_count (u s) = 0 ->
  cmd_at D ci = Some c -> Lemmas_C07e.rt_cmd_ok (mem s) c ->
  Lemmas_C07e.read_args_text (mem s) c = Some args ->
  length (c_name c ++ [ch_EQ] ++ args) < length (ubuf s) ->
  exists s1 calls s4, push_unsolicited_cmd D s ci T_READ = (s1, ST_OK) /\
    usteps calls s1 s4 ([ch_LF] ++ c_name c ++ [ch_EQ] ++ args ++ [ch_LF]) /\
    idle s4 /\ u_cmd (u s4) = None /\ k s4 = k s /\ mem s4 = mem s /\ fault s4 = false /\
    gL s4 = gL s /\ gS s4 = gS s /\ gR s4 = gR s /\ cbuf s4 = cbuf s.
Proof.
  intros s ci c args Hwf Hf Hk Hcr Hus Hu0 Hc Hrt Ha Hfit.
  pose proof Hrt as (Hne & Hok & _ & Hrd & _).
  destruct (trigger_pop s ci Hwf Hu0) as (s1 & s2 & Ep & Us1 & Re1 & K1 & Ec & Uc2 & F2 & M2 & Fa2 & B2).
  exists s1.
  (* the formatting *)
  unfold cmd_at in Hc. unfold Lemmas_C07e.read_args_text in Ha.
  change (fun v : var => match nth_error (mem s) (v_slot v) with
                         | Some d => var_text v d | None => None end)
    with (slot_text (mem s)) in Ha.
  destruct (all_some (map (slot_text (mem s)) (c_vars c))) as [txts|] eqn:Hall; [|discriminate].
  injection Ha as <-.
  destruct (c_vars c) as [|v vs] eqn:Hvs; [congruence|].
  assert (Hrw : v_access v = RW).
  { inversion Hok as [|? ? (A & _) _]. exact A. }
  rewrite !app_length in Hfit. cbn [length] in Hfit.
  rewrite <- M2 in Hok, Hall. rewrite <- B2 in Hfit. rewrite <- Fa2 in Hf.
  destruct (read_start_ok_u s2 ci c v vs Uc2 Hc Hf Hvs Hrw) as (r & HR & L); [lia|].
  pose proof (uframe_spfra s2) as F3.
  set (s3 := start_processing_format_read_args D UNSOL s2) in *.
  assert (K3 : k s3 = k s) by (rewrite (uframe_k _ _ F3), (uframe_k _ _ F2); reflexivity).
  assert (H1 : usteps 1 s1 s3 []).
  { rewrite <- Ec. apply pop_step; [congruence | exact Re1 |]. rewrite Ec, K3. exact Hk. }
  destruct (rloop_usteps c (mem s2) (nl_chars s2) (length (ubuf s2)) Hrd vs v [] s3
              (c_name c ++ [ch_EQ]) (0%N :: r) txts Hvs Hok HR ltac:(rewrite K3; exact Hk) Hall)
    as (s5 & H2 & (D1 & (r5 & D2) & D3 & D4 & D5 & D6) & F5).
  { cbn [length]. lia. }
  assert (K5 : k s5 = k s) by (rewrite (uframe_k _ _ F5); exact K3).
  (* the unit *)
  set (txt := (c_name c ++ [ch_EQ]) ++ join_comma txts) in *.
  assert (Hnn : ~ In 0%N txt).
  { unfold txt. rewrite <- app_assoc. apply (Lemmas_E2E.txt_no_nul (mem s2) c (join_comma txts)).
    - rewrite M2. exact Hrt.
    - unfold Lemmas_C07e.read_args_text.
      change (fun v : var => match nth_error (mem s2) (v_slot v) with
                             | Some d => var_text v d | None => None end)
        with (slot_text (mem s2)).
      rewrite Hvs, Hall. reflexivity. }
  assert (HT5 : text_of (ubuf s5) = txt) by (rewrite D2; apply Lemmas_C19.text_of_app0; exact Hnn).
  assert (H05 : In 0%N (ubuf s5)) by (rewrite D2; apply in_or_app; right; left; reflexivity).
  destruct (emit_unit_u s5 txt ltac:(rewrite K5; exact Hk) D4 ltac:(rewrite K5; exact Hcr) H05 HT5)
    as (s6 & H3 & (K6 & M6 & Fa6 & GL6 & GS6 & GR6 & CB6 & UB6 & UC6 & _) & A6).
  rewrite D5 in A6.
  (* the reset *)
  assert (H4 : usteps 1 s6 (unsolicited_reset_state s6) []).
  { apply (ustep_pure s6 unsolicited_reset_state).
    - change (k (unsolicited_reset_state s6)) with (k s6). rewrite K6, K5. exact Hk.
    - intros h t. unfold unsolicited_events_service. cbn [Fsm.st mkw]. rewrite A6. reflexivity. }
  exists (1 + (length (v :: vs) + ((6 + length txt) + 1))), (unsolicited_reset_state s6).
  split; [exact Ep|]. split.
  - eapply usteps_cast;
      [exact (usteps_trans _ _ _ _ _ _ _ H1 (usteps_trans _ _ _ _ _ _ _ H2 (usteps_trans _ _ _ _ _ _ _ H3 H4)))
      | reflexivity |].
    unfold txt. cbn [app]. rewrite <- !app_assoc, app_nil_r. reflexivity.
  - unfold uframe in F5, F3, F2.
    assert (G : gL s5 = gL s /\ gS s5 = gS s /\ gR s5 = gR s /\ cbuf s5 = cbuf s /\ u_count (u s5) = u_count (u s)).
    { repeat split; congruence. }
    destruct G as (G1 & G2 & G3 & G4 & G5).
    unfold Lemmas_C02e.idle, unsolicited_reset_state. Lemmas_C11.scbn.
    repeat split; try reflexivity; congruence.
Qed.

(* the parser is quiescent afterwards: a further service call answers OK *)
Lemma quiescent_ok : forall s h t, idle s -> k_state (k s) = CS_IDLE ->
  snd (sdo (mkw s [] h t) OService) = ST_OK.
Proof.
  intros s h t Hi Hk. unfold do_op, api_service, bracket. rewrite Hmx. unfold service_body.
  rewrite (Lemmas_C02e.ues_idle D (mkw s [] h t) Hi). unfold cmd_service. cbn [Fsm.st mkw]. rewrite Hk.
  unfold process_idle_state, reading, read_cmd_char. cbn [Fsm.st Fsm.io mkw s_read pop_bit rd_sched inq negb snd fst].
  destruct Hi as [U _]. cbn. rewrite U. reflexivity.
Qed.

End Ev.

(* ================= the final statement ================= *)
Theorem E2E_event_line_proof : forall D s h ci c args,
  d_mutex D = false -> Lemmas_C13.ring_wf D s -> fault s = false ->
  k_state (k s) = CS_IDLE -> k_cr (k s) = false -> k_hold (k s) = false ->
  u_state (u s) = US_IDLE -> u_count (u s) = 0 ->
  cmd_at D ci = Some c -> Lemmas_C07e.rt_cmd_ok (mem s) c ->
  Lemmas_C07e.read_args_text (mem s) c = Some args ->
  length (c_name c ++ [ch_EQ] ++ args) < length (ubuf s) ->
  let w0 := mkw s [] h [] in
  let (w1, r) := do_op D sio smu shs s_read s_write s_lock s_unlock s_call w0 (OTrigger ci T_READ) in
  r = ST_OK /\
  exists calls, let w := nsvc D calls w1 in
    u_state (u (wst w)) = US_IDLE /\ u_count (u (wst w)) = 0 /\ u_cmd (u (wst w)) = None /\
    k_state (k (wst w)) = CS_IDLE /\
    whs w = h /\ calls_of (wtr w) = [] /\ mem (wst w) = mem s /\ fault (wst w) = false /\
    output_of (wtr w) = [ch_LF] ++ c_name c ++ [ch_EQ] ++ args ++ [ch_LF] /\
    gS (wst w) = gS s /\ gR (wst w) = gR s /\
    snd (do_op D sio smu shs s_read s_write s_lock s_unlock s_call w OService) = ST_OK.
Proof.
  intros D s h ci c args Hmx Hwf Hf Hk Hcr _ Hus Hu0 Hc Hrt Ha Hfit w0.
  destruct (event_usteps D Hmx s ci c args Hwf Hf Hk Hcr Hus Hu0 Hc Hrt Ha Hfit)
    as (s1 & calls & s4 & Ep & U & I4 & C4 & K4 & M4 & F4 & GL & GS & GR & CB).
  assert (E : do_op D sio smu shs s_read s_write s_lock s_unlock s_call w0 (OTrigger ci T_READ)
              = (mkw s1 [] h [], ST_OK)).
  { unfold do_op, api_trigger, bracket. rewrite Hmx. unfold w0. cbn [Fsm.st mkw]. rewrite Ep. reflexivity. }
  rewrite E. split; [reflexivity|]. exists calls. intros w.
  destruct (usteps_world D calls s1 s4 _ h U) as (t' & E1 & E2 & E3).
  unfold w. rewrite E1. cbn [Fsm.st Fsm.hs Fsm.tr mkw].
  assert (Hk4 : k_state (k s4) = CS_IDLE) by (rewrite K4; exact Hk).
  destruct I4 as [I41 I42].
  repeat (split; [first [assumption | reflexivity]|]).
  apply (quiescent_ok D Hmx); [split; assumption | exact Hk4].
Qed.

Print Assumptions E2E_event_line_proof.

(* ================= a concrete instance (used by the example of Properties_C13e.v) ================= *)
Module E2Eb_examples.
Import Lemmas_E2E.E2E_examples.
(* the descriptor of Lemmas_E2E.E2E_examples with a 40-byte buffer for the event machine *)
Definition D1 := mkDesc [[c0; c1]] [] 40 (Some 40) 85%N 2 false.
Definition sA := init_state D1 m0.
Definition obs (w : sworld) :=
  (u_state (u (wst w)), u_count (u (wst w)), u_cmd (u (wst w)), k_state (k (wst w)), whs w, calls_of (wtr w),
   output_of (wtr w), mem (wst w), fault (wst w), (gS (wst w), gR (wst w)),
   snd (do_op D1 sio smu shs s_read s_write s_lock s_unlock s_call w OService)).
Definition go (calls : nat) :=
  let (w1, r) := do_op D1 sio smu shs s_read s_write s_lock s_unlock s_call (mkw sA [] [] []) (OTrigger 0 T_READ) in
  (r, obs (nsvc D1 calls w1)).
End E2Eb_examples.

(* ====================================================================================== *)
(* PART II — the command list, end to end: on the scripted always-ready environment of Script.v
   (event machine idle with an empty queue, no mutex) a line  AT<name> LF  whose run handler answers
   RC_PRINT_CMD_LIST_OK makes the machine print the specification's list, then OK, and return to idle.
   Structure: (1) the relation L_R = "equal up to k_position" and the list printer's insensitivity to it;
   (2) frame and shape of one printer call; (3) a raw line as service calls (after Lemmas_C11);
   (4) the iteration TextDefs.list_run replayed as service calls (relation osteps of Lemmas_E2E);
   (5) the name lookup keeps the disable flags; (6) the handler call; (7) the composed line. *)

(* ================= 1. equal up to the cursor ================= *)
Definition L_R (a b : state) : Prop := setk_position 0 a = setk_position 0 b.

Lemma L_R_refl : forall a, L_R a a.
Proof. reflexivity. Qed.
Lemma L_R_sym : forall a b, L_R a b -> L_R b a.
Proof. intros a b H. unfold L_R in *. congruence. Qed.
Lemma L_R_trans : forall a b c, L_R a b -> L_R b c -> L_R a c.
Proof. intros a b c H1 H2. unfold L_R in *. congruence. Qed.

Lemma L_R_f : forall (A : Type) (f : state -> A), (forall s, f (setk_position 0 s) = f s) ->
  forall a b, L_R a b -> f a = f b.
Proof. intros A f Hf a b H. rewrite <- (Hf a), <- (Hf b). unfold L_R in H. rewrite H. reflexivity. Qed.

Lemma L_R_setpos : forall p s, L_R (setk_position p s) s.
Proof. reflexivity. Qed.

Lemma L_R_setk_state : forall v a b, L_R a b -> L_R (setk_state v a) (setk_state v b).
Proof.
  intros v a b H. unfold L_R in *.
  change (setk_state v (setk_position 0 a) = setk_state v (setk_position 0 b)). rewrite H. reflexivity.
Qed.

(* everything but the cursor *)
Record L_same (a b : state) : Prop := mkLsame {
  ls_u : u a = u b; ls_mem : mem a = mem b; ls_cbuf : cbuf a = cbuf b; ls_fault : fault a = fault b;
  ls_state : k_state (k a) = k_state (k b); ls_wafter : k_wafter (k a) = k_wafter (k b);
  ls_wbuf : k_wbuf (k a) = k_wbuf (k b); ls_wstate : k_wstate (k a) = k_wstate (k b);
  ls_cr : k_cr (k a) = k_cr (k b); ls_hold : k_hold (k a) = k_hold (k b) }.

Lemma L_R_same : forall a b, L_R a b -> L_same a b.
Proof.
  intros a b H. constructor.
  - exact (L_R_f _ u (fun _ => eq_refl) a b H).
  - exact (L_R_f _ mem (fun _ => eq_refl) a b H).
  - exact (L_R_f _ cbuf (fun _ => eq_refl) a b H).
  - exact (L_R_f _ fault (fun _ => eq_refl) a b H).
  - exact (L_R_f _ (fun x => k_state (k x)) (fun _ => eq_refl) a b H).
  - exact (L_R_f _ (fun x => k_wafter (k x)) (fun _ => eq_refl) a b H).
  - exact (L_R_f _ (fun x => k_wbuf (k x)) (fun _ => eq_refl) a b H).
  - exact (L_R_f _ (fun x => k_wstate (k x)) (fun _ => eq_refl) a b H).
  - exact (L_R_f _ (fun x => k_cr (k x)) (fun _ => eq_refl) a b H).
  - exact (L_R_f _ (fun x => k_hold (k x)) (fun _ => eq_refl) a b H).
Qed.

Lemma L_text_in0 : forall l : list N, length (text_of l) < length l -> In 0%N l.
Proof.
  induction l as [|c r IH]; intros H; [cbn in H; lia|].
  cbn [text_of] in H. destruct (c =? 0)%N eqn:E.
  - apply N.eqb_eq in E. left. exact E.
  - right. apply IH. cbn [length] in H. lia.
Qed.

Lemma L_strncpy_len : forall m t, length (strncpy_buf m t) = m.
Proof. intros m t. unfold strncpy_buf. rewrite firstn_length, app_length, repeat_length. lia. Qed.

Section E2Ec.
Variable D : desc.
Hypothesis Hmx : d_mutex D = false.
Local Notation n := (ncmds D).
Local Notation cmdsvc := (cmd_service D sio smu shs s_read s_write s_lock s_unlock s_call).
Local Notation steps := (Lemmas_C02e.steps D).
Local Notation osteps := (Lemmas_E2E.osteps D).
Local Notation pcl := (print_cmd_list D).

(* the list printer does not look at the cursor it inherits *)
Lemma L_pcl_pos : forall s, setk_position 0 (pcl s) = setk_position 0 (pcl (setk_position 0 s)).
Proof.
  intros s. unfold print_cmd_list. cbv zeta.
  change (k_index (k (setk_position 0 s))) with (k_index (k s)).
  destruct (cmd_by_index (d_groups D) (k_index (k s))) as [c|]; [|reflexivity].
  change (k_type (k (setk_cmd (Some (k_index (k s))) (setk_position 0 s)))) with (k_type (k s)).
  change (k_type (k (setk_cmd (Some (k_index (k s))) s))) with (k_type (k s)).
  change (is_command_disable D (setk_cmd (Some (k_index (k s))) (setk_position 0 s)))
    with (is_command_disable D (setk_cmd (Some (k_index (k s))) s)).
  destruct (k_type (k s)).
  - destruct (is_command_disable D (setk_cmd (Some (k_index (k s))) s) (k_index (k s))); [|reflexivity].
    unfold cmd_list_next_cmd. cbv zeta.
    change (k_index (k (setk_cmd (Some (k_index (k s))) (setk_position 0 s)))) with (k_index (k s)).
    change (k_index (k (setk_cmd (Some (k_index (k s))) s))) with (k_index (k s)).
    destruct (n <=? S (k_index (k s))); reflexivity.
  - unfold print_cmd_form. destruct (c_hrun c); reflexivity.
  - unfold print_cmd_form. destruct (c_hread c || vars_access_possible c RO); reflexivity.
  - unfold print_cmd_form. destruct (c_hwrite c || vars_access_possible c WO); reflexivity.
  - unfold print_cmd_form.
    destruct (c_htest c || match c_vars c with [] => false | _ :: _ => true end); reflexivity.
  - unfold cmd_list_next_cmd. cbv zeta.
    change (k_index (k (setk_cmd (Some (k_index (k s))) (setk_position 0 s)))) with (k_index (k s)).
    change (k_index (k (setk_cmd (Some (k_index (k s))) s))) with (k_index (k s)).
    destruct (n <=? S (k_index (k s))); reflexivity.
Qed.

Lemma L_R_pcl : forall a b, L_R a b -> L_R (pcl a) (pcl b).
Proof.
  intros a b H. unfold L_R in *. rewrite (L_pcl_pos a), (L_pcl_pos b), H. reflexivity.
Qed.

(* ================= 2. frame and shape of one printer call ================= *)
(* what the printer never changes *)
Definition L_fr (s s' : state) : Prop :=
  u s' = u s /\ mem s' = mem s /\ k_cr (k s') = k_cr (k s) /\ k_hold (k s') = k_hold (k s) /\
  length (cbuf s') = length (cbuf s).

Lemma L_fr_refl : forall s, L_fr s s.
Proof. intros s. unfold L_fr. repeat split; reflexivity. Qed.

Lemma L_fr_trans : forall a b c, L_fr a b -> L_fr b c -> L_fr a c.
Proof.
  intros a b c (A1 & A2 & A3 & A4 & A5) (B1 & B2 & B3 & B4 & B5).
  unfold L_fr. rewrite B1, B2, B3, B4, B5. repeat split; assumption.
Qed.

(* a started flush is either a raw line of the list or a result code with a fresh cursor *)
Definition L_G (s : state) : Prop :=
  k_state (k s) = CS_FLUSH_WAIT ->
  k_position (k s) = 0 /\
  ((k_wafter (k s) = CS_PRINT_CMD /\ k_wbuf (k s) = WB_MAIN /\ k_wstate (k s) = WS_AFTER) \/
   (k_wafter (k s) = CS_AFTER_RESET /\ k_wstate (k s) = WS_BEFORE /\ k_wbuf (k s) = WB_NL (k_cr (k s)))).

Lemma L_G_not : forall s, k_state (k s) <> CS_FLUSH_WAIT -> L_G s.
Proof. intros s H E. exfalso. exact (H E). Qed.

Lemma L_fr_put_cur : forall c s, length (cu_buf c) = length (cbuf s) -> L_fr s (put_cur ATCMD c s).
Proof. intros c s H. unfold put_cur. destruct (cu_fault c); unfold L_fr; repeat split; exact H. Qed.

Lemma L_fr_print_string : forall s t, L_fr s (fst (print_string ATCMD s t)).
Proof.
  intros s t. unfold print_string.
  pose proof (Lemmas_C08.print_nstring_len (get_cur ATCMD s) t) as H.
  destruct (print_nstring (get_cur ATCMD s) t) as [c ok]. cbn [fst] in *. apply L_fr_put_cur. exact H.
Qed.

Lemma L_print_pieces_len : forall ps c, length (cu_buf (fst (print_pieces c ps))) = length (cu_buf c).
Proof.
  induction ps as [|p r IH]; intros c; [reflexivity|]. cbn [print_pieces].
  pose proof (Lemmas_C08.print_nstring_len c p) as H.
  destruct (print_nstring c p) as [c1 ok]. cbn [fst] in H. destruct ok; [rewrite IH|]; exact H.
Qed.

Lemma L_fr_print_strings : forall s ts, L_fr s (fst (print_strings ATCMD s ts)).
Proof.
  intros s ts. unfold print_strings.
  pose proof (L_print_pieces_len ts (get_cur ATCMD s)) as H.
  destruct (print_pieces (get_cur ATCMD s) ts) as [c ok]. cbn [fst] in *. apply L_fr_put_cur. exact H.
Qed.

Lemma L_fr_full_name : forall s c sfx, L_fr s (fst (print_current_cmd_full_name s c sfx)).
Proof.
  intros s c sfx. unfold print_current_cmd_full_name.
  destruct (k_length (k s) =? 0).
  - pose proof (L_fr_print_string s (nl_chars s)) as H1.
    destruct (print_string ATCMD s (nl_chars s)) as [s' ok]. cbn [fst] in H1.
    destruct ok; cbn [negb fst]; [|exact H1].
    eapply L_fr_trans; [exact H1|]. eapply L_fr_trans; [|apply L_fr_print_strings].
    unfold L_fr. repeat split; reflexivity.
  - cbn [negb]. apply L_fr_print_strings.
Qed.

Lemma L_ack_ok : forall s, L_fr s (ack_ok s) /\ L_G (ack_ok s).
Proof.
  intros s. split.
  - unfold L_fr. repeat split; try reflexivity.
    change (length (strncpy_buf (asz s) txt_OK) = length (cbuf s)). apply L_strncpy_len.
  - intros _. split; [reflexivity|]. right. repeat split; reflexivity.
Qed.

Lemma L_ack_error : forall s, L_fr s (ack_error s) /\ L_G (ack_error s).
Proof.
  intros s. split.
  - unfold L_fr. repeat split; try reflexivity.
    change (length (strncpy_buf (asz s) txt_ERROR) = length (cbuf s)). apply L_strncpy_len.
  - intros _. split; [reflexivity|]. right. repeat split; reflexivity.
Qed.

Lemma L_next_cmd : forall s, k_state (k s) = CS_PRINT_CMD ->
  let r := (let (s1, more) := cmd_list_next_cmd D s in if more then s1 else ack_ok s1) in
  L_fr s r /\ L_G r.
Proof.
  intros s Hs. cbv zeta. unfold cmd_list_next_cmd. cbv zeta.
  destruct (n <=? S (k_index (k s))).
  - destruct (L_ack_ok (setk_index (S (k_index (k s))) s)) as [A B]. split; [|exact B].
    eapply L_fr_trans; [|exact A]. unfold L_fr. repeat split; reflexivity.
  - split; [unfold L_fr; repeat split; reflexivity|]. apply L_G_not. discriminate.
Qed.

Lemma L_form : forall s c av sfx next, k_state (k s) = CS_PRINT_CMD ->
  L_fr s (print_cmd_form s c av sfx next) /\ L_G (print_cmd_form s c av sfx next).
Proof.
  intros s c av sfx next Hs. unfold print_cmd_form. destruct av.
  - pose proof (L_fr_full_name (setk_position 0 s) c sfx) as H1.
    destruct (print_current_cmd_full_name (setk_position 0 s) c sfx) as [s2 ok]. cbn [fst] in H1.
    assert (H0 : L_fr s s2) by (eapply L_fr_trans; [|exact H1]; unfold L_fr; repeat split; reflexivity).
    destruct ok; cbn [negb].
    + split.
      * eapply L_fr_trans; [exact H0|]. unfold L_fr. repeat split; reflexivity.
      * intros _. split; [reflexivity|]. left. repeat split; reflexivity.
    + destruct (L_ack_error s2) as [A B]. split; [|exact B]. eapply L_fr_trans; eassumption.
  - split; [unfold L_fr; repeat split; reflexivity|]. apply L_G_not.
    change (k_state (k (setk_type next s))) with (k_state (k s)). rewrite Hs. discriminate.
Qed.

Lemma L_pcl_frame : forall s, k_state (k s) = CS_PRINT_CMD -> L_fr s (pcl s) /\ L_G (pcl s).
Proof.
  intros s Hs. unfold print_cmd_list. cbv zeta.
  destruct (cmd_by_index (d_groups D) (k_index (k s))) as [c|].
  2:{ split; [unfold L_fr; repeat split; reflexivity|]. apply L_G_not.
      change (k_state (k (set_fault_flag s))) with (k_state (k s)). rewrite Hs. discriminate. }
  set (s1 := setk_cmd (Some (k_index (k s))) s).
  assert (Hs1 : k_state (k s1) = CS_PRINT_CMD) by exact Hs.
  assert (F1 : L_fr s s1) by (unfold L_fr; repeat split; reflexivity).
  assert (K : forall r, L_fr s1 r /\ L_G r -> L_fr s r /\ L_G r).
  { intros r [A B]. split; [exact (L_fr_trans _ _ _ F1 A) | exact B]. }
  destruct (k_type (k s1)).
  - destruct (is_command_disable D s1 (k_index (k s))).
    + apply K. exact (L_next_cmd s1 Hs1).
    + apply K. split; [unfold L_fr; repeat split; reflexivity|]. apply L_G_not.
      match goal with |- k_state (k (setk_type ?t s1)) <> _ =>
        change (k_state (k (setk_type t s1))) with (k_state (k s1)) end.
      rewrite Hs1. discriminate.
  - apply K, L_form, Hs1.
  - apply K, L_form, Hs1.
  - apply K, L_form, Hs1.
  - apply K, L_form, Hs1.
  - apply K. exact (L_next_cmd s1 Hs1).
Qed.

(* ================= 3. a raw line of the list as service calls ================= *)
Lemma L_osteps_0 : forall s q, osteps 0 s q s q [].
Proof. intros s q h t. exists []. repeat split; reflexivity. Qed.

Lemma L_raw_unit : forall s q txt, idle s -> k_state (k s) = CS_FLUSH_WAIT -> k_position (k s) = 0 ->
  k_wbuf (k s) = WB_MAIN -> k_wstate (k s) = WS_AFTER -> k_wafter (k s) = CS_PRINT_CMD ->
  In 0%N (cbuf s) -> text_of (cbuf s) = txt ->
  exists s3, osteps (2 + length txt) s q s3 q txt /\ L_R s3 (setk_state CS_PRINT_CMD s).
Proof.
  intros s q txt Hi Hs Hp Hb Hw Ha H0 HT.
  assert (H1 : osteps 1 s q (setk_state CS_FLUSH s) q []).
  { apply (Lemmas_E2E.ostep_pure D Hmx s q (setk_state CS_FLUSH) Hi). intros h t. unfold cmd_service.
    cbn [Fsm.st mkw]. rewrite Hs. unfold busy, upd_st, process_io_write_wait. cbn [Fsm.st mkw].
    destruct Hi as [U _]. rewrite U. reflexivity. }
  set (s0 := setk_state CS_FLUSH s).
  assert (Hi0 : idle s0) by exact Hi.
  assert (T0 : text_of (Lemmas_C11.wb_text (k_wbuf (k s0)) (cbuf s0)) = txt).
  { change (k_wbuf (k s0)) with (k_wbuf (k s)). rewrite Hb. exact HT. }
  assert (I0 : In 0%N (Lemmas_C11.wb_text (k_wbuf (k s0)) (cbuf s0))).
  { change (k_wbuf (k s0)) with (k_wbuf (k s)). rewrite Hb. exact H0. }
  pose proof (Lemmas_C11.phase_c_after s0 txt Hp Hw I0 T0) as P3.
  change (k_wafter (k s0)) with (k_wafter (k s)) in P3. rewrite Ha in P3. cbv zeta in P3.
  cbn [cstate_beq] in P3.
  pose proof (Lemmas_E2E.flush_osteps D Hmx (S (length txt)) s0 q Hi0) as F.
  rewrite P3 in F. cbn [fst snd] in F.
  eexists. split.
  - change (2 + length txt) with (1 + S (length txt)).
    eapply Lemmas_E2E.osteps_cast; [eapply Lemmas_E2E.osteps_trans; [exact H1|] | reflexivity | reflexivity].
    apply F. intros j Hj.
    rewrite Lemmas_C11.run_flush_c_text_state by (rewrite (Lemmas_C11.len_phase_rest0 s0 txt Hp T0); lia).
    reflexivity.
  - reflexivity.
Qed.

(* ================= 4. the iteration of the list printer as service calls ================= *)
Lemma L_list_run_app : forall fuel s acc, exists new, fst (list_run D fuel s acc) = acc ++ new.
Proof.
  induction fuel as [|f IH]; intros s acc; [exists []; rewrite app_nil_r; reflexivity|].
  rewrite Lemmas_C19.list_run_S. destruct (cstate_beq (k_state (k s)) CS_PRINT_CMD).
  2:{ exists []. rewrite app_nil_r. reflexivity. }
  cbv zeta.
  destruct (cstate_beq (k_state (k (pcl s))) CS_FLUSH_WAIT && cstate_beq (k_wafter (k (pcl s))) CS_PRINT_CMD).
  - destruct (IH (setk_state CS_PRINT_CMD (pcl s)) (acc ++ [text_of (cbuf (pcl s))])) as [new E].
    exists ([text_of (cbuf (pcl s))] ++ new). rewrite E, <- app_assoc. reflexivity.
  - apply IH.
Qed.

Lemma L_pcl_step : forall s q, idle s -> k_state (k s) = CS_PRINT_CMD -> osteps 1 s q (pcl s) q [].
Proof.
  intros s q Hi Hs. apply (Lemmas_E2E.ostep_pure D Hmx s q pcl Hi). intros h t. unfold cmd_service.
  cbn [Fsm.st mkw]. rewrite Hs. reflexivity.
Qed.

Lemma L_list_osteps : forall bsz q fuel a b acc out af new,
  L_R a b -> idle b -> length (cbuf b) = bsz -> L_G b ->
  list_run D fuel a acc = (out, af) -> k_state (k af) = CS_FLUSH_WAIT ->
  out = acc ++ new -> forallb (fun l => length l <? bsz) new = true ->
  exists calls bf, osteps calls b q bf q (concat new) /\ L_R af bf /\ L_fr b bf /\ L_G bf.
Proof.
  intros bsz q. induction fuel as [|f IH]; intros a b acc out af new HR Hi Hlen HG Hrun Hend Hout Hfit.
  - cbn [list_run] in Hrun. injection Hrun as <- <-.
    assert (new = []) by (apply (app_inv_head acc); rewrite app_nil_r; symmetry; exact Hout). subst new.
    exists 0, b. split; [apply L_osteps_0|]. split; [exact HR|]. split; [apply L_fr_refl | exact HG].
  - rewrite Lemmas_C19.list_run_S in Hrun.
    destruct (cstate_beq (k_state (k a)) CS_PRINT_CMD) eqn:Es.
    2:{ injection Hrun as <- <-.
        assert (new = []) by (apply (app_inv_head acc); rewrite app_nil_r; symmetry; exact Hout). subst new.
        exists 0, b. split; [apply L_osteps_0|]. split; [exact HR|]. split; [apply L_fr_refl | exact HG]. }
    apply internal_cstate_dec_bl in Es.
    pose proof (L_R_same a b HR) as Sab.
    assert (Hsb : k_state (k b) = CS_PRINT_CMD) by (rewrite <- (ls_state _ _ Sab); exact Es).
    pose proof (L_R_pcl a b HR) as HR1.
    pose proof (L_pcl_step b q Hi Hsb) as O1.
    destruct (L_pcl_frame b Hsb) as [F1 G1].
    pose proof (L_R_same _ _ HR1) as S1.
    assert (Hi1 : idle (pcl b)) by (apply (Lemmas_C02e.idle_of_u b); [apply F1 | exact Hi]).
    assert (Hlen1 : length (cbuf (pcl b)) = bsz) by (destruct F1 as (_ & _ & _ & _ & E); rewrite E; exact Hlen).
    cbv zeta in Hrun.
    destruct (cstate_beq (k_state (k (pcl a))) CS_FLUSH_WAIT && cstate_beq (k_wafter (k (pcl a))) CS_PRINT_CMD) eqn:Ec.
    + apply andb_true_iff in Ec. destruct Ec as [Ec1 Ec2].
      apply internal_cstate_dec_bl in Ec1. apply internal_cstate_dec_bl in Ec2.
      rewrite (ls_state _ _ S1) in Ec1. rewrite (ls_wafter _ _ S1) in Ec2.
      rewrite (ls_cbuf _ _ S1) in Hrun.
      set (l := text_of (cbuf (pcl b))) in *.
      destruct (L_list_run_app f (setk_state CS_PRINT_CMD (pcl a)) (acc ++ [l])) as [new' En].
      rewrite Hrun in En. cbn [fst] in En.
      assert (new = l :: new').
      { apply (app_inv_head acc). rewrite <- Hout, En, <- app_assoc. reflexivity. }
      subst new. cbn [forallb] in Hfit. apply andb_true_iff in Hfit. destruct Hfit as [Hl Hfit].
      apply Nat.ltb_lt in Hl.
      destruct (G1 Ec1) as (Hp & [(_ & Hb & Hw) | (Hx & _)]); [|rewrite Hx in Ec2; discriminate].
      assert (H0 : In 0%N (cbuf (pcl b))) by (apply L_text_in0; fold l; rewrite Hlen1; exact Hl).
      destruct (L_raw_unit (pcl b) q l Hi1 Ec1 Hp Hb Hw Ec2 H0 eq_refl) as (b3 & O2 & R3).
      pose proof (L_R_same _ _ R3) as S3.
      assert (HR3 : L_R (setk_state CS_PRINT_CMD (pcl a)) b3).
      { eapply L_R_trans; [apply L_R_setk_state; exact HR1 | apply L_R_sym; exact R3]. }
      assert (F3 : L_fr (pcl b) b3).
      { unfold L_fr. rewrite (ls_u _ _ S3), (ls_mem _ _ S3), (ls_cr _ _ S3), (ls_hold _ _ S3), (ls_cbuf _ _ S3).
        repeat split; reflexivity. }
      destruct (IH (setk_state CS_PRINT_CMD (pcl a)) b3 (acc ++ [l]) out af new' HR3) as (c3 & bf & O3 & Rf & Ff & Gf).
      * apply (Lemmas_C02e.idle_of_u (pcl b)); [apply F3 | exact Hi1].
      * destruct F3 as (_ & _ & _ & _ & E). rewrite E. exact Hlen1.
      * apply L_G_not. rewrite (ls_state _ _ S3). discriminate.
      * exact Hrun.
      * exact Hend.
      * exact En.
      * exact Hfit.
      * exists (1 + ((2 + length l) + c3)), bf. split; [|split; [exact Rf|split; [|exact Gf]]].
        -- cbn [concat].
           eapply Lemmas_E2E.osteps_cast;
             [exact (Lemmas_E2E.osteps_trans D _ _ _ _ _ _ _ _ _ _ O1
                       (Lemmas_E2E.osteps_trans D _ _ _ _ _ _ _ _ _ _ O2 O3)) | reflexivity | reflexivity].
        -- exact (L_fr_trans _ _ _ F1 (L_fr_trans _ _ _ F3 Ff)).
    + destruct (IH (pcl a) (pcl b) acc out af new HR1 Hi1 Hlen1 G1 Hrun Hend Hout Hfit) as (c3 & bf & O3 & Rf & Ff & Gf).
      exists (1 + c3), bf. split; [|split; [exact Rf|split; [|exact Gf]]].
      * exact (Lemmas_E2E.osteps_trans D _ _ _ _ _ _ _ _ _ _ O1 O3).
      * exact (L_fr_trans _ _ _ F1 Ff).
Qed.

(* ================= 5. the name lookup keeps the disable flags ================= *)
Definition L_dis (s : state) : list bool * list bool := (dis_cmd s, dis_grp s).

Lemma L_dis_update : forall s, L_dis (update_command D s) = L_dis s.
Proof.
  intros s. rewrite Lemmas_C02.update_command_unf.
  destruct (cmd_by_index (d_groups D) (k_index (k s))) as [c|]; [|reflexivity].
  destruct (get_cmd_state D s (k_index (k s))) as [cs|]; [|reflexivity].
  unfold Lemmas_C02.upd_fin, Lemmas_C02.upd_s1, set_cmd_state, prepare_search_command.
  Lemmas_E2E.destr_all; reflexivity.
Qed.

Lemma L_dis_search : forall s, L_dis (search_command D s) = L_dis s.
Proof.
  intros s. unfold search_command.
  destruct (get_cmd_state D s (k_index (k s))) as [cs|]; [|reflexivity].
  cbv zeta. Lemmas_C11.scbn. Lemmas_E2E.destr_all; reflexivity.
Qed.

Lemma L_dis_iter_upd : forall m s, L_dis (iter m (update_command D) s) = L_dis s.
Proof. induction m as [|m IH]; intros s; [reflexivity|]. simpl iter. rewrite IH. apply L_dis_update. Qed.

Lemma L_dis_ncs : forall s ch, L_dis (name_char_step D s ch) = L_dis s.
Proof. intros s ch. unfold name_char_step. rewrite L_dis_iter_upd. reflexivity. Qed.

Lemma L_dis_fold_ncs : forall t s, L_dis (fold_left (name_char_step D) t s) = L_dis s.
Proof. induction t as [|c t IH]; intros s; [reflexivity|]. simpl fold_left. rewrite IH. apply L_dis_ncs. Qed.

Lemma L_dis_run : forall s t, L_dis (Lemmas_C02e.run D s t) = L_dis s.
Proof. intros s t. unfold Lemmas_C02e.run. rewrite L_dis_fold_ncs. reflexivity. Qed.

Lemma L_dis_search_run : forall fuel s, L_dis (search_run D fuel s) = L_dis s.
Proof.
  induction fuel as [|f IH]; intros s; [reflexivity|]. simpl search_run.
  destruct (cstate_beq (k_state (k s)) CS_SEARCH_COMMAND); [|reflexivity].
  rewrite IH. apply L_dis_search.
Qed.

Section Line.
Variable s : state.
Hypothesis Hn : 0 < n.
Hypothesis HL : n <= 4 * length (cbuf s).
Hypothesis Hf : fault s = false.
Hypothesis Hst : k_state (k s) = CS_IDLE.
Hypothesis Himp : k_implicit (k s) = false.
Hypothesis Hidle : idle s.

Local Notation run := (Lemmas_C02e.run D s).
Local Notation tweak := Lemmas_C02e.tweak.
Local Notation looked_up := (Lemmas_C02e.looked_up D s).
Local Notation six := Lemmas_E2E.six.

(* Lemmas_E2E.finish_search_ex, with the disable flags of the final state *)
Lemma L_finish_search_ex : forall typed term ty cr g q,
  typed <> [] -> implicit_hit D s typed = false ->
  exists j s2, j <= n /\ steps j (tweak ty cr g (start_search (run typed) term)) q s2 q /\
    looked_up typed term ty s2 /\
    six s2 = (g, gS s, gR s, cr, k_hold (k s), length (cbuf s)) /\ L_dis s2 = L_dis s.
Proof.
  intros typed term ty cr g q Hne Hh.
  set (r := run typed). set (X := start_search r term).
  set (s2 := search_run D n X).
  destruct (Lemmas_C02e.run_good D s Hn HL Hf Himp Hidle typed Hh) as [_ [_ [_ [_ [Hi [Hu Hm]]]]]].
  fold r in Hi, Hu, Hm.
  pose proof (Lemmas_C02.C02_resolve D (Lemmas_C02e.sT s) typed term Hn HL Hf Himp Hne Hh) as R.
  cbv zeta in R. rewrite <- (Lemmas_C02e.run_eq D s typed Hne) in R. fold r X s2 in R. destruct R as [F R].
  change (enabled D (Lemmas_C02e.sT s)) with (enabled D s) in R.
  destruct (Lemmas_C02e.search_run_frame D n X) as [A [B [C E]]]. fold s2 in A, B, C, E.
  assert (Hend : k_state (k (search_run D n (tweak ty cr g X))) <> CS_SEARCH_COMMAND).
  { rewrite Lemmas_C02e.search_run_tweak. fold s2.
    change (k_state (k (tweak ty cr g s2))) with (k_state (k s2)).
    destruct (resolve typed (enabled D s) (cmds D)) as [i|].
    - destruct R as [R _]. rewrite R. discriminate.
    - rewrite R. destruct (term =? ch_LF)%N; discriminate. }
  destruct (Lemmas_C02e.search_steps D Hmx n (tweak ty cr g X) q) as [j [Hj Hst']];
    [exact Hi | reflexivity | exact Hend |].
  exists j, (tweak ty cr g s2). split; [exact Hj|]. split.
  { rewrite Lemmas_C02e.search_run_tweak in Hst'. exact Hst'. }
  split; [|split].
  - unfold Lemmas_C02e.looked_up. split; [change (mem s2 = mem s); rewrite B; exact Hm|]. split; [exact F|].
    split; [change (u s2 = u s); rewrite A; exact Hu|].
    destruct (resolve typed (enabled D s) (cmds D)) as [i|].
    + destruct R as [R1 R2]. split; [exact R1|]. split; [exact R2|]. split; [reflexivity|].
      change (k_char (k (tweak ty cr g s2))) with (k_char (k s2)). rewrite C. reflexivity.
    + exact R.
  - rewrite Lemmas_E2E.six_tweak.
    assert (E6 : six s2 = six s).
    { unfold s2. rewrite Lemmas_E2E.six_search_run. change (six X) with (six r). apply Lemmas_E2E.six_run. }
    unfold Lemmas_E2E.six in E6. congruence.
  - change (L_dis (tweak ty cr g s2)) with (L_dis s2). unfold s2. rewrite L_dis_search_run.
    change (L_dis X) with (L_dis r). apply L_dis_run.
Qed.

(* Lemmas_E2E.dispatch_lf_ex, with the disable flags of the final state *)
Lemma L_dispatch_lf_ex : forall name rest,
  name_ok name = true -> implicit_hit D s (upper name) = false ->
  exists calls s2, steps calls s ([ch_A; ch_T] ++ name ++ [ch_LF] ++ rest) s2 rest /\
    looked_up (upper name) ch_LF T_RUN s2 /\
    six s2 = (S (gL s), gS s, gR s, k_cr (k s), k_hold (k s), length (cbuf s)) /\
    dis_cmd s2 = dis_cmd s /\ dis_grp s2 = dis_grp s.
Proof.
  intros name rest Hok Hh.
  destruct (Lemmas_C02e.name_ok_split name Hok) as [Hne Hc].
  pose proof (Lemmas_E2E.upper_ne name Hne) as Hne'.
  destruct (Lemmas_E2E.six_run_parts D s (upper name)) as [G C].
  destruct (L_finish_search_ex (upper name) ch_LF T_RUN (k_cr (k (run (upper name))))
              (S (gL (run (upper name)))) rest Hne' Hh) as [j [s2 [Hj [H6 [HR [H7 H8]]]]]].
  exists (2 + (length name * S n + (1 + j))), s2. split; [|split; [exact HR|split]].
  - simpl app.
    eapply Lemmas_C02e.steps_trans; [apply (Lemmas_C02e.at_steps D Hmx s Hst Hidle)|].
    eapply Lemmas_C02e.steps_trans;
      [apply (Lemmas_C02e.name_steps D Hmx s Hn HL Hf Himp Hidle name (ch_LF :: rest) Hc Hh)|].
    eapply Lemmas_C02e.steps_trans;
      [apply (Lemmas_E2E.lf_term_step D Hmx s Hn HL Hf Himp Hidle (upper name) rest Hne' Hh) | exact H6].
  - rewrite H7, G, C. reflexivity.
  - unfold L_dis in H8. split; congruence.
Qed.

End Line.

(* ================= 6. the calls around the handler ================= *)
(* CS_COMMAND_FOUND for a RUN request with a run handler *)
Lemma L_found_run_step : forall s q i c, idle s -> k_state (k s) = CS_COMMAND_FOUND ->
  k_cmd (k s) = Some i -> cmd_at D i = Some c -> k_type (k s) = T_RUN -> c_only_test c = false ->
  c_hrun c = true -> osteps 1 s q (setk_state CS_RUN_LOOP s) q [].
Proof.
  intros s q i c Hi Hs Hk Hc Hty Hot Hrun.
  assert (E : command_found D s = setk_state CS_RUN_LOOP s).
  { unfold command_found, cmd_of, g_cmd. rewrite Hk, Hc, Hty, Hot, Hrun. reflexivity. }
  rewrite <- E. apply (Lemmas_E2E.ostep_pure D Hmx s q (command_found D) Hi).
  intros h t. unfold cmd_service. cbn [Fsm.st mkw]. rewrite Hs. reflexivity.
Qed.

(* the service call that runs the handler, which asks for the command list *)
Lemma L_run_call : forall s q h h' t i r0, idle s -> k_state (k s) = CS_RUN_LOOP -> k_cmd (k s) = Some i ->
  s_call h (HRun i) = (h', r0) -> r_code r0 = RC_PRINT_CMD_LIST_OK -> r_pokes r0 = [] -> r_calls r0 = [] ->
  svc D (mkw s q h t) =
  mkw (start_print_cmd_list D s) q h' (ERet OService ST_BUSY :: ECall (HRun i) RC_PRINT_CMD_LIST_OK :: t).
Proof.
  intros s q h h' t i r0 Hi Hs Hk Hcall Hcode Hp Hc.
  assert (E : cmdsvc (mkw s q h t) =
              (mkw (start_print_cmd_list D s) q h' (ECall (HRun i) RC_PRINT_CMD_LIST_OK :: t), ST_BUSY)).
  { unfold cmd_service. cbn [Fsm.st mkw]. rewrite Hs. unfold process_run_loop. cbn [Fsm.st mkw g_cmd].
    rewrite Hk. unfold call_h. cbn [Fsm.hs mkw]. rewrite Hcall, Hcode, Hp, Hc. reflexivity. }
  rewrite (Lemmas_C02e.svc_busy D Hmx (mkw s q h t) _ Hi E). reflexivity.
Qed.

(* calls before the handler, the handler call, calls after it: the whole world *)
Lemma L_compose : forall c1 c2 s q s3 q3 s4 s5 h h' i out,
  osteps c1 s q s3 q3 [] ->
  (forall t, svc D (mkw s3 q3 h t) =
             mkw s4 q3 h' (ERet OService ST_BUSY :: ECall (HRun i) RC_PRINT_CMD_LIST_OK :: t)) ->
  osteps c2 s4 q3 s5 q3 out ->
  let w := nsvc D (c1 + (1 + c2)) (mkw s q h []) in
  wst w = s5 /\ inq (wio w) = q3 /\ whs w = h' /\
  calls_of (wtr w) = [(HRun i, RC_PRINT_CMD_LIST_OK)] /\ output_of (wtr w) = out.
Proof.
  intros c1 c2 s q s3 q3 s4 s5 h h' i out O1 Hc O2 w.
  destruct (O1 h []) as (t1 & C1 & U1 & E1).
  destruct (O2 h' (ERet OService ST_BUSY :: ECall (HRun i) RC_PRINT_CMD_LIST_OK :: t1 ++ []))
    as (t2 & C2 & U2 & E2).
  assert (Ew : w = mkw s5 q3 h' (t2 ++ [ERet OService ST_BUSY; ECall (HRun i) RC_PRINT_CMD_LIST_OK] ++ t1 ++ [])).
  { unfold w, nsvc in *. rewrite Lemmas_C02e.iter_add, E1, Lemmas_C02e.iter_add.
    change (iter 1 (svc D) (mkw s3 q3 h (t1 ++ []))) with (svc D (mkw s3 q3 h (t1 ++ []))).
    rewrite Hc, E2. reflexivity. }
  rewrite Ew. cbn [Fsm.st Fsm.io Fsm.hs Fsm.tr mkw inq].
  split; [reflexivity|]. split; [reflexivity|]. split; [reflexivity|].
  rewrite app_nil_r. rewrite !Lemmas_E2E.calls_of_app, !Lemmas_E2E.output_of_app, C1, C2, U1, U2.
  split; reflexivity.
Qed.

(* ================= 7. the whole line ================= *)
Section Lines.
Variable s : state.
Hypothesis Hn : 0 < n.
Hypothesis HL : n <= 4 * length (cbuf s).
Hypothesis H6 : 6 <= length (cbuf s).
Hypothesis Hf : fault s = false.
Hypothesis Hst : k_state (k s) = CS_IDLE.
Hypothesis Hcr : k_cr (k s) = false.
Hypothesis Himp : k_implicit (k s) = false.
Hypothesis Hhold : k_hold (k s) = false.
Hypothesis Hidle : idle s.

Lemma L_list_line_world : forall name rest h h' i c r0,
  name_ok name = true -> implicit_hit D s (upper name) = false ->
  resolve (upper name) (enabled D s) (cmds D) = Some i -> nth_error (cmds D) i = Some c ->
  c_hrun c = true -> c_only_test c = false ->
  s_call h (HRun i) = (h', r0) -> r_code r0 = RC_PRINT_CMD_LIST_OK -> r_pokes r0 = [] -> r_calls r0 = [] ->
  (forall c', In c' (cmds D) -> ~ In 0%N (c_name c')) ->
  forallb (fun l => length l <? length (cbuf s)) (spec_cmd_list D (enabled D s) [ch_LF]) = true ->
  exists calls s6, let w := nsvc D calls (mkw s ([ch_A; ch_T] ++ name ++ [ch_LF] ++ rest) h []) in
    wst w = s6 /\ inq (wio w) = rest /\ whs w = h' /\
    calls_of (wtr w) = [(HRun i, RC_PRINT_CMD_LIST_OK)] /\
    output_of (wtr w) = concat (spec_cmd_list D (enabled D s) [ch_LF]) ++ [ch_LF] ++ txt_OK ++ [ch_LF] /\
    k_state (k s6) = CS_IDLE /\ mem s6 = mem s /\ fault s6 = false /\ u s6 = u s /\
    k_cr (k s6) = false /\ k_hold (k s6) = false /\ k_cmd (k s6) = None.
Proof.
  intros name rest h h' i c r0 Hok Hh Hres Hc Hrun Hot Hcall Hcode Hpk Hcl Hnames Hfit.
  (* 1. dispatch *)
  destruct (L_dispatch_lf_ex s Hn HL Hf Hst Himp Hidle name rest Hok Hh)
    as (c1 & s2 & H1 & (M2 & F2 & U2 & R2) & S2 & Dc & Dg).
  rewrite Hres in R2. destruct R2 as (A1 & A2 & A3 & A4).
  unfold Lemmas_E2E.six in S2.
  assert (G2 : k_cr (k s2) = false /\ k_hold (k s2) = false /\ length (cbuf s2) = length (cbuf s)).
  { repeat split; congruence. }
  destruct G2 as (cr2 & ho2 & len2).
  pose proof (Lemmas_E2E.cmd_at_of_cmds D i c Hc) as Hc'.
  assert (Hi2 : idle s2) by (apply (Lemmas_C02e.idle_of_u s); assumption).
  (* 2. CS_COMMAND_FOUND *)
  pose proof (L_found_run_step s2 rest i c Hi2 A1 A2 Hc' A3 Hot Hrun) as O2.
  set (s3 := setk_state CS_RUN_LOOP s2) in *.
  assert (Hi3 : idle s3) by exact Hi2.
  (* 3. the handler *)
  assert (Hsvc : forall t, svc D (mkw s3 rest h t) =
            mkw (start_print_cmd_list D s3) rest h'
                (ERet OService ST_BUSY :: ECall (HRun i) RC_PRINT_CMD_LIST_OK :: t)).
  { intros t. exact (L_run_call s3 rest h h' t i r0 Hi3 eq_refl A2 Hcall Hcode Hpk Hcl). }
  (* 4. the list, in the model *)
  assert (Hf3 : fault s3 = false) by exact F2.
  assert (H63 : 6 <= length (cbuf s3)) by (change (cbuf s3) with (cbuf s2); lia).
  pose proof (Lemmas_C19.C19_list_proof D s3 Hf3 H63 Hnames (6 * n + 1) (le_n _)) as HC.
  cbv zeta in HC.
  assert (Elines : spec_cmd_list D (fun j => negb (is_command_disable D s3 j)) (nl_chars s3)
                   = spec_cmd_list D (enabled D s) [ch_LF]).
  { unfold nl_chars. change (k_cr (k s3)) with (k_cr (k s2)). rewrite cr2.
    unfold enabled, is_command_disable. change (dis_grp s3) with (dis_grp s2).
    change (dis_cmd s3) with (dis_cmd s2). rewrite Dc, Dg. reflexivity. }
  rewrite Elines in HC. change (cbuf s3) with (cbuf s2) in HC. rewrite len2 in HC.
  set (lines := spec_cmd_list D (enabled D s) [ch_LF]) in *.
  set (s4 := start_print_cmd_list D s3) in *.
  destruct (list_run D (6 * n + 1) s4 []) as [out af] eqn:Erun.
  destruct HC as (Ff & Sf & Wf & HC). rewrite Hfit in HC. destruct HC as [Eout HT].
  (* 5. the state after the handler call *)
  assert (E4 : s4 = s3 |> setk_index 0 |> setk_length 0 |> setk_type T_NONE |> setk_state CS_PRINT_CMD).
  { unfold s4, start_print_cmd_list. destruct (n =? 0) eqn:E; [apply Nat.eqb_eq in E; lia | reflexivity]. }
  assert (P4 : k_state (k s4) = CS_PRINT_CMD /\ u s4 = u s2 /\ cbuf s4 = cbuf s2 /\ mem s4 = mem s2 /\
               k_cr (k s4) = k_cr (k s2) /\ k_hold (k s4) = k_hold (k s2)).
  { rewrite E4. repeat split; reflexivity. }
  destruct P4 as (st4 & u4 & cb4 & m4 & cr4 & ho4).
  assert (Hi4 : idle s4) by (apply (Lemmas_C02e.idle_of_u s2); assumption).
  (* 6. the list, as service calls *)
  destruct (L_list_osteps (length (cbuf s)) rest (6 * n + 1) s4 s4 [] out af lines (L_R_refl s4) Hi4)
    as (c2 & bf & O3 & Rf & (fu & fm & fcr & fho & flen) & Gf).
  { rewrite cb4. exact len2. }
  { apply L_G_not. rewrite st4. discriminate. }
  { exact Erun. }
  { exact Sf. }
  { exact Eout. }
  { exact Hfit. }
  pose proof (L_R_same _ _ Rf) as Sfb.
  assert (Sb : k_state (k bf) = CS_FLUSH_WAIT) by (rewrite <- (ls_state _ _ Sfb); exact Sf).
  assert (Wb : k_wafter (k bf) = CS_AFTER_RESET) by (rewrite <- (ls_wafter _ _ Sfb); exact Wf).
  destruct (Gf Sb) as (Pb & [(Hx & _) | (_ & Wsb & Wbb)]); [rewrite Hx in Wb; discriminate|].
  assert (Hib : idle bf) by (apply (Lemmas_C02e.idle_of_u s4); assumption).
  assert (Hcrb : k_cr (k bf) = false) by congruence.
  assert (Hhob : k_hold (k bf) = false) by congruence.
  assert (HTb : text_of (cbuf bf) = txt_OK) by (rewrite <- (ls_cbuf _ _ Sfb); exact HT).
  assert (H0b : In 0%N (cbuf bf)).
  { apply L_text_in0. rewrite HTb, flen, cb4, len2. cbn [length txt_OK]. lia. }
  (* 7. OK, reset *)
  destruct (Lemmas_E2E.result_tail D Hmx bf rest txt_OK Hib (conj Sb (conj Pb (conj Wsb Wbb))) Wb Hcrb Hhob H0b HTb)
    as (s6 & O4 & R1 & R2 & R3 & R4 & _ & _ & _ & R8 & R9 & R10 & _).
  (* 8. composition *)
  assert (O12 : osteps (c1 + 1) s ([ch_A; ch_T] ++ name ++ [ch_LF] ++ rest) s3 rest []).
  { exact (Lemmas_E2E.osteps_trans D _ _ _ _ _ _ _ _ _ _ (Lemmas_E2E.osteps_of_steps D _ _ _ _ _ H1) O2). }
  pose proof (Lemmas_E2E.osteps_trans D _ _ _ _ _ _ _ _ _ _ O3 O4) as O34.
  exists ((c1 + 1) + (1 + (c2 + (7 + length txt_OK)))), s6. intros w.
  destruct (L_compose _ _ _ _ _ _ _ _ h h' i _ O12 Hsvc O34) as (W1 & W2 & W3 & W4 & W5).
  fold w in W1, W2, W3, W4, W5.
  split; [exact W1|]. split; [exact W2|]. split; [exact W3|]. split; [exact W4|]. split; [exact W5|].
  split; [exact R1|]. split; [congruence|]. split.
  - rewrite R3, <- (ls_fault _ _ Sfb). exact Ff.
  - split; [congruence|]. split; [exact R8|]. split; [exact R9 | exact R10].
Qed.

End Lines.

End E2Ec.

(* ================= the final statement ================= *)
Theorem E2E_list_line_proof : forall D s name rest h h' i c r0,
  d_mutex D = false -> 0 < ncmds D -> ncmds D <= 4 * length (cbuf s) -> 6 <= length (cbuf s) ->
  fault s = false ->
  k_state (k s) = CS_IDLE -> k_cr (k s) = false -> k_implicit (k s) = false -> k_hold (k s) = false ->
  u_state (u s) = US_IDLE -> u_count (u s) = 0 ->
  name_ok name = true -> implicit_hit D s (upper name) = false ->
  resolve (upper name) (enabled D s) (cmds D) = Some i -> nth_error (cmds D) i = Some c ->
  c_hrun c = true -> c_only_test c = false ->
  s_call h (HRun i) = (h', r0) -> r_code r0 = RC_PRINT_CMD_LIST_OK -> r_edit r0 = None ->
  r_pokes r0 = [] -> r_calls r0 = [] ->
  (forall c', In c' (cmds D) -> ~ In 0%N (c_name c')) ->
  let lines := spec_cmd_list D (enabled D s) [ch_LF] in
  forallb (fun l => length l <? length (cbuf s)) lines = true ->
  let w0 := mkw s ([ch_A; ch_T] ++ name ++ [ch_LF] ++ rest) h [] in
  exists calls, let w := nsvc D calls w0 in
    k_state (k (wst w)) = CS_IDLE /\ inq (wio w) = rest /\ whs w = h' /\
    calls_of (wtr w) = [(HRun i, RC_PRINT_CMD_LIST_OK)] /\
    mem (wst w) = mem s /\ fault (wst w) = false /\
    output_of (wtr w) = concat lines ++ [ch_LF] ++ txt_OK ++ [ch_LF].
Proof.
  intros D s name rest h h' i c r0 Hmx Hn HL H6 Hf Hst Hcr Himp Hhold Hu1 Hu2 Hok Hh Hres Hc Hrun Hot
         Hcall Hcode _ Hpk Hcl Hnames lines Hfit w0.
  destruct (L_list_line_world D Hmx s Hn HL H6 Hf Hst Hcr Himp Hhold (conj Hu1 Hu2)
              name rest h h' i c r0 Hok Hh Hres Hc Hrun Hot Hcall Hcode Hpk Hcl Hnames Hfit)
    as (calls & s6 & W).
  exists calls. intros w. cbv zeta in W. fold w0 in W. fold w in W.
  destruct W as (W1 & W2 & W3 & W4 & W5 & R1 & R2 & R3 & _).
  rewrite W1. repeat (split; [assumption|]). exact W5.
Qed.

Print Assumptions E2E_list_line_proof.

(* ================= a concrete instance (the descriptor and state of Lemmas_E2E.E2E_examples) ================= *)
Module E2Ec_example.
Import Lemmas_E2E.E2E_examples.
(* the run handler of "+XY" (command 1) asks for the command list once, then would answer ERROR *)
Definition hh : shs :=
  [((2, 1, 0), [mkHres RC_PRINT_CMD_LIST_OK None [] []; mkHres RC_ERROR None [] []])].
Definition hh' : shs := [((2, 1, 0), [mkHres RC_ERROR None [] []])].
(* "AT+xy" LF and one more byte that must stay in the queue *)
Definition line : list N := [65; 84; 43; 120; 121; 10; 7]%N.
Definition go_list (calls : nat) := obs (nsvc D0 calls (mkw s0 line hh [])).

(* the hypotheses of E2E_list_line_proof hold for this instance: the theorem is not vacuous *)
Lemma ex_list_line :
  exists calls, let w := nsvc D0 calls (mkw s0 line hh []) in
    k_state (k (wst w)) = CS_IDLE /\ inq (wio w) = [7%N] /\ whs w = hh' /\
    calls_of (wtr w) = [(HRun 1, RC_PRINT_CMD_LIST_OK)] /\
    mem (wst w) = m0 /\ fault (wst w) = false /\
    output_of (wtr w) =
      concat (spec_cmd_list D0 (enabled D0 s0) [ch_LF]) ++ [ch_LF] ++ txt_OK ++ [ch_LF].
Proof.
  apply (E2E_list_line_proof D0 s0 [43; 120; 121]%N [7%N] hh hh' 1 c1
           (mkHres RC_PRINT_CMD_LIST_OK None [] [])); try reflexivity.
  - cbn; lia.
  - cbn; lia.
  - cbn; lia.
  - intros c' Hin. cbn in Hin. destruct Hin as [<-|[<-|[]]]; cbn; intuition discriminate.
Qed.
End E2Ec_example.
