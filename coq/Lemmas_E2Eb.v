(* Lemmas_E2Eb.v — an unsolicited READ event, end to end: on the scripted always-ready environment of
   Script.v (no mutex, command machine idle, no input pending) the application triggers a READ event
   for a command whose variables are all read-write without callbacks; repeated cat_service calls emit
   exactly one unit  newline name=text1,text2,... newline  (no result code) and leave both machines idle.
   Structure: (A) the relation [usteps m s s' out] = m cat_service calls with an empty input queue whose
   command-machine half is a refused read in CS_IDLE, calling no handler, accepted output out;
   (B) single-call lemmas of the event machine; (C) the flush engine of the event machine as usteps
   (after Lemmas_C11); (D) the READ formatting loop on the event machine's buffer (Lemmas_C07e redone for
   UNSOL on top of the machine-generic lemmas of Lemmas_C19); (E) trigger, pop, the composed theorem. *)
From Coq Require Import List NArith ZArith Bool Arith Lia.
From CatV Require Import Bytes Defs Codec Spec Fsm Script ResolveDefs SchedDefs GlueDefs TextDefs.
From CatV Require Lemmas_C02e Lemmas_C07 Lemmas_C07e Lemmas_C11 Lemmas_C13 Lemmas_C19 Lemmas_E2E.
Import ListNotations.
Local Open Scope nat_scope.

Local Notation wst := (Fsm.st sio smu shs).
Local Notation wio := (Fsm.io sio smu shs).
Local Notation whs := (Fsm.hs sio smu shs).
Local Notation wtr := (Fsm.tr sio smu shs).
Local Notation idle := Lemmas_C02e.idle.
Local Notation flush_step_u := Lemmas_C11.flush_step_u.
Local Notation run_flush_u := Lemmas_C11.run_flush_u.
Local Notation calls_of_app := Lemmas_E2E.calls_of_app.
Local Notation output_of_app := Lemmas_E2E.output_of_app.
Local Notation obyte := Lemmas_E2E.obyte.

Ltac destr_all := repeat match goal with
  | |- context [if ?b then _ else _] => destruct b
  | |- context [match ?x with _ => _ end] => destruct x
  end.

Ltac brk := repeat (cbv beta iota zeta; match goal with
  | |- context [match ?x with _ => _ end] =>
      lazymatch x with
      | context [match _ with _ => _ end] => fail
      | _ => destruct x
      end
  end).

Section Ev.
Variable D : desc.
Hypothesis Hmx : d_mutex D = false.

Local Notation uessvc := (unsolicited_events_service D sio smu shs s_write s_lock s_unlock s_call).
Local Notation cmdsvc := (cmd_service D sio smu shs s_read s_write s_lock s_unlock s_call).
Local Notation sdo := (do_op D sio smu shs s_read s_write s_lock s_unlock s_call).

(* ================= A. the relation usteps ================= *)
Definition usteps (m : nat) (s s' : state) (out : list N) : Prop :=
  forall h t, exists t', calls_of t' = [] /\ output_of t' = out /\
    nsvc D m (mkw s [] h t) = mkw s' [] h (t' ++ t).

Lemma usteps_0 : forall s, usteps 0 s s [].
Proof. intros s h t. exists []. repeat split; reflexivity. Qed.

Lemma usteps_trans : forall a b s s1 s2 o1 o2,
  usteps a s s1 o1 -> usteps b s1 s2 o2 -> usteps (a + b) s s2 (o1 ++ o2).
Proof.
  intros a b s s1 s2 o1 o2 H1 H2 h t.
  destruct (H1 h t) as [t1 [C1 [O1 E1]]]. destruct (H2 h (t1 ++ t)) as [t2 [C2 [O2 E2]]].
  exists (t2 ++ t1). split; [rewrite calls_of_app, C1, C2; reflexivity|].
  split; [rewrite output_of_app, O1, O2; reflexivity|].
  unfold nsvc in *. rewrite Lemmas_C02e.iter_add, E1, E2, app_assoc. reflexivity.
Qed.

Lemma usteps_cast : forall m m' s s' o o', usteps m s s' o -> m = m' -> o = o' -> usteps m' s s' o'.
Proof. intros; subst; assumption. Qed.

Lemma usteps_world : forall calls s s2 out h, usteps calls s s2 out ->
  exists t', nsvc D calls (mkw s [] h []) = mkw s2 [] h t' /\ calls_of t' = [] /\ output_of t' = out.
Proof.
  intros calls s s2 out h H. destruct (H h []) as [t' [A [B E]]]. exists t'. rewrite E, app_nil_r.
  repeat split; assumption.
Qed.

(* ================= B. one service call: the event machine moves, the command machine is refused a byte ================= *)
Lemma svc_uev : forall s s' h t ev, k_state (k s') = CS_IDLE ->
  uessvc (mkw s [] h t) = (mkw s' [] h (ev ++ t), ST_BUSY) ->
  svc D (mkw s [] h t) = mkw s' [] h ((ERet OService ST_BUSY :: ERd None :: ev) ++ t).
Proof.
  intros s s' h t ev Hk Hu. unfold svc, step, do_op, api_service, bracket. rewrite Hmx.
  unfold service_body. rewrite Hu. unfold cmd_service. cbn [Fsm.st mkw]. rewrite Hk.
  reflexivity.
Qed.

Lemma ustep_ev : forall s s' ev out, k_state (k s') = CS_IDLE ->
  (forall h t, uessvc (mkw s [] h t) = (mkw s' [] h (ev ++ t), ST_BUSY)) ->
  calls_of ev = [] -> output_of ev = out -> usteps 1 s s' out.
Proof.
  intros s s' ev out Hk Hu Hc Ho h t. exists (ERet OService ST_BUSY :: ERd None :: ev).
  split; [|split].
  - change (ERet OService ST_BUSY :: ERd None :: ev) with ([ERet OService ST_BUSY; ERd None] ++ ev).
    rewrite calls_of_app, Hc. reflexivity.
  - change (ERet OService ST_BUSY :: ERd None :: ev) with ([ERet OService ST_BUSY; ERd None] ++ ev).
    rewrite output_of_app, Ho. apply app_nil_r.
  - unfold nsvc. simpl iter. apply svc_uev; [exact Hk | apply Hu].
Qed.

(* a state of the event machine that neither writes nor calls *)
Lemma ustep_pure : forall s f, k_state (k (f s)) = CS_IDLE ->
  (forall h t, uessvc (mkw s [] h t) = (mkw (f s) [] h t, ST_BUSY)) -> usteps 1 s (f s) [].
Proof. intros s f Hk Hu. apply (ustep_ev s (f s) [] [] Hk); [exact Hu | reflexivity | reflexivity]. Qed.

(* ================= C. the flush engine of the event machine ================= *)
Lemma flush_step_u_k : forall s, k (fst (flush_step_u s)) = k s.
Proof.
  intros s. unfold Lemmas_C11.flush_step_u, Lemmas_C11.phase_switch_u. destr_all; reflexivity.
Qed.

Lemma ustep_flush : forall s, k_state (k s) = CS_IDLE -> u_state (u s) = US_FLUSH ->
  usteps 1 s (fst (flush_step_u s)) (obyte (snd (flush_step_u s))).
Proof.
  intros s Hk Hs.
  apply (ustep_ev s (fst (flush_step_u s))
           (match snd (flush_step_u s) with Some ch => [EWr UNSOL ch true] | None => [] end)).
  - rewrite flush_step_u_k. exact Hk.
  - intros h t. unfold unsolicited_events_service. cbn [Fsm.st mkw]. rewrite Hs.
    unfold unsolicited_process_io_write, Lemmas_C11.flush_step_u. cbn [Fsm.st mkw].
    destruct (wbuf_char (u_wbuf (u s)) (ubuf s) (u_position (u s))) as [ch|]; [|reflexivity].
    destruct (ch =? 0)%N; reflexivity.
  - destruct (snd (flush_step_u s)); reflexivity.
  - destruct (snd (flush_step_u s)); reflexivity.
Qed.

Lemma run_flush_u_S : forall m s, run_flush_u (S m) s =
  (fst (run_flush_u m (fst (flush_step_u s))), obyte (snd (flush_step_u s)) ++ snd (run_flush_u m (fst (flush_step_u s)))).
Proof.
  intros m s. cbn [Lemmas_C11.run_flush_u]. destruct (flush_step_u s) as [s1 o]. cbn [fst snd].
  destruct (run_flush_u m s1) as [s2 out]. destruct o; reflexivity.
Qed.

Lemma flush_usteps : forall m s, k_state (k s) = CS_IDLE ->
  (forall j, j < m -> u_state (u (fst (run_flush_u j s))) = US_FLUSH) ->
  usteps m s (fst (run_flush_u m s)) (snd (run_flush_u m s)).
Proof.
  induction m as [|m IH]; intros s Hk Hall.
  - apply usteps_0.
  - rewrite run_flush_u_S. cbn [fst snd]. change (S m) with (1 + m).
    eapply usteps_trans.
    + apply ustep_flush; [exact Hk|]. exact (Hall 0 (Nat.lt_0_succ m)).
    + apply IH.
      * rewrite flush_step_u_k. exact Hk.
      * intros j Hj. specialize (Hall (S j) (proj1 (Nat.succ_lt_mono j m) Hj)).
        rewrite run_flush_u_S in Hall. exact Hall.
Qed.

(* what the flush of the event machine never changes *)
Definition ukeep (s s' : state) : Prop :=
  k s' = k s /\ mem s' = mem s /\ fault s' = fault s /\ gL s' = gL s /\ gS s' = gS s /\ gR s' = gR s /\
  cbuf s' = cbuf s /\ ubuf s' = ubuf s /\ u_count (u s') = u_count (u s) /\ u_cmd (u s') = u_cmd (u s).

(* a whole unit by pure iteration, with the frame of the final state (after Lemmas_C11.C11_unit_uns_proof) *)
Lemma unit_run_u : forall s txt, u_position (u s) = 0 -> u_wstate (u s) = WS_BEFORE ->
  u_wbuf (u s) = WB_NL (k_cr (k s)) -> In 0%N (ubuf s) -> text_of (ubuf s) = txt ->
  let nl := Lemmas_C11.nl_text (k_cr (k s)) in
  let nn := 3 + 2 * length nl + length txt in
  exists s3, run_flush_u nn s = (s3, nl ++ txt ++ nl) /\ ukeep s s3 /\
    u_state (u s3) = u_wafter (u s) /\
    (forall m, m < nn -> u_state (u (fst (run_flush_u m s))) = u_state (u s)).
Proof.
  intros s T Hp Hw Hb H0 HT. cbv zeta.
  set (nl := Lemmas_C11.nl_text (k_cr (k s))). set (L1 := length nl). set (L2 := length T).
  assert (T0 : text_of (Lemmas_C11.wb_text (u_wbuf (u s)) (ubuf s)) = nl).
  { rewrite Hb. apply Lemmas_C11.text_of_nl. }
  assert (I0 : In 0%N (Lemmas_C11.wb_text (u_wbuf (u s)) (ubuf s))).
  { rewrite Hb. apply Lemmas_C11.In0_nl. }
  pose proof (Lemmas_C11.phase_u_before s nl Hp Hw I0 T0) as P1. fold L1 in P1.
  match type of P1 with _ = (?x, _) => set (s1 := x) in * end.
  assert (T1 : text_of (Lemmas_C11.wb_text (u_wbuf (u s1)) (ubuf s1)) = T) by exact HT.
  pose proof (Lemmas_C11.phase_u_main s1 T eq_refl eq_refl H0 T1) as P2. fold L2 in P2.
  match type of P2 with _ = (?x, _) => set (s2 := x) in * end.
  assert (T2 : text_of (Lemmas_C11.wb_text (u_wbuf (u s2)) (ubuf s2)) = nl) by apply Lemmas_C11.text_of_nl.
  pose proof (Lemmas_C11.phase_u_after s2 nl eq_refl eq_refl (Lemmas_C11.In0_nl _) T2) as P3. fold L1 in P3.
  match type of P3 with _ = (?x, _) => set (s3 := x) in * end.
  assert (En : 3 + 2 * L1 + L2 = S L1 + (S L2 + S L1)) by lia. rewrite En. clear En.
  assert (R : run_flush_u (S L1 + (S L2 + S L1)) s = (s3, nl ++ T ++ nl)).
  { rewrite Lemmas_C11.run_flush_u_app, P1, Lemmas_C11.run_flush_u_app, P2, P3. reflexivity. }
  exists s3. split; [exact R|].
  split; [unfold ukeep; repeat split; reflexivity|]. split; [reflexivity|].
  intros m Hm.
  destruct (le_lt_dec m L1) as [A|A].
  - apply Lemmas_C11.run_flush_u_text_state. rewrite (Lemmas_C11.len_phase_rest0_u s nl Hp T0). exact A.
  - destruct (le_lt_dec m (S L1 + L2)) as [B|B].
    + replace m with (S L1 + (m - S L1)) by lia. rewrite Lemmas_C11.fst_run_flush_u_app, P1. cbn [fst].
      rewrite Lemmas_C11.run_flush_u_text_state
        by (rewrite (Lemmas_C11.len_phase_rest0_u s1 T eq_refl T1); fold L2; lia). reflexivity.
    + replace m with (S L1 + (S L2 + (m - S L1 - S L2))) by lia.
      rewrite Lemmas_C11.fst_run_flush_u_app, P1. cbn [fst]. rewrite Lemmas_C11.fst_run_flush_u_app, P2. cbn [fst].
      rewrite Lemmas_C11.run_flush_u_text_state
        by (rewrite (Lemmas_C11.len_phase_rest0_u s2 nl eq_refl T2); fold L1; lia). reflexivity.
Qed.

(* the flush has been prepared with a fresh cursor *)
Definition ufresh (s : state) : Prop :=
  u_state (u s) = US_FLUSH_WAIT /\ u_position (u s) = 0 /\ u_wstate (u s) = WS_BEFORE /\
  u_wbuf (u s) = WB_NL (k_cr (k s)).

(* the unit as service calls: LF text LF when no CR was seen *)
Lemma emit_unit_u : forall s txt, k_state (k s) = CS_IDLE -> ufresh s -> k_cr (k s) = false ->
  In 0%N (ubuf s) -> text_of (ubuf s) = txt ->
  exists s3, usteps (6 + length txt) s s3 ([ch_LF] ++ txt ++ [ch_LF]) /\ ukeep s s3 /\
    u_state (u s3) = u_wafter (u s).
Proof.
  intros s txt Hk (Hs & Hp & Hw & Hb) Hcr H0 HT.
  assert (H1 : usteps 1 s (setu_state US_FLUSH s) []).
  { apply (ustep_pure s (setu_state US_FLUSH) Hk). intros h t. unfold unsolicited_events_service.
    cbn [Fsm.st mkw]. rewrite Hs. unfold busy, upd_st, unsolicited_process_io_write_wait.
    cbn [Fsm.st mkw]. rewrite Hk. reflexivity. }
  destruct (unit_run_u (setu_state US_FLUSH s) txt Hp Hw Hb H0 HT) as (s3 & R & K & A & Hall).
  cbv zeta in *. change (k_cr (k (setu_state US_FLUSH s))) with (k_cr (k s)) in *. rewrite Hcr in *.
  change (3 + 2 * length (Lemmas_C11.nl_text false) + length txt) with (5 + length txt) in *.
  exists s3. split; [|split; [exact K | exact A]].
  change (6 + length txt) with (1 + (5 + length txt)).
  refine (usteps_trans _ _ _ _ _ _ _ H1 _).
  pose proof (flush_usteps (5 + length txt) (setu_state US_FLUSH s) Hk) as F. rewrite R in F. cbn [fst snd] in F.
  apply F. intros j Hj. rewrite (Hall j Hj). reflexivity.
Qed.

(* ================= D. the READ formatting loop on the event machine's buffer ================= *)
Local Notation slot_text := Lemmas_C07e.slot_text.
Local Notation BInv := (Lemmas_C19.BInv D).

(* what format_read_args UNSOL does to the object state for a variable without read callback *)
Definition fra_rest_u (c : cmd) (s1 : state) : state :=
  let (s2, handled) := next_format_var D UNSOL s1 in
  if handled then s2
  else if c_hread c then set_loop_state UNSOL true s2
  else start_flush_after_ok UNSOL s2.

Definition fra_state_u (c : cmd) (v : var) (s : state) : state :=
  match nth_error (mem s) (v_slot v) with
  | None => set_fault_flag s
  | Some data =>
    let (c1, ok) := fmt_var v data (get_cur UNSOL s) in
    let s1 := put_cur UNSOL c1 s in
    if negb ok then end_with_error UNSOL s1 else fra_rest_u c s1
  end.

Definition RInvU (c : cmd) (m : list (list N)) (s : state) (i : nat) (t rest nl : list N)
           (bsz : nat) : Prop :=
  BInv UNSOL c s t rest nl bsz /\ u_var (u s) = i /\ u_index (u s) = i /\
  u_state (u s) = US_FORMAT_READ_ARGS /\ mem s = m.

Definition RDoneU (m : list (list N)) (s : state) (txt : list N) (bsz : nat) : Prop :=
  fault s = false /\ (exists r, ubuf s = txt ++ 0%N :: r) /\ length (ubuf s) = bsz /\
  ufresh s /\ u_wafter (u s) = US_AFTER_OK /\ mem s = m.

(* what the formatting never changes *)
Definition uframe (s : state) : cfsm * nat * nat * nat * list N * nat :=
  (k s, gL s, gS s, gR s, cbuf s, u_count (u s)).

Lemma uframe_fra : forall c v s, uframe (fra_state_u c v s) = uframe s.
Proof.
  intros c v s. unfold fra_state_u, fra_rest_u, next_format_var, put_cur, cmd_of.
  brk; reflexivity.
Qed.

Lemma uframe_spfra : forall s, uframe (start_processing_format_read_args D UNSOL s) = uframe s.
Proof.
  intros s. unfold start_processing_format_read_args, print_string, put_cur, cmd_of.
  brk; reflexivity.
Qed.

Lemma fra_print_ok_u : forall c m s i t rest nl bsz v data txt,
  RInvU c m s i t rest nl bsz -> nth_error m (v_slot v) = Some data ->
  var_text v data = Some txt -> length data = v_size v -> (v_type v = VBufHex -> 0 < v_size v) ->
  length txt < length rest ->
  exists s1 r', RInvU c m s1 i (t ++ txt) (0%N :: r') nl bsz /\
                length txt + S (length r') = length rest /\
                fra_state_u c v s = fra_rest_u c s1.
Proof.
  intros c m s i t rest nl bsz v data txt (HB & Hv & Hi & Hst & Hm) Hd Ht Hl Hhex Hfit.
  pose proof HB as (H1 & H2 & H3 & H4 & H5 & H6).
  unfold fra_state_u. rewrite Hm, Hd. unfold get_cur. rewrite H3, H4.
  destruct (Lemmas_C07e.fmt_var_ok v data txt t rest Ht Hl Hhex Hfit) as [r' [E L]]. rewrite E.
  cbn [negb].
  change (put_cur UNSOL (mkCur ((t ++ txt) ++ 0%N :: r') (length (t ++ txt)) false) s)
    with (setg_pos UNSOL (length (t ++ txt)) (setg_buf UNSOL ((t ++ txt) ++ 0%N :: r') s)).
  eexists. exists r'. split; [|split; [exact L|reflexivity]].
  unfold RInvU. split; [apply (Lemmas_C19.BInv_set D UNSOL c s t rest); [exact HB|]|].
  - rewrite app_length. cbn [length]. lia.
  - cbn. auto.
Qed.

Lemma fra_more_u : forall c m s i t rest nl bsz v data txt,
  RInvU c m s i t rest nl bsz -> nth_error m (v_slot v) = Some data ->
  var_text v data = Some txt -> length data = v_size v -> (v_type v = VBufHex -> 0 < v_size v) ->
  length txt < length rest -> S i < length (c_vars c) ->
  exists r', RInvU c m (fra_state_u c v s) (S i) (t ++ txt ++ [ch_COMMA]) r' nl bsz /\
             length txt + S (length r') = length rest.
Proof.
  intros c m s i t rest nl bsz v data txt HR Hd Ht Hl Hhex Hfit Hi.
  destruct (fra_print_ok_u c m s i t rest nl bsz v data txt HR Hd Ht Hl Hhex Hfit)
    as (s1 & r' & HR1 & L & E).
  rewrite E. unfold fra_rest_u. destruct HR1 as (HB1 & Hv1 & Hi1 & Hst1 & Hm1).
  destruct (Lemmas_C19.nfv_more D UNSOL c s1 (t ++ txt) r' nl bsz HB1) as (s2 & E2 & HB2 & Hv2 & Hi2 & _).
  { cbn [g_index]. rewrite Hi1. exact Hi. }
  exists r'. split; [|exact L].
  assert (Hs2 : u_state (u s2) = US_FORMAT_READ_ARGS /\ mem s2 = m).
  { unfold next_format_var in E2. destruct HB1 as (_ & H2 & H3 & H4 & _). rewrite H2 in E2.
    destruct (S (g_index UNSOL s1) <? length (c_vars c)); [|discriminate].
    match type of E2 with (if ?b then _ else _) = _ => destruct b eqn:Eb end.
    - exfalso. apply Nat.leb_le in Eb. unfold g_bsz in Eb. cbn in Eb, H3, H4.
      rewrite H3, H4, !app_length in Eb. cbn [length] in Eb. lia.
    - injection E2 as <-. cbn. auto. }
  rewrite E2. cbn [g_var g_index] in Hv2, Hi2.
  unfold RInvU. rewrite Hv2, Hi2, Hi1, app_assoc. destruct Hs2. auto.
Qed.

Lemma fra_last_ok_u : forall c m s i t rest nl bsz v data txt,
  RInvU c m s i t rest nl bsz -> nth_error m (v_slot v) = Some data ->
  var_text v data = Some txt -> length data = v_size v -> (v_type v = VBufHex -> 0 < v_size v) ->
  length txt < length rest -> length (c_vars c) <= S i -> c_hread c = false ->
  RDoneU m (fra_state_u c v s) (t ++ txt) bsz.
Proof.
  intros c m s i t rest nl bsz v data txt HR Hd Ht Hl Hhex Hfit Hi Hrd.
  destruct (fra_print_ok_u c m s i t rest nl bsz v data txt HR Hd Ht Hl Hhex Hfit)
    as (s1 & r' & HR1 & L & E).
  rewrite E. unfold fra_rest_u. destruct HR1 as (HB1 & Hv1 & Hi1 & Hst1 & Hm1).
  pose proof HB1 as (H1 & H2 & H3 & H4 & H5 & H6).
  rewrite (Lemmas_C19.nfv_last D UNSOL c s1 H2) by (cbn [g_index]; rewrite Hi1; exact Hi).
  rewrite Hrd. cbn [g_buf] in H3. unfold RDoneU, ufresh. cbn.
  rewrite H3. repeat split; try assumption.
  - exists r'. reflexivity.
  - rewrite !app_length in *. cbn [length] in *. lia.
Qed.

(* ---- the start: "name=" ---- *)
Lemma read_start_ok_u : forall s ci c v vs,
  g_cmd UNSOL s = Some ci -> nth_error (pool D) ci = Some c -> fault s = false ->
  c_vars c = v :: vs -> v_access v = RW ->
  length (c_name c) + 1 < length (ubuf s) ->
  exists r, RInvU c (mem s) (start_processing_format_read_args D UNSOL s) 0
                 (c_name c ++ [ch_EQ]) (0%N :: r) (nl_chars s) (length (ubuf s)) /\
            length (c_name c) + 1 + S (length r) = length (ubuf s).
Proof.
  intros s ci c v vs Hg Hc Hf Hvs Hrw Hl.
  pose proof (Lemmas_C19.BInv_start D UNSOL s ci c Hg Hc Hf) as HB0.
  unfold start_processing_format_read_args. cbv zeta.
  set (s0 := setg_pos UNSOL 0 s) in *. set (nl := nl_chars s) in *.
  cbn [g_buf] in HB0. set (bsz := length (ubuf s)) in *.
  pose proof HB0 as (_ & H2 & H3 & H4 & _). rewrite H2.
  rewrite Lemmas_C19.print_string_as_strings.
  destruct (Lemmas_C19.ps_ok UNSOL s0 [] (ubuf s) (c_name c) [] H3 H4) as [r1 [E1 L1]].
  { cbn [concat]. rewrite app_nil_r. lia. }
  rewrite E1. cbn [negb]. cbn [concat app] in E1, L1 |- *. rewrite app_nil_r in *.
  assert (HB1 : BInv UNSOL c (setg_pos UNSOL (length (c_name c))
                                  (setg_buf UNSOL (c_name c ++ 0%N :: r1) s0))
                     (c_name c) (0%N :: r1) nl bsz).
  { apply (Lemmas_C19.BInv_set D UNSOL c s0 [] (ubuf s)); [exact HB0|]. cbn [length] in *. lia. }
  set (s1 := setg_pos UNSOL (length (c_name c)) (setg_buf UNSOL (c_name c ++ 0%N :: r1) s0)) in *.
  pose proof HB1 as (_ & H2' & H3' & H4' & _).
  rewrite Lemmas_C19.print_string_as_strings.
  destruct (Lemmas_C19.ps_ok UNSOL s1 (c_name c) (0%N :: r1) [ch_EQ] [] H3' H4') as [r2 [E2 L2]].
  { cbn [concat app length] in *. lia. }
  rewrite E2. cbn [negb]. cbn [concat app] in E2, L2 |- *.
  assert (HB2 : BInv UNSOL c (setg_pos UNSOL (length (c_name c ++ [ch_EQ]))
                            (setg_buf UNSOL ((c_name c ++ [ch_EQ]) ++ 0%N :: r2) s1))
                     (c_name c ++ [ch_EQ]) (0%N :: r2) nl bsz).
  { apply (Lemmas_C19.BInv_set D UNSOL c s1 (c_name c) (0%N :: r1)); [exact HB1|].
    rewrite app_length. cbn [length] in *. lia. }
  rewrite (Lemmas_C07e.vap_rw c v vs RO Hvs Hrw).
  exists r2. split; [|cbn [length] in *; lia].
  unfold RInvU. split; [|cbn; auto].
  destruct HB2 as (B1 & B2 & B3 & B4 & B5 & B6).
  unfold Lemmas_C19.BInv. repeat split; assumption.
Qed.

(* ---- the loop as service calls ---- *)
Lemma uframe_k : forall a b, uframe a = uframe b -> k a = k b.
Proof. intros a b E. unfold uframe in E. congruence. Qed.

(* one call in US_FORMAT_READ_ARGS for a variable without read callback *)
Lemma fra_one_u : forall s c v, k_state (k s) = CS_IDLE -> u_state (u s) = US_FORMAT_READ_ARGS ->
  cmd_of D UNSOL s = Some c -> nth_error (c_vars c) (u_var (u s)) = Some v -> v_hread v = false ->
  usteps 1 s (fra_state_u c v s) [].
Proof.
  intros s c v Hk Hs Hc Hn Hr.
  apply (ustep_pure s (fra_state_u c v)).
  - rewrite (uframe_k _ _ (uframe_fra c v s)). exact Hk.
  - intros h t. unfold unsolicited_events_service. cbn [Fsm.st mkw]. rewrite Hs. unfold format_read_args.
    cbn [Fsm.st mkw]. unfold cmd_of in Hc |- *. destruct (g_cmd UNSOL s) as [ci|] eqn:Eg; [|discriminate].
    rewrite Hc. cbn [g_var]. rewrite Hn, Hr. reflexivity.
Qed.

Lemma rloop_usteps : forall c m nl bsz, c_hread c = false ->
  forall vs v pre0 s t rest txts,
  c_vars c = pre0 ++ v :: vs -> Forall (Lemmas_C07e.rt_var_ok m) (v :: vs) ->
  RInvU c m s (length pre0) t rest nl bsz -> k_state (k s) = CS_IDLE ->
  all_some (map (slot_text m) (v :: vs)) = Some txts ->
  length (join_comma txts) < length rest ->
  exists s', usteps (length (v :: vs)) s s' [] /\
    RDoneU m s' (t ++ join_comma txts) bsz /\ uframe s' = uframe s.
Proof.
  intros c m nl bsz Hrd.
  induction vs as [|v2 vs IH]; intros v pre0 s t rest txts Hc Hok HR Hk Ha Hl;
    destruct (Lemmas_C07e.all_some_cons_st _ _ _ _ Ha) as (txt & txts' & -> & Hi & Ha');
    inversion Hok as [|? ? Hokv Hokvs]; subst;
    destruct (Lemmas_C07e.var_facts m v txt Hokv Hi) as (data & Hd & Ht & Hdl & Hhex & _);
    destruct Hokv as (_ & Hnr & _);
    pose proof (Lemmas_C19.nth_mid _ pre0 v) as Hn;
    pose proof HR as (HB & Hv & _ & Hst & _);
    pose proof HB as (_ & Hcmd & _).
  - specialize (Hn []). rewrite <- Hc, <- Hv in Hn.
    cbn [map all_some] in Ha'. injection Ha' as <-.
    rewrite Lemmas_C07e.join_comma_one in *.
    exists (fra_state_u c v s). split; [apply fra_one_u; assumption|]. split.
    + apply (fra_last_ok_u c m s (length pre0) t rest nl bsz v data txt); try assumption.
      rewrite Hc, app_length. cbn [length]. lia.
    + apply uframe_fra.
  - specialize (Hn (v2 :: vs)). rewrite <- Hc, <- Hv in Hn.
    destruct (Lemmas_C07e.all_some_cons_st _ _ _ _ Ha') as (txt2 & txts2 & -> & Hi2 & Ha2).
    rewrite Lemmas_C07e.join_comma_cons2 in *. rewrite app_length in Hl. cbn [length] in Hl.
    destruct (fra_more_u c m s (length pre0) t rest nl bsz v data txt HR Hd Ht Hdl Hhex)
      as (r' & HR' & L); [lia| rewrite Hc, app_length; cbn [length]; lia |].
    pose proof (uframe_fra c v s) as HF1.
    specialize (IH v2 (pre0 ++ [v]) (fra_state_u c v s)
                   (t ++ txt ++ [ch_COMMA]) r' (txt2 :: txts2)).
    replace (length (pre0 ++ [v])) with (S (length pre0)) in IH
      by (rewrite app_length; cbn [length]; lia).
    destruct IH as (s' & E & HD & HF2).
    + rewrite Hc, <- app_assoc. reflexivity.
    + exact Hokvs.
    + exact HR'.
    + rewrite (uframe_k _ _ HF1). exact Hk.
    + exact Ha'.
    + lia.
    + exists s'. split; [|split].
      * change (length (v :: v2 :: vs)) with (1 + length (v2 :: vs)).
        eapply usteps_cast; [eapply usteps_trans; [apply fra_one_u; eassumption | exact E] | reflexivity | reflexivity].
      * replace (t ++ txt ++ ch_COMMA :: join_comma (txt2 :: txts2))
          with ((t ++ txt ++ [ch_COMMA]) ++ join_comma (txt2 :: txts2))
          by (rewrite <- !app_assoc; reflexivity).
        exact HD.
      * rewrite HF2. exact HF1.
Qed.

(* ================= E. trigger, pop, the composed behaviour ================= *)
Lemma trigger_pop : forall s ci, Lemmas_C13.ring_wf D s -> u_count (u s) = 0 ->
  exists s1 s2, push_unsolicited_cmd D s ci T_READ = (s1, ST_OK) /\
    u_state (u s1) = u_state (u s) /\ ring_empty s1 = false /\ k s1 = k s /\
    check_unsolicited_buffers D s1 = start_processing_format_read_args D UNSOL s2 /\
    u_cmd (u s2) = Some ci /\ uframe s2 = uframe s /\ mem s2 = mem s /\ fault s2 = fault s /\
    ubuf s2 = ubuf s.
Proof.
  intros s ci (Hc & HL & Hh & Ht & Hn & Hm) H0.
  assert (Etl : u_tail (u s) = u_head (u s)).
  { rewrite Hm, H0, Nat.add_0_r. apply Nat.mod_small. exact Hh. }
  unfold push_unsolicited_cmd, ring_full, cap. rewrite H0.
  replace (0 =? d_cap D) with false by (symmetry; apply Nat.eqb_neq; lia).
  cbv zeta. replace (u_tail (u s) <? length (u_ring (u s))) with true by (symmetry; apply Nat.ltb_lt; lia).
  eexists. eexists. split; [reflexivity|]. split; [reflexivity|]. split; [reflexivity|]. split; [reflexivity|].
  split.
  - unfold check_unsolicited_buffers, pop_unsolicited_cmd, ring_empty. Lemmas_C11.scbn. cbn [Nat.eqb].
    rewrite Etl, Lemmas_C13.nth_error_upd_eq by lia. reflexivity.
  - unfold uframe. Lemmas_C11.scbn. rewrite H0. repeat split; reflexivity.
Qed.

(* the call that takes the event from the queue *)
Lemma pop_step : forall s1, u_state (u s1) = US_IDLE -> ring_empty s1 = false ->
  k_state (k (check_unsolicited_buffers D s1)) = CS_IDLE ->
  usteps 1 s1 (check_unsolicited_buffers D s1) [].
Proof.
  intros s1 Hs Hre Hk.
  apply (ustep_ev s1 (check_unsolicited_buffers D s1)
           (match ring_items D s1 with it :: _ => [EPop (fst it) (snd it)] | [] => [] end) [] Hk).
  - intros h t. unfold unsolicited_events_service. cbn [Fsm.st mkw]. rewrite Hs, Hre. cbn [negb].
    destruct (ring_items D s1); reflexivity.
  - destruct (ring_items D s1); reflexivity.
  - destruct (ring_items D s1); reflexivity.
Qed.

Lemma event_usteps : forall s ci c args,
  Lemmas_C13.ring_wf D s -> fault s = false -> k_state (k s) = CS_IDLE -> k_cr (k s) = false ->
  u_state (u s) = US_IDLE -> u_count (u s) = 0 ->
  cmd_at D ci = Some c -> Lemmas_C07e.rt_cmd_ok (mem s) c ->
  Lemmas_C07e.read_args_text (mem s) c = Some args ->
  length (c_name c ++ [ch_EQ] ++ args) < length (ubuf s) ->
  exists s1 calls s4, push_unsolicited_cmd D s ci T_READ = (s1, ST_OK) /\
    usteps calls s1 s4 ([ch_LF] ++ c_name c ++ [ch_EQ] ++ args ++ [ch_LF]) /\
    idle s4 /\ u_cmd (u s4) = None /\ k s4 = k s /\ mem s4 = mem s /\ fault s4 = false /\
    gL s4 = gL s /\ gS s4 = gS s /\ gR s4 = gR s /\ cbuf s4 = cbuf s.
Proof.
  intros s ci c args Hwf Hf Hk Hcr Hus Hu0 Hc Hrt Ha Hfit.
  pose proof Hrt as (Hne & Hok & _ & Hrd & _).
  destruct (trigger_pop s ci Hwf Hu0) as (s1 & s2 & Ep & Us1 & Re1 & K1 & Ec & Uc2 & F2 & M2 & Fa2 & B2).
  exists s1.
  (* the formatting *)
  unfold cmd_at in Hc. unfold Lemmas_C07e.read_args_text in Ha.
  change (fun v : var => match nth_error (mem s) (v_slot v) with
                         | Some d => var_text v d | None => None end)
    with (slot_text (mem s)) in Ha.
  destruct (all_some (map (slot_text (mem s)) (c_vars c))) as [txts|] eqn:Hall; [|discriminate].
  injection Ha as <-.
  destruct (c_vars c) as [|v vs] eqn:Hvs; [congruence|].
  assert (Hrw : v_access v = RW).
  { inversion Hok as [|? ? (A & _) _]. exact A. }
  rewrite !app_length in Hfit. cbn [length] in Hfit.
  rewrite <- M2 in Hok, Hall. rewrite <- B2 in Hfit. rewrite <- Fa2 in Hf.
  destruct (read_start_ok_u s2 ci c v vs Uc2 Hc Hf Hvs Hrw) as (r & HR & L); [lia|].
  pose proof (uframe_spfra s2) as F3.
  set (s3 := start_processing_format_read_args D UNSOL s2) in *.
  assert (K3 : k s3 = k s) by (rewrite (uframe_k _ _ F3), (uframe_k _ _ F2); reflexivity).
  assert (H1 : usteps 1 s1 s3 []).
  { rewrite <- Ec. apply pop_step; [congruence | exact Re1 |]. rewrite Ec, K3. exact Hk. }
  destruct (rloop_usteps c (mem s2) (nl_chars s2) (length (ubuf s2)) Hrd vs v [] s3
              (c_name c ++ [ch_EQ]) (0%N :: r) txts Hvs Hok HR ltac:(rewrite K3; exact Hk) Hall)
    as (s5 & H2 & (D1 & (r5 & D2) & D3 & D4 & D5 & D6) & F5).
  { cbn [length]. lia. }
  assert (K5 : k s5 = k s) by (rewrite (uframe_k _ _ F5); exact K3).
  (* the unit *)
  set (txt := (c_name c ++ [ch_EQ]) ++ join_comma txts) in *.
  assert (Hnn : ~ In 0%N txt).
  { unfold txt. rewrite <- app_assoc. apply (Lemmas_E2E.txt_no_nul (mem s2) c (join_comma txts)).
    - rewrite M2. exact Hrt.
    - unfold Lemmas_C07e.read_args_text.
      change (fun v : var => match nth_error (mem s2) (v_slot v) with
                             | Some d => var_text v d | None => None end)
        with (slot_text (mem s2)).
      rewrite Hvs, Hall. reflexivity. }
  assert (HT5 : text_of (ubuf s5) = txt) by (rewrite D2; apply Lemmas_C19.text_of_app0; exact Hnn).
  assert (H05 : In 0%N (ubuf s5)) by (rewrite D2; apply in_or_app; right; left; reflexivity).
  destruct (emit_unit_u s5 txt ltac:(rewrite K5; exact Hk) D4 ltac:(rewrite K5; exact Hcr) H05 HT5)
    as (s6 & H3 & (K6 & M6 & Fa6 & GL6 & GS6 & GR6 & CB6 & UB6 & UC6 & _) & A6).
  rewrite D5 in A6.
  (* the reset *)
  assert (H4 : usteps 1 s6 (unsolicited_reset_state s6) []).
  { apply (ustep_pure s6 unsolicited_reset_state).
    - change (k (unsolicited_reset_state s6)) with (k s6). rewrite K6, K5. exact Hk.
    - intros h t. unfold unsolicited_events_service. cbn [Fsm.st mkw]. rewrite A6. reflexivity. }
  exists (1 + (length (v :: vs) + ((6 + length txt) + 1))), (unsolicited_reset_state s6).
  split; [exact Ep|]. split.
  - eapply usteps_cast;
      [exact (usteps_trans _ _ _ _ _ _ _ H1 (usteps_trans _ _ _ _ _ _ _ H2 (usteps_trans _ _ _ _ _ _ _ H3 H4)))
      | reflexivity |].
    unfold txt. cbn [app]. rewrite <- !app_assoc, app_nil_r. reflexivity.
  - unfold uframe in F5, F3, F2.
    assert (G : gL s5 = gL s /\ gS s5 = gS s /\ gR s5 = gR s /\ cbuf s5 = cbuf s /\ u_count (u s5) = u_count (u s)).
    { repeat split; congruence. }
    destruct G as (G1 & G2 & G3 & G4 & G5).
    unfold Lemmas_C02e.idle, unsolicited_reset_state. Lemmas_C11.scbn.
    repeat split; try reflexivity; congruence.
Qed.

(* the parser is quiescent afterwards: a further service call answers OK *)
Lemma quiescent_ok : forall s h t, idle s -> k_state (k s) = CS_IDLE ->
  snd (sdo (mkw s [] h t) OService) = ST_OK.
Proof.
  intros s h t Hi Hk. unfold do_op, api_service, bracket. rewrite Hmx. unfold service_body.
  rewrite (Lemmas_C02e.ues_idle D (mkw s [] h t) Hi). unfold cmd_service. cbn [Fsm.st mkw]. rewrite Hk.
  unfold process_idle_state, reading, read_cmd_char. cbn [Fsm.st Fsm.io mkw s_read pop_bit rd_sched inq negb snd fst].
  destruct Hi as [U _]. cbn. rewrite U. reflexivity.
Qed.

End Ev.

(* ================= the final statement ================= *)
Theorem E2E_event_line_proof : forall D s h ci c args,
  d_mutex D = false -> Lemmas_C13.ring_wf D s -> fault s = false ->
  k_state (k s) = CS_IDLE -> k_cr (k s) = false -> k_hold (k s) = false ->
  u_state (u s) = US_IDLE -> u_count (u s) = 0 ->
  cmd_at D ci = Some c -> Lemmas_C07e.rt_cmd_ok (mem s) c ->
  Lemmas_C07e.read_args_text (mem s) c = Some args ->
  length (c_name c ++ [ch_EQ] ++ args) < length (ubuf s) ->
  let w0 := mkw s [] h [] in
  let (w1, r) := do_op D sio smu shs s_read s_write s_lock s_unlock s_call w0 (OTrigger ci T_READ) in
  r = ST_OK /\
  exists calls, let w := nsvc D calls w1 in
    u_state (u (wst w)) = US_IDLE /\ u_count (u (wst w)) = 0 /\ u_cmd (u (wst w)) = None /\
    k_state (k (wst w)) = CS_IDLE /\
    whs w = h /\ calls_of (wtr w) = [] /\ mem (wst w) = mem s /\ fault (wst w) = false /\
    output_of (wtr w) = [ch_LF] ++ c_name c ++ [ch_EQ] ++ args ++ [ch_LF] /\
    gS (wst w) = gS s /\ gR (wst w) = gR s /\
    snd (do_op D sio smu shs s_read s_write s_lock s_unlock s_call w OService) = ST_OK.
Proof.
  intros D s h ci c args Hmx Hwf Hf Hk Hcr _ Hus Hu0 Hc Hrt Ha Hfit w0.
  destruct (event_usteps D Hmx s ci c args Hwf Hf Hk Hcr Hus Hu0 Hc Hrt Ha Hfit)
    as (s1 & calls & s4 & Ep & U & I4 & C4 & K4 & M4 & F4 & GL & GS & GR & CB).
  assert (E : do_op D sio smu shs s_read s_write s_lock s_unlock s_call w0 (OTrigger ci T_READ)
              = (mkw s1 [] h [], ST_OK)).
  { unfold do_op, api_trigger, bracket. rewrite Hmx. unfold w0. cbn [Fsm.st mkw]. rewrite Ep. reflexivity. }
  rewrite E. split; [reflexivity|]. exists calls. intros w.
  destruct (usteps_world D calls s1 s4 _ h U) as (t' & E1 & E2 & E3).
  unfold w. rewrite E1. cbn [Fsm.st Fsm.hs Fsm.tr mkw].
  assert (Hk4 : k_state (k s4) = CS_IDLE) by (rewrite K4; exact Hk).
  destruct I4 as [I41 I42].
  repeat (split; [first [assumption | reflexivity]|]).
  apply (quiescent_ok D Hmx); [split; assumption | exact Hk4].
Qed.

Print Assumptions E2E_event_line_proof.

(* ================= a concrete instance (used by the example of Properties_C13e.v) ================= *)
Module E2Eb_examples.
Import Lemmas_E2E.E2E_examples.
(* the descriptor of Lemmas_E2E.E2E_examples with a 40-byte buffer for the event machine *)
Definition D1 := mkDesc [[c0; c1]] [] 40 (Some 40) 85%N 2 false.
Definition sA := init_state D1 m0.
Definition obs (w : sworld) :=
  (u_state (u (wst w)), u_count (u (wst w)), u_cmd (u (wst w)), k_state (k (wst w)), whs w, calls_of (wtr w),
   output_of (wtr w), mem (wst w), fault (wst w), (gS (wst w), gR (wst w)),
   snd (do_op D1 sio smu shs s_read s_write s_lock s_unlock s_call w OService)).
Definition go (calls : nat) :=
  let (w1, r) := do_op D1 sio smu shs s_read s_write s_lock s_unlock s_call (mkw sA [] [] []) (OTrigger 0 T_READ) in
  (r, obs (nsvc D1 calls w1)).
End E2Eb_examples.
