(* Lemmas_C01r.v - property C01: the ghost counters gS / gR tied to the OUTPUT bytes at history level.
   Lemmas_C01s.v ties gL to the input bytes (gL = non-blank lines consumed) and shows that one
   increment of gR is one unit  nl OK/ERROR nl  (a window theorem from an ack state).  Here the link
   is closed over whole histories with the session list of Lemmas_C11s.v:
     rc := the sessions of `starts` opened by the command machine with continuation CS_AFTER_RESET
   1. Kc (control skeleton, D3 only, any descriptor): gS = |rc| (+1 while a result code is prepared
      and waits for the channel), gR = |rc| (-1 while the result-code session is in flight);
   2. Rinv (domain): a prepared result code is  nl OK/ERROR nl;  hence every element of rc emits
      exactly that unit (identified by the session, not by the text);
   3. with J and gL = lines: |rc| <= lines <= |rc| + 1 at every point, equality in reading states;
   4. the command machine's accepted output = concatenation of the units of its sessions (also
      while the event machine is in the middle of a unit);
   5. the scripted forms (transfer of Lemmas_Inv.v). *)
From Coq Require Import List NArith ZArith Bool Arith Lia.
From CatV Require Import Bytes Defs Codec Spec Fsm Script SchedDefs ResolveDefs TextDefs TraceDefs Skel SkelInv SkelSim.
From CatV Require Import Lemmas_C03 Lemmas_Domain Lemmas_C11 Lemmas_C11s Lemmas_C01s.
From CatV Require Lemmas_Inv.
Import ListNotations.
Local Open Scope nat_scope.

Definition pend (c : ctl) : bool := cstate_beq (ck c) CS_FLUSH_WAIT && cstate_beq (cwa c) CS_AFTER_RESET.
Definition infl (c : ctl) : bool := cstate_beq (ck c) CS_FLUSH && cstate_beq (cwa c) CS_AFTER_RESET.
Definition Kc (c : ctl) (n : nat) : Prop :=
  wafter_ok_c (cwa c) = true /\
  gs c = n + (if pend c then 1 else 0) /\ gr c + (if infl c then 1 else 0) = n.
Definition delta (c c' : ctl) : nat := if cstate_beq (ck c) CS_FLUSH_WAIT && infl c' then 1 else 0.

Ltac unfK := unfold Kc, delta, pend, infl in *.

Lemma Kc_cmd_next : forall bad c c' r n, cmd_next bad c c' r -> Kc c n -> Kc c' (n + delta c c').
Proof.
  intros bad c c' r n H HK. dctl c. destruct k0; cbn in H; unfrel.
  8: destruct ty; cbn in H.
  all: repeat (progress (unfrel; decomp; cbn in * )).
  all: unfK; unfa; cbn in *.
  all: try solve [intuition lia].
  all: try solve [destruct wa; cbn in *; intuition (try discriminate; try lia)].
  all: try solve [destruct lf; cbn in *; intuition lia].
  all: try solve [destruct hold; cbn in *; intuition lia].
Qed.

Lemma delta_refl : forall c, delta c c = 0.
Proof. intros c. unfold delta, infl. destruct (ck c); reflexivity. Qed.

Lemma Kc_svc_next : forall bad c c' r n, svc_next bad c c' r -> Kc c n -> Kc c' (n + delta c c').
Proof.
  intros bad c c' r n (c1 & us & rc & U & C & _) HK.
  destruct (P2.uns_next_frame _ _ _ U) as (A1 & A2 & A3 & A4 & A5).
  assert (HK1 : Kc c1 n).
  { unfK. rewrite A1, A2, A4, A5. exact HK. }
  replace (delta c c') with (delta c1 c') by (unfold delta; rewrite A1; reflexivity).
  eapply Kc_cmd_next; eassumption.
Qed.

Lemma Kc_op_next : forall bad o c c' r n, op_next bad o c c' r -> Kc c n -> Kc c' (n + delta c c').
Proof.
  intros bad o c c' r n H HK.
  assert (Hid : Kc c (n + delta c c)) by (rewrite delta_refl, Nat.add_0_r; exact HK).
  destruct o; cbn [op_next] in H; try (subst c'; exact Hid).
  - destruct H as [[H _]|(r0 & H & _)]; [subst c'; exact Hid|]. eapply Kc_svc_next; eassumption.
  - destruct H as [H|[_ [z H]]]; subst c'; [exact Hid|].
    unfK. cbn [ck cwa gs gr w_chx] in *. destruct (ck c); exact Hid.
Qed.


(* ------------------------------------------------------------------ *)
Definition is_rc (x : fsm * state) : bool :=
  fsm_beq (fst x) ATCMD && cstate_beq (k_wafter (k (snd x))) CS_AFTER_RESET.
Definition rc_sessions (l : list (fsm * state)) : list (fsm * state) := filter is_rc l.
Definition rc_pending (s : state) : Prop := k_state (k s) = CS_FLUSH_WAIT /\ k_wafter (k s) = CS_AFTER_RESET.
Definition rc_in_flight (s : state) : Prop := k_state (k s) = CS_FLUSH /\ k_wafter (k s) = CS_AFTER_RESET.
Definition rc_unit (x : fsm * state) : Prop :=
  exists txt, (txt = txt_OK \/ txt = txt_ERROR) /\
    unit_of x = (ATCMD, nl_text (k_cr (k (snd x))) ++ txt ++ nl_text (k_cr (k (snd x)))).

Lemma delta_new_starts : forall s s',
  length (rc_sessions (new_starts s s')) = delta (ctl_of s) (ctl_of s').
Proof.
  intros s s'. unfold rc_sessions, new_starts, delta, infl, enters_c. cbn [ctl_of ck cwa].
  rewrite filter_app.
  assert (E : filter is_rc (if enters_u s s' then [(UNSOL, s')] else []) = []) by (destruct (enters_u s s'); reflexivity).
  rewrite E. cbn [app].
  destruct (cstate_beq (k_state (k s)) CS_FLUSH_WAIT); cbn [andb]; [|reflexivity].
  destruct (cstate_beq (k_state (k s')) CS_FLUSH); cbn [andb]; [|reflexivity].
  cbn [filter is_rc fst snd fsm_beq andb].
  destruct (cstate_beq (k_wafter (k s')) CS_AFTER_RESET); reflexivity.
Qed.

Lemma pend_iff : forall s, pend (ctl_of s) = true <-> rc_pending s.
Proof.
  intros s. unfold pend, rc_pending. cbn [ctl_of ck cwa]. rewrite andb_true_iff, !cstate_beq_true. tauto.
Qed.
Lemma infl_iff : forall s, infl (ctl_of s) = true <-> rc_in_flight s.
Proof.
  intros s. unfold infl, rc_in_flight. cbn [ctl_of ck cwa]. rewrite andb_true_iff, !cstate_beq_true. tauto.
Qed.

Lemma pend_infl_excl : forall c, pend c = true -> infl c = false.
Proof. intros c. unfold pend, infl. destruct (ck c); cbn; try discriminate. reflexivity. Qed.

(* the readable form of Kc *)
Lemma Kc_cases : forall s n, Kc (ctl_of s) n ->
  (rc_pending s -> gS s = S n /\ gR s = n) /\
  (rc_in_flight s -> gS s = n /\ S (gR s) = n) /\
  (~ rc_pending s -> ~ rc_in_flight s -> gS s = n /\ gR s = n).
Proof.
  intros s n (_ & A & B). cbn [ctl_of gs gr] in A, B. split; [|split].
  - intros P. pose proof (proj2 (pend_iff s) P) as P1. rewrite P1 in A. rewrite (pend_infl_excl _ P1) in B. lia.
  - intros P. pose proof (proj2 (infl_iff s) P) as P1. rewrite P1 in B.
    destruct (pend (ctl_of s)) eqn:E; [rewrite (pend_infl_excl _ E) in P1; discriminate|]. lia.
  - intros NP NI.
    destruct (pend (ctl_of s)) eqn:E; [exfalso; apply NP; apply pend_iff; exact E|].
    destruct (infl (ctl_of s)) eqn:F; [exfalso; apply NI; apply infl_iff; exact F|]. lia.
Qed.

Section World.
Variable D : desc.
Variables ioS muS hS : Type.
Variable io_read : ioS -> ioS * option N.
Variable io_write : ioS -> N -> ioS * bool.
Variable mu_lock : muS -> muS * bool.
Variable mu_unlock : muS -> muS * bool.
Variable h_call : hS -> hreq -> hS * hres.
Hypothesis no_uhold : forall hs q, unsol_req q = true -> r_code (snd (h_call hs q)) <> RC_HOLD.

Local Notation world := (Fsm.world ioS muS hS).
Local Notation mkWorld := (Fsm.mkWorld ioS muS hS).
Local Notation st := (Fsm.st ioS muS hS).
Local Notation tr := (Fsm.tr ioS muS hS).
Local Notation do_op := (Fsm.do_op D ioS muS hS io_read io_write mu_lock mu_unlock h_call).
Local Notation step := (Fsm.step D ioS muS hS io_read io_write mu_lock mu_unlock h_call).
Local Notation run := (Fsm.run D ioS muS hS io_read io_write mu_lock mu_unlock h_call).
Local Notation starts := (Lemmas_C11s.starts D ioS muS hS io_read io_write mu_lock mu_unlock h_call).
Local Notation started := (Lemmas_C11s.started D ioS muS hS io_read io_write mu_lock mu_unlock h_call).
Local Notation L_run_snoc := (Lemmas_C11.run_snoc D ioS muS hS io_read io_write mu_lock mu_unlock h_call).
Local Notation L_starts_snoc := (Lemmas_C11s.starts_snoc D ioS muS hS io_read io_write mu_lock mu_unlock h_call).

Lemma Hnh : Lemmas_C11.no_uns_hold hS h_call.
Proof. exact no_uhold. Qed.

Lemma st_step : forall (w : world) o, st (step w o) = st (fst (do_op w o)).
Proof. intros w o. unfold Fsm.step. destruct (do_op w o) as [w' r]. reflexivity. Qed.

Lemma Kc_step : forall (w : world) o n, Kc (ctl_of (st w)) n ->
  Kc (ctl_of (st (step w o))) (n + length (rc_sessions (new_starts (st w) (st (step w o))))).
Proof.
  intros w o n HK. rewrite delta_new_starts, st_step.
  exact (Kc_op_next _ _ _ _ _ _
           (do_op_sim D ioS muS hS io_read io_write mu_lock mu_unlock h_call no_uhold w o) HK).
Qed.

Lemma rc_sessions_app : forall a b, rc_sessions (a ++ b) = rc_sessions a ++ rc_sessions b.
Proof. intros. apply filter_app. Qed.

Lemma Kc_run : forall ops (w : world) n, Kc (ctl_of (st w)) n ->
  Kc (ctl_of (st (run w ops))) (n + length (rc_sessions (starts w ops))).
Proof.
  induction ops as [|o ops IH]; intros w n HK.
  - cbn [Fsm.run fold_left Lemmas_C11s.starts rc_sessions filter length]. rewrite Nat.add_0_r. exact HK.
  - cbn [Fsm.run fold_left Lemmas_C11s.starts]. rewrite rc_sessions_app, app_length, Nat.add_assoc.
    apply IH. apply Kc_step. exact HK.
Qed.

Lemma Kc_init : forall m, Kc (ctl_of (init_state D m)) 0.
Proof. intros m. unfold Kc. cbn. repeat split; reflexivity. Qed.

(* the counters, for ANY descriptor: D3 only *)
Theorem rc_counters_proof : forall m x mx h ops,
  let w0 := mkWorld (init_state D m) x mx h [] in
  let s := st (run w0 ops) in
  let n := length (rc_sessions (starts w0 ops)) in
  (rc_pending s -> gS s = S n /\ gR s = n) /\
  (rc_in_flight s -> gS s = n /\ S (gR s) = n) /\
  (~ rc_pending s -> ~ rc_in_flight s -> gS s = n /\ gR s = n).
Proof.
  intros m x mx h ops w0 s n. apply Kc_cases.
  exact (Kc_run ops w0 0 (Kc_init m)).
Qed.

(* ---- the prepared unit of a pending result code ---- *)
Definition Rinv (s : state) : Prop :=
  rc_pending s -> exists txt, (txt = txt_OK \/ txt = txt_ERROR) /\
    remaining s = nl_text (k_cr (k s)) ++ txt ++ nl_text (k_cr (k s)).

Lemma kpart_cr : forall s1 s, kpart s1 = kpart s -> k_cr (k s1) = k_cr (k s).
Proof. intros s1 s H. unfold kpart in H. inversion H. reflexivity. Qed.
Lemma kpart_wafter : forall s1 s, kpart s1 = kpart s -> k_wafter (k s1) = k_wafter (k s).
Proof. intros s1 s H. unfold kpart in H. inversion H. reflexivity. Qed.

Lemma asz_ack_ok : forall s, asz (ack_ok s) = asz s.
Proof. intros s. unfold asz, ack_ok. cbn. unfold strncpy_buf. rewrite firstn_length, app_length, repeat_length. unfold asz. lia. Qed.
Lemma asz_ack_error : forall s, asz (ack_error s) = asz s.
Proof. intros s. unfold asz, ack_error. cbn. unfold strncpy_buf. rewrite firstn_length, app_length, repeat_length. unfold asz. lia. Qed.

Lemma Rinv_step : forall (w : world) o n, Kc (ctl_of (st w)) n -> Rinv (st w) ->
  6 <= asz (st (step w o)) -> Rinv (st (step w o)).
Proof.
  intros w o n HK HR H6 [P1 P2].
  destruct (cstate_eq_dec (k_state (k (st w))) CS_FLUSH_WAIT) as [W|NW].
  - destruct (Lemmas_C11s.step_wait_c D ioS muS hS io_read io_write mu_lock mu_unlock h_call Hnh w o W) as [KP _].
    destruct HR as (txt & Ht & R).
    { split; [exact W|]. rewrite <- (kpart_wafter _ _ KP). exact P2. }
    exists txt. split; [exact Ht|]. rewrite (kpart_remaining _ _ KP), (kpart_cr _ _ KP). exact R.
  - pose proof (Kc_step w o n HK) as HK'.
    rewrite delta_new_starts in HK'.
    assert (D0 : delta (ctl_of (st w)) (ctl_of (st (step w o))) = 0).
    { unfold delta. cbn [ctl_of ck]. rewrite (cstate_beq_false _ _ NW). reflexivity. }
    rewrite D0, Nat.add_0_r in HK'.
    destruct HK as (_ & A & _). destruct HK' as (_ & A' & _). cbn [ctl_of gs] in A, A'.
    assert (Pn : pend (ctl_of (st w)) = false).
    { unfold pend. cbn [ctl_of ck]. rewrite (cstate_beq_false _ _ NW). reflexivity. }
    assert (Pp : pend (ctl_of (st (step w o))) = true) by (apply pend_iff; split; assumption).
    rewrite Pn in A. rewrite Pp in A'.
    destruct (P2b.gS_changes_only_at_ack D ioS muS hS io_read io_write mu_lock mu_unlock h_call w o)
      as [E | (s0 & [E|E] & _)]; [lia| |]; rewrite E in *.
    + exists txt_OK. split; [left; reflexivity|]. rewrite asz_ack_ok in H6.
      rewrite P2.remaining_ack_ok by (cbn [length txt_OK]; lia). reflexivity.
    + exists txt_ERROR. split; [right; reflexivity|]. rewrite asz_ack_error in H6.
      rewrite P2.remaining_ack_error by (cbn [length txt_ERROR]; lia). reflexivity.
Qed.

Lemma rc_new_starts : forall (w : world) o, Rinv (st w) ->
  Forall rc_unit (rc_sessions (new_starts (st w) (st (step w o)))).
Proof.
  intros w o HR. apply Forall_forall. intros x Hx. unfold rc_sessions in Hx.
  apply filter_In in Hx. destruct Hx as [Hin Hrc]. unfold new_starts in Hin.
  apply in_app_or in Hin. destruct Hin as [Hin|Hin].
  - destruct (enters_u _ _); [|destruct Hin]. destruct Hin as [<-|[]]. discriminate Hrc.
  - destruct (enters_c (st w) (st (step w o))) eqn:E; [|destruct Hin]. destruct Hin as [<-|[]].
    apply enters_c_inv in E. destruct E as [W F].
    destruct (Lemmas_C11s.step_enter_c D ioS muS hS io_read io_write mu_lock mu_unlock h_call w o F) as (_ & _ & KP);
      [rewrite W; discriminate|].
    unfold is_rc in Hrc. cbn [fst snd fsm_beq andb] in Hrc. apply cstate_beq_true in Hrc.
    destruct HR as (txt & Ht & R).
    { split; [exact W|]. rewrite <- (kpart_wafter _ _ KP). exact Hrc. }
    exists txt. split; [exact Ht|]. unfold unit_of. cbn [fst snd].
    rewrite (kpart_remaining _ _ KP), (kpart_cr _ _ KP), R. reflexivity.
Qed.
End World.

(* ------------------------------------------------------------------ *)
(* the skeleton: lines, result codes, and the control invariant J       *)
(* ------------------------------------------------------------------ *)
Lemma J_Kc_lines : forall c n, J c -> Kc c n ->
  n <= gl c <= S n /\
  (infl c = true -> gl c = n) /\ (pend c = true -> gl c = S n) /\
  (reading_state (ck c) = true -> gl c = n /\ gr c = n /\ gs c = n).
Proof.
  intros c n HJ HK. dctl c. unfold J, Jphase, settled, proc, result, flush_cont in HJ. unfK.
  cbn [ck cwa gs gr gl cty clf chold cimp ccr uk] in *.
  destruct HJ as (_ & _ & _ & _ & HP). destruct HK as (W & A & B).
  destruct k0; cbn in *; try solve [intuition (try discriminate; try lia)].
  all: destruct wa; cbn in *; try discriminate W; intuition (try discriminate; try lia).
Qed.

(* ------------------------------------------------------------------ *)
(* the command machine's share of the accepted output                   *)
(* ------------------------------------------------------------------ *)
Definition cmd_sessions (l : list (fsm * state)) : list (fsm * state) :=
  filter (fun x => fsm_beq (fst x) ATCMD) l.

Lemma rc_of_cmd_sessions : forall l,
  rc_sessions l = filter (fun x => cstate_beq (k_wafter (k (snd x))) CS_AFTER_RESET) (cmd_sessions l).
Proof.
  induction l as [|x l IH]; [reflexivity|]. unfold rc_sessions, cmd_sessions in *. cbn [filter]. unfold is_rc at 1.
  destruct (fsm_beq (fst x) ATCMD); cbn [andb filter]; [|exact IH].
  destruct (cstate_beq _ _); [f_equal|]; exact IH.
Qed.

Lemma units_of_unit_of : forall l,
  map snd (units_of ATCMD (map unit_of l)) = map (fun x => snd (unit_of x)) (cmd_sessions l).
Proof.
  induction l as [|x l IH]; [reflexivity|]. unfold units_of, cmd_sessions in *. cbn [map filter].
  assert (E : fst (unit_of x) = fst x) by (unfold unit_of; destruct (fst x); reflexivity).
  rewrite E. destruct (fsm_beq (fst x) ATCMD); cbn [map]; [f_equal|]; exact IH.
Qed.

Lemma proj_cmd_stream_inv : forall s acc units, stream_inv s acc units -> k_state (k s) <> CS_FLUSH ->
  proj ATCMD acc = concat (map snd (units_of ATCMD units)).
Proof.
  intros s acc units [(F & _) | [(_ & _ & units' & U & crs & bytes & EU & L & A & _) | (_ & _ & crs & L & A)]] NF.
  - contradiction.
  - subst acc units. rewrite proj_app, proj_tagged. cbn [fsm_beq]. rewrite app_nil_r.
    rewrite proj_stream_cmd by exact L. unfold units_of. rewrite filter_app. cbn [filter fst fsm_beq].
    rewrite app_nil_r. reflexivity.
  - subst acc. apply proj_stream_cmd. exact L.
Qed.

Lemma reading_not_flush : forall x, reading_state x = true -> x <> CS_FLUSH.
Proof. intros x H E. subst x. discriminate H. Qed.

Section Domain.
Variable D : desc.
Variables ioS muS hS : Type.
Variable io_read : ioS -> ioS * option N.
Variable io_write : ioS -> N -> ioS * bool.
Variable mu_lock : muS -> muS * bool.
Variable mu_unlock : muS -> muS * bool.
Variable h_call : hS -> hreq -> hS * hres.
Hypothesis no_uhold : forall hs q, unsol_req q = true -> r_code (snd (h_call hs q)) <> RC_HOLD.
Hypothesis handlers_valid : forall hs q, Forall (valid_icall D) (r_calls (snd (h_call hs q))).

Local Notation world := (Fsm.world ioS muS hS).
Local Notation mkWorld := (Fsm.mkWorld ioS muS hS).
Local Notation st := (Fsm.st ioS muS hS).
Local Notation tr := (Fsm.tr ioS muS hS).
Local Notation step := (Fsm.step D ioS muS hS io_read io_write mu_lock mu_unlock h_call).
Local Notation run := (Fsm.run D ioS muS hS io_read io_write mu_lock mu_unlock h_call).
Local Notation starts := (Lemmas_C11s.starts D ioS muS hS io_read io_write mu_lock mu_unlock h_call).
Local Notation started := (Lemmas_C11s.started D ioS muS hS io_read io_write mu_lock mu_unlock h_call).
Local Notation L_run_snoc := (Lemmas_C11.run_snoc D ioS muS hS io_read io_write mu_lock mu_unlock h_call).
Local Notation L_starts_snoc := (Lemmas_C11s.starts_snoc D ioS muS hS io_read io_write mu_lock mu_unlock h_call).
Local Notation W T := (T D ioS muS hS io_read io_write mu_lock mu_unlock h_call no_uhold).
Local Notation init m x mx h := (mkWorld (init_state D m) x mx h []).

Lemma handlers_icall_ok : forall hs q, Forall (icall_ok D) (r_calls (snd (h_call hs q))).
Proof.
  intros hs0 q. eapply Forall_impl; [|apply handlers_valid]. intros [ci t|z] Hc; cbn in *; [apply Hc | exact I].
Qed.

Lemma reach_asz : forall m x mx h ops, wf_desc D m -> Forall (valid_op D) ops ->
  6 <= asz (st (run (init m x mx h) ops)).
Proof.
  intros m x mx h ops WF F.
  destruct (C03_safe_reachable D ioS muS hS io_read io_write mu_lock mu_unlock h_call handlers_icall_ok
              m x mx h ops WF (Lemmas_Inv.valid_op_ok D ops F)) as [(_ & L & _) _].
  unfold asz. rewrite L. apply WF.
Qed.

Lemma Rinv_run : forall m x mx h ops, wf_desc D m -> Forall (valid_op D) ops ->
  Rinv (st (run (init m x mx h) ops)).
Proof.
  intros m x mx h ops WF. induction ops as [|o ops IH] using rev_ind; intros F.
  - intros [P _]. discriminate P.
  - pose proof (reach_asz m x mx h (ops ++ [o]) WF F) as H6. rewrite L_run_snoc in *.
    apply Forall_app in F. destruct F as [F _].
    eapply (W Rinv_step); [|exact (IH F)|exact H6].
    exact (W Kc_run ops (init m x mx h) 0 (Kc_init D m)).
Qed.

Lemma rc_units_run : forall m x mx h ops, wf_desc D m -> Forall (valid_op D) ops ->
  Forall rc_unit (rc_sessions (starts (init m x mx h) ops)).
Proof.
  intros m x mx h ops WF. induction ops as [|o ops IH] using rev_ind; intros F.
  - constructor.
  - rewrite L_starts_snoc, rc_sessions_app. apply Forall_app in F. destruct F as [F _].
    apply Forall_app. split; [exact (IH F)|].
    apply (rc_new_starts D ioS muS hS io_read io_write mu_lock mu_unlock h_call).
    apply Rinv_run; assumption.
Qed.

(* every result-code session emits  nl OK/ERROR nl;  the counters count these sessions *)
Theorem C01_result_codes_are_units_proof : forall m x mx h ops,
  wf_desc D m -> Forall (valid_op D) ops ->
  let w0 := init m x mx h in
  let s := st (run w0 ops) in
  let rc := rc_sessions (starts w0 ops) in
  Forall rc_unit rc /\
  (rc_pending s -> gS s = S (length rc) /\ gR s = length rc) /\
  (rc_in_flight s -> gS s = length rc /\ S (gR s) = length rc) /\
  (~ rc_pending s -> ~ rc_in_flight s -> gS s = length rc /\ gR s = length rc).
Proof.
  intros m x mx h ops WF F w0 s rc. split; [apply rc_units_run; assumption|].
  exact (W rc_counters_proof m x mx h ops).
Qed.

(* at every point of every history: the number of result-code sessions opened so far is the number
   of non-blank lines consumed, or one less while the last line is being processed *)
Theorem C01_rc_tracks_lines_proof : forall m x mx h ops,
  wf_desc D m -> Forall (valid_op D) ops ->
  let w0 := init m x mx h in
  let w := run w0 ops in
  let n := length (rc_sessions (starts w0 ops)) in
  let lines := nonblank_lines false (consumed (tr w)) in
  n <= lines <= S n /\
  (rc_in_flight (st w) -> lines = n) /\ (rc_pending (st w) -> lines = S n) /\
  (reading_state (k_state (k (st w))) = true -> lines = n /\ gR (st w) = n /\ gS (st w) = n).
Proof.
  intros m x mx h ops WF F w0 w n lines.
  destruct (J_in_domain D ioS muS hS io_read io_write mu_lock mu_unlock h_call no_uhold handlers_valid
              m x mx h ops WF F) as [_ HJ].
  pose proof (C01_gL_counts_lines_proof D ioS muS hS io_read io_write mu_lock mu_unlock h_call no_uhold
                handlers_valid m x mx h ops WF F) as HL. cbv zeta in HL.
  pose proof (W Kc_run ops w0 0 (Kc_init D m)) as HK. cbn [plus] in HK.
  destruct (J_Kc_lines _ _ HJ HK) as (A & B & C & E). cbn [ctl_of gl gr gs ck] in A, B, C, E.
  fold w0 w in HL. unfold lines. rewrite <- HL. fold n.
  split; [exact A|]. split; [intros P; apply B; apply infl_iff; exact P|].
  split; [intros P; apply C; apply pend_iff; exact P|exact E].
Qed.

(* the corollary that closes the clause: whenever the parser is ready to read, the command machine's
   accepted output is the concatenation of the units of its sessions, and the result-code sessions
   among them - each emitting nl OK/ERROR nl - are as many as the non-blank lines consumed *)
Theorem C01_lines_answered_in_stream_proof : forall m x mx h ops,
  wf_desc D m -> Forall (valid_op D) ops ->
  let w0 := init m x mx h in
  let w := run w0 ops in
  let ss := starts w0 ops in
  reading_state (k_state (k (st w))) = true ->
  proj ATCMD (accepted_wr (hist ioS muS hS w)) = concat (map (fun x => snd (unit_of x)) (cmd_sessions ss)) /\
  rc_sessions ss = filter (fun x => cstate_beq (k_wafter (k (snd x))) CS_AFTER_RESET) (cmd_sessions ss) /\
  Forall rc_unit (rc_sessions ss) /\
  length (rc_sessions ss) = nonblank_lines false (consumed (tr w)) /\
  gR (st w) = length (rc_sessions ss) /\ gS (st w) = gR (st w).
Proof.
  intros m x mx h ops WF F w0 w ss HR.
  destruct (C01_rc_tracks_lines_proof m x mx h ops WF F) as (_ & _ & _ & E). specialize (E HR).
  destruct E as (E1 & E2 & E3). fold w0 w ss in E1, E2, E3.
  split.
  - pose proof (stream_inv_run D ioS muS hS io_read io_write mu_lock mu_unlock h_call no_uhold m x mx h ops) as SI.
    cbv zeta in SI. unfold hist. fold w0 w in SI.
    rewrite (proj_cmd_stream_inv _ _ _ SI (reading_not_flush _ HR)).
    unfold Lemmas_C11s.started. rewrite units_of_unit_of. reflexivity.
  - split; [apply rc_of_cmd_sessions|]. split; [apply rc_units_run; assumption|].
    split; [symmetry; exact E1|]. split; [exact E2|congruence].
Qed.
End Domain.

(* ------------------------------------------------------------------ *)
(* scripted worlds: conditions on the scripts instead of on s_call      *)
(* ------------------------------------------------------------------ *)
Section ScriptedC01r.
Variable D : desc.
Local Notation st := (Fsm.st sio smu shs).
Local Notation hs := (Fsm.hs sio smu shs).
Local Notation tr := (Fsm.tr sio smu shs).
Local Notation s_run := (Fsm.run D sio smu shs s_read s_write s_lock s_unlock s_call).
Local Notation s_step := (Fsm.step D sio smu shs s_read s_write s_lock s_unlock s_call).
Local Notation s_starts := (Lemmas_C11s.starts D sio smu shs s_read s_write s_lock s_unlock s_call).
Local Notation san := (Lemmas_Inv.h_san D shs s_call).
Local Notation sanH := (Lemmas_Inv.h_sanH shs s_call).
Local Notation r_starts := (Lemmas_C11s.starts D sio smu shs s_read s_write s_lock s_unlock san).
Local Notation rH_starts := (Lemmas_C11s.starts D sio smu shs s_read s_write s_lock s_unlock sanH).
Local Notation SC T := (T D sio smu shs s_read s_write s_lock s_unlock s_call).
Local Notation HIH := (fun h : shs => Lemmas_Inv.no_rt_hold h = true).

Lemma starts_san : forall ops (w : sworld), Lemmas_Inv.SI D (hs w) -> r_starts w ops = s_starts w ops.
Proof.
  induction ops as [|o ops IH]; intros w H; [reflexivity|]. cbn [Lemmas_C11s.starts].
  destruct (SC Lemmas_Inv.step_san (Lemmas_Inv.SI D) (Lemmas_Inv.SI_step D) w o H) as [E H'].
  rewrite E. f_equal. apply IH. exact H'.
Qed.

Lemma starts_sanH : forall ops (w : sworld), Lemmas_Inv.no_rt_hold (hs w) = true -> rH_starts w ops = s_starts w ops.
Proof.
  induction ops as [|o ops IH]; intros w H; [reflexivity|]. cbn [Lemmas_C11s.starts].
  destruct (SC Lemmas_Inv.step_sanH HIH Lemmas_Inv.no_rt_hold_step w o H) as [E H'].
  rewrite E. f_equal. apply IH. exact H'.
Qed.

(* the counters, any descriptor: only `no read/test script contains HOLD` *)
Theorem rc_counters_scripted : forall m x mx h ops,
  Lemmas_Inv.no_rt_hold h = true ->
  let w0 := sinit D m x mx h in
  let s := st (s_run w0 ops) in
  let n := length (rc_sessions (s_starts w0 ops)) in
  (rc_pending s -> gS s = S n /\ gR s = n) /\
  (rc_in_flight s -> gS s = n /\ S (gR s) = n) /\
  (~ rc_pending s -> ~ rc_in_flight s -> gS s = n /\ gR s = n).
Proof.
  intros m x mx h ops Hh. cbv zeta. unfold sinit.
  rewrite <- (proj1 (SC Lemmas_Inv.run_sanH HIH Lemmas_Inv.no_rt_hold_step
                       (mkWorld sio smu shs (init_state D m) x mx h []) ops Hh)).
  rewrite <- (starts_sanH ops (mkWorld sio smu shs (init_state D m) x mx h []) Hh).
  exact (rc_counters_proof D sio smu shs s_read s_write s_lock s_unlock sanH
           (Lemmas_Inv.h_sanH_no_uhold shs s_call) m x mx h ops).
Qed.

Theorem C01_result_codes_are_units_scripted : forall m x mx h ops,
  wf_desc D m -> Forall (valid_op D) ops ->
  Lemmas_Inv.no_rt_hold h = true -> script_ok (Lemmas_Inv.res_calls_valid D) h = true ->
  let w0 := sinit D m x mx h in
  let s := st (s_run w0 ops) in
  let rc := rc_sessions (s_starts w0 ops) in
  Forall rc_unit rc /\
  (rc_pending s -> gS s = S (length rc) /\ gR s = length rc) /\
  (rc_in_flight s -> gS s = length rc /\ S (gR s) = length rc) /\
  (~ rc_pending s -> ~ rc_in_flight s -> gS s = length rc /\ gR s = length rc).
Proof.
  intros m x mx h ops WF F A B. cbv zeta. unfold sinit.
  rewrite <- (proj1 (SC Lemmas_Inv.run_san (Lemmas_Inv.SI D) (Lemmas_Inv.SI_step D)
                       (mkWorld sio smu shs (init_state D m) x mx h []) ops (conj A B))).
  rewrite <- (starts_san ops (mkWorld sio smu shs (init_state D m) x mx h []) (conj A B)).
  exact (C01_result_codes_are_units_proof D sio smu shs s_read s_write s_lock s_unlock san
           (Lemmas_Inv.h_san_no_uhold D shs s_call) (Lemmas_Inv.h_san_valid D shs s_call) m x mx h ops WF F).
Qed.

Theorem C01_rc_tracks_lines_scripted : forall m x mx h ops,
  wf_desc D m -> Forall (valid_op D) ops ->
  Lemmas_Inv.no_rt_hold h = true -> script_ok (Lemmas_Inv.res_calls_valid D) h = true ->
  let w0 := sinit D m x mx h in
  let w := s_run w0 ops in
  let n := length (rc_sessions (s_starts w0 ops)) in
  let lines := nonblank_lines false (consumed (tr w)) in
  n <= lines <= S n /\
  (rc_in_flight (st w) -> lines = n) /\ (rc_pending (st w) -> lines = S n) /\
  (reading_state (k_state (k (st w))) = true -> lines = n /\ gR (st w) = n /\ gS (st w) = n).
Proof.
  intros m x mx h ops WF F A B. cbv zeta. unfold sinit.
  rewrite <- (proj1 (SC Lemmas_Inv.run_san (Lemmas_Inv.SI D) (Lemmas_Inv.SI_step D)
                       (mkWorld sio smu shs (init_state D m) x mx h []) ops (conj A B))).
  rewrite <- (starts_san ops (mkWorld sio smu shs (init_state D m) x mx h []) (conj A B)).
  exact (C01_rc_tracks_lines_proof D sio smu shs s_read s_write s_lock s_unlock san
           (Lemmas_Inv.h_san_no_uhold D shs s_call) (Lemmas_Inv.h_san_valid D shs s_call) m x mx h ops WF F).
Qed.

Theorem C01_lines_answered_in_stream_scripted : forall m x mx h ops,
  wf_desc D m -> Forall (valid_op D) ops ->
  Lemmas_Inv.no_rt_hold h = true -> script_ok (Lemmas_Inv.res_calls_valid D) h = true ->
  let w0 := sinit D m x mx h in
  let w := s_run w0 ops in
  let ss := s_starts w0 ops in
  reading_state (k_state (k (st w))) = true ->
  proj ATCMD (accepted_wr (hist sio smu shs w)) = concat (map (fun x => snd (unit_of x)) (cmd_sessions ss)) /\
  rc_sessions ss = filter (fun x => cstate_beq (k_wafter (k (snd x))) CS_AFTER_RESET) (cmd_sessions ss) /\
  Forall rc_unit (rc_sessions ss) /\
  length (rc_sessions ss) = nonblank_lines false (consumed (tr w)) /\
  gR (st w) = length (rc_sessions ss) /\ gS (st w) = gR (st w).
Proof.
  intros m x mx h ops WF F A B. cbv zeta. unfold sinit.
  rewrite <- (proj1 (SC Lemmas_Inv.run_san (Lemmas_Inv.SI D) (Lemmas_Inv.SI_step D)
                       (mkWorld sio smu shs (init_state D m) x mx h []) ops (conj A B))).
  rewrite <- (starts_san ops (mkWorld sio smu shs (init_state D m) x mx h []) (conj A B)).
  exact (C01_lines_answered_in_stream_proof D sio smu shs s_read s_write s_lock s_unlock san
           (Lemmas_Inv.h_san_no_uhold D shs s_call) (Lemmas_Inv.h_san_valid D shs s_call) m x mx h ops WF F).
Qed.
End ScriptedC01r.
