(* Lemmas_C03.v — property C03 (memory safety of the model's index arithmetic: the sticky
   fault flag is never raised).  The work is in three parts:
     Lemmas_C03a.v  Codec level: decoders never return SFault on a NUL-terminated text,
                    printing never faults while the cursor is inside its buffer;
     Lemmas_C03b.v  the supported domain wf_desc, the invariant Safe, Safe (init_state),
                    preservation by every operation, the final theorem;
     Lemmas_C03f.v  the frame lemmas (no invariant, arbitrary states).
   This file collects the final statements under their delivered names. *)
From Coq Require Import List NArith ZArith Bool Arith.
From CatV Require Import Bytes Defs Codec Fsm.
From CatV Require Export Lemmas_C03a Lemmas_C03b Lemmas_C03f.
Import ListNotations.

(* the fault flag is never raised *)
Theorem C03_no_fault : forall (D : desc) (ioS muS hS : Type)
  (io_read : ioS -> ioS * option N) (io_write : ioS -> N -> ioS * bool)
  (mu_lock mu_unlock : muS -> muS * bool) (h_call : hS -> hreq -> hS * hres),
  (forall hs q, Forall (valid_icall D) (r_calls (snd (h_call hs q)))) ->
  forall m x mx h ops, wf_desc D m -> Forall (valid_op D) ops ->
  fault (st ioS muS hS (run D ioS muS hS io_read io_write mu_lock mu_unlock h_call
                            (mkWorld ioS muS hS (init_state D m) x mx h []) ops)) = false.
Proof. exact C03_no_fault_proof. Qed.

(* the same for events of any type (only the command index matters) *)
Theorem C03_no_fault_any_type : forall (D : desc) (ioS muS hS : Type)
  (io_read : ioS -> ioS * option N) (io_write : ioS -> N -> ioS * bool)
  (mu_lock mu_unlock : muS -> muS * bool) (h_call : hS -> hreq -> hS * hres),
  (forall hs q, Forall (icall_ok D) (r_calls (snd (h_call hs q)))) ->
  forall m x mx h ops, wf_desc D m -> Forall (op_ok D) ops ->
  fault (st ioS muS hS (run D ioS muS hS io_read io_write mu_lock mu_unlock h_call
                            (mkWorld ioS muS hS (init_state D m) x mx h []) ops)) = false.
Proof. exact C03_no_fault_any_type_proof. Qed.

(* the invariant itself: reachable states satisfy Safe *)
Theorem C03_safe_reachable : forall (D : desc) (ioS muS hS : Type)
  (io_read : ioS -> ioS * option N) (io_write : ioS -> N -> ioS * bool)
  (mu_lock mu_unlock : muS -> muS * bool) (h_call : hS -> hreq -> hS * hres),
  (forall hs q, Forall (icall_ok D) (r_calls (snd (h_call hs q)))) ->
  forall m x mx h ops, wf_desc D m -> Forall (op_ok D) ops ->
  Safe D m (st ioS muS hS (run D ioS muS hS io_read io_write mu_lock mu_unlock h_call
                            (mkWorld ioS muS hS (init_state D m) x mx h []) ops)).
Proof.
  intros D ioS muS hS io_read io_write mu_lock mu_unlock h_call HV m x mx h ops WF F.
  apply run_safe; [exact WF | exact HV | exact F | apply safe_init; exact WF].
Qed.

(* frame: for ANY state and arbitrary oracles, a step of the command machine leaves the event
   machine's buffer alone, and a step of the event machine leaves the command buffer alone *)
Theorem C03_frame : forall (D : desc) (ioS muS hS : Type)
  (io_read : ioS -> ioS * option N) (io_write : ioS -> N -> ioS * bool)
  (mu_lock mu_unlock : muS -> muS * bool) (h_call : hS -> hreq -> hS * hres)
  (w : world ioS muS hS),
  ubuf (st ioS muS hS (fst (cmd_service D ioS muS hS io_read io_write mu_lock mu_unlock h_call w)))
    = ubuf (st ioS muS hS w) /\
  cbuf (st ioS muS hS (fst (unsolicited_events_service D ioS muS hS io_write mu_lock mu_unlock h_call w)))
    = cbuf (st ioS muS hS w).
Proof.
  intros. split; [apply cmd_service_frame | apply unsolicited_service_frame].
Qed.
